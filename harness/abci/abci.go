// Package abci drives the full application through its ABCI entry points:
// InitChain, BeginBlock (commit votes, evidence, proposer), DeliverTx with real signed
// transactions, EndBlock, Commit; with recover() around every call, raw store dumps, balance
// snapshots and genesis export / re-import. Shared by the cross-cutting checks.
package abci

import (
	"bytes"
	"encoding/hex"
	"encoding/json"
	"fmt"
	"sort"
	"time"

	"verif/harness/hx"

	simapp "github.com/KiraCore/sekai/app"
	govtypes "github.com/KiraCore/sekai/x/gov/types"
	stakingtypes "github.com/KiraCore/sekai/x/staking/types"
	dbm "github.com/cometbft/cometbft-db"
	abcitypes "github.com/cometbft/cometbft/abci/types"
	"github.com/cometbft/cometbft/libs/log"
	tmproto "github.com/cometbft/cometbft/proto/tendermint/types"
	"github.com/cosmos/cosmos-sdk/baseapp"
	"github.com/cosmos/cosmos-sdk/client"
	codectypes "github.com/cosmos/cosmos-sdk/codec/types"
	"github.com/cosmos/cosmos-sdk/crypto/keys/ed25519"
	"github.com/cosmos/cosmos-sdk/crypto/keys/secp256k1"
	cryptotypes "github.com/cosmos/cosmos-sdk/crypto/types"
	simtestutil "github.com/cosmos/cosmos-sdk/testutil/sims"
	sdk "github.com/cosmos/cosmos-sdk/types"
	"github.com/cosmos/cosmos-sdk/types/tx/signing"
	xauthsigning "github.com/cosmos/cosmos-sdk/x/auth/signing"
	authtypes "github.com/cosmos/cosmos-sdk/x/auth/types"
	banktypes "github.com/cosmos/cosmos-sdk/x/bank/types"
)

const ChainID = "verif-1"

type Account struct {
	Priv cryptotypes.PrivKey
	Addr sdk.AccAddress
	Name string
}

type Validator struct {
	ConsPriv *ed25519.PrivKey
	ConsAddr sdk.ConsAddress
	ValAddr  sdk.ValAddress
	Owner    int // index into Accounts
}

type Config struct {
	Accounts   int
	Validators int
	Balance    sdk.Coins                      // per account; default 10^15 ukex + 10^12 of a few test denoms
	Gov        func(g *govtypes.GenesisState) // optional tweak of the gov genesis
	Genesis    func(gs simapp.GenesisState, cdc func(interface{}) []byte)
	Seed       uint64
}

type Chain struct {
	App        *simapp.SekaiApp
	Enc        simapp.EncodingConfig
	Accounts   []Account
	Validators []Validator
	Height     int64
	Time       time.Time
	InBlock    bool
	Panics     []string
}

// deterministic keys from a seed (so replicas and replays use the same addresses)
func secpFrom(seed uint64, i int) *secp256k1.PrivKey {
	b := make([]byte, 32)
	r := hx.NewRng(seed*1000003 + uint64(i)*7919 + 17)
	for j := range b {
		b[j] = byte(r.Next())
	}
	b[0] |= 1
	return &secp256k1.PrivKey{Key: b}
}
func edFrom(seed uint64, i int) *ed25519.PrivKey {
	b := make([]byte, 32)
	r := hx.NewRng(seed*1000033 + uint64(i)*104729 + 29)
	for j := range b {
		b[j] = byte(r.Next())
	}
	return ed25519.GenPrivKeyFromSecret(b)
}

func DefaultBalance() sdk.Coins {
	return sdk.NewCoins(
		sdk.NewCoin("ukex", sdk.NewInt(1_000_000_000_000_000)),
		sdk.NewCoin("ubtc", sdk.NewInt(1_000_000_000_000)),
		sdk.NewCoin("xeth", sdk.NewInt(1_000_000_000_000)),
		sdk.NewCoin("frozen", sdk.NewInt(1_000_000_000_000)),
	)
}

// NewApp builds an application on a fresh MemDB (no InitChain).
func NewApp() (*simapp.SekaiApp, simapp.EncodingConfig) {
	hx.SetConfig()
	enc := simapp.MakeEncodingConfig()
	app := simapp.NewInitApp(log.NewNopLogger(), dbm.NewMemDB(), nil, true, map[int64]bool{}, simapp.DefaultNodeHome, 5, enc, simtestutil.EmptyAppOptions{}, baseapp.SetChainID(ChainID))
	return app, enc
}

// GenesisFor builds the genesis app state for cfg (accounts, balances, validators, sudo actor).
func GenesisFor(app *simapp.SekaiApp, cfg Config) (simapp.GenesisState, []Account, []Validator) {
	if cfg.Accounts == 0 {
		cfg.Accounts = 6
	}
	if cfg.Validators == 0 {
		cfg.Validators = 1
	}
	if cfg.Balance == nil {
		cfg.Balance = DefaultBalance()
	}
	cdc := app.AppCodec()
	gs := simapp.NewDefaultGenesisState()
	var accs []Account
	var genAccs []authtypes.GenesisAccount
	var balances []banktypes.Balance
	supply := sdk.NewCoins()
	for i := 0; i < cfg.Accounts; i++ {
		p := secpFrom(cfg.Seed, i)
		a := Account{Priv: p, Addr: sdk.AccAddress(p.PubKey().Address()), Name: fmt.Sprintf("a%d", i)}
		accs = append(accs, a)
		genAccs = append(genAccs, authtypes.NewBaseAccount(a.Addr, nil, uint64(i), 0))
		balances = append(balances, banktypes.Balance{Address: a.Addr.String(), Coins: cfg.Balance})
		supply = supply.Add(cfg.Balance...)
	}
	gs[authtypes.ModuleName] = cdc.MustMarshalJSON(authtypes.NewGenesisState(authtypes.DefaultParams(), genAccs))
	gs[banktypes.ModuleName] = cdc.MustMarshalJSON(banktypes.NewGenesisState(banktypes.DefaultGenesisState().Params, balances, supply, []banktypes.Metadata{}, []banktypes.SendEnabled{}))

	var vals []Validator
	var svals []stakingtypes.Validator
	for i := 0; i < cfg.Validators; i++ {
		cp := edFrom(cfg.Seed, i)
		owner := i % cfg.Accounts
		pkAny, err := codectypes.NewAnyWithValue(cp.PubKey())
		if err != nil {
			panic(err)
		}
		v := Validator{ConsPriv: cp, ConsAddr: sdk.ConsAddress(cp.PubKey().Address()), ValAddr: sdk.ValAddress(accs[owner].Addr), Owner: owner}
		vals = append(vals, v)
		svals = append(svals, stakingtypes.Validator{ValKey: v.ValAddr, PubKey: pkAny, Status: stakingtypes.Active})
	}
	gs[stakingtypes.ModuleName] = cdc.MustMarshalJSON(&stakingtypes.GenesisState{Validators: svals})

	gg := govtypes.DefaultGenesis()
	sudo := govtypes.NewNetworkActor(accs[0].Addr, []uint64{govtypes.RoleSudo}, govtypes.Active,
		[]govtypes.VoteOption{govtypes.OptionYes, govtypes.OptionNo, govtypes.OptionAbstain, govtypes.OptionNoWithVeto},
		govtypes.NewPermissions([]govtypes.PermValue{govtypes.PermChangeTxFee}, nil), 1)
	gg.NetworkActors = append(gg.NetworkActors, &sudo)
	if cfg.Gov != nil {
		cfg.Gov(gg)
	}
	gs[govtypes.ModuleName] = cdc.MustMarshalJSON(gg)
	if cfg.Genesis != nil {
		cfg.Genesis(gs, func(m interface{}) []byte { return nil })
	}
	return gs, accs, vals
}

// NewChain creates the application and runs InitChain.
func NewChain(cfg Config) *Chain {
	app, enc := NewApp()
	gs, accs, vals := GenesisFor(app, cfg)
	bz, err := json.MarshalIndent(gs, "", " ")
	if err != nil {
		panic(err)
	}
	c := &Chain{App: app, Enc: enc, Accounts: accs, Validators: vals, Time: hx.BaseTime}
	c.InitFrom(bz)
	return c
}

// InitFrom runs InitChain with the given app state on c.App and commits the genesis block.
func (c *Chain) InitFrom(appState []byte) {
	c.App.InitChain(abcitypes.RequestInitChain{
		ChainId:         ChainID,
		Time:            c.Time,
		Validators:      []abcitypes.ValidatorUpdate{},
		ConsensusParams: simtestutil.DefaultConsensusParams,
		AppStateBytes:   appState,
	})
	// as CometBFT does: no commit after InitChain; the first block is height 1
	c.Height = 0
}

func (c *Chain) header() tmproto.Header {
	h := tmproto.Header{ChainID: ChainID, Height: c.Height, Time: c.Time}
	return h
}

// Ctx returns a context on the deliver state of the block in progress (or a fresh one between blocks).
func (c *Chain) Ctx() sdk.Context {
	return c.App.BaseApp.NewContext(false, c.header())
}

// QueryCtx: a read-only context on the last committed state.
func (c *Chain) QueryCtx() sdk.Context {
	return c.App.BaseApp.NewContext(true, c.header())
}

type BlockReq struct {
	Dt       int64 // seconds since previous block
	Proposer int   // validator index
	Absent   map[int]bool
	Evidence []int // validator indexes accused of double signing at the previous height
}

func (c *Chain) try(what string, f func()) string {
	p := hx.Try(f)
	if p != "" {
		c.Panics = append(c.Panics, fmt.Sprintf("h%d %s: %s", c.Height, what, p))
	}
	return p
}

// BeginBlock starts block Height+1.
func (c *Chain) BeginBlock(req BlockReq) string {
	c.Height++
	if req.Dt <= 0 {
		req.Dt = 5
	}
	c.Time = c.Time.Add(time.Duration(req.Dt) * time.Second)
	h := c.header()
	if len(c.Validators) > 0 {
		h.ProposerAddress = c.Validators[req.Proposer%len(c.Validators)].ConsAddr
	}
	var votes []abcitypes.VoteInfo
	for i, v := range c.Validators {
		votes = append(votes, abcitypes.VoteInfo{Validator: abcitypes.Validator{Address: v.ConsAddr, Power: 1}, SignedLastBlock: !req.Absent[i]})
	}
	var ev []abcitypes.Misbehavior
	for _, i := range req.Evidence {
		v := c.Validators[i%len(c.Validators)]
		ev = append(ev, abcitypes.Misbehavior{Type: abcitypes.MisbehaviorType_DUPLICATE_VOTE, Validator: abcitypes.Validator{Address: v.ConsAddr, Power: 1},
			Height: c.Height - 1, Time: c.Time.Add(-time.Duration(req.Dt) * time.Second), TotalVotingPower: int64(len(c.Validators))})
	}
	c.InBlock = true
	return c.try("BeginBlock", func() {
		c.App.BeginBlock(abcitypes.RequestBeginBlock{Header: h, LastCommitInfo: abcitypes.CommitInfo{Votes: votes}, ByzantineValidators: ev})
	})
}

type TxResult struct {
	Code   uint32
	Log    string
	Panic  string
	Events int
	Data   []byte
}

// BuildTx signs msgs with the given accounts (SIGN_MODE_DIRECT) using their on-chain numbers/sequences.
func (c *Chain) BuildTx(msgs []sdk.Msg, signers []int, fee sdk.Coins) ([]byte, error) {
	txb := c.Enc.TxConfig.NewTxBuilder()
	if err := txb.SetMsgs(msgs...); err != nil {
		return nil, err
	}
	txb.SetFeeAmount(fee)
	txb.SetGasLimit(10_000_000)
	ctx := c.Ctx()
	var nums, seqs []uint64
	for _, s := range signers {
		acc := c.App.AccountKeeper.GetAccount(ctx, c.Accounts[s].Addr)
		if acc == nil {
			nums, seqs = append(nums, 0), append(seqs, 0)
		} else {
			nums, seqs = append(nums, acc.GetAccountNumber()), append(seqs, acc.GetSequence())
		}
	}
	return SignTx(c.Enc.TxConfig, txb, privs(c, signers), nums, seqs)
}

func privs(c *Chain, signers []int) []cryptotypes.PrivKey {
	var ps []cryptotypes.PrivKey
	for _, s := range signers {
		ps = append(ps, c.Accounts[s].Priv)
	}
	return ps
}

func SignTx(cfg client.TxConfig, txb client.TxBuilder, privs []cryptotypes.PrivKey, nums, seqs []uint64) ([]byte, error) {
	mode := cfg.SignModeHandler().DefaultMode()
	var sigs []signing.SignatureV2
	for i, p := range privs {
		sigs = append(sigs, signing.SignatureV2{PubKey: p.PubKey(), Data: &signing.SingleSignatureData{SignMode: mode}, Sequence: seqs[i]})
	}
	if err := txb.SetSignatures(sigs...); err != nil {
		return nil, err
	}
	sigs = nil
	for i, p := range privs {
		sd := xauthsigning.SignerData{ChainID: ChainID, AccountNumber: nums[i], Sequence: seqs[i], PubKey: p.PubKey(), Address: sdk.AccAddress(p.PubKey().Address()).String()}
		bz, err := cfg.SignModeHandler().GetSignBytes(mode, sd, txb.GetTx())
		if err != nil {
			return nil, err
		}
		sig, err := p.Sign(bz)
		if err != nil {
			return nil, err
		}
		sigs = append(sigs, signing.SignatureV2{PubKey: p.PubKey(), Data: &signing.SingleSignatureData{SignMode: mode, Signature: sig}, Sequence: seqs[i]})
	}
	if err := txb.SetSignatures(sigs...); err != nil {
		return nil, err
	}
	return cfg.TxEncoder()(txb.GetTx())
}

// DefaultFee is accepted by the fee-range decorator with the default network properties.
func DefaultFee() sdk.Coins { return sdk.NewCoins(sdk.NewCoin("ukex", sdk.NewInt(1000))) }

// Deliver signs and delivers msgs; the first signer pays the fee.
func (c *Chain) Deliver(msgs []sdk.Msg, signers []int, fee sdk.Coins) TxResult {
	bz, err := c.BuildTx(msgs, signers, fee)
	if err != nil {
		return TxResult{Code: 1 << 30, Log: "build: " + err.Error()}
	}
	return c.DeliverRaw(bz)
}

func (c *Chain) DeliverRaw(bz []byte) TxResult {
	var r abcitypes.ResponseDeliverTx
	p := c.try("DeliverTx", func() { r = c.App.DeliverTx(abcitypes.RequestDeliverTx{Tx: bz}) })
	return TxResult{Code: r.Code, Log: r.Log, Panic: p, Events: len(r.Events), Data: r.Data}
}

type EndResult struct {
	Updates []abcitypes.ValidatorUpdate
	Panic   string
	AppHash string
}

// EndBlock + Commit.
func (c *Chain) EndBlock() EndResult {
	var r abcitypes.ResponseEndBlock
	res := EndResult{}
	res.Panic = c.try("EndBlock", func() { r = c.App.EndBlock(abcitypes.RequestEndBlock{Height: c.Height}) })
	res.Updates = r.ValidatorUpdates
	var cr abcitypes.ResponseCommit
	if p := c.try("Commit", func() { cr = c.App.Commit() }); p != "" && res.Panic == "" {
		res.Panic = p
	}
	res.AppHash = hex.EncodeToString(cr.Data)
	c.InBlock = false
	return res
}

// ---------------------------------------------------------------- observers

type KV struct{ K, V []byte }

var StoreNames = []string{"acc", "bank", "params", "upgrade", "recovery", "customslashing", "customstaking", "customgov", "spending",
	"distributor", "basket", "ubi", "tokens", "feeprocessing", "customevidence", "custody", "multistaking", "collectives", "layer2", "consensus", "ethereum"}

// DumpStores returns the raw key/value content of every mounted KV store that exists.
func (c *Chain) DumpStores(ctx sdk.Context) map[string][]KV {
	out := map[string][]KV{}
	for _, n := range StoreNames {
		key := c.App.GetKey(n)
		if key == nil {
			continue
		}
		it := ctx.KVStore(key).Iterator(nil, nil)
		var kvs []KV
		for ; it.Valid(); it.Next() {
			kvs = append(kvs, KV{append([]byte{}, it.Key()...), append([]byte{}, it.Value()...)})
		}
		it.Close()
		out[n] = kvs
	}
	return out
}

// DiffStores lists "store/hexkey" entries whose value differs (or exists on one side only).
func DiffStores(a, b map[string][]KV) []string {
	var diffs []string
	names := map[string]bool{}
	for n := range a {
		names[n] = true
	}
	for n := range b {
		names[n] = true
	}
	for n := range names {
		ma := map[string][]byte{}
		for _, kv := range a[n] {
			ma[string(kv.K)] = kv.V
		}
		mb := map[string][]byte{}
		for _, kv := range b[n] {
			mb[string(kv.K)] = kv.V
		}
		for k, v := range ma {
			if w, ok := mb[k]; !ok {
				diffs = append(diffs, n+"/-"+hex.EncodeToString([]byte(k)))
			} else if !bytes.Equal(v, w) {
				diffs = append(diffs, n+"/~"+hex.EncodeToString([]byte(k)))
			}
		}
		for k := range mb {
			if _, ok := ma[k]; !ok {
				diffs = append(diffs, n+"/+"+hex.EncodeToString([]byte(k)))
			}
		}
	}
	sort.Strings(diffs)
	return diffs
}

// Balances: every account with a balance, bech32 -> coins (sorted by address).
func (c *Chain) Balances(ctx sdk.Context) map[string]sdk.Coins {
	out := map[string]sdk.Coins{}
	c.App.BankKeeper.IterateAllBalances(ctx, func(addr sdk.AccAddress, coin sdk.Coin) bool {
		out[addr.String()] = out[addr.String()].Add(coin)
		return false
	})
	return out
}

func (c *Chain) Supply(ctx sdk.Context) sdk.Coins {
	var s sdk.Coins
	c.App.BankKeeper.IterateTotalSupply(ctx, func(coin sdk.Coin) bool { s = s.Add(coin); return false })
	return s
}

// ModuleAddr returns the address of a module account.
func ModuleAddr(name string) sdk.AccAddress { return authtypes.NewModuleAddress(name) }

// Export runs ExportAppStateAndValidators (recovering panics).
func (c *Chain) Export() (state []byte, panicked string) {
	panicked = hx.Try(func() {
		ex, err := c.App.ExportAppStateAndValidators(false, nil)
		if err != nil {
			panic(err)
		}
		state = ex.AppState
	})
	return
}

// NewChainFromExport starts a fresh application from an exported app state.
func NewChainFromExport(src *Chain, state []byte) (*Chain, string) {
	app, enc := NewApp()
	c := &Chain{App: app, Enc: enc, Accounts: src.Accounts, Validators: src.Validators, Time: src.Time}
	p := hx.Try(func() { c.InitFrom(state) })
	return c, p
}
