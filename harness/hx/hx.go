// Package hx: shared helpers of the verification harness (PRNG, app setup, Coq emitters).
package hx

import (
	"encoding/json"
	"fmt"
	"math/big"
	"os"
	"sort"
	"strconv"
	"strings"
	"sync"
	"time"

	simapp "github.com/KiraCore/sekai/app"
	appparams "github.com/KiraCore/sekai/app/params"
	tmproto "github.com/cometbft/cometbft/proto/tendermint/types"
	sdk "github.com/cosmos/cosmos-sdk/types"
)

// ---------------------------------------------------------------- PRNG (splitmix64)

type Rng struct{ s uint64 }

func NewRng(seed uint64) *Rng { return &Rng{s: seed*0x9E3779B97F4A7C15 + 0x1234567} }

func (r *Rng) Next() uint64 {
	r.s += 0x9E3779B97F4A7C15
	z := r.s
	z = (z ^ (z >> 30)) * 0xBF58476D1CE4E5B9
	z = (z ^ (z >> 27)) * 0x94D049BB133111EB
	return z ^ (z >> 31)
}
func (r *Rng) Intn(n int) int {
	if n <= 0 {
		return 0
	}
	return int(r.Next() % uint64(n))
}
func (r *Rng) Bool() bool          { return r.Next()&1 == 1 }
func (r *Rng) Chance(pct int) bool { return r.Intn(100) < pct }
func (r *Rng) Range(lo, hi int64) int64 {
	if hi <= lo {
		return lo
	}
	return lo + int64(r.Next()%uint64(hi-lo+1))
}
func (r *Rng) Fork() *Rng { return NewRng(r.Next()) }

// Seed reads VERIF_SEED (default 1).
func Seed() uint64 {
	if s := os.Getenv("VERIF_SEED"); s != "" {
		if v, err := strconv.ParseUint(s, 10, 64); err == nil {
			return v
		}
		if v, err := strconv.ParseInt(s, 10, 64); err == nil {
			return uint64(v)
		}
	}
	return 1
}

// ---------------------------------------------------------------- application

var cfgOnce sync.Once

func SetConfig() { cfgOnce.Do(func() { appparams.SetConfig() }) }

// NewApp returns a fresh in-memory application initialised with the test genesis.
func NewApp() *simapp.SekaiApp {
	SetConfig()
	return simapp.Setup(false)
}

var BaseTime = time.Unix(1700000000, 0).UTC()

// Ctx makes a deliver-state context at the given height / unix time.
func Ctx(app *simapp.SekaiApp, height int64, unix int64) sdk.Context {
	return app.BaseApp.NewContext(false, tmproto.Header{Height: height, Time: time.Unix(unix, 0).UTC()})
}

// Try runs f and reports a recovered panic as a string.
func Try(f func()) (panicked string) {
	defer func() {
		if r := recover(); r != nil {
			panicked = fmt.Sprint(r)
			if panicked == "" {
				panicked = "panic"
			}
		}
	}()
	f()
	return ""
}

// ---------------------------------------------------------------- Coq emitters

func Z(v int64) string {
	if v < 0 {
		return fmt.Sprintf("(%d)", v)
	}
	return fmt.Sprintf("%d", v)
}
func ZU(v uint64) string { return strconv.FormatUint(v, 10) }
func ZBig(v *big.Int) string {
	if v.Sign() < 0 {
		return "(" + v.String() + ")"
	}
	return v.String()
}
func ZInt(v sdk.Int) string {
	if v.IsNil() {
		return "0"
	}
	return ZBig(v.BigInt())
}
func B(b bool) string {
	if b {
		return "true"
	}
	return "false"
}

// Str emits a Coq string literal; non-printable / non-ASCII bytes are not allowed by
// the generators (they only use printable ASCII), so they are emitted via String constructors.
func Str(s string) string {
	printable := true
	for i := 0; i < len(s); i++ {
		if s[i] < 32 || s[i] > 126 {
			printable = false
			break
		}
	}
	if printable {
		return "\"" + strings.ReplaceAll(s, "\"", "\"\"") + "\""
	}
	var sb strings.Builder
	sb.WriteString("(bytes_to_string [")
	for i := 0; i < len(s); i++ {
		if i > 0 {
			sb.WriteString(";")
		}
		sb.WriteString(strconv.Itoa(int(s[i])))
	}
	sb.WriteString("])")
	return sb.String()
}
func List(xs []string) string { return "[" + strings.Join(xs, "; ") + "]" }
func Opt(ok bool, x string) string {
	if !ok {
		return "None"
	}
	return "(Some " + x + ")"
}
func Pair(a, b string) string { return "(" + a + ", " + b + ")" }
func Tuple(xs ...string) string { return "(" + strings.Join(xs, ", ") + ")" }

// Dec as the Coq model sees it: option Z scaled by 10^18.
func Dec(d sdk.Dec) string {
	if d.IsNil() {
		return "None"
	}
	return "(Some " + ZBig(d.BigInt()) + ")"
}

// ---------------------------------------------------------------- output

type Out struct {
	Dir string
}

func (o Out) Path(name string) string { return o.Dir + "/" + name }
func (o Out) WriteFile(name, content string) {
	if err := os.WriteFile(o.Path(name), []byte(content), 0o644); err != nil {
		panic(err)
	}
}
func (o Out) WriteJSON(name string, v interface{}) {
	bz, err := json.MarshalIndent(v, "", " ")
	if err != nil {
		panic(err)
	}
	o.WriteFile(name, string(bz)+"\n")
}

// Counter: histogram used for the evidence "distribution" section.
type Counter map[string]int

func (c Counter) Inc(k string) { c[k]++ }
func (c Counter) Sorted() []string {
	ks := make([]string, 0, len(c))
	for k := range c {
		ks = append(ks, k)
	}
	sort.Strings(ks)
	return ks
}

// ErrClass maps an error to a small enum.
func ErrClass(err error) string {
	if err == nil {
		return "ok"
	}
	return "rejected"
}
