// gen_mintburn4 (C04): lists every MintCoins / BurnCoins CALL in non-test code under x/ and app/
// of the tree given by -repo (package directory, enclosing function, keeper field the call goes
// through, module whose account is minted to / burnt from), and the maccPerms table of
// app/app.go.  Writes coq/Gen/MintBurnSites.v (data only).  Anything that cannot be resolved is
// recorded in mb_gen_errors (Properties/C04.v states mb_gen_errors = []).
package main

import (
	"flag"
	"fmt"
	"go/ast"
	"go/parser"
	"go/token"
	"os"
	"path/filepath"
	"sort"
	"strconv"
	"strings"
)

var errs []string

func bad(f string, a ...interface{}) { errs = append(errs, fmt.Sprintf(f, a...)) }

func coqStr(s string) string { return "\"" + strings.ReplaceAll(s, "\"", "\"\"") + "\"" }

func exprName(e ast.Expr) string {
	switch x := e.(type) {
	case *ast.Ident:
		return x.Name
	case *ast.SelectorExpr:
		return exprName(x.X) + "." + x.Sel.Name
	case *ast.BasicLit:
		return x.Value
	case *ast.CallExpr:
		return exprName(x.Fun) + "()"
	}
	return "?"
}

// constants of the SDK packages that appear as module names (cosmos-sdk v0.47.6)
var sdkConst = map[string]string{
	"github.com/cosmos/cosmos-sdk/x/auth/types.FeeCollectorName": "fee_collector",
	"github.com/cosmos/cosmos-sdk/x/mint/types.ModuleName":       "mint",
	"github.com/cosmos/cosmos-sdk/x/auth/types.Minter":           "minter",
	"github.com/cosmos/cosmos-sdk/x/auth/types.Burner":           "burner",
	"github.com/cosmos/cosmos-sdk/x/auth/types.Staking":          "staking",
}

const repoMod = "github.com/KiraCore/sekai/"

// string constants declared in a package directory of the repo
func pkgConsts(repo, rel string) map[string]string {
	out := map[string]string{}
	fset := token.NewFileSet()
	files, _ := filepath.Glob(filepath.Join(repo, rel, "*.go"))
	for _, fn := range files {
		if strings.HasSuffix(fn, "_test.go") || strings.HasSuffix(fn, ".pb.go") || strings.HasSuffix(fn, ".pb.gw.go") {
			continue
		}
		f, err := parser.ParseFile(fset, fn, nil, 0)
		if err != nil {
			continue
		}
		for _, d := range f.Decls {
			gd, ok := d.(*ast.GenDecl)
			if !ok || (gd.Tok != token.CONST && gd.Tok != token.VAR) { // several modules declare `var ModuleName = "..."`
				continue
			}
			for _, sp := range gd.Specs {
				vs, ok := sp.(*ast.ValueSpec)
				if !ok {
					continue
				}
				for i, n := range vs.Names {
					if i < len(vs.Values) {
						if bl, ok := vs.Values[i].(*ast.BasicLit); ok && bl.Kind == token.STRING {
							if v, err := strconv.Unquote(bl.Value); err == nil {
								out[n.Name] = v
							}
						}
					}
				}
			}
		}
	}
	return out
}

type resolver struct {
	repo    string
	imports map[string]string // alias -> import path
	pkgRel  string
	cache   map[string]map[string]string
}

func (r *resolver) consts(rel string) map[string]string {
	if c, ok := r.cache[rel]; ok {
		return c
	}
	c := pkgConsts(r.repo, rel)
	r.cache[rel] = c
	return c
}

// resolve an expression denoting a module-name / permission string
func (r *resolver) resolve(e ast.Expr, params map[string]bool) (string, bool) {
	switch x := e.(type) {
	case *ast.BasicLit:
		if x.Kind == token.STRING {
			v, err := strconv.Unquote(x.Value)
			return v, err == nil
		}
	case *ast.Ident:
		if params[x.Name] {
			return "<param:" + x.Name + ">", true
		}
		if v, ok := r.consts(r.pkgRel)[x.Name]; ok {
			return v, true
		}
	case *ast.SelectorExpr:
		if id, ok := x.X.(*ast.Ident); ok {
			path, ok := r.imports[id.Name]
			if !ok {
				return "", false
			}
			if v, ok := sdkConst[path+"."+x.Sel.Name]; ok {
				return v, true
			}
			if strings.HasPrefix(path, repoMod) {
				if v, ok := r.consts(strings.TrimPrefix(path, repoMod))[x.Sel.Name]; ok {
					return v, true
				}
			}
		}
	}
	return "", false
}

func importsOf(f *ast.File) map[string]string {
	m := map[string]string{}
	for _, im := range f.Imports {
		p, _ := strconv.Unquote(im.Path.Value)
		name := filepath.Base(p)
		if im.Name != nil {
			name = im.Name.Name
		}
		m[name] = p
	}
	return m
}

type site struct{ kind, pkg, fn, via, module string }

func main() {
	repo := flag.String("repo", "/repo", "source tree")
	out := flag.String("out", "", "output .v file")
	flag.Parse()
	cache := map[string]map[string]string{}
	var sites []site
	fset := token.NewFileSet()
	for _, top := range []string{"x", "app"} {
		filepath.Walk(filepath.Join(*repo, top), func(path string, info os.FileInfo, err error) error {
			if err != nil || info.IsDir() || !strings.HasSuffix(path, ".go") || strings.HasSuffix(path, "_test.go") ||
				strings.HasSuffix(path, ".pb.go") || strings.HasSuffix(path, ".pb.gw.go") {
				return nil
			}
			f, err := parser.ParseFile(fset, path, nil, 0)
			if err != nil {
				bad("parse %s: %v", path, err)
				return nil
			}
			rel, _ := filepath.Rel(*repo, filepath.Dir(path))
			rs := &resolver{repo: *repo, imports: importsOf(f), pkgRel: rel, cache: cache}
			for _, d := range f.Decls {
				fd, ok := d.(*ast.FuncDecl)
				if !ok || fd.Body == nil {
					continue
				}
				params := map[string]bool{}
				for _, p := range fd.Type.Params.List {
					for _, n := range p.Names {
						params[n.Name] = true
					}
				}
				ast.Inspect(fd.Body, func(n ast.Node) bool {
					c, ok := n.(*ast.CallExpr)
					if !ok {
						return true
					}
					sel, ok := c.Fun.(*ast.SelectorExpr)
					if !ok || (sel.Sel.Name != "MintCoins" && sel.Sel.Name != "BurnCoins") {
						return true
					}
					kind := "mint"
					if sel.Sel.Name == "BurnCoins" {
						kind = "burn"
					}
					if len(c.Args) != 3 {
						bad("%s:%s: %s call with %d arguments", rel, fd.Name.Name, sel.Sel.Name, len(c.Args))
						return true
					}
					mod, ok := rs.resolve(c.Args[1], params)
					if !ok {
						bad("%s:%s: cannot resolve module argument %s", rel, fd.Name.Name, exprName(c.Args[1]))
						mod = "?" + exprName(c.Args[1])
					}
					via := exprName(sel.X)
					if i := strings.LastIndex(via, "."); i >= 0 {
						via = via[i+1:]
					}
					sites = append(sites, site{kind, rel, fd.Name.Name, via, mod})
					return true
				})
			}
			return nil
		})
	}
	sort.Slice(sites, func(i, j int) bool {
		a, b := sites[i], sites[j]
		if a.pkg != b.pkg {
			return a.pkg < b.pkg
		}
		if a.fn != b.fn {
			return a.fn < b.fn
		}
		if a.kind != b.kind {
			return a.kind < b.kind
		}
		return a.module < b.module
	})

	// maccPerms of app/app.go
	type perm struct {
		name           string
		minter, burner bool
		other          []string
	}
	var perms []perm
	appPath := filepath.Join(*repo, "app", "app.go")
	af, err := parser.ParseFile(fset, appPath, nil, 0)
	if err != nil {
		bad("parse app.go: %v", err)
	} else {
		rs := &resolver{repo: *repo, imports: importsOf(af), pkgRel: "app", cache: cache}
		found := false
		ast.Inspect(af, func(n ast.Node) bool {
			vs, ok := n.(*ast.ValueSpec)
			if !ok || len(vs.Names) != 1 || vs.Names[0].Name != "maccPerms" || len(vs.Values) != 1 {
				return true
			}
			cl, ok := vs.Values[0].(*ast.CompositeLit)
			if !ok {
				bad("maccPerms is not a composite literal")
				return false
			}
			found = true
			for _, el := range cl.Elts {
				kv, ok := el.(*ast.KeyValueExpr)
				if !ok {
					bad("maccPerms element is not key: value")
					continue
				}
				name, ok := rs.resolve(kv.Key, nil)
				if !ok {
					bad("maccPerms key %s not resolved", exprName(kv.Key))
					continue
				}
				p := perm{name: name}
				switch v := kv.Value.(type) {
				case *ast.Ident:
					if v.Name != "nil" {
						bad("maccPerms value of %s: %s", name, v.Name)
					}
				case *ast.CompositeLit:
					for _, pe := range v.Elts {
						ps, ok := rs.resolve(pe, nil)
						if !ok {
							bad("maccPerms permission %s of %s not resolved", exprName(pe), name)
							continue
						}
						switch ps {
						case "minter":
							p.minter = true
						case "burner":
							p.burner = true
						default:
							p.other = append(p.other, ps)
						}
					}
				default:
					bad("maccPerms value of %s has unexpected shape", name)
				}
				perms = append(perms, p)
			}
			return false
		})
		if !found {
			bad("maccPerms not found in app/app.go")
		}
	}
	sort.Slice(perms, func(i, j int) bool { return perms[i].name < perms[j].name })

	// which redemption rule Undelegate uses: GetPoolCoins (amount*(1-slashed)) or GetRedeemPoolCoins (pro rata, rounded up)
	proRata, foundRule := false, false
	if uf, err := parser.ParseFile(fset, filepath.Join(*repo, "x", "multistaking", "keeper", "delegation.go"), nil, 0); err != nil {
		bad("parse delegation.go: %v", err)
	} else {
		for _, d := range uf.Decls {
			fd, ok := d.(*ast.FuncDecl)
			if !ok || fd.Name.Name != "Undelegate" || fd.Body == nil {
				continue
			}
			ast.Inspect(fd.Body, func(n ast.Node) bool {
				if c, ok := n.(*ast.CallExpr); ok {
					switch exprName(c.Fun) {
					case "types.GetRedeemPoolCoins":
						proRata, foundRule = true, true
					case "types.GetPoolCoins":
						if !foundRule {
							foundRule = true
						}
					}
				}
				return true
			})
		}
		if !foundRule {
			bad("Undelegate calls neither types.GetPoolCoins nor types.GetRedeemPoolCoins")
		}
	}

	var sb strings.Builder
	sb.WriteString("(* GENERATED by harness/cmd/gen_mintburn4 from the source tree -- do not edit. *)\n")
	sb.WriteString("From Sekai Require Import Base.Prelude.\nLocal Open Scope string_scope.\n\n")
	sb.WriteString("(* (kind, package directory, enclosing function, keeper field, module account) *)\n")
	sb.WriteString("Definition mb_sites : list (string * string * string * string * string) := [\n")
	for i, s := range sites {
		sep := ";"
		if i == len(sites)-1 {
			sep = ""
		}
		fmt.Fprintf(&sb, "  (%s, %s, %s, %s, %s)%s\n", coqStr(s.kind), coqStr(s.pkg), coqStr(s.fn), coqStr(s.via), coqStr(s.module), sep)
	}
	sb.WriteString("].\n\n(* app/app.go maccPerms: (module account, (Minter, Burner)) *)\n")
	sb.WriteString("Definition macc_perms : list (string * (bool * bool)) := [\n")
	for i, p := range perms {
		sep := ";"
		if i == len(perms)-1 {
			sep = ""
		}
		fmt.Fprintf(&sb, "  (%s, (%v, %v))%s\n", coqStr(p.name), p.minter, p.burner, sep)
		for _, o := range p.other {
			bad("maccPerms: unexpected permission %s of %s", o, p.name)
		}
	}
	fmt.Fprintf(&sb, "].\n\n(* x/multistaking Undelegate burns shares pro rata (GetRedeemPoolCoins) instead of amount*(1-slashed) (GetPoolCoins) *)\nDefinition undelegate_pro_rata : bool := %v.\n", proRata)
	sb.WriteString("\nDefinition mb_gen_errors : list string := [")
	for i, e := range errs {
		if i > 0 {
			sb.WriteString("; ")
		}
		sb.WriteString(coqStr(e))
	}
	sb.WriteString("].\n")
	if *out == "" {
		fmt.Print(sb.String())
		return
	}
	// leave the file (and its mtime) alone when nothing changed: concurrent runs of the check share coq/Gen
	if old, err := os.ReadFile(*out); err == nil && string(old) == sb.String() {
		fmt.Printf("gen_mintburn4: %d sites, %d module accounts, %d errors (unchanged)\n", len(sites), len(perms), len(errs))
		return
	}
	if err := os.WriteFile(*out, []byte(sb.String()), 0o644); err != nil {
		fmt.Fprintln(os.Stderr, err)
		os.Exit(1)
	}
	fmt.Printf("gen_mintburn4: %d sites, %d module accounts, %d errors\n", len(sites), len(perms), len(errs))
}
