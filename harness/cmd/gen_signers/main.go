// gen_signers: translator from the msg types (GetSigners), the msg-server methods and the
// begin/end blockers of every module under <repo>/x to the Coq table Gen/DebitSites.v
// (types in Model/Debit.v): for every bank call reachable from a handler, where the debited
// address, the credited address and the amount come from (signer field, other msg field,
// stored record, module account, unknown), and whether the stored record is compared with a
// signer.  Purely syntactic (go/ast, no go/types).  It exits non-zero when a msg_server.go
// cannot be parsed or no handler is found; anything it cannot classify becomes OUnknown and,
// for calls it does not follow, a line of gen_notes.
package main

import (
	"bytes"
	"flag"
	"fmt"
	"go/ast"
	"go/parser"
	"go/printer"
	"go/token"
	"os"
	"path/filepath"
	"sort"
	"strconv"
	"strings"
)

var fset = token.NewFileSet()

const sekaiX = "github.com/KiraCore/sekai/x/"

func die(f string, a ...interface{}) {
	fmt.Fprintf(os.Stderr, "gen_signers: "+f+"\n", a...)
	os.Exit(2)
}

func src(n ast.Node) string {
	if n == nil {
		return ""
	}
	var b bytes.Buffer
	if err := printer.Fprint(&b, fset, n); err != nil {
		return "?"
	}
	return b.String()
}

// short: whitespace collapsed, ASCII only, at most 60 characters
func short(s string) string {
	s = strings.Join(strings.Fields(s), " ")
	var b strings.Builder
	for _, r := range s {
		if r < 32 || r > 126 {
			b.WriteByte('?')
		} else {
			b.WriteRune(r)
		}
	}
	s = b.String()
	if len(s) > 60 {
		s = s[:57] + "..."
	}
	return s
}

func coqStr(s string) string {
	return "\"" + strings.ReplaceAll(short(s), "\"", "\"\"") + "\""
}

// ---------------------------------------------------------------- packages

type fnInfo struct {
	pkg      *pkgInfo
	file     string // base name
	imports  map[string]string
	decl     *ast.FuncDecl
	recvName string
	recvType string
}

func (f *fnInfo) name() string { return f.decl.Name.Name }

type structInfo struct {
	st      *ast.StructType
	imports map[string]string
}

type pkgInfo struct {
	mod     string
	kind    string // keeper | root | types
	funcs   map[string]*fnInfo
	structs map[string]*structInfo
	ifaces  map[string]bool
	order   []*fnInfo
	consts  map[string]string // string constants
}

var mods []string                     // directory names under x/, sorted
var keeperPkg = map[string]*pkgInfo{} // by module dir
var rootPkg = map[string]*pkgInfo{}   // by module dir
var typesPkg = map[string]*pkgInfo{}  // by module dir
var moduleName = map[string]string{}  // dir -> ModuleName constant
var notes []string
var noteSeen = map[string]bool{}

func note(f string, a ...interface{}) {
	s := short200(fmt.Sprintf(f, a...))
	if !noteSeen[s] {
		noteSeen[s] = true
		notes = append(notes, s)
	}
}

func short200(s string) string {
	s = strings.Join(strings.Fields(s), " ")
	if len(s) > 200 {
		s = s[:197] + "..."
	}
	return s
}

func importMap(f *ast.File) map[string]string {
	m := map[string]string{}
	for _, im := range f.Imports {
		p, err := strconv.Unquote(im.Path.Value)
		if err != nil {
			continue
		}
		name := ""
		if im.Name != nil {
			name = im.Name.Name
		} else {
			name = p[strings.LastIndex(p, "/")+1:]
		}
		if name == "_" || name == "." {
			continue
		}
		m[name] = p
	}
	return m
}

func typeName(e ast.Expr) string {
	switch x := e.(type) {
	case *ast.StarExpr:
		return typeName(x.X)
	case *ast.Ident:
		return x.Name
	case *ast.IndexExpr:
		return typeName(x.X)
	case *ast.ParenExpr:
		return typeName(x.X)
	}
	return ""
}

// loadPkg parses the non-test files of dir; strict = a parse error is fatal
func loadPkg(dir, mod, kind string) *pkgInfo {
	ents, err := os.ReadDir(dir)
	if err != nil {
		return nil
	}
	p := &pkgInfo{mod: mod, kind: kind, funcs: map[string]*fnInfo{}, structs: map[string]*structInfo{},
		ifaces: map[string]bool{}, consts: map[string]string{}}
	var names []string
	for _, e := range ents {
		n := e.Name()
		if e.IsDir() || !strings.HasSuffix(n, ".go") || strings.HasSuffix(n, "_test.go") {
			continue
		}
		if strings.HasSuffix(n, ".pb.go") || strings.HasSuffix(n, ".pb.gw.go") {
			continue
		}
		names = append(names, n)
	}
	sort.Strings(names)
	if len(names) == 0 {
		return nil
	}
	for _, n := range names {
		path := filepath.Join(dir, n)
		f, err := parser.ParseFile(fset, path, nil, 0)
		if err != nil {
			die("cannot parse %s: %v", path, err)
		}
		im := importMap(f)
		for _, d := range f.Decls {
			switch x := d.(type) {
			case *ast.FuncDecl:
				fi := &fnInfo{pkg: p, file: n, imports: im, decl: x}
				if x.Recv != nil && len(x.Recv.List) == 1 {
					fi.recvType = typeName(x.Recv.List[0].Type)
					if len(x.Recv.List[0].Names) == 1 {
						fi.recvName = x.Recv.List[0].Names[0].Name
					}
				}
				key := fi.recvType + "." + x.Name.Name
				if _, dup := p.funcs[key]; !dup {
					p.funcs[key] = fi
				}
				p.order = append(p.order, fi)
			case *ast.GenDecl:
				for _, s := range x.Specs {
					switch sp := s.(type) {
					case *ast.TypeSpec:
						switch t := sp.Type.(type) {
						case *ast.StructType:
							p.structs[sp.Name.Name] = &structInfo{st: t, imports: im}
						case *ast.InterfaceType:
							p.ifaces[sp.Name.Name] = true
						}
					case *ast.ValueSpec:
						if x.Tok != token.CONST && x.Tok != token.VAR {
							continue
						}
						for i, nm := range sp.Names {
							if i < len(sp.Values) {
								if bl, ok := sp.Values[i].(*ast.BasicLit); ok && bl.Kind == token.STRING {
									if v, err := strconv.Unquote(bl.Value); err == nil {
										p.consts[nm.Name] = v
									}
								}
							}
						}
					}
				}
			}
		}
	}
	return p
}

// ---------------------------------------------------------------- signers

type signerInfo struct {
	order []string
	set   map[string]bool
}

var signers = map[string]*signerInfo{} // "<mod>.<Type>"

func collectSigners() {
	for _, m := range mods {
		p := typesPkg[m]
		if p == nil {
			continue
		}
		for _, fi := range p.order {
			if fi.name() != "GetSigners" || fi.recvType == "" || fi.decl.Body == nil {
				continue
			}
			si := &signerInfo{set: map[string]bool{}}
			if fi.recvName != "" && fi.recvName != "_" {
				callFun := map[*ast.SelectorExpr]bool{}
				ast.Inspect(fi.decl.Body, func(n ast.Node) bool {
					if c, ok := n.(*ast.CallExpr); ok {
						if s, ok := c.Fun.(*ast.SelectorExpr); ok {
							callFun[s] = true
						}
					}
					return true
				})
				ast.Inspect(fi.decl.Body, func(n ast.Node) bool {
					s, ok := n.(*ast.SelectorExpr)
					if !ok {
						return true
					}
					id, ok := s.X.(*ast.Ident)
					if !ok || id.Name != fi.recvName {
						return true
					}
					f := s.Sel.Name
					if callFun[s] {
						// proto getter m.GetSender() counts as the field Sender
						if strings.HasPrefix(f, "Get") && len(f) > 3 && f != "GetSigners" {
							f = f[3:]
						} else {
							return true
						}
					}
					if !si.set[f] {
						si.set[f] = true
						si.order = append(si.order, f)
					}
					return true
				})
			}
			signers[m+"."+fi.recvType] = si
		}
	}
}

// ---------------------------------------------------------------- origins

type okind int

const (
	kNone okind = iota
	kUnknown
	kSigner
	kField
	kStored
	kModule
	kWhole // the message itself
	kLit   // a string literal (a module name when in module position)
)

type origin struct {
	k     okind
	s     string
	keyed bool // stored record fetched by a signer-derived key
}

func rank(o origin) int {
	switch o.k {
	case kField, kWhole:
		return 0
	case kStored:
		return 1
	case kUnknown, kLit:
		return 2
	case kSigner:
		return 3
	case kModule:
		return 4
	}
	return 9
}

// combine keeps the least trusted class
func combine(a, b origin) origin {
	if a.k == kNone {
		return b
	}
	if b.k == kNone {
		return a
	}
	if a.k == kStored && b.k == kStored {
		a.keyed = a.keyed && b.keyed
		return a
	}
	if rank(b) < rank(a) {
		return b
	}
	return a
}

func unk(e ast.Expr) origin { return origin{k: kUnknown, s: short(src(e))} }

var bankCalls = map[string]bool{
	"SendCoins": true, "SendCoinsFromAccountToModule": true, "SendCoinsFromModuleToAccount": true,
	"SendCoinsFromModuleToModule": true, "BurnCoins": true, "MintCoins": true,
}

// wrappers whose result has the class of their arguments
var wrapFuncs = map[string]bool{
	"sdk.MustAccAddressFromBech32": true, "sdk.AccAddressFromBech32": true, "sdk.AccAddress": true,
	"sdk.ValAddress": true, "sdk.ValAddressFromBech32": true, "sdk.Coins": true, "sdk.NewCoins": true,
	"sdk.DecCoins": true, "sdk.NewDecCoins": true, "sdk.NewDecCoinsFromCoins": true,
	"[]byte": true, "string": true, "sdk.AccAddressFromHexUnsafe": true,
}
var coinFuncs = map[string]bool{"sdk.NewCoin": true, "sdk.NewInt64Coin": true, "sdk.NewDecCoin": true,
	"sdk.NewDecCoinFromDec": true}

type def struct {
	rhs     ast.Expr
	isRange bool
	tuple   int // index in a multi-value assignment from one call
}

// actx: the analysis of one function under given parameter origins
type actx struct {
	fn     *fnInfo
	si     *signerInfo
	bound  map[string]origin
	params map[string]ast.Expr // parameter name -> type
	defs   map[string][]def
	cache  map[string]origin
	busy   map[string]bool
	guard  int  // 0 unknown, 1 false, 2 true
	cut    bool // the current top-level query hit a cycle or the depth limit
}

func newCtx(fn *fnInfo, si *signerInfo, bound map[string]origin) *actx {
	c := &actx{fn: fn, si: si, bound: bound, params: map[string]ast.Expr{}, defs: map[string][]def{},
		cache: map[string]origin{}, busy: map[string]bool{}}
	if c.si == nil {
		c.si = &signerInfo{set: map[string]bool{}}
	}
	if fn.decl.Type.Params != nil {
		for _, f := range fn.decl.Type.Params.List {
			for _, n := range f.Names {
				c.params[n.Name] = f.Type
			}
		}
	}
	if fn.decl.Body == nil {
		return c
	}
	lhsKey := func(e ast.Expr) string {
		switch x := e.(type) {
		case *ast.Ident:
			return x.Name
		case *ast.SelectorExpr:
			if id, ok := x.X.(*ast.Ident); ok {
				return id.Name + "." + x.Sel.Name
			}
		}
		return ""
	}
	add := func(k string, d def) {
		if k != "" && k != "_" {
			c.defs[k] = append(c.defs[k], d)
		}
	}
	ast.Inspect(fn.decl.Body, func(n ast.Node) bool {
		switch x := n.(type) {
		case *ast.AssignStmt:
			if x.Tok != token.ASSIGN && x.Tok != token.DEFINE {
				return true
			}
			if len(x.Lhs) == len(x.Rhs) {
				for i := range x.Lhs {
					add(lhsKey(x.Lhs[i]), def{rhs: x.Rhs[i]})
				}
			} else if len(x.Rhs) == 1 {
				for i := range x.Lhs {
					add(lhsKey(x.Lhs[i]), def{rhs: x.Rhs[0], tuple: i})
				}
			}
		case *ast.RangeStmt:
			if x.Key != nil {
				add(lhsKey(x.Key), def{rhs: x.X, isRange: true})
			}
			if x.Value != nil {
				add(lhsKey(x.Value), def{rhs: x.X, isRange: true})
			}
		case *ast.DeclStmt:
			if g, ok := x.Decl.(*ast.GenDecl); ok && g.Tok == token.VAR {
				for _, s := range g.Specs {
					if vs, ok := s.(*ast.ValueSpec); ok {
						if len(vs.Values) == len(vs.Names) {
							for i, nm := range vs.Names {
								add(nm.Name, def{rhs: vs.Values[i]})
							}
						} else if len(vs.Values) == 1 {
							for i, nm := range vs.Names {
								add(nm.Name, def{rhs: vs.Values[0], tuple: i})
							}
						}
					}
				}
			}
		}
		return true
	})
	return c
}

func (c *actx) isLocal(name string) bool {
	if _, ok := c.bound[name]; ok {
		return true
	}
	if _, ok := c.params[name]; ok {
		return true
	}
	if _, ok := c.defs[name]; ok {
		return true
	}
	return name == c.fn.recvName && name != ""
}

// pkgAlias: the identifier names an imported package
func (c *actx) pkgAlias(e ast.Expr) (string, bool) {
	id, ok := e.(*ast.Ident)
	if !ok || c.isLocal(id.Name) {
		return "", false
	}
	p, ok := c.fn.imports[id.Name]
	return p, ok
}

func resolveConst(alias, path, name string) string {
	if strings.HasPrefix(path, sekaiX) {
		rest := strings.TrimPrefix(path, sekaiX)
		parts := strings.Split(rest, "/")
		if len(parts) == 2 && parts[1] == "types" {
			if p := typesPkg[parts[0]]; p != nil {
				if v, ok := p.consts[name]; ok {
					return v
				}
			}
		}
		return alias + "." + name
	}
	if name == "FeeCollectorName" && strings.HasSuffix(path, "/x/auth/types") {
		return "fee_collector"
	}
	if name == "ModuleName" {
		parts := strings.Split(path, "/")
		for i := 0; i+2 < len(parts); i++ {
			if parts[i] == "x" && parts[i+2] == "types" && i+3 == len(parts) {
				return parts[i+1]
			}
		}
	}
	return alias + "." + name
}

func isCtxName(e ast.Expr) bool {
	id, ok := e.(*ast.Ident)
	if !ok {
		return false
	}
	n := strings.ToLower(id.Name)
	return strings.Contains(n, "ctx") || n == "context"
}

// selector chain root.a.b.c -> root, [a b c]
func chain(e ast.Expr) (*ast.Ident, []string) {
	var names []string
	for {
		switch x := e.(type) {
		case *ast.SelectorExpr:
			names = append([]string{x.Sel.Name}, names...)
			e = x.X
		case *ast.ParenExpr:
			e = x.X
		case *ast.Ident:
			return x, names
		default:
			return nil, nil
		}
	}
}

func (c *actx) keeperRoot(id *ast.Ident) bool {
	if id == nil {
		return false
	}
	if c.fn.recvName != "" && id.Name == c.fn.recvName {
		return true
	}
	if t, ok := c.params[id.Name]; ok {
		return strings.Contains(src(t), "Keeper")
	}
	return false
}

// isGetter: a read through a keeper (the result is data from the store)
func (c *actx) isGetter(e ast.Expr) (*ast.CallExpr, bool) {
	call, ok := e.(*ast.CallExpr)
	if !ok {
		return nil, false
	}
	root, names := chain(call.Fun)
	if root == nil || len(names) == 0 || !c.keeperRoot(root) {
		return nil, false
	}
	m := names[len(names)-1]
	if bankCalls[m] {
		return nil, false
	}
	if strings.HasPrefix(m, "Get") || strings.HasPrefix(m, "Is") || strings.HasPrefix(m, "Find") {
		return call, true
	}
	if len(call.Args) > 0 && isCtxName(call.Args[0]) {
		return call, true
	}
	return nil, false
}

func (c *actx) getterKeyed(call *ast.CallExpr, d int) bool {
	for i, a := range call.Args {
		if i == 0 && isCtxName(a) {
			continue
		}
		if c.classify(a, d).k == kSigner {
			return true
		}
	}
	return false
}

func (c *actx) fieldOfWhole(f string) origin {
	if c.si.set[f] {
		return origin{k: kSigner, s: f}
	}
	return origin{k: kField, s: f}
}

func (c *actx) classifyIdent(id *ast.Ident, d int) origin {
	n := id.Name
	switch n {
	case "nil", "true", "false", "_":
		return unk(id)
	}
	if o, ok := c.cache[n]; ok {
		return o
	}
	if c.busy[n] {
		c.cut = true
		return origin{k: kNone}
	}
	top := len(c.busy) == 0
	if top {
		c.cut = false
	}
	c.busy[n] = true
	res := origin{k: kNone}
	if b, ok := c.bound[n]; ok {
		res = b
	}
	for _, df := range c.defs[n] {
		var o origin
		switch {
		case df.rhs == nil || df.tuple > 0:
			o = origin{k: kUnknown, s: n}
		case df.isRange:
			x := c.classify(df.rhs, d+1)
			switch x.k {
			case kStored:
				o = origin{k: kStored, s: n, keyed: x.keyed}
			case kField, kSigner:
				o = x
			case kWhole:
				o = origin{k: kField, s: "*"}
			case kNone:
				o = x
			default:
				o = origin{k: kUnknown, s: n}
			}
		default:
			if call, ok := c.isGetter(stripAddr(df.rhs)); ok {
				o = origin{k: kStored, s: n, keyed: c.getterKeyed(call, d+1)}
			} else {
				o = c.classify(df.rhs, d+1)
			}
		}
		res = combine(res, o)
	}
	delete(c.busy, n)
	if res.k == kNone {
		res = origin{k: kUnknown, s: n}
	}
	if top && !c.cut {
		c.cache[n] = res
	}
	return res
}

func stripAddr(e ast.Expr) ast.Expr {
	for {
		switch x := e.(type) {
		case *ast.ParenExpr:
			e = x.X
		case *ast.UnaryExpr:
			if x.Op != token.AND {
				return e
			}
			e = x.X
		case *ast.StarExpr:
			e = x.X
		default:
			return e
		}
	}
}

// litField: ident defined by composite literal(s) having the key f -> the values
func (c *actx) litField(id *ast.Ident, f string) []ast.Expr {
	var out []ast.Expr
	ds := c.defs[id.Name]
	if len(ds) == 0 {
		return nil
	}
	for _, df := range ds {
		if df.rhs == nil || df.isRange || df.tuple > 0 {
			return nil
		}
		cl, ok := stripAddr(df.rhs).(*ast.CompositeLit)
		if !ok {
			return nil
		}
		for _, el := range cl.Elts {
			if kv, ok := el.(*ast.KeyValueExpr); ok {
				if k, ok := kv.Key.(*ast.Ident); ok && k.Name == f {
					out = append(out, kv.Value)
				}
			}
		}
	}
	return out
}

func funName(e ast.Expr) string { return strings.Join(strings.Fields(src(e)), "") }

func (c *actx) classify(e ast.Expr, d int) origin {
	if e == nil {
		return origin{k: kUnknown}
	}
	if d > 8 {
		c.cut = true
		return unk(e)
	}
	switch x := e.(type) {
	case *ast.ParenExpr:
		return c.classify(x.X, d)
	case *ast.StarExpr:
		return c.classify(x.X, d)
	case *ast.UnaryExpr:
		if x.Op == token.AND {
			return c.classify(x.X, d)
		}
		return unk(e)
	case *ast.TypeAssertExpr:
		return c.classify(x.X, d)
	case *ast.SliceExpr:
		return c.classify(x.X, d)
	case *ast.BasicLit:
		if x.Kind == token.STRING {
			if v, err := strconv.Unquote(x.Value); err == nil {
				return origin{k: kLit, s: v}
			}
		}
		return unk(e)
	case *ast.CompositeLit:
		isList := false
		switch t := x.Type.(type) {
		case *ast.ArrayType:
			isList = true
		case *ast.SelectorExpr:
			isList = strings.HasSuffix(t.Sel.Name, "Coins")
		}
		if !isList || len(x.Elts) == 0 {
			return unk(e)
		}
		res := origin{k: kNone}
		for _, el := range x.Elts {
			if _, ok := el.(*ast.KeyValueExpr); ok {
				return unk(e)
			}
			res = combine(res, c.classify(el, d))
		}
		if res.k == kNone {
			return unk(e)
		}
		return res
	case *ast.Ident:
		if _, ok := c.pkgAlias(x); ok {
			return unk(e)
		}
		return c.classifyIdent(x, d)
	case *ast.SelectorExpr:
		if path, ok := c.pkgAlias(x.X); ok {
			if x.Sel.Name == "ModuleName" || x.Sel.Name == "FeeCollectorName" {
				return origin{k: kModule, s: resolveConst(x.X.(*ast.Ident).Name, path, x.Sel.Name)}
			}
			return unk(e)
		}
		if id, ok := x.X.(*ast.Ident); ok {
			if vals := c.litField(id, x.Sel.Name); len(vals) > 0 {
				res := origin{k: kNone}
				for _, v := range vals {
					if call, ok := c.isGetter(stripAddr(v)); ok {
						res = combine(res, origin{k: kStored, s: short(src(e)), keyed: c.getterKeyed(call, d)})
					} else {
						res = combine(res, c.classify(v, d))
					}
				}
				if res.k != kNone {
					return res
				}
			}
		}
		o := c.classify(x.X, d)
		switch o.k {
		case kWhole:
			res := c.fieldOfWhole(x.Sel.Name)
			if id, ok := stripAddr(x.X).(*ast.Ident); ok {
				for _, df := range c.defs[id.Name+"."+x.Sel.Name] {
					if df.rhs != nil && df.tuple == 0 && !df.isRange {
						res = combine(res, c.classify(df.rhs, d))
					}
				}
			}
			return res
		case kStored:
			return origin{k: kStored, s: short(src(e)), keyed: o.keyed}
		case kField, kSigner:
			return o
		}
		return unk(e)
	case *ast.IndexExpr:
		if call, ok := x.X.(*ast.CallExpr); ok {
			if s, ok := call.Fun.(*ast.SelectorExpr); ok && s.Sel.Name == "GetSigners" {
				if c.classify(s.X, d).k == kWhole && len(c.si.order) > 0 {
					i := 0
					if bl, ok := x.Index.(*ast.BasicLit); ok && bl.Kind == token.INT {
						if v, err := strconv.Atoi(bl.Value); err == nil && v >= 0 && v < len(c.si.order) {
							i = v
						}
					}
					return origin{k: kSigner, s: c.si.order[i]}
				}
				return unk(e)
			}
		}
		o := c.classify(x.X, d)
		switch o.k {
		case kStored:
			return origin{k: kStored, s: short(src(e)), keyed: o.keyed}
		case kField, kSigner:
			return o
		}
		return unk(e)
	case *ast.CallExpr:
		return c.classifyCall(x, d)
	}
	return unk(e)
}

func (c *actx) classifyCall(x *ast.CallExpr, d int) origin {
	fn := funName(x.Fun)
	if wrapFuncs[fn] {
		res := origin{k: kNone}
		for _, a := range x.Args {
			res = combine(res, c.classify(a, d))
		}
		if res.k == kNone {
			return unk(x)
		}
		return res
	}
	if coinFuncs[fn] && len(x.Args) == 2 {
		a := c.classify(x.Args[1], d)
		if a.k == kUnknown || a.k == kNone || a.k == kLit {
			dn := c.classify(x.Args[0], d)
			if dn.k != kUnknown && dn.k != kNone && dn.k != kLit && dn.k != kModule {
				return dn
			}
			return unk(x)
		}
		return a
	}
	if call, ok := c.isGetter(x); ok {
		return origin{k: kStored, s: short(src(x)), keyed: c.getterKeyed(call, d)}
	}
	s, ok := x.Fun.(*ast.SelectorExpr)
	if !ok {
		return unk(x)
	}
	if _, isPkg := c.pkgAlias(s.X); isPkg {
		return unk(x)
	}
	m := s.Sel.Name
	if (m == "Bytes" || m == "String") && len(x.Args) == 0 {
		return c.classify(s.X, d)
	}
	o := c.classify(s.X, d)
	switch o.k {
	case kWhole:
		if strings.HasPrefix(m, "Get") && len(m) > 3 && len(x.Args) == 0 {
			return c.fieldOfWhole(m[3:])
		}
		return origin{k: kField, s: m + "()"}
	case kStored:
		return origin{k: kStored, s: short(src(x)), keyed: o.keyed}
	case kField, kSigner:
		return o
	}
	return unk(x)
}

// classifyMod: an argument in module-name position
func (c *actx) classifyMod(e ast.Expr) origin {
	if s, ok := e.(*ast.SelectorExpr); ok {
		if path, ok := c.pkgAlias(s.X); ok {
			return origin{k: kModule, s: resolveConst(s.X.(*ast.Ident).Name, path, s.Sel.Name)}
		}
	}
	o := c.classify(e, 0)
	switch o.k {
	case kLit:
		return origin{k: kModule, s: o.s}
	case kModule:
		return o
	}
	return unk(e)
}

// hasGuard: a comparison between a field of a stored record and a signer
func (c *actx) hasGuard() bool {
	if c.guard != 0 {
		return c.guard == 2
	}
	c.guard = 1
	if c.fn.decl.Body == nil {
		return false
	}
	mentionsStored := func(e ast.Expr) bool {
		found := false
		ast.Inspect(e, func(n ast.Node) bool {
			if found {
				return false
			}
			if s, ok := n.(*ast.SelectorExpr); ok {
				if _, isPkg := c.pkgAlias(s.X); !isPkg && c.classify(s.X, 0).k == kStored {
					found = true
				}
			}
			return !found
		})
		return found
	}
	mentionsSigner := func(e ast.Expr) bool {
		found := false
		ast.Inspect(e, func(n ast.Node) bool {
			if found {
				return false
			}
			switch x := n.(type) {
			case *ast.SelectorExpr:
				if _, isPkg := c.pkgAlias(x.X); !isPkg && c.classify(x, 0).k == kSigner {
					found = true
				}
			case *ast.Ident:
				if c.isLocal(x.Name) && x.Name != c.fn.recvName && c.classifyIdent(x, 0).k == kSigner {
					found = true
				}
			}
			return !found
		})
		return found
	}
	pair := func(a, b ast.Expr) bool {
		return (mentionsStored(a) && mentionsSigner(b)) || (mentionsStored(b) && mentionsSigner(a))
	}
	res := false
	ast.Inspect(c.fn.decl.Body, func(n ast.Node) bool {
		if res {
			return false
		}
		switch x := n.(type) {
		case *ast.BinaryExpr:
			if (x.Op == token.EQL || x.Op == token.NEQ) && pair(x.X, x.Y) {
				res = true
			}
		case *ast.CallExpr:
			fn := funName(x.Fun)
			if fn == "bytes.Equal" && len(x.Args) == 2 && pair(x.Args[0], x.Args[1]) {
				res = true
			}
			if s, ok := x.Fun.(*ast.SelectorExpr); ok && (s.Sel.Name == "Equals" || s.Sel.Name == "Equal") && len(x.Args) == 1 {
				if _, isPkg := c.pkgAlias(s.X); !isPkg && pair(s.X, x.Args[0]) {
					res = true
				}
			}
		}
		return !res
	})
	if res {
		c.guard = 2
	}
	return res
}

// ---------------------------------------------------------------- call resolution

type typeRef struct {
	pkg  *pkgInfo
	name string
	desc string // printed type when unresolved
}

func normKeeperName(n string) string {
	n = strings.ToLower(n)
	n = strings.TrimSuffix(n, "keeper")
	n = strings.TrimPrefix(n, "custom")
	return n
}

// ifaceModule: expected-keeper interface name (types.MultiStakingKeeper) -> module directory
func ifaceModule(name string) string {
	if !strings.HasSuffix(name, "Keeper") {
		return ""
	}
	n := normKeeperName(name)
	if n == "" || n == "bank" || n == "account" || n == "auth" {
		return ""
	}
	for _, m := range mods {
		if keeperPkg[m] == nil {
			continue
		}
		if m == n || strings.TrimPrefix(moduleName[m], "custom") == n {
			return m
		}
	}
	if len(n) >= 4 {
		var cand []string
		for _, m := range mods {
			if keeperPkg[m] != nil && strings.HasPrefix(m, n) {
				cand = append(cand, m)
			}
		}
		if len(cand) == 1 {
			return cand[0]
		}
	}
	return ""
}

func resolveType(e ast.Expr, imports map[string]string, cur *pkgInfo) typeRef {
	switch x := e.(type) {
	case *ast.StarExpr:
		return resolveType(x.X, imports, cur)
	case *ast.ParenExpr:
		return resolveType(x.X, imports, cur)
	case *ast.Ident:
		if _, ok := cur.structs[x.Name]; ok {
			return typeRef{pkg: cur, name: x.Name}
		}
		if cur.ifaces[x.Name] {
			if m := ifaceModule(x.Name); m != "" {
				return typeRef{pkg: keeperPkg[m], name: "Keeper"}
			}
		}
		return typeRef{desc: x.Name}
	case *ast.SelectorExpr:
		id, ok := x.X.(*ast.Ident)
		if !ok {
			return typeRef{desc: src(e)}
		}
		path, ok := imports[id.Name]
		if !ok || !strings.HasPrefix(path, sekaiX) {
			return typeRef{desc: src(e)}
		}
		parts := strings.Split(strings.TrimPrefix(path, sekaiX), "/")
		switch {
		case len(parts) == 2 && parts[1] == "keeper" && keeperPkg[parts[0]] != nil:
			return typeRef{pkg: keeperPkg[parts[0]], name: x.Sel.Name}
		case len(parts) == 1 && rootPkg[parts[0]] != nil:
			return typeRef{pkg: rootPkg[parts[0]], name: x.Sel.Name}
		case len(parts) == 2 && parts[1] == "types":
			if m := ifaceModule(x.Sel.Name); m != "" {
				return typeRef{pkg: keeperPkg[m], name: "Keeper"}
			}
		}
		return typeRef{desc: src(e)}
	}
	return typeRef{desc: src(e)}
}

func fieldType(t typeRef, f string) (typeRef, bool) {
	if t.pkg == nil {
		return typeRef{}, false
	}
	si := t.pkg.structs[t.name]
	if si == nil {
		return typeRef{}, false
	}
	for _, fl := range si.st.Fields.List {
		if len(fl.Names) == 0 {
			if typeName(fl.Type) == f || strings.HasSuffix(src(fl.Type), "."+f) {
				return resolveType(fl.Type, si.imports, t.pkg), true
			}
			continue
		}
		for _, n := range fl.Names {
			if n.Name == f {
				return resolveType(fl.Type, si.imports, t.pkg), true
			}
		}
	}
	// promoted through an embedded struct of the same repo
	for _, fl := range si.st.Fields.List {
		if len(fl.Names) == 0 {
			et := resolveType(fl.Type, si.imports, t.pkg)
			if et.pkg != nil {
				if r, ok := fieldType(et, f); ok {
					return r, true
				}
			}
		}
	}
	return typeRef{}, false
}

func methodOf(t typeRef, m string, depth int) *fnInfo {
	if t.pkg == nil || depth > 3 {
		return nil
	}
	if fi := t.pkg.funcs[t.name+"."+m]; fi != nil {
		return fi
	}
	si := t.pkg.structs[t.name]
	if si == nil {
		return nil
	}
	for _, fl := range si.st.Fields.List {
		if len(fl.Names) == 0 {
			if fi := methodOf(resolveType(fl.Type, si.imports, t.pkg), m, depth+1); fi != nil {
				return fi
			}
		}
	}
	return nil
}

// resolveCall: the function of /repo/x a call refers to, or a description of why not
func resolveCall(fn *fnInfo, call *ast.CallExpr) (*fnInfo, string) {
	switch f := call.Fun.(type) {
	case *ast.Ident:
		if fi := fn.pkg.funcs["."+f.Name]; fi != nil {
			return fi, ""
		}
		return nil, ""
	case *ast.SelectorExpr:
		root, names := chain(f)
		if root == nil || len(names) == 0 {
			return nil, ""
		}
		var t typeRef
		switch {
		case fn.recvName != "" && root.Name == fn.recvName:
			t = typeRef{pkg: fn.pkg, name: fn.recvType}
		default:
			found := false
			if fn.decl.Type.Params != nil {
				for _, p := range fn.decl.Type.Params.List {
					for _, n := range p.Names {
						if n.Name == root.Name {
							t = resolveType(p.Type, fn.imports, fn.pkg)
							found = true
						}
					}
				}
			}
			if !found {
				if path, ok := fn.imports[root.Name]; ok && len(names) == 1 && strings.HasPrefix(path, sekaiX) {
					parts := strings.Split(strings.TrimPrefix(path, sekaiX), "/")
					var p *pkgInfo
					if len(parts) == 2 && parts[1] == "keeper" {
						p = keeperPkg[parts[0]]
					} else if len(parts) == 1 {
						p = rootPkg[parts[0]]
					}
					if p != nil {
						if fi := p.funcs["."+names[0]]; fi != nil {
							return fi, ""
						}
					}
				}
				return nil, ""
			}
		}
		for _, fld := range names[:len(names)-1] {
			nt, ok := fieldType(t, fld)
			if !ok {
				return nil, ""
			}
			t = nt
		}
		m := names[len(names)-1]
		if t.pkg == nil {
			d := t.desc
			if (strings.HasSuffix(d, "Keeper") || strings.HasSuffix(d, "Hooks")) &&
				!strings.Contains(d, "Bank") && !strings.Contains(d, "Account") {
				return nil, fmt.Sprintf("call to %s (%s) not resolved", funName(call.Fun), d)
			}
			return nil, ""
		}
		if fi := methodOf(t, m, 0); fi != nil {
			return fi, ""
		}
		return nil, ""
	}
	return nil, ""
}

var reachMemo = map[*fnInfo]int{} // 1 in progress / no, 2 yes

// reachesBank: a bank call is reachable (transitively, through resolvable calls)
func reachesBank(fn *fnInfo) bool {
	if v, ok := reachMemo[fn]; ok {
		return v == 2
	}
	reachMemo[fn] = 1
	if fn.decl.Body == nil {
		return false
	}
	res := false
	ast.Inspect(fn.decl.Body, func(n ast.Node) bool {
		if res {
			return false
		}
		call, ok := n.(*ast.CallExpr)
		if !ok {
			return true
		}
		if s, ok := call.Fun.(*ast.SelectorExpr); ok && bankCalls[s.Sel.Name] {
			res = true
			return false
		}
		if t, _ := resolveCall(fn, call); t != nil && reachesBank(t) {
			res = true
			return false
		}
		return true
	})
	if res {
		reachMemo[fn] = 2
	}
	return res
}

// ---------------------------------------------------------------- sites

type site struct {
	fn               string
	call             string
	from, to, amt    origin
	fromE, toE, amtE string // printed operands (for OUnknown)
	guarded          bool
}

func (s site) coq() string {
	o := func(x origin, e string) string {
		switch x.k {
		case kSigner:
			return "(OSigner " + coqStr(x.s) + ")"
		case kField:
			return "(OMsgField " + coqStr(x.s) + ")"
		case kWhole:
			return "(OMsgField \"*\")"
		case kStored:
			return "(OStored " + coqStr(x.s) + ")"
		case kModule:
			return "(OModule " + coqStr(x.s) + ")"
		}
		return "(OUnknown " + coqStr(e) + ")"
	}
	g := "false"
	if s.guarded {
		g = "true"
	}
	return fmt.Sprintf("mkSite %s %s %s %s %s %s", coqStr(s.fn), s.call, o(s.from, s.fromE), o(s.to, s.toE), o(s.amt, s.amtE), g)
}

type walker struct {
	key        string // "<mod>.<Method>" for notes
	topMod     string
	maxDepth   int
	sites      []site
	seen       map[string]bool
	stack      []*fnInfo
	skipTops   bool            // module.go BeginBlock/EndBlock: the blockers have their own entry
	followed   map[string]bool // caller.callee pairs descended into
	skipped    []string        // caller.callee pairs met at the depth limit
	skippedSet map[string]bool
}

func newWalker(key, mod string, maxDepth int, skipTops bool) *walker {
	return &walker{key: key, topMod: mod, maxDepth: maxDepth, seen: map[string]bool{}, skipTops: skipTops,
		followed: map[string]bool{}, skippedSet: map[string]bool{}}
}

// run walks the top function and reports the calls never followed at any depth
func (w *walker) run(c *actx) {
	func() {
		defer func() {
			if r := recover(); r != nil {
				note("%s: analysis aborted on unexpected syntax (%v); sites may be missing", w.key, r)
			}
		}()
		w.walk(c, 0, false)
	}()
	for _, p := range w.skipped {
		if !w.followed[p] {
			note("%s: call to %s not followed (depth>%d)", w.key, p, w.maxDepth)
		}
	}
}

func fnLabel(top string, fn *fnInfo) string {
	if fn.pkg.mod != top {
		return fn.pkg.mod + "." + fn.name()
	}
	return fn.name()
}

func (w *walker) walk(c *actx, depth int, chainGuard bool) {
	fn := c.fn
	if fn.decl.Body == nil {
		return
	}
	for _, f := range w.stack {
		if f == fn {
			return
		}
	}
	w.stack = append(w.stack, fn)
	defer func() { w.stack = w.stack[:len(w.stack)-1] }()
	g := chainGuard || c.hasGuard()
	ast.Inspect(fn.decl.Body, func(n ast.Node) bool {
		call, ok := n.(*ast.CallExpr)
		if !ok {
			return true
		}
		if s, ok := call.Fun.(*ast.SelectorExpr); ok && bankCalls[s.Sel.Name] {
			w.bankSite(c, call, s.Sel.Name, g)
			return true
		}
		t, why := resolveCall(fn, call)
		if t == nil {
			if why != "" {
				note("%s: in %s, %s", w.key, fnLabel(w.topMod, fn), why)
			}
			return true
		}
		if w.skipTops && depth == 0 && (t.name() == "BeginBlocker" || t.name() == "EndBlocker") {
			return true
		}
		if !reachesBank(t) {
			return true
		}
		pair := fnLabel(w.topMod, fn) + "." + fnLabel(w.topMod, t)
		if depth >= w.maxDepth {
			if !w.skippedSet[pair] {
				w.skippedSet[pair] = true
				w.skipped = append(w.skipped, pair)
			}
			return true
		}
		w.followed[pair] = true
		bound := map[string]origin{}
		var pnames []string
		if t.decl.Type.Params != nil {
			for _, p := range t.decl.Type.Params.List {
				if len(p.Names) == 0 {
					pnames = append(pnames, "_")
				}
				for _, nm := range p.Names {
					pnames = append(pnames, nm.Name)
				}
			}
		}
		for i, a := range call.Args {
			if i >= len(pnames) {
				break
			}
			if pnames[i] == "_" {
				continue
			}
			o := c.classify(a, 0)
			if o.k == kUnknown || o.k == kNone {
				o = origin{k: kUnknown, s: pnames[i]}
			}
			bound[pnames[i]] = o
		}
		w.walk(newCtx(t, c.si, bound), depth+1, g)
		return true
	})
}

func (w *walker) bankSite(c *actx, call *ast.CallExpr, name string, g bool) {
	args := call.Args
	if len(args) > 0 {
		args = args[1:] // ctx
	}
	arg := func(i int) ast.Expr {
		if i < len(args) {
			return args[i]
		}
		return nil
	}
	addr := func(e ast.Expr) origin {
		if e == nil {
			return origin{k: kUnknown}
		}
		return c.classify(e, 0)
	}
	mod := func(e ast.Expr) origin {
		if e == nil {
			return origin{k: kUnknown}
		}
		return c.classifyMod(e)
	}
	s := site{fn: fnLabel(w.topMod, c.fn)}
	var fe, te, ae ast.Expr
	switch name {
	case "SendCoins":
		s.call, fe, te, ae = "BSend", arg(0), arg(1), arg(2)
		s.from, s.to = addr(fe), addr(te)
	case "SendCoinsFromAccountToModule":
		s.call, fe, te, ae = "BToModule", arg(0), arg(1), arg(2)
		s.from, s.to = addr(fe), mod(te)
	case "SendCoinsFromModuleToAccount":
		s.call, fe, te, ae = "BFromModule", arg(0), arg(1), arg(2)
		s.from, s.to = mod(fe), addr(te)
	case "SendCoinsFromModuleToModule":
		s.call, fe, te, ae = "BModToMod", arg(0), arg(1), arg(2)
		s.from, s.to = mod(fe), mod(te)
	case "BurnCoins":
		s.call, fe, te, ae = "BBurn", arg(0), arg(0), arg(1)
		s.from = mod(fe)
		s.to = s.from
	case "MintCoins":
		s.call, fe, te, ae = "BMint", arg(0), arg(0), arg(1)
		s.from = mod(fe)
		s.to = s.from
	default:
		return
	}
	s.amt = addr(ae)
	s.fromE, s.toE, s.amtE = src(fe), src(te), src(ae)
	s.guarded = g
	for _, o := range []origin{s.from, s.to, s.amt} {
		if o.k == kStored && o.keyed {
			s.guarded = true
		}
	}
	k := s.coq()
	if w.seen[k] {
		return
	}
	w.seen[k] = true
	w.sites = append(w.sites, s)
}

// ---------------------------------------------------------------- main

type entry struct {
	key   string
	msg   string
	sites []site
}

// handlerMsg: (goCtx context.Context, msg *types.MsgXxx) -> msg param name, "<mod>.<Type>"
func handlerMsg(fi *fnInfo) (string, string, bool) {
	ps := fi.decl.Type.Params
	if ps == nil {
		return "", "", false
	}
	var names []string
	var types []ast.Expr
	for _, p := range ps.List {
		if len(p.Names) == 0 {
			names = append(names, "_")
			types = append(types, p.Type)
		}
		for _, n := range p.Names {
			names = append(names, n.Name)
			types = append(types, p.Type)
		}
	}
	if len(names) != 2 || funName(types[0]) != "context.Context" {
		return "", "", false
	}
	st, ok := types[1].(*ast.StarExpr)
	if !ok {
		return "", "", false
	}
	sel, ok := st.X.(*ast.SelectorExpr)
	if !ok || !strings.HasPrefix(sel.Sel.Name, "Msg") {
		return "", "", false
	}
	id, ok := sel.X.(*ast.Ident)
	if !ok {
		return "", "", false
	}
	mod := id.Name
	if path, ok := fi.imports[id.Name]; ok && strings.HasPrefix(path, sekaiX) {
		parts := strings.Split(strings.TrimPrefix(path, sekaiX), "/")
		mod = parts[0]
	}
	return names[1], mod + "." + sel.Sel.Name, true
}

func nonEmptyBody(fi *fnInfo) bool {
	return fi.decl.Body != nil && len(fi.decl.Body.List) > 0
}

func main() {
	repo := flag.String("repo", "/repo", "sekai working tree")
	out := flag.String("out", "", "output .v file (default stdout)")
	flag.Parse()

	xdir := filepath.Join(*repo, "x")
	ents, err := os.ReadDir(xdir)
	if err != nil {
		die("cannot read %s: %v", xdir, err)
	}
	for _, e := range ents {
		if e.IsDir() {
			mods = append(mods, e.Name())
		}
	}
	sort.Strings(mods)
	for _, m := range mods {
		if p := loadPkg(filepath.Join(xdir, m, "types"), m, "types"); p != nil {
			typesPkg[m] = p
			if v, ok := p.consts["ModuleName"]; ok {
				moduleName[m] = v
			}
		}
		if _, ok := moduleName[m]; !ok {
			moduleName[m] = m
		}
	}
	for _, m := range mods {
		ms := filepath.Join(xdir, m, "keeper", "msg_server.go")
		if _, err := os.Stat(ms); err == nil {
			if _, err := parser.ParseFile(fset, ms, nil, 0); err != nil {
				die("cannot parse %s: %v", ms, err)
			}
		}
		if p := loadPkg(filepath.Join(xdir, m, "keeper"), m, "keeper"); p != nil {
			keeperPkg[m] = p
		}
		if p := loadPkg(filepath.Join(xdir, m), m, "root"); p != nil {
			rootPkg[m] = p
		}
	}
	collectSigners()

	// ---- handlers
	var handlers []entry
	for _, m := range mods {
		p := keeperPkg[m]
		if p == nil {
			continue
		}
		for _, fi := range p.order {
			if fi.recvType != "msgServer" {
				continue
			}
			msgName, msgType, ok := handlerMsg(fi)
			if !ok {
				continue
			}
			key := m + "." + fi.name()
			si := signers[msgType]
			if si == nil {
				note("%s: no GetSigners found for %s", key, msgType)
			}
			bound := map[string]origin{}
			if msgName != "_" {
				bound[msgName] = origin{k: kWhole, s: msgName}
			}
			w := newWalker(key, m, 1, false)
			w.run(newCtx(fi, si, bound))
			handlers = append(handlers, entry{key: key, msg: msgType, sites: w.sites})
		}
	}
	if len(handlers) == 0 {
		die("no msg-server method found under %s", xdir)
	}

	// ---- begin/end blockers
	var blocks []entry
	usedKeys := map[string]bool{}
	for _, m := range mods {
		for _, p := range []*pkgInfo{keeperPkg[m], rootPkg[m]} {
			if p == nil {
				continue
			}
			for _, fi := range p.order {
				n := fi.name()
				isBlocker := n == "BeginBlocker" || n == "EndBlocker"
				isModule := p.kind == "root" && fi.file == "module.go" && (n == "BeginBlock" || n == "EndBlock")
				if !isBlocker && !isModule {
					continue
				}
				if !nonEmptyBody(fi) {
					continue
				}
				key := m + "." + n
				if usedKeys[key] {
					key = key + "@" + p.kind + "/" + fi.file
				}
				w := newWalker(key, m, 2, isModule)
				w.run(newCtx(fi, nil, map[string]origin{}))
				if isModule && len(w.sites) == 0 {
					continue
				}
				usedKeys[key] = true
				blocks = append(blocks, entry{key: key, sites: w.sites})
			}
		}
	}

	// ---- output
	var b strings.Builder
	fmt.Fprintf(&b, "(* GENERATED by /verif/harness/cmd/gen_signers from %s -- do not edit *)\n", *repo)
	b.WriteString("From Sekai Require Import Base.Prelude Model.Debit.\nLocal Open Scope string_scope.\n")
	b.WriteString("(* every sdk.Msg type: (module.MsgType, fields used by GetSigners) *)\n")
	var skeys []string
	for k := range signers {
		skeys = append(skeys, k)
	}
	sort.Strings(skeys)
	b.WriteString("Definition signers_table : list (string * list string) := [\n")
	for i, k := range skeys {
		fs := append([]string{}, signers[k].order...)
		sort.Strings(fs)
		var q []string
		for _, f := range fs {
			q = append(q, coqStr(f))
		}
		sep := ";"
		if i == len(skeys)-1 {
			sep = ""
		}
		fmt.Fprintf(&b, "  (%s, [%s])%s\n", coqStr(k), strings.Join(q, "; "), sep)
	}
	b.WriteString("].\n")
	emit := func(name string, es []entry) {
		fmt.Fprintf(&b, "Definition %s : list (string * list debit_site) := [\n", name)
		for i, e := range es {
			var q []string
			for _, s := range e.sites {
				q = append(q, s.coq())
			}
			sep := ";"
			if i == len(es)-1 {
				sep = ""
			}
			if len(q) <= 1 {
				fmt.Fprintf(&b, "  (%s, [%s])%s\n", coqStr(e.key), strings.Join(q, ""), sep)
			} else {
				fmt.Fprintf(&b, "  (%s, [\n     %s])%s\n", coqStr(e.key), strings.Join(q, ";\n     "), sep)
			}
		}
		b.WriteString("].\n")
	}
	b.WriteString("(* every msg-server method: (module.Method, bank calls reachable directly or one call level into the keeper) *)\n")
	emit("handlers", handlers)
	b.WriteString("Definition handler_msgs : list (string * string) := [\n")
	for i, e := range handlers {
		sep := ";"
		if i == len(handlers)-1 {
			sep = ""
		}
		fmt.Fprintf(&b, "  (%s, %s)%s\n", coqStr(e.key), coqStr(e.msg), sep)
	}
	b.WriteString("].\n")
	b.WriteString("(* bank calls reachable (directly or two call levels) from the BeginBlocker/EndBlocker functions of every module *)\n")
	emit("block_sites", blocks)
	b.WriteString("(* things the translator could not classify (call deeper than the followed levels etc.) -- informational *)\n")
	b.WriteString("Definition gen_notes : list string := [\n")
	for i, n := range notes {
		sep := ";"
		if i == len(notes)-1 {
			sep = ""
		}
		fmt.Fprintf(&b, "  \"%s\"%s\n", strings.ReplaceAll(asciiOnly(n), "\"", "\"\""), sep)
	}
	b.WriteString("].\n")

	nsites, nblock := 0, 0
	for _, e := range handlers {
		nsites += len(e.sites)
	}
	for _, e := range blocks {
		nblock += len(e.sites)
	}
	fmt.Fprintf(os.Stderr, "gen_signers: %d msg types, %d handlers, %d sites, %d block entries, %d block sites, %d notes\n",
		len(skeys), len(handlers), nsites, len(blocks), nblock, len(notes))
	if *out == "" {
		fmt.Print(b.String())
		return
	}
	if err := os.MkdirAll(filepath.Dir(*out), 0o755); err != nil {
		die("%v", err)
	}
	if err := os.WriteFile(*out, []byte(b.String()), 0o644); err != nil {
		die("%v", err)
	}
}

func asciiOnly(s string) string {
	var b strings.Builder
	for _, r := range s {
		if r < 32 || r > 126 {
			b.WriteByte('?')
		} else {
			b.WriteRune(r)
		}
	}
	return b.String()
}
