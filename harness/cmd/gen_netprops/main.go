// gen_netprops: translator from x/gov/keeper/keeper.go (GetNetworkProperty, SetNetworkProperty,
// ValidateNetworkProperties) and the NetworkProperty enum / NetworkProperties struct to Gallina.
// It fails loudly (exit 2) on syntax outside its fragment.
package main

import (
	"bytes"
	"crypto/sha256"
	"encoding/hex"
	"flag"
	"fmt"
	"go/ast"
	"go/parser"
	"go/printer"
	"go/token"
	"os"
	"path/filepath"
	"regexp"
	"sort"
	"strconv"
	"strings"
)

var fset = token.NewFileSet()

type unsupported string

var genErrors []string
var guarded = 0

// die aborts; inside a guarded region (one arm / one check) it only fails that region, which is
// then emitted as rejected/absent and listed in gen_errors (a proof obligation says it is empty).
func die(f string, a ...interface{}) {
	msg := fmt.Sprintf(f, a...)
	if guarded > 0 {
		panic(unsupported(msg))
	}
	fmt.Fprintf(os.Stderr, "gen_netprops: UNSUPPORTED: %s\n", msg)
	os.Exit(2)
}

func guard(what string, f func()) (ok bool) {
	guarded++
	defer func() {
		guarded--
		if r := recover(); r != nil {
			if u, isU := r.(unsupported); isU {
				genErrors = append(genErrors, what+": "+string(u))
				fmt.Fprintf(os.Stderr, "gen_netprops: unsupported %s: %s\n", what, string(u))
				ok = false
				return
			}
			panic(r)
		}
	}()
	f()
	return true
}

func src(n ast.Node) string {
	var b bytes.Buffer
	printer.Fprint(&b, fset, n)
	return b.String()
}

type field struct {
	name string
	kind string // num | bool | dec | str
}

var fields []field
var fieldKind = map[string]string{}

type enumv struct {
	name string
	code int
}

var enum []enumv

func parseFile(path string) *ast.File {
	f, err := parser.ParseFile(fset, path, nil, parser.ParseComments)
	if err != nil {
		die("parse %s: %v", path, err)
	}
	return f
}

func findFunc(f *ast.File, name string) *ast.FuncDecl {
	for _, d := range f.Decls {
		if fd, ok := d.(*ast.FuncDecl); ok && fd.Name.Name == name {
			return fd
		}
	}
	return nil
}

// ---------------------------------------------------------------- expressions

type env struct {
	decVars map[string]bool // local names bound to parsed decimals
	strVars map[string]bool
}

func sel(e ast.Expr) (string, string, bool) {
	if s, ok := e.(*ast.SelectorExpr); ok {
		if id, ok := s.X.(*ast.Ident); ok {
			return id.Name, s.Sel.Name, true
		}
	}
	return "", "", false
}

func callName(c *ast.CallExpr) string {
	switch f := c.Fun.(type) {
	case *ast.Ident:
		return f.Name
	case *ast.SelectorExpr:
		return src(f)
	}
	return src(c.Fun)
}

// decConst translates sdk.OneDec(), sdk.NewDecWithPrec(a,b), X.QuoInt64(n)
func decConst(e ast.Expr) string {
	c, ok := e.(*ast.CallExpr)
	if !ok {
		die("dec constant %s", src(e))
	}
	switch callName(c) {
	case "sdk.OneDec":
		return "dec_one"
	case "sdk.ZeroDec":
		return "dec_zero"
	case "sdk.NewDecWithPrec":
		return fmt.Sprintf("(dec_with_prec %s %s)", intLit(c.Args[0]), intLit(c.Args[1]))
	case "sdk.NewDec":
		return fmt.Sprintf("(dec_of_int %s)", intLit(c.Args[0]))
	}
	if s, ok := c.Fun.(*ast.SelectorExpr); ok && s.Sel.Name == "QuoInt64" {
		return fmt.Sprintf("(dquo_int64 %s %s)", decConst(s.X), intLit(c.Args[0]))
	}
	die("dec constant %s", src(e))
	return ""
}

func intLit(e ast.Expr) string {
	if b, ok := e.(*ast.BasicLit); ok && b.Kind == token.INT {
		v, err := strconv.ParseInt(b.Value, 0, 64)
		if err != nil {
			die("int literal %s", b.Value)
		}
		return strconv.FormatInt(v, 10)
	}
	die("int literal expected: %s", src(e))
	return ""
}

// numeric expression (Z)
func numExpr(e ast.Expr, en *env) string {
	switch x := e.(type) {
	case *ast.BasicLit:
		return intLit(x)
	case *ast.ParenExpr:
		return numExpr(x.X, en)
	case *ast.SelectorExpr:
		a, b, ok := sel(x)
		if ok && a == "properties" && fieldKind[b] == "num" {
			return "(f_" + b + " ps)"
		}
		if ok && a == "value" && b == "Value" {
			return "(fst v)"
		}
	case *ast.CallExpr:
		if callName(x) == "BoolToInt" {
			return "(bool_to_int " + boolExpr(x.Args[0], en) + ")"
		}
	}
	die("numeric expression %s", src(e))
	return ""
}

func strExpr(e ast.Expr, en *env) string {
	switch x := e.(type) {
	case *ast.BasicLit:
		if x.Kind == token.STRING {
			s, _ := strconv.Unquote(x.Value)
			return "\"" + strings.ReplaceAll(s, "\"", "\"\"") + "\"%string"
		}
	case *ast.Ident:
		if en.strVars[x.Name] {
			return x.Name
		}
	case *ast.SelectorExpr:
		a, b, ok := sel(x)
		if ok && a == "properties" && fieldKind[b] == "str" {
			return "(f_" + b + " ps)"
		}
		if ok && a == "value" && b == "StrValue" {
			return "(snd v)"
		}
	case *ast.CallExpr:
		switch callName(x) {
		case "FormalizeIdentityRecordKey":
			return "(to_lower " + strExpr(x.Args[0], en) + ")"
		case "k.EnsureOldUniqueKeysNotRemoved":
			return "(ensure_old_unique_keys_not_removed " + strExpr(x.Args[1], en) + " " + strExpr(x.Args[2], en) + ")"
		case "k.EnsureUniqueKeys":
			return "(ensure_unique_keys recs " + strExpr(x.Args[1], en) + " " + strExpr(x.Args[2], en) + ")"
		}
		// properties.F.String()
		if s, ok := x.Fun.(*ast.SelectorExpr); ok && s.Sel.Name == "String" && len(x.Args) == 0 {
			a, b, ok := sel(s.X)
			if ok && a == "properties" && fieldKind[b] == "dec" {
				return "(odec_string (f_" + b + " ps))"
			}
		}
	}
	die("string expression %s", src(e))
	return ""
}

func boolExpr(e ast.Expr, en *env) string {
	switch x := e.(type) {
	case *ast.Ident:
		if x.Name == "true" || x.Name == "false" {
			return x.Name
		}
	case *ast.ParenExpr:
		return boolExpr(x.X, en)
	case *ast.UnaryExpr:
		if x.Op == token.NOT {
			return "(negb " + boolExpr(x.X, en) + ")"
		}
	case *ast.SelectorExpr:
		a, b, ok := sel(x)
		if ok && a == "properties" && fieldKind[b] == "bool" {
			return "(f_" + b + " ps)"
		}
	case *ast.BinaryExpr:
		switch x.Op {
		case token.LOR:
			return "(" + boolExpr(x.X, en) + " || " + boolExpr(x.Y, en) + ")%bool"
		case token.LAND:
			return "(" + boolExpr(x.X, en) + " && " + boolExpr(x.Y, en) + ")%bool"
		}
		if isStr(x.X, en) || isStr(x.Y, en) {
			a, b := strExpr(x.X, en), strExpr(x.Y, en)
			switch x.Op {
			case token.EQL:
				return "(String.eqb " + a + " " + b + ")"
			case token.NEQ:
				return "(negb (String.eqb " + a + " " + b + "))"
			}
			die("string comparison %s", src(e))
		}
		a, b := numExpr(x.X, en), numExpr(x.Y, en)
		switch x.Op {
		case token.EQL:
			return "(" + a + " =? " + b + ")"
		case token.NEQ:
			return "(negb (" + a + " =? " + b + "))"
		case token.LSS:
			return "(" + a + " <? " + b + ")"
		case token.GTR:
			return "(" + b + " <? " + a + ")"
		case token.LEQ:
			return "(" + a + " <=? " + b + ")"
		case token.GEQ:
			return "(" + b + " <=? " + a + ")"
		}
	case *ast.CallExpr:
		if callName(x) == "IntToBool" {
			return "(int_to_bool " + numExpr(x.Args[0], en) + ")"
		}
		if s, ok := x.Fun.(*ast.SelectorExpr); ok {
			a, b, ok2 := sel(s.X)
			if ok2 && a == "properties" && fieldKind[b] == "dec" {
				f := "(f_" + b + " ps)"
				switch s.Sel.Name {
				case "IsNil":
					return "(dec_is_nil " + f + ")"
				case "IsNegative":
					return "(dec_is_neg " + f + ")"
				case "GT":
					return "(dec_gt " + f + " " + decConst(x.Args[0]) + ")"
				case "GTE":
					return "(dec_gte " + f + " " + decConst(x.Args[0]) + ")"
				case "LT":
					return "(dec_lt " + f + " " + decConst(x.Args[0]) + ")"
				case "LTE":
					return "(dec_lte " + f + " " + decConst(x.Args[0]) + ")"
				}
			}
		}
	}
	die("boolean expression %s", src(e))
	return ""
}

func isStr(e ast.Expr, en *env) bool {
	switch x := e.(type) {
	case *ast.BasicLit:
		return x.Kind == token.STRING
	case *ast.Ident:
		return en.strVars[x.Name]
	case *ast.SelectorExpr:
		a, b, ok := sel(x)
		return ok && ((a == "properties" && fieldKind[b] == "str") || (a == "value" && b == "StrValue"))
	case *ast.CallExpr:
		n := callName(x)
		return n == "FormalizeIdentityRecordKey"
	}
	return false
}

// ---------------------------------------------------------------- set arms

func isErrReturn(s ast.Stmt) bool {
	r, ok := s.(*ast.ReturnStmt)
	return ok && len(r.Results) == 1
}

// stmts translates a statement list of a SetNetworkProperty arm into an [option props] expression.
func stmts(list []ast.Stmt, en *env, written map[string]bool) string {
	if len(list) == 0 {
		return "Some ps"
	}
	s := list[0]
	rest := list[1:]
	switch x := s.(type) {
	case *ast.AssignStmt:
		if x.Tok == token.ASSIGN && len(x.Lhs) == 1 && len(x.Rhs) == 1 {
			a, f, ok := sel(x.Lhs[0])
			if !ok || a != "properties" || fieldKind[f] == "" {
				die("assignment target %s", src(x))
			}
			written[f] = true
			var rhs string
			switch fieldKind[f] {
			case "num":
				rhs = numExpr(x.Rhs[0], en)
			case "bool":
				rhs = boolExpr(x.Rhs[0], en)
			case "str":
				rhs = strExpr(x.Rhs[0], en)
			case "dec":
				id, ok := x.Rhs[0].(*ast.Ident)
				if !ok || !en.decVars[id.Name] {
					die("dec assignment %s", src(x))
				}
				rhs = "(Some " + id.Name + ")"
			}
			return "let ps := set_f_" + f + " " + rhs + " ps in\n      " + stmts(rest, en, written)
		}
		if x.Tok == token.DEFINE && len(x.Lhs) == 2 && len(x.Rhs) == 1 {
			// decValue, err := sdk.NewDecFromStr(E) ; if err != nil { return err }
			c, ok := x.Rhs[0].(*ast.CallExpr)
			if ok && callName(c) == "sdk.NewDecFromStr" && len(rest) > 0 {
				ifs, ok := rest[0].(*ast.IfStmt)
				if ok && src(ifs.Cond) == "err != nil" && len(ifs.Body.List) == 1 && isErrReturn(ifs.Body.List[0]) && ifs.Else == nil {
					v := x.Lhs[0].(*ast.Ident).Name
					en.decVars[v] = true
					return "match dec_of_string " + strExpr(c.Args[0], en) + " with None => None | Some " + v + " =>\n      " + stmts(rest[1:], en, written) + " end"
				}
			}
			die("define %s", src(x))
		}
		if x.Tok == token.DEFINE && len(x.Lhs) == 1 && len(x.Rhs) == 1 {
			v := x.Lhs[0].(*ast.Ident).Name
			rhs := strExpr(x.Rhs[0], en)
			en.strVars[v] = true
			return "let " + v + " := " + rhs + " in\n      " + stmts(rest, en, written)
		}
	case *ast.IfStmt:
		if x.Init != nil || x.Else != nil {
			die("if with init/else: %s", src(x))
		}
		if len(x.Body.List) == 1 && isErrReturn(x.Body.List[0]) {
			return "if " + boolExpr(x.Cond, en) + " then None else\n      " + stmts(rest, en, written)
		}
		// body without returns: conditional update
		for _, b := range x.Body.List {
			if _, ok := b.(*ast.AssignStmt); !ok {
				die("if body %s", src(x))
			}
		}
		inner := stmts(x.Body.List, en, written) // ends in "Some ps"
		return "match (if " + boolExpr(x.Cond, en) + " then (" + inner + ") else Some ps) with None => None | Some ps =>\n      " + stmts(rest, en, written) + " end"
	}
	die("statement %s", src(s))
	return ""
}

func main() {
	repo := flag.String("repo", "/repo", "repository root")
	out := flag.String("out", "", "output .v file")
	flag.Parse()

	pb := parseFile(*repo + "/x/gov/types/network_properties.pb.go")
	kp := parseFile(*repo + "/x/gov/keeper/keeper.go")
	ut := parseFile(*repo + "/x/gov/keeper/util.go")
	ir := parseFile(*repo + "/x/gov/keeper/identity_registrar.go")

	// enum
	for _, d := range pb.Decls {
		gd, ok := d.(*ast.GenDecl)
		if !ok || gd.Tok != token.CONST {
			continue
		}
		for _, sp := range gd.Specs {
			vs := sp.(*ast.ValueSpec)
			if id, ok := vs.Type.(*ast.Ident); ok && id.Name == "NetworkProperty" && len(vs.Values) == 1 {
				c, _ := strconv.Atoi(vs.Values[0].(*ast.BasicLit).Value)
				enum = append(enum, enumv{vs.Names[0].Name, c})
			}
		}
	}
	sort.Slice(enum, func(i, j int) bool { return enum[i].code < enum[j].code })
	if len(enum) == 0 {
		die("no NetworkProperty enum")
	}
	// struct
	for _, d := range pb.Decls {
		gd, ok := d.(*ast.GenDecl)
		if !ok || gd.Tok != token.TYPE {
			continue
		}
		for _, sp := range gd.Specs {
			ts := sp.(*ast.TypeSpec)
			if ts.Name.Name != "NetworkProperties" {
				continue
			}
			for _, f := range ts.Type.(*ast.StructType).Fields.List {
				t := src(f.Type)
				k := ""
				switch {
				case t == "uint64":
					k = "num"
				case t == "bool":
					k = "bool"
				case t == "string":
					k = "str"
				case strings.HasSuffix(t, ".Dec"):
					k = "dec"
				default:
					die("field type %s", t)
				}
				for _, n := range f.Names {
					fields = append(fields, field{n.Name, k})
					fieldKind[n.Name] = k
				}
			}
		}
	}

	var b strings.Builder
	w := func(f string, a ...interface{}) { fmt.Fprintf(&b, f, a...) }
	w("(* GENERATED by /verif/harness/cmd/gen_netprops from /repo/x/gov/keeper/keeper.go and\n   x/gov/types/network_properties.pb.go -- regenerated on every run, do not edit. *)\n")
	w("From Sekai Require Import Base.Prelude Base.Dec Model.NetPropsLib.\n\n")
	w("Inductive pid : Type :=\n")
	for _, e := range enum {
		w("| P_%s\n", e.name)
	}
	w(".\n\nDefinition all_pids : list pid := [")
	for i, e := range enum {
		if i > 0 {
			w("; ")
		}
		w("P_%s", e.name)
	}
	w("].\n\nDefinition pid_name (p : pid) : string :=\n  match p with\n")
	for _, e := range enum {
		w("  | P_%s => \"%s\"%%string\n", e.name, e.name)
	}
	w("  end.\n\nDefinition all_pids_dummy := tt.\n")
	w("\nDefinition pid_code (p : pid) : Z :=\n  match p with\n")
	for _, e := range enum {
		w("  | P_%s => %d\n", e.name, e.code)
	}
	w("  end.\n\nDefinition pid_of_code (z : Z) : option pid :=\n")
	for _, e := range enum {
		w("  if z =? %d then Some P_%s else\n", e.code, e.name)
	}
	w("  None.\n\n")
	ctype := map[string]string{"num": "Z", "bool": "bool", "dec": "odec", "str": "string"}
	w("Record props : Type := mkProps {\n")
	for i, f := range fields {
		sep := ";"
		if i == len(fields)-1 {
			sep = ""
		}
		w("  f_%s : %s%s\n", f.name, ctype[f.kind], sep)
	}
	w("}.\n\n")
	for i, f := range fields {
		w("Definition set_f_%s (x : %s) (ps : props) : props :=\n  mkProps", f.name, ctype[f.kind])
		for j, g := range fields {
			if i == j {
				w(" x")
			} else {
				w(" (f_%s ps)", g.name)
			}
		}
		w(".\n")
	}
	fcons := map[string]string{"num": "FNum", "bool": "FBool", "dec": "FDec", "str": "FStr"}
	w("\nDefinition fields (ps : props) : list fval :=\n  [")
	for i, f := range fields {
		if i > 0 {
			w(";\n   ")
		}
		w("%s (f_%s ps)", fcons[f.kind], f.name)
	}
	w("].\n\nDefinition field_kinds : list fkind :=\n  [")
	kcons := map[string]string{"num": "KNum", "bool": "KBool", "dec": "KDec", "str": "KStr"}
	for i, f := range fields {
		if i > 0 {
			w("; ")
		}
		w("%s", kcons[f.kind])
	}
	w("].\n\n(* positional field update, used to encode observed records as patches *)\nDefinition set_ix (i : nat) (x : fval) (ps : props) : props :=\n  match i, x with\n")
	for i, f := range fields {
		w("  | %d%%nat, %s y => set_f_%s y ps\n", i, fcons[f.kind], f.name)
	}
	w("  | _, _ => ps\n  end.\n\nDefinition field_names : list string :=\n  [")
	for i, f := range fields {
		if i > 0 {
			w("; ")
		}
		w("\"%s\"%%string", f.name)
	}
	w("].\n\n")
	fieldIx := map[string]int{}
	for i, f := range fields {
		fieldIx[f.name] = i
	}

	// ---- GetNetworkProperty
	getF := findFunc(kp, "GetNetworkProperty")
	if getF == nil {
		die("GetNetworkProperty not found")
	}
	var sw *ast.SwitchStmt
	for _, s := range getF.Body.List {
		if x, ok := s.(*ast.SwitchStmt); ok {
			sw = x
		}
	}
	if sw == nil || src(sw.Tag) != "property" {
		die("GetNetworkProperty switch")
	}
	getArm := map[string]string{}
	readIx := map[string]int{}
	en := &env{map[string]bool{}, map[string]bool{}}
	for _, c := range sw.Body.List {
		cc := c.(*ast.CaseClause)
		if cc.List == nil {
			continue
		}
		armOK := guard("get arm "+src(cc.List[0]), func() {
			if len(cc.Body) != 1 {
				die("get arm %s", src(cc))
			}
			r, ok := cc.Body[0].(*ast.ReturnStmt)
			if !ok || len(r.Results) != 2 || src(r.Results[1]) != "nil" {
				die("get arm return %s", src(cc))
			}
			cl, ok := r.Results[0].(*ast.CompositeLit)
			if !ok {
				die("get arm value %s", src(cc))
			}
			num, str := "0", "\"\"%string"
			for _, el := range cl.Elts {
				kv := el.(*ast.KeyValueExpr)
				switch src(kv.Key) {
				case "Value":
					num = numExpr(kv.Value, en)
				case "StrValue":
					str = strExpr(kv.Value, en)
				default:
					die("get arm key %s", src(kv))
				}
			}
			// which field is read
			re := regexp.MustCompile(`f_([A-Za-z0-9]+) ps`)
			m := re.FindAllStringSubmatch(num+str, -1)
			for _, e := range cc.List {
				_, n, ok := sel(e)
				if !ok {
					die("get case %s", src(e))
				}
				getArm[n] = "Some (" + num + ", " + str + ")"
				if len(m) == 1 {
					readIx[n] = fieldIx[m[0][1]]
				} else {
					readIx[n] = -1
				}
			}
		})
		_ = armOK
	}
	w("Definition get (ps : props) (p : pid) : option (Z * string) :=\n  match p with\n")
	for _, e := range enum {
		if a, ok := getArm[e.name]; ok {
			w("  | P_%s => %s\n", e.name, a)
		} else {
			w("  | P_%s => None\n", e.name)
		}
	}
	w("  end.\n\nDefinition read_ix (p : pid) : option nat :=\n  match p with\n")
	for _, e := range enum {
		if ix, ok := readIx[e.name]; ok && ix >= 0 {
			w("  | P_%s => Some %d%%nat\n", e.name, ix)
		} else {
			w("  | P_%s => None\n", e.name)
		}
	}
	w("  end.\n\n")

	// ---- SetNetworkProperty
	setF := findFunc(kp, "SetNetworkProperty")
	if setF == nil {
		die("SetNetworkProperty not found")
	}
	// shape: properties := k.GetNetworkProperties(ctx); switch property {...}; return k.SetNetworkProperties(ctx, properties)
	if len(setF.Body.List) != 3 {
		die("SetNetworkProperty shape: %d statements", len(setF.Body.List))
	}
	if src(setF.Body.List[0]) != "properties := k.GetNetworkProperties(ctx)" {
		die("SetNetworkProperty first statement: %s", src(setF.Body.List[0]))
	}
	if src(setF.Body.List[2]) != "return k.SetNetworkProperties(ctx, properties)" {
		die("SetNetworkProperty last statement: %s", src(setF.Body.List[2]))
	}
	sw, ok := setF.Body.List[1].(*ast.SwitchStmt)
	if !ok || src(sw.Tag) != "property" {
		die("SetNetworkProperty switch")
	}
	setArm := map[string]string{}
	writes := map[string][]int{}
	for _, c := range sw.Body.List {
		cc := c.(*ast.CaseClause)
		if cc.List == nil {
			if len(cc.Body) != 1 || !isErrReturn(cc.Body[0]) {
				die("set default arm")
			}
			continue
		}
		written := map[string]bool{}
		en := &env{map[string]bool{}, map[string]bool{}}
		body := "None"
		if !guard("set arm "+src(cc.List[0]), func() { body = stmts(cc.Body, en, written) }) {
			body = "None (* UNSUPPORTED arm *)"
			written = map[string]bool{}
		}
		var wr []int
		for f := range written {
			wr = append(wr, fieldIx[f])
		}
		sort.Ints(wr)
		for _, e := range cc.List {
			_, n, ok := sel(e)
			if !ok {
				die("set case %s", src(e))
			}
			setArm[n] = body
			writes[n] = wr
		}
	}
	w("(* [recs]: the (key, value) pairs of all identity records, in store order *)\n")
	w("Definition set_raw (recs : list (string * string)) (ps : props) (p : pid) (v : Z * string) : option props :=\n  match p with\n")
	for _, e := range enum {
		if a, ok := setArm[e.name]; ok {
			w("  | P_%s =>\n      %s\n", e.name, a)
		} else {
			w("  | P_%s => None\n", e.name)
		}
	}
	w("  end.\n\nDefinition written_ix (p : pid) : list nat :=\n  match p with\n")
	for _, e := range enum {
		var xs []string
		for _, i := range writes[e.name] {
			xs = append(xs, fmt.Sprintf("%d%%nat", i))
		}
		w("  | P_%s => [%s]\n", e.name, strings.Join(xs, "; "))
	}
	w("  end.\n\n")

	// ---- ValidateNetworkProperties
	valF := findFunc(kp, "ValidateNetworkProperties")
	if valF == nil {
		die("ValidateNetworkProperties not found")
	}
	w("Definition validate (ps : props) : bool :=\n")
	en = &env{map[string]bool{}, map[string]bool{}}
	list := valF.Body.List
	nchecks := 0
	for i := 0; i < len(list); i++ {
		s := list[i]
		switch x := s.(type) {
		case *ast.IfStmt:
			if x.Init == nil && x.Else == nil && len(x.Body.List) == 1 && isErrReturn(x.Body.List[0]) {
				if src(x.Cond) == "!monikerExists" {
					continue // part of the unique-keys block handled below
				}
				guard("validate check", func() {
					c := boolExpr(x.Cond, en)
					w("  if %s then false else\n", c)
					nchecks++
				})
				continue
			}
			die("validate if %s", src(x))
		case *ast.AssignStmt:
			if src(x) == "monikerExists := false" {
				continue
			}
			if src(x) == "uniqueKeys := strings.Split(properties.UniqueIdentityKeys, \",\")" {
				// next must be the pinned for-loop, and a later `if !monikerExists`
				if i+1 >= len(list) {
					die("unique keys block")
				}
				loop := src(list[i+1])
				want := "for _, key := range uniqueKeys {\n\tif !ValidateIdentityRecordKey(key) {\n\t\treturn fmt.Errorf(\"invalid identity record key exists, key=%s\", key)\n\t}\n\tif key == \"moniker\" {\n\t\tmonikerExists = true\n\t}\n}"
				if normalize(loop) != normalize(want) {
					die("unique keys loop changed:\n%s", loop)
				}
				found := false
				for _, t := range list[i+2:] {
					if ifs, ok := t.(*ast.IfStmt); ok && src(ifs.Cond) == "!monikerExists" && len(ifs.Body.List) == 1 && isErrReturn(ifs.Body.List[0]) {
						found = true
					}
				}
				if !found {
					w("  (* `if !monikerExists` check is absent *)\n  if negb (unique_keys_valid_only (f_UniqueIdentityKeys ps)) then false else\n")
				} else {
					w("  if negb (unique_keys_block_ok (f_UniqueIdentityKeys ps)) then false else\n")
				}
				nchecks++
				i++
				continue
			}
			die("validate statement %s", src(x))
		case *ast.ReturnStmt:
			if src(x) != "return nil" {
				die("validate return %s", src(x))
			}
		default:
			die("validate statement %s", src(s))
		}
	}
	w("  true.\n\nDefinition validate_checks : nat := %d%%nat.\n\n", nchecks)

	// ---- writers of the store key, callers of the setters
	w("(* SetNetworkProperties: first statement validates and returns the error *)\n")
	spF := findFunc(kp, "SetNetworkProperties")
	okShape := spF != nil && len(spF.Body.List) >= 2 &&
		src(spF.Body.List[0]) == "err := k.ValidateNetworkProperties(ctx, properties)" &&
		normalize(src(spF.Body.List[1])) == normalize("if err != nil {\n\treturn err\n}")
	w("Definition writer_validates_first : bool := %v.\n\n", okShape)

	// ---- every user of the store key and every caller of the two setters, repository-wide
	type use struct{ file, fn, what string }
	var keyUsers, callers []use
	gateOK, gatePerm := false, ""
	uniqueGuard := false
	var walkDirs = []string{"x", "app"}
	for _, d := range walkDirs {
		filepath.Walk(filepath.Join(*repo, d), func(path string, info os.FileInfo, err error) error {
			if err != nil || info.IsDir() || !strings.HasSuffix(path, ".go") || strings.HasSuffix(path, "_test.go") ||
				strings.HasSuffix(path, ".pb.go") || strings.HasSuffix(path, ".pb.gw.go") || strings.Contains(path, "/client/") {
				return nil
			}
			f, perr := parser.ParseFile(fset, path, nil, 0)
			if perr != nil {
				return nil
			}
			rel, _ := filepath.Rel(*repo, path)
			for _, dcl := range f.Decls {
				fd, ok := dcl.(*ast.FuncDecl)
				if !ok || fd.Body == nil {
					continue
				}
				ast.Inspect(fd.Body, func(n ast.Node) bool {
					switch x := n.(type) {
					case *ast.SelectorExpr:
						if x.Sel.Name == "KeyPrefixNetworkProperties" {
							keyUsers = append(keyUsers, use{rel, fd.Name.Name, "KeyPrefixNetworkProperties"})
						}
					case *ast.BasicLit:
						if x.Kind == token.STRING && x.Value == "\"network_properties\"" && !strings.HasSuffix(rel, "codec.go") {
							keyUsers = append(keyUsers, use{rel, fd.Name.Name, "literal"})
						}
					case *ast.CallExpr:
						if se, ok := x.Fun.(*ast.SelectorExpr); ok && (se.Sel.Name == "SetNetworkProperties" || se.Sel.Name == "SetNetworkProperty") {
							callers = append(callers, use{rel, fd.Name.Name, se.Sel.Name})
						}
					}
					return true
				})
				// the message handler's gate: first statements check PermChangeTxFee before the keeper call
				if rel == "x/gov/keeper/msg_server.go" && fd.Name.Name == "SetNetworkProperties" {
					seenGate := false
					wrote := false
					for _, st := range fd.Body.List {
						txt := normalize(src(st))
						if m := regexp.MustCompile(`^isAllowed := CheckIfAllowedPermission\(ctx, k\.keeper, msg\.Proposer, types\.(\w+)\)$`).FindStringSubmatch(txt); m != nil {
							gatePerm = m[1]
							continue
						}
						if gatePerm != "" && strings.HasPrefix(txt, "if !isAllowed { return nil,") {
							seenGate = true
							continue
						}
						if strings.Contains(txt, "k.keeper.SetNetworkProperties(") {
							gateOK = seenGate
							wrote = true
							continue
						}
						// anything that looks like a guard AFTER the write compares the new record with itself
						if wrote && (strings.Contains(txt, "EnsureOldUniqueKeysNotRemoved") || strings.Contains(txt, "EnsureUniqueKeys") || strings.Contains(txt, "CheckIfAllowedPermission")) {
							genErrors = append(genErrors, "msg server SetNetworkProperties: a guard runs after the record was written")
							continue
						}
						if wrote {
							continue
						}
						// optional guard of the unique-keys list (same two guards as SetNetworkProperty), pinned shape
						if strings.Contains(txt, "EnsureOldUniqueKeysNotRemoved") || strings.Contains(txt, "EnsureUniqueKeys") {
							want := `if msg.NetworkProperties != nil { oldKeys := k.keeper.GetNetworkProperties(ctx).UniqueIdentityKeys newKeys := msg.NetworkProperties.UniqueIdentityKeys if removedOldKey := k.keeper.EnsureOldUniqueKeysNotRemoved(ctx, oldKeys, newKeys); removedOldKey != "" { return nil, fmt.Errorf("already existing key removed: %s", removedOldKey) } if notUniqueKey := k.keeper.EnsureUniqueKeys(ctx, oldKeys, newKeys); notUniqueKey != "" { return nil, fmt.Errorf("already existing key not unique found: %s", notUniqueKey) } }`
							if txt == want && seenGate {
								uniqueGuard = true
							} else {
								genErrors = append(genErrors, "msg server SetNetworkProperties: unrecognised unique-keys guard shape")
							}
						}
					}
				}
			}
			return nil
		})
	}
	sort.Slice(keyUsers, func(i, j int) bool { return keyUsers[i].file+keyUsers[i].fn < keyUsers[j].file+keyUsers[j].fn })
	sort.Slice(callers, func(i, j int) bool {
		return callers[i].file+callers[i].fn+callers[i].what < callers[j].file+callers[j].fn+callers[j].what
	})
	emitUses := func(name string, us []use) {
		w("Definition %s : list (string * string * string) :=\n  [", name)
		seen := map[string]bool{}
		first := true
		for _, u := range us {
			k := u.file + "|" + u.fn + "|" + u.what
			if seen[k] {
				continue
			}
			seen[k] = true
			if !first {
				w(";\n   ")
			}
			first = false
			w("(\"%s\"%%string, \"%s\"%%string, \"%s\"%%string)", u.file, u.fn, u.what)
		}
		w("].\n\n")
	}
	w("(* every non-test, non-client function that touches the store key / calls a setter *)\n")
	emitUses("store_key_users", keyUsers)
	emitUses("setter_callers", callers)
	w("Definition msg_gate_ok : bool := %v.\nDefinition msg_gate_perm : string := \"%s\"%%string.\n", gateOK, gatePerm)
	w("(* does the message handler guard the unique-keys list like SetNetworkProperty does *)\nDefinition msg_unique_guard : bool := %v.\n\n", uniqueGuard)

	// ---- genesis import: what happens with the error of SetNetworkProperties
	genShape := "not found"
	if gf := parseFile(*repo + "/x/gov/genesis.go"); gf != nil {
		if fd := findFunc(gf, "InitGenesis"); fd != nil {
			for i, st := range fd.Body.List {
				if normalize(src(st)) == "err := k.SetNetworkProperties(ctx, genesisState.NetworkProperties)" && i+1 < len(fd.Body.List) {
					genShape = normalize(src(fd.Body.List[i+1]))
				}
			}
		}
	}
	w("(* gov InitGenesis: the statement following `err := k.SetNetworkProperties(...)` *)\n")
	w("Definition genesis_error_handling : string := \"%s\"%%string.\n\n", strings.ReplaceAll(genShape, "\"", "'"))

	w("Definition gen_errors : list string := [")
	for i, e := range genErrors {
		if i > 0 {
			w("; ")
		}
		w("\"%s\"%%string", strings.ReplaceAll(strings.ReplaceAll(normalize(e), "\"", "'"), "\\", "/"))
	}
	w("].\n\n")
	// helper fingerprints
	w("Definition helper_fingerprints : list (string * string) :=\n  [")
	type hp struct {
		f    *ast.File
		name string
	}
	msf := parseFile(*repo + "/x/gov/keeper/msg_server.go")
	hs := []hp{{msf, "SetNetworkProperties"}, {ut, "BoolToInt"}, {ut, "IntToBool"}, {ir, "FormalizeIdentityRecordKey"}, {ir, "ValidateIdentityRecordKey"}, {kp, "EnsureOldUniqueKeysNotRemoved"}, {kp, "EnsureUniqueKeys"}}
	for i, h := range hs {
		fd := findFunc(h.f, h.name)
		sum := "missing"
		if fd != nil {
			x := sha256.Sum256([]byte(normalize(src(fd))))
			sum = hex.EncodeToString(x[:8])
		}
		if i > 0 {
			w(";\n   ")
		}
		w("(\"%s\"%%string, \"%s\"%%string)", h.name, sum)
	}
	w("].\n")

	if *out == "" {
		fmt.Print(b.String())
		return
	}
	old, _ := os.ReadFile(*out)
	if string(old) != b.String() {
		if err := os.WriteFile(*out, []byte(b.String()), 0o644); err != nil {
			die("write: %v", err)
		}
	}
}

func normalize(s string) string {
	return strings.Join(strings.Fields(s), " ")
}
