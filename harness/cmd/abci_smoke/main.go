package main

import (
	"fmt"

	"verif/harness/abci"

	sdk "github.com/cosmos/cosmos-sdk/types"
	banktypes "github.com/cosmos/cosmos-sdk/x/bank/types"
)

func main() {
	c := abci.NewChain(abci.Config{Accounts: 4, Validators: 3, Seed: 1})
	fmt.Println("height", c.Height)
	for b := 0; b < 3; b++ {
		p := c.BeginBlock(abci.BlockReq{Dt: 5, Proposer: b})
		r := c.Deliver([]sdk.Msg{banktypes.NewMsgSend(c.Accounts[1].Addr, c.Accounts[2].Addr, sdk.NewCoins(sdk.NewInt64Coin("ukex", 7)))}, []int{1}, abci.DefaultFee())
		e := c.EndBlock()
		fmt.Println("block", c.Height, "begin panic", p, "tx code", r.Code, r.Log, r.Panic, "end", e.Panic, len(e.Updates), e.AppHash[:16])
	}
	ctx := c.QueryCtx()
	fmt.Println("supply", c.Supply(ctx))
	st, p := c.Export()
	fmt.Println("export", len(st), p)
	c2, p2 := abci.NewChainFromExport(c, st)
	fmt.Println("reimport panic:", p2)
	if p2 == "" {
		d := abci.DiffStores(c.DumpStores(c.QueryCtx()), c2.DumpStores(c2.QueryCtx()))
		fmt.Println("store diffs", len(d))
		for i, x := range d {
			if i < 30 {
				fmt.Println(" ", x)
			}
		}
	}
}
