// c07: runs the REAL gov keeper / msg servers / proposal handlers / genesis export+import / recovery
// rotation / layer2 msg server on generated histories of permission and role edits.  After every
// operation it dumps the actor and role RECORDS, the full CheckIfAllowedPermission matrix, the
// voter set of every permission, the three lookup indexes, and accept/reject.
package main

import (
	"crypto/sha256"
	"encoding/hex"
	"flag"
	"fmt"
	"os"
	"sort"
	"strconv"
	"strings"

	"verif/harness/hx"

	"github.com/KiraCore/sekai/x/gov"
	govkeeper "github.com/KiraCore/sekai/x/gov/keeper"
	govtypes "github.com/KiraCore/sekai/x/gov/types"
	layer2keeper "github.com/KiraCore/sekai/x/layer2/keeper"
	layer2types "github.com/KiraCore/sekai/x/layer2/types"
	recoverykeeper "github.com/KiraCore/sekai/x/recovery/keeper"
	recoverytypes "github.com/KiraCore/sekai/x/recovery/types"
	storetypes "github.com/cosmos/cosmos-sdk/store/types"
	sdk "github.com/cosmos/cosmos-sdk/types"
	minttypes "github.com/cosmos/cosmos-sdk/x/mint/types"
)

// ---------------------------------------------------------------- universe
var uperms = []uint32{1, 2, 3, 9, 16, 17, 30, 61, 66, 67}

const nAddr = 6

var addrs [nAddr]sdk.AccAddress
var addrIx = map[string]int{}
var feePayer = sdk.AccAddress("c07feepayer_________")
var proofs [nAddr]string

func ix(a sdk.AccAddress) int {
	if i, ok := addrIx[string(a)]; ok {
		return i
	}
	return 900 + int(a[len(a)-1])
}

// ---------------------------------------------------------------- operations
type op struct {
	Kind  string   `json:"kind"`
	Via   int      `json:"via"` // -1 proposal, otherwise proposer address index
	A     int      `json:"a"`   // address index (editors, claim, gate actor, rotate source)
	B     int      `json:"b"`   // rotate target
	R     int      `json:"r"`   // role id
	P     uint32   `json:"p"`   // permission
	Sid   int      `json:"sid"` // role sid number ("s<sid>")
	W     []uint32 `json:"w,omitempty"`
	Bl    []uint32 `json:"bl,omitempty"`
	Rid   string   `json:"rid,omitempty"`     // role identifier as spelled in the message (default: the number)
	H     string   `json:"handler,omitempty"` // probe: module.Method[/content type]
	Exact bool     `json:"exact,omitempty"`
	OK    bool     `json:"ok"`
	Err   string   `json:"err,omitempty"`
}

func zl(xs []uint32) string {
	s := make([]string, len(xs))
	for i, x := range xs {
		s[i] = strconv.Itoa(int(x))
	}
	return hx.List(s)
}
func (o op) via() string {
	if o.Via < 0 {
		return "ByProp"
	}
	return fmt.Sprintf("(ByMsg %d)", o.Via)
}
func (o op) coq() string {
	switch o.Kind {
	case "wl_acc":
		return fmt.Sprintf("OWlAcc %s %d %d", o.via(), o.A, o.P)
	case "bl_acc":
		return fmt.Sprintf("OBlAcc %s %d %d", o.via(), o.A, o.P)
	case "rm_wl_acc":
		return fmt.Sprintf("ORmWlAcc %s %d %d", o.via(), o.A, o.P)
	case "rm_bl_acc":
		return fmt.Sprintf("ORmBlAcc %s %d %d", o.via(), o.A, o.P)
	case "wl_role":
		return fmt.Sprintf("OWlRole %s %d %d", o.via(), o.R, o.P)
	case "bl_role":
		return fmt.Sprintf("OBlRole %s %d %d", o.via(), o.R, o.P)
	case "rm_wl_role":
		return fmt.Sprintf("ORmWlRole %s %d %d", o.via(), o.R, o.P)
	case "rm_bl_role":
		return fmt.Sprintf("ORmBlRole %s %d %d", o.via(), o.R, o.P)
	case "create_role":
		return fmt.Sprintf("OCreateRole %s %d %s %s", o.via(), o.Sid, zl(o.W), zl(o.Bl))
	case "remove_role":
		return fmt.Sprintf("ORemoveRole %d", o.Sid)
	case "assign":
		return fmt.Sprintf("OAssign %s %d %d", o.via(), o.A, o.R)
	case "unassign":
		return fmt.Sprintf("OUnassign %s %d %d", o.via(), o.A, o.R)
	case "claim_councilor":
		return fmt.Sprintf("OClaimCouncilor %d", o.A)
	case "poll_create":
		return fmt.Sprintf("OGate GPoll %d", o.A)
	case "submit_proposal":
		return fmt.Sprintf("OGate GSubmit %d", o.A)
	case "vote_proposal":
		return fmt.Sprintf("OGate GVote %d", o.A)
	case "dapp_nobond":
		return fmt.Sprintf("OGate GDapp %d", o.A)
	case "export_import":
		return "OExportImport"
	case "rotate", "rotate_rr":
		return fmt.Sprintf("ORotate %d %d", o.A, o.B)
	case "probe":
		return fmt.Sprintf("OGate (GOther %d %s) %d", o.P, hx.B(o.Exact), o.A)
	}
	panic("unknown op kind " + o.Kind)
}

// ---------------------------------------------------------------- environment
type env struct {
	gk      govkeeper.Keeper
	gms     govtypes.MsgServer
	l2ms    layer2types.MsgServer
	rms     recoverytypes.MsgServer
	key     storetypes.StoreKey
	voteID  uint64
	probes  map[string]probe
	counter int
}

var permPrefixes = [][]byte{{0x10}, {0x11}, {0x12}, {0x30}, {0x31}, {0x32}, {0x33}, {0x50}}

func (e *env) wipe(ctx sdk.Context) {
	store := ctx.KVStore(e.key)
	for _, p := range permPrefixes {
		it := sdk.KVStorePrefixIterator(store, p)
		var keys [][]byte
		for ; it.Valid(); it.Next() {
			keys = append(keys, append([]byte{}, it.Key()...))
		}
		it.Close()
		for _, k := range keys {
			store.Delete(k)
		}
	}
}

func sidStr(k int) string { return "s" + strconv.Itoa(k) }
func sidNum(s string) int {
	if len(s) > 1 && s[0] == 's' {
		if v, err := strconv.Atoi(s[1:]); err == nil {
			return v
		}
	}
	return -1
}

// apply runs one operation on the real code inside a cache context (a transaction / an enactment):
// its writes are kept only when it succeeds.
func (e *env) apply(ctx sdk.Context, o *op) {
	cc, write := ctx.CacheContext()
	w := sdk.WrapSDKContext(cc)
	var err error
	e.counter++
	var proposer sdk.AccAddress
	if o.Via >= 0 {
		proposer = addrs[o.Via]
	}
	rid := strconv.Itoa(o.R)
	if o.Rid != "" {
		rid = o.Rid
	}
	zero := sdk.ZeroDec()
	p := hx.Try(func() {
		switch o.Kind {
		case "wl_acc":
			if o.Via >= 0 {
				_, err = e.gms.WhitelistPermissions(w, &govtypes.MsgWhitelistPermissions{Proposer: proposer, Address: addrs[o.A], Permission: o.P})
			} else {
				err = gov.NewApplyWhitelistAccountPermissionProposalHandler(e.gk).Apply(cc, 0, govtypes.NewWhitelistAccountPermissionProposal(addrs[o.A], govtypes.PermValue(o.P)), zero)
			}
		case "bl_acc":
			if o.Via >= 0 {
				_, err = e.gms.BlacklistPermissions(w, &govtypes.MsgBlacklistPermissions{Proposer: proposer, Address: addrs[o.A], Permission: o.P})
			} else {
				err = gov.NewApplyBlacklistAccountPermissionProposalHandler(e.gk).Apply(cc, 0, govtypes.NewBlacklistAccountPermissionProposal(addrs[o.A], govtypes.PermValue(o.P)), zero)
			}
		case "rm_wl_acc":
			if o.Via >= 0 {
				_, err = e.gms.RemoveWhitelistedPermissions(w, &govtypes.MsgRemoveWhitelistedPermissions{Proposer: proposer, Address: addrs[o.A], Permission: o.P})
			} else {
				err = gov.NewApplyRemoveWhitelistedAccountPermissionProposalHandler(e.gk).Apply(cc, 0, govtypes.NewRemoveWhitelistedAccountPermissionProposal(addrs[o.A], govtypes.PermValue(o.P)), zero)
			}
		case "rm_bl_acc":
			if o.Via >= 0 {
				_, err = e.gms.RemoveBlacklistedPermissions(w, &govtypes.MsgRemoveBlacklistedPermissions{Proposer: proposer, Address: addrs[o.A], Permission: o.P})
			} else {
				err = gov.NewApplyRemoveBlacklistedAccountPermissionProposalHandler(e.gk).Apply(cc, 0, govtypes.NewRemoveBlacklistedAccountPermissionProposal(addrs[o.A], govtypes.PermValue(o.P)), zero)
			}
		case "wl_role":
			if o.Via >= 0 {
				_, err = e.gms.WhitelistRolePermission(w, &govtypes.MsgWhitelistRolePermission{Proposer: proposer, RoleIdentifier: rid, Permission: o.P})
			} else {
				err = gov.NewApplyWhitelistRolePermissionProposalHandler(e.gk).Apply(cc, 0, govtypes.NewWhitelistRolePermissionProposal(rid, govtypes.PermValue(o.P)), zero)
			}
		case "bl_role":
			if o.Via >= 0 {
				_, err = e.gms.BlacklistRolePermission(w, &govtypes.MsgBlacklistRolePermission{Proposer: proposer, RoleIdentifier: rid, Permission: o.P})
			} else {
				err = gov.NewApplyBlacklistRolePermissionProposalHandler(e.gk).Apply(cc, 0, govtypes.NewBlacklistRolePermissionProposal(rid, govtypes.PermValue(o.P)), zero)
			}
		case "rm_wl_role":
			if o.Via >= 0 {
				_, err = e.gms.RemoveWhitelistRolePermission(w, &govtypes.MsgRemoveWhitelistRolePermission{Proposer: proposer, RoleIdentifier: rid, Permission: o.P})
			} else {
				err = gov.NewApplyRemoveWhitelistedRolePermissionProposalHandler(e.gk).Apply(cc, 0, govtypes.NewRemoveWhitelistedRolePermissionProposal(rid, govtypes.PermValue(o.P)), zero)
			}
		case "rm_bl_role":
			if o.Via >= 0 {
				_, err = e.gms.RemoveBlacklistRolePermission(w, &govtypes.MsgRemoveBlacklistRolePermission{Proposer: proposer, RoleIdentifier: rid, Permission: o.P})
			} else {
				err = gov.NewApplyRemoveBlacklistedRolePermissionProposalHandler(e.gk).Apply(cc, 0, govtypes.NewRemoveBlacklistedRolePermissionProposal(rid, govtypes.PermValue(o.P)), zero)
			}
		case "create_role":
			if o.Via >= 0 {
				_, err = e.gms.CreateRole(w, &govtypes.MsgCreateRole{Proposer: proposer, RoleSid: sidStr(o.Sid), RoleDescription: "d"})
			} else {
				var wl, bl []govtypes.PermValue
				for _, x := range o.W {
					wl = append(wl, govtypes.PermValue(x))
				}
				for _, x := range o.Bl {
					bl = append(bl, govtypes.PermValue(x))
				}
				err = gov.NewApplyCreateRoleProposalHandler(e.gk).Apply(cc, 0, govtypes.NewCreateRoleProposal(sidStr(o.Sid), "d", wl, bl), zero)
			}
		case "remove_role":
			err = gov.NewApplyRemoveRoleProposalHandler(e.gk).Apply(cc, 0, govtypes.NewRemoveRoleProposal(sidStr(o.Sid)), zero)
		case "assign":
			if o.Via >= 0 {
				_, err = e.gms.AssignRole(w, &govtypes.MsgAssignRole{Proposer: proposer, Address: addrs[o.A], RoleId: uint32(o.R)})
			} else {
				err = gov.NewApplyAssignRoleToAccountProposalHandler(e.gk).Apply(cc, 0, govtypes.NewAssignRoleToAccountProposal(addrs[o.A], rid), zero)
			}
		case "unassign":
			if o.Via >= 0 {
				_, err = e.gms.UnassignRole(w, &govtypes.MsgUnassignRole{Proposer: proposer, Address: addrs[o.A], RoleId: uint32(o.R)})
			} else {
				err = gov.NewApplyUnassignRoleFromAccountProposalHandler(e.gk).Apply(cc, 0, govtypes.NewUnassignRoleFromAccountProposal(addrs[o.A], rid), zero)
			}
		case "claim_councilor":
			_, err = e.gms.ClaimCouncilor(w, &govtypes.MsgClaimCouncilor{Address: addrs[o.A]})
		case "poll_create":
			_, err = e.gms.PollCreate(w, &govtypes.MsgPollCreate{Creator: addrs[o.A], Title: "t", Description: "d", Reference: "r", Checksum: "c",
				PollValues: []string{"a", "b"}, ValueCount: 2, ValueType: "string", PossibleChoices: 1, Duration: "1h"})
		case "submit_proposal":
			var m *govtypes.MsgSubmitProposal
			m, err = govtypes.NewMsgSubmitProposal(addrs[o.A], "t", "d", govtypes.NewSetPoorNetworkMessagesProposal([]string{"x" + strconv.Itoa(e.counter)}))
			if err == nil {
				_, err = e.gms.SubmitProposal(w, m)
			}
		case "vote_proposal":
			_, err = e.gms.VoteProposal(w, &govtypes.MsgVoteProposal{ProposalId: e.voteID, Voter: addrs[o.A], Option: govtypes.OptionYes, Slash: zero})
		case "dapp_nobond":
			_, err = e.l2ms.CreateDappProposal(w, &layer2types.MsgCreateDappProposal{Sender: addrs[o.A].String(),
				Dapp: layer2types.Dapp{Name: "dapp" + strconv.Itoa(e.counter), Denom: "dp" + strconv.Itoa(e.counter), VoteQuorum: sdk.NewDecWithPrec(5, 1), PoolFee: zero},
				Bond: sdk.NewInt64Coin("ukex", 0)})
		case "export_import":
			gs := gov.ExportGenesis(cc, e.gk)
			e.wipe(cc)
			err = gov.InitGenesis(cc, e.gk, *gs)
		case "rotate":
			_, err = e.rms.RotateRecoveryAddress(w, &recoverytypes.MsgRotateRecoveryAddress{FeePayer: feePayer.String(), Address: addrs[o.A].String(),
				Recovery: addrs[o.B].String(), Proof: proofs[o.A]})
		case "rotate_rr":
			_, err = e.rms.RotateValidatorByHalfRRTokenHolder(w, &recoverytypes.MsgRotateValidatorByHalfRRTokenHolder{RrHolder: feePayer.String(),
				Address: addrs[o.A].String(), Recovery: addrs[o.B].String()})
		case "probe":
			err = e.probes[o.H].Run(cc, addrs[o.A], addrs[o.B])
		default:
			panic("unknown op kind " + o.Kind)
		}
	})
	if p != "" {
		err = fmt.Errorf("panic: %s", p)
	}
	o.OK = err == nil
	if err != nil {
		o.Err = err.Error()
		if len(o.Err) > 120 {
			o.Err = o.Err[:120]
		}
	} else if o.Kind != "probe" { // a probe never keeps its writes
		write()
	}
}

// ---------------------------------------------------------------- observers
func permsCoq(p *govtypes.Permissions) string {
	if p == nil {
		return "(mkPerms [] [])"
	}
	return fmt.Sprintf("(mkPerms %s %s)", zl(p.Whitelist), zl(p.Blacklist))
}

type rec struct {
	k int
	s string
}

func sortedList(rs []rec) string {
	sort.Slice(rs, func(i, j int) bool { return rs[i].k < rs[j].k })
	xs := make([]string, len(rs))
	for i, r := range rs {
		xs[i] = r.s
	}
	return hx.List(xs)
}

func pairsCoq(ps [][2]int) string {
	sort.Slice(ps, func(i, j int) bool { return ps[i][0] < ps[j][0] || (ps[i][0] == ps[j][0] && ps[i][1] < ps[j][1]) })
	xs := make([]string, len(ps))
	for i, p := range ps {
		xs[i] = fmt.Sprintf("(%d,%d)", p[0], p[1])
	}
	return hx.List(xs)
}

func (e *env) observe(ctx sdk.Context) string {
	k := e.gk
	// actor records
	var acts []rec
	it := k.GetNetworkActorsIterator(ctx)
	for ; it.Valid(); it.Next() {
		a := k.GetNetworkActorFromIterator(it)
		roles := make([]string, len(a.Roles))
		for i, r := range a.Roles {
			roles[i] = strconv.FormatUint(r, 10)
		}
		i := ix(a.Address)
		acts = append(acts, rec{i, fmt.Sprintf("(%d, mkActor %s %s)", i, hx.List(roles), permsCoq(a.Permissions))})
	}
	it.Close()
	// role records
	var roles []rec
	rit := k.IterateRoles(ctx)
	for ; rit.Valid(); rit.Next() {
		id := int(sdk.BigEndianToUint64(rit.Key()[1:]))
		pm := k.GetPermissionsFromIterator(rit)
		roles = append(roles, rec{id, fmt.Sprintf("(%d, %s)", id, permsCoq(&pm))})
	}
	rit.Close()
	var infos []rec
	for _, r := range k.GetAllRoles(ctx) {
		infos = append(infos, rec{int(r.Id), fmt.Sprintf("(%d, %s)", r.Id, hx.Z(int64(sidNum(r.Sid))))})
	}
	// CheckIfAllowedPermission matrix
	var allowed []string
	for i := 0; i < nAddr; i++ {
		var ps []uint32
		for _, p := range uperms {
			if govkeeper.CheckIfAllowedPermission(ctx, k, addrs[i], govtypes.PermValue(p)) {
				ps = append(ps, p)
			}
		}
		allowed = append(allowed, fmt.Sprintf("(%d, %s)", i, zl(ps)))
	}
	// voters
	var voters []string
	for _, p := range uperms {
		var vs []int
		pn := hx.Try(func() {
			for _, a := range k.GetNetworkActorsByAbsoluteWhitelistPermission(ctx, govtypes.PermValue(p)) {
				vs = append(vs, ix(a.Address))
			}
		})
		if pn != "" {
			voters = append(voters, fmt.Sprintf("(%d, None)", p))
			continue
		}
		// the list exactly as returned (order and multiplicity): the tally counts its length
		xs := make([]string, len(vs))
		for i, v := range vs {
			xs[i] = strconv.Itoa(v)
		}
		voters = append(voters, fmt.Sprintf("(%d, Some %s)", p, hx.List(xs)))
	}
	// indexes, straight from the store prefixes
	store := ctx.KVStore(e.key)
	dump := func(prefix byte, second func([]byte) int) string {
		var ps [][2]int
		pit := sdk.KVStorePrefixIterator(store, []byte{prefix})
		for ; pit.Valid(); pit.Next() {
			key := pit.Key()
			first := int(sdk.BigEndianToUint64(key[1:9]))
			ps = append(ps, [2]int{first, second(key[9:])})
			// the enumeration reads the entry's VALUE: report it too when it does not repeat the key suffix
			if v := pit.Value(); string(v) != string(key[9:]) && len(v) == len(key[9:]) {
				ps = append(ps, [2]int{first, second(v)})
			} else if len(v) != len(key[9:]) {
				ps = append(ps, [2]int{first, 990})
			}
		}
		pit.Close()
		return pairsCoq(ps)
	}
	addrOf := func(b []byte) int { return ix(sdk.AccAddress(b)) }
	roleOf := func(b []byte) int { return int(sdk.BigEndianToUint64(b)) }
	return fmt.Sprintf("(mkObs %s %s %s %d %s %s %s %s %s)", sortedList(acts), sortedList(roles), sortedList(infos), k.GetNextRoleId(ctx),
		hx.List(allowed), hx.List(voters), dump(0x31, addrOf), dump(0x32, addrOf), dump(0x33, roleOf))
}

// ---------------------------------------------------------------- generators
type gen struct {
	r      *hx.Rng
	e      *env
	ctx    sdk.Context
	sidOf  map[int]int // role id -> sid number, from the harness's own book-keeping of accepted creations
	nextID int
}

// spell: sometimes name the role by its sid or with a leading zero instead of the plain number
func (g *gen) spell(o *op) {
	switch {
	case g.r.Chance(25):
		if sid, ok := g.sidOf[o.R]; ok {
			o.Rid = sidStr(sid)
		}
	case g.r.Chance(8):
		o.Rid = "0" + strconv.Itoa(o.R)
	}
}

func (g *gen) perm() uint32 { return uperms[g.r.Intn(len(uperms))] }
func (g *gen) addr() int {
	if g.r.Chance(85) {
		return g.r.Intn(4)
	}
	return 4 + g.r.Intn(2)
}
func (g *gen) role() int {
	if g.r.Chance(85) {
		return 1 + g.r.Intn(3)
	}
	return []int{0, 4, 5, 7}[g.r.Intn(4)]
}
func (g *gen) permSet(max int) []uint32 {
	n := g.r.Intn(max + 1)
	seen := map[uint32]bool{}
	var xs []uint32
	for i := 0; i < n; i++ {
		p := g.perm()
		if !seen[p] {
			seen[p] = true
			xs = append(xs, p)
		}
	}
	return xs
}

// a proposer that currently holds perm (if any), else random: keeps the accepted ratio up
func (g *gen) proposerFor(perm uint32) int {
	if g.r.Chance(70) {
		var hs []int
		for i := 0; i < nAddr; i++ {
			if govkeeper.CheckIfAllowedPermission(g.ctx, g.e.gk, addrs[i], govtypes.PermValue(perm)) {
				hs = append(hs, i)
			}
		}
		if len(hs) > 0 {
			return hs[g.r.Intn(len(hs))]
		}
	}
	return g.addr()
}
func (g *gen) viaFor(perm uint32) int {
	if g.r.Chance(40) {
		return -1
	}
	return g.proposerFor(perm)
}

// existing entries, to make removals / clashes likely
func (g *gen) actorEntry(white bool) (int, uint32, bool) {
	var cands [][2]int
	for i := 0; i < nAddr; i++ {
		a, found := g.e.gk.GetNetworkActorByAddress(g.ctx, addrs[i])
		if !found || a.Permissions == nil {
			continue
		}
		l := a.Permissions.Blacklist
		if white {
			l = a.Permissions.Whitelist
		}
		for _, p := range l {
			cands = append(cands, [2]int{i, int(p)})
		}
	}
	if len(cands) == 0 {
		return 0, 0, false
	}
	c := cands[g.r.Intn(len(cands))]
	return c[0], uint32(c[1]), true
}
func (g *gen) roleEntry(white bool) (int, uint32, bool) {
	var cands [][2]int
	for r := 0; r < 8; r++ {
		pm, found := g.e.gk.GetPermissionsForRole(g.ctx, uint64(r))
		if !found {
			continue
		}
		l := pm.Blacklist
		if white {
			l = pm.Whitelist
		}
		for _, p := range l {
			cands = append(cands, [2]int{r, int(p)})
		}
	}
	if len(cands) == 0 {
		return 0, 0, false
	}
	c := cands[g.r.Intn(len(cands))]
	return c[0], uint32(c[1]), true
}

func (g *gen) randomOp() op {
	r := g.r
	x := r.Intn(100)
	switch {
	case x < 30: // account permission editors
		kind := []string{"wl_acc", "wl_acc", "bl_acc", "bl_acc", "rm_wl_acc", "rm_bl_acc"}[r.Intn(6)]
		o := op{Kind: kind, A: g.addr(), P: g.perm()}
		if r.Chance(60) {
			switch kind {
			case "rm_wl_acc":
				if a, p, ok := g.actorEntry(true); ok {
					o.A, o.P = a, p
				}
			case "rm_bl_acc":
				if a, p, ok := g.actorEntry(false); ok {
					o.A, o.P = a, p
				}
			case "bl_acc": // blacklist for an actor something one of its roles whitelists
				if rr, p, ok := g.roleEntry(true); ok {
					o.P = p
					_ = rr
				}
			}
		}
		need := uint32(1)
		if o.P == 2 && r.Chance(50) {
			need = 30
		}
		o.Via = g.viaFor(need)
		return o
	case x < 50: // role permission editors
		kind := []string{"wl_role", "wl_role", "bl_role", "bl_role", "rm_wl_role", "rm_bl_role"}[r.Intn(6)]
		o := op{Kind: kind, R: g.role(), P: g.perm(), Via: g.viaFor(9)}
		if r.Chance(60) {
			switch kind {
			case "rm_wl_role":
				if rr, p, ok := g.roleEntry(true); ok {
					o.R, o.P = rr, p
				}
			case "rm_bl_role":
				if rr, p, ok := g.roleEntry(false); ok {
					o.R, o.P = rr, p
				}
			case "bl_role": // blacklist in a role what some actor whitelists directly
				if _, p, ok := g.actorEntry(true); ok {
					o.P = p
				}
			}
		}
		g.spell(&o)
		return o
	case x < 70:
		kind := "assign"
		if r.Chance(40) {
			kind = "unassign"
		}
		o := op{Kind: kind, A: g.addr(), R: g.role(), Via: g.viaFor(9)}
		if kind == "unassign" && r.Chance(70) {
			a, found := g.e.gk.GetNetworkActorByAddress(g.ctx, addrs[o.A])
			if found && len(a.Roles) > 0 {
				o.R = int(a.Roles[r.Intn(len(a.Roles))])
			}
		}
		if o.Via < 0 { // the message carries a number, the proposal an identifier string
			g.spell(&o)
		}
		return o
	case x < 74:
		o := op{Kind: "create_role", Sid: 1 + r.Intn(8), Via: g.viaFor(9)}
		if o.Via < 0 {
			o.W, o.Bl = g.permSet(3), g.permSet(2)
			if len(o.W) > 0 && r.Chance(8) { // a repeated entry in the list
				o.W = append(o.W, o.W[0])
			}
		}
		return o
	case x < 76:
		return op{Kind: "remove_role", Sid: 1 + r.Intn(8), Via: -1}
	case x < 81:
		return op{Kind: "claim_councilor", A: g.proposerFor(3), Via: -2}
	case x < 91:
		kind := []string{"poll_create", "submit_proposal", "vote_proposal", "dapp_nobond"}[r.Intn(4)]
		need := map[string]uint32{"poll_create": 66, "submit_proposal": 16, "vote_proposal": 17, "dapp_nobond": 67}[kind]
		if kind == "dapp_nobond" && r.Chance(50) {
			need = 61
		}
		return op{Kind: kind, A: g.proposerFor(need), Via: -2}
	case x < 96:
		return op{Kind: "export_import", Via: -2}
	default:
		o := op{Kind: "rotate", A: r.Intn(4), B: 4 + r.Intn(2), Via: -2}
		if o.A == 3 && r.Chance(85) {
			o.Kind = "rotate_rr"
		}
		return o
	}
}

func main() {
	outDir := flag.String("out", ".", "output directory")
	n := flag.Int("n", 300, "number of random histories (on top of the systematic sweep)")
	flag.Parse()
	out := hx.Out{Dir: *outDir}
	seed := hx.Seed()
	rng := hx.NewRng(seed)

	app := hx.NewApp()
	base := hx.Ctx(app, 10, 1700000000)
	e := &env{gk: app.CustomGovKeeper, gms: govkeeper.NewMsgServerImpl(app.CustomGovKeeper), l2ms: layer2keeper.NewMsgServerImpl(app.Layer2Keeper),
		rms: recoverykeeper.NewMsgServerImpl(app.RecoveryKeeper), key: app.GetKey(govtypes.ModuleName)}
	for i := 0; i < nAddr; i++ {
		addrs[i] = sdk.AccAddress(fmt.Sprintf("c07addr%d____________", i))
		addrIx[string(addrs[i])] = i
	}
	// ---- base state: no permission data at all; a proposal to vote on; accounts, fee payer and
	// recovery secrets for the rotation sources
	e.wipe(base)
	id, err := e.gk.CreateAndSaveProposalWithContent(base, "t", "d", govtypes.NewSetPoorNetworkMessagesProposal([]string{"m"}))
	if err != nil {
		panic(err)
	}
	e.voteID = id
	coins := sdk.NewCoins(sdk.NewInt64Coin("ukex", 1_000_000_000_000_000))
	if err := app.BankKeeper.MintCoins(base, minttypes.ModuleName, coins); err != nil {
		panic(err)
	}
	if err := app.BankKeeper.SendCoinsFromModuleToAccount(base, minttypes.ModuleName, feePayer, coins); err != nil {
		panic(err)
	}
	for i := 0; i < 4; i++ {
		app.AccountKeeper.SetAccount(base, app.AccountKeeper.NewAccountWithAddress(base, addrs[i]))
		secret := []byte(fmt.Sprintf("secret-%d", i))
		proofs[i] = hex.EncodeToString(secret)
		h := sha256.Sum256(secret)
		if _, err := e.rms.RegisterRecoverySecret(sdk.WrapSDKContext(base), &recoverytypes.MsgRegisterRecoverySecret{Address: addrs[i].String(),
			Challenge: hex.EncodeToString(h[:]), Nonce: "00"}); err != nil {
			panic(err)
		}
	}

	// address 3 rotates through the other x/recovery message: it owns a validator recovery token whose
	// whole supply the fee payer holds
	app.RecoveryKeeper.SetRecoveryToken(base, recoverytypes.RecoveryToken{Address: addrs[3].String(), Token: "rrc07", RrSupply: sdk.NewInt(1000)})
	rr := sdk.NewCoins(sdk.NewInt64Coin("rrc07", 1000))
	if err := app.BankKeeper.MintCoins(base, minttypes.ModuleName, rr); err != nil {
		panic(err)
	}
	if err := app.BankKeeper.SendCoinsFromModuleToAccount(base, minttypes.ModuleName, feePayer, rr); err != nil {
		panic(err)
	}
	probes := e.buildProbes(app, base)
	e.probes = map[string]probe{}
	for _, pr := range probes {
		e.probes[pr.Name] = pr
	}

	dist := hx.Counter{}
	var lines []string
	var js []interface{}
	steps := 0
	runHistory := func(label string, next func(g *gen, i int) (op, bool)) {
		ctx, _ := base.CacheContext()
		g := &gen{r: rng, e: e, ctx: ctx, sidOf: map[int]int{}, nextID: 1}
		init := e.observe(ctx)
		prev := init
		var ss []string
		var ops []op
		for i := 0; ; i++ {
			o, more := next(g, i)
			if !more {
				break
			}
			e.apply(ctx, &o)
			if o.Kind == "create_role" && o.OK {
				g.sidOf[g.nextID] = o.Sid
				g.nextID++
			}
			cur := e.observe(ctx)
			ob := "None"
			if cur != prev {
				ob = "(Some " + cur + ")"
			}
			prev = cur
			ss = append(ss, fmt.Sprintf("(%s, %s, %s)", o.coq(), hx.B(o.OK), ob))
			ops = append(ops, o)
			dk := o.Kind
			if o.Kind == "probe" {
				dk = "probe " + strings.SplitN(o.H, "/", 2)[0]
			}
			dist.Inc(dk + ":" + map[bool]string{true: "accepted", false: "rejected"}[o.OK])
			steps++
		}
		lines = append(lines, fmt.Sprintf("CHist %s %s", init, hx.List(ss)))
		js = append(js, map[string]interface{}{"label": label, "ops": ops})
	}
	fromList := func(l []op) func(*gen, int) (op, bool) {
		return func(_ *gen, i int) (op, bool) {
			if i < len(l) {
				return l[i], true
			}
			return op{}, false
		}
	}
	prop := func(kind string, a, r int, p uint32) op { return op{Kind: kind, Via: -1, A: a, R: r, P: p} }

	// ---- systematic small scope: one actor, two roles, one permission; own entry x role1 x role2
	// (none / whitelisted / blacklisted; unassigned / assigned) -- then every gated message by that actor
	for _, p := range []uint32{66, 17} {
		for own := 0; own < 3; own++ {
			for r1 := 0; r1 < 4; r1++ {
				for r2 := 0; r2 < 4; r2++ {
					l := []op{{Kind: "create_role", Via: -1, Sid: 1}, {Kind: "create_role", Via: -1, Sid: 2}}
					for ri, rc := range []int{r1, r2} {
						switch rc {
						case 2:
							l = append(l, prop("wl_role", 0, ri+1, p))
						case 3:
							l = append(l, prop("bl_role", 0, ri+1, p))
						}
						if rc > 0 {
							l = append(l, prop("assign", 0, ri+1, 0))
						}
					}
					switch own {
					case 1:
						l = append(l, prop("wl_acc", 0, 0, p))
					case 2:
						l = append(l, prop("bl_acc", 0, 0, p))
					}
					gate := "poll_create"
					if p == 17 {
						gate = "vote_proposal"
					}
					l = append(l, op{Kind: gate, A: 0, Via: -2}, op{Kind: "export_import", Via: -2}, op{Kind: gate, A: 0, Via: -2})
					runHistory("sweep", fromList(l))
				}
			}
		}
	}
	// ---- overlapping role whitelists: 3 roles whitelist the same permission; an actor holds 2 or 3 of
	// them, with and without the personal whitelist entry; further actors share the roles
	for _, p := range []uint32{17, 66} {
		gate := "vote_proposal"
		if p == 66 {
			gate = "poll_create"
		}
		for _, subset := range [][]int{{1, 2}, {1, 3}, {2, 3}, {1, 2, 3}} {
			for personal := 0; personal < 2; personal++ {
				for others := 0; others < 2; others++ {
					l := []op{{Kind: "create_role", Via: -1, Sid: 1, W: []uint32{p}}, {Kind: "create_role", Via: -1, Sid: 2, W: []uint32{p, 9}}, {Kind: "create_role", Via: -1, Sid: 3, W: []uint32{1, p}}}
					for _, r := range subset {
						l = append(l, prop("assign", 0, r, 0))
					}
					if personal == 1 {
						l = append(l, prop("wl_acc", 0, 0, p))
					}
					if others == 1 {
						for _, a := range []int{1, 2} {
							for _, r := range subset {
								l = append(l, prop("assign", a, r, 0))
							}
						}
						l = append(l, prop("wl_acc", 3, 0, p))
					}
					l = append(l, op{Kind: gate, A: 0, Via: -2}, prop("unassign", 0, subset[0], 0), op{Kind: "export_import", Via: -2}, op{Kind: gate, A: 0, Via: -2})
					runHistory("overlap", fromList(l))
				}
			}
		}
	}
	// ---- scripted adversarial histories (each aims at one index / one gate)
	scripted := [][]op{
		// councilor claim, then the poll permission is used and enumerated
		{prop("wl_acc", 0, 0, 3), {Kind: "claim_councilor", A: 0, Via: -2}, {Kind: "poll_create", A: 0, Via: -2}, prop("rm_wl_acc", 0, 0, 66), {Kind: "poll_create", A: 0, Via: -2}},
		// rotation of an actor with 0 / 1 / 2 / 3 roles and a direct whitelist
		{prop("wl_acc", 1, 0, 17), {Kind: "rotate", A: 1, B: 4, Via: -2}, {Kind: "vote_proposal", A: 1, Via: -2}, {Kind: "vote_proposal", A: 4, Via: -2}},
		{{Kind: "create_role", Via: -1, Sid: 1, W: []uint32{17}}, prop("assign", 1, 1, 0), prop("wl_acc", 1, 0, 66), {Kind: "rotate", A: 1, B: 4, Via: -2}, {Kind: "vote_proposal", A: 1, Via: -2}, {Kind: "poll_create", A: 1, Via: -2}, {Kind: "vote_proposal", A: 4, Via: -2}},
		{{Kind: "create_role", Via: -1, Sid: 1, W: []uint32{17}}, {Kind: "create_role", Via: -1, Sid: 2, W: []uint32{66}}, prop("assign", 2, 1, 0), prop("assign", 2, 2, 0), {Kind: "rotate", A: 2, B: 5, Via: -2}, {Kind: "vote_proposal", A: 5, Via: -2}, {Kind: "poll_create", A: 5, Via: -2}, {Kind: "poll_create", A: 2, Via: -2}},
		{{Kind: "create_role", Via: -1, Sid: 1, W: []uint32{17}}, {Kind: "create_role", Via: -1, Sid: 2, W: []uint32{66}}, {Kind: "create_role", Via: -1, Sid: 3, W: []uint32{16}}, prop("assign", 3, 1, 0), prop("assign", 3, 2, 0), prop("assign", 3, 3, 0), {Kind: "rotate", A: 3, B: 4, Via: -2}, prop("unassign", 4, 3, 0), {Kind: "submit_proposal", A: 4, Via: -2}},
		// rotation drops the first role (which blacklists 17): the new address gains the permission
		{{Kind: "create_role", Via: -1, Sid: 1, Bl: []uint32{17}}, {Kind: "create_role", Via: -1, Sid: 2, W: []uint32{17}}, prop("assign", 1, 1, 0), prop("assign", 1, 2, 0), {Kind: "vote_proposal", A: 1, Via: -2}, {Kind: "rotate", A: 1, B: 4, Via: -2}, {Kind: "vote_proposal", A: 4, Via: -2}},
		// message editors by a holder of the claim-validator-permission setter only
		{prop("wl_acc", 0, 0, 30), {Kind: "wl_acc", Via: 0, A: 1, P: 2}, {Kind: "wl_acc", Via: 0, A: 1, P: 3}, {Kind: "bl_acc", Via: 0, A: 2, P: 2}, {Kind: "rm_wl_acc", Via: 0, A: 1, P: 2}, {Kind: "rm_bl_acc", Via: 0, A: 2, P: 2}, {Kind: "rm_bl_acc", Via: 0, A: 2, P: 9}},
		// dapp creation without bond: holder of the waiver permission vs. holder of the basket permission
		{prop("wl_acc", 0, 0, 67), prop("wl_acc", 1, 0, 61), {Kind: "dapp_nobond", A: 0, Via: -2}, {Kind: "dapp_nobond", A: 1, Via: -2}, {Kind: "dapp_nobond", A: 2, Via: -2}},
		// whitelist / remove / re-add by message and proposal, role permission removed while assigned
		{prop("wl_acc", 0, 0, 1), prop("wl_acc", 0, 0, 9), {Kind: "create_role", Via: 0, Sid: 1}, {Kind: "wl_role", Via: 0, R: 1, P: 17}, {Kind: "assign", Via: 0, A: 1, R: 1}, {Kind: "vote_proposal", A: 1, Via: -2},
			{Kind: "rm_wl_role", Via: 0, R: 1, P: 17}, {Kind: "vote_proposal", A: 1, Via: -2}, {Kind: "wl_role", Via: 0, R: 1, P: 17}, {Kind: "unassign", Via: 0, A: 1, R: 1}, {Kind: "vote_proposal", A: 1, Via: -2},
			{Kind: "bl_acc", Via: 0, A: 0, P: 9}, {Kind: "assign", Via: 0, A: 1, R: 1}},
	}
	for _, l := range scripted {
		runHistory("scripted", fromList(l))
	}
	// ---- every gated handler of every module, every Content type (submission and vote)
	all := allPerms()
	for _, pr := range probes {
		runHistory("probe:"+pr.Name, fromList(probeHistory(pr, all)))
	}
	// ---- rotation through RotateValidatorByHalfRRTokenHolder (source 3): roles, whitelist, personal blacklist
	runHistory("scripted", fromList([]op{{Kind: "create_role", Via: -1, Sid: 1, W: []uint32{17, 66}}, {Kind: "create_role", Via: -1, Sid: 2, Bl: []uint32{16}},
		prop("assign", 3, 1, 0), prop("assign", 3, 2, 0), prop("wl_acc", 3, 0, 16), prop("bl_acc", 3, 0, 66), prop("wl_acc", 3, 0, 9),
		{Kind: "rotate", A: 3, B: 4, Via: -2}, {Kind: "rotate_rr", A: 3, B: 4, Via: -2}, {Kind: "vote_proposal", A: 4, Via: -2}, {Kind: "poll_create", A: 4, Via: -2},
		{Kind: "submit_proposal", A: 4, Via: -2}, {Kind: "vote_proposal", A: 3, Via: -2}, {Kind: "assign", Via: 4, A: 1, R: 1}, {Kind: "rotate_rr", A: 3, B: 5, Via: -2}}))
	runHistory("scripted", fromList([]op{prop("wl_acc", 1, 0, 17), prop("bl_acc", 1, 0, 66), {Kind: "create_role", Via: -1, Sid: 1, W: []uint32{66}}, prop("assign", 1, 1, 0),
		{Kind: "rotate", A: 1, B: 5, Via: -2}, {Kind: "poll_create", A: 5, Via: -2}, {Kind: "vote_proposal", A: 5, Via: -2}, {Kind: "poll_create", A: 1, Via: -2}}))
	// ---- random histories
	for h := 0; h < *n; h++ {
		length := 8 + rng.Intn(18)
		nroles := rng.Intn(4)
		hot := uperms[rng.Intn(len(uperms))] // a permission most initial roles whitelist (overlap)
		overlapActor := rng.Intn(4)
		runHistory("random", func(g *gen, i int) (op, bool) {
			if i >= length {
				return op{}, false
			}
			if i < nroles { // start with a few roles, created by proposal
				w := g.permSet(3)
				if g.r.Chance(60) {
					has := false
					for _, q := range w {
						has = has || q == hot
					}
					if !has {
						w = append(w, hot)
					}
				}
				var b []uint32
				for _, p := range g.permSet(2) {
					clash := false
					for _, q := range w {
						clash = clash || p == q
					}
					if !clash || g.r.Chance(10) {
						b = append(b, p)
					}
				}
				return op{Kind: "create_role", Via: -1, Sid: i + 1, W: w, Bl: b}, true
			}
			if nroles >= 2 && i >= nroles && i < 2*nroles && g.r.Chance(70) { // one actor gets several of the roles
				return prop("assign", overlapActor, i-nroles+1, 0), true
			}
			if i < 2*nroles+3 && g.r.Chance(50) { // bootstrap some editors
				return prop("wl_acc", g.r.Intn(3), 0, []uint32{1, 9, 30, 3}[g.r.Intn(4)]), true
			}
			return g.randomOp(), true
		})
	}

	// spread the heavy histories (probes, sweeps) evenly over the shards the driver cuts: a
	// deterministic shuffle of the case order
	for i := len(lines) - 1; i > 0; i-- {
		j := rng.Intn(i + 1)
		lines[i], lines[j] = lines[j], lines[i]
		js[i], js[j] = js[j], js[i]
	}

	var pre strings.Builder
	pre.WriteString("(* written by /verif/harness/cmd/c07 -- observations of the real code *)\n")
	pre.WriteString("From Sekai Require Import Base.Prelude Model.Perm Model.C07Check Gen.Gates.\n")
	us := make([]string, nAddr)
	for i := range us {
		us[i] = strconv.Itoa(i)
	}
	pre.WriteString("Definition uaddrs : list Z := " + hx.List(us) + ".\n")
	pre.WriteString("Definition uperms : list Z := " + zl(uperms) + ".\n")
	// the variation points of the tree come from the regenerated gate table (translator gen_gates)
	pre.WriteString("Definition tree_cfg : cfg := mkCfg Gates.tree_dapp_perm Gates.tree_claim_indexed Gates.tree_import_role_bl Gates.tree_rotate_fixed.\n")
	out.WriteFile("pre.v", pre.String())
	out.WriteFile("cases.txt", strings.Join(lines, "\n")+"\n")
	out.WriteJSON("meta.json", map[string]string{"case_type": "c07_case", "mismatch_fn": "c07_mismatches tree_cfg uperms", "violation_fn": "c07_violations uperms"})
	out.WriteJSON("cases.json", js)
	out.WriteJSON("dist.json", map[string]interface{}{"seed": seed, "histories": len(js), "steps": steps, "by_kind": dist,
		"universe": map[string]interface{}{"addresses": nAddr, "permissions": uperms}})
	fmt.Fprintf(os.Stderr, "c07: %d histories, %d steps\n", len(js), steps)
}
