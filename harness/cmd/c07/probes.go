// probes: every permission-gated message of every module, and SubmitProposal / VoteProposal for every
// registered Content type, driven through the REAL handler by actors that hold exactly the required
// permission / everything but it / hold it but are blacklisted (by a role, personally) / have no
// record.  The other address fields of a message are filled with an address whose holdings are the
// opposite of the probed actor's, so a gate that consults the wrong address is exposed.
// A probe never keeps its writes.
package main

import (
	"fmt"
	"reflect"
	"sort"
	"strconv"
	"strings"

	simapp "github.com/KiraCore/sekai/app"
	baskettypes "github.com/KiraCore/sekai/x/basket/types"
	govtypes "github.com/KiraCore/sekai/x/gov/types"
	layer2types "github.com/KiraCore/sekai/x/layer2/types"
	stakingkeeper "github.com/KiraCore/sekai/x/staking/keeper"
	stakingtypes "github.com/KiraCore/sekai/x/staking/types"
	tokenskeeper "github.com/KiraCore/sekai/x/tokens/keeper"
	tokenstypes "github.com/KiraCore/sekai/x/tokens/types"
	"github.com/cosmos/cosmos-sdk/crypto/keys/ed25519"
	sdk "github.com/cosmos/cosmos-sdk/types"
	"github.com/gogo/protobuf/proto"

	basketkeeper "github.com/KiraCore/sekai/x/basket/keeper"
)

type probe struct {
	Name  string
	Perm  uint32
	Exact bool // the message is valid: it succeeds iff the gate passes
	Run   func(cc sdk.Context, actor, other sdk.AccAddress) error
}

func allPerms() []uint32 {
	var ps []uint32
	for v := range govtypes.PermValue_name {
		if v != 0 {
			ps = append(ps, uint32(v))
		}
	}
	sort.Slice(ps, func(i, j int) bool { return ps[i] < ps[j] })
	return ps
}

func (e *env) buildProbes(app *simapp.SekaiApp, base sdk.Context) []probe {
	bms := basketkeeper.NewMsgServerImpl(app.BasketKeeper, app.CustomGovKeeper)
	sms := stakingkeeper.NewMsgServerImpl(app.CustomStakingKeeper, app.CustomGovKeeper)
	tms := tokenskeeper.NewMsgServerImpl(app.TokensKeeper, app.CustomGovKeeper)
	app.BasketKeeper.SetBasket(base, baskettypes.Basket{Id: 1, Suffix: "c07", Amount: sdk.ZeroInt(), SwapFee: sdk.ZeroDec(), SlipppageFeeMin: sdk.ZeroDec(),
		TokensCap: sdk.ZeroDec(), MintsMin: sdk.OneInt(), MintsMax: sdk.OneInt(), BurnsMin: sdk.OneInt(), BurnsMax: sdk.OneInt(), SwapsMin: sdk.OneInt(), SwapsMax: sdk.OneInt()})
	zero := sdk.ZeroDec()
	n := 0
	uniq := func() string { n++; return strconv.Itoa(n) }
	ps := []probe{
		{"gov.SetNetworkProperties", 7, true, func(cc sdk.Context, a, o sdk.AccAddress) error {
			_, err := e.gms.SetNetworkProperties(sdk.WrapSDKContext(cc), &govtypes.MsgSetNetworkProperties{Proposer: a, NetworkProperties: e.gk.GetNetworkProperties(cc)})
			return err
		}},
		{"gov.SetExecutionFee", 7, true, func(cc sdk.Context, a, o sdk.AccAddress) error {
			_, err := e.gms.SetExecutionFee(sdk.WrapSDKContext(cc), &govtypes.MsgSetExecutionFee{Proposer: a, TransactionType: "t" + uniq(), ExecutionFee: 1, FailureFee: 1, Timeout: 1})
			return err
		}},
		{"gov.PollCreate", 66, true, func(cc sdk.Context, a, o sdk.AccAddress) error {
			_, err := e.gms.PollCreate(sdk.WrapSDKContext(cc), &govtypes.MsgPollCreate{Creator: a, Title: "t", Description: "d", Reference: "r", Checksum: "c",
				PollValues: []string{"a", "b"}, ValueCount: 2, ValueType: "string", PossibleChoices: 1, Duration: "1h"})
			return err
		}},
		{"gov.ClaimCouncilor", 3, true, func(cc sdk.Context, a, o sdk.AccAddress) error {
			_, err := e.gms.ClaimCouncilor(sdk.WrapSDKContext(cc), &govtypes.MsgClaimCouncilor{Address: a})
			return err
		}},
		// editors: the gate is on the proposer, the edited address is the other one
		{"gov.WhitelistPermissions", 1, false, func(cc sdk.Context, a, o sdk.AccAddress) error {
			_, err := e.gms.WhitelistPermissions(sdk.WrapSDKContext(cc), &govtypes.MsgWhitelistPermissions{Proposer: a, Address: o, Permission: 69})
			return err
		}},
		{"gov.BlacklistPermissions", 1, false, func(cc sdk.Context, a, o sdk.AccAddress) error {
			_, err := e.gms.BlacklistPermissions(sdk.WrapSDKContext(cc), &govtypes.MsgBlacklistPermissions{Proposer: a, Address: o, Permission: 69})
			return err
		}},
		{"gov.RemoveWhitelistedPermissions", 1, false, func(cc sdk.Context, a, o sdk.AccAddress) error {
			_, err := e.gms.RemoveWhitelistedPermissions(sdk.WrapSDKContext(cc), &govtypes.MsgRemoveWhitelistedPermissions{Proposer: a, Address: o, Permission: 1})
			return err
		}},
		{"gov.RemoveBlacklistedPermissions", 1, false, func(cc sdk.Context, a, o sdk.AccAddress) error {
			_, err := e.gms.RemoveBlacklistedPermissions(sdk.WrapSDKContext(cc), &govtypes.MsgRemoveBlacklistedPermissions{Proposer: a, Address: o, Permission: 1})
			return err
		}},
		{"gov.AssignRole", 9, false, func(cc sdk.Context, a, o sdk.AccAddress) error {
			_, err := e.gms.AssignRole(sdk.WrapSDKContext(cc), &govtypes.MsgAssignRole{Proposer: a, Address: o, RoleId: 3})
			return err
		}},
		{"gov.UnassignRole", 9, false, func(cc sdk.Context, a, o sdk.AccAddress) error {
			_, err := e.gms.UnassignRole(sdk.WrapSDKContext(cc), &govtypes.MsgUnassignRole{Proposer: a, Address: o, RoleId: 1})
			return err
		}},
		{"gov.CreateRole", 9, true, func(cc sdk.Context, a, o sdk.AccAddress) error {
			_, err := e.gms.CreateRole(sdk.WrapSDKContext(cc), &govtypes.MsgCreateRole{Proposer: a, RoleSid: "probe" + uniq(), RoleDescription: "d"})
			return err
		}},
		{"gov.WhitelistRolePermission", 9, false, func(cc sdk.Context, a, o sdk.AccAddress) error {
			_, err := e.gms.WhitelistRolePermission(sdk.WrapSDKContext(cc), &govtypes.MsgWhitelistRolePermission{Proposer: a, RoleIdentifier: "3", Permission: 69})
			return err
		}},
		{"gov.BlacklistRolePermission", 9, false, func(cc sdk.Context, a, o sdk.AccAddress) error {
			_, err := e.gms.BlacklistRolePermission(sdk.WrapSDKContext(cc), &govtypes.MsgBlacklistRolePermission{Proposer: a, RoleIdentifier: "3", Permission: 69})
			return err
		}},
		{"gov.RemoveWhitelistRolePermission", 9, false, func(cc sdk.Context, a, o sdk.AccAddress) error {
			_, err := e.gms.RemoveWhitelistRolePermission(sdk.WrapSDKContext(cc), &govtypes.MsgRemoveWhitelistRolePermission{Proposer: a, RoleIdentifier: "1", Permission: 1})
			return err
		}},
		{"gov.RemoveBlacklistRolePermission", 9, false, func(cc sdk.Context, a, o sdk.AccAddress) error {
			_, err := e.gms.RemoveBlacklistRolePermission(sdk.WrapSDKContext(cc), &govtypes.MsgRemoveBlacklistRolePermission{Proposer: a, RoleIdentifier: "2", Permission: 1})
			return err
		}},
		{"basket.DisableBasketDeposits", 61, true, func(cc sdk.Context, a, o sdk.AccAddress) error {
			_, err := bms.DisableBasketDeposits(sdk.WrapSDKContext(cc), &baskettypes.MsgDisableBasketDeposits{Sender: a.String(), BasketId: 1})
			return err
		}},
		{"basket.DisableBasketWithdraws", 61, true, func(cc sdk.Context, a, o sdk.AccAddress) error {
			_, err := bms.DisableBasketWithdraws(sdk.WrapSDKContext(cc), &baskettypes.MsgDisableBasketWithdraws{Sender: a.String(), BasketId: 1})
			return err
		}},
		{"basket.DisableBasketSwaps", 61, true, func(cc sdk.Context, a, o sdk.AccAddress) error {
			_, err := bms.DisableBasketSwaps(sdk.WrapSDKContext(cc), &baskettypes.MsgDisableBasketSwaps{Sender: a.String(), BasketId: 1})
			return err
		}},
		{"layer2.CreateDappProposal", 67, true, func(cc sdk.Context, a, o sdk.AccAddress) error {
			u := uniq()
			_, err := e.l2ms.CreateDappProposal(sdk.WrapSDKContext(cc), &layer2types.MsgCreateDappProposal{Sender: a.String(),
				Dapp: layer2types.Dapp{Name: "pdapp" + u, Denom: "pd" + u, VoteQuorum: sdk.NewDecWithPrec(5, 1), PoolFee: zero}, Bond: sdk.NewInt64Coin("ukex", 0)})
			return err
		}},
		{"staking.ClaimValidator", 2, true, func(cc sdk.Context, a, o sdk.AccAddress) error {
			m, err := stakingtypes.NewMsgClaimValidator("mon"+uniq(), sdk.ValAddress(a), ed25519.GenPrivKeyFromSecret([]byte(a.String())).PubKey())
			if err != nil {
				return err
			}
			_, err = sms.ClaimValidator(sdk.WrapSDKContext(cc), m)
			return err
		}},
		{"tokens.UpsertTokenInfo", 8, true, func(cc sdk.Context, a, o sdk.AccAddress) error {
			u := uniq()
			m := tokenstypes.NewMsgUpsertTokenInfo(a, "ptok"+u, "adr20", sdk.NewDecWithPrec(1, 1), true, sdk.ZeroInt(), sdk.ZeroInt(), sdk.ZeroDec(), sdk.OneInt(), false, false,
				"PT"+u, "probe token", "", 6, "", "", "", 0, sdk.ZeroInt(), o.String(), false, "", "")
			_, err := tms.UpsertTokenInfo(sdk.WrapSDKContext(cc), m)
			return err
		}},
	}
	// ---- every registered Content type: submission and vote
	reg := app.InterfaceRegistry()
	urls := reg.ListImplementations("kira.gov.Content")
	sort.Strings(urls)
	for _, url := range urls {
		msg, err := reg.Resolve(url)
		if err != nil {
			panic(err)
		}
		url := url
		mk0 := func() govtypes.Content { return proto.Clone(msg).(govtypes.Content) }
		content := mk0()
		if pp := content.ProposalPermission(); pp != govtypes.PermZero {
			ps = append(ps, probe{"gov.SubmitProposal" + url, uint32(pp), false, func(cc sdk.Context, a, o sdk.AccAddress) error {
				m, err := govtypes.NewMsgSubmitProposal(a, "t", "d", fillContent(mk0(), o))
				if err != nil {
					return err
				}
				_, err = e.gms.SubmitProposal(sdk.WrapSDKContext(cc), m)
				return err
			}})
		}
		if vp := content.VotePermission(); vp != govtypes.PermZero {
			id, err := e.gk.CreateAndSaveProposalWithContent(base, "t", "d", mk0())
			if err != nil {
				panic(fmt.Sprintf("proposal for %s: %v", url, err))
			}
			ps = append(ps, probe{"gov.VoteProposal" + url, uint32(vp), true, func(cc sdk.Context, a, o sdk.AccAddress) error {
				_, err := e.gms.VoteProposal(sdk.WrapSDKContext(cc), &govtypes.MsgVoteProposal{ProposalId: id, Voter: a, Option: govtypes.OptionYes, Slash: zero})
				return err
			}})
		}
	}
	return ps
}

// fillContent gives the empty fields of a zero-valued Content plausible values (an address, a role
// identifier, one-valued numbers) so that more types pass ValidateBasic and reach the gate.
func fillContent(c govtypes.Content, other sdk.AccAddress) govtypes.Content {
	switch x := c.(type) {
	case *govtypes.CreateRoleProposal:
		x.WhitelistedPermissions = []govtypes.PermValue{69}
	case *govtypes.SetProposalDurationsProposal:
		x.TypeofProposals = []string{"SetPoorNetworkMessages"}
		x.ProposalDurations = []uint64{3600}
	}
	v := reflect.ValueOf(c).Elem()
	for i := 0; i < v.NumField(); i++ {
		f := v.Field(i)
		name := v.Type().Field(i).Name
		if !f.CanSet() {
			continue
		}
		switch x := f.Interface().(type) {
		case sdk.AccAddress:
			if len(x) == 0 {
				f.Set(reflect.ValueOf(other))
			}
		case sdk.Dec:
			if x.IsNil() {
				f.Set(reflect.ValueOf(sdk.OneDec()))
			}
		case sdk.Int:
			if x.IsNil() {
				f.Set(reflect.ValueOf(sdk.OneInt()))
			}
		case string:
			switch {
			case x != "":
			case strings.Contains(name, "Role"):
				f.SetString("probe1")
			case strings.Contains(name, "Addr") || name == "Offender" || name == "Proposer":
				f.SetString(other.String())
			case name == "Denom" || name == "Symbol" || name == "Name" || name == "Key" || name == "Hash":
				f.SetString("probe" + strings.ToLower(name))
			}
		case uint32:
			if name == "Permission" {
				f.SetUint(69)
			}
		}
	}
	return c
}

// probeHistory: the actor configurations for permission p, then the handler by each actor, an
// export / import, and the handler again.
func probeHistory(pr probe, all []uint32) []op {
	p := pr.Perm
	var rest []uint32
	for _, q := range all {
		if q != p {
			rest = append(rest, q)
		}
	}
	prop := func(kind string, a, r int, q uint32) op { return op{Kind: kind, Via: -1, A: a, R: r, P: q} }
	pb := func(a, other int) op {
		return op{Kind: "probe", Via: -2, A: a, B: other, P: p, H: pr.Name, Exact: pr.Exact}
	}
	l := []op{
		prop("wl_acc", 0, 0, p),                                                  // 0: holds exactly p
		{Kind: "create_role", Via: -1, Sid: 1, W: rest}, prop("assign", 1, 1, 0), // 1: everything but p
		{Kind: "create_role", Via: -1, Sid: 2, Bl: []uint32{p}}, prop("wl_acc", 2, 0, p), prop("assign", 2, 2, 0), // 2: whitelisted, blacklisted by a role
		{Kind: "create_role", Via: -1, Sid: 3, W: []uint32{p}}, prop("assign", 3, 3, 0), prop("bl_acc", 3, 0, p), // 3: whitelisted by a role, blacklisted personally
		pb(0, 1), pb(1, 0), pb(2, 0), pb(3, 0), pb(4, 0), // 4: no record
		{Kind: "export_import", Via: -2},
		pb(0, 1), pb(1, 0), pb(2, 0), pb(3, 0),
		prop("unassign", 2, 2, 0), pb(2, 0), // the role blacklist no longer applies
		prop("rm_wl_acc", 0, 0, p), pb(0, 1),
	}
	return l
}
