// gen_mintburn: lists every MintCoins / BurnCoins call site of the non-test, non-generated Go code
// under <repo>/x and <repo>/app as Gallina data (coq/Gen/MintBurn.v).  For each call it records the
// package directory, the enclosing function, the keeper interface the call goes through (resolved
// from the struct field declarations of the package), the module-account argument and the coins
// argument, both as source text.  Anything it cannot resolve is reported in gen_errors.
package main

import (
	"bytes"
	"flag"
	"fmt"
	"go/ast"
	"go/parser"
	"go/printer"
	"go/token"
	"os"
	"path/filepath"
	"sort"
	"strings"
)

type site struct {
	pkg, fn, kind, via, module, coins string
	order                            int
}

func text(fset *token.FileSet, n ast.Node) string {
	var b bytes.Buffer
	printer.Fprint(&b, fset, n)
	return strings.Join(strings.Fields(b.String()), " ")
}

func q(s string) string { return "\"" + strings.ReplaceAll(s, "\"", "\"\"") + "\"" }

func main() {
	repo := flag.String("repo", "/repo", "repository root")
	out := flag.String("out", "MintBurn.v", "output file")
	flag.Parse()
	var sites []site
	var errs []string
	var dirs []string
	for _, root := range []string{"x", "app"} {
		filepath.Walk(filepath.Join(*repo, root), func(p string, info os.FileInfo, err error) error {
			if err == nil && info.IsDir() {
				dirs = append(dirs, p)
			}
			return nil
		})
	}
	sort.Strings(dirs)
	for _, dir := range dirs {
		fset := token.NewFileSet()
		pkgs, err := parser.ParseDir(fset, dir, func(fi os.FileInfo) bool {
			n := fi.Name()
			return !strings.HasSuffix(n, "_test.go") && !strings.HasSuffix(n, ".pb.go") && !strings.HasSuffix(n, ".pb.gw.go")
		}, 0)
		if err != nil {
			errs = append(errs, "parse "+dir+": "+err.Error())
			continue
		}
		rel, _ := filepath.Rel(*repo, dir)
		for _, pkg := range pkgs {
			// struct field name -> declared type (source text), over the whole package
			fields := map[string]string{}
			var files []string
			for fn := range pkg.Files {
				files = append(files, fn)
			}
			sort.Strings(files)
			for _, fn := range files {
				ast.Inspect(pkg.Files[fn], func(n ast.Node) bool {
					if st, ok := n.(*ast.StructType); ok {
						for _, f := range st.Fields.List {
							for _, nm := range f.Names {
								t := text(fset, f.Type)
								if old, dup := fields[nm.Name]; dup && old != t {
									fields[nm.Name] = old + "|" + t
								} else {
									fields[nm.Name] = t
								}
							}
						}
					}
					return true
				})
			}
			for _, fn := range files {
				for _, decl := range pkg.Files[fn].Decls {
					fd, ok := decl.(*ast.FuncDecl)
					if !ok || fd.Body == nil {
						continue
					}
					name := fd.Name.Name
					if fd.Recv != nil && len(fd.Recv.List) == 1 {
						name = strings.TrimPrefix(text(fset, fd.Recv.List[0].Type), "*") + "." + name
					}
					k := 0
					ast.Inspect(fd.Body, func(n ast.Node) bool {
						call, ok := n.(*ast.CallExpr)
						if !ok {
							return true
						}
						sel, ok := call.Fun.(*ast.SelectorExpr)
						if !ok || (sel.Sel.Name != "MintCoins" && sel.Sel.Name != "BurnCoins") {
							return true
						}
						if len(call.Args) != 3 {
							errs = append(errs, fmt.Sprintf("%s %s: %s with %d arguments", rel, name, sel.Sel.Name, len(call.Args)))
							return true
						}
						// the keeper the call goes through: last selector of the receiver expression
						via := "?"
						switch r := sel.X.(type) {
						case *ast.SelectorExpr:
							if t, ok := fields[r.Sel.Name]; ok {
								via = t
							} else {
								errs = append(errs, fmt.Sprintf("%s %s: cannot resolve field %s", rel, name, r.Sel.Name))
							}
						default:
							errs = append(errs, fmt.Sprintf("%s %s: receiver %s outside the fragment", rel, name, text(fset, sel.X)))
						}
						sites = append(sites, site{rel, name, sel.Sel.Name, via, text(fset, call.Args[1]), text(fset, call.Args[2]), k})
						k++
						return true
					})
				}
			}
		}
	}
	// ---- the cap guard of the tokens msg server (x/tokens/keeper/msg_server.go UpsertTokenInfo): the `if` that
	// returns ErrSupplyCapShouldNotBeIncreased.  Two shapes are known to the model (Model/Monetary.v upsert_msg).
	capGuard := ""
	{
		fset := token.NewFileSet()
		f, err := parser.ParseFile(fset, filepath.Join(*repo, "x/tokens/keeper/msg_server.go"), nil, 0)
		if err != nil {
			errs = append(errs, "parse tokens msg_server.go: "+err.Error())
		} else {
			found := 0
			for _, decl := range f.Decls {
				fd, ok := decl.(*ast.FuncDecl)
				if !ok || fd.Name.Name != "UpsertTokenInfo" || fd.Body == nil {
					continue
				}
				ast.Inspect(fd.Body, func(n ast.Node) bool {
					is, ok := n.(*ast.IfStmt)
					if !ok || is.Init != nil || len(is.Body.List) != 1 {
						return true
					}
					if ret, ok := is.Body.List[0].(*ast.ReturnStmt); ok && len(ret.Results) == 2 && text(fset, ret.Results[1]) == "types.ErrSupplyCapShouldNotBeIncreased" {
						found++
						switch c := text(fset, is.Cond); c {
						case "!tokenInfo.SupplyCap.IsZero() && (tokenInfo.SupplyCap.LT(msg.SupplyCap) || msg.SupplyCap.IsZero())":
							capGuard = "false"
						case "!tokenInfo.SupplyCap.IsZero() && (tokenInfo.SupplyCap.LT(msg.SupplyCap) || !msg.SupplyCap.IsPositive())":
							capGuard = "true"
						default:
							errs = append(errs, "tokens msg server cap guard outside the fragment: "+c)
						}
					}
					return true
				})
			}
			if found != 1 {
				errs = append(errs, fmt.Sprintf("tokens msg server: %d cap guards found, expected 1", found))
			}
		}
		if capGuard == "" {
			capGuard = "false"
		}
	}
	sort.SliceStable(sites, func(i, j int) bool {
		a, b := sites[i], sites[j]
		if a.pkg != b.pkg {
			return a.pkg < b.pkg
		}
		if a.fn != b.fn {
			return a.fn < b.fn
		}
		return a.order < b.order
	})
	var b strings.Builder
	b.WriteString("(* GENERATED by /verif/harness/cmd/gen_mintburn from the working tree -- do not edit.\n   Every MintCoins / BurnCoins call site of the non-test code under x/ and app/. *)\n")
	b.WriteString("From Sekai Require Import Base.Prelude Model.Monetary.\nLocal Open Scope string_scope.\n\n")
	b.WriteString("Definition mint_burn_sites : list mb_site := [\n")
	for i, s := range sites {
		sep := ";"
		if i == len(sites)-1 {
			sep = ""
		}
		kind := "MBMint"
		if s.kind == "BurnCoins" {
			kind = "MBBurn"
		}
		b.WriteString(fmt.Sprintf("  mkSite %s %s %s %s %s %s%s\n", q(s.pkg), q(s.fn), kind, q(s.via), q(s.module), q(s.coins), sep))
	}
	b.WriteString("].\n\n(* x/tokens/keeper/msg_server.go UpsertTokenInfo: does the cap guard refuse every non-positive new cap? *)\n")
	b.WriteString("Definition cap_guard_strict : bool := " + capGuard + ".\n")
	b.WriteString("\nDefinition mint_burn_gen_errors : list string := [")
	for i, e := range errs {
		if i > 0 {
			b.WriteString("; ")
		}
		b.WriteString(q(e))
	}
	b.WriteString("].\n")
	if err := os.WriteFile(*out, []byte(b.String()), 0o644); err != nil {
		fmt.Fprintln(os.Stderr, err)
		os.Exit(1)
	}
	fmt.Fprintf(os.Stderr, "gen_mintburn: %d sites, %d errors\n", len(sites), len(errs))
	if len(errs) > 0 {
		for _, e := range errs {
			fmt.Fprintln(os.Stderr, "  "+e)
		}
		os.Exit(2)
	}
}
