// gen_mintburn: lists every MintCoins / BurnCoins call site of the non-test, non-generated Go code
// under <repo>/x and <repo>/app as Gallina data (coq/Gen/MintBurn.v).  For each call it records the
// package directory, the enclosing function, the keeper interface the call goes through (resolved
// from the struct field declarations of the package), the module-account argument and the coins
// argument, both as source text.  Anything it cannot resolve is reported in gen_errors.
package main

import (
	"bytes"
	"flag"
	"fmt"
	"go/ast"
	"go/parser"
	"go/printer"
	"go/token"
	"os"
	"path/filepath"
	"sort"
	"strings"
)

type site struct {
	pkg, fn, kind, via, module, coins string
	order                            int
}

func text(fset *token.FileSet, n ast.Node) string {
	var b bytes.Buffer
	printer.Fprint(&b, fset, n)
	return strings.Join(strings.Fields(b.String()), " ")
}

func q(s string) string { return "\"" + strings.ReplaceAll(s, "\"", "\"\"") + "\"" }

func main() {
	repo := flag.String("repo", "/repo", "repository root")
	out := flag.String("out", "MintBurn.v", "output file")
	flag.Parse()
	var sites []site
	var errs []string
	var dirs []string
	for _, root := range []string{"x", "app"} {
		filepath.Walk(filepath.Join(*repo, root), func(p string, info os.FileInfo, err error) error {
			if err == nil && info.IsDir() {
				dirs = append(dirs, p)
			}
			return nil
		})
	}
	sort.Strings(dirs)
	for _, dir := range dirs {
		fset := token.NewFileSet()
		pkgs, err := parser.ParseDir(fset, dir, func(fi os.FileInfo) bool {
			n := fi.Name()
			return !strings.HasSuffix(n, "_test.go") && !strings.HasSuffix(n, ".pb.go") && !strings.HasSuffix(n, ".pb.gw.go")
		}, 0)
		if err != nil {
			errs = append(errs, "parse "+dir+": "+err.Error())
			continue
		}
		rel, _ := filepath.Rel(*repo, dir)
		for _, pkg := range pkgs {
			// struct field name -> declared type (source text), over the whole package
			fields := map[string]string{}
			var files []string
			for fn := range pkg.Files {
				files = append(files, fn)
			}
			sort.Strings(files)
			for _, fn := range files {
				ast.Inspect(pkg.Files[fn], func(n ast.Node) bool {
					if st, ok := n.(*ast.StructType); ok {
						for _, f := range st.Fields.List {
							for _, nm := range f.Names {
								t := text(fset, f.Type)
								if old, dup := fields[nm.Name]; dup && old != t {
									fields[nm.Name] = old + "|" + t
								} else {
									fields[nm.Name] = t
								}
							}
						}
					}
					return true
				})
			}
			for _, fn := range files {
				for _, decl := range pkg.Files[fn].Decls {
					fd, ok := decl.(*ast.FuncDecl)
					if !ok || fd.Body == nil {
						continue
					}
					name := fd.Name.Name
					if fd.Recv != nil && len(fd.Recv.List) == 1 {
						name = strings.TrimPrefix(text(fset, fd.Recv.List[0].Type), "*") + "." + name
					}
					k := 0
					ast.Inspect(fd.Body, func(n ast.Node) bool {
						call, ok := n.(*ast.CallExpr)
						if !ok {
							return true
						}
						sel, ok := call.Fun.(*ast.SelectorExpr)
						if !ok || (sel.Sel.Name != "MintCoins" && sel.Sel.Name != "BurnCoins") {
							return true
						}
						if len(call.Args) != 3 {
							errs = append(errs, fmt.Sprintf("%s %s: %s with %d arguments", rel, name, sel.Sel.Name, len(call.Args)))
							return true
						}
						// the keeper the call goes through: last selector of the receiver expression
						via := "?"
						switch r := sel.X.(type) {
						case *ast.SelectorExpr:
							if t, ok := fields[r.Sel.Name]; ok {
								via = t
							} else {
								errs = append(errs, fmt.Sprintf("%s %s: cannot resolve field %s", rel, name, r.Sel.Name))
							}
						default:
							errs = append(errs, fmt.Sprintf("%s %s: receiver %s outside the fragment", rel, name, text(fset, sel.X)))
						}
						sites = append(sites, site{rel, name, sel.Sel.Name, via, text(fset, call.Args[1]), text(fset, call.Args[2]), k})
						k++
						return true
					})
				}
			}
		}
	}
	// ---- the cap guard of the tokens msg server (x/tokens/keeper/msg_server.go UpsertTokenInfo): the `if` that
	// returns ErrSupplyCapShouldNotBeIncreased.  Two shapes are known to the model (Model/Monetary.v upsert_msg).
	capGuard := ""
	{
		fset := token.NewFileSet()
		f, err := parser.ParseFile(fset, filepath.Join(*repo, "x/tokens/keeper/msg_server.go"), nil, 0)
		if err != nil {
			errs = append(errs, "parse tokens msg_server.go: "+err.Error())
		} else {
			found := 0
			for _, decl := range f.Decls {
				fd, ok := decl.(*ast.FuncDecl)
				if !ok || fd.Name.Name != "UpsertTokenInfo" || fd.Body == nil {
					continue
				}
				ast.Inspect(fd.Body, func(n ast.Node) bool {
					is, ok := n.(*ast.IfStmt)
					if !ok || is.Init != nil || len(is.Body.List) != 1 {
						return true
					}
					if ret, ok := is.Body.List[0].(*ast.ReturnStmt); ok && len(ret.Results) == 2 && text(fset, ret.Results[1]) == "types.ErrSupplyCapShouldNotBeIncreased" {
						found++
						switch c := text(fset, is.Cond); c {
						case "!tokenInfo.SupplyCap.IsZero() && (tokenInfo.SupplyCap.LT(msg.SupplyCap) || msg.SupplyCap.IsZero())":
							capGuard = "false"
						case "!tokenInfo.SupplyCap.IsZero() && (tokenInfo.SupplyCap.LT(msg.SupplyCap) || !msg.SupplyCap.IsPositive())":
							capGuard = "true"
						default:
							errs = append(errs, "tokens msg server cap guard outside the fragment: "+c)
						}
					}
					return true
				})
			}
			if found != 1 {
				errs = append(errs, fmt.Sprintf("tokens msg server: %d cap guards found, expected 1", found))
			}
		}
		if capGuard == "" {
			capGuard = "false"
		}
	}
	// ---- four more guard shapes known to the model (Model/Monetary.v config); anything else is outside the fragment
	parseFunc := func(rel, recv, name string) (*token.FileSet, *ast.FuncDecl) {
		fset := token.NewFileSet()
		f, err := parser.ParseFile(fset, filepath.Join(*repo, rel), nil, 0)
		if err != nil {
			errs = append(errs, "parse "+rel+": "+err.Error())
			return fset, nil
		}
		for _, decl := range f.Decls {
			fd, ok := decl.(*ast.FuncDecl)
			if !ok || fd.Name.Name != name || fd.Body == nil {
				continue
			}
			r := ""
			if fd.Recv != nil && len(fd.Recv.List) == 1 {
				r = strings.TrimPrefix(text(fset, fd.Recv.List[0].Type), "*")
			}
			if r == recv {
				return fset, fd
			}
		}
		errs = append(errs, fmt.Sprintf("%s: function %s.%s not found", rel, recv, name))
		return fset, nil
	}
	// statements of a function body as normalised source text, debug prints dropped
	stmts := func(fset *token.FileSet, fd *ast.FuncDecl) []string {
		var xs []string
		for _, st := range fd.Body.List {
			t := text(fset, st)
			if strings.HasPrefix(t, "fmt.Println(") {
				continue
			}
			xs = append(xs, t)
		}
		return xs
	}
	pick := func(what, got string, shapes map[string]string) string {
		if v, ok := shapes[got]; ok {
			return v
		}
		errs = append(errs, what+" outside the fragment: "+got)
		return "false"
	}
	ubiExact, ubiAmount, ubiDue, mintRefused := "false", "false", "false", "false"
	if fset, fd := parseFunc("x/ubi/proposal_handler.go", "ApplyUpsertUBIProposalHandler", "Apply"); fd != nil {
		// everything before the record is stored (the stored record itself is observed by the differential run)
		var head []string
		for _, t := range stmts(fset, fd) {
			if strings.HasPrefix(t, "a.keeper.SetUBIRecord(") {
				break
			}
			head = append(head, t)
		}
		ubiExact = pick("ubi upsert handler", strings.Join(head, " ;; "), map[string]string{
			"p := proposal.(*ubitypes.UpsertUBIProposal) ;; spendingPool := a.sk.GetSpendingPool(ctx, p.Pool) ;; if spendingPool == nil { return ubitypes.ErrSpendingPoolDoesNotExist } ;; yearSeconds := uint64(31556952) ;; hardcap := a.gk.GetNetworkProperties(ctx).UbiHardcap ;; allRecords := a.keeper.GetUBIRecords(ctx) ;; ubiSum := uint64(0) ;; for _, record := range allRecords { ubiSum += record.Amount * yearSeconds / record.Period } ;; if ubiSum+p.Amount*yearSeconds/p.Period > hardcap { return ubitypes.ErrUbiSumOverflowsHardcap }": "false",
			"p := proposal.(*ubitypes.UpsertUBIProposal) ;; spendingPool := a.sk.GetSpendingPool(ctx, p.Pool) ;; if spendingPool == nil { return ubitypes.ErrSpendingPoolDoesNotExist } ;; if p.Period == 0 { return ubitypes.ErrUbiSumOverflowsHardcap } ;; yearSeconds := sdk.NewInt(31556952) ;; hardcap := sdk.NewIntFromUint64(a.gk.GetNetworkProperties(ctx).UbiHardcap) ;; allRecords := a.keeper.GetUBIRecords(ctx) ;; ubiSum := sdk.ZeroInt() ;; for _, record := range allRecords { ubiSum = ubiSum.Add(sdk.NewIntFromUint64(record.Amount).Mul(yearSeconds).Quo(sdk.NewIntFromUint64(record.Period))) } ;; if ubiSum.Add(sdk.NewIntFromUint64(p.Amount).Mul(yearSeconds).Quo(sdk.NewIntFromUint64(p.Period))).GT(hardcap) { return ubitypes.ErrUbiSumOverflowsHardcap }": "true",
		})
	}
	if fset, fd := parseFunc("x/ubi/keeper/ubi.go", "Keeper", "ProcessUBIRecord"); fd != nil {
		got := ""
		for _, t := range stmts(fset, fd) {
			if strings.HasPrefix(t, "amount := ") {
				got = t
			}
		}
		ubiAmount = pick("ubi payout amount", got, map[string]string{
			"amount := sdk.NewInt(int64(record.Amount)).Mul(sdk.NewInt(1000_000))":     "false",
			"amount := sdk.NewIntFromUint64(record.Amount).Mul(sdk.NewInt(1000_000))": "true",
		})
	}
	{
		fset := token.NewFileSet()
		f, err := parser.ParseFile(fset, filepath.Join(*repo, "x/ubi/abci.go"), nil, 0)
		if err != nil {
			errs = append(errs, "parse x/ubi/abci.go: "+err.Error())
		} else {
			var conds []string
			ast.Inspect(f, func(n ast.Node) bool {
				if is, ok := n.(*ast.IfStmt); ok && strings.Contains(text(fset, is.Cond), "record.Period") {
					conds = append(conds, text(fset, is.Cond))
				}
				return true
			})
			ubiDue = pick("ubi due test", strings.Join(conds, " ;; "), map[string]string{
				"currUnixTimestamp > record.DistributionLast+record.Period && (record.DistributionEnd == 0 || record.DistributionLast < record.DistributionEnd)":                                                          "false",
				"currUnixTimestamp > record.DistributionLast && currUnixTimestamp-record.DistributionLast > record.Period && (record.DistributionEnd == 0 || record.DistributionLast < record.DistributionEnd)": "true",
			})
		}
	}
	if fset, fd := parseFunc("x/layer2/keeper/msg_server.go", "msgServer", "MintIssueTx"); fd != nil {
		var head []string
		for _, t := range stmts(fset, fd) {
			if strings.HasPrefix(t, "tokenInfo := ") {
				break
			}
			head = append(head, t)
		}
		mintRefused = pick("layer2 MintIssueTx prologue", strings.Join(head, " ;; "), map[string]string{
			"ctx := sdk.UnwrapSDKContext(goCtx) ;; sender := sdk.MustAccAddressFromBech32(msg.Sender)": "false",
			"ctx := sdk.UnwrapSDKContext(goCtx) ;; sender := sdk.MustAccAddressFromBech32(msg.Sender) ;; if msg.Denom == k.keeper.DefaultDenom(ctx) { return nil, types.ErrBondDenomNotMintable }": "true",
		})
	}
	sort.SliceStable(sites, func(i, j int) bool {
		a, b := sites[i], sites[j]
		if a.pkg != b.pkg {
			return a.pkg < b.pkg
		}
		if a.fn != b.fn {
			return a.fn < b.fn
		}
		return a.order < b.order
	})
	var b strings.Builder
	b.WriteString("(* GENERATED by /verif/harness/cmd/gen_mintburn from the working tree -- do not edit.\n   Every MintCoins / BurnCoins call site of the non-test code under x/ and app/. *)\n")
	b.WriteString("From Sekai Require Import Base.Prelude Model.Monetary.\nLocal Open Scope string_scope.\n\n")
	b.WriteString("Definition mint_burn_sites : list mb_site := [\n")
	for i, s := range sites {
		sep := ";"
		if i == len(sites)-1 {
			sep = ""
		}
		kind := "MBMint"
		if s.kind == "BurnCoins" {
			kind = "MBBurn"
		}
		b.WriteString(fmt.Sprintf("  mkSite %s %s %s %s %s %s%s\n", q(s.pkg), q(s.fn), kind, q(s.via), q(s.module), q(s.coins), sep))
	}
	b.WriteString("].\n\n(* x/tokens/keeper/msg_server.go UpsertTokenInfo: does the cap guard refuse every non-positive new cap? *)\n")
	b.WriteString("Definition cap_guard_strict : bool := " + capGuard + ".\n")
	b.WriteString("(* guard shapes of this tree: cap guard, ubi hard-cap arithmetic, ubi payout amount, ubi due test, MintIssueTx bond-denom refusal *)\n")
	b.WriteString("Definition tree_config : config := mkConfig cap_guard_strict " + ubiExact + " " + ubiAmount + " " + ubiDue + " " + mintRefused + ".\n")
	b.WriteString("\nDefinition mint_burn_gen_errors : list string := [")
	for i, e := range errs {
		if i > 0 {
			b.WriteString("; ")
		}
		b.WriteString(q(e))
	}
	b.WriteString("].\n")
	if err := os.WriteFile(*out, []byte(b.String()), 0o644); err != nil {
		fmt.Fprintln(os.Stderr, err)
		os.Exit(1)
	}
	fmt.Fprintf(os.Stderr, "gen_mintburn: %d sites, %d errors\n", len(sites), len(errs))
	if len(errs) > 0 {
		for _, e := range errs {
			fmt.Fprintln(os.Stderr, "  "+e)
		}
		os.Exit(2)
	}
}
