package main

import (
	"strings"
	"time"
	"crypto/sha256"
	"encoding/hex"
	"fmt"

	"verif/harness/hx"

	simapp "github.com/KiraCore/sekai/app"
	"github.com/KiraCore/sekai/x/gov"
	govtypes "github.com/KiraCore/sekai/x/gov/types"
	"github.com/KiraCore/sekai/x/upgrade"
	upgradetypes "github.com/KiraCore/sekai/x/upgrade/types"
	recoverykeeper "github.com/KiraCore/sekai/x/recovery/keeper"
	recoverytypes "github.com/KiraCore/sekai/x/recovery/types"
	"github.com/KiraCore/sekai/x/slashing"
	slashingtypes "github.com/KiraCore/sekai/x/slashing/types"
	"github.com/KiraCore/sekai/x/staking"
	stakingtypes "github.com/KiraCore/sekai/x/staking/types"
	cometbftdb "github.com/cometbft/cometbft-db"
	abci "github.com/cometbft/cometbft/abci/types"
	"github.com/cometbft/cometbft/libs/log"
	tmtypes "github.com/cometbft/cometbft/types"
	simtestutil "github.com/cosmos/cosmos-sdk/testutil/sims"
	sdk "github.com/cosmos/cosmos-sdk/types"
	minttypes "github.com/cosmos/cosmos-sdk/x/mint/types"
)

// rotate: the REAL recovery MsgRotateRecoveryAddress from validator address v to the unused address v2
// (account, fee and recovery record are prepared so that the message is accepted)
func (x *hist) rotate(v, v2 int) {
	if x.dead {
		return
	}
	w := x.w
	a := appOf(w)
	ctx := x.blockCtx()
	addr, rot := sdk.AccAddress(w.valAddrs[v]), sdk.AccAddress(w.valAddrs[v2])
	if a.AccountKeeper.GetAccount(ctx, addr) == nil {
		a.AccountKeeper.SetAccount(ctx, a.AccountKeeper.NewAccountWithAddress(ctx, addr))
	}
	if err := a.BankKeeper.MintCoins(ctx, minttypes.ModuleName, recoverykeeper.RecoveryFee); err != nil {
		panic(err)
	}
	if err := a.BankKeeper.SendCoinsFromModuleToAccount(ctx, minttypes.ModuleName, addr, recoverykeeper.RecoveryFee); err != nil {
		panic(err)
	}
	if _, err := a.RecoveryKeeper.GetRecoveryToken(ctx, addr.String()); err == nil {
		x.rotateHalf(v, v2) // an address that issued a recovery token can only be rotated by its holders
		return
	}
	x.propSeq++
	proof := sha256.Sum256([]byte(fmt.Sprintf("verif-rotation-secret-%d-%d", v, x.propSeq)))
	challenge := sha256.Sum256(proof[:])
	a.RecoveryKeeper.SetRecoveryRecord(ctx, recoverytypes.RecoveryRecord{Address: addr.String(), Challenge: hex.EncodeToString(challenge[:]), Nonce: "1"})
	msg := recoverytypes.NewMsgRotateRecoveryAddress(addr.String(), addr.String(), rot.String(), hex.EncodeToString(proof[:]))
	ms := recoverykeeper.NewMsgServerImpl(a.RecoveryKeeper)
	res, e := x.runMsg(func(c sdk.Context) error { _, err := ms.RotateRecoveryAddress(sdk.WrapSDKContext(c), msg); return err })
	x.markRot(v, v2, res == "ROk")
	x.record(fmt.Sprintf("ORotate %d %d", v, v2), jop{Op: "rotate", V: v, To: v2, Err: e}, res, "")
}

// genesis: staking + slashing ExportGenesis of the current state, then InitChain of a FRESH application
// with that genesis; the history continues on the new application
func (x *hist) genesis(over map[int]sinfo) {
	if x.dead {
		return
	}
	w := x.w
	ctx := x.blockCtx()
	stExp := staking.ExportGenesis(ctx, w.sk)
	slExp := slashing.ExportGenesis(ctx, w.slk)
	// signing infos edited in the genesis file before the import
	var overCoq []string
	for _, k := range sortedKeysS(over) {
		ca := sdk.ConsAddress(w.keys[k].Address()).String()
		o := over[k]
		found := false
		for i := range slExp.SigningInfos {
			if slExp.SigningInfos[i].Address == ca {
				in := &slExp.SigningInfos[i].ValidatorSigningInfo
				in.StartHeight, in.InactiveUntil = o.Start, time.Unix(0, o.Until).UTC()
				in.MischanceConfidence, in.Mischance, in.LastPresentBlock = o.Conf, o.Misch, o.Last
				in.MissedBlocksCounter, in.ProducedBlocksCounter = o.Missed, o.Produced
				found = true
			}
		}
		if !found {
			panic("genesis edit of a signing info that is not exported")
		}
		overCoq = append(overCoq, hx.Pair(hx.Z(int64(k)), o.coq()))
	}
	opCoq := "OGenesis " + hx.List(overCoq)
	app2 := simapp.NewInitApp(log.NewNopLogger(), cometbftdb.NewMemDB(), nil, true, map[int64]bool{}, simapp.DefaultNodeHome, 5,
		simapp.MakeEncodingConfig(), simtestutil.EmptyAppOptions{})
	gs := simapp.GenesisStateWithValSet(app2)
	gs[stakingtypes.ModuleName] = app2.AppCodec().MustMarshalJSON(stExp)
	gs[slashingtypes.ModuleName] = app2.AppCodec().MustMarshalJSON(slExp)
	// gov (proposals, votes, actors, network properties) and upgrade (current / next plan) travel too, so that
	// a process spanning two blocks (upgrade plan) continues on the new chain
	gs[govtypes.ModuleName] = app2.AppCodec().MustMarshalJSON(gov.ExportGenesis(ctx, appOf(w).CustomGovKeeper))
	gs[upgradetypes.ModuleName] = upgrade.NewAppModule(appOf(w).UpgradeKeeper).ExportGenesis(ctx, app2.AppCodec())
	bz, err := jsonMarshal(gs)
	if err != nil {
		panic(err)
	}
	var resp abci.ResponseInitChain
	p := hx.Try(func() {
		resp = app2.InitChain(abci.RequestInitChain{Validators: []abci.ValidatorUpdate{}, ConsensusParams: simtestutil.DefaultConsensusParams, AppStateBytes: bz})
	})
	if p != "" {
		x.dead = true
		x.steps = append(x.steps, hx.Pair(opCoq, obsCoq("RPanic", x.prev, x.prev, "(Some ([], false, []))")))
		if len(p) > 160 {
			p = p[:160]
		}
		x.ops = append(x.ops, jop{Op: "genesis-import", Res: "RPanic", Err: p})
		x.dist.Inc("genesis-import:RPanic")
		return
	}
	// the history moves to the new application
	w2 := *w
	w2.app, w2.sk, w2.slk = app2, app2.CustomStakingKeeper, app2.CustomSlashingKeeper
	x.w = &w2
	c, _ := hx.Ctx(app2, x.h, x.t/1e9).CacheContext()
	x.ctx = c
	setProps(app2, c, x.cur)
	var ju [][2]int64
	for _, u := range resp.Validators {
		pk, err := tmtypesPub(u)
		if err != nil {
			panic(err)
		}
		ju = append(ju, [2]int64{int64(w.consID[string(pk.Address())]), u.Power})
	}
	applied, consErr := true, ""
	changes, err := tmtypes.PB2TM.ValidatorUpdates(resp.Validators)
	vs := &tmtypes.ValidatorSet{}
	if err != nil {
		applied, consErr = false, err.Error()
	} else {
		var uerr error
		pp := hx.Try(func() { uerr = vs.UpdateWithChangeSet(changes) })
		if pp != "" {
			applied, consErr = false, "panic: "+pp
		} else if uerr != nil {
			applied, consErr = false, uerr.Error()
		}
	}
	if applied {
		x.valset = vs
	} else {
		x.valset = &tmtypes.ValidatorSet{}
		x.dead = true
		if len(consErr) > 160 {
			consErr = consErr[:160]
		}
	}
	sp := x.setPairs()
	eb := fmt.Sprintf("(Some (%s, %s, %s))", pairs(ju), hx.B(applied), pairs(sp))
	x.record(opCoq, jop{Op: "genesis-import", Note: strings.Join(overCoq, " "), Updates: ju, Applied: &applied, ConsErr: consErr, ConsSet: sp}, "ROk", eb)
	if !x.dead && !x.consistent() {
		x.dead = true
	}
}

var propEnum = []govtypes.NetworkProperty{govtypes.MischanceConfidence, govtypes.MaxMischance, govtypes.MischanceRankDecreaseAmount,
	govtypes.DowntimeInactiveDuration, govtypes.UnjailMaxTime, govtypes.MinValidators}
var propNames = []string{"MischanceConfidence", "MaxMischance", "MischanceRankDecreaseAmount", "DowntimeInactiveDuration", "UnjailMaxTime", "MinValidators"}

// setProp: a passed SetNetworkProperty proposal, applied through the real gov proposal router
func (x *hist) setProp(which int, value uint64) {
	if x.dead {
		return
	}
	gk := appOf(x.w).CustomGovKeeper
	content := &govtypes.SetNetworkPropertyProposal{NetworkProperty: propEnum[which], Value: govtypes.NetworkPropertyValue{Value: value}}
	x.propSeq++
	var err error
	p := hx.Try(func() { err = gk.GetProposalRouter().ApplyProposal(x.blockCtx(), uint64(1000+x.propSeq), content, sdk.ZeroDec()) })
	if p != "" {
		panic("SetNetworkProperty proposal panicked: " + p)
	}
	accepted := err == nil
	if accepted {
		switch which {
		case 0:
			x.cur.MC = value
		case 1:
			x.cur.MaxM = value
		case 2:
			x.cur.RankDec = value
		case 3:
			x.cur.Downtime = value
		case 4:
			x.cur.Unjail = value
		case 5:
			x.cur.MinVals = value
		}
	}
	// the settings the code will read are the ones the model is told about
	pr := gk.GetNetworkProperties(x.blockCtx())
	if pr.MischanceConfidence != x.cur.MC || pr.MaxMischance != x.cur.MaxM || pr.MischanceRankDecreaseAmount != x.cur.RankDec ||
		pr.DowntimeInactiveDuration != x.cur.Downtime || pr.UnjailMaxTime != x.cur.Unjail || pr.MinValidators != x.cur.MinVals {
		panic("network properties differ from the tracked settings")
	}
	e := ""
	if err != nil {
		e = err.Error()
	}
	res := "ROk"
	if !accepted {
		res = "RRej"
	}
	x.record(fmt.Sprintf("OSetProp %d %d %s", which, value, hx.B(accepted)), jop{Op: "set-property", Note: fmt.Sprintf("%s=%d", propNames[which], value), Err: e}, res, "")
}

// rotateHalf: the REAL recovery MsgRotateValidatorByHalfRRTokenHolder: the validator at address v has issued
// its recovery token (MsgIssueRecoveryTokens, done here if it has none yet); the holder of all of it
// (>= half) rotates the validator to the unused address v2.  Staking effect = the model's ORotate.
func (x *hist) rotateHalf(v, v2 int) {
	if x.dead {
		return
	}
	w := x.w
	a := appOf(w)
	ctx := x.blockCtx()
	addr, rot := sdk.AccAddress(w.valAddrs[v]), sdk.AccAddress(w.valAddrs[v2])
	ms := recoverykeeper.NewMsgServerImpl(a.RecoveryKeeper)
	if x.rrHolder == nil {
		x.rrHolder = map[string]string{}
	}
	holder, has := x.rrHolder[addr.String()]
	if _, err := a.RecoveryKeeper.GetRecoveryToken(ctx, addr.String()); err != nil {
		// issue the token: bond in KEX, moniker record required
		if a.AccountKeeper.GetAccount(ctx, addr) == nil {
			a.AccountKeeper.SetAccount(ctx, a.AccountKeeper.NewAccountWithAddress(ctx, addr))
		}
		bond := sdk.NewCoins(sdk.NewCoin("ukex", sdk.NewInt(int64(a.CustomGovKeeper.GetNetworkProperties(ctx).ValidatorRecoveryBond)).Mul(sdk.NewInt(1000_000))))
		if err := a.BankKeeper.MintCoins(ctx, minttypes.ModuleName, bond); err != nil {
			panic(err)
		}
		if err := a.BankKeeper.SendCoinsFromModuleToAccount(ctx, minttypes.ModuleName, addr, bond); err != nil {
			panic(err)
		}
		c, write := ctx.CacheContext()
		if _, err := ms.IssueRecoveryTokens(sdk.WrapSDKContext(c), recoverytypes.NewMsgIssueRecoveryTokens(addr.String())); err != nil {
			// no moniker record (genesis validator): this validator can only be rotated by its recovery secret
			x.rotate(v, v2)
			return
		}
		write()
		holder, has = addr.String(), true
	}
	if !has {
		holder = addr.String()
	}
	msg := recoverytypes.NewMsgRotateValidatorByHalfRRTokenHolder(holder, addr.String(), rot.String())
	res, e := x.runMsg(func(c sdk.Context) error { _, err := ms.RotateValidatorByHalfRRTokenHolder(sdk.WrapSDKContext(c), msg); return err })
	if res == "ROk" {
		delete(x.rrHolder, addr.String())
		x.rrHolder[rot.String()] = holder
	}
	x.markRot(v, v2, res == "ROk")
	x.record(fmt.Sprintf("ORotate %d %d", v, v2), jop{Op: "rotate", V: v, To: v2, Err: e, Note: "MsgRotateValidatorByHalfRRTokenHolder"}, res, "")
}

// rotTargets: unused addresses that may receive a rotated validator: not a validator, no pending claim, no
// rotation history, not a network actor
func (x *hist) rotTargets() []int {
	var out []int
	gk := appOf(x.w).CustomGovKeeper
	for _, id := range x.unclaimed() {
		if x.rotUsed[id] {
			continue
		}
		if _, found := gk.GetNetworkActorByAddress(x.blockCtx(), sdk.AccAddress(x.w.valAddrs[id])); found {
			continue
		}
		out = append(out, id)
	}
	return out
}
func (x *hist) markRot(v, v2 int, accepted bool) {
	if accepted {
		x.renamePerson(v, v2)
	}
	if x.rotUsed == nil {
		x.rotUsed = map[int]bool{}
	}
	x.rotUsed[v], x.rotUsed[v2] = true, true
}
