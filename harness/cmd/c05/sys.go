package main

import (
	"os"
	"strings"

	"verif/harness/hx"
)

// Systematic stream: for every start status of one validator (NEW = not yet claimed, ACTIVE with one
// earlier miss, INACTIVE with its period over, PAUSED, JAILED inside the unjail window) and every
// single / ordered pair / ordered triple of status-changing operations applied to THAT validator
// within ONE block -- in the order in which a block can deliver them (upgrade pause, commit votes,
// evidence in BeginBlock; messages in any order; proposals in any order in EndBlock) -- run the block
// and one follow-up block on the real code.  Two other validators stay active and sign, so the
// deliverability hypothesis holds and the pause guard lets messages through.

var sysNames = []string{"upgrade-pause", "downtime", "evidence", "claim", "pause", "unpause", "activate", "unjail", "reset", "rotate", "rotate-half-rr"}
var sysPhase = []int{0, 1, 2, 3, 3, 3, 3, 4, 4, 3, 3}
var sysStarts = []string{"NEW", "ACTIVE", "INACTIVE", "PAUSED", "JAILED"}

func sysValid(t []int) bool {
	nrot := 0
	for _, o := range t {
		if o == 9 || o == 10 {
			nrot++
		}
	}
	if nrot > 1 {
		return false
	}
	for i := 1; i < len(t); i++ {
		pa, pb := sysPhase[t[i-1]], sysPhase[t[i]]
		if pb < pa || (pb == pa && pa < 3) {
			return false
		}
	}
	return true
}

func sysTuples(n int) [][]int {
	var out [][]int
	var rec func(cur []int)
	rec = func(cur []int) {
		if len(cur) == n {
			if sysValid(cur) {
				out = append(out, append([]int{}, cur...))
			}
			return
		}
		for o := range sysNames {
			rec(append(cur, o))
		}
	}
	rec(nil)
	return out
}

func has(t []int, o int) bool {
	for _, x := range t {
		if x == o {
			return true
		}
	}
	return false
}

func sysName(start string, t []int) string {
	var ns []string
	for _, o := range t {
		ns = append(ns, sysNames[o])
	}
	return "sys:" + start + ":" + strings.Join(ns, ">")
}

func runSys(x *hist, r *hx.Rng, g int, start string, t []int, genesisAfter bool) {
	var o []int
	for i := 0; i <= nCand; i++ {
		if i != g {
			o = append(o, i)
		}
	}
	a, b := o[0], o[1]
	ev := func() { x.evidence([][3]int64{{int64(a), x.h - 1, x.t - 1e9}}) }
	x.newBlock(5)
	x.allSign()
	x.claim(b, b, true)
	if start != "NEW" {
		x.claim(a, a, true)
	}
	x.end()
	switch start {
	case "ACTIVE":
		x.newBlock(5)
		x.allSign(int64(a))
		x.end()
	case "INACTIVE":
		for i := 0; i < 2; i++ {
			x.newBlock(5)
			x.allSign(int64(a))
			x.end()
		}
	case "PAUSED":
		x.newBlock(5)
		x.allSign()
		x.ownerMsg("pause", a)
		x.end()
	case "JAILED":
		x.newBlock(5)
		x.allSign()
		ev()
		x.end()
	}
	// ---- the block under test
	x.newBlock(100)
	if has(t, 0) {
		x.upgradePause([]int64{int64(a)}, r)
	}
	var vs [][2]int64
	inSet := false
	for _, k := range x.consKeys() {
		s := int64(1)
		if k == int64(a) {
			inSet = true
			if has(t, 1) {
				s = 0
			}
		}
		vs = append(vs, [2]int64{k, s})
	}
	if !inSet && has(t, 1) && hasKey(x.prev.Pk, int64(a)) {
		vs = append(vs, [2]int64{int64(a), 0}) // a late (missed) vote of a validator outside the set
	}
	x.votes(vs)
	if has(t, 2) {
		ev()
	}
	for _, op := range t {
		switch op {
		case 3:
			x.claim(a, a, true)
		case 4:
			x.ownerMsg("pause", a)
		case 5:
			x.ownerMsg("unpause", a)
		case 6:
			x.ownerMsg("activate", a)
		case 9, 10:
			// address rotation (by recovery secret / by a holder of half of the recovery tokens): the later
			// operations of the block follow the record to its new address
			if _, isVal := x.prev.Vals[o[2]]; !isVal && !x.dead {
				if op == 9 {
					x.rotate(a, o[2])
				} else {
					x.rotateHalf(a, o[2])
				}
				a, o[2] = o[2], a
			}
		}
	}
	for _, op := range t {
		switch op {
		case 7:
			x.proposal("unjail", a)
		case 8:
			x.proposal("reset", 0)
		}
	}
	x.end()
	if genesisAfter {
		// the state is exported after the block under test (between the two blocks of every two-phase
		// process: upgrade pause -> upgrade, status change -> next commit) and imported into a fresh chain
		x.genesis(nil)
	}
	// ---- follow-up block: nothing may be left over in the queues
	x.newBlock(5)
	x.allSign()
	x.end()
}

// sysPlan: all singles and pairs; triples: a seeded sample in the quick tier, all in the thorough tier
func sysPlan(r *hx.Rng) (plan [][]int, nTriples int) {
	plan = append(plan, sysTuples(1)...)
	plan = append(plan, sysTuples(2)...)
	tr := sysTuples(3)
	nTriples = len(tr)
	if os.Getenv("VERIF_TIER") == "thorough" || os.Getenv("VERIF_SYS") == "all" {
		plan = append(plan, tr...)
	} else {
		for i := 0; i < 30; i++ {
			plan = append(plan, tr[r.Intn(len(tr))])
		}
	}
	return
}

// Threshold stream: a validator misses block after block; after k misses a proposal changes
// MischanceConfidence or MaxMischance (up or down, across the validator's current counters); it keeps
// missing until it is inactivated (or 10 more blocks).
type thrCase struct{ mc0, maxm0, which, val, k int }

func thrCases() []thrCase {
	var out []thrCase
	for _, mc0 := range []int{0, 1, 3} {
		for _, maxm0 := range []int{1, 2, 4} {
			for which := 0; which < 2; which++ {
				for _, val := range [][]int{{0, 1, 3, 5}, {1, 2, 4, 6}}[which] {
					if (which == 0 && val == mc0) || (which == 1 && val == maxm0) {
						continue
					}
					for _, k := range []int{1, 2, 4} {
						out = append(out, thrCase{mc0, maxm0, which, val, k})
					}
				}
			}
		}
	}
	return out
}

func runThr(x *hist, g int, c thrCase, genesisAfter bool) {
	var o []int
	for i := 0; i <= nCand; i++ {
		if i != g {
			o = append(o, i)
		}
	}
	a, b := o[0], o[1]
	x.setProp(0, uint64(c.mc0))
	x.setProp(1, uint64(c.maxm0))
	x.newBlock(5)
	x.allSign()
	x.claim(a, a, true)
	x.claim(b, b, true)
	x.end()
	_ = b
	inactive := func() bool { return x.prev.Vals[a].Status != stActive }
	for i := 0; i < c.k && !inactive(); i++ {
		x.newBlock(5)
		x.allSign(int64(a))
		if i == c.k-1 {
			x.setProp(c.which, uint64(c.val)) // the proposal passes in the block of the k-th miss
		}
		x.end()
	}
	if genesisAfter {
		x.genesis(nil)
	}
	for i := 0; i < 10 && !x.dead; i++ {
		x.newBlock(5)
		if inactive() {
			x.allSign()
			x.end()
			break
		}
		x.allSign(int64(a))
		x.end()
	}
}

// Boundary stream: every time comparison of the status machine is probed at the stored deadline
// -1 s / -999 ms / -500 ms / -1 ns / exactly / +1 ns / +1 s: end of the inactivity period (MsgActivate), end
// of the unjail window (jail time + UnjailMaxTime), evidence age (duration and block count).
var bndDeltas = []int64{-1000000000, -999000000, -500000000, -1, 0, 1, 1000000000}

type bndCase struct {
	kind string
	d    int64
}

func bndCases() []bndCase {
	var out []bndCase
	for _, k := range []string{"activate", "unjail", "evidence-age-duration"} {
		for _, d := range bndDeltas {
			out = append(out, bndCase{k, d})
		}
	}
	for _, d := range []int64{-1, 0, 1} {
		out = append(out, bndCase{"evidence-age-blocks", d})
	}
	return out
}

func runBnd(x *hist, g int, c bndCase) {
	var o []int
	for i := 0; i <= nCand; i++ {
		if i != g {
			o = append(o, i)
		}
	}
	a, b := o[0], o[1]
	cf := configs[x.cfg]
	x.newBlockNs(5e9 + 123456789)
	x.allSign()
	x.claim(a, a, true)
	x.claim(b, b, true)
	x.end()
	switch c.kind {
	case "activate":
		for i := 0; i < 2; i++ { // cfg 0: inactive at the second miss
			x.newBlockNs(5e9 + 7)
			x.allSign(int64(a))
			x.end()
		}
		until := x.prev.SI[a].Until
		x.newBlockNs(until + c.d - x.t)
		x.allSign()
		x.ownerMsg("activate", a)
		x.end()
		x.newBlockNs(2e9)
		x.allSign()
		x.ownerMsg("activate", a)
		x.end()
	case "unjail":
		x.newBlockNs(5e9 + 7)
		x.allSign()
		x.evidence([][3]int64{{int64(a), x.h - 1, x.t - 1e9}})
		jt := x.t
		x.end()
		x.newBlockNs(jt + int64(x.cur.Unjail)*1e9 + c.d - x.t)
		x.allSign()
		x.proposal("unjail", a)
		x.end()
	case "evidence-age-duration":
		for i := 0; i < 7; i++ { // enough blocks for an old infraction height
			x.newBlockNs(200e9 + 1)
			x.allSign()
			x.end()
		}
		x.newBlockNs(5e9)
		x.allSign()
		x.evidence([][3]int64{{int64(a), x.h - cf.EvAgeBlocks - 1, x.t - cf.EvAgeDur*1e9 - c.d}})
		x.end()
	case "evidence-age-blocks":
		for i := 0; i < 7; i++ {
			x.newBlockNs(200e9 + 1)
			x.allSign()
			x.end()
		}
		x.newBlockNs(5e9)
		x.allSign()
		x.evidence([][3]int64{{int64(a), x.h - cf.EvAgeBlocks - c.d, x.t - cf.EvAgeDur*1e9 - 1}})
		x.end()
	}
	x.newBlockNs(5e9)
	x.allSign()
	x.end()
}

// Last-validators stream: networks of 1, 2, 3 validators with MinValidators in {1, n, n+1}; one status-lowering
// operation kind (owner pause in lower-case and in upper-case bech32, downtime, double-sign evidence,
// upgrade pause) is applied to one validator per block until nobody would be left.  Downtime stops before
// the last validator (a block cannot be committed without its only signer).
type lastCase struct {
	n, minv int
	kind    string
}

func lastCases() []lastCase {
	var out []lastCase
	for n := 1; n <= 3; n++ {
		for _, mv := range []int{1, n, n + 1} {
			if mv == 1 && n == 1 && false {
				continue
			}
			for _, k := range []string{"pause", "PAUSE", "downtime", "evidence", "upgrade-pause"} {
				dup := false
				for _, o := range out {
					if o.n == n && o.minv == mv && o.kind == k {
						dup = true
					}
				}
				if !dup {
					out = append(out, lastCase{n, mv, k})
				}
			}
		}
	}
	return out
}

func runLast(x *hist, g int, c lastCase, r *hx.Rng, genesisEach bool) {
	ids := []int{g}
	for i := 0; i <= nCand && len(ids) < c.n; i++ {
		if i != g {
			ids = append(ids, i)
		}
	}
	x.newBlock(5)
	x.allSign()
	for _, id := range ids[1:] {
		x.claim(id, id, true)
	}
	x.setProp(5, uint64(c.minv))
	x.end()
	// the genesis validator goes last
	order := append(append([]int{}, ids[1:]...), g)
	for i, id := range order {
		last := i == len(order)-1
		if c.kind == "downtime" {
			if last {
				break
			}
			for k := 0; k < 2 && !x.dead; k++ { // settings 0: inactive at the second miss
				x.newBlock(5)
				x.allSign(int64(id))
				x.end()
			}
			continue
		}
		x.newBlock(5)
		switch c.kind {
		case "upgrade-pause":
			x.upgradePause([]int64{int64(id)}, r)
			x.allSign()
		case "evidence":
			x.allSign()
			x.evidence([][3]int64{{int64(id), x.h - 1, x.t - 1e9}})
		case "pause":
			x.allSign()
			x.ownerMsg("pause", id)
		case "PAUSE":
			x.allSign()
			x.ownerMsgUpper("pause", id)
		}
		x.end()
		if genesisEach && !last {
			x.genesis(nil)
		}
	}
	x.newBlock(5)
	x.allSign()
	x.end()
}

// Upgrade-process stream: vote -> proposal passed, plan scheduled -> upgrade time: pause of the non-approving
// voters -> upgrade, with one operation of the alphabet INSERTED BETWEEN each pair of phases; validator a
// votes yes / no / holds the permission without voting / holds no permission; b votes yes.
type upgCase struct {
	vote  string // yes | no | silent | no-perm
	pos   int    // 0 after the vote, 1 after the plan is scheduled, 2 after the pause (before the upgrade block)
	x     string
	start string // ACTIVE | PAUSED
}

var upgOps = []string{"rotate", "rotate-half-rr", "pause", "unpause", "evidence", "genesis-import", "claim-other", "reset"}

func upgCases() []upgCase {
	var out []upgCase
	for _, st := range []string{"ACTIVE", "PAUSED"} {
		for _, v := range []string{"yes", "no", "silent", "no-perm"} {
			for pos := 0; pos < 3; pos++ {
				for _, op := range upgOps {
					out = append(out, upgCase{v, pos, op, st})
				}
			}
		}
	}
	return out
}

func runUpg(x *hist, g int, c upgCase, r *hx.Rng) {
	var o []int
	for i := 0; i <= nCand; i++ {
		if i != g {
			o = append(o, i)
		}
	}
	a, b, spare, other := o[0], o[1], o[2], o[3]
	x.newBlock(5)
	x.allSign()
	x.claim(a, a, true)
	x.claim(b, b, true)
	x.end()
	if c.start == "PAUSED" {
		x.newBlock(5)
		x.allSign()
		x.ownerMsg("pause", a)
		x.end()
	}
	ins := func(pos int) {
		if pos != c.pos || x.dead {
			return
		}
		switch c.x {
		case "rotate":
			x.rotate(a, spare)
			a, spare = spare, a
		case "rotate-half-rr":
			x.rotateHalf(a, spare)
			a, spare = spare, a
		case "pause":
			x.ownerMsg("pause", a)
		case "unpause":
			x.ownerMsg("unpause", a)
		case "evidence":
			x.evidence([][3]int64{{x.prev.Vals[a].Cons, x.h - 1, x.t - 1e9}})
		case "genesis-import":
			x.genesis(nil)
		case "claim-other":
			x.claim(other, other, true)
		case "reset":
			x.proposal("reset", 0)
		}
	}
	// ---- vote
	x.newBlock(5)
	x.allSign()
	var vs []int64
	if c.vote == "no" || c.vote == "silent" {
		vs = []int64{int64(a)}
	}
	x.upgradeVote(vs, x.t/1e9+100, r)
	// a's exact behaviour: upgradeVote lets non-approvers vote no/abstain/veto or stay silent at random and
	// gives approvers a yes vote or no permission at random; pin a's choice
	pinVote(x, a, c.vote)
	pinVote(x, b, "yes")
	ins(0)
	x.end()
	// ---- the proposal passes, the plan is scheduled
	x.newBlock(5)
	x.allSign()
	x.upgradeSchedule()
	ins(1)
	x.end()
	// ---- upgrade time: pause of the non-approving voters
	x.newBlock(120)
	x.upgradeExecute()
	x.allSign()
	ins(2)
	x.end()
	// ---- the upgrade block and one more
	x.newBlock(5)
	x.allSign()
	x.end()
	x.newBlock(5)
	x.allSign()
	x.end()
}
