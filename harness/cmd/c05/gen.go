package main

import (
	"verif/harness/hx"

	simapp "github.com/KiraCore/sekai/app"
	abci "github.com/cometbft/cometbft/abci/types"
	tmcrypto "github.com/cometbft/cometbft/crypto"
	cryptoenc "github.com/cometbft/cometbft/crypto/encoding"
	cryptocodec "github.com/cosmos/cosmos-sdk/crypto/codec"
	cryptotypes "github.com/cosmos/cosmos-sdk/crypto/types"
)

var theApp *simapp.SekaiApp

func appOf(w *world) *simapp.SekaiApp { return w.app }

func mustTm(pk cryptotypes.PubKey) tmcrypto.PubKey {
	t, err := cryptocodec.ToTmPubKeyInterface(pk)
	if err != nil {
		panic(err)
	}
	return t
}
func tmtypesPub(u abci.ValidatorUpdate) (tmcrypto.PubKey, error) { return cryptoenc.PubKeyFromProto(u.PubKey) }

// ---------------------------------------------------------------- state-aware helpers (read the REAL state)

const (
	stActive   = 1
	stInactive = 2
	stPaused   = 3
	stJailed   = 4
)

func (x *hist) inSet(k int64) bool {
	for _, c := range x.consKeys() {
		if c == k {
			return true
		}
	}
	return false
}
func (x *hist) withStatus(st int64) []int {
	var ids []int
	for _, id := range sortedKeysV(x.prev.Vals) {
		if x.prev.Vals[id].Status == st {
			ids = append(ids, id)
		}
	}
	return ids
}
func (x *hist) unclaimed() []int {
	var ids []int
	for id := range x.w.valAddrs {
		if _, ok := x.prev.Vals[id]; !ok {
			pending := false
			for _, p := range x.prev.Pend {
				if int(p[0]) == id {
					pending = true
				}
			}
			if !pending {
				ids = append(ids, id)
			}
		}
	}
	return ids
}
func inQueue(q []int64, id int) bool {
	for _, v := range q {
		if int(v) == id {
			return true
		}
	}
	return false
}

// app-side check used only to stop a history at the first block whose result differs from the
// application's active set (the Coq checker decides what is a violation)
func (x *hist) consistent() bool {
	act := map[int64]bool{}
	for _, v := range x.prev.Vals {
		if v.Status == stActive {
			act[v.Cons] = true
		}
	}
	ks := x.consKeys()
	if len(ks) != len(act) {
		return false
	}
	for _, k := range ks {
		if !act[k] {
			return false
		}
	}
	return true
}

func (x *hist) end() {
	x.endBlock()
	if !x.dead && !x.consistent() {
		x.dead = true
	}
}

// all validators of the consensus set sign
func (x *hist) allSign(except ...int64) {
	var vs [][2]int64
	for _, k := range x.consKeys() {
		s := int64(1)
		for _, e := range except {
			if e == k {
				s = 0
			}
		}
		vs = append(vs, [2]int64{k, s})
	}
	x.votes(vs)
}

// ---------------------------------------------------------------- witnesses

type witness struct {
	name string
	cfg  int
	run  func(x *hist, r *hx.Rng)
}

// ids: the genesis validator is g; a, b, c are the first three other ids
func witnesses(g int) []witness {
	var o []int
	for i := 0; i <= nCand; i++ {
		if i != g {
			o = append(o, i)
		}
	}
	a, b, c := o[0], o[1], o[2]
	setup := func(x *hist, ids ...int) {
		x.newBlock(5)
		x.allSign()
		for _, id := range ids {
			x.claim(id, id, true)
		}
		x.end()
	}
	// make validator id inactive by two consecutive misses (cfg 0: MC=0, MaxM=1)
	miss2 := func(x *hist, ids ...int) {
		for i := 0; i < 2 && !x.dead; i++ {
			x.newBlock(5)
			var ex []int64
			for _, id := range ids {
				ex = append(ex, int64(id))
			}
			x.allSign(ex...)
			x.end()
		}
	}
	return []witness{
		{"happy-path", 0, func(x *hist, r *hx.Rng) {
			setup(x, a, b)
			x.newBlock(5)
			x.allSign()
			x.ownerMsg("pause", a)
			x.ownerMsg("pause", a)
			x.ownerMsg("activate", a)
			x.end()
			x.newBlock(5)
			x.allSign()
			x.ownerMsg("unpause", a)
			x.ownerMsg("unpause", b)
			x.end()
			miss2(x, a)
			x.newBlock(10)
			x.allSign()
			x.ownerMsg("activate", a) // too early (downtime 60)
			x.ownerMsg("pause", a)
			x.end()
			x.newBlock(100)
			x.allSign()
			x.ownerMsg("activate", a)
			x.evidence([][3]int64{{int64(b), x.h - 1, x.t - 5e9}})
			x.proposal("unjail", a)
			x.end()
			x.newBlock(100)
			x.allSign()
			x.proposal("unjail", b)
			x.ownerMsg("activate", b)
			x.claim(c, c, false)
			x.claim(c, c, true)
			x.claim(a, a, true)
			x.end()
			x.newBlock(5)
			x.allSign()
			x.ownerMsg("pause", b)
			x.ownerMsg("unpause", b) // pause + unpause in one block: harmless power-1 update of a present key
			x.end()
			x.newBlock(5)
			x.evidence([][3]int64{{int64(c), x.h - 1, x.t - 5e9}})
			x.end()
			x.newBlock(700) // unjail window (600) missed
			x.allSign()
			x.proposal("unjail", c)
			x.end()
		}},
		{"rank-reset", 0, func(x *hist, r *hx.Rng) {
			setup(x, a, b)
			x.newBlock(5)
			x.allSign()
			x.ownerMsg("pause", a)
			x.end()
			x.newBlock(5)
			x.allSign()
			x.proposal("reset", 0)
			x.end()
		}},
		{"reset-inactive", 0, func(x *hist, r *hx.Rng) {
			setup(x, a, b)
			miss2(x, b)
			x.newBlock(5)
			x.allSign()
			x.proposal("reset", 0)
			x.end()
		}},
		{"reset-jailed", 0, func(x *hist, r *hx.Rng) {
			setup(x, a, b)
			x.newBlock(5)
			x.allSign()
			x.evidence([][3]int64{{int64(a), x.h - 1, x.t - 5e9}})
			x.end()
			x.newBlock(5)
			x.allSign()
			x.proposal("reset", 0)
			x.end()
		}},
		{"jail-inactive", 0, func(x *hist, r *hx.Rng) {
			setup(x, a, b)
			miss2(x, a)
			x.newBlock(5)
			x.allSign()
			x.evidence([][3]int64{{int64(a), x.h - 1, x.t - 5e9}})
			x.end()
		}},
		{"jail-paused", 0, func(x *hist, r *hx.Rng) {
			setup(x, a, b)
			x.newBlock(5)
			x.allSign()
			x.ownerMsg("pause", a)
			x.end()
			x.newBlock(5)
			x.allSign()
			x.evidence([][3]int64{{int64(a), x.h - 1, x.t - 5e9}})
			x.end()
		}},
		{"upgrade-pause-paused", 0, func(x *hist, r *hx.Rng) {
			setup(x, a, b)
			x.newBlock(5)
			x.allSign()
			x.ownerMsg("pause", a)
			x.end()
			x.newBlock(5)
			x.upgradePause([]int64{int64(a)}, r)
			x.allSign()
			x.end()
		}},
		{"upgrade-pause-jailed", 0, func(x *hist, r *hx.Rng) {
			setup(x, a, b)
			x.newBlock(5)
			x.allSign()
			x.evidence([][3]int64{{int64(a), x.h - 1, x.t - 5e9}})
			x.end()
			x.newBlock(5)
			x.upgradePause([]int64{int64(a)}, r)
			x.allSign()
			x.end()
		}},
		{"jail-escape", 0, func(x *hist, r *hx.Rng) {
			setup(x, a, b)
			x.newBlock(5)
			x.allSign()
			x.evidence([][3]int64{{int64(a), x.h - 1, x.t - 5e9}})
			x.end()
			x.newBlock(5)
			x.upgradePause([]int64{int64(a)}, r)
			x.allSign()
			x.ownerMsg("unpause", a)
			x.end()
		}},
		{"pause-guard-last-active", 0, func(x *hist, r *hx.Rng) {
			setup(x, a, b)
			miss2(x, a, b)
			x.newBlock(5)
			x.allSign()
			x.ownerMsg("pause", g)
			x.end()
		}},
		{"unpause-then-pause-same-block", 0, func(x *hist, r *hx.Rng) {
			setup(x, a, b)
			x.newBlock(5)
			x.allSign()
			x.ownerMsg("pause", a)
			x.end()
			x.newBlock(5)
			x.allSign()
			x.ownerMsg("unpause", a)
			x.ownerMsg("pause", a)
			x.end()
		}},
		{"activate-then-pause-same-block", 0, func(x *hist, r *hx.Rng) {
			setup(x, a, b)
			miss2(x, a)
			x.newBlock(100)
			x.allSign()
			x.ownerMsg("activate", a)
			x.ownerMsg("pause", a)
			x.end()
		}},
		{"evidence-last-active", 0, func(x *hist, r *hx.Rng) {
			x.newBlock(5)
			x.allSign()
			x.evidence([][3]int64{{int64(g), x.h - 1, x.t - 5e9}})
			x.end()
		}},
		{"shared-consensus-key", 0, func(x *hist, r *hx.Rng) {
			setup(x, a)
			x.newBlock(5)
			x.allSign()
			x.claim(b, a, true) // b claims with a's consensus key
			x.end()
			x.newBlock(5)
			x.allSign()
			x.ownerMsg("pause", a)
			x.end()
		}},
		{"same-key-claimed-twice-in-one-block", 0, func(x *hist, r *hx.Rng) {
			x.newBlock(5)
			x.allSign()
			x.claim(a, a, true)
			x.claim(b, a, true)
			x.end()
		}},
		{"rotation-clean", 0, func(x *hist, r *hx.Rng) {
			setup(x, a, b)
			x.newBlock(5)
			x.allSign()
			x.rotate(a, c) // the record of a moves to the unused address c
			x.ownerMsg("pause", a) // the old address is nobody now
			x.ownerMsg("pause", c)
			x.end()
			x.newBlock(5)
			x.allSign()
			x.ownerMsg("unpause", c)
			x.claim(a, a, false)
			x.end()
			x.newBlock(5)
			x.allSign()
			x.end()
		}},
		{"rotation-while-in-removing-queue", 0, func(x *hist, r *hx.Rng) {
			setup(x, a, b)
			x.newBlock(5)
			x.allSign()
			x.ownerMsg("pause", a)
			x.rotate(a, c)
			x.end()
		}},
		{"rotation-while-in-reactivating-queue", 0, func(x *hist, r *hx.Rng) {
			setup(x, a, b)
			x.newBlock(5)
			x.allSign()
			x.ownerMsg("pause", a)
			x.end()
			x.newBlock(5)
			x.allSign()
			x.ownerMsg("unpause", a)
			x.rotate(a, c)
			x.end()
		}},
		{"rotation-of-jailed-loses-jail-record", 0, func(x *hist, r *hx.Rng) {
			setup(x, a, b)
			x.newBlock(5)
			x.allSign()
			x.evidence([][3]int64{{int64(a), x.h - 1, x.t - 5e9}})
			x.end()
			x.newBlock(5)
			x.allSign()
			x.rotate(a, c)
			x.proposal("unjail", c) // inside the window, but the jail record stayed under the old address
			x.proposal("unjail", a)
			x.end()
		}},
		{"genesis-export-import", 0, func(x *hist, r *hx.Rng) {
			setup(x, a, b, c)
			x.newBlock(5)
			x.allSign(int64(b))
			x.ownerMsg("pause", a)
			x.end()
			x.newBlock(5)
			x.allSign(int64(b))
			x.evidence([][3]int64{{int64(c), x.h - 1, x.t - 5e9}})
			x.end()
			x.genesis(nil) // a PAUSED, b INACTIVE, c JAILED, g ACTIVE
			x.newBlock(100)
			x.allSign()
			x.ownerMsg("unpause", a)
			x.ownerMsg("activate", b)
			x.proposal("unjail", c) // inside the window, but the jail record was not exported
			x.end()
			x.newBlock(5)
			x.allSign()
			x.ownerMsg("pause", b)
			x.end()
		}},
		{"genesis-export-import-mid-block", 0, func(x *hist, r *hx.Rng) {
			setup(x, a, b)
			x.newBlock(5)
			x.allSign()
			x.ownerMsg("pause", a)
			x.claim(c, c, true)
			x.genesis(nil) // queues and pending claims are not exported; the new chain starts from the statuses
			x.newBlock(5)
			x.allSign()
			x.end()
		}},
		{"genesis-import-nobody-active", 0, func(x *hist, r *hx.Rng) {
			x.newBlock(5)
			x.allSign()
			x.evidence([][3]int64{{int64(g), x.h - 1, x.t - 5e9}})
			x.genesis(nil)
		}},
		{"max-mischance-lowered-mid-run", 0, func(x *hist, r *hx.Rng) {
			x.setProp(1, 4) // MaxMischance 4
			setup(x, a, b)
			for i := 0; i < 3; i++ { // three misses: mischance 3, still active
				x.newBlock(5)
				x.allSign(int64(a))
				x.end()
			}
			x.newBlock(5)
			x.allSign(int64(a))
			x.setProp(1, 1) // lowered below the current mischance (4): the next miss must inactivate
			x.setProp(1, 0) // invalid
			x.end()
			for i := 0; i < 3; i++ {
				x.newBlock(5)
				x.allSign(int64(a))
				x.end()
			}
		}},
		{"genesis-import-of-counters-beyond-the-limit", 0, func(x *hist, r *hx.Rng) {
			setup(x, a, b)
			x.newBlock(5)
			x.allSign()
			x.end()
			si := x.prev.SI[a]
			si.Conf, si.Misch = 0, 5 // MaxMischance is 1: already far beyond the limit, validator still ACTIVE
			x.genesis(map[int]sinfo{a: si})
			for i := 0; i < 3; i++ {
				x.newBlock(5)
				x.allSign(int64(a))
				x.end()
			}
		}},
		{"downtime-threshold", 3, func(x *hist, r *hx.Rng) { // MC=1, MaxM=3: inactive at the 5th consecutive miss
			setup(x, a, b, c)
			for i := 0; i < 4 && !x.dead; i++ {
				x.newBlock(5)
				x.allSign(int64(a))
				x.end()
			}
			x.newBlock(5)
			x.allSign() // signs: counters reset
			x.end()
			for i := 0; i < 5 && !x.dead; i++ {
				x.newBlock(5)
				x.allSign(int64(a), int64(b))
				if i == 2 {
					x.ownerMsg("pause", b) // a pause keeps the counters
				}
				if i == 3 {
					x.ownerMsg("unpause", b)
				}
				x.end()
			}
			for i := 0; i < 3 && !x.dead; i++ {
				x.newBlock(5)
				x.allSign(int64(b))
				x.end()
			}
		}},
	}
}

// ---------------------------------------------------------------- generated histories

var dts = []int64{1, 5, 5, 30, 61, 100, 301, 601, 700}

// injections: one operation shape per history that the unchanged tree is known (or suspected) to
// mishandle; everything else in a history is "clean" (inside the alphabet the theorem covers)
const (
	injNone = iota
	injReset
	injEvidenceNonActive
	injUpgradePauseNonActive
	injPauseLastActive
	injReactivateThenPause
	injSharedKey
	injCount
)

func generate(x *hist, r *hx.Rng, inject int, g, unknownKey int, c15 bool) {
	nblocks := 8 + r.Intn(9)
	injectAt := 1 + r.Intn(6)
	injected := inject == injNone
	// per-validator reliability (percent of signed blocks); some validators have long outages
	rel := make([]int, len(x.w.valAddrs))
	for i := range rel {
		rel[i] = []int{100, 100, 95, 80, 50, 20}[r.Intn(6)]
	}
	outage := map[int]int{} // validator id -> remaining blocks of outage
	genesisAt := -1
	if r.Chance(12) {
		genesisAt = 2 + r.Intn(6) // export + import between two blocks of the history
	}
	for b := 0; b < nblocks && !x.dead; b++ {
		if b == genesisAt && len(x.withStatus(stActive)) > 0 {
			x.genesis(nil)
			if x.dead {
				break
			}
		}
		// block time: whole seconds plus a nanosecond part; in a third of the blocks the time is put on (or
		// 1 ns / half a second / 999 ms / 1 s around) a stored deadline: the end of an inactivity period or
		// of an unjail window -- and the corresponding operation is then attempted in that block
		forcedKind, forcedID := "", -1
		dtNs := dts[r.Intn(len(dts))]*1e9 + []int64{0, 0, 1, 999999999, 500000000, int64(r.Intn(1000000000))}[r.Intn(6)]
		if r.Chance(33) {
			type bnd struct {
				at   int64
				kind string
				id   int
			}
			var bs []bnd
			for _, id := range sortedKeysV(x.prev.Vals) {
				v := x.prev.Vals[id]
				if v.Status == stInactive {
					bs = append(bs, bnd{x.prev.SI[int(v.Cons)].Until, "activate", id})
				}
				if v.Status == stJailed {
					for _, j := range x.prev.Jail {
						if int(j[0]) == id {
							bs = append(bs, bnd{j[1] + int64(x.cur.Unjail)*1e9, "unjail", id})
						}
					}
				}
			}
			if len(bs) > 0 {
				b0 := bs[r.Intn(len(bs))]
				d := []int64{-1000000000, -999000000, -500000000, -1, 0, 1, 1000000000}[r.Intn(7)]
				if b0.at+d > x.t {
					dtNs, forcedKind, forcedID = b0.at+d-x.t, b0.kind, b0.id
				}
			}
		}
		x.newBlockNs(dtNs)
		want := !injected && b >= injectAt
		active := x.withStatus(stActive)
		// the protected validator: active, in the consensus set: signs, and is not named by any
		// removing operation of this block (the deliverability hypothesis of the property)
		protected := -1
		var cand []int
		for _, id := range active {
			if x.inSet(x.prev.Vals[id].Cons) {
				cand = append(cand, id)
			}
		}
		if len(cand) > 0 {
			protected = cand[r.Intn(len(cand))]
		}
		// ---- upgrade pause
		if want && inject == injUpgradePauseNonActive {
			var vs []int64
			var jailed []int
			for _, id := range sortedKeysV(x.prev.Vals) {
				st := x.prev.Vals[id].Status
				if (st == stPaused || st == stJailed) && (len(vs) == 0 || r.Chance(40)) {
					vs = append(vs, int64(id))
					if st == stJailed {
						jailed = append(jailed, id)
					}
				}
			}
			if len(vs) > 0 {
				injected = true
				x.upgradePause(vs, r)
				if !x.dead {
					x.allSign()
				}
				if !x.dead && len(jailed) > 0 && (c15 || r.Chance(50)) {
					x.ownerMsg("unpause", jailed[0]) // jail left without a proposal
				}
				if !x.dead {
					x.end()
				}
				continue
			}
		} else if r.Chance(6) {
			var vs []int64
			for id := range x.w.valAddrs {
				if id == protected {
					continue
				}
				v, known := x.prev.Vals[id]
				ok := !known || v.Status == stInactive || (v.Status == stActive && x.inSet(v.Cons) && !inQueue(x.prev.Re, id))
				if ok && r.Chance(35) {
					vs = append(vs, int64(id))
				}
			}
			x.upgradePause(vs, r)
		}
		if x.dead {
			break
		}
		// ---- commit votes
		var vs [][2]int64
		seen := map[int64]bool{}
		for _, k := range x.consKeys() {
			seen[k] = true
		}
		keys := x.consKeys()
		if r.Chance(15) { // also validators known to the app but outside the set (late votes)
			for _, id := range sortedKeysV(x.prev.Vals) {
				k := x.prev.Vals[id].Cons
				if !seen[k] && r.Chance(50) && hasKey(x.prev.Pk, k) {
					keys = append(keys, k)
					seen[k] = true
				}
			}
		}
		for _, k := range keys {
			if !hasKey(x.prev.Pk, k) {
				continue
			}
			id := -1
			for _, vid := range sortedKeysV(x.prev.Vals) {
				if x.prev.Vals[vid].Cons == k {
					id = vid
				}
			}
			signed := int64(1)
			if id >= 0 && id != protected {
				if outage[id] > 0 {
					outage[id]--
					signed = 0
				} else if !r.Chance(rel[id]) {
					signed = 0
					if r.Chance(40) {
						outage[id] = 1 + r.Intn(6)
					}
				}
			}
			if r.Chance(5) && !(id == protected) {
				continue // not in the commit at all
			}
			vs = append(vs, [2]int64{k, signed})
		}
		x.votes(vs)
		if x.dead {
			break
		}
		// ---- evidence
		if want && inject == injEvidenceNonActive {
			var tg []int
			for _, id := range sortedKeysV(x.prev.Vals) {
				st := x.prev.Vals[id].Status
				if (st == stPaused || st == stInactive) && !inQueue(x.prev.Rm, id) {
					tg = append(tg, id)
				}
			}
			if len(tg) > 0 {
				injected = true
				id := tg[r.Intn(len(tg))]
				x.evidence([][3]int64{{x.prev.Vals[id].Cons, x.h - 1, x.t - 1e9}})
				if !x.dead {
					x.end()
				}
				continue
			}
		} else if r.Chance(14) {
			var es [][3]int64
			ne := 1 + r.Intn(2)
			for i := 0; i < ne; i++ {
				var k int64 = -1
				switch {
				case r.Chance(8):
					k = int64(unknownKey)
				case r.Chance(10):
					k = int64(r.Intn(nCand + 1)) // maybe not claimed at all
				default:
					ids := sortedKeysV(x.prev.Vals)
					id := ids[r.Intn(len(ids))]
					k = x.prev.Vals[id].Cons
				}
				// who is it
				ok := true
				for _, id := range sortedKeysV(x.prev.Vals) {
					v := x.prev.Vals[id]
					if v.Cons == k {
						if id == protected || !(v.Status == stJailed || (v.Status == stActive && x.inSet(k) && !inQueue(x.prev.Re, id))) {
							ok = false
						}
					}
				}
				ih, it := x.h-1-int64(r.Intn(3)), x.t-int64(r.Intn(20))*1e9-int64(r.Intn(1000))
				if r.Chance(20) { // old evidence
					ih, it = x.h-int64(r.Intn(8)), x.t-int64(r.Intn(1200))*1e9-int64(r.Intn(3))+1
				}
				cf := configs[x.cfg]
				old := x.t-it > cf.EvAgeDur*1e9 && x.h-ih > cf.EvAgeBlocks
				if !ok && !old {
					continue
				}
				es = append(es, [3]int64{k, ih, it})
			}
			if len(es) > 0 {
				x.evidence(es)
			}
		}
		if x.dead {
			break
		}
		// ---- transactions
		if want && (inject == injPauseLastActive || inject == injReactivateThenPause || inject == injSharedKey) {
			done := false
			switch inject {
			case injPauseLastActive:
				var ids []int
				for _, id := range x.withStatus(stActive) {
					if id != protected {
						ids = append(ids, id)
					}
				}
				if protected >= 0 && len(x.prev.Vals) >= 2 {
					ids = append(ids, protected)
					for _, id := range ids {
						if !x.dead {
							x.ownerMsg("pause", id)
						}
					}
					done = true
				}
			case injReactivateThenPause:
				var tg []int
				for _, id := range sortedKeysV(x.prev.Vals) {
					v := x.prev.Vals[id]
					if !inQueue(x.prev.Rm, id) && !x.inSet(v.Cons) &&
						(v.Status == stPaused || (v.Status == stInactive && x.prev.SI[int(v.Cons)].Until <= x.t)) {
						tg = append(tg, id)
					}
				}
				if len(tg) > 0 {
					id := tg[r.Intn(len(tg))]
					if x.prev.Vals[id].Status == stPaused {
						x.ownerMsg("unpause", id)
					} else {
						x.ownerMsg("activate", id)
					}
					x.ownerMsg("pause", id)
					done = true
				}
			case injSharedKey:
				un := x.unclaimed()
				if len(un) > 0 {
					ids := sortedKeysV(x.prev.Vals)
					k := x.prev.Vals[ids[r.Intn(len(ids))]].Cons
					x.claim(un[r.Intn(len(un))], int(k), true)
					done = true
				}
			}
			if done {
				injected = true
				if !x.dead {
					x.end()
				}
				continue
			}
		}
		if forcedKind == "activate" {
			x.ownerMsg("activate", forcedID)
		}
		nm := r.Intn(4)
		if b == 0 {
			nm = 2 + r.Intn(3)
		}
		for i := 0; i < nm && !x.dead; i++ {
			x.genMsg(r, false, protected, b == 0)
		}
		// ---- proposals
		if forcedKind == "unjail" {
			x.proposal("unjail", forcedID)
		}
		if r.Chance(18) {
			j := x.withStatus(stJailed)
			if len(j) > 0 && r.Chance(85) {
				x.proposal("unjail", j[r.Intn(len(j))])
			} else {
				ids := sortedKeysV(x.prev.Vals)
				x.proposal("unjail", ids[r.Intn(len(ids))])
			}
		}
		if want && inject == injReset {
			injected = true
			x.proposal("reset", 0)
		}
		if r.Chance(15) { // a passed SetNetworkProperty proposal: the settings move up and down, also to invalid values
			which := r.Intn(6)
			vals := [][]uint64{{0, 1, 2, 3, 5}, {0, 1, 2, 3, 4, 6}, {0, 1, 3, 10}, {0, 1, 10, 60, 600}, {0, 10, 60, 600, 3000000}, {0, 1, 2, 3, 4, 7}}[which]
			x.setProp(which, vals[r.Intn(len(vals))])
		}
		x.end()
	}
}

func hasKey(ks []int64, k int64) bool {
	for _, y := range ks {
		if y == k {
			return true
		}
	}
	return false
}

func (x *hist) genMsg(r *hx.Rng, wild bool, protected int, first bool) {
	pick := func(ids []int) (int, bool) {
		if len(ids) == 0 {
			return 0, false
		}
		return ids[r.Intn(len(ids))], true
	}
	kind := r.Intn(100)
	if first {
		kind = 0
	}
	if !first && r.Chance(6) {
		// address rotation of a validator of any status that sits in no queue, onto an unused address
		var cand []int
		for _, id := range sortedKeysV(x.prev.Vals) {
			if !inQueue(x.prev.Rm, id) && !inQueue(x.prev.Re, id) && id != protected {
				cand = append(cand, id)
			}
		}
		un := x.rotTargets()
		if len(cand) > 0 && len(un) > 0 {
			v, v2 := cand[r.Intn(len(cand))], un[r.Intn(len(un))]
			if r.Bool() {
				x.rotate(v, v2)
			} else {
				x.rotateHalf(v, v2)
			}
			return
		}
	}
	switch {
	case kind < 28: // claim
		un := x.unclaimed()
		// a clean claim brings a consensus key nobody holds (after a rotation the old address is free again,
		// but its former key still belongs to the rotated record)
		var free []int
		for _, id := range un {
			used := false
			for _, v := range x.prev.Vals {
				if int(v.Cons) == id {
					used = true
				}
			}
			for _, p := range x.prev.Pend {
				if int(p[1]) == id {
					used = true
				}
			}
			if !used {
				free = append(free, id)
			}
		}
		un = free
		if id, ok := pick(un); ok && r.Chance(85) {
			k := id
			perm := true
			if wild && r.Chance(15) {
				k = r.Intn(nCand + 1) // somebody else's consensus key
			}
			if r.Chance(6) {
				perm = false
			}
			x.claim(id, k, perm)
		} else {
			ids := sortedKeysV(x.prev.Vals) // already claimed: must be refused
			id := ids[r.Intn(len(ids))]
			x.claim(id, id, true)
		}
	case kind < 52: // pause
		var ok []int
		act := x.withStatus(stActive)
		inset := 0
		for _, id := range act {
			if x.inSet(x.prev.Vals[id].Cons) && !inQueue(x.prev.Rm, id) {
				inset++
			}
		}
		for _, id := range act {
			if wild || (id != protected && inset >= 2 && x.inSet(x.prev.Vals[id].Cons) && !inQueue(x.prev.Re, id)) {
				ok = append(ok, id)
			}
		}
		if id, found := pick(ok); found && r.Chance(80) {
			x.ownerMsg("pause", id)
		} else if wild || r.Chance(50) {
			// a target that should be refused (not active / unknown)
			var bad []int
			for id := range x.w.valAddrs {
				if v, known := x.prev.Vals[id]; !known || v.Status != stActive {
					bad = append(bad, id)
				}
			}
			if id, found := pick(bad); found {
				x.ownerMsg("pause", id)
			}
		}
	case kind < 72: // unpause
		if id, found := pick(x.withStatus(stPaused)); found && r.Chance(80) {
			x.ownerMsg("unpause", id)
		} else {
			x.ownerMsg("unpause", r.Intn(nCand+1))
		}
	default: // activate
		if id, found := pick(x.withStatus(stInactive)); found && r.Chance(80) {
			x.ownerMsg("activate", id)
		} else {
			x.ownerMsg("activate", r.Intn(nCand+1))
		}
	}
}
