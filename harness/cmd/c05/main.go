// c05: runs the REAL staking / slashing / evidence / upgrade / gov code on generated block
// histories (commit votes, evidence, owner messages through the msg servers, proposals through the
// gov proposal router, upgrade pause through the upgrade BeginBlocker, staking EndBlocker), applies
// the returned validator updates to a real CometBFT ValidatorSet, and writes the observations for
// the Coq model (correspondence) and the Coq spec checkers of C05 and C15 (-prop c05|c15).
package main

import (
	"encoding/json"
	"flag"
	"fmt"
	"os"
	"sort"
	"strings"
	"time"

	"verif/harness/hx"

	simapp "github.com/KiraCore/sekai/app"
	"github.com/KiraCore/sekai/x/evidence"
	govtypes "github.com/KiraCore/sekai/x/gov/types"
	"github.com/KiraCore/sekai/x/slashing"
	slashingkeeper "github.com/KiraCore/sekai/x/slashing/keeper"
	slashingtypes "github.com/KiraCore/sekai/x/slashing/types"
	"github.com/KiraCore/sekai/x/staking"
	stakingkeeper "github.com/KiraCore/sekai/x/staking/keeper"
	stakingtypes "github.com/KiraCore/sekai/x/staking/types"
	"github.com/KiraCore/sekai/x/upgrade"
	upgradetypes "github.com/KiraCore/sekai/x/upgrade/types"
	abci "github.com/cometbft/cometbft/abci/types"
	tmproto "github.com/cometbft/cometbft/proto/tendermint/types"
	tmtypes "github.com/cometbft/cometbft/types"
	"github.com/cosmos/cosmos-sdk/crypto/keys/ed25519"
	cryptotypes "github.com/cosmos/cosmos-sdk/crypto/types"
	sdk "github.com/cosmos/cosmos-sdk/types"
)

const nCand = 6 // candidate validators besides the genesis validator

type config struct {
	MC, MaxM, RankDec uint64
	PctPrec2          int64 // InactiveRankDecreasePercent in 1/100
	MinVals           uint64
	Downtime, Unjail  uint64
	EvAgeDur          int64 // seconds
	EvAgeBlocks       int64
}

var configs = []config{
	{MC: 0, MaxM: 1, RankDec: 1, PctPrec2: 50, MinVals: 1, Downtime: 60, Unjail: 600, EvAgeDur: 1000, EvAgeBlocks: 5},
	{MC: 1, MaxM: 1, RankDec: 3, PctPrec2: 50, MinVals: 2, Downtime: 600, Unjail: 300, EvAgeDur: 100, EvAgeBlocks: 3},
	{MC: 2, MaxM: 2, RankDec: 10, PctPrec2: 25, MinVals: 1, Downtime: 10, Unjail: 60, EvAgeDur: 50, EvAgeBlocks: 2},
	{MC: 1, MaxM: 3, RankDec: 2, PctPrec2: 33, MinVals: 3, Downtime: 300, Unjail: 600, EvAgeDur: 10000, EvAgeBlocks: 100},
	{MC: 0, MaxM: 2, RankDec: 5, PctPrec2: 10, MinVals: 1, Downtime: 1, Unjail: 10, EvAgeDur: 5, EvAgeBlocks: 1},
	{MC: 3, MaxM: 1, RankDec: 1, PctPrec2: 75, MinVals: 2, Downtime: 120, Unjail: 120, EvAgeDur: 600, EvAgeBlocks: 4},
	{MC: 2, MaxM: 1, RankDec: 7, PctPrec2: 100, MinVals: 1, Downtime: 30, Unjail: 1000, EvAgeDur: 1, EvAgeBlocks: 1},
	{MC: 1, MaxM: 2, RankDec: 4, PctPrec2: 0, MinVals: 4, Downtime: 90, Unjail: 90, EvAgeDur: 300, EvAgeBlocks: 10},
}

func (c config) coq() string {
	pct := sdk.NewDecWithPrec(c.PctPrec2, 2)
	return fmt.Sprintf("(mkCfg %d %d %d %s %d %d %d %d %d)", c.MC, c.MaxM, c.RankDec, hx.ZBig(pct.BigInt()), c.MinVals, c.Downtime, c.Unjail, c.EvAgeDur, c.EvAgeBlocks)
}

// ---------------------------------------------------------------- world

type world struct {
	app *simapp.SekaiApp
	sk  stakingkeeper.Keeper
	slk slashingkeeper.Keeper

	valAddrs []sdk.ValAddress     // by validator id
	keys     []cryptotypes.PubKey // by consensus-key id
	valID    map[string]int
	consID   map[string]int // by consensus address bytes
}

type vrec struct{ Status, Rank, Streak, Cons int64 }
type sinfo struct{ Start, Until, Conf, Misch, Last, Missed, Produced int64 }
type snapshot struct {
	Vals map[int]vrec
	SI   map[int]sinfo
	Cidx [][2]int64
	Pend [][2]int64
	Rm   []int64
	Re   []int64
	Jail [][2]int64
	Pk   []int64
}

var statusCoq = map[int64]string{1: "SActive", 2: "SInactive", 3: "SPaused", 4: "SJailed"}
var statusName = map[int64]string{0: "UNDEFINED", 1: "ACTIVE", 2: "INACTIVE", 3: "PAUSED", 4: "JAILED"}

func (v vrec) coq() string {
	st, ok := statusCoq[v.Status]
	if !ok {
		panic(fmt.Sprintf("status %d has no model counterpart", v.Status))
	}
	return fmt.Sprintf("(mkV %s %s %s %d)", st, hx.Z(v.Rank), hx.Z(v.Streak), v.Cons)
}
func (s sinfo) coq() string {
	return fmt.Sprintf("(mkSI %s %s %s %s %s %s %s)", hx.Z(s.Start), hx.Z(s.Until), hx.Z(s.Conf), hx.Z(s.Misch), hx.Z(s.Last), hx.Z(s.Missed), hx.Z(s.Produced))
}
func pairs(xs [][2]int64) string {
	ys := make([]string, len(xs))
	for i, x := range xs {
		ys[i] = hx.Pair(hx.Z(x[0]), hx.Z(x[1]))
	}
	return hx.List(ys)
}
func zs(xs []int64) string {
	ys := make([]string, len(xs))
	for i, x := range xs {
		ys[i] = hx.Z(x)
	}
	return hx.List(ys)
}
func eqPairs(a, b [][2]int64) bool {
	if len(a) != len(b) {
		return false
	}
	for i := range a {
		if a[i] != b[i] {
			return false
		}
	}
	return true
}
func eqZs(a, b []int64) bool {
	if len(a) != len(b) {
		return false
	}
	for i := range a {
		if a[i] != b[i] {
			return false
		}
	}
	return true
}

func (w *world) snap(ctx sdk.Context) snapshot {
	s := snapshot{Vals: map[int]vrec{}, SI: map[int]sinfo{}}
	for _, v := range w.sk.GetValidatorSet(ctx) {
		id, ok := w.valID[string(v.ValKey)]
		if !ok {
			panic("unknown validator address in store")
		}
		cid, ok := w.consID[string(v.GetConsAddr())]
		if !ok {
			panic("unknown consensus key in store")
		}
		s.Vals[id] = vrec{int64(v.Status), v.Rank, v.Streak, int64(cid)}
	}
	for _, v := range w.sk.GetPendingValidatorSet(ctx) {
		s.Pend = append(s.Pend, [2]int64{int64(w.valID[string(v.ValKey)]), int64(w.consID[string(v.GetConsAddr())])})
	}
	for _, b := range w.sk.GetRemovingValidatorSet(ctx) {
		s.Rm = append(s.Rm, int64(w.valID[string(b)]))
	}
	for _, b := range w.sk.GetReactivatingValidatorSet(ctx) {
		s.Re = append(s.Re, int64(w.valID[string(b)]))
	}
	for cid, pk := range w.keys {
		ca := sdk.ConsAddress(pk.Address())
		if v, err := w.sk.GetValidatorByConsAddr(ctx, ca); err == nil {
			s.Cidx = append(s.Cidx, [2]int64{int64(cid), int64(w.valID[string(v.ValKey)])})
		}
		if i, found := w.slk.GetValidatorSigningInfo(ctx, ca); found {
			s.SI[cid] = sinfo{i.StartHeight, unixNano(i.InactiveUntil), i.MischanceConfidence, i.Mischance, i.LastPresentBlock, i.MissedBlocksCounter, i.ProducedBlocksCounter}
		}
		if _, err := w.slk.GetPubkey(ctx, pk.Address()); err == nil {
			s.Pk = append(s.Pk, int64(cid))
		}
	}
	for id, a := range w.valAddrs {
		if info, found := w.sk.GetValidatorJailInfo(ctx, a); found {
			s.Jail = append(s.Jail, [2]int64{int64(id), unixNano(info.Time)})
		}
	}
	return s
}

func sortedKeysV(m map[int]vrec) []int {
	ks := make([]int, 0, len(m))
	for k := range m {
		ks = append(ks, k)
	}
	sort.Ints(ks)
	return ks
}
func sortedKeysS(m map[int]sinfo) []int {
	ks := make([]int, 0, len(m))
	for k := range m {
		ks = append(ks, k)
	}
	sort.Ints(ks)
	return ks
}

// obsCoq: the observation after an operation, as a patch against the previous snapshot
func obsCoq(res string, prev, cur snapshot, eb string) string {
	var dv, dsi []string
	for _, k := range sortedKeysV(cur.Vals) {
		if p, ok := prev.Vals[k]; !ok || p != cur.Vals[k] {
			dv = append(dv, hx.Pair(hx.Z(int64(k)), cur.Vals[k].coq()))
		}
	}
	for _, k := range sortedKeysS(cur.SI) {
		if p, ok := prev.SI[k]; !ok || p != cur.SI[k] {
			dsi = append(dsi, hx.Pair(hx.Z(int64(k)), cur.SI[k].coq()))
		}
	}
	var gone []int64
	for _, k := range sortedKeysV(prev.Vals) {
		if _, ok := cur.Vals[k]; !ok {
			gone = append(gone, int64(k))
		}
	}
	if len(cur.SI) < len(prev.SI) {
		panic("signing info deleted: not representable")
	}
	parts := []string{"mkObs", res, zs(gone), hx.List(dv), hx.List(dsi),
		hx.Opt(!eqPairs(prev.Cidx, cur.Cidx), pairs(cur.Cidx)),
		hx.Opt(!eqPairs(prev.Pend, cur.Pend), pairs(cur.Pend)),
		hx.Opt(!eqZs(prev.Rm, cur.Rm), zs(cur.Rm)),
		hx.Opt(!eqZs(prev.Re, cur.Re), zs(cur.Re)),
		hx.Opt(!eqPairs(prev.Jail, cur.Jail), pairs(cur.Jail)),
		hx.Opt(!eqZs(prev.Pk, cur.Pk), zs(cur.Pk)),
		eb}
	return "(" + strings.Join(parts, " ") + ")"
}

func (s snapshot) stateCoq(t, h int64, cset []int64) string {
	var vs, sis []string
	for _, k := range sortedKeysV(s.Vals) {
		vs = append(vs, hx.Pair(hx.Z(int64(k)), s.Vals[k].coq()))
	}
	for _, k := range sortedKeysS(s.SI) {
		sis = append(sis, hx.Pair(hx.Z(int64(k)), s.SI[k].coq()))
	}
	return fmt.Sprintf("(mkSt %s %s %s %s %s %s %s %s %d %d %s false)", hx.List(vs), pairs(s.Pend), zs(s.Rm), zs(s.Re), pairs(s.Cidx), hx.List(sis), pairs(s.Jail), zs(s.Pk), t, h, zs(cset))
}

// ---------------------------------------------------------------- operations

type jop struct {
	Op      string     `json:"op"`
	V       int        `json:"v,omitempty"`
	K       int        `json:"k,omitempty"`
	Perm    *bool      `json:"perm,omitempty"`
	Votes   [][2]int64 `json:"votes,omitempty"`    // (cons key, signed 0/1)
	Evid    [][3]int64 `json:"evidence,omitempty"` // (cons key, height, time)
	Vs      []int64    `json:"validators,omitempty"`
	Dt      int64      `json:"dt,omitempty"`
	To      int        `json:"to,omitempty"`
	Note    string     `json:"note,omitempty"`
	Res     string     `json:"res"`
	Err     string     `json:"err,omitempty"`
	Status  string     `json:"status_after,omitempty"`
	Updates [][2]int64 `json:"updates,omitempty"`
	Applied *bool      `json:"consensus_applied,omitempty"`
	ConsErr string     `json:"consensus_err,omitempty"`
	ConsSet [][2]int64 `json:"consensus_set,omitempty"`
}
type jcase struct {
	Kind  string `json:"kind"` // witness name | clean | wild
	Cfg   int    `json:"cfg"`
	Ops   []jop  `json:"ops"`
	Notes string `json:"notes,omitempty"`
}

type hist struct {
	w       *world
	cfg     int
	ctx     sdk.Context // history root (cache of base)
	h, t    int64
	valset  *tmtypes.ValidatorSet
	prev    snapshot
	steps   []string
	ops     []jop
	dead    bool // consensus halted or a begin/end blocker panicked
	propSeq int
	dist    hx.Counter
	signers bool
	cur     config // the settings in force (changed by setProp)
	upg         *upgGhost         // the open upgrade proposal (ghost record)
	rotUsed     map[int]bool      // addresses that took part in a rotation (a target must have no rotation history)
	rrHolder    map[string]string // validator address -> account holding its recovery tokens
	planPending bool // an upgrade plan has paused its non-approving voters; its second BeginBlock is due
	spellRng *hx.Rng // decides the spelling (lower / upper-case bech32) of address strings
}

func (x *hist) blockCtx() sdk.Context {
	c := configs[x.cfg]
	cp := &tmproto.ConsensusParams{Evidence: &tmproto.EvidenceParams{MaxAgeNumBlocks: c.EvAgeBlocks, MaxAgeDuration: time.Duration(c.EvAgeDur) * time.Second, MaxBytes: 10000}}
	return x.ctx.WithBlockHeader(tmproto.Header{Height: x.h, Time: time.Unix(0, x.t).UTC()}).WithConsensusParams(cp)
}

func (x *hist) statusLine(s snapshot) string {
	var xs []string
	for _, k := range sortedKeysV(s.Vals) {
		v := s.Vals[k]
		xs = append(xs, fmt.Sprintf("%d:%s/r%d/s%d", k, statusName[v.Status], v.Rank, v.Streak))
	}
	return strings.Join(xs, " ")
}

func (x *hist) record(opCoq string, j jop, res string, eb string) {
	cur := x.w.snap(x.blockCtx())
	if eb == "" {
		eb = "None"
	}
	x.steps = append(x.steps, hx.Pair(opCoq, obsCoq(res, x.prev, cur, eb)))
	j.Res = res
	j.Status = x.statusLine(cur)
	x.ops = append(x.ops, j)
	x.prev = cur
	x.dist.Inc(j.Op + ":" + res)
}

// runMsg: baseapp semantics -- the message runs on a cache that is written only on success
func (x *hist) runMsg(f func(ctx sdk.Context) error) (string, string) {
	c, write := x.blockCtx().CacheContext()
	var err error
	p := hx.Try(func() { err = f(c) })
	if p != "" {
		return "RPanic", p
	}
	if err != nil {
		return "RRej", err.Error()
	}
	write()
	return "ROk", ""
}

func (x *hist) claim(v, k int, perm bool) {
	if x.dead {
		return // the chain has halted (or the sets already differ): the history ends here
	}
	w := x.w
	addr := sdk.AccAddress(w.valAddrs[v])
	ctx := x.blockCtx()
	gk := appOf(w).CustomGovKeeper
	actor, found := gk.GetNetworkActorByAddress(ctx, addr)
	if !found {
		actor = govtypes.NewDefaultActor(addr)
	}
	has := actor.Permissions.IsWhitelisted(govtypes.PermClaimValidator)
	if perm && !has {
		if err := gk.AddWhitelistPermission(ctx, actor, govtypes.PermClaimValidator); err != nil {
			panic(err)
		}
	} else if !perm && has {
		if err := gk.RemoveWhitelistedPermission(ctx, actor, govtypes.PermClaimValidator); err != nil {
			panic(err)
		}
	}
	// monikers are unique per claim (after a rotation the old address is free again but its moniker moved on)
	x.propSeq++
	msg, err := stakingtypes.NewMsgClaimValidator(fmt.Sprintf("moniker%dx%d", v, x.propSeq), w.valAddrs[v], w.keys[k])
	if err != nil {
		panic(err)
	}
	if !msg.GetSigners()[0].Equals(addr) {
		x.signers = false
	}
	ms := stakingkeeper.NewMsgServerImpl(w.sk, gk)
	res, e := x.runMsg(func(c sdk.Context) error { _, err := ms.ClaimValidator(sdk.WrapSDKContext(c), msg); return err })
	x.record(fmt.Sprintf("OClaim %d %d %s", v, k, hx.B(perm)), jop{Op: "claim", V: v, K: k, Perm: &perm, Err: e}, res, "")
}

// spelling of the next address-typed string fields: whole-string upper-case bech32 is valid and decodes
// to the same bytes; the model's operations carry no spelling, so any dependence on it is a mismatch
var upperNext bool

func spell(s string) string {
	if upperNext {
		return strings.ToUpper(s)
	}
	return s
}

func (x *hist) ownerMsgUpper(kind string, v int) {
	upperNext = true
	x.ownerMsg(kind, v)
	upperNext = false
}

func (x *hist) ownerMsg(kind string, v int) {
	if x.dead {
		return // the chain has halted (or the sets already differ): the history ends here
	}
	if !upperNext && x.spellRng != nil && x.spellRng.Chance(25) {
		upperNext = true
		defer func() { upperNext = false }()
	}
	w := x.w
	ms := slashingkeeper.NewMsgServerImpl(w.slk)
	var f func(c sdk.Context) error
	var signers []sdk.AccAddress
	switch kind {
	case "pause":
		m := slashingtypes.NewMsgPause(w.valAddrs[v])
		m.ValidatorAddr = spell(m.ValidatorAddr)
		signers = m.GetSigners()
		f = func(c sdk.Context) error { _, err := ms.Pause(sdk.WrapSDKContext(c), m); return err }
	case "unpause":
		m := slashingtypes.NewMsgUnpause(w.valAddrs[v])
		m.ValidatorAddr = spell(m.ValidatorAddr)
		signers = m.GetSigners()
		f = func(c sdk.Context) error { _, err := ms.Unpause(sdk.WrapSDKContext(c), m); return err }
	case "activate":
		m := slashingtypes.NewMsgActivate(w.valAddrs[v])
		m.ValidatorAddr = spell(m.ValidatorAddr)
		signers = m.GetSigners()
		f = func(c sdk.Context) error { _, err := ms.Activate(sdk.WrapSDKContext(c), m); return err }
	}
	if len(signers) != 1 || !signers[0].Equals(sdk.AccAddress(w.valAddrs[v])) {
		x.signers = false
	}
	res, e := x.runMsg(f)
	opc := map[string]string{"pause": "OPause", "unpause": "OUnpause", "activate": "OActivate"}[kind]
	note := ""
	if upperNext {
		note = "validator_addr in upper-case bech32"
	}
	x.record(fmt.Sprintf("%s %d", opc, v), jop{Op: kind, V: v, Err: e, Note: note}, res, "")
}

// newBlock: next block dt SECONDS later; newBlockNs: dt nanoseconds later
func (x *hist) newBlock(dt int64) { x.newBlockNs(dt * 1e9) }
func (x *hist) newBlockNs(dt int64) {
	if x.dead {
		return // the chain has halted (or the sets already differ): the history ends here
	}
	x.h++
	x.t += dt
	x.record(fmt.Sprintf("ONewBlock %d", dt), jop{Op: "newblock", Dt: dt}, "ROk", "")
	if x.planPending {
		x.upgradeFinish()
	}
}

// upgradeFinish: the BeginBlock after the one that paused the non-approving voters: the real upgrade
// BeginBlocker makes the plan current (InstateUpgrade, SkipHandler) and must not touch any validator
func (x *hist) upgradeFinish() {
	a := appOf(x.w)
	bc, bwrite := x.blockCtx().CacheContext()
	p := hx.Try(func() { upgrade.BeginBlocker(a.UpgradeKeeper, bc, abci.RequestBeginBlock{}) })
	res := "ROk"
	if p == "" {
		bwrite()
	} else {
		res = "RPanic"
		x.dead = true
	}
	x.planPending = false
	if np, _ := a.UpgradeKeeper.GetNextPlan(x.blockCtx()); np != nil && p == "" {
		x.planPending = true // still there: the code wants another round
	}
	x.record("OUpgrade", jop{Op: "upgrade", Err: p}, res, "")
}

// the zero time.Time of a fresh signing info is time.Unix(0, 0)
func unixNano(t time.Time) int64 {
	if t.IsZero() {
		return 0
	}
	return t.UnixNano()
}

func (x *hist) votes(vs [][2]int64) {
	if x.dead {
		return // the chain has halted (or the sets already differ): the history ends here
	}
	w := x.w
	var infos []abci.VoteInfo
	var cs []string
	for _, v := range vs {
		infos = append(infos, abci.VoteInfo{Validator: abci.Validator{Address: w.keys[v[0]].Address(), Power: 1}, SignedLastBlock: v[1] == 1})
		cs = append(cs, hx.Pair(hx.Z(v[0]), hx.B(v[1] == 1)))
	}
	req := abci.RequestBeginBlock{LastCommitInfo: abci.CommitInfo{Votes: infos}}
	res := "ROk"
	bc, bwrite := x.blockCtx().CacheContext()
	p := hx.Try(func() { slashing.BeginBlocker(bc, req, w.slk) })
	if p == "" {
		bwrite()
	}
	if p != "" {
		res = "RPanic"
		x.dead = true
	}
	x.record("OVotes "+hx.List(cs), jop{Op: "votes", Votes: vs, Err: p}, res, "")
}

func (x *hist) evidence(es [][3]int64) {
	if x.dead {
		return // the chain has halted (or the sets already differ): the history ends here
	}
	w := x.w
	var ms []abci.Misbehavior
	var cs []string
	for _, e := range es {
		ms = append(ms, abci.Misbehavior{Type: abci.MisbehaviorType_DUPLICATE_VOTE, Validator: abci.Validator{Address: w.keys[e[0]].Address(), Power: 1},
			Height: e[1], Time: time.Unix(0, e[2]).UTC(), TotalVotingPower: 1})
		cs = append(cs, hx.Tuple(hx.Z(e[0]), hx.Z(e[1]), hx.Z(e[2])))
	}
	req := abci.RequestBeginBlock{ByzantineValidators: ms}
	res := "ROk"
	bc, bwrite := x.blockCtx().CacheContext()
	p := hx.Try(func() { evidence.BeginBlocker(bc, req, appOf(w).EvidenceKeeper) })
	if p == "" {
		bwrite()
	}
	if p != "" {
		res = "RPanic"
		x.dead = true
	}
	x.record("OEvidence "+hx.List(cs), jop{Op: "evidence", Evid: es, Err: p}, res, "")
}

func (x *hist) proposal(kind string, v int) {
	if x.dead {
		return // the chain has halted (or the sets already differ): the history ends here
	}
	w := x.w
	gk := appOf(w).CustomGovKeeper
	var content govtypes.Content
	proposer := sdk.AccAddress("proposer____________")
	opc := ""
	switch kind {
	case "unjail":
		uj := stakingtypes.NewUnjailValidatorProposal(proposer, w.valAddrs[v], "ref")
		if x.spellRng != nil && x.spellRng.Chance(25) {
			uj.ValAddr = strings.ToUpper(uj.ValAddr)
		}
		content = uj
		opc = fmt.Sprintf("OUnjail %d", v)
	case "reset":
		content = slashingtypes.NewResetWholeValidatorRankProposal(proposer)
		opc = "OReset"
	}
	x.propSeq++
	var err error
	p := hx.Try(func() { err = gk.GetProposalRouter().ApplyProposal(x.blockCtx(), uint64(1000+x.propSeq), content, sdk.ZeroDec()) })
	res, e := "ROk", ""
	if p != "" {
		res, e = "RPanic", p
	} else if err != nil {
		res, e = "RRej", err.Error()
	}
	x.record(opc, jop{Op: kind, V: v, Err: e}, res, "")
}

// upgradePause: a software-upgrade plan whose time has come and whose non-approving voters are vs
// upgGhost: the harness' own record of an upgrade proposal: who (as a PERSON: the id follows address
// rotations) holds the vote permission and did not vote yes.  The expectation handed to the model and the
// checkers comes from this record, never from the gov store.
type upgGhost struct {
	pid     uint64
	content *upgradetypes.ProposalSoftwareUpgrade
	nonAppr map[int]bool
	upTime  int64 // seconds
}

func (x *hist) renamePerson(v, v2 int) {
	if x.upg != nil && x.upg.nonAppr[v] {
		delete(x.upg.nonAppr, v)
		x.upg.nonAppr[v2] = true
	}
}

// upgradeVote: a software-upgrade proposal with upgrade time upTime (seconds) is created; the persons in vs hold
// the vote permission and vote no / abstain / veto / not at all; every other validator either votes yes
// or holds no vote permission
func (x *hist) upgradeVote(vs []int64, upTime int64, r *hx.Rng) {
	if x.dead {
		return
	}
	w := x.w
	gk := appOf(w).CustomGovKeeper
	ctx := x.blockCtx()
	content := upgradetypes.NewSoftwareUpgradeProposal("up", nil, upTime, "old", "new", "", 0, "", true, false, true)
	pid, err := gk.CreateAndSaveProposalWithContent(ctx, "upgrade", "upgrade", content)
	if err != nil {
		panic(err)
	}
	in := map[int64]bool{}
	gh := &upgGhost{pid: pid, content: content, nonAppr: map[int]bool{}, upTime: upTime}
	for _, v := range vs {
		in[v] = true
		gh.nonAppr[int(v)] = true
	}
	for id, va := range w.valAddrs {
		addr := sdk.AccAddress(va)
		actor, found := gk.GetNetworkActorByAddress(ctx, addr)
		if !found {
			actor = govtypes.NewDefaultActor(addr)
		}
		has := actor.Permissions.IsWhitelisted(govtypes.PermVoteSoftwareUpgradeProposal)
		// only validators, pending claimers and the named non-approving voters become network actors here
		// (a network actor cannot be a rotation target)
		_, isVal := x.prev.Vals[id]
		isPend := false
		for _, pe := range x.prev.Pend {
			if int(pe[0]) == id {
				isPend = true
			}
		}
		want := in[int64(id)] || ((isVal || isPend) && r.Bool())
		if want && !has {
			if err := gk.AddWhitelistPermission(ctx, actor, govtypes.PermVoteSoftwareUpgradeProposal); err != nil {
				panic(err)
			}
		} else if !want && has {
			if err := gk.RemoveWhitelistedPermission(ctx, actor, govtypes.PermVoteSoftwareUpgradeProposal); err != nil {
				panic(err)
			}
		}
		if in[int64(id)] {
			switch r.Intn(4) {
			case 0:
				gk.SaveVote(ctx, govtypes.NewVote(pid, addr, govtypes.OptionNo, sdk.ZeroDec()))
			case 1:
				gk.SaveVote(ctx, govtypes.NewVote(pid, addr, govtypes.OptionAbstain, sdk.ZeroDec()))
			case 2:
				gk.SaveVote(ctx, govtypes.NewVote(pid, addr, govtypes.OptionNoWithVeto, sdk.ZeroDec()))
			}
		} else if want {
			gk.SaveVote(ctx, govtypes.NewVote(pid, addr, govtypes.OptionYes, sdk.ZeroDec()))
		}
	}
	x.upg = gh
}

// upgradeSchedule: the proposal has passed: its result is stored and the REAL software-upgrade proposal
// handler schedules the plan (upgrade time still in the future)
func (x *hist) upgradeSchedule() {
	if x.dead || x.upg == nil {
		return
	}
	gk := appOf(x.w).CustomGovKeeper
	ctx := x.blockCtx()
	prop, found := gk.GetProposal(ctx, x.upg.pid)
	if !found {
		panic("upgrade proposal lost")
	}
	prop.Result = govtypes.Passed
	gk.SaveProposal(ctx, prop)
	if err := gk.GetProposalRouter().ApplyProposal(ctx, x.upg.pid, x.upg.content, sdk.ZeroDec()); err != nil {
		panic("software upgrade proposal handler: " + err.Error())
	}
}

// upgradeExecute: first BeginBlock at or after the upgrade time: the real upgrade BeginBlocker pauses the
// non-approving voters.  Expected set = the ghost's (ordered as the code visits them, which matters only
// when consensus keys are shared).
func (x *hist) upgradeExecute() {
	if x.dead || x.upg == nil {
		return
	}
	w := x.w
	a := appOf(w)
	gk := a.CustomGovKeeper
	ctx := x.blockCtx()
	var order []int64
	seen := map[int64]bool{}
	add := func(id int64) {
		if x.upg.nonAppr[int(id)] && !seen[id] {
			order = append(order, id)
			seen[id] = true
		}
	}
	hx.Try(func() {
		for _, vote := range gk.GetProposalVotes(ctx, x.upg.pid) {
			if id, ok := w.valID[string(sdk.ValAddress(vote.Voter))]; ok {
				add(int64(id))
			}
		}
		for _, actor := range gk.GetNetworkActorsByAbsoluteWhitelistPermission(ctx, govtypes.PermVoteSoftwareUpgradeProposal) {
			if id, ok := w.valID[string(sdk.ValAddress(actor.Address))]; ok {
				add(int64(id))
			}
		}
	})
	var rest []int
	for id := range x.upg.nonAppr {
		if !seen[int64(id)] {
			rest = append(rest, id)
		}
	}
	sort.Ints(rest)
	for _, id := range rest {
		order = append(order, int64(id))
	}
	res := "ROk"
	bc, bwrite := ctx.CacheContext()
	p := hx.Try(func() { upgrade.BeginBlocker(a.UpgradeKeeper, bc, abci.RequestBeginBlock{}) })
	if p != "" {
		res = "RPanic"
		x.dead = true
	} else {
		bwrite()
		x.planPending = true // the next BeginBlock carries on with the plan (second phase)
	}
	x.upg = nil
	x.record("OUpPause "+zs(order), jop{Op: "upgrade-pause", Vs: order, Err: p}, res, "")
}

// upgradePause: the whole process in one block (the plan is already due when it is stored)
func (x *hist) upgradePause(vs []int64, r *hx.Rng) {
	if x.dead {
		return // the chain has halted (or the sets already differ): the history ends here
	}
	a := appOf(x.w)
	ctx := x.blockCtx()
	x.upgradeVote(vs, x.t/1e9-1, r)
	plan := upgradetypes.Plan{Name: "up", UpgradeTime: x.t/1e9 - 1, InstateUpgrade: true, SkipHandler: true, ProposalID: x.upg.pid}
	if err := a.UpgradeKeeper.SaveNextPlan(ctx.WithBlockTime(time.Unix(0, x.t-10e9).UTC()), plan); err != nil {
		panic(err)
	}
	x.upgradeExecute()
}

func (x *hist) consKeys() []int64 {
	var ks []int64
	for _, v := range x.valset.Validators {
		ks = append(ks, int64(x.w.consID[string(v.Address)]))
	}
	sort.Slice(ks, func(i, j int) bool { return ks[i] < ks[j] })
	return ks
}

func (x *hist) endBlock() {
	if x.dead {
		return // the chain has halted (or the sets already differ): the history ends here
	}
	w := x.w
	var ups []abci.ValidatorUpdate
	// a panic in EndBlock stops the node before anything is committed: run on a cache
	ec, ewrite := x.blockCtx().CacheContext()
	p := hx.Try(func() { ups = staking.EndBlocker(ec, w.sk) })
	if p == "" {
		ewrite()
	}
	if p != "" {
		x.dead = true
		x.record("OEndBlock", jop{Op: "endblock", Err: p}, "RPanic", "(Some ([], false, "+pairs(x.setPairs())+"))")
		return
	}
	var ju [][2]int64
	for _, u := range ups {
		pk, err := tmtypesPub(u)
		if err != nil {
			panic(err)
		}
		ju = append(ju, [2]int64{int64(w.consID[string(pk.Address())]), u.Power})
	}
	applied := true
	consErr := ""
	changes, err := tmtypes.PB2TM.ValidatorUpdates(ups)
	if err != nil {
		applied, consErr = false, err.Error()
	} else {
		cp := x.valset.Copy()
		var uerr error
		pp := hx.Try(func() { uerr = cp.UpdateWithChangeSet(changes) })
		if pp != "" {
			applied, consErr = false, "panic: "+pp
		} else if uerr != nil {
			applied, consErr = false, uerr.Error()
		} else {
			x.valset = cp
		}
	}
	if !applied {
		x.dead = true
		if len(consErr) > 160 {
			consErr = consErr[:160]
		}
	}
	sp := x.setPairs()
	eb := fmt.Sprintf("(Some (%s, %s, %s))", pairs(ju), hx.B(applied), pairs(sp))
	x.record("OEndBlock", jop{Op: "endblock", Updates: ju, Applied: &applied, ConsErr: consErr, ConsSet: sp}, "ROk", eb)
}

func (x *hist) setPairs() [][2]int64 {
	var sp [][2]int64
	for _, v := range x.valset.Validators {
		sp = append(sp, [2]int64{int64(x.w.consID[string(v.Address)]), v.VotingPower})
	}
	sort.Slice(sp, func(i, j int) bool { return sp[i][0] < sp[j][0] })
	return sp
}

func main() {
	outDir := flag.String("out", ".", "output directory")
	n := flag.Int("n", 300, "number of generated histories")
	prop := flag.String("prop", "c05", "c05 | c15: which checker the output is labelled for")
	flag.Parse()
	out := hx.Out{Dir: *outDir}
	seed := hx.Seed()
	r := hx.NewRng(seed)

	app := hx.NewApp()
	theApp = app
	base := hx.Ctx(app, 10, 1700000000)
	w := &world{app: app, sk: app.CustomStakingKeeper, slk: app.CustomSlashingKeeper, valID: map[string]int{}, consID: map[string]int{}}

	// validator addresses (genesis validator + candidates), ids in byte order = store order
	gen := w.sk.GetValidatorSet(base)
	if len(gen) != 1 {
		panic("expected exactly one genesis validator")
	}
	type cand struct {
		addr sdk.ValAddress
		pk   cryptotypes.PubKey
	}
	cands := []cand{{gen[0].ValKey, gen[0].GetConsPubKey()}}
	for i := 0; i < nCand; i++ {
		pk := ed25519.GenPrivKeyFromSecret([]byte(fmt.Sprintf("verif-c05-cons-%d", i))).PubKey()
		addr := sdk.ValAddress(ed25519.GenPrivKeyFromSecret([]byte(fmt.Sprintf("verif-c05-val-%d", i))).PubKey().Address())
		cands = append(cands, cand{addr, pk})
	}
	sort.Slice(cands, func(i, j int) bool { return string(cands[i].addr) < string(cands[j].addr) })
	genID := 0
	for i, c := range cands {
		w.valAddrs = append(w.valAddrs, c.addr)
		w.keys = append(w.keys, c.pk) // consensus-key id i = the key candidate i would normally use
		w.valID[string(c.addr)] = i
		w.consID[string(sdk.ConsAddress(c.pk.Address()))] = i
		if string(c.addr) == string(gen[0].ValKey) {
			genID = i
		}
	}
	// one extra consensus key that is never claimed (unknown to the application)
	w.keys = append(w.keys, ed25519.GenPrivKeyFromSecret([]byte("verif-c05-cons-unknown")).PubKey())
	unknownKey := len(w.keys) - 1
	w.consID[string(sdk.ConsAddress(w.keys[unknownKey].Address()))] = unknownKey

	dist := hx.Counter{}
	var cases []string
	var js []jcase
	signersOK := true
	T0, H0 := int64(1700000000)*1e9, int64(10)
	initSnap := w.snap(base)

	spellSrc := hx.NewRng(seed + 77)
	newHist := func(cfg int) *hist {
		c, _ := base.CacheContext()
		cf := configs[cfg]
		setProps(app, c, cf)
		vs := tmtypes.NewValidatorSet([]*tmtypes.Validator{tmtypes.NewValidator(mustTm(w.keys[genID]), 1)})
		return &hist{w: w, cfg: cfg, ctx: c, h: H0, t: T0, valset: vs, prev: initSnap, dist: dist, signers: true, cur: cf, spellRng: spellSrc.Fork()}
	}
	finish := func(x *hist, kind string) {
		cases = append(cases, fmt.Sprintf("Case %d %s", x.cfg, hx.List(x.steps)))
		js = append(js, jcase{Kind: kind, Cfg: x.cfg, Ops: x.ops})
		if !x.signers {
			signersOK = false
		}
		dist.Inc("history:" + kindClass(kind))
		if x.dead {
			dist.Inc("history-ended-by-halt-or-panic")
		}
	}

	// ---- fixed witness histories (the replays of the *_refuted lemmas and the basic happy paths)
	for _, wt := range witnesses(genID) {
		x := newHist(wt.cfg)
		wt.run(x, r)
		finish(x, "witness:"+wt.name)
	}
	// ---- systematic stream: singles / pairs / triples of operations on one validator in one block
	plan, nTriples := sysPlan(r.Fork())
	for _, t := range plan {
		for _, st := range sysStarts {
			x := newHist(0)
			runSys(x, r, genID, st, t, false)
			finish(x, sysName(st, t))
		}
	}
	// the same stream with a genesis export + import after the block under test: every tuple in the thorough
	// tier; in the quick tier every single and pair from every start status
	all := os.Getenv("VERIF_TIER") == "thorough" || os.Getenv("VERIF_SYS") == "all"
	nGen := 0
	for i, t := range plan {
		for j, st := range sysStarts {
			_, _ = i, j
			if !all && len(t) > 2 {
				continue
			}
			x := newHist(0)
			runSys(x, r, genID, st, t, true)
			finish(x, strings.Replace(sysName(st, t), "sys:", "sysg:", 1))
			nGen++
		}
	}
	dist["systematic-with-genesis-import:run"] = nGen
	tcs := thrCases()
	nThr := len(tcs)
	if !(os.Getenv("VERIF_TIER") == "thorough" || os.Getenv("VERIF_SYS") == "all") {
		rr := r.Fork()
		var pick []thrCase
		for i := 0; i < 40; i++ {
			pick = append(pick, tcs[rr.Intn(len(tcs))])
		}
		tcs = pick
	}
	for _, tc := range tcs {
		x := newHist(0)
		gi := len(js)%4 == 0
		runThr(x, genID, tc, gi)
		finish(x, fmt.Sprintf("thr:mc%d:max%d:%s->%d:after%d%s", tc.mc0, tc.maxm0, propNames[tc.which], tc.val, tc.k, map[bool]string{true: ":genesis-import", false: ""}[gi]))
	}
	for _, bc := range bndCases() {
		x := newHist(0)
		runBnd(x, genID, bc)
		finish(x, fmt.Sprintf("bnd:%s:%+dns", bc.kind, bc.d))
	}
	dist["boundary-stream:run"] = len(bndCases())
	ucs := upgCases()
	nUpg := 0
	for i, uc := range ucs {
		if !(os.Getenv("VERIF_TIER") == "thorough" || os.Getenv("VERIF_SYS") == "all") && uc.start == "PAUSED" && i%4 != 0 {
			continue
		}
		x := newHist(0)
		runUpg(x, genID, uc, r)
		finish(x, fmt.Sprintf("upg:%s:a-votes-%s:%s-at-%d", uc.start, uc.vote, uc.x, uc.pos))
		nUpg++
	}
	dist["upgrade-process-stream:run"] = nUpg
	nLast := 0
	for _, lc := range lastCases() {
		x := newHist(0)
		x.spellRng = nil
		runLast(x, genID, lc, r, false)
		finish(x, fmt.Sprintf("last:n%d:min%d:%s", lc.n, lc.minv, lc.kind))
		nLast++
		if lc.n >= 2 && (all || nLast%3 == 0) {
			x = newHist(0)
			x.spellRng = nil
			runLast(x, genID, lc, r, true)
			finish(x, fmt.Sprintf("last:n%d:min%d:%s:genesis-import", lc.n, lc.minv, lc.kind))
			nLast++
		}
	}
	dist["last-validators-stream:run"] = nLast
	dist["threshold-stream:run"] = len(tcs)
	dist["threshold-stream:existing"] = nThr
	dist["systematic:tuples-run"] = len(plan)
	dist["systematic:triples-existing"] = nTriples
	// ---- generated histories
	for i := 0; i < *n; i++ {
		x := newHist(r.Intn(len(configs)))
		inject := injNone
		if r.Chance(30) {
			inject = 1 + r.Intn(injCount-1)
		}
		generate(x, r.Fork(), inject, genID, unknownKey, *prop == "c15")
		finish(x, []string{"clean", "inject:rank-reset", "inject:evidence-against-non-active", "inject:upgrade-pause-of-non-active",
			"inject:pause-of-last-active", "inject:reactivate-then-pause", "inject:shared-consensus-key"}[inject])
	}

	// ---- output
	var pre strings.Builder
	pre.WriteString("(* written by /verif/harness/cmd/c05 -- observations of the real code *)\n")
	pre.WriteString("From Sekai Require Import Base.Prelude Base.Dec Model.Validators Model.C05Check Model.C15Check.\n")
	pre.WriteString("Definition cfgs : list config := [\n")
	for i, c := range configs {
		sep := ";"
		if i == len(configs)-1 {
			sep = ""
		}
		pre.WriteString("  " + c.coq() + sep + "\n")
	}
	pre.WriteString("].\n")
	pre.WriteString("Definition init : state := " + initSnap.stateCoq(T0, H0, []int64{int64(genID)}) + ".\n")
	out.WriteFile("pre.v", pre.String())
	out.WriteFile("cases.txt", strings.Join(cases, "\n")+"\n")
	if *prop == "c15" {
		out.WriteJSON("meta.json", map[string]string{"case_type": "c15_case", "mismatch_fn": "c15_mismatches cfgs init", "violation_fn": "c15_violations cfgs init"})
	} else {
		out.WriteJSON("meta.json", map[string]string{"case_type": "c05_case", "mismatch_fn": "c05_mismatches cfgs init", "violation_fn": "c05_violations cfgs init"})
	}
	out.WriteJSON("cases.json", js)
	nops := 0
	for _, j := range js {
		nops += len(j.Ops)
	}
	out.WriteJSON("dist.json", map[string]interface{}{"seed": seed, "histories": len(js), "operations": nops, "by_kind": dist,
		"owner_messages_signed_by_validator_address": signersOK, "genesis_validator_id": genID})
	fmt.Fprintf(os.Stderr, "c05: %d histories, %d operations\n", len(js), nops)
}

func setProps(app *simapp.SekaiApp, c sdk.Context, cf config) {
	gk := app.CustomGovKeeper
	props := gk.GetNetworkProperties(c)
	props.MischanceConfidence = cf.MC
	props.MaxMischance = cf.MaxM
	props.MischanceRankDecreaseAmount = cf.RankDec
	props.InactiveRankDecreasePercent = sdk.NewDecWithPrec(cf.PctPrec2, 2)
	props.MinValidators = cf.MinVals
	props.DowntimeInactiveDuration = cf.Downtime
	props.UnjailMaxTime = cf.Unjail
	if err := gk.SetNetworkProperties(c, props); err != nil {
		panic(err)
	}
}

func jsonMarshal(v interface{}) ([]byte, error) { return json.Marshal(v) }

func kindClass(k string) string {
	if strings.HasPrefix(k, "witness:") {
		return "witness"
	}
	if strings.HasPrefix(k, "sys:") {
		return "systematic"
	}
	if strings.HasPrefix(k, "sysg:") {
		return "systematic-with-genesis-import"
	}
	if strings.HasPrefix(k, "thr:") {
		return "threshold-stream"
	}
	if strings.HasPrefix(k, "bnd:") {
		return "boundary-stream"
	}
	if strings.HasPrefix(k, "upg:") {
		return "upgrade-process-stream"
	}
	if strings.HasPrefix(k, "last:") {
		return "last-validators-stream"
	}
	return k
}

func init() {
	// the real code prints to stdout (e.g. "error applying proposal"); keep the harness output clean
	if f, err := os.OpenFile(os.DevNull, os.O_WRONLY, 0); err == nil {
		os.Stdout = f
	}
}

// pinVote: make person id vote exactly as named on the open upgrade proposal
func pinVote(x *hist, id int, how string) {
	if x.dead || x.upg == nil {
		return
	}
	gk := appOf(x.w).CustomGovKeeper
	ctx := x.blockCtx()
	addr := sdk.AccAddress(x.w.valAddrs[id])
	actor, found := gk.GetNetworkActorByAddress(ctx, addr)
	if !found {
		actor = govtypes.NewDefaultActor(addr)
	}
	has := actor.Permissions.IsWhitelisted(govtypes.PermVoteSoftwareUpgradeProposal)
	if v, ok := gk.GetVote(ctx, x.upg.pid, addr); ok {
		gk.DeleteVote(ctx, v)
	}
	wantPerm := how != "no-perm"
	if wantPerm && !has {
		if err := gk.AddWhitelistPermission(ctx, actor, govtypes.PermVoteSoftwareUpgradeProposal); err != nil {
			panic(err)
		}
	} else if !wantPerm && has {
		if err := gk.RemoveWhitelistedPermission(ctx, actor, govtypes.PermVoteSoftwareUpgradeProposal); err != nil {
			panic(err)
		}
	}
	switch how {
	case "yes":
		gk.SaveVote(ctx, govtypes.NewVote(x.upg.pid, addr, govtypes.OptionYes, sdk.ZeroDec()))
	case "no":
		gk.SaveVote(ctx, govtypes.NewVote(x.upg.pid, addr, govtypes.OptionNo, sdk.ZeroDec()))
	}
}
