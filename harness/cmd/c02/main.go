// c02: authentication / replay. Drives the REAL application through ABCI DeliverTx (full ante
// chain + message servers) with honest, forged and replayed transactions over the matrix
//
//	message type x sign mode (DIRECT, LEGACY_AMINO_JSON, EIP-712, raw Ethereum tx, unsupported)
//	x attached key (none/right/wrong/ed25519) x account state (new / key on record / eth-style)
//	x forging strategy,
//
// and records, for every step, the truth values of the crypto oracles (signature verification
// under every key of the history, Ethereum recovery, raw-tx sender), evaluated with the SDK /
// go-ethereum libraries directly (never through app/ante).  Output: see FRAMEWORK.md.
package main

import (
	"crypto/ecdsa"
	"encoding/hex"
	"encoding/json"
	"flag"
	"fmt"
	"math/big"
	"os"
	"reflect"
	"sort"
	"strings"
	"time"

	"verif/harness/hx"

	simapp "github.com/KiraCore/sekai/app"
	customante "github.com/KiraCore/sekai/app/ante"
	kiratypes "github.com/KiraCore/sekai/types"
	custodytypes "github.com/KiraCore/sekai/x/custody/types"
	govtypes "github.com/KiraCore/sekai/x/gov/types"
	multistakingtypes "github.com/KiraCore/sekai/x/multistaking/types"
	tokenstypes "github.com/KiraCore/sekai/x/tokens/types"
	dbm "github.com/cometbft/cometbft-db"
	abci "github.com/cometbft/cometbft/abci/types"
	"github.com/cometbft/cometbft/libs/log"
	tmproto "github.com/cometbft/cometbft/proto/tendermint/types"
	codectypes "github.com/cosmos/cosmos-sdk/codec/types"
	"github.com/cosmos/cosmos-sdk/crypto/keys/ed25519"
	kmultisig "github.com/cosmos/cosmos-sdk/crypto/keys/multisig"
	"github.com/cosmos/cosmos-sdk/crypto/keys/secp256k1"
	cryptotypes "github.com/cosmos/cosmos-sdk/crypto/types"
	multisigtypes "github.com/cosmos/cosmos-sdk/crypto/types/multisig"
	simtestutil "github.com/cosmos/cosmos-sdk/testutil/sims"
	sdk "github.com/cosmos/cosmos-sdk/types"
	txtypes "github.com/cosmos/cosmos-sdk/types/tx"
	"github.com/cosmos/cosmos-sdk/types/tx/signing"
	"github.com/cosmos/cosmos-sdk/x/auth/migrations/legacytx"
	authsigning "github.com/cosmos/cosmos-sdk/x/auth/signing"
	authtx "github.com/cosmos/cosmos-sdk/x/auth/tx"
	banktypes "github.com/cosmos/cosmos-sdk/x/bank/types"
	minttypes "github.com/cosmos/cosmos-sdk/x/mint/types"
	"github.com/ethereum/go-ethereum/common"
	ethmath "github.com/ethereum/go-ethereum/common/math"
	ethtypes "github.com/ethereum/go-ethereum/core/types"
	ethcrypto "github.com/ethereum/go-ethereum/crypto"
	"github.com/ethereum/go-ethereum/rlp"
	apitypes "github.com/ethereum/go-ethereum/signer/core/apitypes"
)

const ethChainID = 8789
const denom = "ukex"

// ---------------------------------------------------------------- keys

type keyT struct {
	idx     int
	multi   bool // 2-of-3 LegacyAminoPubKey over members
	members []*keyT
	ed      bool
	seed    string
	priv    *secp256k1.PrivKey
	ec      *ecdsa.PrivateKey
	edp     *ed25519.PrivKey
	pub     cryptotypes.PubKey
	caddr   sdk.AccAddress // pub.Address(): the address this key controls the cosmos way
	eaddr   common.Address // the 20 bytes this key controls the Ethereum way
}

func newKey(idx int, seed string, ed bool) *keyT {
	k := &keyT{idx: idx, seed: seed, ed: ed}
	if ed {
		k.edp = ed25519.GenPrivKeyFromSecret([]byte(seed))
		k.pub = k.edp.PubKey()
		k.caddr = sdk.AccAddress(k.pub.Address())
		return k
	}
	k.priv = secp256k1.GenPrivKeyFromSecret([]byte(seed))
	ec, err := ethcrypto.ToECDSA(k.priv.Key)
	if err != nil {
		panic(err)
	}
	k.ec = ec
	k.pub = k.priv.PubKey()
	k.caddr = sdk.AccAddress(k.pub.Address())
	k.eaddr = ethcrypto.PubkeyToAddress(ec.PublicKey)
	return k
}
func newMultiKey(idx int, members []*keyT) *keyT {
	var pubs []cryptotypes.PubKey
	for _, m := range members {
		pubs = append(pubs, m.pub)
	}
	k := &keyT{idx: idx, multi: true, members: members, seed: "2-of-3 multisig over A, B, M (sorted by address)"}
	k.pub = kmultisig.NewLegacyAminoPubKey(2, pubs)
	k.caddr = sdk.AccAddress(k.pub.Address())
	return k
}

// single: the key a single signature is made with (first member of a multisig)
func (k *keyT) single() *keyT {
	if k.multi {
		return k.members[0]
	}
	return k
}
func (k *keyT) coq() string {
	if k.multi {
		return fmt.Sprintf("(Multi %d)", k.idx)
	}
	if k.ed {
		return fmt.Sprintf("(Ed %d)", k.idx)
	}
	return fmt.Sprintf("(Secp %d)", k.idx)
}
func (k *keyT) sign(bz []byte) []byte {
	var s []byte
	var err error
	if k.multi {
		return k.members[0].sign(bz)
	}
	if k.ed {
		s, err = k.edp.Sign(bz)
	} else {
		s, err = k.priv.Sign(bz)
	}
	if err != nil {
		panic(err)
	}
	return s
}

// ethSign: 65-byte [R||S||V] with yellow-paper V (27/28) over a 32-byte digest
func (k *keyT) ethSign(digest []byte) []byte {
	s, err := ethcrypto.Sign(digest, k.single().ec)
	if err != nil {
		panic(err)
	}
	s[64] += 27
	return s
}

// ---------------------------------------------------------------- independent EIP-712 digest
// (written from the documented format: domain {name "Kira", version "1", chainId}, primary type =
// message type name, fields param = JSON of the message, nonce = sequence)
func eip712Digest(msg sdk.Msg, nonce uint64, chain int64) (out []byte, err error) {
	defer func() {
		if r := recover(); r != nil {
			out, err = nil, fmt.Errorf("eip-712 digest: %v", r)
		}
	}()
	name := ""
	if t, ok := msg.(interface{ Type() string }); ok {
		name = t.Type()
	}
	data, err := json.Marshal(msg)
	if err != nil {
		return nil, err
	}
	td := apitypes.TypedData{
		Types: apitypes.Types{
			"EIP712Domain": {{Name: "name", Type: "string"}, {Name: "version", Type: "string"}, {Name: "chainId", Type: "uint256"}},
			name:           {{Name: "param", Type: "string"}, {Name: "nonce", Type: "uint256"}},
		},
		PrimaryType: name,
		Domain:      apitypes.TypedDataDomain{Name: "Kira", Version: "1", ChainId: ethmath.NewHexOrDecimal256(chain)},
		Message:     apitypes.TypedDataMessage{"param": string(data), "nonce": ethmath.NewHexOrDecimal256(int64(nonce))},
	}
	h, err := td.HashStruct(td.PrimaryType, td.Message)
	if err != nil {
		return nil, err
	}
	d, err := td.HashStruct("EIP712Domain", td.Domain.Map())
	if err != nil {
		return nil, err
	}
	raw := append([]byte("\x19\x01"), append([]byte(d), []byte(h)...)...)
	return ethcrypto.Keccak256(raw), nil
}

// ---------------------------------------------------------------- world

type world struct {
	app       *simapp.SekaiApp
	enc       simapp.EncodingConfig
	header    tmproto.Header
	handler   authsigning.SignModeHandler
	height    int64
	delivered int
}

func (w *world) ctx() sdk.Context { return w.app.BaseApp.NewContext(false, w.header) }

func (w *world) beginBlock() {
	w.height++
	w.header = tmproto.Header{Height: w.height, Time: time.Unix(1700000000+w.height*5, 0).UTC(), ProposerAddress: []byte("c02-proposer-address")}
	w.app.BeginBlock(abci.RequestBeginBlock{Header: w.header})
}
func (w *world) endBlock() {
	w.app.EndBlock(abci.RequestEndBlock{Height: w.height})
	w.app.Commit()
}

// ---------------------------------------------------------------- one history

type acctT struct {
	name  string // A, B
	key   *keyT  // the key of the person owning the account
	style string // normal | eth
	addr  sdk.AccAddress
	state string // new | onrecord
}

type hist struct {
	w        *world
	id       int
	keys     []*keyT
	accts    []*acctT
	addrID   map[string]int
	sigID    map[string]int
	txID     map[string]int
	msgID    map[string]int
	rawID    map[string]int
	ver      map[string]bool
	rec      map[string]bool
	eth      map[string]bool
	verL     []string
	recL     []string
	ethL     []string
	steps    []string
	jsteps   []map[string]interface{}
	multiKey *keyT
	env      string
	init     string
	check    int // class of CheckTx on the first transaction (-1: not run)
}

func idOf(m map[string]int, k string) int {
	if v, ok := m[k]; ok {
		return v
	}
	v := len(m) + 1
	m[k] = v
	return v
}
func (h *hist) addr(a []byte) int { return idOf(h.addrID, string(a)) }

func (h *hist) pkCoq(pk cryptotypes.PubKey) string {
	if pk == nil {
		return "None"
	}
	for _, k := range h.keys {
		if k.pub.Equals(pk) {
			return "(Some " + k.coq() + ")"
		}
	}
	return "(Some (Secp 999))" // a key outside the history's pool: cannot happen; shows as mismatch
}

// observed state of the tracked accounts: (addr, ((pubkey, seq), (accnum, balance)))
func (h *hist) observe() string {
	ctx := h.w.ctx()
	var xs []string
	for _, a := range h.accts {
		acc := h.w.app.AccountKeeper.GetAccount(ctx, a.addr)
		if acc == nil {
			continue
		}
		bal := h.w.app.BankKeeper.GetBalance(ctx, a.addr, denom).Amount
		xs = append(xs, fmt.Sprintf("(%d, mkObs %s %d %d %s)", h.addr(a.addr), h.pkCoq(acc.GetPubKey()), acc.GetSequence(), acc.GetAccountNumber(), hx.ZInt(bal)))
	}
	return hx.List(xs)
}

// ---------------------------------------------------------------- transaction construction

type slotT struct {
	attach cryptotypes.PubKey
	mode   signing.SignMode // mode of a single signature / of every member signature of a multisignature
	seq    uint64
	sig    []byte
	multi  *signing.MultiSignatureData // when set: the slot carries a MultiSignatureData (sig = its encoding)
}

func slotModeCoq(s slotT) string {
	if s.multi != nil {
		if s.mode == signing.SignMode_SIGN_MODE_LEGACY_AMINO_JSON {
			return "MMultiAmino"
		}
		return "MMultiDirect"
	}
	return modeCoq(s.mode)
}
func slotSigBytes(s slotT) []byte {
	if s.multi != nil {
		_, bz := authtx.SignatureDataToModeInfoAndSig(s.multi)
		return bz
	}
	return s.sig
}
func slotSigData(s slotT) signing.SignatureData {
	if s.multi != nil {
		return s.multi
	}
	return &signing.SingleSignatureData{SignMode: s.mode, Signature: append([]byte{}, s.sig...)}
}

type txPlan struct {
	msgs    []sdk.Msg
	slots   []slotT
	payer   string
	memo    string
	victim  int // index of the slot the scenario is about
	fee     int64
	timeout uint64 // body.timeout_height
	granter string // fee.granter
}

func (h *hist) encode(p *txPlan) ([]byte, []byte, []byte) {
	var anys []*codectypes.Any
	for _, m := range p.msgs {
		a, err := codectypes.NewAnyWithValue(m)
		if err != nil {
			panic(err)
		}
		anys = append(anys, a)
	}
	body := &txtypes.TxBody{Messages: anys, Memo: p.memo, TimeoutHeight: p.timeout}
	var sis []*txtypes.SignerInfo
	var sigs [][]byte
	for _, s := range p.slots {
		si := &txtypes.SignerInfo{ModeInfo: &txtypes.ModeInfo{Sum: &txtypes.ModeInfo_Single_{Single: &txtypes.ModeInfo_Single{Mode: s.mode}}}, Sequence: s.seq}
		if s.attach != nil {
			a, err := codectypes.NewAnyWithValue(s.attach)
			if err != nil {
				panic(err)
			}
			si.PublicKey = a
		}
		sg := s.sig
		if s.multi != nil {
			si.ModeInfo, sg = authtx.SignatureDataToModeInfoAndSig(s.multi)
		}
		sis = append(sis, si)
		if sg == nil {
			sg = []byte{}
		}
		sigs = append(sigs, sg)
	}
	ai := &txtypes.AuthInfo{SignerInfos: sis, Fee: &txtypes.Fee{Amount: sdk.NewCoins(sdk.NewInt64Coin(denom, feeOf(p))), GasLimit: 200000, Payer: p.payer, Granter: p.granter}}
	bodyBz, err := body.Marshal()
	if err != nil {
		panic(err)
	}
	aiBz, err := ai.Marshal()
	if err != nil {
		panic(err)
	}
	raw := &txtypes.TxRaw{BodyBytes: bodyBz, AuthInfoBytes: aiBz, Signatures: sigs}
	bz, err := raw.Marshal()
	if err != nil {
		panic(err)
	}
	return bz, bodyBz, aiBz
}

func short(s string) string {
	if len(s) > 160 {
		return s[:160]
	}
	return s
}

func feeOf(p *txPlan) int64 {
	if p.fee > 0 {
		return p.fee
	}
	return 100
}

func (h *hist) decode(bz []byte) sdk.Tx {
	tx, err := h.w.enc.TxConfig.TxDecoder()(bz)
	if err != nil {
		panic(fmt.Sprintf("tx does not decode: %v", err))
	}
	return tx
}

// signBytes of the plan for the given mode / signer data (nil when the handler refuses or panics)
func (h *hist) signBytes(p *txPlan, mode signing.SignMode, chain string, accnum, seq uint64, addr sdk.AccAddress) []byte {
	bz, _, _ := h.encode(p)
	tx := h.decode(bz)
	var out []byte
	hx.Try(func() {
		sb, err := h.w.handler.GetSignBytes(mode, authsigning.SignerData{Address: addr.String(), ChainID: chain, AccountNumber: accnum, Sequence: seq}, tx)
		if err == nil {
			out = sb
		}
	})
	return out
}

func (h *hist) rawEth(k *keyT, nonce uint64, chain int64, to common.Address, ukex int64, legacyUnprotected bool) []byte {
	val := new(big.Int).Mul(big.NewInt(ukex), big.NewInt(1000_000_000_000))
	inner := &ethtypes.LegacyTx{Nonce: nonce, To: &to, Value: val, Gas: 21000, GasPrice: big.NewInt(1)}
	var signer ethtypes.Signer = ethtypes.NewEIP155Signer(big.NewInt(chain))
	if legacyUnprotected {
		signer = ethtypes.HomesteadSigner{}
	}
	tx, err := ethtypes.SignNewTx(k.ec, signer, inner)
	if err != nil {
		panic(err)
	}
	bz, err := rlp.EncodeToBytes(tx)
	if err != nil {
		panic(err)
	}
	return bz
}

// ---------------------------------------------------------------- catalogue of registered message types
// Every sdk.Msg implementation in the interface registry is instantiated generically: a zero value
// whose top-level string / AccAddress / ValAddress fields are filled with the signer's address.
// A type is used when ValidateBasic passes, GetSigners = [signer] and an honest DIRECT transaction
// carrying it passes the ante handler (calibration run, not part of the cases).

type msgType struct {
	url     string
	fee     int64
	aminoOK bool
	eipOK   bool // the message has a type name, so an EIP-712 digest exists
}

var catalogue []msgType
var catalogueSkipped = map[string]string{}

func genericMsg(reg codectypes.InterfaceRegistry, url string, addr sdk.AccAddress) (m sdk.Msg) {
	defer func() {
		if recover() != nil {
			m = nil
		}
	}()
	pm, err := reg.Resolve(url)
	if err != nil {
		return nil
	}
	msg, ok := pm.(sdk.Msg)
	if !ok {
		return nil
	}
	v := reflect.ValueOf(msg).Elem()
	for i := 0; i < v.NumField(); i++ {
		f := v.Field(i)
		if !f.CanSet() {
			continue
		}
		switch f.Interface().(type) {
		case string:
			f.SetString(addr.String())
		case sdk.AccAddress:
			f.Set(reflect.ValueOf(addr))
		case sdk.ValAddress:
			f.Set(reflect.ValueOf(sdk.ValAddress(addr)))
		}
	}
	if msg.ValidateBasic() != nil {
		return nil
	}
	sg := msg.GetSigners()
	if len(sg) != 1 || !sg[0].Equals(addr) {
		return nil
	}
	return msg
}

// ---------------------------------------------------------------- scenario

type scenario struct {
	Msg         string `json:"msg"`                    // bank_send identity two_msgs two_signers fee_payer ethereum_tx
	Mode        string `json:"mode"`                   // direct amino eip712 raw-eth other
	Attach      string `json:"attach"`                 // none right wrong ed
	Acct        string `json:"acct"`                   // new onrecord eth-new eth-onrecord missing
	Strategy    string `json:"strategy"`               // see strategies
	Follow      string `json:"follow"`                 // none replay next-replay resequence
	TypeURL     string `json:"type_url,omitempty"`     // msg = any: the registered message type used
	ChainDigest bool   `json:"chain_digest,omitempty"` // eip712: the wallet signs the digest the CHAIN's own exported function computes (not the documented one)
	BAcct       string `json:"b_acct,omitempty"`       // state of the second account B (default onrecord): new eth-new eth-onrecord
	Env         string `json:"env,omitempty"`          // mode switches of the ante chain: "" (healthy) weak custody execfee freeze
}

var strategies = []string{"honest", "attacker-key", "bitflip", "seq-plus", "seq-minus", "signed-seq-plus", "chain", "othermsg", "accnum",
	"empty-sig", "fee-granter", "accnum-zero", "inner-fresh-first", "rewrap-timeout", "feepayer-unsigned", "rewrap-fee", "rewrap-append", "rewrap-prepend", "rewrap-replace", "rewrap-dup", "rewrap-reorder", "multi-one-sig", "eth-forged-sender", "eth-feepayer-unsigned", "eth-wrong-nonce", "eth-wrong-chain", "eth-unprotected", "swap-slots"}

func (s scenario) label() string {
	return fmt.Sprintf("%s:%s:%s:%s:%s", s.Msg, s.Mode, s.Acct, s.Attach, s.Strategy)
}

type jhist struct {
	Scenario scenario                 `json:"scenario"`
	Kind     string                   `json:"kind"`
	Keys     map[string]string        `json:"key_seeds"`
	Accounts []map[string]interface{} `json:"accounts"`
	Steps    []map[string]interface{} `json:"steps"`
	Accepted []bool                   `json:"accepted"`
	CheckTx  map[string]interface{}   `json:"checktx"`
}

func modeOf(m string) signing.SignMode {
	switch m {
	case "amino", "multi-amino":
		return signing.SignMode_SIGN_MODE_LEGACY_AMINO_JSON
	case "other":
		return signing.SignMode_SIGN_MODE_TEXTUAL
	}
	return signing.SignMode_SIGN_MODE_DIRECT // direct, eip712 and raw-eth all travel as DIRECT
}
func modeCoq(m signing.SignMode) string {
	switch m {
	case signing.SignMode_SIGN_MODE_DIRECT:
		return "MDirect"
	case signing.SignMode_SIGN_MODE_LEGACY_AMINO_JSON:
		return "MAmino"
	}
	return "MOther"
}

func (h *hist) setupAccount(name string, key *keyT, acct string, seq uint64) *acctT {
	a := &acctT{name: name, key: key, style: "normal", state: "new"}
	a.addr = key.caddr
	if strings.HasPrefix(acct, "eth-") {
		a.style = "eth"
		a.addr = sdk.AccAddress(key.eaddr.Bytes())
	}
	if strings.HasPrefix(acct, "multisig-") {
		a.style = "multisig"
	}
	if strings.HasSuffix(acct, "onrecord") || acct == "onrecord-maxseq" {
		a.state = "onrecord"
	}
	if acct == "onrecord-maxseq" {
		seq = ^uint64(0)
	}
	if acct == "missing" {
		a.state = "missing"
		h.accts = append(h.accts, a)
		return a
	}
	ctx := h.w.ctx()
	k := h.w.app
	acc := k.AccountKeeper.NewAccountWithAddress(ctx, a.addr)
	if a.state == "onrecord" {
		if err := acc.SetPubKey(key.pub); err != nil {
			panic(err)
		}
		if err := acc.SetSequence(seq); err != nil {
			panic(err)
		}
	}
	k.AccountKeeper.SetAccount(ctx, acc)
	coins := sdk.NewCoins(sdk.NewInt64Coin(denom, 1000000))
	if err := k.BankKeeper.MintCoins(ctx, minttypes.ModuleName, coins); err != nil {
		panic(err)
	}
	if err := k.BankKeeper.SendCoinsFromModuleToAccount(ctx, minttypes.ModuleName, a.addr, coins); err != nil {
		panic(err)
	}
	h.accts = append(h.accts, a)
	return a
}

func (h *hist) accState(a *acctT) (exists bool, accnum, seq uint64) {
	acc := h.w.app.AccountKeeper.GetAccount(h.w.ctx(), a.addr)
	if acc == nil {
		return false, 0, 0
	}
	return true, acc.GetAccountNumber(), acc.GetSequence()
}

// slot signing parameters after applying the forging strategy
type signParams struct {
	key     *keyT
	slotSeq uint64
	signSeq uint64
	chain   string
	accnum  uint64
	other   bool // sign a different message and transplant the signature
	flip    bool
	empty   bool
}

// build the scenario's transaction against the CURRENT real state
func (h *hist) build(sc scenario, r *hx.Rng, A, B *acctT, attacker *keyT, edKey *keyT, nonceTag int) (*txPlan, string) {
	recipient := sdk.AccAddress(attacker.caddr)
	amount := sdk.NewCoins(sdk.NewInt64Coin(denom, int64(1000+nonceTag)))
	idMsg := func(a *acctT) sdk.Msg {
		return govtypes.NewMsgRegisterIdentityRecords(a.addr, []govtypes.IdentityInfoEntry{{Key: fmt.Sprintf("k%d", nonceTag), Info: fmt.Sprintf("h%d", h.id)}})
	}
	_, anum, aseq := h.accState(A)
	_, bnum, bseq := h.accState(B)

	// which slot is attacked, and who signs the other one
	victim := 0
	p := &txPlan{memo: fmt.Sprintf("h%d.%d", h.id, nonceTag)}
	signers := []*acctT{A}
	switch sc.Msg {
	case "bank_send":
		p.msgs = []sdk.Msg{banktypes.NewMsgSend(A.addr, recipient, amount)}
	case "identity":
		p.msgs = []sdk.Msg{idMsg(A)}
	case "register_delegator":
		p.msgs = []sdk.Msg{multistakingtypes.NewMsgRegisterDelegator(A.addr.String())}
	case "any":
		m := genericMsg(h.w.enc.InterfaceRegistry, sc.TypeURL, A.addr)
		if m == nil {
			panic("catalogue type no longer instantiates: " + sc.TypeURL)
		}
		p.msgs = []sdk.Msg{m}
		for _, c := range catalogue {
			if c.url == sc.TypeURL {
				p.fee = c.fee
			}
		}
	case "repeat_msgs": // the same message type several times
		p.msgs = []sdk.Msg{banktypes.NewMsgSend(A.addr, recipient, amount), banktypes.NewMsgSend(A.addr, recipient, amount.Add(sdk.NewInt64Coin(denom, 1))), banktypes.NewMsgSend(A.addr, recipient, amount)}
	case "two_msgs":
		p.msgs = []sdk.Msg{banktypes.NewMsgSend(A.addr, recipient, amount), idMsg(A)}
	case "two_signers":
		p.msgs = []sdk.Msg{banktypes.NewMsgSend(B.addr, recipient, amount), banktypes.NewMsgSend(A.addr, recipient, amount)}
		signers = []*acctT{B, A}
		victim = 1
	case "fee_payer":
		// B sends, A is named as fee payer: A's authorisation is what is attacked
		p.msgs = []sdk.Msg{banktypes.NewMsgSend(B.addr, recipient, amount)}
		p.payer = A.addr.String()
		signers = []*acctT{B, A}
		victim = 1
	case "ethereum_tx":
		// filled below (needs the signing parameters)
	default:
		panic("msg kind " + sc.Msg)
	}

	if sc.Strategy == "feepayer-unsigned" && len(signers) == 1 && sc.Msg != "ethereum_tx" {
		// A signs as the scenario says; B is named fee payer and never signs
		p.payer = B.addr.String()
		signers = []*acctT{A, B}
	}
	p.victim = victim
	if h.env == "execfee" && p.fee < 4000 {
		p.fee = 4000 // the execution-fee table demands a prepaid fee per message (500 each; re-wrapped lists are longer)
	}
	sp := signParams{key: A.key, slotSeq: aseq, signSeq: aseq, chain: h.w.ctx().ChainID(), accnum: anum}
	ethKey := A.key  // key signing the raw Ethereum transaction
	ethNonce := aseq // nonce of the raw Ethereum transaction
	ethChain := int64(ethChainID)
	unprotected := false
	switch sc.Strategy {
	case "honest":
	case "attacker-key":
		sp.key = attacker
		ethKey = attacker
	case "bitflip":
		sp.flip = true
	case "seq-plus":
		sp.slotSeq, sp.signSeq, ethNonce = aseq+1, aseq+1, aseq+1
	case "seq-minus":
		if aseq > 0 {
			sp.slotSeq, sp.signSeq, ethNonce = aseq-1, aseq-1, aseq-1
		} else {
			sp.slotSeq, sp.signSeq, ethNonce = aseq+2, aseq+2, aseq+2
		}
	case "signed-seq-plus": // the signature is one for the next sequence, the slot claims the current one
		sp.signSeq = aseq + 1
	case "chain":
		sp.chain = "other-chain-7"
		ethChain = 1
	case "othermsg":
		sp.other = true
	case "accnum":
		sp.accnum = anum + 1
	case "empty-sig":
		sp.empty = true
	case "eth-forged-sender":
		ethKey = attacker
		sp.key = attacker
	case "eth-feepayer-unsigned":
		// raw tx honestly signed by A's owner (or by the attacker when A is not an eth-style account);
		// B is named fee payer and never signs
		if A.style != "eth" {
			ethKey = attacker
		}
	case "eth-wrong-nonce":
		ethNonce = aseq + 1
	case "eth-wrong-chain":
		ethChain = 1
	case "eth-unprotected":
		unprotected = true
	case "fee-granter":
		p.granter = B.addr.String() // B is to pay the fee without signing anything
	case "payer-uppercase":
		p.payer = strings.ToUpper(A.addr.String()) // the signer named again as fee payer, in another spelling
	case "accnum-zero":
		sp.accnum = 0
	case "inner-fresh-first", "rewrap-timeout", "swap-slots", "feepayer-unsigned", "rewrap-fee", "multi-one-sig", "rewrap-append", "rewrap-prepend", "rewrap-replace", "rewrap-dup", "rewrap-reorder":
	default:
		panic("strategy " + sc.Strategy)
	}

	if sc.Msg == "ethereum_tx" {
		data := h.rawEth(ethKey.single(), ethNonce, ethChain, common.BytesToAddress(recipient), int64(7+nonceTag), unprotected)
		if sc.Strategy == "bitflip" && sc.Mode == "raw-eth" {
			data[len(data)-3] ^= 0x10 // damage the raw transaction's own signature
		}
		var etx ethtypes.Transaction
		hash := ""
		if rlp.DecodeBytes(data, &etx) == nil {
			hash = etx.Hash().Hex()
		}
		p.msgs = []sdk.Msg{&tokenstypes.MsgEthereumTx{TxType: "NativeSend", Sender: A.addr.String(), Hash: hash, Data: data}}
		if sc.Strategy == "eth-feepayer-unsigned" {
			p.payer = B.addr.String()
			signers = []*acctT{A, B}
		}
	}

	attachOf := func(a *acctT, how string) cryptotypes.PubKey {
		switch how {
		case "right":
			return a.key.pub
		case "wrong":
			return attacker.pub
		case "ed":
			return edKey.pub
		}
		return nil
	}
	mode := modeOf(sc.Mode)
	// slots: victim slot per scenario, the other slot honest DIRECT with its own key attached
	for i, s := range signers {
		if i == victim {
			p.slots = append(p.slots, slotT{attach: attachOf(s, sc.Attach), mode: mode, seq: sp.slotSeq})
		} else if strings.HasSuffix(sc.Strategy, "feepayer-unsigned") && s == B && p.payer == B.addr.String() {
			// the fee payer never signed anything: the attacker fills its slot with noise
			p.slots = append(p.slots, slotT{attach: attachOf(s, []string{"none", "wrong"}[r.Intn(2)]), mode: signing.SignMode_SIGN_MODE_DIRECT, seq: bseq, sig: []byte("unsigned-fee-payer-slot-unsigned-fee-payer-slot-unsigned-fee-pay")})
		} else {
			p.slots = append(p.slots, slotT{attach: s.key.pub, mode: signing.SignMode_SIGN_MODE_DIRECT, seq: bseq})
		}
	}
	// signatures
	for i, s := range signers {
		if i != victim {
			if strings.HasSuffix(sc.Strategy, "feepayer-unsigned") && s == B && p.payer == B.addr.String() {
				continue
			}
			sb := h.signBytes(p, signing.SignMode_SIGN_MODE_DIRECT, h.w.ctx().ChainID(), bnum, bseq, s.addr)
			p.slots[i].sig = s.key.sign(sb)
			continue
		}
		signed := p
		if sp.other {
			q := *p
			q.msgs = []sdk.Msg{banktypes.NewMsgSend(A.addr, recipient, sdk.NewCoins(sdk.NewInt64Coin(denom, 1)))}
			if len(p.msgs) == 2 && sc.Msg != "two_msgs" {
				q.msgs = []sdk.Msg{p.msgs[0], q.msgs[0]}
			}
			signed = &q
		}
		var sig []byte
		switch sc.Mode {
		case "direct", "amino", "other":
			m := mode
			if sc.Mode == "other" {
				m = signing.SignMode_SIGN_MODE_DIRECT // the handler has no bytes for it: sign the DIRECT ones
			}
			sb := h.signBytes(signed, m, sp.chain, sp.accnum, sp.signSeq, s.addr)
			if sb == nil { // e.g. amino JSON of MsgEthereumTx panics
				sb = []byte("no-sign-bytes")
			}
			sig = sp.key.sign(sb)
		case "multi-direct", "multi-amino":
			// a MultiSignatureData over the members of the account's multisig key (or over A, B, M when
			// the account is not a multisig account): which members sign depends on the strategy
			members := h.multiKey.members
			signers := []*keyT{members[0], members[1]}
			switch sc.Strategy {
			case "multi-one-sig":
				signers = signers[:1]
			case "attacker-key", "eth-forged-sender":
				signers = []*keyT{attacker, attacker}
			}
			mk := func(sb []byte) *signing.MultiSignatureData {
				ms := multisigtypes.NewMultisig(len(members))
				for j, k := range signers {
					sg := []byte("placeholder")
					if sb != nil {
						sg = k.sign(sb)
						if sp.flip && j == 0 {
							sg[len(sg)/2] ^= 0x04
						}
						if sp.empty {
							sg = []byte{}
						}
					}
					multisigtypes.AddSignature(ms, &signing.SingleSignatureData{SignMode: mode, Signature: sg}, j)
				}
				return ms
			}
			// the mode info (bit array) is part of the DIRECT sign bytes: fix it first, then sign
			p.slots[i].multi = mk(nil)
			sb := h.signBytes(signed, mode, sp.chain, sp.accnum, sp.signSeq, s.addr)
			if sb == nil {
				sb = []byte("no-sign-bytes")
			}
			p.slots[i].multi = mk(sb)
			p.slots[i].sig = slotSigBytes(p.slots[i])
			continue
		case "eip712":
			// the chain hashes the JSON of the message AS DECODED from the transaction bytes
			sbz, _, _ := h.encode(signed)
			var m sdk.Msg = h.decode(sbz).GetMsgs()[0]
			ch := int64(ethChainID)
			if sc.Strategy == "chain" {
				ch = 1
			}
			d, err := eip712Digest(m, sp.signSeq, ch)
			if err != nil {
				panic(err)
			}
			if sc.ChainDigest && sc.Strategy != "chain" {
				// a wallet built against the running chain: whatever the chain's function hashes is what gets signed
				hx.Try(func() {
					if cd, cerr := customante.GenEIP712SignBytesFromMsg(m, sp.signSeq); cerr == nil && len(cd) == 32 {
						d = cd
					}
				})
			}
			sig = sp.key.ethSign(d)
		case "raw-eth":
			// the authorisation is inside the message; the slot carries noise
			sig = []byte(fmt.Sprintf("raw-eth-slot-noise-%03d-raw-eth-slot-noise-raw-eth-slot-noise-0123", nonceTag%1000))[:65]
		default:
			panic("mode " + sc.Mode)
		}
		if sp.flip && sc.Mode != "raw-eth" {
			sig = append([]byte{}, sig...)
			sig[len(sig)/2] ^= 0x04
		}
		if sp.empty {
			sig = []byte{}
		}
		p.slots[i].sig = sig
	}
	if sc.Strategy == "swap-slots" && len(p.slots) == 2 {
		p.slots[0].sig, p.slots[1].sig = p.slots[1].sig, p.slots[0].sig
	}
	return p, ""
}

// envelope: a MsgEthereumTx naming `sender` around somebody else's raw Ethereum transaction (the inner signed
// payload), authenticated the way `sender` honestly can: a DIRECT signature of its own key / its multisig; an
// Ethereum-style sender has nothing but the raw branch (the slot carries noise)
func (h *hist) envelope(sender *acctT, raw []byte, tag int) *txPlan {
	var etx ethtypes.Transaction
	hash := ""
	if rlp.DecodeBytes(raw, &etx) == nil {
		hash = etx.Hash().Hex()
	}
	_, num, seq := h.accState(sender)
	p := &txPlan{memo: fmt.Sprintf("h%d.envelope%d", h.id, tag), msgs: []sdk.Msg{&tokenstypes.MsgEthereumTx{TxType: "NativeSend", Sender: sender.addr.String(), Hash: hash, Data: raw}}}
	if h.env == "execfee" {
		p.fee = 4000
	}
	sl := slotT{attach: sender.key.pub, mode: signing.SignMode_SIGN_MODE_DIRECT, seq: seq}
	p.slots = []slotT{sl}
	switch {
	case sender.style == "eth":
		p.slots[0].sig = []byte(fmt.Sprintf("envelope-slot-noise-%03d-envelope-slot-noise-envelope-slot-noise-01234", tag%1000))[:65]
	case sender.key.multi:
		mk := func(sb []byte) *signing.MultiSignatureData {
			ms := multisigtypes.NewMultisig(len(sender.key.members))
			for j, k := range sender.key.members[:2] {
				sg := []byte("placeholder")
				if sb != nil {
					sg = k.sign(sb)
				}
				multisigtypes.AddSignature(ms, &signing.SingleSignatureData{SignMode: signing.SignMode_SIGN_MODE_DIRECT, Signature: sg}, j)
			}
			return ms
		}
		p.slots[0].multi = mk(nil)
		p.slots[0].multi = mk(h.signBytes(p, signing.SignMode_SIGN_MODE_DIRECT, h.w.ctx().ChainID(), num, seq, sender.addr))
		p.slots[0].sig = slotSigBytes(p.slots[0])
	default:
		p.slots[0].sig = sender.key.sign(h.signBytes(p, signing.SignMode_SIGN_MODE_DIRECT, h.w.ctx().ChainID(), num, seq, sender.addr))
	}
	return p
}

func rawOf(p *txPlan) []byte {
	for _, m := range p.msgs {
		if e, ok := m.(*tokenstypes.MsgEthereumTx); ok {
			return e.Data
		}
	}
	return nil
}

// ---------------------------------------------------------------- one step: oracles, delivery, observation

func (h *hist) msgCoq(m sdk.Msg) string {
	a, _ := codectypes.NewAnyWithValue(m)
	id := idOf(h.msgID, string(a.Value)+a.TypeUrl)
	var sg []string
	for _, s := range m.GetSigners() {
		sg = append(sg, fmt.Sprint(h.addr(s)))
	}
	if e, ok := m.(*tokenstypes.MsgEthereumTx); ok {
		rid := idOf(h.rawID, string(e.Data))
		var etx ethtypes.Transaction
		okDec := rlp.DecodeBytes(e.Data, &etx) == nil
		nonce, chain := uint64(0), "0"
		if okDec {
			nonce, chain = etx.Nonce(), etx.ChainId().String()
			hx.Try(func() {
				snd, err := ethtypes.Sender(ethtypes.NewEIP155Signer(etx.ChainId()), &etx)
				if err == nil {
					key := fmt.Sprintf("(%d, %d)", rid, h.addr(snd.Bytes()))
					if !h.eth[key] {
						h.eth[key] = true
						h.ethL = append(h.ethL, key)
					}
				}
			})
		}
		return fmt.Sprintf("MEth %d %s (mkRaw %d %s %d %s)", id, sg[0], rid, hx.B(okDec), nonce, chain)
	}
	return fmt.Sprintf("MPlain %d %s", id, hx.List(sg))
}

// describe: the Coq term of the transaction and its real signer list; records the oracle values at the CURRENT state
func (h *hist) describe(p *txPlan, bz []byte) (string, []string) {
	w := h.w
	_, bodyBz, aiBz := h.encode(p)
	tid := idOf(h.txID, string(bodyBz)+"|"+string(aiBz))
	tx := h.decode(bz)
	ctx := w.ctx()
	var msgs []string
	for _, m := range p.msgs {
		msgs = append(msgs, h.msgCoq(m))
	}
	// real signer list
	var signerIDs []string
	var signerAddrs []sdk.AccAddress
	if st, ok := tx.(authsigning.SigVerifiableTx); ok {
		hx.Try(func() { signerAddrs = st.GetSigners() })
	}
	for _, s := range signerAddrs {
		signerIDs = append(signerIDs, fmt.Sprint(h.addr(s)))
	}
	// slots + oracle tables at the current state
	var slots []string
	for i, s := range p.slots {
		sid := idOf(h.sigID, string(slotSigBytes(s)))
		att := "None"
		if s.attach != nil {
			att = h.pkCoq(s.attach)
		}
		slots = append(slots, fmt.Sprintf("mkSlot %s %s %d %d", att, slotModeCoq(s), sid, s.seq))
		if i >= len(signerAddrs) {
			continue
		}
		acc := w.app.AccountKeeper.GetAccount(ctx, signerAddrs[i])
		if acc == nil {
			continue
		}
		accnum := acc.GetAccountNumber()
		if ctx.BlockHeight() == 0 {
			accnum = 0
		}
		doc := fmt.Sprintf("SignDoc %s 0 %d %d %d", slotModeCoq(s), accnum, acc.GetSequence(), tid)
		sd := authsigning.SignerData{Address: acc.GetAddress().String(), ChainID: ctx.ChainID(), AccountNumber: accnum, Sequence: acc.GetSequence()}
		sigData := slotSigData(s)
		for _, k := range h.keys {
			okv := false
			sd.PubKey = k.pub
			hx.Try(func() { okv = authsigning.VerifySignature(k.pub, sd, sigData, w.handler, tx) == nil })
			if okv {
				key := fmt.Sprintf("(%s, %s, %d)", k.coq(), doc, sid)
				if !h.ver[key] {
					h.ver[key] = true
					h.verL = append(h.verL, key)
				}
			}
		}
		// Ethereum recovery over the digest the chain uses for this slot
		var digest []byte
		dcoq := ""
		if s.multi != nil {
			continue // the Ethereum path refuses a MultiSignatureData before looking at it
		}
		if s.mode == signing.SignMode_SIGN_MODE_DIRECT {
			if len(p.msgs) >= 1 { // (the digest is over the FIRST message; the model decides whether more are allowed)
				if _, isEth := p.msgs[0].(*tokenstypes.MsgEthereumTx); !isEth {
					d, err := eip712Digest(tx.GetMsgs()[0], acc.GetSequence(), ethChainID)
					if err == nil {
						a, _ := codectypes.NewAnyWithValue(p.msgs[0])
						digest, dcoq = d, fmt.Sprintf("DEip %d %d", idOf(h.msgID, string(a.Value)+a.TypeUrl), acc.GetSequence())
					}
				}
			}
		} else {
			hx.Try(func() {
				sb, err := w.handler.GetSignBytes(s.mode, sd, tx)
				if err == nil {
					digest, dcoq = sb, "DRaw ("+doc+")"
				}
			})
		}
		if digest != nil && len(s.sig) > 64 {
			cp := append([]byte{}, s.sig...)
			cp[64] -= 27
			hx.Try(func() {
				pub, err := ethcrypto.SigToPub(digest, cp)
				if err == nil {
					ra := ethcrypto.PubkeyToAddress(*pub)
					key := fmt.Sprintf("(%s, %d, %d)", dcoq, sid, h.addr(ra.Bytes()))
					if !h.rec[key] {
						h.rec[key] = true
						h.recL = append(h.recL, key)
					}
				}
			})
		}
	}
	payer := "None"
	if p.payer != "" {
		payer = fmt.Sprintf("(Some %d)", h.addr(sdk.MustAccAddressFromBech32(p.payer)))
	}
	txCoq := fmt.Sprintf("mkTx %d %s %s %s", tid, hx.List(msgs), hx.List(slots), payer)

	return txCoq, signerIDs
}

// envRejects: the verdict of the chain's mode filters that the model does not contain, computed
// independently from the documented rule: on a weak network (fewer validators than min_validators) only
// bond-denom sends up to poor_network_max_bank_send and the listed governance messages are allowed.
func (h *hist) envRejects(p *txPlan) bool {
	ctx := h.w.ctx()
	if p.granter != "" {
		return true // the application installs no fee-grant keeper: a named granter is refused
	}
	if h.w.app.CustomStakingKeeper.IsNetworkActive(ctx) {
		return false
	}
	props := h.w.app.CustomGovKeeper.GetNetworkProperties(ctx)
	allowed := h.w.app.CustomGovKeeper.GetPoorNetworkMessages(ctx)
	for _, m := range p.msgs {
		if snd, ok := m.(*banktypes.MsgSend); ok {
			if len(snd.Amount) != 1 || snd.Amount[0].Denom != denom || snd.Amount[0].Amount.Uint64() > props.PoorNetworkMaxBankSend {
				return true
			}
			continue
		}
		okm := false
		for _, a := range allowed.Messages {
			if a == kiratypes.MsgType(m) {
				okm = true
			}
		}
		if !okm {
			return true
		}
	}
	return false
}

func (h *hist) step(p *txPlan, bz []byte, what string) (accepted bool) {
	w := h.w
	txCoq, signerIDs := h.describe(p, bz)
	envRej := h.envRejects(p)
	// deliver through ABCI
	var res abci.ResponseDeliverTx
	pn := hx.Try(func() { res = w.app.DeliverTx(abci.RequestDeliverTx{Tx: bz}) })
	w.delivered++
	class := 1
	msgFailed := false
	switch {
	case pn != "":
		class = 3 // a panic that escaped DeliverTx
	case res.Code == 0:
		class = 0
	case res.Code == 111222 && len(res.Events) == 0:
		class = 2
	case len(res.Events) > 0:
		// the ante handler accepted the transaction (fee charged, sequences incremented, ante events
		// returned) and a message failed afterwards: the transaction DID change state
		class = 0
		msgFailed = true
	}
	post := h.observe()
	h.steps = append(h.steps, fmt.Sprintf("mkStep (%s) %s %d %s %s", txCoq, hx.List(signerIDs), class, post, hx.B(envRej)))
	lg := res.Log
	if len(lg) > 160 {
		lg = lg[:160]
	}
	h.jsteps = append(h.jsteps, map[string]interface{}{"what": what, "tx_hex": hex.EncodeToString(bz), "code": res.Code, "codespace": res.Codespace, "log": lg, "panic": pn, "message_failed_after_ante": msgFailed, "mode_filter_rejects": envRej, "post": post})
	return class == 0
}

// ---------------------------------------------------------------- main

func main() {
	outDir := flag.String("out", ".", "output directory")
	n := flag.Int("n", 300, "number of random histories (on top of the systematic sweep)")
	flag.Parse()
	out := hx.Out{Dir: *outDir}
	seed := hx.Seed()
	r := hx.NewRng(seed)

	w := &world{app: hx.NewApp(), enc: simapp.MakeEncodingConfig()}
	w.handler = w.enc.TxConfig.SignModeHandler()
	w.beginBlock()

	dist := hx.Counter{}
	var coq []string
	var js []jhist

	// A scenario is executed in two phases so that CheckTx can be observed as well: phase 1 creates the
	// accounts (block k, committed), phase 2 (block k+1) runs CheckTx on the first transaction and then
	// delivers the steps.
	type pending struct {
		sc     scenario
		h      *hist
		A, B   *acctT
		kX, kE *keyT
	}
	var queue []*pending
	var deferred, deferredFallback []func()
	firstAccepted := map[int]bool{}
	nextID := 0
	newHist := func(id int) *hist {
		return &hist{w: w, id: id, addrID: map[string]int{}, sigID: map[string]int{}, txID: map[string]int{}, msgID: map[string]int{}, rawID: map[string]int{},
			ver: map[string]bool{}, rec: map[string]bool{}, eth: map[string]bool{}, check: -1}
	}
	// ---- calibration of the message-type catalogue (not part of the cases)
	{
		urls := w.enc.InterfaceRegistry.ListImplementations(sdk.MsgInterfaceProtoName)
		sort.Strings(urls)
		for i, url := range urls {
			k := newKey(1, fmt.Sprintf("calibration-%d", i), false)
			h := newHist(-1)
			h.keys = []*keyT{k}
			A := h.setupAccount("A", k, "new", 0)
			m := genericMsg(w.enc.InterfaceRegistry, url, A.addr)
			if m == nil {
				catalogueSkipped[url] = "generic instance fails ValidateBasic / GetSigners"
				continue
			}
			fee := int64(100)
			if ef := w.app.CustomGovKeeper.GetExecutionFee(w.ctx(), kiratypes.MsgType(m)); ef != nil {
				if int64(ef.ExecutionFee) > fee {
					fee = int64(ef.ExecutionFee)
				}
				if int64(ef.FailureFee) > fee {
					fee = int64(ef.FailureFee)
				}
			}
			_, accnum, _ := h.accState(A)
			pl := &txPlan{msgs: []sdk.Msg{m}, slots: []slotT{{attach: k.pub, mode: signing.SignMode_SIGN_MODE_DIRECT, seq: 0}}, fee: fee, memo: "calibration"}
			pl.slots[0].sig = k.sign(h.signBytes(pl, signing.SignMode_SIGN_MODE_DIRECT, w.ctx().ChainID(), accnum, 0, A.addr))
			bz, _, _ := h.encode(pl)
			var res abci.ResponseDeliverTx
			pn := hx.Try(func() { res = w.app.DeliverTx(abci.RequestDeliverTx{Tx: bz}) })
			if pn != "" || !(res.Code == 0 || len(res.Events) > 0) {
				lg := res.Log
				if len(lg) > 100 {
					lg = lg[:100]
				}
				catalogueSkipped[url] = "honest DIRECT transaction does not pass the ante handler: " + pn + lg
				continue
			}
			aminoOK := h.signBytes(pl, signing.SignMode_SIGN_MODE_LEGACY_AMINO_JSON, w.ctx().ChainID(), accnum, 1, A.addr) != nil
			_, eipErr := eip712Digest(m, 0, ethChainID)
			catalogue = append(catalogue, msgType{url: url, fee: fee, aminoOK: aminoOK, eipOK: eipErr == nil})
		}
		_ = legacytx.StdSignBytes
	}
	prep := func(sc scenario) int {
		if sc.Msg == "any" {
			if len(catalogue) == 0 {
				sc.Msg = "identity"
			} else {
				if sc.TypeURL == "" {
					sc.TypeURL = catalogue[r.Intn(len(catalogue))].url
				}
				for _, c := range catalogue {
					if c.url == sc.TypeURL && ((!c.aminoOK && sc.Mode == "amino") || (!c.eipOK && sc.Mode == "eip712")) {
						sc.Mode = "direct"
					}
					if c.url == sc.TypeURL && !c.aminoOK && sc.Mode == "multi-amino" {
						sc.Mode = "multi-direct"
					}
				}
			}
		}
		if sc.Msg == "ethereum_tx" && sc.Mode == "multi-amino" && sc.Strategy == "multi-one-sig" {
			sc.Strategy = "honest" // (the SDK counts the member signatures before it asks for the amino bytes, which panic for this message)
		}
		if (sc.Strategy == "rewrap-replace" || sc.Strategy == "rewrap-reorder") && sc.Mode != "eip712" && sc.Mode != "raw-eth" &&
			(sc.Msg == "bank_send" || sc.Msg == "identity" || sc.Msg == "any") {
			sc.Msg, sc.TypeURL = "two_msgs", "" // the key-path modes can sign several messages: replace / reorder among them
		}
		if sc.Env == "custody" && sc.Msg == "any" {
			sc.Msg, sc.TypeURL = "identity", "" // (custody's own messages are checked against the custody key)
		}
		h := newHist(nextID)
		h.env = sc.Env
		nextID++
		tag := fmt.Sprintf("s%d-h%d-", seed, h.id)
		kA, kB, kX := newKey(1, tag+"A", false), newKey(2, tag+"B", false), newKey(3, tag+"X", false)
		kE := newKey(4, tag+"E", true)
		kM := newKey(5, tag+"M", false)
		h.multiKey = newMultiKey(6, []*keyT{kA, kB, kM})
		h.keys = []*keyT{kA, kB, kX, kE, kM, h.multiKey}
		ownerKey := kA
		if strings.HasPrefix(sc.Acct, "multisig-") {
			ownerKey = h.multiKey
		}
		A := h.setupAccount("A", ownerKey, sc.Acct, uint64(r.Intn(4)))
		bAcct := sc.BAcct
		if bAcct == "" {
			bAcct = "onrecord"
		}
		bSeq := uint64(r.Intn(3))
		if sc.BAcct != "" {
			if ex, _, sq := h.accState(A); ex {
				bSeq = sq // same sequence as A: a raw Ethereum nonce made for A also fits B
			}
		}
		B := h.setupAccount("B", kB, bAcct, bSeq)
		if sc.Env == "custody" {
			for _, a := range []*acctT{A, B} {
				if a.state != "missing" {
					w.app.CustodyKeeper.SetCustodyRecord(w.ctx(), custodytypes.CustodyRecord{Address: a.addr, CustodySettings: &custodytypes.CustodySettings{CustodyEnabled: true}})
					// an (empty) custodian list: without one the custody decorator dereferences nil on a bank send
					w.app.CustodyKeeper.AddToCustodyCustodians(w.ctx(), custodytypes.CustodyCustodiansRecord{Address: a.addr, CustodyCustodians: &custodytypes.CustodyCustodianList{Addresses: map[string]bool{}}})
				}
			}
		}
		queue = append(queue, &pending{sc: sc, h: h, A: A, B: B, kX: kX, kE: kE})
		return h.id
	}
	classOf := func(code uint32, pn string) int {
		switch {
		case pn != "":
			return 3
		case code == 0:
			return 0
		case code == 111222:
			return 2
		}
		return 1
	}
	exec := func(q *pending) {
		sc, h, A, B, kX, kE := q.sc, q.h, q.A, q.B, q.kX, q.kE
		h.init = h.observe()
		var accepted []bool
		p, _ := h.build(sc, r, A, B, kX, kE, 0)
		bz, _, _ := h.encode(p)
		if sc.Strategy == "inner-fresh-first" && rawOf(p) != nil && B.state != "missing" {
			// A's raw Ethereum transaction has never been submitted; B wraps it in an envelope of its own first
			p = h.envelope(B, rawOf(p), 0)
			bz, _, _ = h.encode(p)
		}
		// CheckTx first (its own state: the committed one, where the accounts are as in h.init)
		checkTxCoq := "None"
		checkBz := bz
		if sc.Strategy == "rewrap-fee" {
			// CheckTx sees the transaction as its signer made it; DeliverTx gets the same messages and the
			// same signatures re-wrapped by somebody else with a 50x fee and another memo
			t1, _ := h.describe(p, bz)
			checkTxCoq = "(Some (" + t1 + "))"
			q2 := *p
			q2.fee = 50 * feeOf(p)
			q2.memo = p.memo + " re-wrapped"
			p = &q2
			bz, _, _ = h.encode(p)
		}
		if sc.Strategy == "rewrap-timeout" {
			// only the timeout height of the body is changed under the same signatures
			t1, _ := h.describe(p, bz)
			checkTxCoq = "(Some (" + t1 + "))"
			q2 := *p
			q2.timeout = uint64(w.height) + 100000
			p = &q2
			bz, _, _ = h.encode(p)
		}
		if strings.HasPrefix(sc.Strategy, "rewrap-") && sc.Strategy != "rewrap-fee" && sc.Strategy != "rewrap-timeout" {
			// CheckTx sees the transaction as its signer made it; DeliverTx gets the SAME signature slots, fee and
			// memo around a CHANGED message list (the extra message moves the signer's funds to the attacker)
			t1, _ := h.describe(p, bz)
			checkTxCoq = "(Some (" + t1 + "))"
			extra := sdk.Msg(banktypes.NewMsgSend(A.addr, sdk.AccAddress(kX.caddr), sdk.NewCoins(sdk.NewInt64Coin(denom, 4242))))
			old := p.msgs
			var nm []sdk.Msg
			switch sc.Strategy {
			case "rewrap-append":
				nm = append(append(nm, old...), extra)
			case "rewrap-prepend":
				nm = append([]sdk.Msg{extra}, old...)
			case "rewrap-replace":
				if len(old) >= 2 {
					nm = append(append(nm, old[:len(old)-1]...), extra)
				} else {
					nm = append(append(nm, old...), extra)
				}
			case "rewrap-dup":
				nm = append(append(nm, old...), old[0])
			case "rewrap-reorder":
				if len(old) >= 2 {
					for j := len(old) - 1; j >= 0; j-- {
						nm = append(nm, old[j])
					}
				} else {
					nm = append([]sdk.Msg{extra}, old...)
				}
			default:
				panic("strategy " + sc.Strategy)
			}
			q2 := *p
			q2.msgs = nm
			p = &q2
			bz, _, _ = h.encode(p)
		}
		var cres abci.ResponseCheckTx
		cpn := hx.Try(func() { cres = w.app.CheckTx(abci.RequestCheckTx{Tx: checkBz, Type: abci.CheckTxType_New}) })
		h.check = classOf(cres.Code, cpn)
		ok := h.step(p, bz, "scenario")
		accepted = append(accepted, ok)
		honestNext := func(tagN int) {
			hs := scenario{Msg: "bank_send", Mode: "direct", Attach: "right", Acct: sc.Acct, Strategy: "honest"}
			if A.style == "eth" {
				hs.Mode = "eip712"
			}
			if A.style == "multisig" {
				hs.Mode = "multi-direct"
			}
			if A.state != "missing" {
				p2, _ := h.build(hs, r, A, B, kX, kE, tagN)
				bz2, _, _ := h.encode(p2)
				accepted = append(accepted, h.step(p2, bz2, "honest follow-up"))
			}
		}
		resequence := func() {
			// the same messages and the same signatures, re-wrapped with the account's CURRENT sequence in the
			// signer info (the auth info is not covered by an Ethereum signature / a raw Ethereum transaction)
			q2 := *p
			q2.slots = append([]slotT{}, p.slots...)
			if ex, _, seq := h.accState(A); ex && p.victim < len(q2.slots) {
				q2.slots[p.victim].seq = seq
			}
			bz3, _, _ := h.encode(&q2)
			accepted = append(accepted, h.step(&q2, bz3, "step 0 re-wrapped with the current sequence"))
		}
		switch sc.Follow {
		case "replay":
			accepted = append(accepted, h.step(p, bz, "replay of step 0"))
		case "next-replay":
			// an honest follow-up by the account's owner (when the account still can sign), then the first one again
			honestNext(1)
			accepted = append(accepted, h.step(p, bz, "replay of step 0"))
		case "resequence":
			resequence()
			honestNext(1)
			resequence()
		case "inner-rewrap":
			// the inner payload of step 0 (A's raw Ethereum transaction, accepted or not) under envelopes of B, again and
			// again; then A's own next transaction and A's own replay
			if raw := rawOf(p); raw != nil && B.state != "missing" {
				for k := 1; k <= 2; k++ {
					e := h.envelope(B, raw, k)
					ebz, _, _ := h.encode(e)
					accepted = append(accepted, h.step(e, ebz, "the inner payload of step 0 under an envelope of B"))
				}
			}
			honestNext(1)
			accepted = append(accepted, h.step(p, bz, "replay of step 0"))
		case "forge-redundant":
			// fields of a message that DUPLICATE what a signed payload determines (MsgEthereumTx.Hash): after A's genuine
			// transaction of step 0 has been processed (process-wide caches are warm), a raw transaction signed by the
			// ATTACKER's key, naming A as sender, nonce = A's current sequence, carries (a) its own honest hash, (b) the hash
			// of A's genuine transaction, (c) garbage; then A's own next genuine transaction with each spelling of the field
			if raw0 := rawOf(p); raw0 != nil {
				var e0 ethtypes.Transaction
				borrowed := ""
				if rlp.DecodeBytes(raw0, &e0) == nil {
					borrowed = e0.Hash().Hex()
				}
				for k, variant := range []string{"honest", "borrowed", "garbage", "empty"} {
					for _, who := range []string{"attacker", "owner"} {
						ex, _, seq := h.accState(A)
						if !ex {
							continue
						}
						signer := kX
						if who == "owner" {
							signer = A.key.single()
						}
						data := h.rawEth(signer, seq, ethChainID, common.BytesToAddress(kX.caddr), int64(11+k), false)
						var et ethtypes.Transaction
						hash := ""
						if rlp.DecodeBytes(data, &et) == nil {
							hash = et.Hash().Hex()
						}
						switch variant {
						case "borrowed":
							hash = borrowed
						case "garbage":
							hash = "0xdeadbeefdeadbeefdeadbeefdeadbeefdeadbeefdeadbeefdeadbeefdeadbeef"
						case "empty":
							hash = ""
						}
						q := &txPlan{memo: fmt.Sprintf("h%d.redundant.%s.%s", h.id, variant, who), fee: p.fee,
							msgs:  []sdk.Msg{&tokenstypes.MsgEthereumTx{TxType: "NativeSend", Sender: A.addr.String(), Hash: hash, Data: data}},
							slots: []slotT{{attach: p.slots[p.victim].attach, mode: signing.SignMode_SIGN_MODE_DIRECT, seq: seq, sig: []byte(fmt.Sprintf("redundant-field-slot-noise-%03d-redundant-field-slot-noise-0123456789", k))[:65]}}}
						qbz, _, _ := h.encode(q)
						accepted = append(accepted, h.step(q, qbz, "raw tx signed by the "+who+", Hash field: "+variant))
					}
				}
			}
			accepted = append(accepted, h.step(p, bz, "replay of step 0"))
		case "replay-weak":
			// settings changed mid-history: the network turns weak after step 0; replay, honest follow-up, replay; back
			gk := w.app.CustomGovKeeper
			flip := func(n uint64) {
				props := gk.GetNetworkProperties(w.ctx())
				props.MinValidators = n
				if err := gk.SetNetworkProperties(w.ctx(), props); err != nil {
					panic(err)
				}
			}
			cur := gk.GetNetworkProperties(w.ctx()).MinValidators
			flip(77)
			accepted = append(accepted, h.step(p, bz, "replay of step 0 on a network that turned weak"))
			honestNext(1)
			accepted = append(accepted, h.step(p, bz, "replay of step 0 (weak network)"))
			flip(cur)
			accepted = append(accepted, h.step(p, bz, "replay of step 0 after the network recovered"))
		}
		finalize := func() {
			var apk []string
			for _, k := range h.keys {
				apk = append(apk, fmt.Sprintf("(%s, %d)", k.coq(), h.addr(k.caddr)))
			}
			coq = append(coq, fmt.Sprintf("mkHist %s (mkTabs %s %s %s %s) %s %s %s %s",
				hx.B(w.ctx().BlockHeight() == 0), hx.List(apk), hx.List(h.verL), hx.List(h.recL), hx.List(h.ethL), hx.Z(int64(h.check)), checkTxCoq, h.init, hx.List(h.steps)))
			kind := "rejected"
			if accepted[0] {
				kind = "accepted"
			}
			firstAccepted[h.id] = accepted[0]
			accs := []map[string]interface{}{}
			for _, a := range h.accts {
				accs = append(accs, map[string]interface{}{"name": a.name, "id": h.addr(a.addr), "addr": a.addr.String(), "style": a.style, "state": a.state})
			}
			js = append(js, jhist{Scenario: sc, Kind: kind, Keys: map[string]string{"A": h.keys[0].seed, "B": h.keys[1].seed, "attacker": kX.seed, "ed25519": kE.seed}, Accounts: accs, Steps: h.jsteps, Accepted: accepted,
				CheckTx: map[string]interface{}{"code": cres.Code, "log": short(cres.Log), "panic": cpn, "tx_hex": hex.EncodeToString(checkBz)}})
			dist.Inc("first:" + kind)
			dist.Inc(fmt.Sprintf("checktx-class:%d", h.check))
			dist.Inc("msg:" + sc.Msg)
			if sc.TypeURL != "" {
				dist.Inc("type:" + sc.TypeURL)
			}
			dist.Inc("mode:" + sc.Mode)
			dist.Inc("acct:" + sc.Acct)
			dist.Inc("attach:" + sc.Attach)
			dist.Inc("follow:" + sc.Follow)
			dist.Inc("env:" + map[bool]string{true: "healthy", false: sc.Env}[sc.Env == ""] + ":" + kind)
			dist.Inc("strategy:" + sc.Strategy + ":" + kind)
			for i, a := range accepted {
				if i > 0 {
					dist.Inc("followup:" + map[bool]string{true: "accepted", false: "rejected"}[a])
				}
			}
		}
		if sc.Follow == "export-import" {
			// continued after the whole application state has been exported and imported into a fresh application
			deferred = append(deferred, func() {
				accepted = append(accepted, h.step(p, bz, "replay of step 0 after genesis export / import"))
				honestNext(2)
				accepted = append(accepted, h.step(p, bz, "replay of step 0 (imported chain)"))
				finalize()
			})
			deferredFallback = append(deferredFallback, finalize)
		} else {
			finalize()
		}
	}
	flush := func() {
		if len(queue) == 0 {
			return
		}
		gk := w.app.CustomGovKeeper
		setProps := func(f func(*govtypes.NetworkProperties)) {
			props := gk.GetNetworkProperties(w.ctx())
			f(props)
			if err := gk.SetNetworkProperties(w.ctx(), props); err != nil {
				panic(err)
			}
		}
		execFees := func(fee, failure uint64) {
			for _, t := range []string{"send", kiratypes.MsgTypeRegisterIdentityRecords, kiratypes.MsgTypeEthereumTx} {
				gk.SetExecutionFee(w.ctx(), govtypes.ExecutionFee{TransactionType: t, ExecutionFee: fee, FailureFee: failure})
			}
		}
		for _, env := range []string{"", "custody", "execfee", "freeze", "weak"} {
			n := 0
			for _, q := range queue {
				if q.sc.Env == env {
					n++
				}
			}
			if n == 0 {
				continue
			}
			// switch the chain into the mode, commit (CheckTx state = DeliverTx state), run, switch back
			switch env {
			case "weak":
				setProps(func(p *govtypes.NetworkProperties) { p.MinValidators = 77 })
			case "freeze":
				setProps(func(p *govtypes.NetworkProperties) { p.EnableTokenBlacklist, p.EnableTokenWhitelist = true, true })
			case "execfee":
				execFees(500, 300)
			}
			w.endBlock()
			w.beginBlock()
			if env == "weak" && w.app.CustomStakingKeeper.IsNetworkActive(w.ctx()) {
				panic("the network did not become weak")
			}
			for _, q := range queue {
				if q.sc.Env == env {
					exec(q)
				}
			}
			switch env {
			case "weak":
				setProps(func(p *govtypes.NetworkProperties) { p.MinValidators = 1 })
			case "freeze":
				setProps(func(p *govtypes.NetworkProperties) { p.EnableTokenBlacklist, p.EnableTokenWhitelist = false, false })
			case "execfee":
				execFees(0, 0)
			}
		}
		queue = nil
	}
	run := func(sc scenario) int {
		id := prep(sc)
		if len(queue) >= 150 {
			flush()
		}
		return id
	}

	msgsK := []string{"bank_send", "identity", "any", "any", "any", "two_msgs", "repeat_msgs", "two_signers", "fee_payer", "ethereum_tx"}
	modes := []string{"direct", "amino", "eip712", "raw-eth", "other", "multi-direct", "multi-amino"}
	attaches := []string{"none", "right", "wrong", "ed"}
	accts := []string{"new", "onrecord", "eth-new", "eth-onrecord"}
	acctsAll := []string{"new", "onrecord", "eth-new", "eth-onrecord", "multisig-new", "multisig-onrecord"}
	follows := []string{"none", "replay", "next-replay", "resequence", "replay-weak", "inner-rewrap", "forge-redundant"}

	// ---- probes: which variant of the code is running (model selection; the whole run must then
	// agree with that variant).  Both use an eth-style account with its key on record.
	probe1 := run(scenario{Msg: "ethereum_tx", Mode: "raw-eth", Attach: "none", Acct: "eth-onrecord", Strategy: "eth-forged-sender", Follow: "replay"})
	probe2 := run(scenario{Msg: "ethereum_tx", Mode: "raw-eth", Attach: "none", Acct: "eth-onrecord", Strategy: "eth-feepayer-unsigned", Follow: "replay"})

	probe3 := run(scenario{Msg: "bank_send", Mode: "eip712", Attach: "none", Acct: "eth-onrecord", Strategy: "rewrap-append", Follow: "replay"})
	probe4 := run(scenario{Msg: "ethereum_tx", Mode: "raw-eth", Attach: "none", Acct: "eth-onrecord", Strategy: "rewrap-append", Follow: "replay"})

	// ---- systematic part 1: honest transactions, every mode x account state x attached key
	for _, m := range []string{"bank_send", "identity", "register_delegator", "ethereum_tx"} {
		for _, md := range modes {
			if md == "raw-eth" && m != "ethereum_tx" {
				continue
			}
			for _, ac := range accts {
				for _, at := range attaches {
					f := "next-replay"
					if (md == "eip712" || md == "raw-eth") && at != "ed" {
						f = "resequence"
					}
					run(scenario{Msg: m, Mode: md, Attach: at, Acct: ac, Strategy: "honest", Follow: f})
				}
			}
		}
	}
	// the sequence number is a uint64
	run(scenario{Msg: "bank_send", Mode: "direct", Attach: "right", Acct: "onrecord-maxseq", Strategy: "honest", Follow: "next-replay"})
	run(scenario{Msg: "bank_send", Mode: "amino", Attach: "none", Acct: "onrecord-maxseq", Strategy: "seq-plus", Follow: "replay"})
	// ---- systematic part 2: the raw Ethereum branch under every account state and attack
	for _, ac := range append(accts, "missing") {
		for _, at := range []string{"none", "right", "wrong"} {
			for _, st := range []string{"eth-forged-sender", "eth-feepayer-unsigned", "eth-wrong-nonce", "eth-wrong-chain", "eth-unprotected", "bitflip", "seq-plus"} {
				run(scenario{Msg: "ethereum_tx", Mode: "raw-eth", Attach: at, Acct: ac, Strategy: st, Follow: "replay"})
			}
		}
	}
	// ---- systematic part 3: every forging strategy on the common shapes
	for _, st := range strategies {
		if strings.HasPrefix(st, "eth-") {
			continue
		}
		for _, md := range []string{"direct", "amino", "eip712"} {
			for _, ac := range accts {
				at := "right"
				if st == "attacker-key" {
					at = "wrong"
				}
				m := "bank_send"
				if st == "swap-slots" {
					m = "two_signers"
				}
				f := "replay"
				if st == "feepayer-unsigned" {
					f = "resequence"
				}
				run(scenario{Msg: m, Mode: md, Attach: at, Acct: ac, Strategy: st, Follow: f})
				if md == "eip712" && strings.HasPrefix(ac, "eth-") {
					run(scenario{Msg: m, Mode: md, Attach: at, Acct: ac, Strategy: st, Follow: f, ChainDigest: true})
				}
			}
		}
	}
	// ---- systematic part 3b: the one-signer rule of the Ethereum path with everybody signing honestly
	for _, m := range []string{"fee_payer", "two_signers"} {
		for _, ac := range []string{"eth-new", "eth-onrecord", "onrecord"} {
			for _, md := range []string{"eip712", "direct"} {
				run(scenario{Msg: m, Mode: md, Attach: "right", Acct: ac, Strategy: "honest", Follow: "replay"})
			}
		}
	}
	// ---- systematic part 4: every registered message type of the catalogue (one or more per module)
	for _, c := range catalogue {
		run(scenario{Msg: "any", TypeURL: c.url, Mode: "direct", Attach: "right", Acct: "new", Strategy: "honest", Follow: "replay"})
		run(scenario{Msg: "any", TypeURL: c.url, Mode: "direct", Attach: "wrong", Acct: "onrecord", Strategy: "attacker-key", Follow: "none"})
		run(scenario{Msg: "any", TypeURL: c.url, Mode: "amino", Attach: "none", Acct: "onrecord", Strategy: "honest", Follow: "replay"})
		run(scenario{Msg: "any", TypeURL: c.url, Mode: "eip712", Attach: "none", Acct: "eth-onrecord", Strategy: "honest", Follow: "resequence"})
		run(scenario{Msg: "any", TypeURL: c.url, Mode: "eip712", Attach: "wrong", Acct: "new", Strategy: "attacker-key", Follow: "none"})
	}
	// ---- systematic part 5: what a signature covers (fee / memo re-wrapped under the same signature)
	for _, md := range []string{"direct", "amino", "eip712", "raw-eth"} {
		for _, ac := range accts {
			m := "bank_send"
			if md == "raw-eth" {
				m = "ethereum_tx"
			}
			run(scenario{Msg: m, Mode: md, Attach: "right", Acct: ac, Strategy: "rewrap-fee", Follow: "replay"})
		}
	}
	// ---- systematic part 5b: the same signature slots around a changed MESSAGE LIST, every signing scheme x account state
	for _, md := range []string{"direct", "amino", "eip712", "raw-eth", "multi-direct"} {
		for _, ac := range acctsAll {
			for _, st := range []string{"rewrap-append", "rewrap-prepend", "rewrap-replace", "rewrap-dup", "rewrap-reorder"} {
				m := "bank_send"
				if md == "raw-eth" {
					m = "ethereum_tx"
				}
				run(scenario{Msg: m, Mode: md, Attach: "right", Acct: ac, Strategy: st, Follow: "replay"})
			}
		}
	}
	// ---- systematic part 5c: the authentication matrix crossed with the chain's mode switches
	for _, env := range []string{"weak", "custody", "execfee", "freeze"} {
		for _, md := range []string{"direct", "amino", "eip712", "raw-eth", "multi-direct"} {
			ac, m := "onrecord", "bank_send"
			switch md {
			case "eip712":
				ac = "eth-onrecord"
			case "raw-eth":
				ac, m = "eth-onrecord", "ethereum_tx"
			case "multi-direct":
				ac = "multisig-onrecord"
			}
			for _, st := range []string{"honest", "attacker-key", "bitflip", "seq-plus", "othermsg", "rewrap-append", "rewrap-fee", "feepayer-unsigned", "eth-forged-sender"} {
				if st == "eth-forged-sender" && md != "raw-eth" {
					continue
				}
				run(scenario{Msg: m, Mode: md, Attach: "none", Acct: ac, Strategy: st, Follow: "replay", Env: env})
				run(scenario{Msg: m, Mode: md, Attach: "wrong", Acct: "new", Strategy: st, Follow: "replay", Env: env})
			}
			run(scenario{Msg: "identity", Mode: md, Attach: "right", Acct: ac, Strategy: "honest", Follow: "next-replay", Env: env})
			run(scenario{Msg: "any", TypeURL: "/kira.gov.MsgVoteProposal", Mode: md, Attach: "wrong", Acct: ac, Strategy: "attacker-key", Follow: "replay", Env: env})
		}
	}
	// ---- systematic part 5d: several signers / separate fee payer / fee granter in every signing scheme, the SECOND
	// account in every state (a key-less or Ethereum-style fee payer goes through the Ethereum path too)
	for _, md := range []string{"direct", "amino", "eip712", "raw-eth", "multi-direct"} {
		for _, bac := range []string{"", "new", "eth-new", "eth-onrecord"} {
			ac, m := "onrecord", "bank_send"
			switch md {
			case "eip712":
				ac = "eth-onrecord"
			case "raw-eth":
				ac, m = "eth-onrecord", "ethereum_tx"
			case "multi-direct":
				ac = "multisig-onrecord"
			}
			fp := "feepayer-unsigned"
			if md == "raw-eth" {
				fp = "eth-feepayer-unsigned"
			}
			for _, st := range []string{"honest", fp, "fee-granter"} {
				run(scenario{Msg: m, Mode: md, Attach: "none", Acct: ac, Strategy: st, Follow: "replay", BAcct: bac})
			}
			if md != "raw-eth" {
				for _, mk := range []string{"fee_payer", "two_signers", "repeat_msgs"} {
					run(scenario{Msg: mk, Mode: md, Attach: "right", Acct: ac, Strategy: "honest", Follow: "replay-weak", BAcct: bac})
					run(scenario{Msg: mk, Mode: md, Attach: "right", Acct: ac, Strategy: "attacker-key", Follow: "replay", BAcct: bac})
				}
			}
			for _, st := range []string{"rewrap-timeout", "accnum-zero", "accnum", "chain", "seq-plus", "signed-seq-plus"} {
				run(scenario{Msg: m, Mode: md, Attach: "right", Acct: ac, Strategy: st, Follow: "replay-weak", BAcct: bac})
			}
		}
	}
	// ---- systematic part 5e: histories that continue after a genesis export / import
	for _, md := range []string{"direct", "amino", "eip712", "raw-eth", "multi-direct"} {
		for _, ac := range acctsAll {
			m := "bank_send"
			if md == "raw-eth" {
				m = "ethereum_tx"
			}
			run(scenario{Msg: m, Mode: md, Attach: "right", Acct: ac, Strategy: "honest", Follow: "export-import"})
		}
	}
	// ---- systematic part 5f: messages that CARRY an inner signed payload (the raw Ethereum transaction of MsgEthereumTx):
	// payload of A (fresh / already accepted) x envelope sender B in every state (cosmos key, multisig?, Ethereum-style,
	// key-less) x how A itself is set up x chain mode
	for _, env := range []string{"", "weak", "execfee"} {
		for _, ac := range []string{"eth-onrecord", "eth-new", "onrecord", "new"} {
			for _, bac := range []string{"", "new", "eth-new", "eth-onrecord"} {
				for _, md := range []string{"raw-eth", "direct"} {
					run(scenario{Msg: "ethereum_tx", Mode: md, Attach: "right", Acct: ac, Strategy: "honest", Follow: "inner-rewrap", BAcct: bac, Env: env})
					run(scenario{Msg: "ethereum_tx", Mode: md, Attach: "right", Acct: ac, Strategy: "inner-fresh-first", Follow: "inner-rewrap", BAcct: bac, Env: env})
				}
			}
		}
	}
	// ---- systematic part 5g: redundant message fields (MsgEthereumTx.Hash) honest / borrowed from an accepted transaction /
	// garbage / empty, on forged and on genuine raw transactions, after a genuine one has been processed
	for _, env := range []string{"", "custody", "execfee"} {
		for _, ac := range []string{"eth-onrecord", "eth-new"} {
			for _, at := range []string{"none", "right", "wrong"} {
				run(scenario{Msg: "ethereum_tx", Mode: "raw-eth", Attach: at, Acct: ac, Strategy: "honest", Follow: "forge-redundant", Env: env})
			}
		}
	}
	// ---- systematic part 6: multisig keys and MultiSignatureData
	for _, md := range []string{"multi-direct", "multi-amino", "direct", "eip712"} {
		for _, ac := range []string{"multisig-new", "multisig-onrecord", "onrecord", "eth-onrecord"} {
			for _, st := range []string{"honest", "multi-one-sig", "attacker-key", "bitflip", "seq-plus", "othermsg", "rewrap-fee"} {
				if st == "multi-one-sig" && !strings.HasPrefix(md, "multi-") {
					continue
				}
				for _, at := range []string{"right", "none"} {
					run(scenario{Msg: "bank_send", Mode: md, Attach: at, Acct: ac, Strategy: st, Follow: "next-replay"})
				}
			}
		}
	}
	// ---- random part: the full product
	for i := 0; i < *n; i++ {
		sc := scenario{Msg: msgsK[r.Intn(len(msgsK))], Mode: modes[r.Intn(len(modes))], Attach: attaches[r.Intn(len(attaches))],
			Acct: acctsAll[r.Intn(len(acctsAll))], Strategy: strategies[r.Intn(len(strategies))], Follow: follows[r.Intn(len(follows))]}
		if r.Chance(3) {
			sc.Acct = "missing"
		}
		if sc.Mode == "eip712" && r.Chance(50) {
			sc.ChainDigest = true
		}
		if r.Chance(30) {
			sc.BAcct = []string{"new", "eth-new", "eth-onrecord"}[r.Intn(3)]
		}
		if r.Chance(45) {
			sc.Env = []string{"weak", "custody", "execfee", "freeze"}[r.Intn(4)]
		}
		if sc.Mode == "raw-eth" {
			sc.Msg = "ethereum_tx"
		}
		if strings.HasPrefix(sc.Strategy, "eth-") {
			sc.Msg = "ethereum_tx"
			if r.Chance(70) {
				sc.Mode = "raw-eth"
			}
		}
		if r.Chance(35) {
			sc.Strategy = "honest"
		}
		run(sc)
	}
	flush()
	// ---- genesis export / import mid-history: sequences, keys and account numbers must survive
	exportImport := "not run"
	if len(deferred) > 0 {
		var state []byte
		pn := hx.Try(func() {
			w.endBlock()
			ex, err := w.app.ExportAppStateAndValidators(false, nil)
			if err != nil {
				panic(err)
			}
			state = ex.AppState
			napp := simapp.NewInitApp(log.NewNopLogger(), dbm.NewMemDB(), nil, true, map[int64]bool{}, simapp.DefaultNodeHome, 5, simapp.MakeEncodingConfig(), simtestutil.EmptyAppOptions{})
			napp.InitChain(abci.RequestInitChain{Validators: []abci.ValidatorUpdate{}, ConsensusParams: simtestutil.DefaultConsensusParams, AppStateBytes: state})
			w.app = napp
			w.height = 0
			w.beginBlock()
		})
		if pn == "" {
			exportImport = fmt.Sprintf("ok: %d bytes of app state, %d histories continued on the imported chain", len(state), len(deferred))
			for _, f := range deferred {
				f()
			}
		} else {
			exportImport = "FAILED: " + short(pn)
			for _, f := range deferredFallback {
				f()
			}
		}
	}
	forgedAccepted, unsignedPayerAccepted := firstAccepted[probe1], firstAccepted[probe2]
	eipBatched, rawBatched := firstAccepted[probe3], firstAccepted[probe4]
	variant := fmt.Sprintf("(mkVariant %s %s %s %s)", hx.B(!forgedAccepted), hx.B(!unsignedPayerAccepted), hx.B(!eipBatched), hx.B(!rawBatched))

	pre := "(* written by /verif/harness/cmd/c02 -- observations of the real application (ABCI CheckTx / DeliverTx) *)\n" +
		"From Sekai Require Import Base.Prelude Model.Auth Model.C02Check.\n" +
		"Definition code_variant : variant := " + variant + ".\n"
	out.WriteFile("pre.v", pre)
	out.WriteFile("cases.txt", strings.Join(coq, "\n")+"\n")
	out.WriteJSON("meta.json", map[string]string{"case_type": "c02_case", "mismatch_fn": "c02_mismatches code_variant", "violation_fn": "c02_violations"})
	out.WriteJSON("cases.json", js)
	out.WriteJSON("dist.json", map[string]interface{}{"seed": seed, "histories": len(js), "by": dist, "export_import": exportImport, "message_types_used": len(catalogue), "message_types_skipped": catalogueSkipped, "code_variant": map[string]bool{"raw_eth_sender_checked": !forgedAccepted, "eth_path_continues_with_remaining_signers": !unsignedPayerAccepted,
		"eip712_single_message_rule": !eipBatched, "raw_eth_single_message_rule": !rawBatched}})
	fmt.Fprintf(os.Stderr, "c02: %d histories\n", len(js))
}
