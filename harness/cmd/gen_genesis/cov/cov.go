// Package cov extracts, purely syntactically (go/parser + go/ast), for every module under
// <repo>/x: the store-key prefixes it declares (types/keys.go, keeper/*.go), and which of them are
// touched by functions reachable from AppModule.ExportGenesis (through store reads) and from
// AppModule.InitGenesis (through store writes).  Shared by the translator gen_genesis (emits
// coq/Gen/GenesisCoverage.v) and by the harness c12 (classifies raw store keys by prefix).
//
// Fragment (anything else is reported in Errors, "fail loudly"):
//   - a prefix is a package-level `var`/`const` of the module's `types` or `keeper` package whose
//     name contains "Key" or "Prefix" and whose value is `[]byte{..}`, `[]byte("..")` or a string literal;
//   - a function "reads" if its body calls .Get/.Has/.Iterator/.ReverseIterator/KVStorePrefixIterator/
//     KVStoreReversePrefixIterator, "writes" if it calls .Set/.Delete on anything;
//   - a function with neither is a pure helper: the prefixes it mentions belong to its callers;
//   - calls are resolved by bare name inside the module's own three packages (x/M, x/M/keeper,
//     x/M/types); calls through other modules' keepers are not followed.
package cov

import (
	"encoding/hex"
	"fmt"
	"go/ast"
	"go/parser"
	"go/token"
	"os"
	"path/filepath"
	"sort"
	"strconv"
	"strings"
)

type Class struct {
	Module   string // directory name under x/
	Store    string // store key name (ModuleName / StoreKey value)
	Name     string // identifier of the prefix
	Bytes    []byte
	Exported bool
	Imported bool
	Used     bool // mentioned by some keeper function with a store operation
}

func (c Class) Hex() string { return hex.EncodeToString(c.Bytes) }

type Result struct {
	Classes []Class
	Errors  []string
	Modules []string
	// ExportFns / ImportFns: keeper functions reached (for the report)
	ExportFns map[string][]string
	ImportFns map[string][]string
	// ImportCalls: every function of the module visited from AppModule.InitGenesis (with or without store operation)
	ImportCalls map[string][]string
	// NilMapWrites: "module.Function" of functions on the export path that declare `var m map[..]..`
	// without initialiser and later assign m[k] = v (a panic as soon as the statement executes)
	NilMapWrites []string
}

var skipNames = map[string]bool{"ModuleName": true, "RouterKey": true, "QuerierRoute": true, "StoreKey": true, "MemStoreKey": true, "TStoreKey": true}

// modules whose store is not one of the application's KV stores, or that have no state
var skipModules = map[string]bool{"genutil": true}

// store-key constants of other packages used directly on a module's store (import path + "." + name)
type foreignClass struct {
	name  string
	bytes []byte
}

var knownForeign = map[string]foreignClass{
	// x/distributor/keeper/distributor.go imports the SDK's distribution types as `types`
	"github.com/cosmos/cosmos-sdk/x/distribution/types.ProposerKey": {"sdkdistribution.ProposerKey", []byte{0x01}},
}

type fn struct {
	name     string
	recv     string
	pkg      string // "top", "keeper", "types"
	body     *ast.BlockStmt
	reads    bool
	writes   bool
	mentions map[string]bool // prefix names mentioned directly
	calls    []string        // bare names called
}

func byteLit(e ast.Expr) ([]byte, bool) {
	switch x := e.(type) {
	case *ast.BasicLit:
		if x.Kind == token.STRING {
			s, err := strconv.Unquote(x.Value)
			if err == nil {
				return []byte(s), true
			}
		}
	case *ast.CompositeLit:
		at, ok := x.Type.(*ast.ArrayType)
		if !ok || at.Len != nil {
			return nil, false
		}
		if id, ok := at.Elt.(*ast.Ident); !ok || id.Name != "byte" {
			return nil, false
		}
		var out []byte
		for _, el := range x.Elts {
			bl, ok := el.(*ast.BasicLit)
			if !ok {
				return nil, false
			}
			v, err := strconv.ParseUint(bl.Value, 0, 8)
			if err != nil {
				return nil, false
			}
			out = append(out, byte(v))
		}
		return out, true
	case *ast.CallExpr: // []byte("...")
		at, ok := x.Fun.(*ast.ArrayType)
		if !ok || len(x.Args) != 1 {
			return nil, false
		}
		if id, ok := at.Elt.(*ast.Ident); !ok || id.Name != "byte" {
			return nil, false
		}
		return byteLit(x.Args[0])
	}
	return nil, false
}

func calleeName(c *ast.CallExpr) (name string, selector bool) {
	switch f := c.Fun.(type) {
	case *ast.Ident:
		return f.Name, false
	case *ast.SelectorExpr:
		return f.Sel.Name, true
	}
	return "", false
}

var readOps = map[string]bool{"Get": true, "Has": true, "Iterator": true, "ReverseIterator": true, "KVStorePrefixIterator": true, "KVStoreReversePrefixIterator": true}
var writeOps = map[string]bool{"Set": true, "Delete": true}

func Analyze(repo string) (*Result, error) {
	res := &Result{ExportFns: map[string][]string{}, ImportFns: map[string][]string{}, ImportCalls: map[string][]string{}}
	ents, err := os.ReadDir(filepath.Join(repo, "x"))
	if err != nil {
		return nil, err
	}
	for _, e := range ents {
		if !e.IsDir() || skipModules[e.Name()] {
			continue
		}
		res.Modules = append(res.Modules, e.Name())
		analyzeModule(repo, e.Name(), res)
	}
	sort.SliceStable(res.Classes, func(i, j int) bool {
		if res.Classes[i].Module != res.Classes[j].Module {
			return res.Classes[i].Module < res.Classes[j].Module
		}
		return res.Classes[i].Name < res.Classes[j].Name
	})
	return res, nil
}

func parseDir(fset *token.FileSet, dir string) []*ast.File {
	var out []*ast.File
	ents, err := os.ReadDir(dir)
	if err != nil {
		return nil
	}
	for _, e := range ents {
		n := e.Name()
		if e.IsDir() || !strings.HasSuffix(n, ".go") || strings.HasSuffix(n, "_test.go") || strings.HasSuffix(n, ".pb.go") || strings.HasSuffix(n, ".pb.gw.go") {
			continue
		}
		f, err := parser.ParseFile(fset, filepath.Join(dir, n), nil, 0)
		if err != nil {
			continue
		}
		out = append(out, f)
	}
	return out
}

func analyzeModule(repo, mod string, res *Result) {
	fset := token.NewFileSet()
	base := filepath.Join(repo, "x", mod)
	pk := map[string][]*ast.File{"top": parseDir(fset, base), "keeper": parseDir(fset, filepath.Join(base, "keeper")), "types": parseDir(fset, filepath.Join(base, "types"))}
	errf := func(format string, a ...interface{}) { res.Errors = append(res.Errors, mod+": "+fmt.Sprintf(format, a...)) }

	// ---- constants: ModuleName / StoreKey and prefixes
	strConsts := map[string]string{}
	type pdecl struct {
		name string
		b    []byte
	}
	var prefixes []pdecl
	for _, kind := range []string{"types", "keeper"} {
		for _, f := range pk[kind] {
			fname := filepath.Base(fset.Position(f.Pos()).Filename)
			for _, d := range f.Decls {
				gd, ok := d.(*ast.GenDecl)
				if !ok || (gd.Tok != token.VAR && gd.Tok != token.CONST) {
					continue
				}
				for _, sp := range gd.Specs {
					vs := sp.(*ast.ValueSpec)
					for i, id := range vs.Names {
						if i >= len(vs.Values) {
							continue
						}
						if bl, ok := vs.Values[i].(*ast.BasicLit); ok && bl.Kind == token.STRING {
							s, _ := strconv.Unquote(bl.Value)
							strConsts[id.Name] = s
						}
						if idv, ok := vs.Values[i].(*ast.Ident); ok { // StoreKey = ModuleName
							if s, ok := strConsts[idv.Name]; ok {
								strConsts[id.Name] = s
							}
						}
						if skipNames[id.Name] || fname == "params.go" || fname == "errors.go" || fname == "events.go" || fname == "codec.go" {
							continue
						}
						if !(strings.Contains(id.Name, "Key") || strings.Contains(id.Name, "Prefix") || strings.Contains(id.Name, "Registry") || strings.Contains(id.Name, "Queue") || strings.Contains(id.Name, "Info")) {
							continue
						}
						_, isStr := vs.Values[i].(*ast.BasicLit)
						if isStr && !(strings.Contains(id.Name, "Prefix") || strings.HasPrefix(id.Name, "Key")) {
							continue
						}
						if b, ok := byteLit(vs.Values[i]); ok && len(b) > 0 {
							prefixes = append(prefixes, pdecl{id.Name, b})
						}
					}
				}
			}
		}
	}
	store := strConsts["StoreKey"]
	if store == "" {
		store = strConsts["ModuleName"]
	}
	if store == "" {
		errf("no ModuleName/StoreKey constant found")
		return
	}
	isPrefix := map[string]bool{}
	for _, p := range prefixes {
		if isPrefix[p.name] {
			errf("prefix %s declared twice", p.name)
		}
		isPrefix[p.name] = true
	}
	// two different identifiers with the same bytes would make classification ambiguous
	seenBytes := map[string]string{}
	for _, p := range prefixes {
		if o, ok := seenBytes[string(p.b)]; ok {
			errf("prefixes %s and %s have the same bytes", o, p.name)
		}
		seenBytes[string(p.b)] = p.name
	}

	// ---- functions
	modPath := "github.com/KiraCore/sekai/x/" + mod
	foreignUsed := map[string]foreignClass{}
	fns := map[string][]*fn{}
	var appInit, appExport *fn
	for kind, files := range pk {
		for _, f := range files {
			imports := map[string]string{}
			for _, im := range f.Imports {
				path, _ := strconv.Unquote(im.Path.Value)
				alias := path[strings.LastIndex(path, "/")+1:]
				if im.Name != nil {
					alias = im.Name.Name
				}
				imports[alias] = path
			}
			for _, d := range f.Decls {
				fd, ok := d.(*ast.FuncDecl)
				if !ok || fd.Body == nil {
					continue
				}
				x := &fn{name: fd.Name.Name, pkg: kind, body: fd.Body, mentions: map[string]bool{}}
				if fd.Recv != nil && len(fd.Recv.List) == 1 {
					t := fd.Recv.List[0].Type
					if st, ok := t.(*ast.StarExpr); ok {
						t = st.X
					}
					if id, ok := t.(*ast.Ident); ok {
						x.recv = id.Name
					}
				}
				ast.Inspect(fd.Body, func(n ast.Node) bool {
					switch y := n.(type) {
					case *ast.SelectorExpr:
						// pkg.Name where pkg is an import of this file: the name belongs to the module only
						// if the import is one of the module's own packages
						if id, ok := y.X.(*ast.Ident); ok {
							if path, isImp := imports[id.Name]; isImp {
								if strings.HasPrefix(path, modPath) {
									if isPrefix[y.Sel.Name] {
										x.mentions[y.Sel.Name] = true
									}
								} else if fc, ok := knownForeign[path+"."+y.Sel.Name]; ok {
									x.mentions[fc.name] = true
									foreignUsed[fc.name] = fc
								}
								return false
							}
						}
					case *ast.Ident:
						if isPrefix[y.Name] {
							x.mentions[y.Name] = true
						}
					case *ast.CallExpr:
						nm, sel := calleeName(y)
						if nm != "" {
							if sel && readOps[nm] || !sel && (nm == "KVStorePrefixIterator") {
								x.reads = true
							}
							if sel && writeOps[nm] {
								x.writes = true
							}
							x.calls = append(x.calls, nm)
						}
					}
					return true
				})
				if kind == "top" && x.recv == "AppModule" && x.name == "InitGenesis" {
					appInit = x
					continue
				}
				if kind == "top" && x.recv == "AppModule" && x.name == "ExportGenesis" {
					appExport = x
					continue
				}
				if kind == "top" && x.recv != "" {
					continue // other AppModule / handler methods are not genesis code
				}
				fns[x.name] = append(fns[x.name], x)
			}
		}
	}
	if appInit == nil || appExport == nil {
		errf("AppModule.InitGenesis / ExportGenesis not found")
		return
	}

	// closure: set of prefixes touched with the wanted kind of store operation
	var reached []string
	type memoT struct {
		done bool
		pure map[string]bool
	}
	var walk func(f *fn, want string, memo map[*fn]*memoT, acc map[string]bool) map[string]bool
	walk = func(f *fn, want string, memo map[*fn]*memoT, acc map[string]bool) map[string]bool {
		// returns the prefixes this function contributes to its caller when it is a pure helper
		if m, ok := memo[f]; ok {
			return m.pure // nil while in progress (recursion)
		}
		m := &memoT{}
		memo[f] = m
		mine := map[string]bool{}
		for p := range f.mentions {
			mine[p] = true
		}
		for _, c := range f.calls {
			for _, g := range fns[c] {
				if g == f {
					continue
				}
				for p := range walk(g, want, memo, acc) {
					mine[p] = true
				}
			}
		}
		m.done = true
		op := (want == "read" && f.reads) || (want == "write" && f.writes)
		if op {
			for p := range mine {
				acc[p] = true
			}
			if f.pkg == "keeper" {
				reached = append(reached, f.name)
			}
			return nil
		}
		if !f.reads && !f.writes {
			m.pure = mine // pure helper
			return mine
		}
		return nil
	}
	exp := map[string]bool{}
	reached = nil
	expMemo := map[*fn]*memoT{}
	walk(appExport, "read", expMemo, exp)
	res.ExportFns[mod] = uniq(reached)
	for f := range expMemo {
		if nilMapWrite(f.body) {
			res.NilMapWrites = append(res.NilMapWrites, mod+"."+f.name)
		}
	}
	sort.Strings(res.NilMapWrites)
	imp := map[string]bool{}
	reached = nil
	impMemo := map[*fn]*memoT{}
	walk(appInit, "write", impMemo, imp)
	res.ImportFns[mod] = uniq(reached)
	var visited []string
	for f := range impMemo {
		if f != appInit {
			visited = append(visited, f.name)
		}
	}
	res.ImportCalls[mod] = uniq(visited)

	// used: mentioned (directly or through pure helpers) by any keeper function with a store op
	used := map[string]bool{}
	for _, l := range fns {
		for _, f := range l {
			if f.pkg != "keeper" {
				continue
			}
			walk(f, "read", map[*fn]*memoT{}, used)
			walk(f, "write", map[*fn]*memoT{}, used)
		}
	}
	for _, fc := range foreignUsed {
		prefixes = append(prefixes, pdecl{fc.name, fc.bytes})
	}
	for _, p := range prefixes {
		res.Classes = append(res.Classes, Class{Module: mod, Store: store, Name: p.name, Bytes: p.b, Exported: exp[p.name], Imported: imp[p.name], Used: used[p.name]})
	}
}

// nilMapWrite: `var m map[K]V` (no initialiser), no later `m = ...`, and an assignment `m[k] = v`.
func nilMapWrite(body *ast.BlockStmt) bool {
	nilMaps := map[string]bool{}
	bad := false
	ast.Inspect(body, func(n ast.Node) bool {
		switch y := n.(type) {
		case *ast.DeclStmt:
			if gd, ok := y.Decl.(*ast.GenDecl); ok && gd.Tok == token.VAR {
				for _, sp := range gd.Specs {
					vs := sp.(*ast.ValueSpec)
					if _, isMap := vs.Type.(*ast.MapType); isMap && len(vs.Values) == 0 {
						for _, id := range vs.Names {
							nilMaps[id.Name] = true
						}
					}
				}
			}
		case *ast.AssignStmt:
			for _, l := range y.Lhs {
				if id, ok := l.(*ast.Ident); ok {
					delete(nilMaps, id.Name) // re-assigned (e.g. m = make(...))
				}
				if ix, ok := l.(*ast.IndexExpr); ok {
					if id, ok := ix.X.(*ast.Ident); ok && nilMaps[id.Name] {
						bad = true
					}
				}
			}
		}
		return true
	})
	return bad
}

func uniq(xs []string) []string {
	m := map[string]bool{}
	var out []string
	for _, x := range xs {
		if !m[x] {
			m[x] = true
			out = append(out, x)
		}
	}
	sort.Strings(out)
	return out
}

// Classify returns the class name of a raw key of the given store: the longest declared prefix
// of that store that is a prefix of key, or "?<first byte hex>" when none matches.
func (r *Result) Classify(store string, key []byte) string {
	best := -1
	name := ""
	for _, c := range r.Classes {
		if c.Store != store || len(c.Bytes) > len(key) {
			continue
		}
		if string(key[:len(c.Bytes)]) == string(c.Bytes) && len(c.Bytes) > best {
			best = len(c.Bytes)
			name = c.Name
		}
	}
	if best < 0 {
		if len(key) == 0 {
			return "?empty"
		}
		return "?" + hex.EncodeToString(key[:1])
	}
	return name
}

// ---------------------------------------------------------------- same-type field pairs of GenesisState

// Pair: two fields of one module's GenesisState with the same Go type (snapshot pairs, counter pairs,
// lists of the same record type ...): an export / import that swaps them, or copies one into the other,
// is invisible unless the two hold different values.
type Pair struct {
	Module string // directory under x/
	Key    string // key of the module in the app state (ModuleName)
	A, B   string // JSON field names
	Type   string
}

func GenesisPairs(repo string) ([]Pair, error) {
	ents, err := os.ReadDir(filepath.Join(repo, "x"))
	if err != nil {
		return nil, err
	}
	var out []Pair
	for _, e := range ents {
		if !e.IsDir() || skipModules[e.Name()] {
			continue
		}
		mod := e.Name()
		fset := token.NewFileSet()
		f, err := parser.ParseFile(fset, filepath.Join(repo, "x", mod, "types", "genesis.pb.go"), nil, 0)
		if err != nil {
			continue // module without a protobuf genesis state
		}
		key := moduleKey(repo, mod)
		type fld struct{ json, typ string }
		var flds []fld
		ast.Inspect(f, func(n ast.Node) bool {
			ts, ok := n.(*ast.TypeSpec)
			if !ok || ts.Name.Name != "GenesisState" {
				return true
			}
			st, ok := ts.Type.(*ast.StructType)
			if !ok {
				return false
			}
			for _, fl := range st.Fields.List {
				if fl.Tag == nil || len(fl.Names) != 1 {
					continue
				}
				tag, _ := strconv.Unquote(fl.Tag.Value)
				j := ""
				if i := strings.Index(tag, `json:"`); i >= 0 {
					j = tag[i+6:]
					j = j[:strings.IndexAny(j, `,"`)]
				}
				if j == "" || j == "-" {
					continue
				}
				flds = append(flds, fld{j, exprString(fl.Type)})
			}
			return false
		})
		for i := 0; i < len(flds); i++ {
			for k := i + 1; k < len(flds); k++ {
				if flds[i].typ == flds[k].typ {
					out = append(out, Pair{mod, key, flds[i].json, flds[k].json, flds[i].typ})
				}
			}
		}
	}
	return out, nil
}

func exprString(e ast.Expr) string {
	switch x := e.(type) {
	case *ast.Ident:
		return x.Name
	case *ast.StarExpr:
		return "*" + exprString(x.X)
	case *ast.ArrayType:
		return "[]" + exprString(x.Elt)
	case *ast.SelectorExpr:
		return exprString(x.X) + "." + x.Sel.Name
	case *ast.MapType:
		return "map[" + exprString(x.Key) + "]" + exprString(x.Value)
	}
	return fmt.Sprintf("%T", e)
}

// moduleKey: the ModuleName constant of x/<mod>/types (the key of the module in the app state)
func moduleKey(repo, mod string) string {
	fset := token.NewFileSet()
	for _, f := range parseDir(fset, filepath.Join(repo, "x", mod, "types")) {
		for _, d := range f.Decls {
			gd, ok := d.(*ast.GenDecl)
			if !ok {
				continue
			}
			for _, sp := range gd.Specs {
				vs, ok := sp.(*ast.ValueSpec)
				if !ok {
					continue
				}
				for i, id := range vs.Names {
					if id.Name == "ModuleName" && i < len(vs.Values) {
						if bl, ok := vs.Values[i].(*ast.BasicLit); ok {
							s, _ := strconv.Unquote(bl.Value)
							return s
						}
					}
				}
			}
		}
	}
	return mod
}
