// gen_genesis: translator for C12.  Reads /repo/x/*/{module.go,genesis.go,keeper/*.go,types/*.go}
// (go/ast, see package cov for the fragment) and /repo/app/app.go (SetOrderInitGenesis) and emits
// coq/Gen/GenesisCoverage.v: the table of store classes (module, store, prefix identifier, prefix
// bytes, read by ExportGenesis, written by InitGenesis, used by the keeper) and the genesis
// initialisation order.
package main

import (
	"crypto/sha256"
	"encoding/hex"
	"flag"
	"fmt"
	"go/ast"
	"go/parser"
	"go/printer"
	"go/token"
	"os"
	"path/filepath"
	"sort"
	"strconv"
	"strings"

	"verif/harness/cmd/gen_genesis/cov"
)

func coqStr(s string) string { return "\"" + strings.ReplaceAll(s, "\"", "\"\"") + "\"" }
func coqBool(b bool) string {
	if b {
		return "true"
	}
	return "false"
}

// initOrder extracts the selector names of the arguments of app.mm.SetOrderInitGenesis(...)
// and resolves each `<pkg>types.ModuleName` to the directory-independent import alias.
func initOrder(repo string) ([]string, error) {
	fset := token.NewFileSet()
	f, err := parser.ParseFile(fset, filepath.Join(repo, "app", "app.go"), nil, 0)
	if err != nil {
		return nil, err
	}
	var out []string
	found := 0
	ast.Inspect(f, func(n ast.Node) bool {
		c, ok := n.(*ast.CallExpr)
		if !ok {
			return true
		}
		s, ok := c.Fun.(*ast.SelectorExpr)
		if !ok || s.Sel.Name != "SetOrderInitGenesis" {
			return true
		}
		found++
		for _, a := range c.Args {
			se, ok := a.(*ast.SelectorExpr)
			if !ok {
				out = append(out, "?")
				continue
			}
			if id, ok := se.X.(*ast.Ident); ok {
				out = append(out, strings.TrimSuffix(id.Name, "types"))
			} else {
				out = append(out, "?")
			}
		}
		return true
	})
	if found != 1 {
		return nil, fmt.Errorf("expected exactly one SetOrderInitGenesis call, found %d", found)
	}
	return out, nil
}

// upgradeVersions: the value of the Version field in the composite literal built by
// x/upgrade AppModule.ExportGenesis ("" when it is not a string literal, e.g. sekaitypes.SekaiVersion,
// reported as lit=false) and the SekaiVersion constant InitGenesis compares it with.
func upgradeVersions(repo string) (exported string, lit bool, sekai string, err error) {
	fset := token.NewFileSet()
	f, e := parser.ParseFile(fset, filepath.Join(repo, "x", "upgrade", "module.go"), nil, 0)
	if e != nil {
		return "", false, "", e
	}
	found := 0
	for _, d := range f.Decls {
		fd, ok := d.(*ast.FuncDecl)
		if !ok || fd.Name.Name != "ExportGenesis" || fd.Recv == nil || fd.Body == nil {
			continue
		}
		ast.Inspect(fd.Body, func(n ast.Node) bool {
			kv, ok := n.(*ast.KeyValueExpr)
			if !ok {
				return true
			}
			if id, ok := kv.Key.(*ast.Ident); ok && id.Name == "Version" {
				found++
				switch v := kv.Value.(type) {
				case *ast.BasicLit:
					exported, _ = strconv.Unquote(v.Value)
					lit = true
				case *ast.SelectorExpr:
					if v.Sel.Name != "SekaiVersion" {
						err = fmt.Errorf("x/upgrade ExportGenesis: Version is %s, outside the fragment", v.Sel.Name)
					}
				default:
					err = fmt.Errorf("x/upgrade ExportGenesis: Version expression outside the fragment")
				}
			}
			return true
		})
	}
	if found != 1 && err == nil {
		err = fmt.Errorf("x/upgrade ExportGenesis: expected one Version field, found %d", found)
	}
	g, e := parser.ParseFile(fset, filepath.Join(repo, "types", "constants.go"), nil, 0)
	if e != nil {
		return exported, lit, "", e
	}
	ast.Inspect(g, func(n ast.Node) bool {
		vs, ok := n.(*ast.ValueSpec)
		if !ok {
			return true
		}
		for i, id := range vs.Names {
			if id.Name == "SekaiVersion" && i < len(vs.Values) {
				if bl, ok := vs.Values[i].(*ast.BasicLit); ok {
					sekai, _ = strconv.Unquote(bl.Value)
				}
			}
		}
		return true
	})
	if sekai == "" && err == nil {
		err = fmt.Errorf("types/constants.go: SekaiVersion literal not found")
	}
	return
}

// genesisFingerprints: sha256 of the printed source of every Init/ExportGenesis function (AppModule methods
// and package-level functions) of each module, so that the check can tell that audited genesis code changed.
func genesisFingerprints(repo string, mods []string) map[string]string {
	out := map[string]string{}
	for _, mod := range mods {
		fset := token.NewFileSet()
		pkgs, err := parser.ParseDir(fset, filepath.Join(repo, "x", mod), func(fi os.FileInfo) bool { return !strings.HasSuffix(fi.Name(), "_test.go") }, 0)
		if err != nil {
			continue
		}
		var parts []string
		for _, pkg := range pkgs {
			for _, f := range pkg.Files {
				for _, d := range f.Decls {
					fd, ok := d.(*ast.FuncDecl)
					if !ok || (fd.Name.Name != "InitGenesis" && fd.Name.Name != "ExportGenesis") {
						continue
					}
					var b strings.Builder
					printer.Fprint(&b, fset, fd)
					parts = append(parts, b.String())
				}
			}
		}
		sort.Strings(parts)
		h := sha256.Sum256([]byte(strings.Join(parts, "\n")))
		out[mod] = hex.EncodeToString(h[:8])
	}
	return out
}

func main() {
	repo := flag.String("repo", "/repo", "repository root")
	out := flag.String("out", "", "output .v file")
	flag.Parse()
	r, err := cov.Analyze(*repo)
	if err != nil {
		fmt.Fprintln(os.Stderr, "gen_genesis:", err)
		os.Exit(2)
	}
	order, err := initOrder(*repo)
	if err != nil {
		r.Errors = append(r.Errors, err.Error())
	}
	for _, o := range order {
		if o == "?" {
			r.Errors = append(r.Errors, "SetOrderInitGenesis argument outside the fragment (not <pkg>.ModuleName)")
		}
	}
	expV, expLit, sekaiV, verr := upgradeVersions(*repo)
	if verr != nil {
		r.Errors = append(r.Errors, verr.Error())
	}
	var b strings.Builder
	b.WriteString("(* GENERATED by harness/cmd/gen_genesis from the working tree of the repository -- do not edit. *)\n")
	b.WriteString("From Coq Require Import String List Bool.\nImport ListNotations.\nOpen Scope string_scope.\n\n")
	b.WriteString("Record cls := mkCls { c_module : string; c_store : string; c_name : string; c_hex : string;\n  c_exported : bool; c_imported : bool; c_used : bool }.\n\n")
	b.WriteString("Definition classes : list cls := [\n")
	for i, c := range r.Classes {
		sep := ";"
		if i == len(r.Classes)-1 {
			sep = ""
		}
		fmt.Fprintf(&b, "  mkCls %s %s %s %s %s %s %s%s\n", coqStr(c.Module), coqStr(c.Store), coqStr(c.Name), coqStr(c.Hex()), coqBool(c.Exported), coqBool(c.Imported), coqBool(c.Used), sep)
	}
	b.WriteString("].\n\n")
	b.WriteString("Definition modules : list string := [" + joinStr(r.Modules) + "].\n\n")
	b.WriteString("(* app/app.go SetOrderInitGenesis, import aliases with the `types` suffix removed *)\n")
	b.WriteString("Definition init_order : list string := [" + joinStr(order) + "].\n\n")
	b.WriteString("(* x/upgrade: version string written by ExportGenesis (None: the SekaiVersion constant itself) and the\n   constant InitGenesis insists on *)\n")
	if expLit {
		b.WriteString("Definition upgrade_exported_version : option string := Some " + coqStr(expV) + ".\n")
	} else {
		b.WriteString("Definition upgrade_exported_version : option string := None.\n")
	}
	b.WriteString("Definition sekai_version : string := " + coqStr(sekaiV) + ".\n\n")
	b.WriteString("(* functions of each module visited from AppModule.InitGenesis *)\nDefinition import_calls : list (string * list string) := [\n")
	for i, m := range r.Modules {
		sep := ";"
		if i == len(r.Modules)-1 {
			sep = ""
		}
		b.WriteString("  (" + coqStr(m) + ", [" + joinStr(r.ImportCalls[m]) + "])" + sep + "\n")
	}
	b.WriteString("].\n\n")
	pairs, perr := cov.GenesisPairs(*repo)
	if perr != nil {
		r.Errors = append(r.Errors, perr.Error())
	}
	b.WriteString("(* pairs of GenesisState fields of the same Go type: (app-state key, field, field, type) *)\nDefinition same_type_pairs : list (string * string * string * string) := [\n")
	for i, p := range pairs {
		sep := ";"
		if i == len(pairs)-1 {
			sep = ""
		}
		b.WriteString("  (" + coqStr(p.Key) + ", " + coqStr(p.A) + ", " + coqStr(p.B) + ", " + coqStr(p.Type) + ")" + sep + "\n")
	}
	b.WriteString("].\n\n")
	fps := genesisFingerprints(*repo, r.Modules)
	b.WriteString("(* sha256 (first 8 bytes) of the Init/ExportGenesis functions of each module *)\nDefinition genesis_fingerprints : list (string * string) := [\n")
	for i, m := range r.Modules {
		sep := ";"
		if i == len(r.Modules)-1 {
			sep = ""
		}
		b.WriteString("  (" + coqStr(m) + ", " + coqStr(fps[m]) + ")" + sep + "\n")
	}
	b.WriteString("].\n\n")
	b.WriteString("(* functions on an ExportGenesis path that write into a map declared without initialiser *)\n")
	b.WriteString("Definition export_nil_map_writes : list string := [" + joinStr(r.NilMapWrites) + "].\n\n")
	b.WriteString("Definition gen_errors : list string := [" + joinStr(r.Errors) + "].\n")
	if *out == "" {
		fmt.Print(b.String())
	} else if err := os.WriteFile(*out, []byte(b.String()), 0o644); err != nil {
		fmt.Fprintln(os.Stderr, err)
		os.Exit(2)
	}
	if len(r.Errors) > 0 {
		fmt.Fprintln(os.Stderr, "gen_genesis: outside the fragment:", strings.Join(r.Errors, "; "))
		os.Exit(1)
	}
	fmt.Printf("gen_genesis: %d classes in %d modules, init order of %d modules\n", len(r.Classes), len(r.Modules), len(order))
}

func joinStr(xs []string) string {
	var q []string
	for _, x := range xs {
		q = append(q, coqStr(x))
	}
	return strings.Join(q, "; ")
}
