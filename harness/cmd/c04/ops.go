package main

import (
	"sort"
	"crypto/sha256"
	"encoding/hex"
	"fmt"
	"os"
	"time"

	"verif/harness/abci"
	"verif/harness/hx"

	baskettypes "github.com/KiraCore/sekai/x/basket/types"
	collectivestypes "github.com/KiraCore/sekai/x/collectives/types"
	govtypes "github.com/KiraCore/sekai/x/gov/types"
	l2types "github.com/KiraCore/sekai/x/layer2/types"
	mstypes "github.com/KiraCore/sekai/x/multistaking/types"
	recoverytypes "github.com/KiraCore/sekai/x/recovery/types"
	spendingtypes "github.com/KiraCore/sekai/x/spending/types"
	tokenstypes "github.com/KiraCore/sekai/x/tokens/types"
	ubitypes "github.com/KiraCore/sekai/x/ubi/types"
	tmproto "github.com/cometbft/cometbft/proto/tendermint/types"
	"github.com/cosmos/cosmos-sdk/crypto/keys/secp256k1"
	sdk "github.com/cosmos/cosmos-sdk/types"
	authtypes "github.com/cosmos/cosmos-sdk/x/auth/types"
	banktypes "github.com/cosmos/cosmos-sdk/x/bank/types"
)

func secs(n int64) time.Duration { return time.Duration(n) * time.Second }

func coin(d string, x int64) sdk.Coin   { return sdk.NewInt64Coin(d, x) }
func coins(d string, x int64) sdk.Coins { return sdk.NewCoins(coin(d, x)) }

const NACC = 6

var natives = []string{"ukex", "ubtc", "xeth", "frozen"}
var stakable = []string{"ukex", "ubtc"}

func newEnv(seed uint64, dist hx.Counter) *env { return newEnvN(seed, dist, NACC, 2) }

// a chain with nAcc funded accounts and nVal validators (validator i is owned by account i)
func newEnvN(seed uint64, dist hx.Counter, nAcc, nVal int) *env {
	e := &env{r: hx.NewRng(seed), acc: map[string]int64{}, accName: map[int64]string{}, den: map[string]int64{}, denName: map[int64]string{},
		spools: map[string]int64{}, dapps: map[string]int64{}, colls: map[string]int64{}, recs: map[string]int64{}, dist: dist,
		shareSet: map[int64][2]int64{}, bk: 1, coll: "coll1", dapp: "dapp1", rr: "rr/node1", again: map[string]func(){}}
	// the default UBI record alone exceeds the default hard cap, so no UBI proposal could pass: the cap is raised in the genesis
	e.c = abci.NewChain(abci.Config{Accounts: nAcc, Validators: nVal, Seed: 7, Gov: func(g *govtypes.GenesisState) { g.NetworkProperties.UbiHardcap = 60_000_000 }})
	for name, id := range moduleIDs {
		a := authtypes.NewModuleAddress(name).String()
		e.acc[a] = id
		e.accName[id] = name
	}
	for i, a := range e.c.Accounts {
		e.acc[a.Addr.String()] = 100 + int64(i)
		e.accName[100+int64(i)] = a.Name
	}
	for i, d := range natives {
		e.den[d] = int64(i)
		e.denName[int64(i)] = d
	}
	e.nNative = int64(len(natives) - 1)
	e.valPool = make([]uint64, 2)
	for _, v := range e.c.Validators {
		e.valAddr = append(e.valAddr, v.ValAddr.String())
	}
	for i := 1; i < NACC; i++ {
		e.live = append(e.live, i)
	}
	return e
}


func (e *env) addr(i int) string        { return e.c.Accounts[i].Addr.String() }
func (e *env) accAddr(i int) sdk.AccAddress { return e.c.Accounts[i].Addr }
func (e *env) valStr(v int) string      { return e.valAddr[v] }

func (e *env) poolOf(v int) (mstypes.StakingPool, bool) {
	return e.c.App.MultiStakingKeeper.GetStakingPoolByValidator(e.ctx(), e.valStr(v))
}

// ---------------------------------------------------------------- setup (block 1)
func (e *env) setup() {
	app := e.c.App
	// block 1 starts on the genesis state (nothing is allocated at height 1): the first observation is the genesis
	e.beginBlock(5, 0, false)
	e.prev = e.snap()
	e.init = e.prev
	for v := 0; v < 2; v++ {
		e.tx("setup", v, []sdk.Msg{mstypes.NewMsgUpsertStakingPool(e.addr(v), e.valStr(v), true, sdk.NewDecWithPrec(10, 2))}, nil, map[string]interface{}{"what": "staking pool", "validator": v})
	}
	big := sdk.NewInt(1_000_000_000_000)
	e.direct("setup", func(ctx sdk.Context) error {
		return app.BasketKeeper.CreateBasket(ctx, baskettypes.Basket{Id: 1, Suffix: "usd", Description: "c04", Amount: sdk.ZeroInt(),
			SwapFee: sdk.NewDecWithPrec(1, 2), SlipppageFeeMin: sdk.NewDecWithPrec(1, 2), TokensCap: sdk.OneDec(), LimitsPeriod: 3600,
			MintsMin: sdk.OneInt(), MintsMax: big, BurnsMin: sdk.OneInt(), BurnsMax: big, SwapsMin: sdk.OneInt(), SwapsMax: big, Surplus: []sdk.Coin{},
			Tokens: []baskettypes.BasketToken{
				{Denom: "ubtc", Weight: sdk.NewDec(2), Amount: sdk.ZeroInt(), Deposits: true, Withdraws: true, Swaps: true},
				{Denom: "xeth", Weight: sdk.NewDec(1), Amount: sdk.ZeroInt(), Deposits: true, Withdraws: true, Swaps: true}}})
	}, nil, nil, map[string]interface{}{"what": "basket 1 (ubtc x2, xeth x1)"})
	e.direct("setup", func(ctx sdk.Context) error {
		return app.BasketKeeper.CreateBasket(ctx, baskettypes.Basket{Id: 2, Suffix: "eur", Description: "c04 second basket", Amount: sdk.ZeroInt(),
			SwapFee: sdk.NewDecWithPrec(2, 2), SlipppageFeeMin: sdk.NewDecWithPrec(1, 2), TokensCap: sdk.OneDec(), LimitsPeriod: 3600,
			MintsMin: sdk.OneInt(), MintsMax: big, BurnsMin: sdk.OneInt(), BurnsMax: big, SwapsMin: sdk.OneInt(), SwapsMax: big, Surplus: []sdk.Coin{},
			Tokens: []baskettypes.BasketToken{
				{Denom: "ubtc", Weight: sdk.NewDec(1), Amount: sdk.ZeroInt(), Deposits: true, Withdraws: true, Swaps: true},
				{Denom: "xeth", Weight: sdk.NewDec(3), Amount: sdk.ZeroInt(), Deposits: true, Withdraws: true, Swaps: true}}})
	}, nil, nil, map[string]interface{}{"what": "basket 2 (ubtc x1, xeth x3)"})
	// a pool whose beneficiary lists overlap: a3 twice as account, a0 as account AND through role sudo, the role twice
	mk2 := spendingtypes.NewMsgCreateSpendingPool("sp10", 0, 0, sdk.NewDecCoins(sdk.NewDecCoinFromDec("ukex", sdk.NewDecWithPrec(2, 1))),
		sdk.NewDecWithPrec(33, 2), 300, 300, spendingtypes.PermInfo{OwnerAccounts: []string{e.addr(2), e.addr(2)}},
		spendingtypes.WeightedPermInfo{Accounts: []spendingtypes.WeightedAccount{{Account: e.addr(3), Weight: sdk.OneDec()}, {Account: e.addr(3), Weight: sdk.NewDec(3)}, {Account: e.addr(0), Weight: sdk.NewDec(2)}},
			Roles: []spendingtypes.WeightedRole{{Role: uint64(govtypes.RoleSudo), Weight: sdk.OneDec()}, {Role: uint64(govtypes.RoleSudo), Weight: sdk.NewDec(4)}}},
		e.accAddr(2), false, 0)
	mk2.ClaimExpiry = 10_000_000
	e.tx("setup", 2, []sdk.Msg{mk2}, nil, map[string]interface{}{"what": "spending pool sp10 (overlapping beneficiary lists)"})
	mk := spendingtypes.NewMsgCreateSpendingPool("sp1", 0, 0, sdk.NewDecCoins(sdk.NewDecCoinFromDec("ukex", sdk.NewDecWithPrec(5, 1)), sdk.NewDecCoinFromDec("ubtc", sdk.NewDecWithPrec(1, 1))),
		sdk.NewDecWithPrec(33, 2), 300, 300, spendingtypes.PermInfo{OwnerAccounts: []string{e.addr(2)}},
		spendingtypes.WeightedPermInfo{Accounts: []spendingtypes.WeightedAccount{{Account: e.addr(3), Weight: sdk.OneDec()}, {Account: e.addr(4), Weight: sdk.NewDec(2)}},
			Roles: []spendingtypes.WeightedRole{{Role: uint64(govtypes.RoleSudo), Weight: sdk.NewDecWithPrec(15, 1)}}}, // a0 holds role sudo
		e.accAddr(2), false, 0)
	mk.ClaimExpiry = 10_000_000
	e.tx("setup", 2, []sdk.Msg{mk}, nil, map[string]interface{}{"what": "spending pool sp1"})
	// identifiers are chosen so that one is a PREFIX of another wherever a store key concatenates an identifier without a
	// separator: monikers node1 / node10 (recovery tokens rr/node1, rr/node10), pools sp1 / sp10, collectives coll1 / coll10,
	// dApps dapp1 / dapp10
	for i := 0; i <= 4; i++ {
		mon := fmt.Sprintf("node%d", i)
		if i == 0 {
			mon = "node10"
		}
		e.tx("setup", i, []sdk.Msg{govtypes.NewMsgRegisterIdentityRecords(e.accAddr(i), []govtypes.IdentityInfoEntry{{Key: "moniker", Info: mon}, {Key: "site", Info: "x"}})},
			nil, map[string]interface{}{"what": "identity records", "account": i, "moniker": mon})
	}
	d := l2types.Dapp{Name: "dapp1", Denom: "dp1", Pool: l2types.LpPoolConfig{Ratio: sdk.NewDecWithPrec(5, 1), Drip: 100},
		Issuance:   l2types.IssuanceConfig{Premint: sdk.NewInt(10), Postmint: sdk.NewInt(10)},
		VoteQuorum: sdk.NewDecWithPrec(3, 1), PoolFee: sdk.NewDecWithPrec(1, 2), TeamReserve: e.addr(5), TotalBond: coin("ukex", 0)}
	// below MinDappBond the bootstrap ends in a refund of every bond, above it in the LP-token issue (both in EndBlock)
	bond := int64(20_000_000_000)
	if e.r.Chance(50) {
		bond = 2_000_000_000_000
	}
	e.tx("dapp_create", 2, []sdk.Msg{&l2types.MsgCreateDappProposal{Sender: e.addr(2), Dapp: d, Bond: coin("ukex", bond)}},
		[]string{fmt.Sprintf("EscDeposit L2 %d 1 102 0 %d", kDapp, bond)}, map[string]interface{}{"dapp": "dapp1", "bond": bond})
	d10 := d
	d10.Name, d10.Denom = "dapp10", "dp10"
	e.tx("dapp_create", 4, []sdk.Msg{&l2types.MsgCreateDappProposal{Sender: e.addr(4), Dapp: d10, Bond: coin("ukex", 15_000_000_000)}},
		nil, map[string]interface{}{"dapp": "dapp10", "bond": 15_000_000_000})
	// both validator accounts issue recovery tokens; a4 holds a little of both, a5 a little of one
	e.tx("rec_issue", 1, []sdk.Msg{recoverytypes.NewMsgIssueRecoveryTokens(e.addr(1))}, nil, map[string]interface{}{"account": 1})
	e.tx("rec_issue", 0, []sdk.Msg{recoverytypes.NewMsgIssueRecoveryTokens(e.addr(0))}, nil, map[string]interface{}{"account": 0})
	e.bankSend(1, 4, "rr/node1", 200_000_000_000) // 2% of the supply
	e.bankSend(0, 4, "rr/node10", 300_000_000_000)
	e.bankSend(0, 5, "rr/node10", 5_000_000)
	e.rrRegister(4) // registered for the first token he holds ...
	e.rrRegister(4) // ... and for the second: every history has a holder of both prefix-colliding tokens
	e.rrRegister(5)
	// a stake large enough to bond a collective
	e.delegate(3, 0, "ukex", 50_000_000_000)
	cm := collectivestypes.NewMsgCreateCollective(e.accAddr(3), "coll1", "c04", coins("v1/ukex", 20_000_000_000),
		collectivestypes.DepositWhitelist{Any: true}, collectivestypes.OwnersWhitelist{Accounts: []string{e.addr(3)}},
		[]collectivestypes.WeightedSpendingPool{{Name: "sp1", Weight: sdk.NewDecWithPrec(5, 1)}, {Name: "sp10", Weight: sdk.NewDecWithPrec(25, 2)}, {Name: "sp1", Weight: sdk.NewDecWithPrec(25, 2)}}, 0, 14400, 0, sdk.NewDecWithPrec(33, 2), 300, 300)
	e.spDeposit(2, "sp1", "ukex", 40_000_000_000)
	e.spDeposit(2, "sp1", "ubtc", 4_000_000_000)
	e.spRegister(3, "sp1")
	e.spRegister(4, "sp1")
	e.spRegister(0, "sp1")
	e.spDeposit(2, "sp10", "ukex", 30_000_000_000)
	e.spRegister(3, "sp10")
	e.spRegister(0, "sp10")
	e.tx("coll_create", 3, []sdk.Msg{cm}, nil, map[string]interface{}{"collective": "coll1"})
	cm10 := collectivestypes.NewMsgCreateCollective(e.accAddr(3), "coll10", "c04 (name extends coll1)", coins("v1/ukex", 10_000_000_000),
		collectivestypes.DepositWhitelist{Any: true}, collectivestypes.OwnersWhitelist{Accounts: []string{e.addr(3)}},
		[]collectivestypes.WeightedSpendingPool{{Name: "sp10", Weight: sdk.OneDec()}}, 0, 14400, 0, sdk.NewDecWithPrec(33, 2), 300, 300)
	e.tx("coll_create", 3, []sdk.Msg{cm10}, nil, map[string]interface{}{"collective": "coll10"})
	e.end()
}

// ---------------------------------------------------------------- operations
func (e *env) delegate(u, v int, den string, amt int64) bool {
	return e.delegateCoins(u, v, coins(den, amt))
}

// several denominations in one message: the model runs one operation per denomination, atomically
func (e *env) delegateCoins(u, v int, cs sdk.Coins) bool {
	p, found := e.poolOf(v)
	var model []string
	if found {
		for _, c := range cs {
			model = append(model, fmt.Sprintf("MsDelegate %d %d %d %s", 100+u, p.Id, e.denID(c.Denom), hx.ZInt(c.Amount)))
		}
	}
	return e.tx("delegate", u, []sdk.Msg{mstypes.NewMsgDelegate(e.addr(u), e.valStr(v), cs)}, model,
		map[string]interface{}{"account": u, "validator": v, "amounts": cs.String()})
}

func (e *env) undelegate(u, v int, den string, amt int64) bool {
	return e.undelegateCoins(u, v, coins(den, amt))
}

func (e *env) undelegateCoins(u, v int, cs sdk.Coins) bool {
	p, found := e.poolOf(v)
	var model []string
	if found {
		id := e.c.App.MultiStakingKeeper.GetLastUndelegationId(e.ctx()) + 1
		for _, c := range cs {
			model = append(model, fmt.Sprintf("MsUndelegateT %d %d %d %s %d", 100+u, p.Id, e.denID(c.Denom), hx.ZInt(c.Amount), id))
		}
	}
	return e.tx("undelegate", u, []sdk.Msg{mstypes.NewMsgUndelegate(e.addr(u), e.valStr(v), cs)}, model,
		map[string]interface{}{"account": u, "validator": v, "amounts": cs.String()})
}

func (e *env) claimUndelegation(u int, id uint64) bool {
	var model []string
	if un, ok := e.c.App.MultiStakingKeeper.GetUndelegationById(e.ctx(), id); ok {
		for _, c := range un.Amount {
			model = append(model, fmt.Sprintf("MsClaimUndel %d %d %d", 100+u, id, e.denID(c.Denom)))
		}
	}
	return e.tx("claim_undelegation", u, []sdk.Msg{mstypes.NewMsgClaimUndelegation(e.addr(u), id)}, model, map[string]interface{}{"account": u, "undelegation": id})
}

func (e *env) claimRewards(u int) bool {
	var model []string
	for _, c := range e.c.App.MultiStakingKeeper.GetDelegatorRewards(e.ctx(), e.accAddr(u)) {
		model = append(model, fmt.Sprintf("MsClaimRewards %d %d", 100+u, e.denID(c.Denom)))
	}
	if model == nil {
		model = []string{fmt.Sprintf("MsClaimRewards %d 0", 100+u)}
	}
	return e.tx("claim_rewards", u, []sdk.Msg{mstypes.NewMsgClaimRewards(e.addr(u))}, model, map[string]interface{}{"account": u})
}

func (e *env) slash(v int, pct int64) bool { return e.slashDec(v, sdk.NewDecWithPrec(pct, 2)) }

func (e *env) slashDec(v int, frac sdk.Dec) bool {
	p, found := e.poolOf(v)
	var model []string
	if found {
		var ds []string
		for _, c := range p.TotalStakingTokens {
			ds = append(ds, fmt.Sprint(e.denID(c.Denom)))
		}
		model = []string{fmt.Sprintf("MsSlash %d %s %s", p.Id, hx.ZBig(frac.BigInt()), hx.List(ds))}
	}
	return e.direct("slash", func(ctx sdk.Context) error {
		e.c.App.MultiStakingKeeper.SlashStakingPool(ctx, e.valStr(v), frac)
		return nil
	}, model, nil, map[string]interface{}{"validator": v, "fraction": frac.String()})
}

// IncreasePoolRewards with an exact allocation (the over-credit clause compares the credited claims with it)
func (e *env) rewardExact(v int, rewards sdk.Coins) bool {
	p, found := e.poolOf(v)
	if !found {
		return false
	}
	var alloc []string
	for _, c := range rewards {
		alloc = append(alloc, fmt.Sprintf("(%d, %s)", e.denID(c.Denom), hx.ZInt(c.Amount)))
	}
	return e.direct("reward_alloc", func(ctx sdk.Context) error {
		e.c.App.MultiStakingKeeper.IncreasePoolRewards(ctx, p, rewards)
		return nil
	}, nil, alloc, map[string]interface{}{"validator": v, "rewards": rewards.String()})
}

// reward allocation as AllocateTokens does it: a part of the fees collected since the last allocation
// (fee collector balance minus everything already owed) is handed to IncreasePoolRewards
func (e *env) rewardAlloc(v int, pctOfFree int64) bool {
	p, found := e.poolOf(v)
	if !found {
		return false
	}
	ctx := e.ctx()
	fc := authtypes.NewModuleAddress(authtypes.FeeCollectorName)
	free := e.c.App.BankKeeper.GetAllBalances(ctx, fc)
	for _, rw := range e.c.App.MultiStakingKeeper.GetAllDelegatorRewards(ctx) {
		free = free.Sub(sdk.Coins(rw.Rewards).Min(free)...)
	}
	rewards := sdk.Coins{}
	var alloc []string
	for _, c := range free {
		if c.Denom != "ukex" && c.Denom != "ubtc" {
			continue
		}
		a := c.Amount.MulRaw(pctOfFree).QuoRaw(100)
		if a.IsPositive() {
			rewards = rewards.Add(sdk.NewCoin(c.Denom, a))
			alloc = append(alloc, fmt.Sprintf("(%d, %s)", e.denID(c.Denom), hx.ZInt(a)))
		}
	}
	if rewards.Empty() {
		return false
	}
	return e.direct("reward_alloc", func(ctx sdk.Context) error {
		e.c.App.MultiStakingKeeper.IncreasePoolRewards(ctx, p, rewards)
		return nil
	}, nil, alloc, map[string]interface{}{"validator": v, "rewards": rewards.String()})
}

func (e *env) basketMint(u int, den string, amt int64) bool { return e.basketMintCoins(u, coins(den, amt)) }

// MintBasketToken with the basket's own weights: the model computes the minted amount
func (e *env) basketMintCoins(u int, deposit sdk.Coins) bool {
	var model []string
	if b, err := e.c.App.BasketKeeper.GetBasketById(e.ctx(), e.bk); err == nil {
		rates, _ := b.RatesAndIndexes()
		var deps []string
		okAll := true
		for _, c := range deposit {
			w, ok := rates[c.Denom]
			okAll = okAll && ok
			if ok {
				deps = append(deps, fmt.Sprintf("(%d, %s, %s)", e.denID(c.Denom), hx.ZInt(c.Amount), hx.ZBig(w.BigInt())))
			}
		}
		if okAll {
			model = []string{fmt.Sprintf("BkMintC %d %d %s", 100+u, e.bk, hx.List(deps))}
		}
	}
	return e.tx("basket_mint", u, []sdk.Msg{baskettypes.NewMsgBasketTokenMint(e.accAddr(u), e.bk, deposit)}, model,
		map[string]interface{}{"account": u, "basket": e.bk, "deposit": fmt.Sprint([]sdk.Coin(deposit))})
}

// BurnBasketToken: the model computes the portion (burn / supply after the burn) and every withdrawal
func (e *env) basketBurn(u int, amt int64) bool {
	var model []string
	if b, err := e.c.App.BasketKeeper.GetBasketById(e.ctx(), e.bk); err == nil {
		var ds []string
		for _, t := range b.Tokens {
			if t.Withdraws {
				ds = append(ds, fmt.Sprint(e.denID(t.Denom)))
			}
		}
		model = []string{fmt.Sprintf("BkBurnC %d %d %d %s", 100+u, e.bk, amt, hx.List(ds))}
	}
	return e.tx("basket_burn", u, []sdk.Msg{baskettypes.NewMsgBasketTokenBurn(e.accAddr(u), e.bk, coin(e.basketDenom(), amt))}, model,
		map[string]interface{}{"account": u, "basket": e.bk, "burn": amt})
}
func (e *env) basketDenom() string {
	if e.bk == 2 {
		return "b2/eur"
	}
	return "b1/usd"
}
func (e *env) basketSwap(u int, in string, amt int64, out string) bool {
	return e.basketSwapPairs(u, []baskettypes.SwapPair{{InAmount: coin(in, amt), OutToken: out}})
}

// the Pairs list may repeat a pair or mix directions
func (e *env) basketSwapPairs(u int, pairs []baskettypes.SwapPair) bool {
	var desc []string
	for _, p := range pairs {
		desc = append(desc, p.InAmount.String()+"->"+p.OutToken)
	}
	return e.tx("basket_swap", u, []sdk.Msg{baskettypes.NewMsgBasketTokenSwap(e.accAddr(u), e.bk, pairs)}, nil,
		map[string]interface{}{"account": u, "basket": e.bk, "pairs": desc})
}

func (e *env) spDeposit(u int, pool string, den string, amt int64) bool {
	return e.spDepositCoins(u, pool, coins(den, amt))
}
func (e *env) spDepositCoins(u int, pool string, cs sdk.Coins) bool {
	var model []string
	if idx, ok := e.spools[pool]; ok {
		for _, c := range cs {
			model = append(model, fmt.Sprintf("SpDeposit %d %d %d %s", 100+u, idx, e.denID(c.Denom), hx.ZInt(c.Amount)))
		}
	}
	return e.tx("sp_deposit", u, []sdk.Msg{spendingtypes.NewMsgDepositSpendingPool(pool, cs, e.accAddr(u))}, model,
		map[string]interface{}{"account": u, "pool": pool, "amount": cs.String()})
}
func (e *env) spRegister(u int, pool string) bool {
	return e.tx("sp_register", u, []sdk.Msg{spendingtypes.NewMsgRegisterSpendingPoolBeneficiary(pool, e.accAddr(u))}, nil, map[string]interface{}{"account": u, "pool": pool})
}

// the (beneficiary, duration, weight) triple ClaimSpendingPool will use for addr, as the code computes it
func (e *env) claimTriple(p *spendingtypes.SpendingPool, addr sdk.AccAddress) (string, bool) {
	ctx := e.ctx()
	w := e.c.App.SpendingKeeper.GetBeneficiaryWeight(ctx, addr, *p.Beneficiaries)
	ci := e.c.App.SpendingKeeper.GetClaimInfo(ctx, p.Name, addr)
	if w.IsZero() || ci == nil {
		return "", false
	}
	start := int64(p.ClaimStart)
	if start < int64(ci.LastClaim) {
		start = int64(ci.LastClaim)
	}
	end := ctx.BlockTime().Unix()
	if p.ClaimEnd != 0 && end > int64(p.ClaimEnd) {
		end = int64(p.ClaimEnd)
	}
	if start >= end {
		return "", false
	}
	if p.DynamicRate && start < int64(p.LastDynamicRateCalcTime) {
		start = int64(p.LastDynamicRateCalcTime)
	}
	dur := end - start
	if dur > int64(p.ClaimExpiry) {
		dur = int64(p.ClaimExpiry)
	}
	return fmt.Sprintf("(%d, %d, %s)", e.accID(addr.String()), dur, hx.ZBig(w.BigInt())), true
}

func (e *env) ratesCoq(p *spendingtypes.SpendingPool) string {
	var rs []string
	for _, r := range p.Rates {
		rs = append(rs, fmt.Sprintf("(%d, %s)", e.denID(r.Denom), hx.ZBig(r.Amount.BigInt())))
	}
	return hx.List(rs)
}

func (e *env) spClaim(u int, pool string) bool {
	var model []string
	if p := e.c.App.SpendingKeeper.GetSpendingPool(e.ctx(), pool); p != nil {
		if t, ok := e.claimTriple(p, e.accAddr(u)); ok {
			model = []string{fmt.Sprintf("SpClaims %d %s [%s]", e.spools[pool], e.ratesCoq(p), t)}
		}
	}
	return e.tx("sp_claim", u, []sdk.Msg{spendingtypes.NewMsgClaimSpendingPool(pool, e.accAddr(u))}, model, map[string]interface{}{"account": u, "pool": pool})
}

// ---------------------------------------------------------------- proposals: the real handler's Apply through the real
// router (cache context, as the gov end-blocker calls it) on the deliver state of the block in progress
func (e *env) proposal(kind string, content govtypes.Content, model []string, args map[string]interface{}) bool {
	return e.direct(kind, func(ctx sdk.Context) error {
		return e.c.App.CustomGovKeeper.GetProposalRouter().ApplyProposal(ctx, 1, content, sdk.ZeroDec())
	}, model, nil, args)
}

// SpendingPoolWithdraw: each listed beneficiary is paid `amounts`
func (e *env) withdrawProposal(pool string, bens []int, amounts []sdk.Coin) bool {
	var addrs, vs, am []string
	for _, b := range bens {
		addrs = append(addrs, e.addr(b))
		vs = append(vs, fmt.Sprint(100+b))
	}
	for _, c := range amounts {
		am = append(am, fmt.Sprintf("(%d, %s)", e.denID(c.Denom), hx.ZInt(c.Amount)))
	}
	var model []string
	if idx, ok := e.spools[pool]; ok {
		model = []string{fmt.Sprintf("SpWithdrawProp %d %s %s", idx, hx.List(vs), hx.List(am))}
	}
	return e.proposal("withdraw_proposal", spendingtypes.NewSpendingPoolWithdrawProposal(pool, addrs, amounts), model,
		map[string]interface{}{"pool": pool, "beneficiaries": bens, "amounts": fmt.Sprint(amounts)})
}

// SpendingPoolDistribution: every beneficiary (accounts, then holders of the beneficiary roles) claims
func (e *env) distributionProposal(pool string) bool {
	ctx := e.ctx()
	var model []string
	if p := e.c.App.SpendingKeeper.GetSpendingPool(ctx, pool); p != nil {
		seen := map[string]bool{}
		var addrs []sdk.AccAddress
		for _, a := range p.Beneficiaries.Accounts {
			if !seen[a.Account] {
				seen[a.Account] = true
				addrs = append(addrs, sdk.MustAccAddressFromBech32(a.Account))
			}
		}
		for _, role := range p.Beneficiaries.Roles {
			it := e.c.App.CustomGovKeeper.GetNetworkActorsByRole(ctx, role.Role)
			for ; it.Valid(); it.Next() {
				a := sdk.AccAddress(it.Value())
				if !seen[a.String()] {
					seen[a.String()] = true
					addrs = append(addrs, a)
				}
			}
			it.Close()
		}
		var ts []string
		all := true
		for _, a := range addrs {
			t, ok := e.claimTriple(p, a)
			all = all && ok
			ts = append(ts, t)
		}
		if all {
			model = []string{fmt.Sprintf("SpClaims %d %s %s", e.spools[pool], e.ratesCoq(p), hx.List(ts))}
		}
	}
	return e.proposal("distribution_proposal", spendingtypes.NewSpendingPoolDistributionProposal(pool), model, map[string]interface{}{"pool": pool})
}

// BasketWithdrawSurplus for a LIST of basket ids (repetitions, unknown ids and the empty list included): the model pays,
// per listed occurrence, whatever surplus the basket records at that moment
func (e *env) surplusProposal(target int, ids []uint64) bool {
	ctx := e.ctx()
	var model []string
	known := true
	basketAcc := authtypes.NewModuleAddress("basket")
	if e.c.App.MultiStakingKeeper.GetDelegatorRewards(ctx, basketAcc).Empty() {
		for _, id := range ids {
			b, err := e.c.App.BasketKeeper.GetBasketById(ctx, id)
			if err != nil {
				known = false
				break
			}
			for _, c := range b.Surplus {
				model = append(model, fmt.Sprintf("BkWithdrawSurplus %d %d %d", id, 100+target, e.denID(c.Denom)))
			}
		}
		if known && model == nil {
			model = []string{fmt.Sprintf("BankSend %d %d 0 0", 100+target, 100+target)} // nothing to pay: the model must change nothing
		}
	}
	if !known {
		model = nil
	}
	return e.proposal("surplus_proposal", baskettypes.NewProposalBasketWithdrawSurplus(ids, e.addr(target)), model, map[string]interface{}{"target": target, "basket_ids": ids})
}

func (e *env) collSendDonation(target int, amounts sdk.Coins) bool {
	return e.proposal("coll_send_donation", collectivestypes.NewProposalCollectiveSendDonation(e.coll, e.addr(target), amounts), nil,
		map[string]interface{}{"target": target, "amounts": amounts.String()})
}
func (e *env) collRemove() bool {
	return e.proposal("coll_remove", collectivestypes.NewProposalCollectiveRemove(e.coll), nil, map[string]interface{}{"collective": e.coll})
}
func (e *env) ubiProposal(name string, amt, period uint64) bool {
	return e.proposal("ubi_proposal", ubitypes.NewUpsertUBIProposal(name, 0, 0, amt, period, "sp1"), nil, map[string]interface{}{"name": name, "kex": amt, "period": period})
}

func (e *env) tipRequest(u, verifier int, tip int64) bool {
	var ids []uint64
	for _, r := range e.c.App.CustomGovKeeper.GetIdRecordsByAddress(e.ctx(), e.accAddr(u)) {
		ids = append(ids, r.Id)
	}
	if len(ids) > 1 && e.r.Bool() {
		ids = ids[:1]
	}
	return e.tipRequestIDs(u, verifier, e.perturbIDs(ids), tip) // record ids: repeated, or none
}
func (e *env) tipRequestIDs(u, verifier int, ids []uint64, tip int64) bool {
	id := e.c.App.CustomGovKeeper.GetLastIdRecordVerifyRequestId(e.ctx()) + 1
	return e.tx("tip_request", u, []sdk.Msg{govtypes.NewMsgRequestIdentityRecordsVerify(e.accAddr(u), e.accAddr(verifier), ids, coin("ukex", tip))},
		[]string{fmt.Sprintf("TipRequest %d %d 0 %d", 100+u, id, tip)}, map[string]interface{}{"account": u, "verifier": verifier, "tip": tip, "record_ids": ids})
}

// the pending verify requests of `u` that name one of the records `affected`: RegisterIdentityRecords / DeleteIdentityRecords
// cancel them (tip refunded to the requester)
func (e *env) autoCancelModel(u int, affected map[uint64]bool) []string {
	var model []string
	for _, rq := range e.c.App.CustomGovKeeper.GetAllIdRecordsVerifyRequests(e.ctx()) {
		if rq.Address != e.addr(u) {
			continue
		}
		for _, rid := range rq.RecordIds {
			if affected[rid] {
				model = append(model, fmt.Sprintf("TipCancel %d %d %d", 100+u, rq.Id, e.denID(rq.Tip.Denom)))
				break
			}
		}
	}
	if model == nil {
		model = []string{fmt.Sprintf("BankSend %d %d 0 0", 100+u, 100+u)} // no coins may move
	}
	return model
}

// (re-)register identity records: same value (only the record date moves), or a new value (pending requests naming the
// record are cancelled and refunded)
func (e *env) idRegister(u int, kv map[string]string) bool {
	ctx := e.ctx()
	affected := map[uint64]bool{}
	var infos []govtypes.IdentityInfoEntry
	for _, k := range sortedKeys(kv) {
		infos = append(infos, govtypes.IdentityInfoEntry{Key: k, Info: kv[k]})
		if rid := e.c.App.CustomGovKeeper.GetIdentityRecordIdByAddressKey(ctx, e.accAddr(u), k); rid != 0 {
			if rec := e.c.App.CustomGovKeeper.GetIdentityRecordById(ctx, rid); rec == nil || rec.Value != kv[k] {
				affected[rid] = true
			}
		}
	}
	return e.tx("id_register", u, []sdk.Msg{govtypes.NewMsgRegisterIdentityRecords(e.accAddr(u), infos)}, e.autoCancelModel(u, affected),
		map[string]interface{}{"account": u, "records": kv, "changed_record_ids": len(affected)})
}

func (e *env) idDelete(u int, keys []string) bool {
	ctx := e.ctx()
	affected := map[uint64]bool{}
	for _, rec := range e.c.App.CustomGovKeeper.GetIdRecordsByAddress(ctx, e.accAddr(u)) {
		hit := len(keys) == 0
		for _, k := range keys {
			hit = hit || k == rec.Key
		}
		if hit {
			affected[rec.Id] = true
		}
	}
	return e.tx("id_delete", u, []sdk.Msg{govtypes.NewMsgDeleteIdentityRecords(e.accAddr(u), keys)}, e.autoCancelModel(u, affected),
		map[string]interface{}{"account": u, "keys": keys})
}

func sortedKeys(m map[string]string) []string {
	var ks []string
	for k := range m {
		ks = append(ks, k)
	}
	sort.Strings(ks)
	return ks
}

// ---------------------------------------------------------------- edits of the objects escrows hang on, between creation and settlement
func (e *env) setProperty(prop govtypes.NetworkProperty, val uint64) bool {
	nop := []string{"BankSend 100 100 0 0"}
	return e.proposal("set_property", govtypes.NewSetNetworkPropertyProposal(prop, govtypes.NetworkPropertyValue{Value: val}), nop,
		map[string]interface{}{"property": prop.String(), "value": val})
}

func (e *env) spUpdate(pool string, rateMilli int64, dropRole bool) bool { return e.spUpdateV(pool, rateMilli, dropRole, -1) }

// UpdateSpendingPool: the beneficiary and owner lists of the content in list variant k (-1: random)
func (e *env) spUpdateV(pool string, rateMilli int64, dropRole bool, k int) bool {
	p := e.c.App.SpendingKeeper.GetSpendingPool(e.ctx(), pool)
	if p == nil {
		return false
	}
	ben := *p.Beneficiaries
	own := *p.Owners
	if dropRole {
		ben.Roles = nil
	}
	freshAcc := func() (spendingtypes.WeightedAccount, bool) { return spendingtypes.WeightedAccount{Account: e.addr(5), Weight: sdk.NewDec(3)}, true }
	freshRole := func() (spendingtypes.WeightedRole, bool) { return spendingtypes.WeightedRole{Role: 2, Weight: sdk.OneDec()}, true }
	freshOwner := func() (string, bool) { return e.addr(5), true }
	if k < 0 {
		ben.Accounts = perturbList(e.r, ben.Accounts, freshAcc)
		ben.Roles = perturbList(e.r, ben.Roles, freshRole)
		own.OwnerAccounts = perturbList(e.r, own.OwnerAccounts, freshOwner)
	} else {
		ben.Accounts = listVariant(ben.Accounts, k, 1, freshAcc)
		ben.Roles = listVariant(ben.Roles, k, 0, freshRole)
		own.OwnerAccounts = listVariant(own.OwnerAccounts, k, 0, freshOwner)
	}
	rates := sdk.NewDecCoins(sdk.NewDecCoinFromDec("ukex", sdk.NewDecWithPrec(rateMilli, 3)), sdk.NewDecCoinFromDec("xeth", sdk.NewDecWithPrec(rateMilli, 4)))
	return e.proposal("sp_update", spendingtypes.NewUpdateSpendingPoolProposal(pool, p.ClaimStart, p.ClaimEnd, rates, p.VoteQuorum, p.VotePeriod, p.VoteEnactment, own, ben, false, 0),
		[]string{"BankSend 100 100 0 0"}, map[string]interface{}{"pool": pool, "rate_milli": rateMilli, "drop_role": dropRole, "list_variant": k,
			"beneficiary_accounts": len(ben.Accounts), "beneficiary_roles": len(ben.Roles), "owners": len(own.OwnerAccounts)})
}

func (e *env) collUpdate(pools []collectivestypes.WeightedSpendingPool, claimPeriod uint64) bool {
	c := e.c.App.CollectivesKeeper.GetCollective(e.ctx(), e.coll)
	dw, ow := c.DepositWhitelist, c.OwnersWhitelist
	dw.Accounts = perturbList(e.r, dw.Accounts, func() (string, bool) { return e.addr(4), true })
	ow.Accounts = perturbList(e.r, ow.Accounts, func() (string, bool) { return e.addr(4), true })
	return e.proposal("coll_update", collectivestypes.NewProposalCollectiveUpdate(e.coll, "edited", c.Status, dw, ow, pools,
		c.ClaimStart, claimPeriod, c.ClaimEnd, c.VoteQuorum, c.VotePeriod, c.VoteEnactment), nil,
		map[string]interface{}{"collective": e.coll, "pools": len(pools), "claim_period": claimPeriod, "deposit_accounts": len(dw.Accounts), "owner_accounts": len(ow.Accounts)})
}

// ProposalUpsertDapp carries a whole Dapp value: content drafted from the dApp as it was at `draft` time (the proposer copies
// what he sees; bonds may move between drafting and enactment); the controller lists in a list variant
func (e *env) dappUpsert(draft *l2types.Dapp) bool {
	if draft == nil {
		return false
	}
	d := *draft
	d.Description = "edited"
	d.Controllers.Whitelist.Addresses = perturbList(e.r, append([]string{e.addr(2)}, d.Controllers.Whitelist.Addresses...), func() (string, bool) { return e.addr(4), true })
	d.Controllers.Whitelist.Roles = perturbList(e.r, d.Controllers.Whitelist.Roles, func() (uint64, bool) { return 1, true })
	return e.proposal("dapp_upsert", &l2types.ProposalUpsertDapp{Dapp: d}, nil,
		map[string]interface{}{"dapp": d.Name, "drafted_total_bond": d.TotalBond.String(), "controllers": len(d.Controllers.Whitelist.Addresses)})
}

func (e *env) basketEdit(weightUbtc int64, swapFeePct int64) bool { return e.basketEditV(weightUbtc, swapFeePct, -1) }

// EditBasket: the token LIST of the content in list variant k (-1: random): an existing denomination repeated, a new one,
// a new one twice, empty, permuted, one removed
func (e *env) basketEditV(weightUbtc int64, swapFeePct int64, k int) bool {
	b, err := e.c.App.BasketKeeper.GetBasketById(e.ctx(), e.bk)
	if err != nil {
		return false
	}
	nb := b
	nb.Tokens = append([]baskettypes.BasketToken{}, b.Tokens...)
	for i := range nb.Tokens {
		if nb.Tokens[i].Denom == "ubtc" {
			nb.Tokens[i].Weight = sdk.NewDec(weightUbtc)
		}
		nb.Tokens[i].Amount = sdk.ZeroInt() // the proposer cannot set reserves
	}
	fresh := func() (baskettypes.BasketToken, bool) {
		return baskettypes.BasketToken{Denom: "frozen", Weight: sdk.OneDec(), Amount: sdk.ZeroInt(), Deposits: true, Withdraws: true, Swaps: true}, true
	}
	if k < 0 {
		nb.Tokens = perturbList(e.r, nb.Tokens, fresh)
	} else {
		nb.Tokens = listVariant(nb.Tokens, k, 0, fresh)
	}
	// the model expects no coin and no record to move as long as the set of denominations is the same
	sameSet := len(nb.Tokens) >= len(b.Tokens)
	var dens []string
	for _, t := range nb.Tokens {
		dens = append(dens, t.Denom)
	}
	for _, t := range b.Tokens {
		found := false
		for _, d := range dens {
			found = found || d == t.Denom
		}
		sameSet = sameSet && found
	}
	var model []string
	if sameSet {
		model = []string{"BankSend 100 100 0 0"}
	}
	nb.SwapFee = sdk.NewDecWithPrec(swapFeePct, 2)
	nb.Amount = sdk.NewInt(12345)
	nb.Surplus = nil
	return e.proposal("basket_edit", baskettypes.NewProposalEditBasket(nb), model,
		map[string]interface{}{"basket": e.bk, "weight_ubtc": weightUbtc, "swap_fee_pct": swapFeePct, "list_variant": k, "token_denoms": dens})
}

// bank MsgMultiSend: one input, a LIST of outputs (repetitions, permutations, empty)
func (e *env) multiSend(u int, outs []int, den string, amt int64) bool {
	var outputs []banktypes.Output
	var model []string
	total := int64(0)
	for i, v := range outs {
		a := amt + int64(i)
		total += a
		outputs = append(outputs, banktypes.NewOutput(e.accAddr(v), coins(den, a)))
		model = append(model, fmt.Sprintf("BankSend %d %d %d %d", 100+u, 100+v, e.denID(den), a))
	}
	if model == nil {
		model = []string{fmt.Sprintf("BankSend %d %d 0 0", 100+u, 100+u)}
	}
	in := []banktypes.Input{banktypes.NewInput(e.accAddr(u), coins(den, total))}
	if total == 0 {
		in = []banktypes.Input{}
	}
	return e.tx("bank_multisend", u, []sdk.Msg{banktypes.NewMsgMultiSend(in, outputs)}, model, map[string]interface{}{"from": u, "to": outs, "denom": den, "amount_first": amt})
}

func (e *env) tipHandle(v int, id uint64, approve bool) bool {
	return e.tx("tip_handle", v, []sdk.Msg{govtypes.NewMsgHandleIdentityRecordsVerifyRequest(e.accAddr(v), id, approve)},
		[]string{fmt.Sprintf("TipHandle %d %d 0", 100+v, id)}, map[string]interface{}{"verifier": v, "request": id, "approve": approve})
}
func (e *env) tipCancel(u int, id uint64) bool {
	return e.tx("tip_cancel", u, []sdk.Msg{govtypes.NewMsgCancelIdentityRecordsVerifyRequest(e.accAddr(u), id)},
		[]string{fmt.Sprintf("TipCancel %d %d 0", 100+u, id)}, map[string]interface{}{"account": u, "request": id})
}

func (e *env) dappBond(u int, amt int64) bool {
	return e.tx("dapp_bond", u, []sdk.Msg{&l2types.MsgBondDappProposal{Sender: e.addr(u), DappName: e.dapp, Bond: coin("ukex", amt)}},
		[]string{fmt.Sprintf("EscDeposit L2 %d %d %d 0 %d", kDapp, e.dapps[e.dapp], 100+u, amt)}, map[string]interface{}{"account": u, "amount": amt})
}
func (e *env) dappReclaim(u int, amt int64) bool {
	return e.tx("dapp_reclaim", u, []sdk.Msg{&l2types.MsgReclaimDappBondProposal{Sender: e.addr(u), DappName: e.dapp, Bond: coin("ukex", amt)}},
		[]string{fmt.Sprintf("EscWithdraw L2 %d %d %d 0 %d", kDapp, e.dapps[e.dapp], 100+u, amt)}, map[string]interface{}{"account": u, "amount": amt})
}

func (e *env) collContribute(u int, den string, amt int64) bool {
	return e.tx("coll_contribute", u, []sdk.Msg{collectivestypes.NewMsgBondCollective(e.accAddr(u), e.coll, coins(den, amt))}, nil,
		map[string]interface{}{"account": u, "bonds": coins(den, amt).String()})
}
func (e *env) collDonate(u int, pct int64) bool {
	return e.tx("coll_donate", u, []sdk.Msg{collectivestypes.NewMsgDonateCollective(e.accAddr(u), e.coll, 0, sdk.NewDecWithPrec(pct, 2), false)}, nil,
		map[string]interface{}{"account": u, "donation_percent": pct})
}
func (e *env) collWithdraw(u int) bool {
	return e.tx("coll_withdraw", u, []sdk.Msg{collectivestypes.NewMsgWithdrawCollective(e.accAddr(u), e.coll)}, nil, map[string]interface{}{"account": u})
}

func (e *env) bankSend(u, v int, den string, amt int64) bool {
	return e.tx("bank_send", u, []sdk.Msg{banktypes.NewMsgSend(e.accAddr(u), e.accAddr(v), coins(den, amt))},
		[]string{fmt.Sprintf("BankSend %d %d %d %d", 100+u, 100+v, e.denID(den), amt)}, map[string]interface{}{"from": u, "to": v, "amount": coins(den, amt).String()})
}

func (e *env) recBurn(u int, amt int64) bool {
	return e.tx("rec_burn", u, []sdk.Msg{recoverytypes.NewMsgBurnRecoveryTokens(e.accAddr(u), coin(e.rr, amt))}, nil, map[string]interface{}{"account": u, "token": e.rr, "amount": amt})
}

// MsgRegisterRRTokenHolder registers the sender for the first recovery token he holds enough of and is not yet registered
// for; MsgClaimRRHolderRewards pays his recorded holder rewards out of the recovery module account
func (e *env) rrRegister(u int) bool {
	return e.tx("rr_register", u, []sdk.Msg{recoverytypes.NewMsgRegisterRRTokenHolder(e.accAddr(u))}, nil, map[string]interface{}{"account": u})
}
func (e *env) rrClaim(u int) bool {
	return e.tx("rr_claim", u, []sdk.Msg{recoverytypes.NewMsgClaimRRHolderRewards(e.accAddr(u))}, nil, map[string]interface{}{"account": u})
}

func (e *env) ubi(amt uint64, dynamic bool) bool {
	var model []string
	if !dynamic {
		model = []string{fmt.Sprintf("UbiPayout %d 0 %d", e.spools["sp1"], amt*1000000)}
	}
	return e.direct("ubi", func(ctx sdk.Context) error {
		return e.c.App.UbiKeeper.ProcessUBIRecord(ctx, ubitypes.UBIRecord{Name: "u1", DistributionStart: 0, DistributionEnd: 0, Amount: amt, Period: 86400, Pool: "sp1", Dynamic: dynamic})
	}, model, nil, map[string]interface{}{"kex": amt, "dynamic": dynamic})
}

// layer2 MintIssueTx of the NATIVE token by an ordinary account (C13's finding, observed here as an
// unsanctioned mint of the native denomination)
func (e *env) l2MintIssue(u int, den string, amt int64) bool {
	return e.tx("l2_mint_issue", u, []sdk.Msg{&l2types.MsgMintIssueTx{Sender: e.addr(u), Denom: den, Amount: sdk.NewInt(amt), Receiver: e.addr(u)}},
		nil, map[string]interface{}{"account": u, "denom": den, "amount": amt})
}

var _ = tokenstypes.ModuleName
var _ = os.Exit

// ---------------------------------------------------------------- list-valued fields: repetitions, overlaps, empty
// Every list the monitor puts into a message or a proposal goes through one of these.
// listVariant returns variant k of a list: 0 unchanged, 1 an EXISTING entry repeated (appended), 2 the first entry repeated
// in place, 3 a NEW entry added, 4 the new entry added twice, 5 empty, 6 permuted (reversed), 7 one entry removed,
// 8 the whole list twice
const nListVariants = 9

func listVariant[T any](xs []T, k int, pick int, fresh func() (T, bool)) []T {
	out := append([]T{}, xs...)
	switch k {
	case 1:
		if len(xs) > 0 {
			out = append(out, xs[pick%len(xs)])
		}
	case 2:
		if len(xs) > 0 {
			out = append([]T{xs[0]}, out...)
		}
	case 3, 4:
		if fresh != nil {
			if f, ok := fresh(); ok {
				out = append(out, f)
				if k == 4 {
					out = append(out, f)
				}
			}
		}
	case 5:
		out = []T{}
	case 6:
		for i, j := 0, len(out)-1; i < j; i, j = i+1, j-1 {
			out[i], out[j] = out[j], out[i]
		}
	case 7:
		if len(xs) > 0 {
			i := pick % len(xs)
			out = append(append([]T{}, xs[:i]...), xs[i+1:]...)
		}
	case 8:
		out = append(out, xs...)
	}
	return out
}

// a random variant: mostly unchanged
func perturbList[T any](r *hx.Rng, xs []T, fresh func() (T, bool)) []T {
	if r.Chance(55) {
		return xs
	}
	return listVariant(xs, 1+r.Intn(nListVariants-1), r.Intn(8), fresh)
}

func (e *env) perturbInts(xs []int) []int {
	return perturbList(e.r, xs, func() (int, bool) { return 5, true }) // a5: usually not on the list
}
func (e *env) perturbIDs(xs []uint64) []uint64 {
	var is []int
	for _, x := range xs {
		is = append(is, int(x))
	}
	out := []uint64{}
	for _, x := range e.perturbInts(is) {
		out = append(out, uint64(x))
	}
	return out
}

// a coin list that may repeat a denomination or be empty (sdk.Coins does not allow it: such a message must be rejected
// or fail as a whole, and nothing may move)
func (e *env) perturbCoins(cs sdk.Coins) sdk.Coins {
	r := e.r
	switch r.Intn(14) {
	case 0:
		if len(cs) > 0 {
			return append(append(sdk.Coins{}, cs...), cs[r.Intn(len(cs))])
		}
	case 1:
		return sdk.Coins{}
	}
	return cs
}

// ---------------------------------------------------------------- address rotation (x/recovery rewrites other modules' records)
func freshKey(seed uint64, n int) *secp256k1.PrivKey {
	b := make([]byte, 32)
	r := hx.NewRng(seed*7_777_777 + uint64(n)*13 + 5)
	for j := range b {
		b[j] = byte(r.Next())
	}
	b[0] |= 1
	return &secp256k1.PrivKey{Key: b}
}

// MsgRotateValidatorByHalfRRTokenHolder: the validator account `val` (has issued RR tokens, owns a staking pool) is
// rotated to a fresh address by the RR holder `holder`
func (e *env) rotateValidator(v int, holder int) bool {
	va, _ := sdk.ValAddressFromBech32(e.valAddr[v])
	owner := sdk.AccAddress(va)
	e.nRot++
	fresh := sdk.AccAddress(freshKey(hx.Seed(), 1000+e.nRot).PubKey().Address())
	ok := e.tx("rotate_validator", holder, []sdk.Msg{recoverytypes.NewMsgRotateValidatorByHalfRRTokenHolder(e.addr(holder), owner.String(), fresh.String())}, nil,
		map[string]interface{}{"validator": v, "holder": holder, "old": owner.String(), "new": fresh.String()})
	if ok {
		e.valAddr[v] = sdk.ValAddress(fresh).String()
	}
	return ok
}

// MsgRegisterRecoverySecret + MsgRotateRecoveryAddress: account u moves to a fresh address (with a key, so that the rotated
// account keeps acting: it becomes a new account index)
func (e *env) rotateAccount(u int) bool {
	e.nRot++
	proof := fmt.Sprintf("%064x", e.nRot+77)
	pb, _ := hex.DecodeString(proof)
	h := sha256.Sum256(pb)
	if !e.tx("register_secret", u, []sdk.Msg{recoverytypes.NewMsgRegisterRecoverySecret(e.addr(u), hex.EncodeToString(h[:]), "00", "")}, nil, map[string]interface{}{"account": u}) {
		return false
	}
	key := freshKey(hx.Seed(), e.nRot)
	fresh := sdk.AccAddress(key.PubKey().Address())
	idx := len(e.c.Accounts)
	// the new address is registered as a user account of the model before the step is observed
	e.acc[fresh.String()] = 100 + int64(idx)
	e.accName[100+int64(idx)] = fmt.Sprintf("a%d(rotated from a%d)", idx, u)
	ok := e.tx("rotate_account", u, []sdk.Msg{recoverytypes.NewMsgRotateRecoveryAddress(e.addr(u), e.addr(u), fresh.String(), proof)}, nil,
		map[string]interface{}{"account": u, "new_account": idx})
	e.c.Accounts = append(e.c.Accounts, abci.Account{Priv: key, Addr: fresh, Name: fmt.Sprintf("a%d", idx)})
	if ok {
		for i, x := range e.live {
			if x == u {
				e.live[i] = idx
			}
		}
	}
	return ok
}

// ---------------------------------------------------------------- genesis export / re-import in the middle of a history
// The committed state is exported and imported into a fresh application; the imported balances, supply and module records
// are observed as a step ("reimport": what differs from the running chain), judged by the same clauses, and the history
// resumes on the running chain ("resume").
func (e *env) reimport() {
	if e.inBlock {
		return
	}
	state, p := e.c.Export()
	if p != "" {
		e.notes = append(e.notes, "export panicked: "+p)
		e.dist.Inc("reimport:export-panic")
		return
	}
	c2, p2 := abci.NewChainFromExport(e.c, state)
	if p2 != "" {
		e.notes = append(e.notes, "re-import panicked: "+p2)
		e.dist.Inc("reimport:import-panic")
		return
	}
	back := e.prev
	var next *snapshot
	if p3 := hx.Try(func() {
		// InitChain leaves the imported state in the deliver state: read it there
		next = e.snapOf(c2, c2.App.BaseApp.NewContext(false, tmproto.Header{ChainID: abci.ChainID, Height: c2.Height, Time: c2.Time}))
	}); p3 != "" {
		e.notes = append(e.notes, "observing the imported state panicked: "+p3)
		return
	}
	e.recordSnap(stepInfo{kind: "reimport", ok: true, args: map[string]interface{}{"height": e.c.Height}}, nil, next)
	e.recordSnap(stepInfo{kind: "resume", ok: true}, nil, back)
}

// several messages of the same type in ONE transaction (atomic): the model runs the concatenation
func (e *env) multiDeposit(u int, pools []string, den string, amt int64) bool {
	var msgs []sdk.Msg
	var model []string
	known := true
	for i, pl := range pools {
		a := amt + int64(i)
		msgs = append(msgs, spendingtypes.NewMsgDepositSpendingPool(pl, coins(den, a), e.accAddr(u)))
		idx, ok := e.spools[pl]
		known = known && ok
		model = append(model, fmt.Sprintf("SpDeposit %d %d %d %d", 100+u, idx, e.denID(den), a))
	}
	if !known {
		model = nil
	}
	return e.tx("sp_deposit", u, msgs, model, map[string]interface{}{"account": u, "pools": pools, "denom": den, "amount_first": amt, "messages": len(msgs)})
}
func (e *env) multiDelegate(u, v int, den string, amt int64, n int) bool {
	p, found := e.poolOf(v)
	var msgs []sdk.Msg
	var model []string
	for i := 0; i < n; i++ {
		msgs = append(msgs, mstypes.NewMsgDelegate(e.addr(u), e.valStr(v), coins(den, amt+int64(i))))
		if found {
			model = append(model, fmt.Sprintf("MsDelegate %d %d %d %d", 100+u, p.Id, e.denID(den), amt+int64(i)))
		}
	}
	return e.tx("delegate", u, msgs, model, map[string]interface{}{"account": u, "validator": v, "denom": den, "amount_first": amt, "messages": n})
}

// MsgSetCompoundInfo: the delegator's auto-compound setting (a settings change of the actor between two delegations)
func (e *env) setCompound(u int, all bool, dens []string) bool {
	return e.tx("set_compound", u, []sdk.Msg{mstypes.NewMsgSetCompoundInfo(e.addr(u), all, dens)}, []string{fmt.Sprintf("BankSend %d %d 0 0", 100+u, 100+u)},
		map[string]interface{}{"account": u, "all_denoms": all, "denoms": dens})
}

// repeat the last deposit-type operation of a class by the SAME actor (after a settings change that concerns it)
func (e *env) repeatDeposit(class string) {
	if f := e.again[class]; f != nil {
		f()
	}
}
