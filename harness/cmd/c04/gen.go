package main

import (
	"flag"
	"fmt"
	"sort"
	"strings"

	"verif/harness/hx"

	baskettypes "github.com/KiraCore/sekai/x/basket/types"
	collectivestypes "github.com/KiraCore/sekai/x/collectives/types"
	govtypes "github.com/KiraCore/sekai/x/gov/types"
	mstypes "github.com/KiraCore/sekai/x/multistaking/types"
	sdk "github.com/cosmos/cosmos-sdk/types"
)

func (e *env) pickAmt() int64 {
	switch e.r.Intn(6) {
	case 0:
		return e.r.Range(1, 9)
	case 1:
		return e.r.Range(10, 999)
	case 2:
		return 3
	default:
		return e.r.Range(1000, 5_000_000)
	}
}

// one random operation (mostly valid by construction; a malformed stream is mixed in)
func (e *env) randomOp() {
	r := e.r
	u := e.live[r.Intn(len(e.live))]
	if r.Chance(5) {
		u = 1 + r.Intn(NACC-1) // possibly an account that was rotated away: it holds nothing any more
	}
	v := r.Intn(2)
	app := e.c.App
	e.bk = []uint64{1, 1, 2}[r.Intn(3)]
	pool := []string{"sp1", "sp1", "sp10"}[r.Intn(3)]
	e.coll = []string{"coll1", "coll1", "coll10"}[r.Intn(3)]
	e.dapp = []string{"dapp1", "dapp1", "dapp10"}[r.Intn(3)]
	e.rr = []string{"rr/node1", "rr/node10"}[r.Intn(2)]
	if r.Chance(18) {
		e.settlePending(u)
		return
	}
	switch r.Intn(52) {
	case 50, 51:
		e.multiSend(u, e.perturbInts([]int{e.live[r.Intn(len(e.live))], e.live[r.Intn(len(e.live))]}), natives[r.Intn(3)], e.pickAmt())
	case 42, 43:
		// touch the identity records pending verify requests hang on: same value (date moves), new value, delete
		who := []int{1, 2, 3, 4}[r.Intn(4)]
		switch r.Intn(4) {
		case 0:
			e.idRegister(who, map[string]string{"site": "x"})
		case 1:
			e.idRegister(who, map[string]string{"moniker": fmt.Sprintf("node%d", who), "site": "x"})
		case 2:
			e.idRegister(who, map[string]string{"site": fmt.Sprintf("y%d", r.Intn(3))})
		default:
			e.idDelete(who, [][]string{{"site"}, {"site", "site"}, {"moniker"}, {}}[r.Intn(4)])
		}
	case 44:
		// settings the escrows depend on, moved up and down by proposal
		switch r.Intn(4) {
		case 0:
			e.setProperty(govtypes.MinIdentityApprovalTip, []uint64{0, 100, 200, 1000}[r.Intn(4)])
		case 1:
			e.setProperty(govtypes.UnstakingPeriod, []uint64{604800, 2629800, 700000}[r.Intn(3)])
		case 2:
			e.setProperty(govtypes.MinCollectiveBond, []uint64{1, 100_000, 10_000_000}[r.Intn(3)])
		default:
			e.setProperty(govtypes.MaxDelegators, []uint64{1, 2, 100}[r.Intn(3)])
		}
	case 45:
		if e.spUpdate(pool, r.Range(1, 900), r.Chance(30)) {
			e.repeatDeposit("sp")
		}
	case 46:
		e.collUpdate([][]collectivestypes.WeightedSpendingPool{
			{{Name: "sp10", Weight: sdk.OneDec()}},
			{{Name: "sp1", Weight: sdk.NewDecWithPrec(5, 1)}, {Name: "sp1", Weight: sdk.NewDecWithPrec(5, 1)}},
			{}}[r.Intn(3)], []uint64{14400, 20000}[r.Intn(2)])
	case 47:
		if e.dappUpsert(e.draft) {
			e.repeatDeposit("dapp") // bond, change of the dApp, bond again by the same bonder
		}
	case 48:
		if e.basketEdit(r.Range(1, 4), r.Range(0, 5)) {
			e.repeatDeposit("basket")
		}
	case 49:
		// a second request while others are pending: several escrow entries at once
		e.tipRequest(1+r.Intn(4), 1+r.Intn(4), []int64{300, 450, 2_000}[r.Intn(3)])
	case 38:
		// the validator account of pool 2 (a1 issued RR tokens in the setup) is rotated by a holder of at least half of them
		holder := 1
		if r.Chance(30) {
			holder = u // usually holds too little: must be refused
		}
		if r.Chance(40) {
			// hand more than half to somebody else first (not to a registered RR holder: a holder of more than half who is
			// listed twice through the prefix collision makes IncreaseRecoveryTokenUnderlying panic in BeginBlock - C06's domain)
			if u == 4 || u == 5 {
				u = e.live[0]
			}
			e.bankSend(1, u, "rr/node1", 6_000_000_000_000)
			holder = u
		}
		e.rotateValidator(1, holder)
	case 39:
		if e.nRot < 4 && u >= 2 {
			e.rotateAccount(u)
		}
	case 40:
		e.multiDeposit(u, [][]string{{"sp1", "sp1"}, {"sp1", "sp10"}, {"sp10", "sp1", "sp10"}, {"sp1", "nosuchpool"}}[r.Intn(4)], []string{"ukex", "ubtc"}[r.Intn(2)], e.pickAmt())
	case 41:
		e.multiDelegate(u, v, stakable[r.Intn(2)], e.pickAmt(), 2+r.Intn(2))
	case 30, 31:
		// SpendingPoolWithdraw with 1..3 beneficiaries (a0 by role, a3, a4; sometimes a stranger) and 1..2 denominations
		bens := [][]int{{3}, {3, 4}, {0, 3, 4}, {4, 0}, {0}, {3, 5}}[r.Intn(6)]
		am := coins("ukex", r.Range(1, 3_000_000))
		if r.Bool() {
			am = am.Add(coin("ubtc", r.Range(1, 300_000)))
		}
		if r.Chance(10) {
			am = coins("ukex", 90_000_000_000_000) // more than the pool holds
		}
		e.withdrawProposal(pool, e.perturbInts(bens), e.perturbCoins(am))
	case 32, 33:
		e.distributionProposal(pool)
	case 34:
		e.surplusProposal(5, e.perturbIDs([][]uint64{{1}, {2}, {1, 2}, {2, 1}, {1, 7}}[r.Intn(5)]))
	case 35:
		if r.Bool() {
			e.collSendDonation(5, e.perturbCoins(coins("ukex", e.pickAmt())))
		} else {
			e.collRemove()
		}
	case 36:
		e.ubiProposal([]string{"ubiA", "ubiB"}[r.Intn(2)], uint64(r.Range(1, 40)), uint64([]int64{100, 86400, 20000}[r.Intn(3)]))
	case 37:
		// several denominations in one message
		switch r.Intn(3) {
		case 0:
			e.delegateCoins(u, v, e.perturbCoins(coins("ukex", e.pickAmt()).Add(coin("ubtc", e.pickAmt()))))
		case 1:
			e.spDepositCoins(u, pool, e.perturbCoins(coins("ukex", e.pickAmt()).Add(coin("ubtc", e.pickAmt())).Add(coin("xeth", e.pickAmt()))))
		default:
			e.basketMintCoins(u, e.perturbCoins(coins("ubtc", e.pickAmt()).Add(coin("xeth", e.pickAmt()))))
		}
	case 0, 1, 2:
		den, amt := stakable[r.Intn(2)], e.pickAmt()
		e.again["delegate"] = func() { e.delegate(u, v, den, amt+1) }
		e.delegate(u, v, den, amt)
		if r.Chance(25) { // a settings change of the delegator, then the same delegation again
			e.setCompound(u, r.Bool(), [][]string{{"ukex"}, {"ukex", "ubtc", "ukex"}, {}}[r.Intn(3)])
			e.repeatDeposit("delegate")
		}
	case 3, 4:
		// undelegate part of what the account holds in share tokens (or too much: must fail and roll back)
		den := stakable[r.Intn(2)]
		// steer towards an account that holds share tokens of some pool
		for try := 0; try < 12; try++ {
			if p, ok := e.poolOf(v); ok && app.BankKeeper.GetBalance(e.ctx(), e.accAddr(u), fmt.Sprintf("v%d/%s", p.Id, den)).Amount.IsPositive() {
				break
			}
			u, v, den = e.live[r.Intn(len(e.live))], r.Intn(2), stakable[r.Intn(2)]
		}
		p, ok := e.poolOf(v)
		if !ok {
			return
		}
		held := app.BankKeeper.GetBalance(e.ctx(), e.accAddr(u), fmt.Sprintf("v%d/%s", p.Id, den)).Amount
		amt := e.pickAmt()
		if held.IsPositive() && !r.Chance(20) {
			amt = 1 + r.Range(0, held.Int64()-1)
			if r.Chance(30) {
				amt = held.Int64()
			}
		}
		other := "ubtc"
		if den == "ubtc" {
			other = "ukex"
		}
		if oh := app.BankKeeper.GetBalance(e.ctx(), e.accAddr(u), fmt.Sprintf("v%d/%s", p.Id, other)).Amount; oh.IsPositive() && r.Chance(30) {
			e.undelegateCoins(u, v, e.perturbCoins(coins(den, amt).Add(coin(other, 1+r.Range(0, oh.Int64()-1)))))
		} else {
			e.undelegate(u, v, den, amt)
		}
	case 5:
		uns := app.MultiStakingKeeper.GetAllUndelegations(e.ctx())
		if len(uns) == 0 {
			e.claimUndelegation(u, 99)
			return
		}
		un := uns[r.Intn(len(uns))]
		for _, x := range uns { // prefer a matured one
			if x.Expiry <= uint64(e.c.Time.Unix()) && r.Chance(70) {
				un = x
				break
			}
		}
		who := u
		if !r.Chance(25) { // mostly the owner
			if id, ok := e.acc[un.Address]; ok && id >= 100 && id < 100+int64(len(e.c.Accounts)) {
				who = int(id - 100)
			}
		}
		e.claimUndelegation(who, un.Id)
	case 6:
		e.claimRewards(u)
	case 7:
		if r.Chance(35) {
			e.slash(v, []int64{1, 5, 10, 50, 33}[r.Intn(5)])
		} else {
			e.rewardAlloc(v, []int64{100, 50, 10}[r.Intn(3)])
		}
	case 8:
		e.rewardAlloc(v, []int64{100, 100, 37}[r.Intn(3)])
	case 9, 10:
		den, amt, bk := []string{"ubtc", "xeth"}[r.Intn(2)], e.pickAmt(), e.bk
		e.again["basket"] = func() { e.bk = bk; e.basketMint(u, den, amt+1) }
		e.basketMint(u, den, amt)
	case 11:
		held := app.BankKeeper.GetBalance(e.ctx(), e.accAddr(u), e.basketDenom()).Amount
		amt := e.pickAmt()
		if held.IsPositive() && !r.Chance(20) {
			amt = 1 + r.Range(0, held.Int64()-1)
		}
		e.basketBurn(u, amt)
	case 12:
		// a swap needs reserves of both tokens: steer by funding an empty basket first
		if b, err := app.BasketKeeper.GetBasketById(e.ctx(), e.bk); err == nil {
			for _, t := range b.Tokens {
				if t.Amount.LT(sdk.NewInt(5_000_000)) {
					e.basketMintCoins(u, coins("ubtc", r.Range(6_000_000, 9_000_000)).Add(coin("xeth", r.Range(6_000_000, 9_000_000))))
					break
				}
			}
		}
		p1 := baskettypes.SwapPair{InAmount: coin("ubtc", e.pickAmt()), OutToken: "xeth"}
		p2 := baskettypes.SwapPair{InAmount: coin("xeth", e.pickAmt()), OutToken: "ubtc"}
		switch r.Intn(6) {
		case 0:
			e.basketSwapPairs(u, []baskettypes.SwapPair{p1, p1}) // the same pair twice
		case 1:
			e.basketSwapPairs(u, []baskettypes.SwapPair{p1, p2, p1})
		case 2:
			e.basketSwapPairs(u, []baskettypes.SwapPair{})
		case 3:
			e.basketSwapPairs(u, []baskettypes.SwapPair{p2})
		default:
			e.basketSwapPairs(u, []baskettypes.SwapPair{p1})
		}
	case 13, 14:
		if r.Chance(15) {
			pool = "nosuchpool" // coins are sent before the pool is looked up: must roll back
		}
		den, amt := []string{"ukex", "ubtc", "xeth"}[r.Intn(3)], e.pickAmt()
		e.again["sp"] = func() { e.spDeposit(u, pool, den, amt+1) }
		e.spDeposit(u, pool, den, amt)
	case 15:
		e.spRegister([]int{3, 4, 0}[r.Intn(3)], pool)
	case 16:
		e.spClaim([]int{3, 4, 0, 4, 5}[r.Intn(5)], pool)
	case 17, 18:
		e.tipRequest(1+r.Intn(4), 1+r.Intn(4), []int64{200, 250, 1000, 5000, 777, 199, 0}[r.Intn(7)])
	case 19, 20:
		e.tipSettle(u)
	case 21:
		amt, dapp := r.Range(1000, 50_000_000), e.dapp
		e.again["dapp"] = func() { e.dapp = dapp; e.dappBond(u, amt/3+1) }
		e.dappBond(u, amt)
	case 22:
		e.dappReclaim([]int{2, u}[r.Intn(2)], r.Range(1, 30_000_000))
	case 23:
		p, ok := e.poolOf(0)
		if !ok {
			return
		}
		den := fmt.Sprintf("v%d/ukex", p.Id)
		held := app.BankKeeper.GetBalance(e.ctx(), e.accAddr(u), den).Amount
		amt := e.pickAmt()
		if held.IsPositive() && !r.Chance(20) {
			amt = 1 + r.Range(0, held.Int64()-1)
		}
		coll := e.coll
		e.again["coll"] = func() { e.coll = coll; e.collContribute(u, den, amt/2+1) }
		if e.collContribute(u, den, amt) && r.Chance(50) {
			// the contributor changes his donation and contributes AGAIN
			e.collDonate(u, []int64{50, 10, 33, 25}[r.Intn(4)])
			e.repeatDeposit("coll")
		}
	case 24:
		who := []int{3, u}[r.Intn(2)]
		if e.collDonate(who, []int64{50, 10, 33, 0, 100}[r.Intn(5)]) && r.Chance(50) {
			if p, ok := e.poolOf(0); ok { // ... and contributes again with the new donation in force
				e.collContribute(who, fmt.Sprintf("v%d/ukex", p.Id), 1+r.Range(0, 2_000_000))
			}
		}
	case 25:
		e.collWithdraw([]int{3, u}[r.Intn(2)])
	case 26:
		e.bankSend(u, e.live[r.Intn(len(e.live))], natives[r.Intn(3)], e.pickAmt())
	case 27:
		switch r.Intn(4) {
		case 0:
			e.recBurn(map[string]int{"rr/node1": 1, "rr/node10": 0}[e.rr], r.Range(1, 1_000_000_000_000))
		case 1:
			e.rrRegister(4) // a4 holds a little of both tokens: a second call registers him for the second one
		case 2:
			e.rrRegister(5)
		default:
			e.rrClaim([]int{4, 5, u}[r.Intn(3)])
		}
	case 28:
		e.ubi(uint64(r.Range(1, 50))*[]uint64{1, 1, 100000}[r.Intn(3)], r.Chance(40))
	case 29:
		// malformed: amounts the sender does not have
		switch r.Intn(3) {
		case 0:
			e.delegate(u, v, "ukex", 2_000_000_000_000_000)
		case 1:
			e.spDeposit(u, "sp1", "ubtc", 2_000_000_000_000_000)
		default:
			e.dappReclaim(u, 2_000_000_000_000_000)
		}
	}
}


// settle (handle / cancel) one of the pending identity verify requests, usually by the right party
func (e *env) tipSettle(u int) {
	r := e.r
	app := e.c.App
	reqs := app.CustomGovKeeper.GetAllIdRecordsVerifyRequests(e.ctx())
	if len(reqs) < 2 && r.Chance(70) { // keep several requests pending at once
		e.tipRequest(1+r.Intn(4), 1+r.Intn(4), []int64{300, 800}[r.Intn(2)])
		return
	}
	if len(reqs) == 0 {
		if r.Chance(15) {
			e.tipHandle(u, 77, true)
		} else {
			e.tipRequest(1+r.Intn(4), 1+r.Intn(4), 300)
		}
		return
	}
	rq := reqs[r.Intn(len(reqs))]
	who := u
	cancel := r.Chance(35)
	target := rq.Verifier
	if cancel {
		target = rq.Address
	}
	if !r.Chance(20) {
		if id, ok := e.acc[target]; ok && id >= 100 && id < 100+int64(len(e.c.Accounts)) {
			who = int(id - 100)
		}
	}
	// between the request and its settlement, touch the records it names: same values (dates move), a new value, a delete
	if id, ok := e.acc[rq.Address]; ok && id >= 100 && id < 100+int64(len(e.c.Accounts)) && r.Chance(40) {
		owner := int(id - 100)
		same := map[string]string{}
		for _, rec := range app.CustomGovKeeper.GetIdRecordsByAddress(e.ctx(), e.accAddr(owner)) {
			same[rec.Key] = rec.Value
		}
		switch r.Intn(5) {
		case 0:
			e.idRegister(owner, map[string]string{"site": fmt.Sprintf("z%d", r.Intn(2))})
		case 1:
			e.idDelete(owner, []string{"site"})
		default:
			if len(same) > 0 {
				e.idRegister(owner, same)
			}
		}
		if app.CustomGovKeeper.GetIdRecordsVerifyRequest(e.ctx(), rq.Id) == nil {
			return
		}
	}
	if cancel {
		e.tipCancel(who, rq.Id)
	} else {
		e.tipHandle(who, rq.Id, r.Bool())
	}
}

// the index of the account with this address, if it is one of the signing accounts
func (e *env) indexOf(addr string) (int, bool) {
	if id, ok := e.acc[addr]; ok && id >= 100 && id < 100+int64(len(e.c.Accounts)) {
		return int(id - 100), true
	}
	return 0, false
}

// settle one PENDING escrow entry of some kind by its rightful party: several entries of every kind stay pending at once,
// and each is eventually settled after other operations touched the objects it hangs on
func (e *env) settlePending(u int) {
	r := e.r
	app := e.c.App
	ctx := e.ctx()
	switch r.Intn(6) {
	case 0, 1:
		e.tipSettle(u)
	case 2:
		for _, un := range app.MultiStakingKeeper.GetAllUndelegations(ctx) {
			if who, ok := e.indexOf(un.Address); ok && un.Expiry <= uint64(e.c.Time.Unix()) {
				e.claimUndelegation(who, un.Id)
				return
			}
		}
	case 3:
		bonds := app.Layer2Keeper.GetAllUserDappBonds(ctx)
		if len(bonds) > 0 {
			b := bonds[r.Intn(len(bonds))]
			if who, ok := e.indexOf(b.User); ok && b.Bond.Amount.IsPositive() {
				amt := b.Bond.Amount.Int64()
				if r.Bool() && amt > 1 {
					amt = 1 + r.Range(0, amt-1)
				}
				e.dappReclaim(who, amt)
			}
		}
	case 4:
		var ccs []collectivestypes.CollectiveContributor
		for _, cc := range app.CollectivesKeeper.GetAllCollectiveContributers(ctx) {
			if cc.Name == e.coll {
				ccs = append(ccs, cc)
			}
		}
		if len(ccs) > 0 {
			if who, ok := e.indexOf(ccs[r.Intn(len(ccs))].Address); ok {
				e.collWithdraw(who)
			}
		}
	default:
		for _, pl := range []string{"sp1", "sp10"} {
			for _, ci := range app.SpendingKeeper.GetPoolClaimInfos(ctx, pl) {
				if who, ok := e.indexOf(ci.Account); ok && r.Bool() {
					e.spClaim(who, pl)
					return
				}
			}
		}
	}
}

func (e *env) randomHistory(blocks, opsPerBlock int) {
	e.setup()
	for b := 0; b < blocks; b++ {
		dt := int64(5)
		k := e.r.Intn(8)
		if k > 1 && e.r.Chance(25) && len(e.c.App.MultiStakingKeeper.GetAllUndelegations(e.c.QueryCtx())) > 0 {
			k = 0
		}
		switch k {
		case 0:
			dt = 2_700_000 // beyond the unstaking period: undelegations mature
		case 1:
			dt = 20_000 // beyond the collective claim period
		}
		// probe the maturity of a pending undelegation at the boundary: one second early, exactly, one second late
		if uns := e.c.App.MultiStakingKeeper.GetAllUndelegations(e.c.QueryCtx()); len(uns) > 0 && e.r.Chance(20) {
			if d := int64(uns[e.r.Intn(len(uns))].Expiry) - e.c.Time.Unix() + []int64{-1, 0, 1}[e.r.Intn(3)]; d > 0 {
				dt = d
			}
		}
		if b > 0 && e.r.Chance(12) {
			e.reimport()
		}
		e.begin(dt, e.r.Intn(2))
		if e.draft == nil || e.r.Chance(30) {
			if d := e.c.App.Layer2Keeper.GetDapp(e.ctx(), "dapp1"); d.Name != "" {
				e.draft = &d
			}
		}
		n := 1 + e.r.Intn(opsPerBlock)
		for i := 0; i < n; i++ {
			e.randomOp()
		}
		e.end()
	}
}

// ---------------------------------------------------------------- targeted scenarios
// slash then redeem: liabilities measured in shares exceed the stake
func scenarioSlash(e *env) {
	e.setup()
	e.begin(5, 0)
	e.delegate(1, 0, "ukex", 1_000_000)
	e.delegate(2, 0, "ukex", 1_000_000)
	e.delegate(2, 0, "ubtc", 500_000)
	e.slash(0, 50)
	e.undelegate(1, 0, "ukex", 2_000_000) // 1 000 000 shares redeem 2 000 000 at the post-slash rate
	e.undelegate(2, 0, "ukex", 1_000_000)
	e.end()
	e.begin(2_700_000, 1)
	for _, un := range e.c.App.MultiStakingKeeper.GetAllUndelegations(e.ctx()) {
		e.claimUndelegation(1, un.Id)
	}
	e.end()
}

// reward credit by rounding: stake caps 1/2 + 1/2 (ubtc's cap raised by governance), a reward of 3
func scenarioRounding(e *env) {
	e.setup()
	e.begin(5, 0)
	e.direct("setup", func(ctx sdk.Context) error {
		tx := e.c.App.TokensKeeper.GetTokenInfo(ctx, "xeth")
		tx.StakeCap = sdk.ZeroDec()
		if err := e.c.App.TokensKeeper.UpsertTokenInfo(ctx, *tx); err != nil {
			return err
		}
		ti := e.c.App.TokensKeeper.GetTokenInfo(ctx, "ubtc")
		ti.StakeCap = sdk.NewDecWithPrec(5, 1)
		return e.c.App.TokensKeeper.UpsertTokenInfo(ctx, *ti)
	}, nil, nil, map[string]interface{}{"what": "token-info upserts as a passed proposal would: stake cap of xeth 0, of ubtc 0.5 (ukex has 0.5): caps sum to 1"})
	e.delegate(4, 1, "ukex", 1_000_000)
	e.delegate(4, 1, "ubtc", 1_000_000)
	p, _ := e.poolOf(1)
	for i := 0; i < 3; i++ {
		e.direct("reward_alloc", func(ctx sdk.Context) error {
			e.c.App.MultiStakingKeeper.IncreasePoolRewards(ctx, p, sdk.NewCoins(sdk.NewInt64Coin("ukex", 3)))
			return nil
		}, nil, []string{"(0, 3)"}, map[string]interface{}{"validator": 1, "rewards": "3ukex", "note": "round(1.5)+round(1.5)=4 credited"})
	}
	e.claimRewards(4)
	e.end()
}

// every proposal path that pays out of a module, with several payees and denominations
func scenarioProposals(e *env) {
	e.setup()
	e.begin(5, 0)
	e.withdrawProposal("sp1", []int{3}, coins("ukex", 1_000))
	e.withdrawProposal("sp1", []int{3, 3}, coins("ukex", 77))                // the same beneficiary twice: paid twice, recorded twice
	e.withdrawProposal("sp1", []int{}, coins("ukex", 77))                    // nobody
	e.withdrawProposal("sp1", []int{4}, sdk.Coins{coin("ukex", 5), coin("ukex", 6)}) // a denomination twice: must fail as a whole
	e.withdrawProposal("sp10", []int{0, 3, 0}, coins("ukex", 1_234))
	e.withdrawProposal("sp1", []int{3, 4}, coins("ukex", 1_000_000).Add(coin("ubtc", 70_000)))
	e.withdrawProposal("sp1", []int{0, 3, 4}, coins("ukex", 333))
	e.withdrawProposal("sp1", []int{3, 5}, coins("ukex", 5)) // a5 is no beneficiary: the first payment must be rolled back
	e.basketMintCoins(2, coins("ubtc", 900_000).Add(coin("xeth", 400_000)))
	e.basketSwap(2, "ubtc", 50_000, "xeth")
	e.bk = 2
	e.basketMintCoins(2, coins("ubtc", 500_000).Add(coin("xeth", 500_000)))
	e.basketSwapPairs(2, []baskettypes.SwapPair{{InAmount: coin("xeth", 30_000), OutToken: "ubtc"}, {InAmount: coin("xeth", 30_000), OutToken: "ubtc"}})
	e.bk = 1
	e.surplusProposal(5, []uint64{1, 1})    // the same basket twice: its surplus may be paid once
	e.basketSwap(2, "xeth", 40_000, "ubtc")
	e.surplusProposal(5, []uint64{2, 1, 2}) // overlap
	e.surplusProposal(5, []uint64{})
	e.surplusProposal(5, []uint64{1, 9}) // unknown id
	e.ubiProposal("ubiA", 7, 100)
	e.end()
	e.begin(3_600, 1)
	e.distributionProposal("sp1")
	e.distributionProposal("sp10") // a0 is a beneficiary by account and by role, a3 is listed twice
	e.spClaim(4, "sp1")
	e.basketBurn(2, 100_000)
	e.collSendDonation(5, coins("ukex", 10))
	e.collRemove()
	e.end()
	e.begin(700_000, 0) // past the dApp bootstrap: refund or LP issue in EndBlock
	e.end()
	e.begin(5, 1)
	e.distributionProposal("sp1")
	e.end()
}

// address rotation: x/recovery rewrites the records of other modules (staking pool, rewards, contributors, verify requests,
// claim infos); afterwards every module must still hold what its records say, and a genesis export / re-import must reproduce them
func scenarioRotation(e *env) {
	e.setup()
	e.begin(5, 0)
	e.delegate(4, 1, "ukex", 8_000_000)
	e.delegateCoins(3, 1, coins("ukex", 2_000_000).Add(coin("ubtc", 700_000)))
	e.tipRequest(3, 4, 500)
	e.undelegate(4, 1, "ukex", 3_000_000)
	e.rotateValidator(1, 4) // a4 holds no RR tokens: refused
	e.rotateValidator(1, 1)
	e.delegate(4, 1, "ukex", 1_000)
	e.undelegate(4, 1, "ukex", 500)
	e.rewardAlloc(1, 50)
	e.rotateAccount(3) // delegator, collective contributor, tip requester, spending beneficiary
	e.rotateAccount(2) // dApp bonder, pool owner
	n := len(e.c.Accounts) - 2
	e.undelegate(n, 0, "ukex", 1_000_000)
	e.tipCancel(n, 1)
	e.collWithdraw(n)
	e.dappReclaim(n+1, 1_000)
	e.claimRewards(n)
	e.end()
	e.reimport()
	e.begin(2_700_000, 1)
	for _, un := range e.c.App.MultiStakingKeeper.GetAllUndelegations(e.ctx()) {
		e.claimUndelegation(4, un.Id)
		e.claimUndelegation(n, un.Id)
	}
	e.end()
	e.reimport()
}

// several escrow entries pending at once, and every operation that touches the object an entry hangs on between its
// creation and its settlement
func scenarioEscrows(e *env) {
	e.setup()
	e.begin(5, 0)
	ids := func(u int) []uint64 {
		var out []uint64
		for _, r := range e.c.App.CustomGovKeeper.GetIdRecordsByAddress(e.ctx(), e.accAddr(u)) {
			out = append(out, r.Id)
		}
		return out
	}
	// every deposit-type operation is repeated by the SAME actor after a settings change of that actor
	e.delegate(4, 0, "ukex", 2_000_000)
	e.delegate(5, 0, "ukex", 1_500_000)
	e.collContribute(4, "v1/ukex", 1_000_000) // a second contributor with plain bonds ...
	e.collContribute(5, "v1/ukex", 600_000)
	e.collDonate(5, 50)                        // ... and one who donates half,
	e.collContribute(5, "v1/ukex", 400_000)   // contributes again (only the donated share of THIS contribution may move),
	e.collDonate(5, 25)
	e.collContribute(5, "v1/ukex", 200_001) // and again after lowering the donation
	e.setCompound(4, true, nil)
	e.delegate(4, 0, "ukex", 2_000_001)
	e.spDeposit(5, "sp1", "ukex", 777)
	e.spUpdateV("sp1", 300, false, 0)
	e.spDeposit(5, "sp1", "ukex", 778)
	e.tipRequestIDs(1, 4, ids(1), 500)
	e.tipRequestIDs(2, 4, ids(2), 700)
	e.tipRequestIDs(3, 1, ids(3), 300)
	e.tipRequestIDs(4, 1, ids(4)[:1], 900)
	e.dappBond(3, 5_000_000)
	e.dappBond(4, 7_000_000)
	d := e.c.App.Layer2Keeper.GetDapp(e.ctx(), "dapp1")
	e.undelegate(3, 0, "ukex", 1_000_000)
	e.undelegate(3, 0, "ukex", 2_000_000)
	e.end()
	e.begin(60, 1)
	e.idRegister(1, map[string]string{"moniker": "node1", "site": "x"}) // same values: only the record dates move
	e.tipHandle(4, 1, true)                                              // the tip of request 1 may leave the module once
	e.idRegister(2, map[string]string{"site": "elsewhere"})              // new value: request 2 is cancelled and refunded
	e.tipHandle(4, 2, true)
	e.idDelete(3, []string{"site"}) // request 3 names the deleted record: cancelled and refunded
	e.setProperty(govtypes.MinIdentityApprovalTip, 1000)
	e.tipRequestIDs(2, 4, ids(2), 500) // below the new minimum
	e.tipHandle(1, 4, false)
	e.setProperty(govtypes.UnstakingPeriod, 604800)
	e.undelegate(3, 0, "ukex", 3_000_000)
	e.dappReclaim(3, 4_000_000)
	e.dappUpsert(&d) // drafted before the reclaim
	e.dappBond(3, 1_000_003) // the same bonder bonds again after the dApp was edited
	e.collWithdraw(5)
	e.collWithdraw(4)
	e.spUpdate("sp1", 250, true)
	e.basketEdit(3, 2)
	e.collUpdate([]collectivestypes.WeightedSpendingPool{{Name: "sp10", Weight: sdk.OneDec()}}, 14400)
	e.slash(0, 10)
	e.end()
	e.begin(700_000, 0)
	for _, un := range e.c.App.MultiStakingKeeper.GetAllUndelegations(e.ctx()) {
		e.claimUndelegation(3, un.Id)
	}
	e.spClaim(0, "sp1")
	e.end()
	e.reimport()
}

// ---------------------------------------------------------------- scripted boundary stream (runs in every check)
// Every operation with a rounding step is swept over odd / even amounts and .5 boundaries, over 1-3 denominations, and
// judged by the same clauses: slashes, pro-rata redemption, reward allocation, basket mint / burn / swap, rate-based
// spending claims, collectives portions.
var sweepAmounts = []int64{1, 2, 3, 5, 7, 999, 1001, 13, 15, 1_000_003}

func dec(s string) sdk.Dec { return sdk.MustNewDecFromStr(s) }

func scenarioBoundaries(e *env) {
	app := e.c.App
	e.setup()
	e.begin(5, 0)
	// a third stakable denomination (as a passed token-info proposal would enable it)
	e.direct("setup", func(ctx sdk.Context) error {
		ti := app.TokensKeeper.GetTokenInfo(ctx, "xeth")
		ti.StakeEnabled = true
		return app.TokensKeeper.UpsertTokenInfo(ctx, *ti)
	}, nil, nil, map[string]interface{}{"what": "xeth made stakable"})
	nVal := len(e.c.Validators)
	for v := 2; v < nVal; v++ {
		e.tx("setup", v, []sdk.Msg{mstypes.NewMsgUpsertStakingPool(e.addr(v), e.valStr(v), true, sdk.NewDecWithPrec(10, 2))}, nil, map[string]interface{}{"what": "staking pool", "validator": v})
	}
	// stakes per pool and denomination, two delegators each (odd splits)
	stakes := [][3]int64{{1, 2, 3}, {5, 7, 999}, {1001, 3, 11}, {999, 999, 1}, {7, 1001, 2}, {13, 15, 1_000_003}}
	fracs := [][]string{
		{"0.5", "0.5", "0.5"},
		{"0.5", "0.25", "0.125"},
		{"0.25", "0.333333333333333333", "0.5"},
		{"0.5", "0.01", "0.5"},
		{"0.125", "0.5", "0.333333333333333333"},
		{"0.333333333333333333", "0.5", "0.25", "0.01", "0.5"}}
	for i, st := range stakes {
		v := 2 + i
		if v >= nVal {
			break
		}
		dens := []string{"ukex", "ubtc", "xeth"}
		for j, d := range dens[:1+i%3] { // 1, 2 or 3 denominations staked in the pool
			a := st[j]
			first := (a + 1) / 2
			e.delegate(1, v, d, first)
			if a-first > 0 {
				e.delegate(5, v, d, a-first)
			}
		}
		if i%3 != 2 { // and one pool shape with all three in ONE message
			e.delegateCoins(4, v, coins("ukex", st[0]).Add(coin("ubtc", st[1])).Add(coin("xeth", st[2])))
		}
	}
	e.end()
	e.begin(7, 1)
	for i := range stakes {
		v := 2 + i
		if v >= nVal {
			break
		}
		for k, f := range fracs[i] {
			e.slashDec(v, dec(f))
			// redeem pro rata after the slash: small and odd amounts by a holder
			if p, ok := e.poolOf(v); ok {
				for _, c := range p.TotalStakingTokens {
					if k%2 == 0 && c.Amount.IsPositive() {
						amt := sweepAmounts[(i+k)%len(sweepAmounts)]
						if c.Amount.LT(sdk.NewInt(amt)) {
							amt = 1
						}
						e.undelegate(1, v, c.Denom, amt)
					}
				}
			}
		}
	}
	// reward allocations of 1, 2, 3, ... units to a pool with several staked denominations and delegators
	for _, a := range sweepAmounts[:8] {
		e.rewardExact(0, coins("ukex", a))
		e.rewardExact(1, coins("ukex", a).Add(coin("ubtc", a+2)))
	}
	e.delegateCoins(2, 1, coins("ukex", 999).Add(coin("ubtc", 1001)))
	e.delegateCoins(3, 1, coins("ukex", 7).Add(coin("ubtc", 3)))
	for _, a := range sweepAmounts[:8] {
		e.rewardExact(1, coins("ukex", a).Add(coin("ubtc", a)))
	}
	e.claimRewards(2)
	e.claimRewards(3)
	e.end()

	// baskets: mint / burn / swap amounts over the sweep, both baskets (weights 2:1 and 1:3)
	e.begin(3, 0)
	for _, bid := range []uint64{1, 2} {
		e.bk = bid
		e.basketMintCoins(2, coins("ubtc", 1_000_001).Add(coin("xeth", 999_999)))
		for _, a := range sweepAmounts {
			e.basketMint(3, []string{"ubtc", "xeth"}[a%2], a)
			e.basketMintCoins(3, coins("ubtc", a).Add(coin("xeth", a+1)))
		}
		for _, a := range sweepAmounts[:8] {
			e.basketSwap(3, "ubtc", a*101, "xeth")
			e.basketSwap(3, "xeth", a*99+1, "ubtc")
			e.basketBurn(3, a)
		}
		e.surplusProposal(5, []uint64{bid})
	}
	e.bk = 1
	// spending claims over odd durations and weights 1, 2, 1.5; withdraw proposals of odd amounts to 1-3 payees
	for _, dt := range []int64{1, 3, 7, 2, 999} {
		e.end()
		e.begin(dt, 1)
		e.spClaim(3, "sp1")
		e.spClaim(4, "sp1")
		e.spClaim(0, "sp1")
		e.distributionProposal("sp10")
		e.withdrawProposal("sp1", []int{3, 4, 0}[:1+int(dt%3)], coins("ukex", dt).Add(coin("ubtc", dt+2)))
	}
	// collectives: contributions of odd amounts, donation fractions on the .5 boundary, withdrawals
	shares := "v1/ukex"
	for i, a := range []int64{3, 1, 5, 7, 999, 1001} {
		u := []int{4, 5}[i%2]
		e.delegate(u, 0, "ukex", a+10)
		e.collContribute(u, shares, a)
		e.collDonate(u, []int64{50, 25, 33, 50, 1, 50}[i])
		if i%2 == 1 {
			e.collWithdraw(u)
		}
	}
	e.collWithdraw(4)
	e.collWithdraw(5)
	e.collWithdraw(3)
	e.end()
}

// identifiers that are prefixes of one another (rr/node1 - rr/node10, sp1 - sp10, coll1 - coll10, dapp1 - dapp10): an account
// holding and registered for both recovery tokens, both validators rewarded over several blocks, contributors and bonders of
// both collectives / dApps, removal of the shorter-named collective
func scenarioPrefixes(e *env) {
	e.setup()
	e.begin(5, 0)
	e.rrRegister(4)
	e.rrRegister(4)
	e.rrRegister(5)
	e.delegate(4, 0, "ukex", 3_000_000)
	e.delegate(5, 0, "ukex", 5_000_000)
	e.coll = "coll10"
	e.collContribute(4, "v1/ukex", 1_000_001)
	e.coll = "coll1"
	e.collContribute(5, "v1/ukex", 2_000_003)
	e.dapp = "dapp10"
	e.dappBond(5, 7_000_001)
	e.dapp = "dapp1"
	e.dappBond(4, 9_000_003)
	e.spDepositCoins(2, "sp10", coins("ukex", 1_000_003).Add(coin("ubtc", 77)))
	e.spRegister(4, "sp1")
	e.end()
	for b := 0; b < 6; b++ { // both validators propose and are paid: their rewards go to the recovery module
		e.begin(600, b%2)
		if b == 3 {
			e.rrClaim(4)
			e.spClaim(4, "sp1")
			e.distributionProposal("sp10")
		}
		e.end()
	}
	e.begin(5, 0)
	e.rrClaim(4)
	e.rrClaim(5)
	e.rr = "rr/node10"
	e.recBurn(4, 1_000_000)
	e.rr = "rr/node1"
	e.recBurn(4, 500_000)
	e.collRemove() // coll1: must not touch coll10's contributors
	e.coll = "coll10"
	e.collWithdraw(4)
	e.collWithdraw(3)
	e.dapp = "dapp10"
	e.dappReclaim(5, 1_000_001)
	e.end()
	e.begin(700_000, 1) // dApp bootstraps end: refunds by dApp name
	e.end()
	e.reimport()
}

// every list-valued field of the proposal contents and messages the monitor drives, in every list variant (an existing entry
// repeated, a new entry, a new entry twice, empty, permuted, one removed, the whole list twice), on objects that hold coins
func scenarioListStructures(e *env) {
	e.setup()
	e.begin(5, 0)
	for _, bid := range []uint64{1, 2} {
		e.bk = bid
		e.basketMintCoins(2, coins("ubtc", 2_000_000).Add(coin("xeth", 3_000_000)))
		e.basketSwap(2, "ubtc", 100_000, "xeth")
	}
	for k := 0; k < nListVariants; k++ {
		e.bk = uint64(1 + k%2)
		e.basketEditV(2, 1, k)
		e.spUpdateV([]string{"sp1", "sp10"}[k%2], 100+int64(k), false, k)
		e.withdrawProposal("sp1", listVariant([]int{3, 4}, k, 1, func() (int, bool) { return 0, true }), coins("ukex", 1_000+int64(k)))
		e.surplusProposal(5, listVariant([]uint64{1, 2}, k, 0, func() (uint64, bool) { return 7, true }))
		e.multiSend(2, listVariant([]int{3, 4}, k, 0, func() (int, bool) { return 5, true }), "ukex", 10+int64(k))
		e.coll = []string{"coll1", "coll10"}[k%2]
		e.collUpdate(listVariant([]collectivestypes.WeightedSpendingPool{{Name: "sp1", Weight: sdk.NewDecWithPrec(5, 1)}, {Name: "sp10", Weight: sdk.NewDecWithPrec(5, 1)}}, k, 0,
			func() (collectivestypes.WeightedSpendingPool, bool) {
				return collectivestypes.WeightedSpendingPool{Name: "nosuchpool", Weight: sdk.NewDecWithPrec(1, 1)}, true
			}), 14400)
		d := e.c.App.Layer2Keeper.GetDapp(e.ctx(), "dapp1")
		e.dappUpsert(&d)
		e.tipRequestIDs(1+k%4, 1+(k+1)%4, listVariant([]uint64{1, 2}, k, 0, func() (uint64, bool) { return 99, true }), 300)
	}
	e.coll = "coll1"
	e.bk = 1
	e.basketBurn(2, 100_000)
	e.end()
	e.begin(20_000, 1)
	e.distributionProposal("sp1")
	e.distributionProposal("sp10")
	e.end()
}

// layer2 MintIssueTx mints the native token
func scenarioNativeIssue(e *env) {
	e.setup()
	e.begin(5, 0)
	e.l2MintIssue(4, "ukex", 1_000_000)
	e.end()
}

func main() {
	outDir := flag.String("out", ".", "output directory")
	n := flag.Int("n", 12, "number of random histories")
	blocks := flag.Int("blocks", 8, "blocks per history")
	ops := flag.Int("ops", 6, "max operations per block")
	flag.Parse()
	out := hx.Out{Dir: *outDir}
	seed := hx.Seed()
	dist := hx.Counter{}
	var cases []string
	var jcases []map[string]interface{}
	classes := map[int64]int64{}
	shares := map[int64][2]int64{}
	finish := func(e *env, name string, hseed uint64) {
		for id := range e.denName {
			classes[id] = denClass(id)
		}
		for id, ps := range e.shareSet {
			shares[id] = ps
		}
		cases = append(cases, fmt.Sprintf("(CHist %s [%s])", e.init.coq(), strings.Join(e.steps, "; ")))
		accs := map[string]string{}
		for id, nm := range e.accName {
			accs[fmt.Sprint(id)] = nm
		}
		dens := map[string]string{}
		for id, nm := range e.denName {
			dens[fmt.Sprint(id)] = nm
		}
		opsCount := map[string]int{}
		for _, js := range e.jsteps {
			opsCount[fmt.Sprintf("%v:%v", js["kind"], js["status"])]++
		}
		jcases = append(jcases, map[string]interface{}{"name": name, "seed": hseed, "ops": opsCount, "accounts": accs, "denoms": dens, "steps": e.jsteps, "notes": e.notes,
			"replay": "VERIF_SEED=<run seed> harness/bin/c04 -out <dir> -n <n> reproduces history `name` (histories are generated in order from the run seed)"})
		dist.Inc("history:" + strings.SplitN(name, ":", 2)[0])
	}
	for _, sc := range []struct {
		name string
		f    func(*env)
	}{{"scenario:slash_then_redeem", scenarioSlash}, {"scenario:reward_rounding", scenarioRounding}, {"scenario:native_issue", scenarioNativeIssue}, {"scenario:proposal_payouts", scenarioProposals}, {"scenario:rotation_reimport", scenarioRotation}, {"scenario:escrows_interleaved", scenarioEscrows}, {"scenario:rounding_boundaries", scenarioBoundaries}, {"scenario:prefix_collisions", scenarioPrefixes}, {"scenario:list_structures", scenarioListStructures}} {
		e := newEnv(seed, dist)
		if sc.name == "scenario:rounding_boundaries" {
			e = newEnvN(seed, dist, 8, 8)
		}
		sc.f(e)
		finish(e, sc.name, seed)
	}
	master := hx.NewRng(seed)
	for i := 0; i < *n; i++ {
		hs := master.Next()
		e := newEnv(hs, dist)
		e.randomHistory(*blocks, *ops)
		finish(e, fmt.Sprintf("random:%d", i), hs)
	}
	// shared tables
	var dc, sm []string
	var ids []int64
	for id := range classes {
		ids = append(ids, id)
	}
	sort.Slice(ids, func(i, j int) bool { return ids[i] < ids[j] })
	for _, id := range ids {
		dc = append(dc, fmt.Sprintf("(%d, %d)", id, classes[id]))
	}
	ids = nil
	for id := range shares {
		ids = append(ids, id)
	}
	sort.Slice(ids, func(i, j int) bool { return ids[i] < ids[j] })
	for _, id := range ids {
		sm = append(sm, fmt.Sprintf("(%d, (%d, %d))", id, shares[id][0], shares[id][1]))
	}
	pre := "From Sekai Require Import Base.Prelude Base.Dec Gen.MintBurnSites Model.LedgerInv Model.C04Check.\n" +
		"Definition dclass : list (Z * Z) := " + hx.List(dc) + ".\n" +
		"Definition shmap : list (Z * (Z * Z)) := " + hx.List(sm) + ".\n"
	out.WriteFile("pre.v", pre)
	out.WriteFile("cases.txt", strings.Join(cases, "\n")+"\n")
	out.WriteJSON("meta.json", map[string]string{"case_type": "c04_case", "mismatch_fn": "c04_mismatches", "violation_fn": "c04_violations dclass shmap"})
	out.WriteJSON("cases.json", jcases)
	d := map[string]int{}
	for _, k := range dist.Sorted() {
		d[k] = dist[k]
	}
	out.WriteJSON("dist.json", d)
	steps := 0
	for _, j := range jcases {
		steps += len(j["steps"].([]map[string]interface{}))
	}
	fmt.Printf("c04: %d histories, %d steps\n", len(cases), steps)
}
