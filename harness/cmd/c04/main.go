// c04: ABCI-level monitor for "supply is conserved and every module can pay what it owes".
// Runs the REAL application (InitChain, signed transactions through DeliverTx, BeginBlock /
// EndBlock / Commit, plus direct calls of real keepers on the deliver state for slashes and
// reward allocations) on random interleavings of operations of all coin-holding modules.  After
// every transaction, keeper call and block boundary it records: the bank events of the step, every
// changed balance, the changed supplies, and the changed module records decoded with the keepers'
// own getters (liabilities).  Output: one Coq term per history (cases.txt), evaluated in Coq by
// Model/C04Check.v (ledger replay, model operations, spec checker).
package main

import (
	"fmt"
	"time"
	"math/big"
	"sort"
	"strconv"
	"strings"

	"verif/harness/abci"
	"verif/harness/hx"

	l2types "github.com/KiraCore/sekai/x/layer2/types"
	abcitypes "github.com/cometbft/cometbft/abci/types"
	tmproto "github.com/cometbft/cometbft/proto/tendermint/types"
	sdk "github.com/cosmos/cosmos-sdk/types"
	banktypes "github.com/cosmos/cosmos-sdk/x/bank/types"
)

// ---------------------------------------------------------------- identifiers shared with the Coq model
var moduleIDs = map[string]int64{"fee_collector": 1, "customgov": 2, "mint": 3, "spending": 4, "distributor": 5,
	"basket": 6, "multistaking": 7, "collectives": 8, "layer2": 9, "recovery": 10}

const (
	kStaked, kUndel, kReward, kBToken, kSurplus, kSpool, kTip = 1, 2, 3, 4, 5, 6, 7
	kDapp, kCollBond, kCollDon, kRecUnder, kRRReward        = 10, 11, 12, 13, 14
	kCollDonShare                                           = 15
)

type key2 struct{ a, d int64 }
type key4 struct{ m, k, i, d int64 }

type snapshot struct {
	bal map[key2]*big.Int
	sup map[int64]*big.Int
	rec map[key4]*big.Int
	sl  map[int64]*big.Int
}

type env struct {
	c        *abci.Chain
	r        *hx.Rng
	acc      map[string]int64
	accName  map[int64]string
	den      map[string]int64
	denName  map[int64]string
	nOther   int64
	nColl    int64
	nNative  int64
	nLp      int64
	nRR      int64
	nIssued  int64
	spools   map[string]int64
	dapps    map[string]int64
	colls    map[string]int64
	recs     map[string]int64
	prev     *snapshot
	init     *snapshot
	steps    []string
	jsteps   []map[string]interface{}
	dist     hx.Counter
	inBlock  bool
	valPool  []uint64 // pool id per validator (0 = none)
	bk       uint64   // basket the next basket operation addresses
	valAddr  []string // current validator (operator) address per validator: changes with address rotation
	live     []int    // account indexes that still hold their funds (not rotated away)
	nRot     int
	again    map[string]func() // the last deposit-type operation per class, to be repeated by the same actor after a change
	coll     string // the collective / dApp / recovery token the next operation addresses
	dapp     string
	rr       string
	draft    *l2types.Dapp // the dApp as a proposer saw it some blocks ago
	shareSet map[int64][2]int64
	notes    []string
}

func (e *env) accID(addr string) int64 {
	if id, ok := e.acc[addr]; ok {
		return id
	}
	e.nOther++
	id := 500 + e.nOther
	e.acc[addr] = id
	e.accName[id] = addr
	return id
}

func (e *env) denID(d string) int64 {
	if id, ok := e.den[d]; ok {
		return id
	}
	var id int64
	switch {
	case strings.HasPrefix(d, "v") && strings.Contains(d, "/") && isNum(d[1:strings.Index(d, "/")]):
		p, _ := strconv.ParseInt(d[1:strings.Index(d, "/")], 10, 64)
		nat := e.denID(d[strings.Index(d, "/")+1:])
		if nat < 100 && p >= 1 && p < 1000 {
			id = p*100 + nat
			e.shareSet[id] = [2]int64{p, nat}
		} else {
			e.nIssued++
			id = 300000 + e.nIssued
		}
	case strings.HasPrefix(d, "b") && strings.Contains(d, "/") && isNum(d[1:strings.Index(d, "/")]):
		b, _ := strconv.ParseInt(d[1:strings.Index(d, "/")], 10, 64)
		id = 100000 + b
	case strings.HasPrefix(d, "lp/"):
		e.nLp++
		id = 150000 + e.nLp
	case strings.HasPrefix(d, "rr/"):
		e.nRR++
		id = 160000 + e.nRR
	case strings.Contains(d, "/"):
		e.nIssued++
		id = 200000 + e.nIssued
	default:
		e.nNative++
		id = e.nNative
	}
	e.den[d] = id
	e.denName[id] = d
	return id
}

func isNum(s string) bool {
	if s == "" {
		return false
	}
	for _, c := range s {
		if c < '0' || c > '9' {
			return false
		}
	}
	return true
}

func denClass(id int64) int64 {
	switch {
	case id < 100:
		return 0
	case id < 100000:
		return 1
	case id < 150000:
		return 2
	case id < 160000:
		return 3
	case id < 200000:
		return 4
	}
	return 5
}

// ---------------------------------------------------------------- observation
func (e *env) ctx() sdk.Context {
	if e.inBlock {
		return e.c.Ctx()
	}
	return e.c.QueryCtx()
}

func addTo(m map[key4]*big.Int, k key4, v *big.Int) {
	if v.Sign() == 0 {
		return
	}
	if old, ok := m[k]; ok {
		m[k] = new(big.Int).Add(old, v)
	} else {
		m[k] = new(big.Int).Set(v)
	}
}

func (e *env) snap() *snapshot { return e.snapOf(e.c, e.ctx()) }

// every record is found by iterating the module's store (the keepers' prefix iterators), never by ids the harness remembers:
// a duplicated or orphaned record counts as a liability
func (e *env) snapOf(c *abci.Chain, ctx sdk.Context) *snapshot {
	app := c.App
	s := &snapshot{bal: map[key2]*big.Int{}, sup: map[int64]*big.Int{}, rec: map[key4]*big.Int{}, sl: map[int64]*big.Int{}}
	// collectives first: both escrow addresses of a collective are one account of the model
	colls := app.CollectivesKeeper.GetAllCollectives(ctx)
	for _, c := range colls {
		idx, ok := e.colls[c.Name]
		if !ok {
			e.nColl++
			idx = e.nColl
			e.colls[c.Name] = idx
		}
		// books PER ACCOUNT: the bond address owes every contributor RoundInt(bonds*(1-donation)), the donation address
		// RoundInt(bonds*donation) -- exactly what WithdrawCollective takes from each of them
		bondID, donID := 1000+2*idx, 1000+2*idx+1
		e.acc[c.GetCollectiveAddress().String()] = bondID
		e.acc[c.GetCollectiveDonationAddress().String()] = donID
		e.accName[bondID] = "collective-bond-account:" + c.Name
		e.accName[donID] = "collective-donation-account:" + c.Name
		// every contributor record of the store, matched by its exact collective name (the keeper's per-collective getter
		// iterates an un-separated key prefix: "coll1" would also return the contributors of "coll10")
		for _, cc := range app.CollectivesKeeper.GetAllCollectiveContributers(ctx) {
			if cc.Name != c.Name {
				continue
			}
			don := cc.Donation
			if don.IsNil() {
				don = sdk.ZeroDec()
			}
			for _, coin := range cc.Bonds {
				amt := sdk.NewDecFromInt(coin.Amount)
				addTo(s.rec, key4{bondID, kCollBond, idx, e.denID(coin.Denom)}, amt.Mul(sdk.OneDec().Sub(don)).RoundInt().BigInt())
				addTo(s.rec, key4{donID, kCollDonShare, idx, e.denID(coin.Denom)}, amt.Mul(don).RoundInt().BigInt())
			}
		}
		for _, coin := range c.Donations {
			addTo(s.rec, key4{8, kCollDon, idx, e.denID(coin.Denom)}, coin.Amount.BigInt())
		}
	}
	app.BankKeeper.IterateAllBalances(ctx, func(addr sdk.AccAddress, coin sdk.Coin) bool {
		k := key2{e.accID(addr.String()), e.denID(coin.Denom)}
		if old, ok := s.bal[k]; ok {
			s.bal[k] = new(big.Int).Add(old, coin.Amount.BigInt())
		} else {
			s.bal[k] = new(big.Int).Set(coin.Amount.BigInt())
		}
		return false
	})
	app.BankKeeper.IterateTotalSupply(ctx, func(coin sdk.Coin) bool {
		s.sup[e.denID(coin.Denom)] = new(big.Int).Set(coin.Amount.BigInt())
		return false
	})
	for _, p := range app.MultiStakingKeeper.GetAllStakingPools(ctx) {
		for _, coin := range p.TotalStakingTokens {
			addTo(s.rec, key4{7, kStaked, int64(p.Id), e.denID(coin.Denom)}, coin.Amount.BigInt())
		}
		// the model reads the share quantity of the redemption rule from the bank supply: it must equal the pool record
		for _, coin := range p.TotalShareTokens {
			if sup := app.BankKeeper.GetSupply(ctx, coin.Denom).Amount; !sup.Equal(coin.Amount) {
				// the redemption rule of the model reads the bank supply: a difference shows up as a correspondence mismatch
				if n := fmt.Sprintf("pool %d (%s): TotalShareTokens %s differs from the bank supply %s", p.Id, p.Validator, coin, sup); len(e.notes) < 20 {
					e.notes = append(e.notes, n)
				}
			}
		}
		if !p.Slashed.IsNil() && !p.Slashed.IsZero() {
			s.sl[int64(p.Id)] = new(big.Int).Set(p.Slashed.BigInt())
		}
	}
	for _, u := range app.MultiStakingKeeper.GetAllUndelegations(ctx) {
		for _, coin := range u.Amount {
			addTo(s.rec, key4{7, kUndel, int64(u.Id), e.denID(coin.Denom)}, coin.Amount.BigInt())
		}
	}
	for _, rw := range app.MultiStakingKeeper.GetAllDelegatorRewards(ctx) {
		for _, coin := range rw.Rewards {
			addTo(s.rec, key4{1, kReward, e.accID(rw.Delegator), e.denID(coin.Denom)}, coin.Amount.BigInt())
		}
	}
	for _, b := range app.BasketKeeper.GetAllBaskets(ctx) {
		for _, t := range b.Tokens {
			addTo(s.rec, key4{6, kBToken, int64(b.Id), e.denID(t.Denom)}, t.Amount.BigInt())
		}
		for _, coin := range b.Surplus {
			addTo(s.rec, key4{6, kSurplus, int64(b.Id), e.denID(coin.Denom)}, coin.Amount.BigInt())
		}
	}
	for _, p := range app.SpendingKeeper.GetAllSpendingPools(ctx) {
		idx, ok := e.spools[p.Name]
		if !ok {
			idx = int64(len(e.spools) + 1)
			e.spools[p.Name] = idx
		}
		for _, coin := range p.Balances {
			addTo(s.rec, key4{4, kSpool, idx, e.denID(coin.Denom)}, coin.Amount.BigInt())
		}
	}
	for _, rq := range app.CustomGovKeeper.GetAllIdRecordsVerifyRequests(ctx) {
		addTo(s.rec, key4{2, kTip, int64(rq.Id), e.denID(rq.Tip.Denom)}, rq.Tip.Amount.BigInt())
	}
	// dApp bonds: the dApp's TotalBond and the users' bond records describe the same claims; the larger of the two is owed
	// (a bond record whose dApp is gone still counts)
	dappTotal, userTotal := map[string]map[string]*big.Int{}, map[string]map[string]*big.Int{}
	addNamed := func(m map[string]map[string]*big.Int, name string, coin sdk.Coin) {
		if coin.Denom == "" || coin.Amount.IsNil() {
			return
		}
		if m[name] == nil {
			m[name] = map[string]*big.Int{}
		}
		if m[name][coin.Denom] == nil {
			m[name][coin.Denom] = new(big.Int)
		}
		m[name][coin.Denom].Add(m[name][coin.Denom], coin.Amount.BigInt())
	}
	for _, d := range app.Layer2Keeper.GetAllDapps(ctx) {
		addNamed(dappTotal, d.Name, d.TotalBond)
		if dappTotal[d.Name] == nil {
			dappTotal[d.Name] = map[string]*big.Int{}
		}
	}
	for _, ub := range app.Layer2Keeper.GetAllUserDappBonds(ctx) {
		addNamed(userTotal, ub.DappName, ub.Bond)
	}
	var dnames []string
	for n := range dappTotal {
		dnames = append(dnames, n)
	}
	for n := range userTotal {
		if _, ok := dappTotal[n]; !ok {
			dnames = append(dnames, n)
		}
	}
	sort.Strings(dnames)
	for _, n := range dnames {
		idx, ok := e.dapps[n]
		if !ok {
			idx = int64(len(e.dapps) + 1)
			e.dapps[n] = idx
		}
		dens := map[string]bool{}
		for d := range dappTotal[n] {
			dens[d] = true
		}
		for d := range userTotal[n] {
			dens[d] = true
		}
		for d := range dens {
			v := new(big.Int)
			if x := dappTotal[n][d]; x != nil {
				v.Set(x)
			}
			if x := userTotal[n][d]; x != nil && x.Cmp(v) > 0 {
				v.Set(x)
			}
			addTo(s.rec, key4{9, kDapp, idx, e.denID(d)}, v)
		}
	}
	for _, rt := range app.RecoveryKeeper.GetAllRecoveryTokens(ctx) {
		idx, ok := e.recs[rt.Token]
		if !ok {
			idx = int64(len(e.recs) + 1)
			e.recs[rt.Token] = idx
		}
		for _, coin := range rt.UnderlyingTokens {
			addTo(s.rec, key4{10, kRecUnder, idx, e.denID(coin.Denom)}, coin.Amount.BigInt())
		}
	}
	for _, rw := range app.RecoveryKeeper.GetAllRRHolderRewards(ctx) {
		for _, coin := range rw.Rewards {
			addTo(s.rec, key4{10, kRRReward, e.accID(rw.Holder), e.denID(coin.Denom)}, coin.Amount.BigInt())
		}
	}
	return s
}

func zs(v *big.Int) string { return hx.ZBig(v) }

func sortedK2(m map[key2]*big.Int) []key2 {
	ks := make([]key2, 0, len(m))
	for k := range m {
		ks = append(ks, k)
	}
	sort.Slice(ks, func(i, j int) bool { return ks[i].a < ks[j].a || (ks[i].a == ks[j].a && ks[i].d < ks[j].d) })
	return ks
}
func sortedK4(m map[key4]*big.Int) []key4 {
	ks := make([]key4, 0, len(m))
	for k := range m {
		ks = append(ks, k)
	}
	sort.Slice(ks, func(i, j int) bool {
		a, b := ks[i], ks[j]
		if a.m != b.m {
			return a.m < b.m
		}
		if a.k != b.k {
			return a.k < b.k
		}
		if a.i != b.i {
			return a.i < b.i
		}
		return a.d < b.d
	})
	return ks
}
func sortedK1(m map[int64]*big.Int) []int64 {
	ks := make([]int64, 0, len(m))
	for k := range m {
		ks = append(ks, k)
	}
	sort.Slice(ks, func(i, j int) bool { return ks[i] < ks[j] })
	return ks
}

func (s *snapshot) coq() string {
	var b, su, rc, sl []string
	for _, k := range sortedK2(s.bal) {
		b = append(b, fmt.Sprintf("(%d, %d, %s)", k.a, k.d, zs(s.bal[k])))
	}
	for _, k := range sortedK1(s.sup) {
		su = append(su, fmt.Sprintf("(%d, %s)", k, zs(s.sup[k])))
	}
	for _, k := range sortedK4(s.rec) {
		rc = append(rc, fmt.Sprintf("(%d, %d, %d, %d, %s)", k.m, k.k, k.i, k.d, zs(s.rec[k])))
	}
	for _, k := range sortedK1(s.sl) {
		sl = append(sl, fmt.Sprintf("(%d, %s)", k, zs(s.sl[k])))
	}
	return fmt.Sprintf("(mkO %s %s %s %s)", hx.List(b), hx.List(su), hx.List(rc), hx.List(sl))
}

var zero = big.NewInt(0)

// patches of next against prev (new values; 0 = removed)
func diff(prev, next *snapshot) (b, su, rc, sl []string, jb []string) {
	seen2 := map[key2]bool{}
	for _, k := range sortedK2(next.bal) {
		seen2[k] = true
		if o, ok := prev.bal[k]; !ok || o.Cmp(next.bal[k]) != 0 {
			b = append(b, fmt.Sprintf("(%d, %d, %s)", k.a, k.d, zs(next.bal[k])))
			jb = append(jb, fmt.Sprintf("bal[%d,%d]=%s", k.a, k.d, next.bal[k]))
		}
	}
	for _, k := range sortedK2(prev.bal) {
		if !seen2[k] && prev.bal[k].Sign() != 0 {
			b = append(b, fmt.Sprintf("(%d, %d, 0)", k.a, k.d))
			jb = append(jb, fmt.Sprintf("bal[%d,%d]=0", k.a, k.d))
		}
	}
	for _, k := range sortedK1(next.sup) {
		if o, ok := prev.sup[k]; !ok || o.Cmp(next.sup[k]) != 0 {
			su = append(su, fmt.Sprintf("(%d, %s)", k, zs(next.sup[k])))
			jb = append(jb, fmt.Sprintf("supply[%d]=%s", k, next.sup[k]))
		}
	}
	for _, k := range sortedK1(prev.sup) {
		if _, ok := next.sup[k]; !ok && prev.sup[k].Sign() != 0 {
			su = append(su, fmt.Sprintf("(%d, 0)", k))
			jb = append(jb, fmt.Sprintf("supply[%d]=0", k))
		}
	}
	seen4 := map[key4]bool{}
	for _, k := range sortedK4(next.rec) {
		seen4[k] = true
		if o, ok := prev.rec[k]; !ok || o.Cmp(next.rec[k]) != 0 {
			rc = append(rc, fmt.Sprintf("(%d, %d, %d, %d, %s)", k.m, k.k, k.i, k.d, zs(next.rec[k])))
			jb = append(jb, fmt.Sprintf("rec[%d,%d,%d,%d]=%s", k.m, k.k, k.i, k.d, next.rec[k]))
		}
	}
	for _, k := range sortedK4(prev.rec) {
		if !seen4[k] {
			rc = append(rc, fmt.Sprintf("(%d, %d, %d, %d, 0)", k.m, k.k, k.i, k.d))
			jb = append(jb, fmt.Sprintf("rec[%d,%d,%d,%d]=0", k.m, k.k, k.i, k.d))
		}
	}
	for _, k := range sortedK1(next.sl) {
		if o, ok := prev.sl[k]; !ok || o.Cmp(next.sl[k]) != 0 {
			sl = append(sl, fmt.Sprintf("(%d, %s)", k, zs(next.sl[k])))
			jb = append(jb, fmt.Sprintf("slashed[%d]=%s", k, next.sl[k]))
		}
	}
	for _, k := range sortedK1(prev.sl) {
		if _, ok := next.sl[k]; !ok {
			sl = append(sl, fmt.Sprintf("(%d, 0)", k))
		}
	}
	return
}

// bank events -> Coq
func (e *env) bankEvents(evs []abcitypes.Event) ([]string, []string) {
	var out, js []string
	for _, ev := range evs {
		var who, amt string
		for _, a := range ev.Attributes {
			switch a.Key {
			case "spender", "receiver", "minter", "burner":
				who = a.Value
			case "amount":
				amt = a.Value
			}
		}
		var ctor string
		switch ev.Type {
		case banktypes.EventTypeCoinSpent:
			ctor = "BSpent"
		case banktypes.EventTypeCoinReceived:
			ctor = "BRecv"
		case banktypes.EventTypeCoinMint:
			ctor = "BCoinbase"
		case banktypes.EventTypeCoinBurn:
			ctor = "BBurn"
		default:
			continue
		}
		coins, err := sdk.ParseCoinsNormalized(amt)
		if err != nil {
			e.notes = append(e.notes, "unparsable amount in bank event: "+amt)
			continue
		}
		for _, c := range coins {
			out = append(out, fmt.Sprintf("%s %d %d %s", ctor, e.accID(who), e.denID(c.Denom), hx.ZInt(c.Amount)))
			js = append(js, fmt.Sprintf("%s(%d,%s)", ev.Type, e.accID(who), c.String()))
		}
	}
	return out, js
}

type stepInfo struct {
	kind  string
	tx    bool
	ok    bool
	fee   [3]int64
	model []string
	alloc []string
	args  map[string]interface{}
	err   string
}

func (e *env) record(si stepInfo, evs []abcitypes.Event) { e.recordSnap(si, evs, e.snap()) }

func (e *env) recordSnap(si stepInfo, evs []abcitypes.Event, next *snapshot) {
	b, su, rc, sl, jb := diff(e.prev, next)
	evc, evj := e.bankEvents(evs)
	wrap := func(xs []string) string {
		ys := make([]string, len(xs))
		for i, x := range xs {
			ys[i] = "(" + x + ")"
		}
		return hx.List(ys)
	}
	e.steps = append(e.steps, fmt.Sprintf("(mkStep %s %s %s (%d, %d, %d) %s %s %s %s %s %s %s)", hx.Str(si.kind), hx.B(si.tx), hx.B(si.ok),
		si.fee[0], si.fee[1], si.fee[2], wrap(evc), hx.List(b), hx.List(su), hx.List(rc), hx.List(sl), wrap(si.model), hx.List(si.alloc)))
	st := "ok"
	if !si.ok {
		st = "failed"
	}
	e.jsteps = append(e.jsteps, map[string]interface{}{"kind": si.kind, "tx": si.tx, "status": st, "err": si.err, "args": si.args,
		"bank_events": evj, "changed": jb, "model": si.model, "height": e.c.Height, "time": e.c.Time.Unix()})
	e.dist.Inc("step:" + si.kind + ":" + st)
	e.prev = next
}

// ---------------------------------------------------------------- step drivers
func (e *env) begin(dt int64, proposer int) { e.beginBlock(dt, proposer, true) }

func (e *env) nanos() time.Duration {
	if e.r.Chance(40) {
		return 0
	}
	return time.Duration(e.r.Range(1, 999_999_999))
}

func (e *env) beginBlock(dt int64, proposer int, rec bool) {
	c := e.c
	c.Height++
	c.Time = c.Time.Add(secs(dt) + e.nanos()) // block times carry a nanosecond part
	hdr := tmproto.Header{ChainID: abci.ChainID, Height: c.Height, Time: c.Time}
	hdr.ProposerAddress = c.Validators[proposer%len(c.Validators)].ConsAddr
	var votes []abcitypes.VoteInfo
	for _, v := range c.Validators {
		votes = append(votes, abcitypes.VoteInfo{Validator: abcitypes.Validator{Address: v.ConsAddr, Power: 1}, SignedLastBlock: true})
	}
	var resp abcitypes.ResponseBeginBlock
	p := hx.Try(func() {
		resp = c.App.BeginBlock(abcitypes.RequestBeginBlock{Header: hdr, LastCommitInfo: abcitypes.CommitInfo{Votes: votes}})
	})
	c.InBlock = true
	e.inBlock = true
	if p != "" {
		e.notes = append(e.notes, "BeginBlock panic: "+p)
	}
	if !rec {
		return
	}
	e.record(stepInfo{kind: "begin", ok: p == "", args: map[string]interface{}{"dt": dt, "proposer": proposer}, err: p}, resp.Events)
}

func (e *env) end() {
	c := e.c
	var resp abcitypes.ResponseEndBlock
	p := hx.Try(func() { resp = c.App.EndBlock(abcitypes.RequestEndBlock{Height: c.Height}) })
	if p == "" {
		p = hx.Try(func() { c.App.Commit() })
	}
	c.InBlock = false
	e.inBlock = false
	if p != "" {
		e.notes = append(e.notes, "EndBlock/Commit panic: "+p)
	}
	e.record(stepInfo{kind: "end", ok: p == "", err: p}, resp.Events)
}

func (e *env) tx(kind string, signer int, msgs []sdk.Msg, model []string, args map[string]interface{}) bool {
	c := e.c
	fee := abci.DefaultFee()
	bz, err := c.BuildTx(msgs, []int{signer}, fee)
	si := stepInfo{kind: kind, tx: true, fee: [3]int64{100 + int64(signer), 0, fee[0].Amount.Int64()}, model: model, args: args}
	if err != nil {
		return false
	}
	var r abcitypes.ResponseDeliverTx
	p := hx.Try(func() { r = c.App.DeliverTx(abcitypes.RequestDeliverTx{Tx: bz}) })
	si.ok = p == "" && r.Code == 0
	if !si.ok && len(r.Events) == 0 {
		si.fee[2] = 0 // rejected before the fee was taken (ValidateBasic / ante): nothing may change at all
	}
	if !si.ok {
		si.err = p + r.Log
		if len(si.err) > 160 {
			si.err = si.err[:160]
		}
	}
	e.record(si, r.Events)
	return si.ok
}

// a real keeper call on the deliver state, made atomic with a cache context as proposal execution does
func (e *env) direct(kind string, f func(ctx sdk.Context) error, model []string, alloc []string, args map[string]interface{}) bool {
	ctx := e.c.Ctx()
	cc, write := ctx.CacheContext()
	var err error
	p := hx.Try(func() { err = f(cc) })
	si := stepInfo{kind: kind, model: model, alloc: alloc, args: args}
	si.ok = p == "" && err == nil
	var evs []abcitypes.Event
	if si.ok {
		evs = cc.EventManager().ABCIEvents()
		write()
	} else {
		si.err = p
		if err != nil {
			si.err += err.Error()
		}
		si.alloc = nil
	}
	e.record(si, evs)
	return si.ok
}
