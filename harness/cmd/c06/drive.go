package main

// Block driver for C06: like verif/harness/abci's BeginBlock/EndBlock, but every ABCI call is wrapped in a
// recover() that also captures the panic SITE (first frame inside github.com/KiraCore/sekai below the
// panic), so that a violation signature names the call site and a normalised message class.

import (
	"fmt"
	"regexp"
	"runtime/debug"
	"strings"
	"time"

	"verif/harness/abci"
	"verif/harness/hx"

	abcitypes "github.com/cometbft/cometbft/abci/types"
	tmproto "github.com/cometbft/cometbft/proto/tendermint/types"
	sdk "github.com/cosmos/cosmos-sdk/types"
)

type Phase struct {
	Msg  string `json:"msg,omitempty"`  // raw panic message ("" = no panic)
	Site string `json:"site,omitempty"` // first sekai frame under the panic
	Cls  string `json:"cls,omitempty"`  // normalised message class
}

func (p Phase) Panicked() bool { return p.Msg != "" }
func (p Phase) Coq() string {
	if !p.Panicked() {
		return "PhOk"
	}
	return fmt.Sprintf("(PhPanic %s %s)", hx.Str(p.Site), hx.Str(p.Cls))
}

type Block struct {
	Height     int64    `json:"height"`
	Dt         int64    `json:"dt"`
	Nanos      int64    `json:"nanos,omitempty"`
	Proposer   int      `json:"proposer"`
	Absent     []int    `json:"absent,omitempty"`
	Evidence   []int    `json:"evidence,omitempty"`
	UpgradeDue bool     `json:"upgrade_due,omitempty"`
	Begin      Phase    `json:"begin"`
	Txs        []string `json:"txs,omitempty"` // readable log of the transactions: "<kind> code=<n>"
	TxPanics   []Phase  `json:"tx_panics,omitempty"`
	End        Phase    `json:"end"`
	Commit     Phase    `json:"commit"`
	Updates    int      `json:"updates,omitempty"`
}

func (b Block) Coq() string {
	var tp []string
	for _, p := range b.TxPanics {
		tp = append(tp, p.Coq())
	}
	return fmt.Sprintf("(mkBlk %s %s %s %s %s)", hx.B(b.UpgradeDue), b.Begin.Coq(), hx.List(tp), b.End.Coq(), b.Commit.Coq())
}

var reDigits = regexp.MustCompile(`[0-9]+`)
var reAddr = regexp.MustCompile(`kira[a-z]*1[0-9a-z]{30,}`)
var reBad = regexp.MustCompile(`[^A-Za-z0-9_.-]+`)

// classOf maps a panic message to a short class (stable across ids, addresses and amounts).
func classOf(msg string) string {
	table := []struct{ sub, cls string }{
		{"division by zero", "div-by-zero"},
		{"negative decimal coin amount", "neg-deccoin"},
		{"negative coin amount", "neg-coin"},
		{"more votes than voters", "votes-gt-voters"},
		{"quorum cannot be bigger", "quorum-gt-1"},
		{"UPGRADE \"", "upgrade-needed"},
		{"instate upgrade is not set", "upgrade-handler-missing"},
		{"nil pointer dereference", "nil-deref"},
		{"index out of range", "index-oob"},
		{"slice bounds out of range", "slice-oob"},
		{"insufficient funds", "insufficient-funds"},
		{"invalid coins", "invalid-coins"},
		{"not allowed staking token", "not-allowed-staking-token"},
		{"not an active validator", "not-active-validator"},
		{"action not supported for slashed pool", "slashed-pool"},
		{"decoding bech32 failed", "invalid-bech32"},
		{"empty address string", "invalid-bech32"},
		{"no concrete type registered", "any-unregistered-type"},
		{"unable to resolve type URL", "any-unregistered-type"},
		{"interface conversion", "type-assertion"},
		{"Int overflow", "int-overflow"},
		{"validator not found", "validator-not-found"},
		{"proposal was expected to exist", "proposal-missing"},
		{"expected network actor not found", "actor-missing"},
		{"invalid proposal type", "invalid-proposal-type"},
		{"previous proposer not set", "no-previous-proposer"},
	}
	for _, t := range table {
		if strings.Contains(msg, t.sub) {
			return t.cls
		}
	}
	s := reAddr.ReplaceAllString(msg, "ADDR")
	s = reDigits.ReplaceAllString(s, "N")
	s = reBad.ReplaceAllString(s, "_")
	if len(s) > 48 {
		s = s[:48]
	}
	return strings.Trim(s, "_")
}

// siteOf extracts the first stack frame inside the sekai module that lies below the runtime panic frame.
func siteOf(stack string) string {
	lines := strings.Split(stack, "\n")
	seenPanic := false
	for _, l := range lines {
		if strings.HasPrefix(l, "panic(") || strings.HasPrefix(l, "runtime.panic") || strings.HasPrefix(l, "runtime.goPanic") || strings.HasPrefix(l, "runtime.sigpanic") {
			seenPanic = true
			continue
		}
		if !seenPanic || strings.HasPrefix(l, "\t") {
			continue
		}
		if i := strings.Index(l, "github.com/KiraCore/sekai/"); i == 0 {
			f := l[len("github.com/KiraCore/sekai/"):]
			if j := strings.LastIndex(f, "("); j > 0 {
				f = f[:j]
			}
			f = strings.ReplaceAll(f, "(*", "")
			f = strings.ReplaceAll(f, ")", "")
			f = strings.ReplaceAll(f, "/", ".")
			return reBad.ReplaceAllString(f, "_")
		}
	}
	return "outside-sekai"
}

func tryPhase(f func()) (p Phase) {
	defer func() {
		if r := recover(); r != nil {
			msg := fmt.Sprint(r)
			if msg == "" {
				msg = "panic"
			}
			p = Phase{Msg: msg, Site: siteOf(string(debug.Stack())), Cls: classOf(msg)}
		}
	}()
	f()
	return Phase{}
}

// H: one history on one fresh chain.
type H struct {
	C      *abci.Chain
	Blocks []Block
	Halted bool
	cur    *Block
	Ops    hx.Counter
}

func NewH(cfg abci.Config, ops hx.Counter) *H {
	return &H{C: abci.NewChain(cfg), Ops: ops}
}

func (h *H) header() tmproto.Header {
	return tmproto.Header{ChainID: abci.ChainID, Height: h.C.Height, Time: h.C.Time}
}

type BlockReq struct {
	Nanos    int64 // added to the block time (block times with nanosecond parts)
	Dt       int64
	Proposer int
	Absent   []int
	Evidence []int
}

// Begin starts the next block. Returns false when the chain halted (panic escaped BeginBlock).
func (h *H) Begin(req BlockReq) bool {
	if h.Halted {
		return false
	}
	c := h.C
	c.Height++
	if req.Dt <= 0 {
		req.Dt = 5
	}
	c.Time = c.Time.Add(time.Duration(req.Dt)*time.Second + time.Duration(req.Nanos))
	hd := h.header()
	nv := len(c.Validators)
	hd.ProposerAddress = c.Validators[((req.Proposer%nv)+nv)%nv].ConsAddr
	absent := map[int]bool{}
	for _, a := range req.Absent {
		absent[a%nv] = true
	}
	var votes []abcitypes.VoteInfo
	for i, v := range c.Validators {
		votes = append(votes, abcitypes.VoteInfo{Validator: abcitypes.Validator{Address: v.ConsAddr, Power: 1}, SignedLastBlock: !absent[i]})
	}
	var ev []abcitypes.Misbehavior
	for _, i := range req.Evidence {
		v := c.Validators[i%nv]
		ev = append(ev, abcitypes.Misbehavior{Type: abcitypes.MisbehaviorType_DUPLICATE_VOTE, Validator: abcitypes.Validator{Address: v.ConsAddr, Power: 1},
			Height: c.Height - 1, Time: c.Time.Add(-time.Duration(req.Dt) * time.Second), TotalVotingPower: int64(nv)})
	}
	b := Block{Height: c.Height, Dt: req.Dt, Nanos: req.Nanos, Proposer: req.Proposer, Absent: req.Absent, Evidence: req.Evidence}
	// is the scheduled software upgrade due in this block?  (read on the last committed state)
	func() {
		defer func() { recover() }()
		qctx := c.App.BaseApp.NewContext(true, hd)
		plan, err := c.App.UpgradeKeeper.GetNextPlan(qctx)
		if err == nil && plan != nil && plan.ShouldExecute(qctx.WithBlockTime(hd.Time)) {
			b.UpgradeDue = true
		}
	}()
	c.InBlock = true
	b.Begin = tryPhase(func() {
		c.App.BeginBlock(abcitypes.RequestBeginBlock{Header: hd, LastCommitInfo: abcitypes.CommitInfo{Votes: votes}, ByzantineValidators: ev})
	})
	h.Blocks = append(h.Blocks, b)
	h.cur = &h.Blocks[len(h.Blocks)-1]
	if b.Begin.Panicked() {
		h.Halted = true
		return false
	}
	return true
}

// Tx delivers one signed transaction; the first signer pays the default fee.
func (h *H) Tx(kind string, signer int, msgs ...sdk.Msg) abci.TxResult {
	return h.TxFee(kind, signer, abci.DefaultFee(), msgs...)
}

func (h *H) TxFee(kind string, signer int, fee sdk.Coins, msgs ...sdk.Msg) abci.TxResult {
	c := h.C
	bz, err := c.BuildTx(msgs, []int{signer}, fee)
	if err != nil {
		h.cur.Txs = append(h.cur.Txs, kind+" build-error")
		h.Ops.Inc("tx:" + kind + ":build-error")
		return abci.TxResult{Code: 1 << 30, Log: err.Error()}
	}
	var r abcitypes.ResponseDeliverTx
	p := tryPhase(func() { r = c.App.DeliverTx(abcitypes.RequestDeliverTx{Tx: bz}) })
	if p.Panicked() {
		h.cur.TxPanics = append(h.cur.TxPanics, p)
	}
	st := "ok"
	if r.Code != 0 {
		st = "rejected"
		if strings.Contains(r.Log, "panic") || strings.Contains(r.Log, "runtime error") {
			st = "recovered-panic"
		}
	}
	h.cur.Txs = append(h.cur.Txs, fmt.Sprintf("%s by a%d code=%d", kind, signer, r.Code))
	h.Ops.Inc("tx:" + kind + ":" + st)
	return abci.TxResult{Code: r.Code, Log: r.Log, Panic: p.Msg, Data: r.Data}
}

// End runs EndBlock and Commit. pre (optional) runs right before EndBlock on the deliver state.
func (h *H) End(pre func(ctx sdk.Context)) {
	c := h.C
	if pre != nil {
		pre(c.Ctx())
	}
	var r abcitypes.ResponseEndBlock
	h.cur.End = tryPhase(func() { r = c.App.EndBlock(abcitypes.RequestEndBlock{Height: c.Height}) })
	h.cur.Updates = len(r.ValidatorUpdates)
	if h.cur.End.Panicked() {
		// every validator stops here: the block is never committed
		h.Halted = true
		c.InBlock = false
		return
	}
	h.cur.Commit = tryPhase(func() { c.App.Commit() })
	if h.cur.Commit.Panicked() {
		h.Halted = true
	}
	c.InBlock = false
}

// Block = Begin, txs, End.
func (h *H) Block(req BlockReq, txs func(), pre func(ctx sdk.Context)) bool {
	if !h.Begin(req) {
		return false
	}
	if txs != nil {
		txs()
	}
	h.End(pre)
	return !h.Halted
}

func (h *H) Last() Block { return h.Blocks[len(h.Blocks)-1] }

func (h *H) CoqBlocks() string {
	var bs []string
	for _, b := range h.Blocks {
		bs = append(bs, b.Coq())
	}
	return hx.List(bs)
}
