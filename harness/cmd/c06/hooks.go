package main

// "Hook stream": begin/end-block hooks driven in states where their collaborators can refuse.
//   - upgrade BeginBlocker: a plan scheduled through the real software-upgrade proposal whose time is reached, with
//     validators in EVERY status (active, inactive by downtime, paused, jailed) and every vote (yes / no / absent);
//   - settings changed mid-history by proposal (network properties set to 0 / minimal / maximal values between blocks);
//   - genesis export + re-import mid-history, followed by the hooks on the imported state.

import (
	"crypto/sha256"
	"encoding/hex"
	"fmt"
	"strings"

	"verif/harness/abci"
	"verif/harness/hx"

	govtypes "github.com/KiraCore/sekai/x/gov/types"
	multistakingtypes "github.com/KiraCore/sekai/x/multistaking/types"
	recoverytypes "github.com/KiraCore/sekai/x/recovery/types"
	slashingtypes "github.com/KiraCore/sekai/x/slashing/types"
	spendingtypes "github.com/KiraCore/sekai/x/spending/types"
	upgradetypes "github.com/KiraCore/sekai/x/upgrade/types"
	sdk "github.com/cosmos/cosmos-sdk/types"
	banktypes "github.com/cosmos/cosmos-sdk/x/bank/types"
)

type UpgradeStatesParams struct {
	Seed     uint64   `json:"chain_seed"`
	Status   []string `json:"status_of_validator_at_upgrade_time"` // per validator 0..3: active | inactive | paused | jailed
	Votes    []int    `json:"vote_of_validator_owner"`             // per owner a0..a3: 0 absent, 1 yes, 2 abstain, 3 no, 4 veto
	Early    bool     `json:"status_change_before_the_vote"`
	Instate  bool     `json:"instate_upgrade"`
	Skip     bool     `json:"skip_handler"`
	NoPermA3 bool     `json:"a3_has_no_vote_permission"`
}

func drawUpgradeStates(r *hx.Rng, seed uint64) UpgradeStatesParams {
	p := UpgradeStatesParams{Seed: seed, Early: r.Chance(40), Instate: r.Chance(60), Skip: r.Chance(70), NoPermA3: r.Chance(25)}
	for v := 0; v < 4; v++ {
		p.Status = append(p.Status, pickS(r, "active", "active", "inactive", "paused", "jailed"))
		vote := 1 // the proposal has to pass for the plan to exist: mostly yes, some validators do not approve
		if r.Chance(40) {
			vote = r.Intn(5)
		}
		p.Votes = append(p.Votes, vote)
	}
	p.Votes[0] = 1 // the proposal has to pass: the sudo account approves
	return p
}

func runUpgradeStates(p UpgradeStatesParams, ops hx.Counter) []Case {
	// downtime inactivation after a few missed blocks instead of 121 (legitimate network-property values)
	h := NewH(abci.Config{Accounts: 6, Validators: 4, Seed: p.Seed, Gov: func(g *govtypes.GenesisState) {
		g.NetworkProperties.MaxMischance = 2
		g.NetworkProperties.MischanceConfidence = 1
	}}, ops)
	c := h.C
	log := []string{fmt.Sprintf("chain accounts=6 validators=4 (owners a0..a3) seed=%d genesis max_mischance=2 mischance_confidence=1", p.Seed)}
	a0 := c.Accounts[0].Addr
	var absent []int
	evidence := []int{}
	change := func() { // bring every validator into its target status
		for v, st := range p.Status {
			switch st {
			case "paused":
				res := h.Tx("pause", c.Validators[v].Owner, slashingtypes.NewMsgPause(c.Validators[v].ValAddr))
				log = append(log, fmt.Sprintf("owner of validator %d sends MsgPause code=%d", v, res.Code))
			case "inactive":
				absent = append(absent, v)
				log = append(log, fmt.Sprintf("validator %d stops signing (inactivated for downtime after a few blocks)", v))
			case "jailed":
				evidence = append(evidence, v)
				log = append(log, fmt.Sprintf("duplicate-vote evidence against validator %d in the next block", v))
			}
		}
	}
	h.Block(BlockReq{Dt: 5}, func() {
		for a := 1; a <= 3; a++ {
			if a == 3 && p.NoPermA3 {
				continue
			}
			h.Tx("whitelist-permission", 0, govtypes.NewMsgWhitelistPermissions(a0, c.Accounts[a].Addr, uint32(govtypes.PermVoteSoftwareUpgradeProposal)))
		}
		log = append(log, fmt.Sprintf("a0 whitelists the upgrade vote permission for the validator owners a1..a3 (a3 skipped: %v)", p.NoPermA3))
		if p.Early {
			change()
		}
	}, nil)
	if p.Early {
		for i := 0; i < 6; i++ {
			req := BlockReq{Dt: 5, Absent: absent}
			if i == 0 {
				req.Evidence = evidence
			}
			h.Block(req, nil, nil)
		}
	}
	h.Block(BlockReq{Dt: 5, Absent: absent}, func() {
		ut := c.Time.Unix() + 700
		content := upgradetypes.NewSoftwareUpgradeProposal("v2", nil, ut, abci.ChainID, "verif-2", "", 0, "", p.Instate, false, p.Skip)
		msg, _ := govtypes.NewMsgSubmitProposal(a0, "u", "u", content)
		res := h.Tx("submit-proposal", 0, msg)
		log = append(log, fmt.Sprintf("a0 submits SoftwareUpgrade(v2, upgrade_time=now+700, instate=%v, skip_handler=%v) code=%d", p.Instate, p.Skip, res.Code))
		for a, v := range p.Votes {
			if v == 0 {
				continue
			}
			res = h.Tx("vote-proposal", a, govtypes.NewMsgVoteProposal(1, c.Accounts[a].Addr, govtypes.VoteOption(v), sdk.ZeroDec()))
			log = append(log, fmt.Sprintf("a%d votes %v code=%d", a, govtypes.VoteOption(v), res.Code))
		}
	}, nil)
	if !p.Early {
		h.Block(BlockReq{Dt: 5}, change, nil)
		for i := 0; i < 6; i++ {
			req := BlockReq{Dt: 5, Absent: absent}
			if i == 0 {
				req.Evidence = evidence
			}
			h.Block(req, nil, nil)
		}
	}
	for i, dt := range []int64{310, 310, 60, 5, 5, 400, 5} {
		if !h.Block(BlockReq{Dt: dt, Proposer: 0, Absent: absent}, nil, nil) {
			break
		}
		_ = i
	}
	// what the statuses really were when the plan became due (read from the last state)
	var st []string
	for v := range c.Validators {
		val, err := c.App.CustomStakingKeeper.GetValidator(c.QueryCtx(), c.Validators[v].ValAddr)
		if err == nil {
			st = append(st, val.Status.String())
		}
	}
	log = append(log, fmt.Sprintf("blocks dt=310,310,60,5,5,400,5 (voting end, enactment = plan saved, upgrade time reached); final validator statuses %v", st))
	return []Case{histCase("upgrade-validator-states", h, log, p)}
}

// ------------------------------------------------------------------ settings changed by proposal between blocks

type SettingsParams struct {
	Seed  uint64   `json:"chain_seed"`
	Steps []string `json:"property=value_set_by_passed_proposals"`
}

var settingChoices = []struct {
	name string
	prop govtypes.NetworkProperty
	vals []string
}{
	{"MISCHANCE_CONFIDENCE", govtypes.MischanceConfidence, []string{"0", "1", "18446744073709551615"}},
	{"MAX_MISCHANCE", govtypes.MaxMischance, []string{"0", "1", "18446744073709551615"}},
	{"UBI_HARDCAP", govtypes.UbiHardcap, []string{"0", "1", "18446744073709551615"}},
	{"INACTIVE_RANK_DECREASE_PERCENT", govtypes.InactiveRankDecreasePercent, []string{"0", "1", "0.999999999999999999"}},
	{"MINIMUM_PROPOSAL_END_TIME", govtypes.MinimumProposalEndTime, []string{"0", "1", "18446744073709551615"}},
	{"PROPOSAL_ENACTMENT_TIME", govtypes.ProposalEnactmentTime, []string{"0", "1"}},
	{"MIN_PROPOSAL_END_BLOCKS", govtypes.MinProposalEndBlocks, []string{"0", "1"}},
	{"MIN_PROPOSAL_ENACTMENT_BLOCKS", govtypes.MinProposalEnactmentBlocks, []string{"0", "1"}},
	{"AUTOCOMPOUND_INTERVAL_NUM_BLOCKS", govtypes.AutocompoundIntervalNumBlocks, []string{"0", "1"}},
	{"INFLATION_RATE", govtypes.InflationRate, []string{"0", "0.5"}},
	{"INFLATION_PERIOD", govtypes.InflationPeriod, []string{"0", "2629800", "31557600"}},
	{"VALIDATORS_FEE_SHARE", govtypes.ValidatorsFeeShare, []string{"0", "0.5"}},
	{"MAX_JAILED_PERCENTAGE", govtypes.MaxJailedPercentage, []string{"0", "0.33"}},
	{"UNSTAKING_PERIOD", govtypes.UnstakingPeriod, []string{"604800", "31557600"}},
	{"VOTE_QUORUM", govtypes.VoteQuorum, []string{"0", "1"}},
	{"MIN_VALIDATORS", govtypes.MinValidators, []string{"0", "1", "100"}},
	{"MIN_COLLECTIVE_BOND", govtypes.MinCollectiveBond, []string{"0", "18446744073709551615"}},
	{"DAPP_BOND_DURATION", govtypes.DappBondDuration, []string{"0", "1"}},
	{"DOWNTIME_INACTIVE_DURATION", govtypes.DowntimeInactiveDuration, []string{"0", "18446744073709551615"}},
}

func drawSettings(r *hx.Rng, seed uint64) SettingsParams {
	p := SettingsParams{Seed: seed}
	for i, n := 0, 2+r.Intn(4); i < n; i++ {
		sc := settingChoices[r.Intn(len(settingChoices))]
		p.Steps = append(p.Steps, sc.name+"="+sc.vals[r.Intn(len(sc.vals))])
	}
	return p
}

// A busy little chain (staking pool with an autocompounding delegator, a dynamic spending pool, a UBI record from
// genesis, a validator that misses blocks, pending proposals) while network properties are driven to their
// extreme values by real SetNetworkProperty proposals between blocks.
func runSettings(p SettingsParams, ops hx.Counter) []Case {
	h := NewH(abci.Config{Accounts: 6, Validators: 3, Seed: p.Seed}, ops)
	c := h.C
	log := []string{fmt.Sprintf("chain accounts=6 validators=3 seed=%d", p.Seed)}
	a0 := c.Accounts[0].Addr
	busy(h, &log)
	pid := uint64(1)
	for _, step := range p.Steps {
		var name, val string
		for i := range step {
			if step[i] == '=' {
				name, val = step[:i], step[i+1:]
			}
		}
		var prop govtypes.NetworkProperty
		for _, sc := range settingChoices {
			if sc.name == name {
				prop = sc.prop
			}
		}
		value := govtypes.NetworkPropertyValue{StrValue: val}
		if n, ok := sdk.NewIntFromString(val); ok && n.IsUint64() {
			value = govtypes.NetworkPropertyValue{Value: n.Uint64(), StrValue: val}
		}
		accepted := false
		h.Block(BlockReq{Dt: 5, Absent: []int{2}}, func() {
			msg, _ := govtypes.NewMsgSubmitProposal(a0, "s", "s", govtypes.NewSetNetworkPropertyProposal(prop, value))
			res := h.Tx("submit-proposal", 0, msg)
			log = append(log, fmt.Sprintf("a0 submits SetNetworkProperty(%s) code=%d %s", step, res.Code, short(res.Log)))
			if res.Code == 0 {
				accepted = true
				h.Tx("vote-proposal", 0, govtypes.NewMsgVoteProposal(pid, a0, govtypes.OptionYes, sdk.ZeroDec()))
				pid++
			}
			h.TxFee("bank-send", 5, ukex(1003), banktypes.NewMsgSend(c.Accounts[5].Addr, c.Accounts[4].Addr, ukex(1)))
		}, nil)
		if h.Halted {
			break
		}
		if accepted {
			for i, dt := range []int64{310, 310, 5, 5} {
				if !h.Block(BlockReq{Dt: dt, Proposer: i, Absent: []int{2}}, func() {
					h.TxFee("bank-send", 5, ukex(1001), banktypes.NewMsgSend(c.Accounts[5].Addr, c.Accounts[4].Addr, ukex(1)))
				}, nil) {
					break
				}
			}
		}
	}
	for i, dt := range []int64{5, 90000, 2700000, 5} {
		if !h.Block(BlockReq{Dt: dt, Proposer: i}, nil, nil) {
			break
		}
	}
	log = append(log, "after each accepted proposal: blocks dt=310,310,5,5 (validator 2 absent); finally dt=5,90000,2700000,5")
	cs := histCase("settings-mid-history", h, log, p)
	if len(h.Blocks) > 14 {
		cs.JSON["history"] = append(append([]Block{}, h.Blocks[:3]...), h.Blocks[len(h.Blocks)-8:]...)
	}
	return []Case{cs}
}

// busy: state that the begin/end-block hooks of several modules act on
func busy(h *H, log *[]string) {
	c := h.C
	v := c.Validators[0]
	h.Block(BlockReq{Dt: 5}, func() {
		h.Tx("upsert-staking-pool", v.Owner, multistakingtypes.NewMsgUpsertStakingPool(c.Accounts[v.Owner].Addr.String(), v.ValAddr.String(), true, dec("0.1")))
		h.Tx("delegate", 4, multistakingtypes.NewMsgDelegate(c.Accounts[4].Addr.String(), v.ValAddr.String(), sdk.NewCoins(sdk.NewInt64Coin("ukex", 1_000_003), sdk.NewInt64Coin("ubtc", 1003))))
		h.Tx("set-compound-info", 4, multistakingtypes.NewMsgSetCompoundInfo(c.Accounts[4].Addr.String(), true, nil))
		a1 := c.Accounts[1].Addr
		msg := spendingtypes.NewMsgCreateSpendingPool("bp", 0, 0, sdk.NewDecCoins(sdk.NewDecCoinFromDec("ukex", dec("1"))), dec("0.33"), 60, 30,
			spendingtypes.PermInfo{OwnerAccounts: []string{a1.String()}},
			spendingtypes.WeightedPermInfo{Accounts: []spendingtypes.WeightedAccount{{Account: a1.String(), Weight: dec("1")}}}, a1, true, 7)
		h.Tx("create-spending-pool", 1, msg)
		h.Tx("register-beneficiary", 1, spendingtypes.NewMsgRegisterSpendingPoolBeneficiary("bp", a1))
		h.Tx("deposit-spending-pool", 1, spendingtypes.NewMsgDepositSpendingPool("bp", ukex(100_003), a1))
	}, nil)
	*log = append(*log, "validator 0 gets a staking pool with an autocompounding delegator (a4: ukex + ubtc); a1 creates a dynamic spending pool bp, registers and deposits")
}

// ------------------------------------------------------------------ genesis export + re-import mid-history, then the hooks

func runExportImport(seed uint64, ops hx.Counter) []Case {
	h := NewH(abci.Config{Accounts: 6, Validators: 3, Seed: seed}, ops)
	c := h.C
	log := []string{fmt.Sprintf("chain accounts=6 validators=3 seed=%d", seed)}
	a0 := c.Accounts[0].Addr
	busy(h, &log)
	h.Block(BlockReq{Dt: 5, Proposer: 1, Absent: []int{2}}, func() {
		msg, _ := govtypes.NewMsgSubmitProposal(a0, "p", "p", govtypes.NewUpsertDataRegistryProposal("k", "h", "r", "e", 1))
		h.Tx("submit-proposal", 0, msg)
		h.Tx("vote-proposal", 0, govtypes.NewMsgVoteProposal(1, a0, govtypes.OptionNo, sdk.ZeroDec()))
		h.Tx("pause", c.Validators[1].Owner, slashingtypes.NewMsgPause(c.Validators[1].ValAddr))
		h.TxFee("bank-send", 5, ukex(1003), banktypes.NewMsgSend(c.Accounts[5].Addr, c.Accounts[4].Addr, ukex(1)))
	}, nil)
	h.Block(BlockReq{Dt: 5, Absent: []int{2}}, nil, nil)
	log = append(log, "a pending proposal with a No vote, validator 1 paused, validator 2 absent; then the state is exported and a fresh application is started from it")
	state, p1 := c.Export()
	if p1 != "" {
		log = append(log, "export panicked (C12's concern, not a block hook): "+short(p1))
		return []Case{histCase("export-import", h, log, map[string]interface{}{"chain_seed": seed})}
	}
	c2, p2 := abci.NewChainFromExport(c, state)
	if p2 != "" {
		log = append(log, "InitChain of the exported state panicked (C12's concern, not a block hook): "+short(p2))
		return []Case{histCase("export-import", h, log, map[string]interface{}{"chain_seed": seed})}
	}
	h2 := &H{C: c2, Ops: ops}
	for i, dt := range []int64{5, 5, 310, 310, 5, 90000, 5} {
		if !h2.Block(BlockReq{Dt: dt, Proposer: i, Absent: []int{2}}, func() {
			h2.TxFee("bank-send", 5, ukex(1001), banktypes.NewMsgSend(c2.Accounts[5].Addr, c2.Accounts[4].Addr, ukex(1)))
		}, nil) {
			break
		}
	}
	log = append(log, "on the imported chain (heights restart at 1, time continues): blocks dt=5,5,310,310,5,90000,5 each with a bank send")
	h.Blocks = append(h.Blocks, h2.Blocks...)
	return []Case{histCase("export-import", h, log, map[string]interface{}{"chain_seed": seed})}
}

// ------------------------------------------------------------------ the state the gov end-blocker enumerates, perturbed by every other writer

type PerturbParams struct {
	Seed       uint64 `json:"chain_seed"`
	Individual []int  `json:"vote_permissions_whitelisted_individually(index into proposal types)"`
	ViaRole    []int  `json:"vote_permissions_held_through_a_role"`
	Councilor  bool   `json:"claims_a_councilor_seat"`
	VoteBefore bool   `json:"casts_a_vote_on_a_pending_proposal_first"`
	Perturb    string `json:"perturbation"` // rotate | rotate-validator | unassign-role | blacklist | remove-permission | none
}

var perturbations = []string{"rotate", "rotate", "rotate-validator", "unassign-role", "blacklist", "remove-permission", "none", "rotate-validator-onto-actor-and-away", "rotate-validator-onto-actor-and-away", "rotate-onto-actor"}

func drawPerturb(r *hx.Rng, seed uint64) PerturbParams {
	p := PerturbParams{Seed: seed, Councilor: r.Chance(40), VoteBefore: r.Chance(60), Perturb: perturbations[r.Intn(len(perturbations))]}
	for t := range propTypes {
		switch r.Intn(3) {
		case 0:
			p.Individual = append(p.Individual, t)
		case 1:
			p.ViaRole = append(p.ViaRole, t)
		}
	}
	return p
}

// Account a1 (owner of validator 1) holds vote permissions individually and through a role, optionally a councilor
// seat and a vote on a pending proposal. Then ANOTHER module or message rewrites that state (both address
// rotations, role unassignment, blacklisting, permission removal). Afterwards one proposal of EVERY proposal
// type is created, approved and run through its voting end and enactment in the real gov end-blocker.
func runPerturb(p PerturbParams, ops hx.Counter) []Case {
	h := NewH(abci.Config{Accounts: 6, Validators: 2, Seed: p.Seed}, ops)
	c := h.C
	log := []string{fmt.Sprintf("chain accounts=6 validators=2 (owners a0, a1) seed=%d", p.Seed)}
	a0, a1 := c.Accounts[0].Addr, c.Accounts[1].Addr
	proof := []byte("c06-perturb-proof")
	sum := sha256.Sum256(proof)
	h.Block(BlockReq{Dt: 5}, func() {
		for _, t := range p.Individual {
			res := h.Tx("whitelist-permission", 0, govtypes.NewMsgWhitelistPermissions(a0, a1, uint32(propTypes[t].perm)))
			log = append(log, fmt.Sprintf("a0 whitelists the vote permission of %s for a1 individually code=%d", propTypes[t].name, res.Code))
		}
		h.Tx("create-role", 0, govtypes.NewMsgCreateRole(a0, "perturbed", "role"))
		for _, t := range p.ViaRole {
			h.Tx("whitelist-role-permission", 0, govtypes.NewMsgWhitelistRolePermission(a0, "perturbed", uint32(propTypes[t].perm)))
		}
		res := h.Tx("assign-role", 0, govtypes.NewMsgAssignRole(a0, a1, 3))
		log = append(log, fmt.Sprintf("a0 creates role perturbed(3) carrying the vote permissions of the types %v and assigns it to a1 (and a2) code=%d", p.ViaRole, res.Code))
		h.Tx("assign-role", 0, govtypes.NewMsgAssignRole(a0, c.Accounts[2].Addr, 3))
		if p.Councilor {
			h.Tx("whitelist-permission", 0, govtypes.NewMsgWhitelistPermissions(a0, a1, uint32(govtypes.PermClaimCouncilor)))
			res = h.Tx("claim-councilor", 1, govtypes.NewMsgClaimCouncilor(a1, "counc", "counc", "d", "s", "c", "a"))
			log = append(log, fmt.Sprintf("a1 claims a councilor seat code=%d", res.Code))
		}
		res = h.Tx("register-recovery-secret", 1, recoverytypes.NewMsgRegisterRecoverySecret(a1.String(), hex.EncodeToString(sum[:]), "nonce", ""))
		log = append(log, fmt.Sprintf("a1 registers a recovery secret code=%d", res.Code))
		if strings.Contains(p.Perturb, "onto-actor") {
			// U: an address without account that is already a network actor holding the same permissions individually
			u := sdk.AccAddress([]byte("c06-perturbed-addr!!"))
			for _, t := range p.Individual {
				h.Tx("whitelist-permission", 0, govtypes.NewMsgWhitelistPermissions(a0, u, uint32(propTypes[t].perm)))
			}
			h.Tx("whitelist-permission", 0, govtypes.NewMsgWhitelistPermissions(a0, u, uint32(govtypes.PermVoteSoftwareUpgradeProposal)))
			h.Tx("assign-role", 0, govtypes.NewMsgAssignRole(a0, u, 3))
			log = append(log, "a0 whitelists the same individual vote permissions (and the upgrade vote permission, and role perturbed) for the unused address U: U is a network actor without account")
		}
		if strings.HasPrefix(p.Perturb, "rotate-validator") {
			mon := "counc" // the councilor claim above already registered this moniker
			if !p.Councilor {
				mon = "valone"
				h.Tx("register-identity-records", 1, govtypes.NewMsgRegisterIdentityRecords(a1, []govtypes.IdentityInfoEntry{{Key: "moniker", Info: mon}}))
			}
			res = h.Tx("issue-recovery-tokens", 1, recoverytypes.NewMsgIssueRecoveryTokens(a1.String()))
			n, _ := sdk.NewIntFromString("6000000000000")
			h.Tx("bank-send", 1, banktypes.NewMsgSend(a1, c.Accounts[5].Addr, sdk.NewCoins(sdk.NewCoin("rr/"+mon, n))))
			log = append(log, fmt.Sprintf("a1 issues recovery tokens (code=%d) and sends 60%% of them to a5", res.Code))
		}
	}, nil)
	pid := uint64(0)
	if p.VoteBefore && len(p.Individual)+len(p.ViaRole) > 0 {
		t := append(append([]int{}, p.Individual...), p.ViaRole...)[0]
		h.Block(BlockReq{Dt: 5, Proposer: 1}, func() {
			msg, _ := govtypes.NewMsgSubmitProposal(a0, "t", "d", propTypes[t].mk(c, 90))
			if res := h.Tx("submit-proposal", 0, msg); res.Code == 0 {
				pid++
				res = h.Tx("vote-proposal", 1, govtypes.NewMsgVoteProposal(pid, a1, govtypes.OptionNo, sdk.ZeroDec()))
				log = append(log, fmt.Sprintf("a0 submits %s; a1 votes no on it code=%d", propTypes[t].name, res.Code))
			}
		}, nil)
	}
	h.Block(BlockReq{Dt: 5}, func() {
		fresh := sdk.AccAddress([]byte("c06-perturbed-addr!!"))
		switch p.Perturb {
		case "rotate":
			res := h.Tx("rotate-recovery-address", 1, recoverytypes.NewMsgRotateRecoveryAddress(a1.String(), a1.String(), fresh.String(), hex.EncodeToString(proof)))
			log = append(log, fmt.Sprintf("a1 rotates its address with MsgRotateRecoveryAddress code=%d %s", res.Code, short(res.Log)))
		case "rotate-validator":
			res := h.Tx("rotate-validator-by-rr-holder", 5, recoverytypes.NewMsgRotateValidatorByHalfRRTokenHolder(c.Accounts[5].Addr.String(), a1.String(), fresh.String()))
			log = append(log, fmt.Sprintf("a5 (60%% of the RR tokens) rotates validator owner a1 with MsgRotateValidatorByHalfRRTokenHolder code=%d %s", res.Code, short(res.Log)))
		case "rotate-onto-actor":
			res := h.Tx("rotate-recovery-address", 1, recoverytypes.NewMsgRotateRecoveryAddress(a1.String(), a1.String(), fresh.String(), hex.EncodeToString(proof)))
			log = append(log, fmt.Sprintf("a1 rotates its address ONTO the existing actor U with MsgRotateRecoveryAddress code=%d %s", res.Code, short(res.Log)))
		case "rotate-validator-onto-actor-and-away":
			res := h.Tx("rotate-validator-by-rr-holder", 5, recoverytypes.NewMsgRotateValidatorByHalfRRTokenHolder(c.Accounts[5].Addr.String(), a1.String(), fresh.String()))
			log = append(log, fmt.Sprintf("a5 (60%% of the RR tokens) rotates validator owner a1 ONTO the existing actor U code=%d %s", res.Code, short(res.Log)))
			away := sdk.AccAddress([]byte("c06-rotated-away-v!!"))
			res = h.Tx("rotate-validator-by-rr-holder", 5, recoverytypes.NewMsgRotateValidatorByHalfRRTokenHolder(c.Accounts[5].Addr.String(), fresh.String(), away.String()))
			log = append(log, fmt.Sprintf("a5 rotates it again, AWAY from U to a fresh address code=%d %s", res.Code, short(res.Log)))
		case "unassign-role":
			res := h.Tx("unassign-role", 0, govtypes.NewMsgUnassignRole(a0, a1, 3))
			log = append(log, fmt.Sprintf("a0 unassigns role perturbed from a1 code=%d", res.Code))
		case "blacklist":
			for _, t := range append(append([]int{}, p.Individual...), p.ViaRole...) {
				h.Tx("blacklist-permission", 0, govtypes.NewMsgBlacklistPermissions(a0, a1, uint32(propTypes[t].perm)))
			}
			log = append(log, "a0 blacklists every vote permission a1 holds")
		case "remove-permission":
			for _, t := range p.Individual {
				h.Tx("remove-whitelisted-permission", 0, govtypes.NewMsgRemoveWhitelistedPermissions(a0, a1, uint32(propTypes[t].perm)))
			}
			log = append(log, "a0 removes every individually whitelisted vote permission of a1")
		}
	}, nil)
	h.Block(BlockReq{Dt: 5, Proposer: 1}, func() {
		for t := range propTypes {
			msg, err := govtypes.NewMsgSubmitProposal(a0, "t", "d", propTypes[t].mk(c, t))
			if err != nil {
				continue
			}
			if res := h.Tx("submit-proposal", 0, msg); res.Code == 0 {
				pid++
				h.Tx("vote-proposal", 0, govtypes.NewMsgVoteProposal(pid, a0, govtypes.OptionYes, sdk.ZeroDec()))
			}
		}
		content := upgradetypes.NewSoftwareUpgradeProposal("v2", nil, c.Time.Unix()+700, abci.ChainID, "verif-2", "", 0, "", true, false, true)
		if msg, err := govtypes.NewMsgSubmitProposal(a0, "u", "u", content); err == nil {
			if res := h.Tx("submit-proposal", 0, msg); res.Code == 0 {
				pid++
				h.Tx("vote-proposal", 0, govtypes.NewMsgVoteProposal(pid, a0, govtypes.OptionYes, sdk.ZeroDec()))
			}
		}
		log = append(log, "a0 submits and approves one proposal of EVERY proposal type of the table and a SoftwareUpgrade(upgrade_time=now+700, instate, skip handler)")
	}, nil)
	for _, dt := range []int64{310, 310, 5, 90, 5, 5} {
		if !h.Block(BlockReq{Dt: dt, Proposer: 0}, nil, nil) {
			break
		}
	}
	log = append(log, "blocks dt=310,310,5,90,5,5 (voting end and enactment of all of them; the upgrade plan becomes due)")
	return []Case{histCase("actor-perturbation", h, log, p)}
}
