package main

// Vote-pattern histories: proposals of several types (and polls) are finalised with EVERY vote pattern
// (no votes; only No; only Abstain; only Veto; mixed without Yes; one Yes; Yes+No) and the chain is then
// run PAST their enactment end for several blocks -- the gov end-blocker touches every finalised proposal
// again there (GetAverageVotesSlash, processEnactmentProposal).

import (
	"fmt"

	"verif/harness/abci"
	"verif/harness/hx"

	govtypes "github.com/KiraCore/sekai/x/gov/types"
	slashingtypes "github.com/KiraCore/sekai/x/slashing/types"
	tokenstypes "github.com/KiraCore/sekai/x/tokens/types"
	sdk "github.com/cosmos/cosmos-sdk/types"
)

// vote patterns over three voters (a0 = sudo, a1, a2); 0 = does not vote
var votePatterns = [][3]govtypes.VoteOption{
	{0, 0, 0},
	{govtypes.OptionNo, 0, 0},
	{0, govtypes.OptionAbstain, 0},
	{0, 0, govtypes.OptionNoWithVeto},
	{govtypes.OptionNo, govtypes.OptionAbstain, govtypes.OptionNoWithVeto},
	{govtypes.OptionNo, govtypes.OptionNo, govtypes.OptionAbstain},
	{govtypes.OptionYes, 0, 0},
	{govtypes.OptionYes, govtypes.OptionNo, 0},
	{govtypes.OptionAbstain, govtypes.OptionAbstain, govtypes.OptionAbstain},
}

type VotePatternParams struct {
	Seed     uint64  `json:"chain_seed"`
	Types    []int   `json:"proposal_type_of_pattern"` // per pattern: index into the proposal-type table
	Slash    string  `json:"slash_of_votes"`
	TailDts  []int64 `json:"block_dts_after_enactment"`
	Patterns []int   `json:"patterns"`
}

type propType struct {
	name string
	perm govtypes.PermValue
	mk   func(c *abci.Chain, i int) govtypes.Content
}

var propTypes = []propType{
	{"UpsertDataRegistry", govtypes.PermVoteUpsertDataRegistryProposal, func(c *abci.Chain, i int) govtypes.Content {
		return govtypes.NewUpsertDataRegistryProposal(fmt.Sprintf("key%d", i), "hash", "ref", "enc", 10)
	}},
	{"SetNetworkProperty", govtypes.PermVoteSetNetworkPropertyProposal, func(c *abci.Chain, i int) govtypes.Content {
		return govtypes.NewSetNetworkPropertyProposal(govtypes.MinTxFee, govtypes.NetworkPropertyValue{Value: uint64(100 + i)})
	}},
	{"SetProposalDurations", govtypes.PermVoteSetProposalDurationProposal, func(c *abci.Chain, i int) govtypes.Content {
		return govtypes.NewSetProposalDurationsProposal([]string{"UpsertDataRegistry"}, []uint64{uint64(300 + i)})
	}},
	{"SetPoorNetworkMessages", govtypes.PermVoteSetPoorNetworkMessagesProposal, func(c *abci.Chain, i int) govtypes.Content {
		return govtypes.NewSetPoorNetworkMessagesProposal([]string{"submit_proposal", "vote_proposal"})
	}},
	{"CreateRole", govtypes.PermVoteCreateRoleProposal, func(c *abci.Chain, i int) govtypes.Content {
		return govtypes.NewCreateRoleProposal(fmt.Sprintf("role%d", i), "d", []govtypes.PermValue{govtypes.PermClaimCouncilor}, nil)
	}},
	{"WhitelistAccountPermission", govtypes.PermVoteWhitelistAccountPermissionProposal, func(c *abci.Chain, i int) govtypes.Content {
		return govtypes.NewWhitelistAccountPermissionProposal(c.Accounts[3+i%3].Addr, govtypes.PermValue(40+i))
	}},
	{"ResetWholeValidatorRank", govtypes.PermVoteResetWholeValidatorRankProposal, func(c *abci.Chain, i int) govtypes.Content {
		return slashingtypes.NewResetWholeValidatorRankProposal(c.Accounts[0].Addr)
	}},
	{"TokensWhiteBlackChange", govtypes.PermVoteTokensWhiteBlackChangeProposal, func(c *abci.Chain, i int) govtypes.Content {
		return tokenstypes.NewTokensWhiteBlackChangeProposal(true, true, []string{fmt.Sprintf("tok%d", i)})
	}},
}

func drawVotePatterns(r *hx.Rng, seed uint64) VotePatternParams {
	p := VotePatternParams{Seed: seed, Slash: pickS(r, "0", "0.01", "1")}
	for i := range votePatterns {
		p.Patterns = append(p.Patterns, i)
		p.Types = append(p.Types, r.Intn(len(propTypes)))
	}
	for b := 0; b < 4; b++ {
		p.TailDts = append(p.TailDts, pickI(r, 1, 5, 299, 300, 301, 4000))
	}
	return p
}

func runVotePatterns(p VotePatternParams, ops hx.Counter) []Case {
	h := NewH(abci.Config{Accounts: 6, Validators: 2, Seed: p.Seed}, ops)
	c := h.C
	log := []string{fmt.Sprintf("chain accounts=6 validators=2 seed=%d", p.Seed)}
	a0 := c.Accounts[0].Addr
	h.Block(BlockReq{Dt: 5}, func() {
		seen := map[govtypes.PermValue]bool{}
		for _, t := range p.Types {
			pt := propTypes[t]
			if seen[pt.perm] {
				continue
			}
			seen[pt.perm] = true
			for a := 1; a <= 2; a++ {
				h.Tx("whitelist-permission", 0, govtypes.NewMsgWhitelistPermissions(a0, c.Accounts[a].Addr, uint32(pt.perm)))
			}
		}
		log = append(log, "a0 whitelists the vote permissions of the proposal types used for a1 and a2 (a0 holds them through role sudo)")
	}, nil)
	var pids []uint64
	h.Block(BlockReq{Dt: 5, Proposer: 1}, func() {
		next := uint64(1)
		for i, pat := range p.Patterns {
			pt := propTypes[p.Types[i]]
			msg, err := govtypes.NewMsgSubmitProposal(a0, "t", "d", pt.mk(c, i))
			if err != nil {
				continue
			}
			res := h.Tx("submit-proposal", 0, msg)
			log = append(log, fmt.Sprintf("a0 submits %s (to be voted with pattern %v) code=%d", pt.name, votePatterns[pat], res.Code))
			if res.Code == 0 {
				pids = append(pids, next)
				next++
			} else {
				pids = append(pids, 0)
			}
		}
	}, nil)
	h.Block(BlockReq{Dt: 5}, func() {
		for i, pat := range p.Patterns {
			if pids[i] == 0 {
				continue
			}
			for v, opt := range votePatterns[pat] {
				if opt == 0 {
					continue
				}
				res := h.Tx("vote-proposal", v, govtypes.NewMsgVoteProposal(pids[i], c.Accounts[v].Addr, opt, dec(p.Slash)))
				log = append(log, fmt.Sprintf("a%d votes %v (slash %s) on proposal %d code=%d", v, opt, p.Slash, pids[i], res.Code))
			}
		}
	}, nil)
	dts := append([]int64{310, 310}, p.TailDts...)
	for i, dt := range dts {
		if !h.Block(BlockReq{Dt: dt, Proposer: i}, nil, nil) {
			break
		}
	}
	log = append(log, fmt.Sprintf("blocks dt=%v (voting end, enactment end, then past it)", dts))
	return []Case{histCase("gov-vote-patterns", h, log, p)}
}

// ------------------------------------------------------------------ polls with every vote pattern

type PollPatternParams struct {
	Seed    uint64 `json:"chain_seed"`
	Quorum0 bool   `json:"vote_quorum_zero_in_genesis"`
}

var pollPatterns = [][3]govtypes.PollVoteOption{
	{0, 0, 0},
	{govtypes.PollOptionAbstain, 0, 0},
	{govtypes.PollOptionNoWithVeto, govtypes.PollOptionNoWithVeto, 0},
	{govtypes.PollOptionCustom, 0, 0},
	{govtypes.PollOptionCustom, govtypes.PollOptionAbstain, govtypes.PollOptionNoWithVeto},
	{govtypes.PollOptionCustom, govtypes.PollOptionCustom, govtypes.PollOptionCustom},
}

func runPollPatterns(p PollPatternParams, ops hx.Counter) []Case {
	cfg := abci.Config{Accounts: 6, Validators: 2, Seed: p.Seed}
	h := NewH(cfg, ops)
	c := h.C
	log := []string{fmt.Sprintf("chain accounts=6 validators=2 seed=%d", p.Seed)}
	a0 := c.Accounts[0].Addr
	h.Block(BlockReq{Dt: 5}, func() {
		h.Tx("create-role", 0, govtypes.NewMsgCreateRole(a0, "pollers", "poll role"))
		h.Tx("create-role", 0, govtypes.NewMsgCreateRole(a0, "nobody", "role without members"))
		for a := 1; a <= 3; a++ {
			h.Tx("assign-role", 0, govtypes.NewMsgAssignRole(a0, c.Accounts[a].Addr, 3))
		}
		log = append(log, "a0 creates roles pollers(3) for a1,a2,a3 and nobody(4) without members")
	}, nil)
	h.Block(BlockReq{Dt: 5}, func() {
		for i := range pollPatterns {
			res := h.Tx("poll-create", 0, govtypes.NewMsgPollCreate(a0, fmt.Sprintf("t%d", i), "d", "ref", "sum", []string{"aa", "bb"}, []string{"pollers"}, 3, "string", 1, "30s"))
			log = append(log, fmt.Sprintf("a0 creates poll %d for role pollers, 30s code=%d", i+1, res.Code))
		}
		res := h.Tx("poll-create", 0, govtypes.NewMsgPollCreate(a0, "empty", "d", "ref", "sum", []string{"aa"}, []string{"nobody"}, 1, "string", 1, "30s"))
		log = append(log, fmt.Sprintf("a0 creates a poll for the member-less role nobody code=%d", res.Code))
	}, nil)
	h.Block(BlockReq{Dt: 5}, func() {
		for i, pat := range pollPatterns {
			for v, opt := range pat {
				if opt == 0 {
					continue
				}
				val := ""
				if opt == govtypes.PollOptionCustom {
					val = []string{"aa", "bb", "cc"}[v]
				}
				res := h.Tx("poll-vote", 1+v, govtypes.NewMsgVotePoll(uint64(i+1), c.Accounts[1+v].Addr, opt, val))
				log = append(log, fmt.Sprintf("a%d votes %v %q in poll %d code=%d", 1+v, opt, val, i+1, res.Code))
			}
		}
	}, nil)
	for i, dt := range []int64{40, 5, 400, 5} {
		if !h.Block(BlockReq{Dt: dt, Proposer: i}, nil, nil) {
			break
		}
	}
	log = append(log, "blocks dt=40,5,400,5 (polls end, then past it)")
	return []Case{histCase("gov-poll-patterns", h, log, p)}
}

var _ = sdk.ZeroDec
