package main

// Witnesses of the *_refuted lemmas of coq/Proofs/Halt.v, replayed on the real application on every run
// (deterministic parameters). Each is the minimal history of its finding.

import "verif/harness/hx"

func witnesses(ops hx.Counter, withPoll bool) []Case {
	var out []Case
	tag := func(name string, cs []Case) {
		for _, c := range cs {
			c.JSON["witness"] = name
			out = append(out, c)
		}
	}
	// spending EndBlocker: DynamicRate with DynamicRatePeriod = 0, one registered claimer, a deposit
	tag("spend_endblock_period_zero", runDynRate(DynRateParams{Seed: 9001,
		Pools: []PoolSpec{{Creator: 1, Dynamic: true, Period: 0, Bens: []BenSpec{{2, "1", true}}, Deposit: "1000ukex"}}, Dts: []int64{5}, Claims: []int{-1}}, ops))
	// ... DynamicRatePeriod = 2^64-1: period+last wraps around uint64, int64(period) = -1, the rate is negative
	tag("spend_endblock_period_wraps", runDynRate(DynRateParams{Seed: 9002,
		Pools: []PoolSpec{{Creator: 1, Dynamic: true, Period: ^uint64(0), Bens: []BenSpec{{2, "1", true}}, Deposit: "1000ukex"}}, Dts: []int64{5}, Claims: []int{-1}}, ops))
	// ... a negative beneficiary weight (ValidateBasic only rejects nil/zero)
	tag("spend_endblock_negative_weight", runDynRate(DynRateParams{Seed: 9003,
		Pools: []PoolSpec{{Creator: 1, Dynamic: true, Period: 1, Bens: []BenSpec{{2, "-1", true}}, Deposit: "1000ukex"}}, Dts: []int64{5}, Claims: []int{-1}}, ops))
	// the same three with honest neighbours must not panic
	tag("spend_endblock_honest", runDynRate(DynRateParams{Seed: 9004,
		Pools: []PoolSpec{{Creator: 1, Dynamic: true, Period: 60, Bens: []BenSpec{{2, "1", true}, {3, "2", true}}, Deposit: "100000ukex"},
			{Creator: 2, Dynamic: false, Period: 0, Bens: []BenSpec{{2, "1", true}}, Deposit: "5ukex"}}, Dts: []int64{5, 61, 61}, Claims: []int{-1, 0, -1}}, ops))
	// a due dynamic pool with a deposit and NO registered claimer (total weight 0) must be skipped, also when its period is 0
	tag("spend_endblock_no_claimers", runDynRate(DynRateParams{Seed: 9005,
		Pools: []PoolSpec{{Creator: 1, Dynamic: true, Period: 1, Bens: []BenSpec{{2, "1", false}}, Deposit: "1000ukex"},
			{Creator: 2, Dynamic: true, Period: 0, Bens: []BenSpec{{3, "2", false}}, Deposit: "7ukex"}}, Dts: []int64{5, 61}, Claims: []int{-1, -1}}, ops))
	// gov: a voter loses its directly whitelisted vote permission after voting
	tag("gov_votes_gt_voters_direct", runQuorumPerm(QuorumPermParams{Seed: 9011, Direct: []int{1, 2}, Voting: []int{0, 1, 2}, Mutations: []int{1}, MutArg: []int{1}}, ops))
	// ... loses the role that carried the permission
	tag("gov_votes_gt_voters_role", runQuorumPerm(QuorumPermParams{Seed: 9012, ViaRole: []int{1, 2}, Voting: []int{0, 1, 2}, Mutations: []int{2}, MutArg: []int{1}}, ops))
	tag("gov_quorum_honest", runQuorumPerm(QuorumPermParams{Seed: 9013, Direct: []int{1}, ViaRole: []int{2}, Voting: []int{0, 1}, Mutations: []int{3}, MutArg: []int{3}}, ops))
	// spending-pool proposal of a pool whose own vote quorum exceeds 1: no vote needed, any account can do it
	tag("gov_dynamic_quorum_gt_one", runQuorumDyn(QuorumDynParams{Seed: 9021, Quorum: "2", NewQuorum: "0.5", Creator: 1, Owners: []int{1}}, ops))
	// pool drained by an ordinary claim between submission and enactment of a Withdraw proposal
	tag("spend_withdraw_drained", runWithdraw(WithdrawParams{Seed: 9031, Rate: 10, DepA: 1000, DepB: 0, Amount: 900, NBen: 1, Claim: true, DtClaim: 50}, ops))
	// Distribution proposal: 1000ukex/s, deposit 5000: dry run after 3 s pays 3000, enactment >= 23 s later needs > 5000
	tag("spend_distribution_outgrows_pool", runDistribution(DistributionParams{Seed: 9041, Rate: 1000, Deposit: 5000, Weight: "1", Expiry: 1000000, DtSubmit: 3, Dts: []int64{11, 11, 11}}, ops))
	if withPoll {
		tag("gov_poll_votes_gt_voters", runPoll(PollParams{Seed: 9051, Unassign: true}, ops))
		tag("gov_poll_honest", runPoll(PollParams{Seed: 9052, Unassign: false}, ops))
	}
	// input-only panic (UBI period 0): filtered by the dry run; and a valid UBI record through its end-blocker
	tag("input_only_panic_filtered_ubi_period_zero", runUbi(UbiParams{Seed: 9071, Period: 0, Amount: 10}, ops))
	tag("ubi_endblock_honest", runUbi(UbiParams{Seed: 9072, Period: 31556952, Amount: 1}, ops))
	// amount 2^63: amount*31556952 wraps to 0 in the hard-cap check (C13), int64(amount) is negative in the UBI end-blocker
	tag("ubi_endblock_amount_wraps", runUbi(UbiParams{Seed: 9073, Period: 86400, Amount: 1 << 63}, ops))
	// every vote pattern on every proposal type, run past the enactment end (GetAverageVotesSlash & co.)
	for t := range propTypes {
		vp := VotePatternParams{Seed: 9080 + uint64(t), Slash: []string{"0", "0.01", "1"}[t%3], TailDts: []int64{5, 301, 5}}
		for i := range votePatterns {
			vp.Patterns = append(vp.Patterns, i)
			vp.Types = append(vp.Types, (t+i)%len(propTypes))
		}
		if t < 3 {
			tag("gov_vote_patterns", runVotePatterns(vp, ops))
		}
	}
	tag("gov_poll_patterns", runPollPatterns(PollPatternParams{Seed: 9090}, ops))
	// the sanctioned halt
	tag("upgrade_halt_sanctioned", runUpgrade(UpgradeParams{Seed: 9061, Instate: false, Skip: false}, ops))
	tag("upgrade_instate_skip_no_halt", runUpgrade(UpgradeParams{Seed: 9062, Instate: true, Skip: true}, ops))
	return out
}
