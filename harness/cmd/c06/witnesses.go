package main

// Witnesses of the *_refuted lemmas of coq/Proofs/Halt.v, replayed on the real application on every run
// (deterministic parameters). Each is the minimal history of its finding.

import (
	"strings"

	"verif/harness/hx"
)

func witnesses(ops hx.Counter, withPoll bool) []Case {
	var out []Case
	tag := func(name string, cs []Case) {
		for _, c := range cs {
			c.JSON["witness"] = name
			out = append(out, c)
		}
	}
	// spending EndBlocker: DynamicRate with DynamicRatePeriod = 0, one registered claimer, a deposit
	tag("spend_endblock_period_zero", runDynRate(DynRateParams{Seed: 9001,
		Pools: []PoolSpec{{Creator: 1, Dynamic: true, Period: 0, Bens: []BenSpec{{2, "1", true}}, Deposit: "1000ukex"}}, Dts: []int64{5}, Claims: []int{-1}}, ops))
	// ... DynamicRatePeriod = 2^64-1: period+last wraps around uint64, int64(period) = -1, the rate is negative
	tag("spend_endblock_period_wraps", runDynRate(DynRateParams{Seed: 9002,
		Pools: []PoolSpec{{Creator: 1, Dynamic: true, Period: ^uint64(0), Bens: []BenSpec{{2, "1", true}}, Deposit: "1000ukex"}}, Dts: []int64{5}, Claims: []int{-1}}, ops))
	// ... a negative beneficiary weight (ValidateBasic only rejects nil/zero)
	tag("spend_endblock_negative_weight", runDynRate(DynRateParams{Seed: 9003,
		Pools: []PoolSpec{{Creator: 1, Dynamic: true, Period: 1, Bens: []BenSpec{{2, "-1", true}}, Deposit: "1000ukex"}}, Dts: []int64{5}, Claims: []int{-1}}, ops))
	// the same three with honest neighbours must not panic
	tag("spend_endblock_honest", runDynRate(DynRateParams{Seed: 9004,
		Pools: []PoolSpec{{Creator: 1, Dynamic: true, Period: 60, Bens: []BenSpec{{2, "1", true}, {3, "2", true}}, Deposit: "100000ukex"},
			{Creator: 2, Dynamic: false, Period: 0, Bens: []BenSpec{{2, "1", true}}, Deposit: "5ukex"}}, Dts: []int64{5, 61, 61}, Claims: []int{-1, 0, -1}}, ops))
	// a due dynamic pool with a deposit and NO registered claimer (total weight 0) must be skipped, also when its period is 0
	tag("spend_endblock_no_claimers", runDynRate(DynRateParams{Seed: 9005,
		Pools: []PoolSpec{{Creator: 1, Dynamic: true, Period: 1, Bens: []BenSpec{{2, "1", false}}, Deposit: "1000ukex"},
			{Creator: 2, Dynamic: true, Period: 0, Bens: []BenSpec{{3, "2", false}}, Deposit: "7ukex"}}, Dts: []int64{5, 61}, Claims: []int{-1, -1}}, ops))
	// gov: a voter loses its directly whitelisted vote permission after voting
	tag("gov_votes_gt_voters_direct", runQuorumPerm(QuorumPermParams{Seed: 9011, Direct: []int{1, 2}, Voting: []int{0, 1, 2}, Mutations: []int{1}, MutArg: []int{1}}, ops))
	// ... loses the role that carried the permission
	tag("gov_votes_gt_voters_role", runQuorumPerm(QuorumPermParams{Seed: 9012, ViaRole: []int{1, 2}, Voting: []int{0, 1, 2}, Mutations: []int{2}, MutArg: []int{1}}, ops))
	tag("gov_quorum_honest", runQuorumPerm(QuorumPermParams{Seed: 9013, Direct: []int{1}, ViaRole: []int{2}, Voting: []int{0, 1}, Mutations: []int{3}, MutArg: []int{3}}, ops))
	// spending-pool proposal of a pool whose own vote quorum exceeds 1: no vote needed, any account can do it
	tag("gov_dynamic_quorum_gt_one", runQuorumDyn(QuorumDynParams{Seed: 9021, Quorum: "2", NewQuorum: "0.5", Creator: 1, Owners: []int{1}}, ops))
	// pool drained by an ordinary claim between submission and enactment of a Withdraw proposal
	tag("spend_withdraw_drained", runWithdraw(WithdrawParams{Seed: 9031, Rate: 10, DepA: 1000, DepB: 0, Amount: 900, NBen: 1, Claim: true, DtClaim: 50}, ops))
	tag("spend_withdraw_second_denom_beneficiary_removed", runWithdraw(WithdrawParams{Seed: 9032, Rate: 10, DepA: 5000, DepB: 1000, Amount: 900, NBen: 2, Claim: true, DtClaim: 50, ExtraDenom: true, DepositLater: 700, UpdateBens: true}, ops))
	// Distribution proposal: 1000ukex/s, deposit 5000: dry run after 3 s pays 3000, enactment >= 23 s later needs > 5000
	tag("spend_distribution_outgrows_pool", runDistribution(DistributionParams{Seed: 9041, Rate: 1000, Deposit: 5000, Weight: "1", Expiry: 1000000, DtSubmit: 3, Dts: []int64{11, 11, 11}}, ops))
	// time dimension of the same site: dynamic pool with a claim end; submitted before the claim end, the rate is recalculated after it, then enacted: negative duration
	tag("spend_distribution_negative_duration", runDistribution(DistributionParams{Seed: 9042, Rate: 1, Deposit: 1000000, Weight: "1", Expiry: 1000000, DtSubmit: 3, Dts: []int64{11, 11, 11},
		Dynamic: true, DynPeriod: 5, ClaimEndRel: 10}, ops))
	tag("spend_distribution_weight_updated_negative", runDistribution(DistributionParams{Seed: 9043, Rate: 1, Deposit: 1000000, Weight: "1", Expiry: 1000000, DtSubmit: 3, Dts: []int64{11, 11, 11}, UpdateWeight: "-1"}, ops))
	tag("spend_distribution_two_beneficiaries_claim_between", runDistribution(DistributionParams{Seed: 9044, Rate: 10, Deposit: 100000, Weight: "2", Expiry: 1000000, DtSubmit: 3, Dts: []int64{11, 11, 11},
		SecondBen: true, ClaimBetween: true, DepositLater: 1, ClaimStartRel: 2, ClaimEndRel: 600}, ops))
	if withPoll {
		tag("gov_poll_votes_gt_voters", runPoll(PollParams{Seed: 9051, Unassign: true}, ops))
		tag("gov_poll_honest", runPoll(PollParams{Seed: 9052, Unassign: false}, ops))
	}
	// input-only panic (UBI period 0): filtered by the dry run; and a valid UBI record through its end-blocker
	tag("input_only_panic_filtered_ubi_period_zero", runUbi(UbiParams{Seed: 9071, Period: 0, Amount: 10}, ops))
	tag("ubi_endblock_honest", runUbi(UbiParams{Seed: 9072, Period: 31556952, Amount: 1}, ops))
	// amount 2^63: amount*31556952 wraps to 0 in the hard-cap check (C13), int64(amount) is negative in the UBI end-blocker
	tag("ubi_endblock_amount_wraps", runUbi(UbiParams{Seed: 9073, Period: 86400, Amount: 1 << 63}, ops))
	// every vote pattern on every proposal type, run past the enactment end (GetAverageVotesSlash & co.)
	for t := range propTypes {
		vp := VotePatternParams{Seed: 9080 + uint64(t), Slash: []string{"0", "0.01", "1"}[t%3], TailDts: []int64{5, 301, 5}}
		for i := range votePatterns {
			vp.Patterns = append(vp.Patterns, i)
			vp.Types = append(vp.Types, (t+i)%len(propTypes))
		}
		if t < 3 {
			tag("gov_vote_patterns", runVotePatterns(vp, ops))
		}
	}
	tag("gov_poll_patterns", runPollPatterns(PollPatternParams{Seed: 9090}, ops))
	// reward path (BeginBlock): stake caps 0.5+0.5 over-credit one unit (C10), autocompound pays the credit out of the fee collector
	tag("stake_rewards_overcredit_shortfall", runRewards(RewardsParams{Seed: 1059, Snap: 1, Interval: 1, CapBtc: "0.5", Commission: "0.01", Compound: true, Delegators: 1, NBlocks: 48,
		Fees: []int64{101, 103, 1000, 107, 999}, ClaimEvery: 4}, ops))
	tag("stake_rewards_default_genesis", runRewards(RewardsParams{Seed: 9101, Snap: 1000, Interval: 17280, CapBtc: "0.25", Commission: "0.1", Compound: true, Delegators: 2, NBlocks: 40,
		Fees: []int64{101, 103, 1000, 107, 999}, ClaimEvery: 3}, ops))
	// autocompound re-delegation refused => panic(err) in IncreasePoolRewards (BeginBlock)
	tag("autocompound_fee_in_unstakeable_denom", runRewards(RewardsParams{Seed: 9102, Snap: 5, Interval: 1, CapBtc: "0.5", Commission: "0.01", Compound: true, Delegators: 1, NBlocks: 12,
		Fees: []int64{101, 103, 1000, 107, 999}, ClaimEvery: 0, FeeDenom: "xeth"}, ops))
	tag("autocompound_proposer_pauses_itself", runPauseProposer(PauseParams{Seed: 9103, Interval: 1, How: "pause", Compound: true}, ops))
	tag("autocompound_proposer_jailed_by_evidence", runPauseProposer(PauseParams{Seed: 9104, Interval: 1, How: "evidence", Compound: true}, ops))
	tag("proposer_pauses_no_autocompound", runPauseProposer(PauseParams{Seed: 9105, Interval: 1, How: "pause", Compound: false}, ops))
	tag("autocompound_into_slashed_pool", runSlash(SlashParams{Seed: 9114, Delegate: "1000000ukex", Vote: 1, Slash: "1", After: true, Compound: true}, ops))
	tag("slash_then_unjail_undelegate_rewards", runSlash(SlashParams{Seed: 9115, Delegate: "1000000ukex,5000ubtc", Vote: 1, Slash: "0.5", After: true, Compound: false}, ops))
	// evidence -> jail -> automatic SlashValidator proposal -> Apply (no dry run) -> multistaking.SlashStakingPool in EndBlock
	tag("slash_proposal_keeper_copy_nil", runSlash(SlashParams{Seed: 9111, Delegate: "1000000ukex,5000ubtc", Vote: 1, Slash: "0.5"}, ops))
	tag("slash_proposal_zero_ukex_burn", runSlash(SlashParams{Seed: 9112, Delegate: "5000ubtc", Vote: 1, Slash: "1"}, ops))
	tag("slash_proposal_rejected", runSlash(SlashParams{Seed: 9113, Delegate: "1000000ukex", Vote: 3, Slash: "0.5"}, ops))
	// the offender of a pending slash proposal rotates its address (DESIGN #16)
	tag("recovery_rotation_rewrites_proposal", runRotation(RotationParams{Seed: 9121, Rotate: true}, ops))
	tag("recovery_no_rotation", runRotation(RotationParams{Seed: 9122, Rotate: false}, ops))
	// layer2: MsgCreateDappProposal validates nothing; FinishDappBootstrap runs in EndBlock after the bootstrap period
	dp := DappParams{Bond: 1_000_000_000_000, TeamReserve: "valid", Premint: "1000", Postmint: "500", Ratio: "0.5", Drip: 86400, Denom: "dtk", Quorum: "0.33"}
	for i, mut := range []func(*DappParams){func(d *DappParams) {}, func(d *DappParams) { d.Ratio = "-1" }, func(d *DappParams) { d.Drip = 1 << 63 },
		func(d *DappParams) { d.TeamReserve = "not-an-address" }, func(d *DappParams) { d.Premint, d.Postmint, d.Ratio = "0", "0", "0" }, func(d *DappParams) { d.Bond = 20_000_000_000 }, func(d *DappParams) { d.Postmint = "-5" }} {
		d := dp
		d.Seed = 9130 + uint64(i)
		mut(&d)
		tag([]string{"dapp_bootstrap_honest", "dapp_negative_pool_ratio", "dapp_drip_beyond_int64", "dapp_invalid_team_reserve", "dapp_zero_lp_supply", "dapp_bootstrap_fails_refund", "dapp_negative_postmint_premint_uncovered"}[i], runDapp(d, ops))
	}
	// collectives / basket end-blockers, sends to module addresses
	tag("collective_honest", runCollective(CollectiveParams{Seed: 9141, Bond: 200_000_000_000, PoolExists: true, Quorum: "0.33", ClaimPeriod: 14400, Donation: "0.5", Dts: []int64{5, 14500, 5, 90000, 14500, 5}, Withdraw: true}, ops))
	tag("collective_missing_pool_low_bond", runCollective(CollectiveParams{Seed: 9142, Bond: 20_000_000_000, PoolExists: false, Quorum: "2", ClaimPeriod: 1 << 63, Donation: "1", Dts: []int64{5, 14500, 90000, 5}, Withdraw: false}, ops))
	tag("basket_honest", runBasket(BasketParams{Seed: 9151, LimitsPeriod: 86400}, ops))
	tag("module_address_send", runModuleSend(9161, ops))
	// recovery-token branch of the proposer payout: holders own all / part of the RR supply, odd rewards in several denoms
	rrFees := []string{"102ukex", "103ukex", "11ubtc", "1007xeth", "106ukex", "105ukex,11ubtc", "107ukex"}
	tag("recovery_rewards_two_halves", runRR(RRParams{Seed: 9171, Snap: 1, Holders: []string{"5000000000000", "5000000000000"}, NBlocks: 24, Fees: rrFees, Claim: 4, Burn: true}, ops))
	tag("recovery_rewards_three_thirds_default_snap", runRR(RRParams{Seed: 9172, Snap: 1000, Holders: []string{"3333333333333", "3333333333333", "3333333333334"}, NBlocks: 30, Fees: rrFees, Claim: 5}, ops))
	tag("recovery_rewards_partial_supply_issuer_holds_rest", runRR(RRParams{Seed: 9173, Snap: 1, Holders: []string{"1000000", "2500000000000"}, KeepSelf: true, NBlocks: 20, Fees: rrFees, Claim: 3}, ops))
	// hook stream: the upgrade BeginBlocker with validators in every status and every vote when the plan becomes due
	tag("upgrade_all_statuses_non_approving", runUpgradeStates(UpgradeStatesParams{Seed: 9181, Status: []string{"active", "inactive", "paused", "jailed"}, Votes: []int{1, 3, 1, 1}, Instate: true, Skip: true}, ops))
	tag("upgrade_all_statuses_changed_before_vote", runUpgradeStates(UpgradeStatesParams{Seed: 9182, Status: []string{"active", "jailed", "inactive", "paused"}, Votes: []int{1, 1, 0, 1}, Early: true, Instate: true, Skip: true}, ops))
	tag("upgrade_inactive_yes_voter_and_no_permission", runUpgradeStates(UpgradeStatesParams{Seed: 9183, Status: []string{"active", "paused", "inactive", "inactive"}, Votes: []int{1, 1, 2, 0}, Instate: false, Skip: false, NoPermA3: true}, ops))
	// settings driven to their extremes by proposals between blocks; export + re-import mid-history
	tag("settings_extremes", runSettings(SettingsParams{Seed: 9191, Steps: []string{"MISCHANCE_CONFIDENCE=0", "MAX_MISCHANCE=1", "INACTIVE_RANK_DECREASE_PERCENT=1", "UBI_HARDCAP=0", "MINIMUM_PROPOSAL_END_TIME=1"}}, ops))
	tag("settings_maxima", runSettings(SettingsParams{Seed: 9192, Steps: []string{"MAX_MISCHANCE=18446744073709551615", "UBI_HARDCAP=18446744073709551615", "MINIMUM_PROPOSAL_END_TIME=18446744073709551615", "DOWNTIME_INACTIVE_DURATION=18446744073709551615", "VOTE_QUORUM=1"}}, ops))
	tag("export_import_then_hooks", runExportImport(9201, ops))
	// the actor / permission indexes the gov end-blocker enumerates, rewritten by other writers, then proposals of every type
	for i, pert := range []string{"rotate", "rotate-validator", "unassign-role", "blacklist", "remove-permission", "none", "rotate-validator-onto-actor-and-away", "rotate-onto-actor"} {
		tag("actor_perturbed_"+strings.ReplaceAll(pert, "-", "_"), runPerturb(PerturbParams{Seed: 9210 + uint64(i), Individual: []int{0, 2, 4, 6}, ViaRole: []int{1, 3, 5}, Councilor: i%2 == 0, VoteBefore: true, Perturb: pert}, ops))
	}
	// key-prefix collisions in stores iterated by a concatenated prefix that block hooks read
	tag("rr_holder_prefix_node1_node10", runRRPrefix(RRPrefixParams{Seed: 9221, Snap: 1, Monikers: []string{"node1", "node10"}, Short: "6000000000000", Long: "1000000", Register: 2, NBlocks: 8}, ops))
	tag("rr_holder_unrelated_monikers", runRRPrefix(RRPrefixParams{Seed: 9222, Snap: 1, Monikers: []string{"x1", "x2"}, Short: "6000000000000", Long: "1000000", Register: 2, NBlocks: 8}, ops))
	tag("rr_holder_prefix_minority_holder", runRRPrefix(RRPrefixParams{Seed: 9223, Snap: 1, Monikers: []string{"a", "ab"}, Short: "4000000000000", Long: "1000000", Register: 3, NBlocks: 8}, ops))
	// the sanctioned halt
	tag("upgrade_halt_sanctioned", runUpgrade(UpgradeParams{Seed: 9061, Instate: false, Skip: false}, ops))
	tag("upgrade_instate_skip_no_halt", runUpgrade(UpgradeParams{Seed: 9062, Instate: true, Skip: true}, ops))
	return out
}
