package main

// Histories that drive the collectives, layer2 and basket end-blockers (and the lazily created module
// accounts) through real transactions.

import (
	"fmt"

	"verif/harness/abci"
	"verif/harness/hx"

	baskettypes "github.com/KiraCore/sekai/x/basket/types"
	collectivestypes "github.com/KiraCore/sekai/x/collectives/types"
	govtypes "github.com/KiraCore/sekai/x/gov/types"
	layer2types "github.com/KiraCore/sekai/x/layer2/types"
	multistakingtypes "github.com/KiraCore/sekai/x/multistaking/types"
	spendingtypes "github.com/KiraCore/sekai/x/spending/types"
	sdk "github.com/cosmos/cosmos-sdk/types"
	banktypes "github.com/cosmos/cosmos-sdk/x/bank/types"
)

// ------------------------------------------------------------------ collectives

type CollectiveParams struct {
	Seed        uint64  `json:"chain_seed"`
	Bond        int64   `json:"bond_share_tokens"`
	PoolExists  bool    `json:"spending_pool_exists"`
	Quorum      string  `json:"vote_quorum"`
	ClaimPeriod uint64  `json:"claim_period"`
	Donation    string  `json:"donation"`
	Dts         []int64 `json:"block_dts"`
	Withdraw    bool    `json:"withdraw_at_the_end"`
}

func drawCollective(r *hx.Rng, seed uint64, adversarial bool) CollectiveParams {
	p := CollectiveParams{Seed: seed, Bond: pickI(r, 200_000_000_000, 20_000_000_000, 100_000_000_000), PoolExists: true, Quorum: "0.33", ClaimPeriod: 14400,
		Donation: pickS(r, "0", "0.5", "1"), Withdraw: r.Chance(50)}
	if adversarial {
		p.PoolExists = r.Chance(60)
		p.Quorum = pickS(r, "0.33", "2", "-1")
		p.ClaimPeriod = pickU(r, 14400, 1<<63, ^uint64(0))
	}
	for b := 0; b < 6; b++ {
		p.Dts = append(p.Dts, pickI(r, 5, 14500, 90000, 5))
	}
	return p
}

func runCollective(p CollectiveParams, ops hx.Counter) []Case {
	h := NewH(abci.Config{Accounts: 6, Validators: 1, Seed: p.Seed}, ops)
	c := h.C
	log := []string{fmt.Sprintf("chain accounts=6 validators=1 seed=%d", p.Seed)}
	val := c.Validators[0]
	a1 := c.Accounts[1].Addr
	h.Block(BlockReq{Dt: 5}, func() {
		h.Tx("upsert-staking-pool", val.Owner, multistakingtypes.NewMsgUpsertStakingPool(c.Accounts[val.Owner].Addr.String(), val.ValAddr.String(), true, dec("0.1")))
		res := h.Tx("delegate", 1, multistakingtypes.NewMsgDelegate(a1.String(), val.ValAddr.String(), ukex(300_000_000_000)))
		log = append(log, fmt.Sprintf("validator owner creates its staking pool; a1 delegates 300000000000ukex code=%d", res.Code))
		if p.PoolExists {
			msg := spendingtypes.NewMsgCreateSpendingPool("cp", 0, 0, sdk.NewDecCoins(sdk.NewDecCoinFromDec("ukex", dec("1"))), dec("0.33"), 60, 30,
				spendingtypes.PermInfo{OwnerAccounts: []string{a1.String()}},
				spendingtypes.WeightedPermInfo{Accounts: []spendingtypes.WeightedAccount{{Account: c.Accounts[2].Addr.String(), Weight: dec("1")}}}, a1, false, 0)
			h.Tx("create-spending-pool", 1, msg)
		}
	}, nil)
	h.Block(BlockReq{Dt: 5}, func() {
		bonds := sdk.NewCoins(sdk.NewInt64Coin("v1/ukex", p.Bond))
		msg := collectivestypes.NewMsgCreateCollective(a1, "col", "d", bonds, collectivestypes.DepositWhitelist{Any: true},
			collectivestypes.OwnersWhitelist{Accounts: []string{a1.String()}}, []collectivestypes.WeightedSpendingPool{{Name: "cp", Weight: dec("1")}},
			uint64(c.Time.Unix()), p.ClaimPeriod, 0, dec(p.Quorum), 60, 30)
		res := h.Tx("create-collective", 1, msg)
		log = append(log, fmt.Sprintf("a1 creates collective col bonds=%s spending pool cp (exists=%v) claim_period=%d vote_quorum=%s code=%d %s", bonds, p.PoolExists, p.ClaimPeriod, p.Quorum, res.Code, short(res.Log)))
		// a second collective whose name EXTENDS the first one (contributors are iterated by collective-name prefix)
		msg2 := collectivestypes.NewMsgCreateCollective(a1, "col1", "d", sdk.NewCoins(sdk.NewInt64Coin("v1/ukex", 20_000_000_000)), collectivestypes.DepositWhitelist{Any: true},
			collectivestypes.OwnersWhitelist{Accounts: []string{a1.String()}}, []collectivestypes.WeightedSpendingPool{{Name: "cp", Weight: dec("1")}},
			uint64(c.Time.Unix()), 14400, 0, dec("0.33"), 60, 30)
		res = h.Tx("create-collective", 1, msg2)
		log = append(log, fmt.Sprintf("a1 creates a second collective col1 (name extends col) code=%d", res.Code))
		h.Tx("bond-collective", 2, collectivestypes.NewMsgBondCollective(c.Accounts[2].Addr, "col1", sdk.NewCoins()))
		res = h.Tx("bond-collective", 1, collectivestypes.NewMsgBondCollective(a1, "col", sdk.NewCoins(sdk.NewInt64Coin("v1/ukex", 1_000_000_007))))
		log = append(log, fmt.Sprintf("a1 bonds more code=%d", res.Code))
		if p.Donation != "0" {
			res = h.Tx("donate-collective", 1, collectivestypes.NewMsgDonateCollective(a1, "col", 0, dec(p.Donation), false))
			log = append(log, fmt.Sprintf("a1 sets donation %s code=%d", p.Donation, res.Code))
		}
	}, nil)
	for i, dt := range p.Dts {
		last := i == len(p.Dts)-1
		ok := h.Block(BlockReq{Dt: dt}, func() {
			h.TxFee("bank-send", 4, ukex(1001), banktypes.NewMsgSend(c.Accounts[4].Addr, c.Accounts[5].Addr, ukex(1)))
			if last && p.Withdraw {
				res := h.Tx("withdraw-collective", 1, collectivestypes.NewMsgWithdrawCollective(a1, "col"))
				log = append(log, fmt.Sprintf("a1 withdraws from the collective code=%d", res.Code))
			}
		}, nil)
		if !ok {
			break
		}
	}
	h.Block(BlockReq{Dt: 90000}, nil, nil)
	log = append(log, fmt.Sprintf("blocks dt=%v,90000 each with a bank send paying 1001ukex", p.Dts))
	return []Case{histCase("collective", h, log, p)}
}

// ------------------------------------------------------------------ layer2 dApp bootstrap

type DappParams struct {
	Seed        uint64 `json:"chain_seed"`
	Bond        int64  `json:"bond_ukex"`
	ExtraBond   int64  `json:"extra_bond_ukex"`
	TeamReserve string `json:"team_reserve"` // "", "valid", or a literal string
	Premint     string `json:"premint"`
	Postmint    string `json:"postmint"`
	Ratio       string `json:"pool_ratio"`
	Drip        uint64 `json:"pool_drip"`
	Denom       string `json:"denom"`
	Quorum      string `json:"vote_quorum"`
}

func drawDapp(r *hx.Rng, seed uint64, adversarial bool) DappParams {
	p := DappParams{Seed: seed, Bond: pickI(r, 1_000_000_000_000, 20_000_000_000, 5_000_000_000_000), ExtraBond: pickI(r, 0, 1_000_000_000_000),
		TeamReserve: "valid", Premint: pickS(r, "0", "1000"), Postmint: pickS(r, "0", "500"), Ratio: pickS(r, "0.5", "1"), Drip: pickU(r, 10, 86400), Denom: "dtk", Quorum: "0.33"}
	if adversarial {
		p.TeamReserve = pickS(r, "valid", "", "not-an-address")
		p.Premint = pickS(r, "0", "1000", "-5")
		p.Postmint = pickS(r, "0", "500", "-5")
		p.Ratio = pickS(r, "0.5", "0", "-1", "1000000000000000000")
		p.Drip = pickU(r, 0, 10, 1<<63, ^uint64(0))
		p.Denom = pickS(r, "dtk", "d", "9bad denom")
		p.Quorum = pickS(r, "0.33", "2")
	}
	return p
}

func runDapp(p DappParams, ops hx.Counter) []Case {
	h := NewH(abci.Config{Accounts: 6, Validators: 1, Seed: p.Seed}, ops)
	c := h.C
	log := []string{fmt.Sprintf("chain accounts=6 validators=1 seed=%d", p.Seed)}
	a1 := c.Accounts[1].Addr
	team := p.TeamReserve
	if team == "valid" {
		team = c.Accounts[3].Addr.String()
	}
	pre, _ := sdk.NewIntFromString(p.Premint)
	post, _ := sdk.NewIntFromString(p.Postmint)
	h.Block(BlockReq{Dt: 5}, func() {
		dapp := layer2types.Dapp{Name: "dp1", Denom: p.Denom, Description: "d",
			Controllers:   layer2types.Controllers{Whitelist: layer2types.AccountRange{Addresses: []string{a1.String()}}},
			Pool:          layer2types.LpPoolConfig{Ratio: dec(p.Ratio), Drip: p.Drip},
			Issuance:      layer2types.IssuanceConfig{Premint: pre, Postmint: post, Time: 10},
			UpdateTimeMax: 60, ExecutorsMin: 1, ExecutorsMax: 2, VerifiersMin: 1, VoteQuorum: dec(p.Quorum), VotePeriod: 60, VoteEnactment: 30,
			PoolFee: dec("0.01"), TeamReserve: team}
		res := h.Tx("create-dapp", 1, &layer2types.MsgCreateDappProposal{Sender: a1.String(), Dapp: dapp, Bond: sdk.NewInt64Coin("ukex", p.Bond)})
		log = append(log, fmt.Sprintf("a1 creates dApp dp1 denom=%q bond=%dukex team_reserve=%q premint=%s postmint=%s pool_ratio=%s drip=%d vote_quorum=%s code=%d %s",
			p.Denom, p.Bond, team, p.Premint, p.Postmint, p.Ratio, p.Drip, p.Quorum, res.Code, short(res.Log)))
		if p.ExtraBond > 0 {
			res = h.Tx("bond-dapp", 2, &layer2types.MsgBondDappProposal{Sender: c.Accounts[2].Addr.String(), DappName: "dp1", Bond: sdk.NewInt64Coin("ukex", p.ExtraBond)})
			log = append(log, fmt.Sprintf("a2 bonds %dukex code=%d", p.ExtraBond, res.Code))
		}
	}, nil)
	dts := []int64{5, 604800, 5, 20, 90000, 5}
	for _, dt := range dts {
		if !h.Block(BlockReq{Dt: dt}, nil, nil) {
			break
		}
	}
	log = append(log, fmt.Sprintf("blocks dt=%v (the bootstrap period of 604800s ends in the second one)", dts))
	return []Case{histCase("dapp-bootstrap", h, log, p)}
}

// ------------------------------------------------------------------ basket

type BasketParams struct {
	Seed         uint64 `json:"chain_seed"`
	LimitsPeriod uint64 `json:"limits_period"`
}

func runBasket(p BasketParams, ops hx.Counter) []Case {
	h := NewH(abci.Config{Accounts: 6, Validators: 1, Seed: p.Seed}, ops)
	c := h.C
	log := []string{fmt.Sprintf("chain accounts=6 validators=1 seed=%d", p.Seed)}
	a0 := c.Accounts[0].Addr
	one := sdk.NewInt(1)
	big := sdk.NewInt(1_000_000_000_000)
	h.Block(BlockReq{Dt: 5}, func() {
		b := baskettypes.Basket{Suffix: "usd", Description: "d", Amount: sdk.ZeroInt(), SwapFee: dec("0.0015"), SlipppageFeeMin: dec("0.0015"), TokensCap: dec("0.9"),
			LimitsPeriod: p.LimitsPeriod, MintsMin: one, MintsMax: big, BurnsMin: one, BurnsMax: big, SwapsMin: one, SwapsMax: big,
			Tokens: []baskettypes.BasketToken{{Denom: "ubtc", Weight: dec("10"), Amount: sdk.ZeroInt(), Deposits: true, Withdraws: true, Swaps: true},
				{Denom: "xeth", Weight: dec("1"), Amount: sdk.ZeroInt(), Deposits: true, Withdraws: true, Swaps: true}}}
		msg, _ := govtypes.NewMsgSubmitProposal(a0, "b", "b", baskettypes.NewProposalCreateBasket(b))
		res := h.Tx("submit-proposal", 0, msg)
		log = append(log, fmt.Sprintf("a0 submits CreateBasket(usd: ubtc w10, xeth w1, limits_period=%d) code=%d %s", p.LimitsPeriod, res.Code, short(res.Log)))
		res = h.Tx("vote-proposal", 0, govtypes.NewMsgVoteProposal(1, a0, govtypes.OptionYes, sdk.ZeroDec()))
		log = append(log, fmt.Sprintf("a0 votes yes code=%d", res.Code))
	}, nil)
	h.Block(BlockReq{Dt: 310}, nil, nil)
	h.Block(BlockReq{Dt: 310}, nil, nil)
	h.Block(BlockReq{Dt: 5}, nil, nil)
	for i, dt := range []int64{5, 5, 100, 90000, 5} {
		ok := h.Block(BlockReq{Dt: dt}, func() {
			a := 1 + i%3
			addr := c.Accounts[a].Addr
			res := h.Tx("basket-mint", a, baskettypes.NewMsgBasketTokenMint(addr, 1, sdk.NewCoins(sdk.NewInt64Coin("ubtc", int64(300+i)), sdk.NewInt64Coin("xeth", int64(5000+i)))))
			log = append(log, fmt.Sprintf("a%d mints basket tokens code=%d %s", a, res.Code, short(res.Log)))
			if i >= 2 {
				res = h.Tx("basket-burn", a, baskettypes.NewMsgBasketTokenBurn(addr, 1, sdk.NewInt64Coin("b1/usd", 100)))
				log = append(log, fmt.Sprintf("a%d burns 100 basket tokens code=%d", a, res.Code))
				res = h.Tx("basket-swap", a, baskettypes.NewMsgBasketTokenSwap(addr, 1, []baskettypes.SwapPair{{InAmount: sdk.NewInt64Coin("ubtc", 10), OutToken: "xeth"}}))
				log = append(log, fmt.Sprintf("a%d swaps code=%d", a, res.Code))
			}
		}, nil)
		if !ok {
			break
		}
	}
	log = append(log, "blocks dt=310,310,5,5,5,100,90000,5")
	return []Case{histCase("basket", h, log, p)}
}

// ------------------------------------------------------------------ plain sends to module addresses before the module account exists

func runModuleSend(seed uint64, ops hx.Counter) []Case {
	h := NewH(abci.Config{Accounts: 6, Validators: 1, Seed: seed}, ops)
	c := h.C
	log := []string{fmt.Sprintf("chain accounts=6 validators=1 seed=%d", seed)}
	mods := []string{"fee_collector", "mint", "spending", "distributor", "basket", "multistaking", "collectives", "layer2", "recovery", "customgov", "ubi", "custody", "tokens", "customstaking", "customslashing"}
	val := c.Validators[0]
	h.Block(BlockReq{Dt: 5}, func() {
		for _, m := range mods {
			res := h.Tx("send-to-module-address", 2, banktypes.NewMsgSend(c.Accounts[2].Addr, abci.ModuleAddr(m), ukex(5)))
			log = append(log, fmt.Sprintf("a2 sends 5ukex to the address of module %s code=%d", m, res.Code))
		}
	}, nil)
	h.Block(BlockReq{Dt: 5}, func() {
		a1 := c.Accounts[1].Addr
		res := h.Tx("upsert-staking-pool", val.Owner, multistakingtypes.NewMsgUpsertStakingPool(c.Accounts[val.Owner].Addr.String(), val.ValAddr.String(), true, dec("0.1")))
		log = append(log, fmt.Sprintf("staking pool code=%d", res.Code))
		res = h.Tx("delegate", 1, multistakingtypes.NewMsgDelegate(a1.String(), val.ValAddr.String(), ukex(1_000_000)))
		log = append(log, fmt.Sprintf("a1 delegates code=%d %s", res.Code, short(res.Log)))
		msg := spendingtypes.NewMsgCreateSpendingPool("mp", 0, 0, sdk.NewDecCoins(sdk.NewDecCoinFromDec("ukex", dec("1"))), dec("0.33"), 60, 30,
			spendingtypes.PermInfo{OwnerAccounts: []string{a1.String()}},
			spendingtypes.WeightedPermInfo{Accounts: []spendingtypes.WeightedAccount{{Account: a1.String(), Weight: dec("1")}}}, a1, true, 1)
		h.Tx("create-spending-pool", 1, msg)
		h.Tx("register-beneficiary", 1, spendingtypes.NewMsgRegisterSpendingPoolBeneficiary("mp", a1))
		res = h.Tx("deposit-spending-pool", 1, spendingtypes.NewMsgDepositSpendingPool("mp", ukex(1000), a1))
		log = append(log, fmt.Sprintf("a1 deposits into a spending pool code=%d %s", res.Code, short(res.Log)))
	}, nil)
	for _, dt := range []int64{5, 5, 400, 90000, 2700000, 5} {
		ok := h.Block(BlockReq{Dt: dt}, func() {
			h.TxFee("bank-send", 4, ukex(1001), banktypes.NewMsgSend(c.Accounts[4].Addr, c.Accounts[5].Addr, ukex(1)))
		}, nil)
		if !ok {
			break
		}
	}
	log = append(log, "blocks dt=5,5,400,90000,2700000,5 (UBI, inflation and reward paths use the mint, fee collector and spending module accounts)")
	return []Case{histCase("module-address-send", h, log, map[string]interface{}{"chain_seed": seed})}
}
