package main

// Reward-path histories (BeginBlock): distributor AllocateTokens -> multistaking IncreasePoolRewards
// (credit per staked denom, rounded per denom; autocompound payout from the fee collector) ->
// AllocateTokensToValidator. Every payout out of the fee collector panics when the collector cannot cover
// it. With stake caps summing to 1 the per-denom rounding can credit one unit more than was allocated
// (C10 credited_le_allocation:*:rounding+1:capsum1); the recipe runs many blocks with odd fees.

import (
	"crypto/sha256"
	"encoding/hex"
	"encoding/json"
	"fmt"

	"verif/harness/abci"
	"verif/harness/hx"

	simapp "github.com/KiraCore/sekai/app"
	distributortypes "github.com/KiraCore/sekai/x/distributor/types"
	govtypes "github.com/KiraCore/sekai/x/gov/types"
	multistakingtypes "github.com/KiraCore/sekai/x/multistaking/types"
	recoverytypes "github.com/KiraCore/sekai/x/recovery/types"
	slashingtypes "github.com/KiraCore/sekai/x/slashing/types"
	stakingtypes "github.com/KiraCore/sekai/x/staking/types"
	tokenstypes "github.com/KiraCore/sekai/x/tokens/types"
	sdk "github.com/cosmos/cosmos-sdk/types"
	banktypes "github.com/cosmos/cosmos-sdk/x/bank/types"
)

type RewardsParams struct {
	Seed       uint64  `json:"chain_seed"`
	Snap       int64   `json:"genesis_snap_period"`
	Interval   uint64  `json:"genesis_autocompound_interval_blocks"`
	CapBtc     string  `json:"genesis_ubtc_stake_cap"`
	Commission string  `json:"pool_commission"`
	Compound   bool    `json:"autocompound_all"`
	Delegators int     `json:"delegators"`
	NBlocks    int     `json:"blocks"`
	Fees       []int64 `json:"fee_cycle_ukex"`
	ClaimEvery int     `json:"claim_rewards_every_n_blocks"`
	FeeDenom   string  `json:"fee_denom"` // "" = ukex; xeth / ubtc are fee-enabled foreign denoms (xeth is not stake-enabled)
}

func drawRewards(r *hx.Rng, seed uint64, adversarial bool) RewardsParams {
	p := RewardsParams{Seed: seed, Snap: 1000, Interval: 17280, CapBtc: "0.25", Commission: pickS(r, "0.01", "0.1", "0.5"), Compound: r.Chance(60),
		Delegators: 1 + r.Intn(3), NBlocks: 30 + r.Intn(60), Fees: []int64{101, 103, 1000, 107, 999}, ClaimEvery: r.Intn(7)}
	if adversarial {
		p.Snap = pickI(r, 1, 1, 2, 5)
		p.Interval = pickU(r, 1, 1, 3)
		p.CapBtc = "0.5"
		p.FeeDenom = pickS(r, "", "", "xeth", "ubtc")
	}
	return p
}

func runRewards(p RewardsParams, ops hx.Counter) []Case {
	h := NewH(abci.Config{Accounts: 6, Validators: 1, Seed: p.Seed,
		Gov: func(g *govtypes.GenesisState) { g.NetworkProperties.AutocompoundIntervalNumBlocks = p.Interval },
		Genesis: func(gs simapp.GenesisState, _ func(interface{}) []byte) {
			cdc := simapp.MakeEncodingConfig().Marshaler
			dg := distributortypes.DefaultGenesis()
			dg.SnapPeriod = p.Snap
			gs[distributortypes.ModuleName] = cdc.MustMarshalJSON(dg)
			tg := tokenstypes.DefaultGenesis()
			for i := range tg.TokenInfos {
				if tg.TokenInfos[i].Denom == "ubtc" {
					tg.TokenInfos[i].StakeCap = dec(p.CapBtc)
				}
				if tg.TokenInfos[i].Denom == "xeth" && p.CapBtc == "0.5" { // keep the sum of the caps at 1
					tg.TokenInfos[i].StakeCap = sdk.ZeroDec()
				}
			}
			gs[tokenstypes.ModuleName] = cdc.MustMarshalJSON(tg)
		}}, ops)
	c := h.C
	log := []string{fmt.Sprintf("chain accounts=6 validators=1 seed=%d genesis: distributor snap_period=%d, autocompound_interval_num_blocks=%d, stake caps ukex=0.5 ubtc=%s (xeth 0 when ubtc is 0.5)", p.Seed, p.Snap, p.Interval, p.CapBtc)}
	val := c.Validators[0]
	h.Block(BlockReq{Dt: 5}, func() {
		res := h.TxFee("upsert-staking-pool", val.Owner, ukex(100), multistakingtypes.NewMsgUpsertStakingPool(c.Accounts[val.Owner].Addr.String(), val.ValAddr.String(), true, dec(p.Commission)))
		log = append(log, fmt.Sprintf("a%d (validator owner) creates its staking pool commission=%s code=%d", val.Owner, p.Commission, res.Code))
		for d := 1; d <= p.Delegators; d++ {
			amt := sdk.NewCoins(sdk.NewInt64Coin("ukex", int64(1000000*d+7)), sdk.NewInt64Coin("ubtc", int64(1000*d+3)))
			res = h.TxFee("delegate", d, ukex(100), multistakingtypes.NewMsgDelegate(c.Accounts[d].Addr.String(), val.ValAddr.String(), amt))
			log = append(log, fmt.Sprintf("a%d delegates %s code=%d", d, amt, res.Code))
			if p.Compound {
				res = h.TxFee("set-compound-info", d, ukex(100), multistakingtypes.NewMsgSetCompoundInfo(c.Accounts[d].Addr.String(), true, nil))
				log = append(log, fmt.Sprintf("a%d sets autocompound for all denoms code=%d", d, res.Code))
			}
		}
	}, nil)
	for b := 0; b < p.NBlocks && !h.Halted; b++ {
		fee := p.Fees[b%len(p.Fees)]
		h.Block(BlockReq{Dt: 5}, func() {
			feeCoins := ukex(fee)
			switch p.FeeDenom {
			case "xeth": // fee rate 0.1
				feeCoins = sdk.NewCoins(sdk.NewInt64Coin("xeth", fee*10))
			case "ubtc": // fee rate 10
				feeCoins = sdk.NewCoins(sdk.NewInt64Coin("ubtc", fee/10+1))
			}
			h.TxFee("bank-send", 4, feeCoins, banktypes.NewMsgSend(c.Accounts[4].Addr, c.Accounts[5].Addr, ukex(1)))
			if p.ClaimEvery > 0 && b%p.ClaimEvery == p.ClaimEvery-1 {
				d := 1 + b%p.Delegators
				h.TxFee("claim-rewards", d, ukex(100), multistakingtypes.NewMsgClaimRewards(c.Accounts[d].Addr.String()))
			}
		}, nil)
	}
	log = append(log, fmt.Sprintf("%d blocks dt=5, each with a bank send by a4 paying a fee from the cycle %v (ukex value) in denom %q", p.NBlocks, p.Fees, p.FeeDenom))
	// keep the replay small: only the first and last few blocks
	js, _ := json.Marshal(p)
	_ = js
	cs := histCase("stake-rewards", h, log, p)
	if len(h.Blocks) > 12 {
		cs.JSON["history"] = append(append([]Block{}, h.Blocks[:3]...), h.Blocks[len(h.Blocks)-6:]...)
		cs.JSON["history_note"] = fmt.Sprintf("%d blocks, first 3 and last 6 shown", len(h.Blocks))
	}
	return []Case{cs}
}

// ------------------------------------------------------------------ automatic slash proposal (evidence -> Jail -> proposal -> Apply in EndBlock)

type SlashParams struct {
	Seed     uint64 `json:"chain_seed"`
	Delegate string `json:"delegation"` // coins delegated to the offender's pool, "" = none
	Vote     int    `json:"vote_option"`
	Slash    string `json:"vote_slash"`
	After    bool   `json:"continue_after_the_slash"` // fast proposals (genesis 30 s / 30 s), unjail, undelegate, rewards with the slashed pool's validator proposing
	Compound bool   `json:"delegator_autocompounds"`
}

// A validator with a staking pool double-signs: the evidence handler (BeginBlock) jails it and raises a
// SlashValidator proposal WITHOUT the dry run of SubmitProposal; when it passes, Apply runs
// multistaking.SlashStakingPool inside the gov end-blocker.
func runSlash(p SlashParams, ops hx.Counter) []Case {
	cfg := abci.Config{Accounts: 6, Validators: 3, Seed: p.Seed}
	if p.After {
		cfg.Gov = func(g *govtypes.GenesisState) {
			g.NetworkProperties.MinimumProposalEndTime = 30
			g.NetworkProperties.ProposalEnactmentTime = 30
			g.NetworkProperties.AutocompoundIntervalNumBlocks = 1
		}
	}
	h := NewH(cfg, ops)
	c := h.C
	log := []string{fmt.Sprintf("chain accounts=6 validators=3 seed=%d (after=%v: genesis proposal end/enactment time 30 s, autocompound interval 1)", p.Seed, p.After)}
	off := c.Validators[1]
	h.Block(BlockReq{Dt: 5}, func() {
		res := h.Tx("upsert-staking-pool", off.Owner, multistakingtypes.NewMsgUpsertStakingPool(c.Accounts[off.Owner].Addr.String(), off.ValAddr.String(), true, dec("0.1")))
		log = append(log, fmt.Sprintf("a%d (owner of validator 1) creates its staking pool code=%d", off.Owner, res.Code))
		if p.Delegate != "" {
			amt, _ := sdk.ParseCoinsNormalized(p.Delegate)
			res = h.Tx("delegate", 4, multistakingtypes.NewMsgDelegate(c.Accounts[4].Addr.String(), off.ValAddr.String(), amt))
			log = append(log, fmt.Sprintf("a4 delegates %s to it code=%d", amt, res.Code))
			res = h.Tx("delegate", 5, multistakingtypes.NewMsgDelegate(c.Accounts[5].Addr.String(), off.ValAddr.String(), amt))
			log = append(log, fmt.Sprintf("a5 delegates %s to it code=%d", amt, res.Code))
			if p.Compound {
				res = h.Tx("set-compound-info", 4, multistakingtypes.NewMsgSetCompoundInfo(c.Accounts[4].Addr.String(), true, nil))
				log = append(log, fmt.Sprintf("a4 sets autocompound for all denoms code=%d", res.Code))
			}
		}
	}, nil)
	h.Block(BlockReq{Dt: 5, Evidence: []int{1}}, nil, nil)
	log = append(log, "block with duplicate-vote evidence against validator 1 (jailed; the slashing module raises a SlashValidator proposal)")
	h.Block(BlockReq{Dt: 5, Absent: []int{1}}, func() {
		if p.Vote != 0 {
			res := h.Tx("vote-proposal", 0, govtypes.NewMsgVoteProposal(1, c.Accounts[0].Addr, govtypes.VoteOption(p.Vote), dec(p.Slash)))
			log = append(log, fmt.Sprintf("a0 votes %v slash=%s on proposal 1 code=%d", govtypes.VoteOption(p.Vote), p.Slash, res.Code))
		}
		if p.After {
			msg, _ := govtypes.NewMsgSubmitProposal(c.Accounts[0].Addr, "unjail", "unjail", stakingtypes.NewUnjailValidatorProposal(c.Accounts[0].Addr, off.ValAddr, "ref"))
			res := h.Tx("submit-proposal", 0, msg)
			log = append(log, fmt.Sprintf("a0 submits UnjailValidator(validator 1) code=%d %s", res.Code, short(res.Log)))
			res = h.Tx("vote-proposal", 0, govtypes.NewMsgVoteProposal(2, c.Accounts[0].Addr, govtypes.OptionYes, sdk.ZeroDec()))
			log = append(log, fmt.Sprintf("a0 votes yes on it code=%d", res.Code))
		}
	}, nil)
	if !p.After {
		for i, dt := range []int64{310, 310, 5, 400, 5} {
			if !h.Block(BlockReq{Dt: dt, Proposer: 2 * i, Absent: []int{1}}, nil, nil) {
				break
			}
		}
		log = append(log, "blocks dt=310,310,5,400,5")
		return []Case{histCase("slash-proposal", h, log, p)}
	}
	for i, dt := range []int64{35, 35, 5, 5} {
		if !h.Block(BlockReq{Dt: dt, Proposer: 2 * (i % 2), Absent: []int{1}}, nil, nil) { // validators 0 and 2 propose while 1 is jailed
			break
		}
	}
	log = append(log, "blocks dt=35,35,5,5 (both proposals finalised and enacted)")
	for b := 0; b < 12 && !h.Halted; b++ {
		prop := 0 // CometBFT lets validator 1 propose only while it is in the set: use it when the app has it active
		if v, err := c.App.CustomStakingKeeper.GetValidator(c.QueryCtx(), off.ValAddr); err == nil && v.IsActive() {
			prop = 1
		}
		h.Block(BlockReq{Dt: 5, Proposer: prop}, func() {
			h.TxFee("bank-send", 3, ukex(int64(1001+2*b)), banktypes.NewMsgSend(c.Accounts[3].Addr, c.Accounts[2].Addr, ukex(1)))
			switch b {
			case 0:
				res := h.Tx("activate", off.Owner, slashingtypes.NewMsgActivate(off.ValAddr))
				log = append(log, fmt.Sprintf("the owner of validator 1 sends MsgActivate code=%d %s", res.Code, short(res.Log)))
			case 2:
				res := h.Tx("undelegate", 5, multistakingtypes.NewMsgUndelegate(c.Accounts[5].Addr.String(), off.ValAddr.String(), ukex(1000)))
				log = append(log, fmt.Sprintf("a5 undelegates 1000ukex from the slashed pool code=%d %s", res.Code, short(res.Log)))
			case 4:
				res := h.Tx("claim-rewards", 5, multistakingtypes.NewMsgClaimRewards(c.Accounts[5].Addr.String()))
				log = append(log, fmt.Sprintf("a5 claims rewards code=%d", res.Code))
			case 6:
				res := h.Tx("delegate", 3, multistakingtypes.NewMsgDelegate(c.Accounts[3].Addr.String(), off.ValAddr.String(), ukex(5000)))
				log = append(log, fmt.Sprintf("a3 delegates to the slashed pool code=%d", res.Code))
			case 8:
				res := h.Tx("upsert-staking-pool", off.Owner, multistakingtypes.NewMsgUpsertStakingPool(c.Accounts[off.Owner].Addr.String(), off.ValAddr.String(), true, dec("0.1")))
				log = append(log, fmt.Sprintf("the owner re-enables the pool code=%d", res.Code))
			}
		}, nil)
	}
	log = append(log, "12 blocks dt=5 proposed by validator 1 when it is active again (else validator 0), each with a bank send paying an odd fee")
	return []Case{histCase("slash-proposal", h, log, p)}
}

// ------------------------------------------------------------------ recovery rotation rewrites a pending slash proposal (DESIGN section 6 #16)

type RotationParams struct {
	Seed   uint64 `json:"chain_seed"`
	Rotate bool   `json:"rotate_offender_address"`
}

// The offender of a pending SlashValidator proposal rotates its address: RotateRecoveryAddress stores the
// proposal back with Content = Any(MsgRotateRecoveryAddress) -- not a proposal content.
func runRotation(p RotationParams, ops hx.Counter) []Case {
	h := NewH(abci.Config{Accounts: 6, Validators: 3, Seed: p.Seed}, ops)
	c := h.C
	log := []string{fmt.Sprintf("chain accounts=6 validators=3 seed=%d", p.Seed)}
	off := c.Validators[1]
	owner := c.Accounts[off.Owner].Addr
	proof := []byte("c06-recovery-proof")
	sum := sha256.Sum256(proof)
	h.Block(BlockReq{Dt: 5}, func() {
		res := h.Tx("upsert-staking-pool", off.Owner, multistakingtypes.NewMsgUpsertStakingPool(owner.String(), off.ValAddr.String(), true, dec("0.1")))
		log = append(log, fmt.Sprintf("a%d (owner of validator 1) creates its staking pool code=%d", off.Owner, res.Code))
		res = h.Tx("register-recovery-secret", off.Owner, recoverytypes.NewMsgRegisterRecoverySecret(owner.String(), hex.EncodeToString(sum[:]), "nonce", ""))
		log = append(log, fmt.Sprintf("a%d registers a recovery secret code=%d", off.Owner, res.Code))
	}, nil)
	h.Block(BlockReq{Dt: 5, Evidence: []int{1}}, nil, nil)
	log = append(log, "block with duplicate-vote evidence against validator 1 (jailed; SlashValidator proposal 1 raised)")
	h.Block(BlockReq{Dt: 5, Absent: []int{1}}, func() {
		if p.Rotate {
			fresh := sdk.AccAddress([]byte("c06-rotated-address!"))
			res := h.Tx("rotate-recovery-address", off.Owner, recoverytypes.NewMsgRotateRecoveryAddress(owner.String(), owner.String(), fresh.String(), hex.EncodeToString(proof)))
			log = append(log, fmt.Sprintf("a%d rotates its address to a fresh one with the recovery proof code=%d %s", off.Owner, res.Code, short(res.Log)))
		}
	}, nil)
	for i, dt := range []int64{5, 310, 310, 5} {
		if !h.Block(BlockReq{Dt: dt, Proposer: 2 * i, Absent: []int{1}}, nil, nil) {
			break
		}
	}
	log = append(log, "blocks dt=5,310,310,5")
	return []Case{histCase("recovery-rotation", h, log, p)}
}

func short(s string) string {
	if len(s) > 120 {
		return s[:120]
	}
	return s
}

// ------------------------------------------------------------------ the previous proposer is no longer active when its reward is allocated

type PauseParams struct {
	Seed     uint64 `json:"chain_seed"`
	Interval uint64 `json:"genesis_autocompound_interval_blocks"`
	How      string `json:"how"` // "pause" (MsgPause by the proposer's owner in its own block), "evidence" (double-sign evidence in the next block), "none"
	Compound bool   `json:"delegator_autocompounds"`
}

// Validator 1 proposes block H and has a staking pool with an autocompounding delegator. It stops being
// active (own MsgPause in block H, or evidence / downtime handled by the begin-blockers that run BEFORE the
// distributor in block H+1); AllocateTokens of H+1 still credits its pool and the autocompound re-delegation
// is refused ("not an active validator") -> panic(err) in IncreasePoolRewards.
func runPauseProposer(p PauseParams, ops hx.Counter) []Case {
	h := NewH(abci.Config{Accounts: 6, Validators: 3, Seed: p.Seed,
		Gov: func(g *govtypes.GenesisState) { g.NetworkProperties.AutocompoundIntervalNumBlocks = p.Interval }}, ops)
	c := h.C
	log := []string{fmt.Sprintf("chain accounts=6 validators=3 seed=%d genesis autocompound_interval_num_blocks=%d", p.Seed, p.Interval)}
	v := c.Validators[1]
	h.Block(BlockReq{Dt: 5}, func() {
		h.Tx("upsert-staking-pool", v.Owner, multistakingtypes.NewMsgUpsertStakingPool(c.Accounts[v.Owner].Addr.String(), v.ValAddr.String(), true, dec("0.1")))
		res := h.Tx("delegate", 4, multistakingtypes.NewMsgDelegate(c.Accounts[4].Addr.String(), v.ValAddr.String(), ukex(1_000_000)))
		log = append(log, fmt.Sprintf("validator 1 gets a staking pool; a4 delegates 1000000ukex code=%d", res.Code))
		if p.Compound {
			h.Tx("set-compound-info", 4, multistakingtypes.NewMsgSetCompoundInfo(c.Accounts[4].Addr.String(), true, nil))
			log = append(log, "a4 sets autocompound for all denoms")
		}
	}, nil)
	for b := 0; b < 3; b++ {
		h.Block(BlockReq{Dt: 5, Proposer: b}, func() {
			h.TxFee("bank-send", 3, ukex(1001), banktypes.NewMsgSend(c.Accounts[3].Addr, c.Accounts[2].Addr, ukex(1)))
		}, nil)
	}
	h.Block(BlockReq{Dt: 5, Proposer: 1}, func() {
		h.TxFee("bank-send", 3, ukex(1003), banktypes.NewMsgSend(c.Accounts[3].Addr, c.Accounts[2].Addr, ukex(1)))
		if p.How == "pause" {
			res := h.Tx("pause", v.Owner, slashingtypes.NewMsgPause(v.ValAddr))
			log = append(log, fmt.Sprintf("block proposed by validator 1; its owner sends MsgPause in it code=%d", res.Code))
		}
	}, nil)
	req := BlockReq{Dt: 5, Proposer: 2}
	if p.How == "evidence" {
		req.Evidence = []int{1}
		log = append(log, "next block carries duplicate-vote evidence against validator 1 (jailed by the evidence begin-blocker, which runs before the distributor)")
	}
	h.Block(req, nil, nil)
	for b := 0; b < 3 && !h.Halted; b++ {
		h.Block(BlockReq{Dt: 5, Proposer: 2 * (b % 2), Absent: []int{1}}, nil, nil)
	}
	log = append(log, "4 more blocks dt=5")
	return []Case{histCase("proposer-deactivated", h, log, p)}
}

// ------------------------------------------------------------------ recovery-token branch of AllocateTokensToValidator (BeginBlock)

type RRParams struct {
	Seed     uint64   `json:"chain_seed"`
	Snap     int64    `json:"genesis_snap_period"`
	Holders  []string `json:"rr_token_sent_to_each_registered_holder"` // amounts of the 10^13 supply sent to a2, a3, a4 (who register)
	KeepSelf bool     `json:"issuer_registers_as_holder_too"`
	NBlocks  int      `json:"blocks"`
	Fees     []string `json:"fee_cycle"`
	Burn     bool     `json:"a_holder_burns_tokens"`
	Claim    int      `json:"claim_rr_rewards_every_n_blocks"`
}

func drawRR(r *hx.Rng, seed uint64, adversarial bool) RRParams {
	p := RRParams{Seed: seed, Snap: pickI(r, 1, 1, 3, 1000), NBlocks: 20 + r.Intn(30), KeepSelf: r.Chance(40), Burn: r.Chance(40), Claim: r.Intn(6),
		Fees: []string{"101ukex", "103ukex", "11ubtc", "1007xeth", "999ukex", "105ukex,11ubtc", "107ukex"}}
	switch r.Intn(5) {
	case 0:
		p.Holders = []string{"10000000000000"} // one holder with the whole supply
	case 1:
		p.Holders = []string{"5000000000000", "5000000000000"} // two halves
	case 2:
		p.Holders = []string{"3333333333333", "3333333333333", "3333333333334"}
	case 3:
		p.Holders = []string{"4999999999999", "5000000000000"}
	default:
		p.Holders = []string{"1000000", "2500000000000"}
	}
	return p
}

// Validator 0's owner issues recovery tokens; holders register; validator 0 proposes: its block reward goes to
// the recovery module and is split among the holders (IncreaseRecoveryTokenUnderlying / calcPortion).
func runRR(p RRParams, ops hx.Counter) []Case {
	h := NewH(abci.Config{Accounts: 6, Validators: 2, Seed: p.Seed,
		Genesis: func(gs simapp.GenesisState, _ func(interface{}) []byte) {
			dg := distributortypes.DefaultGenesis()
			dg.SnapPeriod = p.Snap
			gs[distributortypes.ModuleName] = simapp.MakeEncodingConfig().Marshaler.MustMarshalJSON(dg)
		}}, ops)
	c := h.C
	log := []string{fmt.Sprintf("chain accounts=6 validators=2 seed=%d genesis distributor snap_period=%d", p.Seed, p.Snap)}
	v := c.Validators[0]
	owner := c.Accounts[v.Owner].Addr
	h.Block(BlockReq{Dt: 5}, func() {
		res := h.Tx("register-identity-records", v.Owner, govtypes.NewMsgRegisterIdentityRecords(owner, []govtypes.IdentityInfoEntry{{Key: "moniker", Info: "valzero"}}))
		log = append(log, fmt.Sprintf("a%d (owner of validator 0) registers moniker valzero code=%d", v.Owner, res.Code))
		res = h.Tx("issue-recovery-tokens", v.Owner, recoverytypes.NewMsgIssueRecoveryTokens(owner.String()))
		log = append(log, fmt.Sprintf("it issues recovery tokens (10^13 rr/valzero) code=%d %s", res.Code, short(res.Log)))
	}, nil)
	h.Block(BlockReq{Dt: 5, Proposer: 1}, func() {
		for i, amt := range p.Holders {
			n, _ := sdk.NewIntFromString(amt)
			res := h.Tx("bank-send", v.Owner, banktypes.NewMsgSend(owner, c.Accounts[2+i].Addr, sdk.NewCoins(sdk.NewCoin("rr/valzero", n))))
			log = append(log, fmt.Sprintf("the issuer sends %srr/valzero to a%d code=%d", amt, 2+i, res.Code))
			res = h.Tx("register-rr-holder", 2+i, recoverytypes.NewMsgRegisterRRTokenHolder(c.Accounts[2+i].Addr))
			log = append(log, fmt.Sprintf("a%d registers as RR-token holder code=%d", 2+i, res.Code))
		}
		if p.KeepSelf {
			res := h.Tx("register-rr-holder", v.Owner, recoverytypes.NewMsgRegisterRRTokenHolder(owner))
			log = append(log, fmt.Sprintf("the issuer registers as holder of the rest code=%d", res.Code))
		}
	}, nil)
	for b := 0; b < p.NBlocks && !h.Halted; b++ {
		h.Block(BlockReq{Dt: 5, Proposer: b % 3 % 2}, func() { // validator 0 proposes two blocks out of three
			fee, _ := sdk.ParseCoinsNormalized(p.Fees[b%len(p.Fees)])
			h.TxFee("bank-send", 5, fee, banktypes.NewMsgSend(c.Accounts[5].Addr, c.Accounts[1].Addr, ukex(1)))
			if p.Claim > 0 && b%p.Claim == p.Claim-1 {
				h.Tx("claim-rr-rewards", 2, recoverytypes.NewMsgClaimRRHolderRewards(c.Accounts[2].Addr))
			}
			if p.Burn && b == p.NBlocks/2 {
				res := h.Tx("burn-recovery-tokens", 2, recoverytypes.NewMsgBurnRecoveryTokens(c.Accounts[2].Addr, sdk.NewInt64Coin("rr/valzero", 500000)))
				log = append(log, fmt.Sprintf("a2 burns 500000rr/valzero code=%d", res.Code))
			}
		}, nil)
	}
	log = append(log, fmt.Sprintf("%d blocks dt=5 (validator 0 proposes two out of three), each with a bank send by a5 paying a fee from the cycle %v", p.NBlocks, p.Fees))
	cs := histCase("recovery-rewards", h, log, p)
	if len(h.Blocks) > 12 {
		cs.JSON["history"] = append(append([]Block{}, h.Blocks[:3]...), h.Blocks[len(h.Blocks)-6:]...)
		cs.JSON["history_note"] = fmt.Sprintf("%d blocks, first 3 and last 6 shown", len(h.Blocks))
	}
	return []Case{cs}
}

// ------------------------------------------------------------------ key-prefix collisions: rr/<moniker> holder index without separator

type RRPrefixParams struct {
	Seed     uint64   `json:"chain_seed"`
	Snap     int64    `json:"genesis_snap_period"`
	Monikers []string `json:"monikers_of_validators_0_and_1"` // e.g. node1 / node10: rr/node1 is a prefix of rr/node10
	Short    string   `json:"amount_of_the_first_token_sent_to_a4"`
	Long     string   `json:"amount_of_the_second_token_sent_to_a4"`
	Register int      `json:"register_messages_by_a4"`
	NBlocks  int      `json:"blocks"`
}

// Two validators issue recovery tokens; account a4 holds both and registers as holder (one message registers one
// token). The holder index key is prefix ++ denom ++ address, iterated by prefix ++ denom.
func runRRPrefix(p RRPrefixParams, ops hx.Counter) []Case {
	h := NewH(abci.Config{Accounts: 6, Validators: 2, Seed: p.Seed,
		Genesis: func(gs simapp.GenesisState, _ func(interface{}) []byte) {
			dg := distributortypes.DefaultGenesis()
			dg.SnapPeriod = p.Snap
			gs[distributortypes.ModuleName] = simapp.MakeEncodingConfig().Marshaler.MustMarshalJSON(dg)
		}}, ops)
	c := h.C
	log := []string{fmt.Sprintf("chain accounts=6 validators=2 seed=%d genesis distributor snap_period=%d", p.Seed, p.Snap)}
	a4 := c.Accounts[4].Addr
	h.Block(BlockReq{Dt: 5}, func() {
		for v := 0; v < 2; v++ {
			owner := c.Accounts[c.Validators[v].Owner].Addr
			h.Tx("register-identity-records", c.Validators[v].Owner, govtypes.NewMsgRegisterIdentityRecords(owner, []govtypes.IdentityInfoEntry{{Key: "moniker", Info: p.Monikers[v]}}))
			res := h.Tx("issue-recovery-tokens", c.Validators[v].Owner, recoverytypes.NewMsgIssueRecoveryTokens(owner.String()))
			log = append(log, fmt.Sprintf("owner of validator %d registers moniker %s and issues 10^13 rr/%s code=%d", v, p.Monikers[v], p.Monikers[v], res.Code))
		}
	}, nil)
	h.Block(BlockReq{Dt: 5, Proposer: 1}, func() {
		for v, amt := range []string{p.Short, p.Long} {
			n, _ := sdk.NewIntFromString(amt)
			if !n.IsPositive() {
				continue
			}
			owner := c.Accounts[c.Validators[v].Owner].Addr
			res := h.Tx("bank-send", c.Validators[v].Owner, banktypes.NewMsgSend(owner, a4, sdk.NewCoins(sdk.NewCoin("rr/"+p.Monikers[v], n))))
			log = append(log, fmt.Sprintf("it sends %srr/%s to a4 code=%d", amt, p.Monikers[v], res.Code))
		}
		for i := 0; i < p.Register; i++ {
			res := h.Tx("register-rr-holder", 4, recoverytypes.NewMsgRegisterRRTokenHolder(a4))
			log = append(log, fmt.Sprintf("a4 sends MsgRegisterRRTokenHolder code=%d", res.Code))
		}
	}, nil)
	for b := 0; b < p.NBlocks && !h.Halted; b++ {
		h.Block(BlockReq{Dt: 5, Proposer: b % 2}, func() {
			h.TxFee("bank-send", 5, ukex(int64(101+2*b)), banktypes.NewMsgSend(c.Accounts[5].Addr, c.Accounts[3].Addr, ukex(1)))
			if b == p.NBlocks/2 {
				h.Tx("claim-rr-rewards", 4, recoverytypes.NewMsgClaimRRHolderRewards(a4))
			}
		}, nil)
	}
	log = append(log, fmt.Sprintf("%d blocks dt=5 proposed alternately by validators 0 and 1, each with a bank send paying an odd fee", p.NBlocks))
	return []Case{histCase("recovery-rewards-prefix", h, log, p)}
}
