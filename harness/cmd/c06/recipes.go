package main

// Recipe generators: each builds, through real signed transactions on a fresh chain, a state in which
// one panic-capable site of begin/end-block code is exercised; the values the Coq model needs are read from
// the REAL state right before the ABCI call, and the observed phase result is recorded next to them.
// Every recipe is a function of an explicit parameter record: the random generators draw the record
// (honest or adversarial), the witnesses of the *_refuted lemmas (witnesses.go) fix it.

import (
	"fmt"

	"verif/harness/abci"
	"verif/harness/hx"

	govtypes "github.com/KiraCore/sekai/x/gov/types"
	spendingtypes "github.com/KiraCore/sekai/x/spending/types"
	ubitypes "github.com/KiraCore/sekai/x/ubi/types"
	upgradetypes "github.com/KiraCore/sekai/x/upgrade/types"
	sdk "github.com/cosmos/cosmos-sdk/types"
)

type Case struct {
	Coq  string
	JSON map[string]interface{}
}

func siteCase(kind string, site string, siteJSON interface{}, h *H, ops []string, params interface{}) Case {
	b := h.Last()
	return Case{
		Coq:  fmt.Sprintf("CSite %s %s %s", hx.Str(kind), site, b.Coq()),
		JSON: map[string]interface{}{"kind": kind, "site": siteJSON, "block": b, "history": append([]Block{}, h.Blocks...), "ops": ops, "params": params},
	}
}

func histCase(kind string, h *H, ops []string, params interface{}) Case {
	return Case{
		Coq:  fmt.Sprintf("CHist %s %s", hx.Str(kind), h.CoqBlocks()),
		JSON: map[string]interface{}{"kind": kind, "history": append([]Block{}, h.Blocks...), "ops": ops, "params": params},
	}
}

func dec(s string) sdk.Dec { return sdk.MustNewDecFromStr(s) }

func pickS(r *hx.Rng, xs ...string) string { return xs[r.Intn(len(xs))] }
func pickU(r *hx.Rng, xs ...uint64) uint64 { return xs[r.Intn(len(xs))] }
func pickI(r *hx.Rng, xs ...int64) int64   { return xs[r.Intn(len(xs))] }
func pickI2(r *hx.Rng, xs ...int) int      { return xs[r.Intn(len(xs))] }
func contains(xs []int, x int) bool {
	for _, y := range xs {
		if x == y {
			return true
		}
	}
	return false
}

func ukex(n int64) sdk.Coins { return sdk.NewCoins(sdk.NewInt64Coin("ukex", n)) }

// makeActor: a0 whitelists a harmless permission for account a, which makes it a registered network actor
// (only registered, active actors may vote, also on spending-pool proposals of pools they own).
func makeActor(h *H, a int) {
	h.Tx("whitelist-permission", 0, govtypes.NewMsgWhitelistPermissions(h.C.Accounts[0].Addr, h.C.Accounts[a].Addr, uint32(govtypes.PermCreateUpsertDataRegistryProposal)))
}

func proposalDue(ctx sdk.Context, c *abci.Chain, pid uint64) bool {
	p, found := c.App.CustomGovKeeper.GetProposal(ctx, pid)
	return found && p.Result == govtypes.Enactment && !p.EnactmentEndTime.After(ctx.BlockTime()) && p.MinEnactmentEndBlockHeight <= ctx.BlockHeight()
}

// ------------------------------------------------------------------ spending EndBlocker (dynamic rate)

type BenSpec struct {
	Acc      int    `json:"acc"`
	Weight   string `json:"weight"`
	Register bool   `json:"register"`
}
type PoolSpec struct {
	Creator int       `json:"creator"`
	Dynamic bool      `json:"dynamic"`
	Period  uint64    `json:"period"`
	Bens    []BenSpec `json:"beneficiaries"`
	Deposit string    `json:"deposit"` // coins, "" = none
}
type DynRateParams struct {
	Seed   uint64     `json:"chain_seed"`
	Pools  []PoolSpec `json:"pools"`
	Dts    []int64    `json:"block_dts"`
	Claims []int      `json:"claim_in_block"` // per block: -1 none, else pool index (first beneficiary claims)
}

func drawDynRate(r *hx.Rng, seed uint64, adversarial bool) DynRateParams {
	p := DynRateParams{Seed: seed}
	for i, n := 0, 1+r.Intn(3); i < n; i++ {
		ps := PoolSpec{Creator: 1 + r.Intn(4), Dynamic: r.Chance(85)}
		if adversarial {
			ps.Period = pickU(r, 0, 0, 0, 0, 1, 7, 60, 1<<63, 1<<63+5, ^uint64(0), ^uint64(0)-1000, ^uint64(0)-1700000000)
		} else {
			ps.Period = pickU(r, 1, 7, 60, 3600, 86400)
		}
		noClaimers := r.Chance(25) // nobody registers: the end-blocker must skip the pool (total weight 0)
		for a := 1; a <= 4; a++ {
			if r.Chance(50) {
				w := pickS(r, "1", "1", "2", "0.5", "10")
				if adversarial {
					w = pickS(r, "1", "1", "2", "0.5", "-1", "-0.5", "0.000000000000000001", "1000000000")
				}
				ps.Bens = append(ps.Bens, BenSpec{a, w, !noClaimers && r.Chance(85)})
			}
		}
		if len(ps.Bens) == 0 {
			ps.Bens = []BenSpec{{1, "1", true}}
		}
		if r.Chance(85) {
			amt := sdk.NewCoins(sdk.NewInt64Coin("ukex", r.Range(1, 1_000_000_000)))
			if r.Chance(30) {
				amt = amt.Add(sdk.NewInt64Coin("ubtc", r.Range(1, 1000)))
			}
			ps.Deposit = amt.String()
		}
		p.Pools = append(p.Pools, ps)
	}
	for b := 0; b < 3; b++ {
		p.Dts = append(p.Dts, pickI(r, 1, 5, 61, 4000, 90000))
		cl := -1
		if r.Chance(40) {
			cl = r.Intn(len(p.Pools))
		}
		p.Claims = append(p.Claims, cl)
	}
	return p
}

func runDynRate(p DynRateParams, ops hx.Counter) []Case {
	h := NewH(abci.Config{Accounts: 5, Validators: 2, Seed: p.Seed}, ops)
	c := h.C
	log := []string{fmt.Sprintf("chain accounts=5 validators=2 seed=%d", p.Seed)}
	h.Block(BlockReq{Dt: 5}, func() {
		for i, ps := range p.Pools {
			var bens []spendingtypes.WeightedAccount
			for _, b := range ps.Bens {
				bens = append(bens, spendingtypes.WeightedAccount{Account: c.Accounts[b.Acc].Addr.String(), Weight: dec(b.Weight)})
			}
			name := dynPoolName(i)
			msg := spendingtypes.NewMsgCreateSpendingPool(name, 0, 0, sdk.NewDecCoins(sdk.NewDecCoinFromDec("ukex", dec("1"))), dec("0.33"), 60, 30,
				spendingtypes.PermInfo{OwnerAccounts: []string{c.Accounts[ps.Creator].Addr.String()}},
				spendingtypes.WeightedPermInfo{Accounts: bens}, c.Accounts[ps.Creator].Addr, ps.Dynamic, ps.Period)
			res := h.Tx("create-spending-pool", ps.Creator, msg)
			log = append(log, fmt.Sprintf("a%d creates pool %s dynamic_rate=%v dynamic_rate_period=%d beneficiaries=%v code=%d", ps.Creator, name, ps.Dynamic, ps.Period, ps.Bens, res.Code))
		}
	}, nil)
	var out []Case
	var site0 string
	var sj0 interface{}
	h.Block(BlockReq{Dt: 5, Proposer: 1}, func() {
		for i, ps := range p.Pools {
			name := dynPoolName(i)
			for _, b := range ps.Bens {
				if b.Register {
					res := h.Tx("register-beneficiary", b.Acc, spendingtypes.NewMsgRegisterSpendingPoolBeneficiary(name, c.Accounts[b.Acc].Addr))
					log = append(log, fmt.Sprintf("a%d registers in %s code=%d", b.Acc, name, res.Code))
				}
			}
			if ps.Deposit != "" {
				amt, _ := sdk.ParseCoinsNormalized(ps.Deposit)
				res := h.Tx("deposit-spending-pool", 0, spendingtypes.NewMsgDepositSpendingPool(name, amt, c.Accounts[0].Addr))
				log = append(log, fmt.Sprintf("a0 deposits %s into %s code=%d", amt, name, res.Code))
			}
		}
	}, func(ctx sdk.Context) { site0, sj0 = readSpendSite(ctx, c) })
	log = append(log, "block dt=5")
	out = append(out, siteCase("spend-dynrate", site0, sj0, h, append([]string{}, log...), p))
	for b := 0; b < len(p.Dts) && !h.Halted; b++ {
		var site string
		var sj interface{}
		h.Block(BlockReq{Dt: p.Dts[b], Proposer: b}, func() {
			if cl := p.Claims[b]; cl >= 0 {
				a := p.Pools[cl].Bens[0].Acc
				res := h.Tx("claim-spending-pool", a, spendingtypes.NewMsgClaimSpendingPool(dynPoolName(cl), c.Accounts[a].Addr))
				log = append(log, fmt.Sprintf("a%d claims from p%d code=%d", a, cl, res.Code))
			}
		}, func(ctx sdk.Context) {
			site, sj = readSpendSite(ctx, c)
		})
		log = append(log, fmt.Sprintf("block dt=%d", p.Dts[b]))
		out = append(out, siteCase("spend-dynrate", site, sj, h, append([]string{}, log...), p))
	}
	return out
}

// names chosen for KEY-PREFIX collisions: claim infos are stored under pool name ++ account and iterated by pool name
func dynPoolName(i int) string { return []string{"p", "p1", "p10", "p100"}[i%4] }

// readSpendSite reads what the spending EndBlocker will see: every pool in store order with its
// dynamic-rate fields, the summed weight of its registered claimers and its recorded balances.
func readSpendSite(ctx sdk.Context, c *abci.Chain) (string, interface{}) {
	k := c.App.SpendingKeeper
	var ps []string
	var js []map[string]interface{}
	for _, pool := range k.GetAllSpendingPools(ctx) {
		tw := sdk.ZeroDec()
		for _, info := range k.GetPoolClaimInfos(ctx, pool.Name) {
			addr, err := sdk.AccAddressFromBech32(info.Account)
			if err != nil {
				continue
			}
			tw = tw.Add(k.GetBeneficiaryWeight(ctx, addr, *pool.Beneficiaries))
		}
		var bals []string
		for _, b := range pool.Balances {
			bals = append(bals, hx.ZInt(b.Amount))
		}
		ps = append(ps, fmt.Sprintf("(mkSpool %s %s %s %s %s)", hx.B(pool.DynamicRate), hx.ZU(pool.DynamicRatePeriod), hx.ZU(pool.LastDynamicRateCalcTime), hx.ZBig(tw.BigInt()), hx.List(bals)))
		js = append(js, map[string]interface{}{"name": pool.Name, "dynamic": pool.DynamicRate, "period": pool.DynamicRatePeriod, "last_calc": pool.LastDynamicRateCalcTime,
			"registered_weight": tw.String(), "balances": sdk.Coins(pool.Balances).String()})
	}
	now := ctx.BlockTime().Unix()
	return fmt.Sprintf("(SSpend %s %s)", hx.Z(now), hx.List(ps)), map[string]interface{}{"now": now, "pools": js}
}

// ------------------------------------------------------------------ gov processProposal: quorum

const votePerm = govtypes.PermVoteUpsertDataRegistryProposal

type QuorumPermParams struct {
	Seed      uint64 `json:"chain_seed"`
	Direct    []int  `json:"voters_whitelisted_directly"`
	ViaRole   []int  `json:"voters_via_role"`
	Voting    []int  `json:"accounts_that_vote"`
	Mutations []int  `json:"mutations"` // 0 none, 1 remove direct perm of a voter who voted, 2 unassign role of one who voted, 3 new voter, 4 blacklist, 5 role loses perm
	MutArg    []int  `json:"mutation_account"`
}

func drawQuorumPerm(r *hx.Rng, seed uint64, adversarial bool) QuorumPermParams {
	p := QuorumPermParams{Seed: seed}
	for a := 1; a <= 5; a++ {
		switch r.Intn(3) {
		case 0:
			p.Direct = append(p.Direct, a)
		case 1:
			p.ViaRole = append(p.ViaRole, a)
		}
	}
	for _, a := range append(append([]int{0}, p.Direct...), p.ViaRole...) {
		if r.Chance(70) {
			p.Voting = append(p.Voting, a)
		}
	}
	nm := 1
	if adversarial {
		nm = 1 + r.Intn(3)
	}
	for i := 0; i < nm; i++ {
		m := pickI2(r, 0, 3, 4)
		if adversarial {
			m = r.Intn(6)
		}
		p.Mutations = append(p.Mutations, m)
		p.MutArg = append(p.MutArg, 1+r.Intn(5))
	}
	return p
}

// permission-based proposal: voters gain the vote permission directly or through a role, vote, and then
// the voter set is changed before the voting period ends.
func runQuorumPerm(p QuorumPermParams, ops hx.Counter) []Case {
	h := NewH(abci.Config{Accounts: 6, Validators: 2, Seed: p.Seed}, ops)
	c := h.C
	log := []string{fmt.Sprintf("chain accounts=6 validators=2 seed=%d", p.Seed)}
	a0 := c.Accounts[0].Addr
	h.Block(BlockReq{Dt: 5}, func() {
		h.Tx("create-role", 0, govtypes.NewMsgCreateRole(a0, "voters", "vote role"))
		h.Tx("whitelist-role-permission", 0, govtypes.NewMsgWhitelistRolePermission(a0, "voters", uint32(votePerm)))
		for _, a := range p.Direct {
			res := h.Tx("whitelist-permission", 0, govtypes.NewMsgWhitelistPermissions(a0, c.Accounts[a].Addr, uint32(votePerm)))
			log = append(log, fmt.Sprintf("a0 whitelists the vote permission for a%d code=%d", a, res.Code))
		}
		for _, a := range p.ViaRole {
			res := h.Tx("assign-role", 0, govtypes.NewMsgAssignRole(a0, c.Accounts[a].Addr, 3))
			log = append(log, fmt.Sprintf("a0 assigns role voters(3), which carries the vote permission, to a%d code=%d", a, res.Code))
		}
	}, nil)
	pid := uint64(1)
	h.Block(BlockReq{Dt: 5}, func() {
		msg, _ := govtypes.NewMsgSubmitProposal(a0, "t", "d", govtypes.NewUpsertDataRegistryProposal("k", "hash", "ref", "enc", 10))
		res := h.Tx("submit-proposal", 0, msg)
		log = append(log, fmt.Sprintf("a0 submits an UpsertDataRegistry proposal code=%d", res.Code))
	}, nil)
	var voted []int
	h.Block(BlockReq{Dt: 5}, func() {
		for i, a := range p.Voting {
			opt := govtypes.VoteOption(1 + i%4)
			res := h.Tx("vote-proposal", a, govtypes.NewMsgVoteProposal(pid, c.Accounts[a].Addr, opt, sdk.ZeroDec()))
			log = append(log, fmt.Sprintf("a%d votes %v code=%d", a, opt, res.Code))
			if res.Code == 0 {
				voted = append(voted, a)
			}
		}
	}, nil)
	h.Block(BlockReq{Dt: 5}, func() {
		for i, mut := range p.Mutations {
			switch mut {
			case 1:
				for _, a := range voted {
					if contains(p.Direct, a) {
						res := h.Tx("remove-whitelisted-permission", 0, govtypes.NewMsgRemoveWhitelistedPermissions(a0, c.Accounts[a].Addr, uint32(votePerm)))
						log = append(log, fmt.Sprintf("a0 removes the whitelisted vote permission of a%d (who voted) code=%d", a, res.Code))
						break
					}
				}
			case 2:
				for _, a := range voted {
					if contains(p.ViaRole, a) {
						res := h.Tx("unassign-role", 0, govtypes.NewMsgUnassignRole(a0, c.Accounts[a].Addr, 3))
						log = append(log, fmt.Sprintf("a0 unassigns role voters(3) from a%d (who voted) code=%d", a, res.Code))
						break
					}
				}
			case 3:
				a := p.MutArg[i]
				res := h.Tx("whitelist-permission", 0, govtypes.NewMsgWhitelistPermissions(a0, c.Accounts[a].Addr, uint32(votePerm)))
				log = append(log, fmt.Sprintf("a0 whitelists the vote permission for a%d code=%d", a, res.Code))
			case 4:
				a := p.MutArg[i]
				res := h.Tx("blacklist-permission", 0, govtypes.NewMsgBlacklistPermissions(a0, c.Accounts[a].Addr, uint32(votePerm)))
				log = append(log, fmt.Sprintf("a0 blacklists the vote permission for a%d code=%d", a, res.Code))
			case 5:
				res := h.Tx("remove-whitelist-role-permission", 0, govtypes.NewMsgRemoveWhitelistRolePermission(a0, "voters", uint32(votePerm)))
				log = append(log, fmt.Sprintf("a0 removes the vote permission from role voters code=%d", res.Code))
			}
		}
	}, nil)
	var site string
	var sj interface{}
	h.Block(BlockReq{Dt: 400}, nil, func(ctx sdk.Context) {
		site, sj = readQuorumSite(ctx, c, pid)
	})
	log = append(log, "block dt=400 (voting period over: processProposal runs in EndBlock)")
	out := []Case{siteCase("gov-quorum-perm", site, sj, h, append([]string{}, log...), p)}
	if !h.Halted {
		h.Block(BlockReq{Dt: 400}, nil, nil)
		h.Block(BlockReq{Dt: 5}, nil, nil)
		out = append(out, histCase("gov-quorum-perm-enact", h, log, p))
	}
	return out
}

// readQuorumSite: what processProposal will compute for proposal pid (if it is due in this block).
func readQuorumSite(ctx sdk.Context, c *abci.Chain, pid uint64) (string, interface{}) {
	k := c.App.CustomGovKeeper
	p, found := k.GetProposal(ctx, pid)
	if !found {
		return "(SQuorum false 0 0 0)", map[string]interface{}{"found": false}
	}
	due := !p.VotingEndTime.After(ctx.BlockTime()) && p.MinVotingEndBlockHeight <= ctx.BlockHeight() && p.Result == govtypes.Pending
	content := p.GetContent()
	votes := len(k.GetProposalVotes(ctx, pid))
	voters := 0
	quorum := k.GetNetworkProperties(ctx).VoteQuorum
	if content.VotePermission() == govtypes.PermZero {
		router := k.GetProposalRouter()
		voters = len(router.AllowedAddressesDynamicProposal(ctx, content))
		if voters == 0 {
			voters = 1
		}
		quorum = router.QuorumDynamicProposal(ctx, content)
	} else {
		voters = len(k.GetNetworkActorsByAbsoluteWhitelistPermission(ctx, content.VotePermission()))
	}
	return fmt.Sprintf("(SQuorum %s %s %d %d)", hx.B(due), hx.ZBig(quorum.BigInt()), votes, voters),
		map[string]interface{}{"proposal": pid, "type": content.ProposalType(), "due": due, "quorum": quorum.String(), "votes": votes, "voters": voters}
}

type QuorumDynParams struct {
	Seed       uint64 `json:"chain_seed"`
	Quorum     string `json:"pool_vote_quorum"`
	NewQuorum  string `json:"proposed_vote_quorum"`
	Creator    int    `json:"creator"`
	Owners     []int  `json:"owner_accounts"`
	Actors     []int  `json:"owners_registered_as_actors"`
	RoleOwners []int  `json:"owners_via_role"`
	Voting     []int  `json:"accounts_that_vote"`
	Unassign   bool   `json:"unassign_role_of_voters"`
}

func drawQuorumDyn(r *hx.Rng, seed uint64, adversarial bool) QuorumDynParams {
	p := QuorumDynParams{Seed: seed, Creator: 1 + r.Intn(3)}
	p.Quorum = pickS(r, "0", "0.33", "0.5", "1")
	p.NewQuorum = pickS(r, "0.33", "0.5")
	if adversarial {
		p.Quorum = pickS(r, "0", "0.5", "1", "1.000000000000000001", "2", "100", "-1")
		p.NewQuorum = pickS(r, "0.5", "1", "3")
	}
	for a := 1; a <= 3; a++ {
		if a == p.Creator || r.Chance(50) {
			p.Owners = append(p.Owners, a)
			if r.Chance(70) {
				p.Actors = append(p.Actors, a)
			}
		}
	}
	if r.Chance(50) {
		for a := 4; a <= 5; a++ {
			if r.Chance(70) {
				p.RoleOwners = append(p.RoleOwners, a)
			}
		}
	}
	for _, a := range append(append([]int{}, p.Owners...), p.RoleOwners...) {
		if r.Chance(75) {
			p.Voting = append(p.Voting, a)
		}
	}
	p.Unassign = adversarial && r.Chance(50)
	return p
}

// dynamic (spending-pool) proposal: the pool's own quorum / owner list decide.
func runQuorumDyn(p QuorumDynParams, ops hx.Counter) []Case {
	h := NewH(abci.Config{Accounts: 6, Validators: 2, Seed: p.Seed}, ops)
	c := h.C
	log := []string{fmt.Sprintf("chain accounts=6 validators=2 seed=%d", p.Seed)}
	a0 := c.Accounts[0].Addr
	var ownerAccs []string
	for _, a := range p.Owners {
		ownerAccs = append(ownerAccs, c.Accounts[a].Addr.String())
	}
	bens := spendingtypes.WeightedPermInfo{Accounts: []spendingtypes.WeightedAccount{{Account: c.Accounts[1].Addr.String(), Weight: dec("1")}}}
	h.Block(BlockReq{Dt: 5}, func() {
		var roles []uint64
		for _, a := range p.Actors {
			makeActor(h, a)
		}
		if len(p.RoleOwners) > 0 {
			h.Tx("create-role", 0, govtypes.NewMsgCreateRole(a0, "owners", "pool owners"))
			for _, a := range p.RoleOwners {
				res := h.Tx("assign-role", 0, govtypes.NewMsgAssignRole(a0, c.Accounts[a].Addr, 3))
				log = append(log, fmt.Sprintf("a0 assigns role owners(3) to a%d code=%d", a, res.Code))
			}
			roles = []uint64{3}
		}
		msg := spendingtypes.NewMsgCreateSpendingPool("dp", 0, 0, sdk.NewDecCoins(sdk.NewDecCoinFromDec("ukex", dec("1"))), dec(p.Quorum), 10, 10,
			spendingtypes.PermInfo{OwnerAccounts: ownerAccs, OwnerRoles: roles}, bens, c.Accounts[p.Creator].Addr, false, 0)
		res := h.Tx("create-spending-pool", p.Creator, msg)
		log = append(log, fmt.Sprintf("a%d creates pool dp vote_quorum=%s vote_period=10 vote_enactment=10 owners=%v owner_roles=%v code=%d", p.Creator, p.Quorum, p.Owners, roles, res.Code))
	}, nil)
	h.Block(BlockReq{Dt: 5}, func() {
		content := spendingtypes.NewUpdateSpendingPoolProposal("dp", 0, 0, sdk.NewDecCoins(sdk.NewDecCoinFromDec("ukex", dec("2"))), dec(p.NewQuorum), 10, 10,
			spendingtypes.PermInfo{OwnerAccounts: ownerAccs}, bens, false, 0)
		msg, _ := govtypes.NewMsgSubmitProposal(c.Accounts[p.Creator].Addr, "t", "d", content)
		res := h.Tx("submit-proposal", p.Creator, msg)
		log = append(log, fmt.Sprintf("a%d submits UpdateSpendingPool(dp, vote_quorum=%s) code=%d", p.Creator, p.NewQuorum, res.Code))
	}, nil)
	var voted []int
	h.Block(BlockReq{Dt: 2}, func() {
		for _, a := range p.Voting {
			res := h.Tx("vote-proposal", a, govtypes.NewMsgVoteProposal(1, c.Accounts[a].Addr, govtypes.OptionYes, sdk.ZeroDec()))
			log = append(log, fmt.Sprintf("a%d votes yes code=%d", a, res.Code))
			if res.Code == 0 {
				voted = append(voted, a)
			}
		}
		if p.Unassign {
			for _, a := range voted {
				if contains(p.RoleOwners, a) {
					res := h.Tx("unassign-role", 0, govtypes.NewMsgUnassignRole(a0, c.Accounts[a].Addr, 3))
					log = append(log, fmt.Sprintf("a0 unassigns role owners(3) from a%d (who voted) code=%d", a, res.Code))
				}
			}
		}
	}, nil)
	var out []Case
	// a second proposal, submitted after the first one is enacted, sees the pool's NEW quorum
	for b := 0; b < 4 && !h.Halted; b++ {
		var site string
		var sj interface{}
		pid := uint64(1)
		if b >= 2 {
			pid = 2
		}
		h.Block(BlockReq{Dt: 12}, func() {
			if b == 1 {
				content := spendingtypes.NewSpendingPoolWithdrawProposal("dp", []string{c.Accounts[1].Addr.String()}, sdk.Coins{})
				msg, _ := govtypes.NewMsgSubmitProposal(c.Accounts[p.Creator].Addr, "t2", "d2", content)
				res := h.Tx("submit-proposal", p.Creator, msg)
				log = append(log, fmt.Sprintf("a%d submits SpendingPoolWithdraw(dp, no amounts) code=%d", p.Creator, res.Code))
			}
		}, func(ctx sdk.Context) {
			site, sj = readQuorumSite(ctx, c, pid)
		})
		log = append(log, "block dt=12")
		out = append(out, siteCase("gov-quorum-dynamic", site, sj, h, append([]string{}, log...), p))
	}
	return out
}

// ------------------------------------------------------------------ enactment of spending proposals on a changed pool

func poolBal(ctx sdk.Context, c *abci.Chain, name string) sdk.Int {
	p := c.App.SpendingKeeper.GetSpendingPool(ctx, name)
	if p == nil {
		return sdk.ZeroInt()
	}
	return sdk.Coins(p.Balances).AmountOf("ukex")
}

type WithdrawParams struct {
	Seed    uint64 `json:"chain_seed"`
	Rate    int64  `json:"rate_per_second"`
	DepA    int64  `json:"deposit_pool_wa"`
	DepB    int64  `json:"deposit_pool_wb"`
	Amount  int64  `json:"withdraw_amount_each"`
	NBen    int    `json:"beneficiaries"`
	Claim   bool   `json:"claim_before_enactment"`
	DtClaim int64  `json:"seconds_before_claim"`
	// further inputs of Withdraw.Apply that may change between the dry run and the enactment
	ExtraDenom   bool  `json:"also_withdraw_ubtc"`                        // a second denom, deposited at the start, claimed away never (rate only in ukex)
	DepositLater int64 `json:"deposit_between"`                           // the pool is refilled
	UpdateBens   bool  `json:"update_proposal_removes_beneficiary_first"` // an UpdateSpendingPool proposal enacted just before drops a3 from the beneficiaries
}

func drawWithdraw(r *hx.Rng, seed uint64, adversarial bool) WithdrawParams {
	p := WithdrawParams{Seed: seed, Rate: pickI(r, 1, 10, 100), DepA: pickI(r, 1000, 5000, 20000), DepB: pickI(r, 0, 1000, 50000), Amount: pickI(r, 100, 900, 1000, 4000),
		NBen: 1 + r.Intn(2), Claim: true, DtClaim: pickI(r, 1, 50, 400, 3000)}
	if !adversarial {
		p.Rate, p.DepA, p.Amount, p.Claim = 1, 1_000_000, pickI(r, 100, 1000), r.Chance(30)
	}
	p.ExtraDenom = r.Chance(25)
	p.DepositLater = pickI(r, 0, 0, 0, 700)
	p.UpdateBens = r.Chance(20)
	return p
}

// Withdraw proposal: at submission the pool covers the amount; before enactment the pool is drained by an
// ordinary claim while the module account still holds other pools' deposits.
func runWithdraw(p WithdrawParams, ops hx.Counter) []Case {
	h := NewH(abci.Config{Accounts: 5, Validators: 2, Seed: p.Seed}, ops)
	c := h.C
	log := []string{fmt.Sprintf("chain accounts=5 validators=2 seed=%d", p.Seed)}
	mk := func(name string, creator int, rt int64) sdk.Msg {
		m := spendingtypes.NewMsgCreateSpendingPool(name, 0, 0, sdk.NewDecCoins(sdk.NewDecCoinFromDec("ukex", sdk.NewDec(rt))), dec("0.5"), 10, 10,
			spendingtypes.PermInfo{OwnerAccounts: []string{c.Accounts[creator].Addr.String()}},
			spendingtypes.WeightedPermInfo{Accounts: []spendingtypes.WeightedAccount{{Account: c.Accounts[2].Addr.String(), Weight: dec("1")}, {Account: c.Accounts[3].Addr.String(), Weight: dec("1")}}},
			c.Accounts[creator].Addr, false, 0)
		m.ClaimExpiry = 1000000
		return m
	}
	h.Block(BlockReq{Dt: 5}, func() {
		makeActor(h, 1)
		h.Tx("create-spending-pool", 1, mk("wa", 1, p.Rate))
		h.Tx("create-spending-pool", 4, mk("wb", 4, 1))
		h.Tx("register-beneficiary", 2, spendingtypes.NewMsgRegisterSpendingPoolBeneficiary("wa", c.Accounts[2].Addr))
		depA := ukex(p.DepA)
		if p.ExtraDenom {
			depA = depA.Add(sdk.NewInt64Coin("ubtc", 50))
		}
		h.Tx("deposit-spending-pool", 1, spendingtypes.NewMsgDepositSpendingPool("wa", depA, c.Accounts[1].Addr))
		if p.DepB > 0 {
			h.Tx("deposit-spending-pool", 4, spendingtypes.NewMsgDepositSpendingPool("wb", ukex(p.DepB), c.Accounts[4].Addr))
		}
		log = append(log, fmt.Sprintf("a1 (made a network actor by a0) creates pool wa rate=%dukex/s claim_expiry=1000000 (beneficiaries a2,a3), a4 creates pool wb; a2 registers in wa; deposits wa=%d wb=%d", p.Rate, p.DepA, p.DepB))
	}, nil)
	wpid := uint64(1)
	h.Block(BlockReq{Dt: 5}, func() {
		var bens []string
		for i := 0; i < p.NBen; i++ {
			bens = append(bens, c.Accounts[2+i].Addr.String())
		}
		if p.UpdateBens {
			content := spendingtypes.NewUpdateSpendingPoolProposal("wa", 0, 0, sdk.NewDecCoins(sdk.NewDecCoinFromDec("ukex", sdk.NewDec(p.Rate))), dec("0.5"), 10, 10,
				spendingtypes.PermInfo{OwnerAccounts: []string{c.Accounts[1].Addr.String()}},
				spendingtypes.WeightedPermInfo{Accounts: []spendingtypes.WeightedAccount{{Account: c.Accounts[2].Addr.String(), Weight: dec("1")}}}, false, 0)
			um, _ := govtypes.NewMsgSubmitProposal(c.Accounts[1].Addr, "u", "u", content)
			if res := h.Tx("submit-proposal", 1, um); res.Code == 0 {
				h.Tx("vote-proposal", 1, govtypes.NewMsgVoteProposal(1, c.Accounts[1].Addr, govtypes.OptionYes, sdk.ZeroDec()))
				wpid = 2
				log = append(log, "a1 submits and approves UpdateSpendingPool(wa, beneficiaries := a2 only), enacted just before the withdraw")
			}
		}
		amts := ukex(p.Amount)
		if p.ExtraDenom {
			amts = amts.Add(sdk.NewInt64Coin("ubtc", 20))
		}
		msg, _ := govtypes.NewMsgSubmitProposal(c.Accounts[1].Addr, "w", "w", spendingtypes.NewSpendingPoolWithdrawProposal("wa", bens, amts))
		res := h.Tx("submit-proposal", 1, msg)
		log = append(log, fmt.Sprintf("a1 submits SpendingPoolWithdraw(wa, %d beneficiaries, %s each) code=%d", p.NBen, amts, res.Code))
		res = h.Tx("vote-proposal", 1, govtypes.NewMsgVoteProposal(wpid, c.Accounts[1].Addr, govtypes.OptionYes, sdk.ZeroDec()))
		log = append(log, fmt.Sprintf("a1 votes yes code=%d", res.Code))
	}, nil)
	h.Block(BlockReq{Dt: p.DtClaim}, func() {
		if p.Claim {
			res := h.Tx("claim-spending-pool", 2, spendingtypes.NewMsgClaimSpendingPool("wa", c.Accounts[2].Addr))
			log = append(log, fmt.Sprintf("%ds later a2 claims from wa code=%d", p.DtClaim, res.Code))
		}
		if p.DepositLater > 0 {
			h.Tx("deposit-spending-pool", 4, spendingtypes.NewMsgDepositSpendingPool("wa", ukex(p.DepositLater), c.Accounts[4].Addr))
			log = append(log, fmt.Sprintf("a4 deposits %dukex into wa", p.DepositLater))
		}
	}, nil)
	var out []Case
	for b := 0; b < 3 && !h.Halted; b++ {
		var site string
		var sj interface{}
		h.Block(BlockReq{Dt: 11}, nil, func(ctx sdk.Context) {
			// the one-denom model applies when only ukex is withdrawn and no update proposal changes the pool in this EndBlock
			due := proposalDue(ctx, c, wpid) && !p.ExtraDenom && !p.UpdateBens
			mod := c.App.BankKeeper.GetBalance(ctx, abci.ModuleAddr(spendingtypes.ModuleName), "ukex").Amount
			pb := poolBal(ctx, c, "wa")
			site = fmt.Sprintf("(SWithdraw %s %s %s %s %d)", hx.B(due), hx.ZInt(mod), hx.ZInt(pb), hx.Z(p.Amount), p.NBen)
			sj = map[string]interface{}{"due": due, "module_balance": mod.String(), "pool_balance": pb.String(), "amount": p.Amount, "beneficiaries": p.NBen}
		})
		log = append(log, "block dt=11")
		out = append(out, siteCase("spend-withdraw-enact", site, sj, h, append([]string{}, log...), p))
	}
	return out
}

type DistributionParams struct {
	Seed          uint64  `json:"chain_seed"`
	Rate          int64   `json:"rate_per_second"`
	Deposit       int64   `json:"deposit"`
	Weight        string  `json:"weight"`
	Expiry        uint64  `json:"claim_expiry"`
	DtSubmit      int64   `json:"seconds_before_submission"`
	Dts           []int64 `json:"block_dts"`
	Dynamic       bool    `json:"dynamic_rate"`
	DynPeriod     uint64  `json:"dynamic_rate_period"`
	ClaimStartRel int64   `json:"claim_start_seconds_after_creation"`             // 0 = claim_start 0
	ClaimEndRel   int64   `json:"claim_end_seconds_after_creation"`               // 0 = no claim end
	UpdateWeight  string  `json:"weight_set_by_an_update_proposal_enacted_first"` // "" = none
	SecondBen     bool    `json:"second_registered_beneficiary"`                  // every beneficiary must be registered at submission, or the dry run fails
	ClaimBetween  bool    `json:"beneficiary_claims_between"`
	DepositLater  int64   `json:"deposit_between"`
}

// Every input ClaimSpendingPool reads may differ between the dry run at submission and the enactment:
// time relative to claim start / claim end / claim expiry / the last dynamic-rate recalculation, the
// recorded balance (claims, deposits), the weight (an UpdateSpendingPool proposal enacted just before),
// the registrations.
func drawDistribution(r *hx.Rng, seed uint64, adversarial bool) DistributionParams {
	p := DistributionParams{Seed: seed, Rate: pickI(r, 1, 10, 1000), Deposit: pickI(r, 100, 5000, 100000, 10000000), Weight: pickS(r, "1", "2", "0.5"),
		Expiry: pickU(r, 0, 10, 1000000), DtSubmit: pickI(r, 1, 3, 20)}
	if !adversarial {
		p.Rate, p.Deposit, p.Expiry = 1, 100_000_000, 1000000
	}
	for b := 0; b < 4; b++ {
		p.Dts = append(p.Dts, pickI(r, 11, 11, 30, 500))
	}
	p.Dynamic = r.Chance(45)
	p.DynPeriod = pickU(r, 1, 5, 20, 60)
	p.ClaimStartRel = pickI(r, 0, 0, 2, 40)
	p.ClaimEndRel = pickI(r, 0, 0, 10, 10, 15, 25, 35, 60, 600)
	if adversarial {
		p.UpdateWeight = pickS(r, "", "", "-1", "1000", "0.000000000000000001")
	}
	p.SecondBen = r.Chance(25)
	p.ClaimBetween = r.Chance(35)
	p.DepositLater = pickI(r, 0, 0, 1, 100000)
	return p
}

func runDistribution(p DistributionParams, ops hx.Counter) []Case {
	h := NewH(abci.Config{Accounts: 5, Validators: 2, Seed: p.Seed}, ops)
	c := h.C
	log := []string{fmt.Sprintf("chain accounts=5 validators=2 seed=%d", p.Seed)}
	a1, a2, a3 := c.Accounts[1].Addr, c.Accounts[2].Addr, c.Accounts[3].Addr
	var cstart, cend uint64
	owners := spendingtypes.PermInfo{OwnerAccounts: []string{a1.String()}}
	bens := func(w string) spendingtypes.WeightedPermInfo {
		wp := spendingtypes.WeightedPermInfo{Accounts: []spendingtypes.WeightedAccount{{Account: a2.String(), Weight: dec(w)}}}
		if p.SecondBen {
			wp.Accounts = append(wp.Accounts, spendingtypes.WeightedAccount{Account: a3.String(), Weight: dec("1")})
		}
		return wp
	}
	rates := sdk.NewDecCoins(sdk.NewDecCoinFromDec("ukex", sdk.NewDec(p.Rate)))
	h.Block(BlockReq{Dt: 5}, func() {
		now := uint64(c.Time.Unix())
		if p.ClaimStartRel != 0 {
			cstart = now + uint64(p.ClaimStartRel)
		}
		if p.ClaimEndRel != 0 {
			cend = now + uint64(p.ClaimEndRel)
		}
		msg := spendingtypes.NewMsgCreateSpendingPool("dd", cstart, cend, rates, dec("0.5"), 10, 10, owners, bens(p.Weight), a1, p.Dynamic, p.DynPeriod)
		msg.ClaimExpiry = p.Expiry
		makeActor(h, 1)
		h.Tx("create-spending-pool", 1, msg)
		h.Tx("register-beneficiary", 2, spendingtypes.NewMsgRegisterSpendingPoolBeneficiary("dd", a2))
		if p.SecondBen {
			h.Tx("register-beneficiary", 3, spendingtypes.NewMsgRegisterSpendingPoolBeneficiary("dd", a3))
		}
		h.Tx("deposit-spending-pool", 1, spendingtypes.NewMsgDepositSpendingPool("dd", ukex(p.Deposit), a1))
		log = append(log, fmt.Sprintf("a1 (made a network actor by a0) creates pool dd rate=%dukex/s dynamic=%v period=%d claim_start=%d claim_end=%d (creation time %d) claim_expiry=%d beneficiaries a2 weight=%s (+ a3 weight 1 registered: %v); a2 registers; a1 deposits %dukex",
			p.Rate, p.Dynamic, p.DynPeriod, cstart, cend, now, p.Expiry, p.Weight, p.SecondBen, p.Deposit))
	}, nil)
	distPid := uint64(1)
	h.Block(BlockReq{Dt: p.DtSubmit}, func() {
		if p.UpdateWeight != "" {
			content := spendingtypes.NewUpdateSpendingPoolProposal("dd", cstart, cend, rates, dec("0.5"), 10, 10, owners, bens(p.UpdateWeight), p.Dynamic, p.DynPeriod)
			msg, _ := govtypes.NewMsgSubmitProposal(a1, "u", "u", content)
			res := h.Tx("submit-proposal", 1, msg)
			log = append(log, fmt.Sprintf("a1 submits UpdateSpendingPool(dd, weight of a2 := %s) code=%d", p.UpdateWeight, res.Code))
			if res.Code == 0 {
				h.Tx("vote-proposal", 1, govtypes.NewMsgVoteProposal(1, a1, govtypes.OptionYes, sdk.ZeroDec()))
				distPid = 2
			}
		}
		msg, _ := govtypes.NewMsgSubmitProposal(a1, "d", "d", spendingtypes.NewSpendingPoolDistributionProposal("dd"))
		res := h.Tx("submit-proposal", 1, msg)
		log = append(log, fmt.Sprintf("%ds later a1 submits SpendingPoolDistribution(dd) code=%d", p.DtSubmit, res.Code))
		res = h.Tx("vote-proposal", 1, govtypes.NewMsgVoteProposal(distPid, a1, govtypes.OptionYes, sdk.ZeroDec()))
		log = append(log, fmt.Sprintf("a1 votes yes code=%d", res.Code))
	}, nil)
	var out []Case
	for b := 0; b < len(p.Dts) && !h.Halted; b++ {
		var site string
		var sj interface{}
		h.Block(BlockReq{Dt: p.Dts[b]}, func() {
			if b == 0 {
				if p.ClaimBetween {
					res := h.Tx("claim-spending-pool", 2, spendingtypes.NewMsgClaimSpendingPool("dd", a2))
					log = append(log, fmt.Sprintf("a2 claims between submission and enactment code=%d", res.Code))
				}
				if p.DepositLater > 0 {
					h.Tx("deposit-spending-pool", 4, spendingtypes.NewMsgDepositSpendingPool("dd", ukex(p.DepositLater), c.Accounts[4].Addr))
					log = append(log, fmt.Sprintf("a4 deposits %dukex", p.DepositLater))
				}
			}
		}, func(ctx sdk.Context) {
			k := c.App.SpendingKeeper
			due := proposalDue(ctx, c, distPid)
			if distPid == 2 && proposalDue(ctx, c, 1) {
				due = false // the update proposal is enacted first in this very EndBlock: the state the claim sees is not readable here
			}
			pool := k.GetSpendingPool(ctx, "dd")
			ci := k.GetClaimInfo(ctx, "dd", a2)
			ci3 := k.GetClaimInfo(ctx, "dd", a3)
			last := uint64(0)
			if ci != nil {
				last = ci.LastClaim
			}
			pb := poolBal(ctx, c, "dd")
			w := k.GetBeneficiaryWeight(ctx, a2, *pool.Beneficiaries)
			rate := sdk.DecCoins(pool.Rates).AmountOf("ukex")
			single := ci != nil && ci3 == nil && len(pool.Rates) <= 1
			site = fmt.Sprintf("(SClaim %s %s %s %s %s %s %s %s %s %s %s)", hx.B(due && single), hx.ZInt(pb), hx.ZBig(rate.BigInt()), hx.ZBig(w.BigInt()),
				hx.ZU(pool.ClaimStart), hx.ZU(last), hx.Z(ctx.BlockTime().Unix()), hx.ZU(pool.ClaimEnd), hx.ZU(pool.ClaimExpiry), hx.B(pool.DynamicRate), hx.ZU(pool.LastDynamicRateCalcTime))
			sj = map[string]interface{}{"distribution_due": due, "modelled(single registered beneficiary)": due && single, "pool_balance": pb.String(), "rate": rate.String(), "weight": w.String(),
				"claim_start": pool.ClaimStart, "last_claim": last, "now": ctx.BlockTime().Unix(), "claim_end": pool.ClaimEnd, "claim_expiry": pool.ClaimExpiry,
				"dynamic": pool.DynamicRate, "last_rate_calc": pool.LastDynamicRateCalcTime}
		})
		log = append(log, fmt.Sprintf("block dt=%d", p.Dts[b]))
		out = append(out, siteCase("spend-distribution-enact", site, sj, h, append([]string{}, log...), p))
	}
	return out
}

// ------------------------------------------------------------------ polls (wall clock!)

type PollParams struct {
	Seed     uint64 `json:"chain_seed"`
	Unassign bool   `json:"unassign_role_of_a_voter"`
}

func runPoll(p PollParams, ops hx.Counter) []Case {
	h := NewH(abci.Config{Accounts: 5, Validators: 2, Seed: p.Seed}, ops)
	c := h.C
	log := []string{fmt.Sprintf("chain accounts=5 validators=2 seed=%d", p.Seed)}
	a0 := c.Accounts[0].Addr
	h.Block(BlockReq{Dt: 5}, func() {
		h.Tx("create-role", 0, govtypes.NewMsgCreateRole(a0, "pollers", "poll role"))
		h.Tx("assign-role", 0, govtypes.NewMsgAssignRole(a0, c.Accounts[1].Addr, 3))
		h.Tx("assign-role", 0, govtypes.NewMsgAssignRole(a0, c.Accounts[2].Addr, 3))
		res := h.Tx("poll-create", 0, govtypes.NewMsgPollCreate(a0, "t", "d", "ref", "sum", []string{"aa", "bb"}, []string{"pollers"}, 3, "string", 1, "1s"))
		log = append(log, fmt.Sprintf("a0 creates role pollers(3), assigns it to a1,a2 and creates a poll for that role lasting 1s code=%d", res.Code))
		for a := 1; a <= 2; a++ {
			res = h.Tx("poll-vote", a, govtypes.NewMsgVotePoll(1, c.Accounts[a].Addr, govtypes.PollOptionAbstain, ""))
			log = append(log, fmt.Sprintf("a%d votes in the poll code=%d", a, res.Code))
		}
		if p.Unassign {
			res = h.Tx("unassign-role", 0, govtypes.NewMsgUnassignRole(a0, c.Accounts[1].Addr, 3))
			log = append(log, fmt.Sprintf("a0 unassigns role pollers from a1 (who voted) code=%d", res.Code))
		}
	}, nil)
	var site string
	var sj interface{}
	h.Block(BlockReq{Dt: 5}, nil, func(ctx sdk.Context) {
		k := c.App.CustomGovKeeper
		votes := len(k.GetPollVotes(ctx, 1))
		voters := 0
		it := k.GetNetworkActorsByRole(ctx, 3)
		for ; it.Valid(); it.Next() {
			voters++
		}
		it.Close()
		q := k.GetNetworkProperties(ctx).VoteQuorum
		site = fmt.Sprintf("(SPollQuorum true %s %d %d)", hx.ZBig(q.BigInt()), votes, voters)
		sj = map[string]interface{}{"poll": 1, "quorum": q.String(), "votes": votes, "voters": voters}
	})
	log = append(log, "block dt=5 (processPoll runs in EndBlock)")
	return []Case{siteCase("gov-poll-quorum", site, sj, h, log, p)}
}

// ------------------------------------------------------------------ the scheduled software-upgrade halt (sanctioned)

type UpgradeParams struct {
	Seed    uint64 `json:"chain_seed"`
	Instate bool   `json:"instate_upgrade"`
	Skip    bool   `json:"skip_handler"`
}

func runUpgrade(p UpgradeParams, ops hx.Counter) []Case {
	h := NewH(abci.Config{Accounts: 4, Validators: 2, Seed: p.Seed}, ops)
	c := h.C
	log := []string{fmt.Sprintf("chain accounts=4 validators=2 seed=%d", p.Seed)}
	a0 := c.Accounts[0].Addr
	h.Block(BlockReq{Dt: 5}, func() {
		ut := c.Time.Unix() + 1000
		content := upgradetypes.NewSoftwareUpgradeProposal("v2", nil, ut, abci.ChainID, "verif-2", "", 0, "", p.Instate, false, p.Skip)
		msg, _ := govtypes.NewMsgSubmitProposal(a0, "u", "u", content)
		res := h.Tx("submit-proposal", 0, msg)
		log = append(log, fmt.Sprintf("a0 submits SoftwareUpgrade(v2, upgrade_time=now+1000, instate=%v, skip_handler=%v) code=%d", p.Instate, p.Skip, res.Code))
		res = h.Tx("vote-proposal", 0, govtypes.NewMsgVoteProposal(1, a0, govtypes.OptionYes, sdk.ZeroDec()))
		log = append(log, fmt.Sprintf("a0 votes yes code=%d", res.Code))
	}, nil)
	for i, dt := range []int64{5, 310, 310, 5, 400, 5, 5} {
		if !h.Block(BlockReq{Dt: dt, Proposer: i}, nil, nil) {
			break
		}
	}
	return []Case{histCase("upgrade-halt", h, log, p)}
}

// ------------------------------------------------------------------ input-only panics are filtered by the dry run

type UbiParams struct {
	Seed   uint64 `json:"chain_seed"`
	Period uint64 `json:"period"`
	Amount uint64 `json:"amount"`
}

// UpsertUBI with Period = 0 divides by zero inside Apply on EVERY state: SubmitProposal's dry run must
// fail the submission, so the content never reaches the end-blocker. A valid record exercises the UBI
// end-blocker (mint + deposit into the spending pool) over long time gaps.
func runUbi(p UbiParams, ops hx.Counter) []Case {
	// the default genesis UBI record already exceeds the default hard cap (every upsert is rejected): raise the cap in genesis
	h := NewH(abci.Config{Accounts: 4, Validators: 2, Seed: p.Seed, Gov: func(g *govtypes.GenesisState) { g.NetworkProperties.UbiHardcap = 100_000_000 }}, ops)
	c := h.C
	log := []string{fmt.Sprintf("chain accounts=4 validators=2 seed=%d genesis ubi_hardcap=100000000", p.Seed)}
	a0 := c.Accounts[0].Addr
	h.Block(BlockReq{Dt: 5}, func() {
		content := ubitypes.NewUpsertUBIProposal("u1", uint64(c.Time.Unix()), 0, p.Amount, p.Period, "ValidatorBasicRewardsPool")
		msg, _ := govtypes.NewMsgSubmitProposal(a0, "ubi", "ubi", content)
		res := h.Tx("submit-proposal", 0, msg)
		log = append(log, fmt.Sprintf("a0 submits UpsertUBI(u1, amount=%d, period=%d, pool=ValidatorBasicRewardsPool) code=%d", p.Amount, p.Period, res.Code))
		res = h.Tx("vote-proposal", 0, govtypes.NewMsgVoteProposal(1, a0, govtypes.OptionYes, sdk.ZeroDec()))
		log = append(log, fmt.Sprintf("a0 votes yes code=%d", res.Code))
	}, nil)
	for i, dt := range []int64{5, 310, 310, 5, 90000, 2700000, 5} {
		if !h.Block(BlockReq{Dt: dt, Proposer: i}, nil, nil) {
			break
		}
	}
	log = append(log, "blocks dt=5,310,310,5,90000,2700000,5")
	return []Case{histCase("ubi-proposal", h, log, p)}
}
