// c06: ABCI-level search for chain-halting panics (property C06).
//
// Runs the REAL application (InitChain, BeginBlock with commit votes / evidence / proposer, signed
// transactions through DeliverTx, EndBlock, Commit) on fresh in-memory chains:
//   - recipe histories that exercise one panic-capable begin/end-block site each, with randomised
//     (valid and adversarial) parameters; the inputs the Coq model needs are read from the real state;
//   - random block histories mixing transactions of many modules, absences, evidence and time gaps.
//
// Output protocol: see FRAMEWORK.md (pre.v, cases.txt, cases.json, meta.json, dist.json).
package main

import (
	"flag"
	"fmt"
	"os"
	"strings"

	"verif/harness/abci"
	"verif/harness/hx"

	govtypes "github.com/KiraCore/sekai/x/gov/types"
	multistakingtypes "github.com/KiraCore/sekai/x/multistaking/types"
	slashingtypes "github.com/KiraCore/sekai/x/slashing/types"
	spendingtypes "github.com/KiraCore/sekai/x/spending/types"
	sdk "github.com/cosmos/cosmos-sdk/types"
	banktypes "github.com/cosmos/cosmos-sdk/x/bank/types"
)

type recipe struct {
	name string
	f    func(r *hx.Rng, seed uint64, ops hx.Counter, adversarial bool) []Case
	w    int
}

var recipes = []recipe{
	{"spend-dynrate", func(r *hx.Rng, s uint64, o hx.Counter, a bool) []Case { return runDynRate(drawDynRate(r, s, a), o) }, 5},
	{"gov-quorum-perm", func(r *hx.Rng, s uint64, o hx.Counter, a bool) []Case {
		return runQuorumPerm(drawQuorumPerm(r, s, a), o)
	}, 4},
	{"gov-quorum-dynamic", func(r *hx.Rng, s uint64, o hx.Counter, a bool) []Case { return runQuorumDyn(drawQuorumDyn(r, s, a), o) }, 4},
	{"spend-withdraw-enact", func(r *hx.Rng, s uint64, o hx.Counter, a bool) []Case { return runWithdraw(drawWithdraw(r, s, a), o) }, 3},
	{"spend-distribution-enact", func(r *hx.Rng, s uint64, o hx.Counter, a bool) []Case {
		return runDistribution(drawDistribution(r, s, a), o)
	}, 3},
	{"upgrade-halt", func(r *hx.Rng, s uint64, o hx.Counter, a bool) []Case {
		return runUpgrade(UpgradeParams{Seed: s, Instate: r.Chance(40), Skip: r.Chance(50)}, o)
	}, 1},
	{"ubi-proposal", func(r *hx.Rng, s uint64, o hx.Counter, a bool) []Case {
		return runUbi(UbiParams{Seed: s, Period: pickU(r, 0, 1, 3600, 86400, 31556952), Amount: pickU(r, 1, 10, 1000000, 1<<62)}, o)
	}, 1},
	{"gov-vote-patterns", func(r *hx.Rng, s uint64, o hx.Counter, a bool) []Case {
		return runVotePatterns(drawVotePatterns(r, s), o)
	}, 2},
	{"gov-poll-patterns", func(r *hx.Rng, s uint64, o hx.Counter, a bool) []Case {
		return runPollPatterns(PollPatternParams{Seed: s}, o)
	}, 1},
	{"stake-rewards", func(r *hx.Rng, s uint64, o hx.Counter, a bool) []Case { return runRewards(drawRewards(r, s, a), o) }, 3},
	{"slash-proposal", func(r *hx.Rng, s uint64, o hx.Counter, a bool) []Case {
		return runSlash(SlashParams{Seed: s, Delegate: pickS(r, "", "1000000ukex", "5000ubtc", "1000000ukex,5000ubtc"), Vote: r.Intn(5), Slash: pickS(r, "0", "0.01", "0.5", "1"), After: r.Chance(50), Compound: r.Chance(50)}, o)
	}, 2},
	{"recovery-rotation", func(r *hx.Rng, s uint64, o hx.Counter, a bool) []Case {
		return runRotation(RotationParams{Seed: s, Rotate: a}, o)
	}, 1},
	{"collective", func(r *hx.Rng, s uint64, o hx.Counter, a bool) []Case {
		return runCollective(drawCollective(r, s, a), o)
	}, 2},
	{"dapp-bootstrap", func(r *hx.Rng, s uint64, o hx.Counter, a bool) []Case { return runDapp(drawDapp(r, s, a), o) }, 3},
	{"basket", func(r *hx.Rng, s uint64, o hx.Counter, a bool) []Case {
		return runBasket(BasketParams{Seed: s, LimitsPeriod: pickU(r, 0, 1, 86400, ^uint64(0))}, o)
	}, 1},
	{"module-address-send", func(r *hx.Rng, s uint64, o hx.Counter, a bool) []Case { return runModuleSend(s, o) }, 1},
	{"proposer-deactivated", func(r *hx.Rng, s uint64, o hx.Counter, a bool) []Case {
		return runPauseProposer(PauseParams{Seed: s, Interval: pickU(r, 1, 1, 3, 17280), How: pickS(r, "pause", "evidence", "none"), Compound: r.Chance(70)}, o)
	}, 2},
	{"recovery-rewards", func(r *hx.Rng, s uint64, o hx.Counter, a bool) []Case { return runRR(drawRR(r, s, a), o) }, 3},
	{"upgrade-validator-states", func(r *hx.Rng, s uint64, o hx.Counter, a bool) []Case {
		return runUpgradeStates(drawUpgradeStates(r, s), o)
	}, 3},
	{"settings-mid-history", func(r *hx.Rng, s uint64, o hx.Counter, a bool) []Case { return runSettings(drawSettings(r, s), o) }, 3},
	{"export-import", func(r *hx.Rng, s uint64, o hx.Counter, a bool) []Case { return runExportImport(s, o) }, 1},
	{"actor-perturbation", func(r *hx.Rng, s uint64, o hx.Counter, a bool) []Case { return runPerturb(drawPerturb(r, s), o) }, 4},
	{"recovery-rewards-prefix", func(r *hx.Rng, s uint64, o hx.Counter, a bool) []Case {
		m := [][]string{{"node1", "node10"}, {"node10", "node1"}, {"a", "ab"}, {"x1", "x2"}}[r.Intn(4)]
		return runRRPrefix(RRPrefixParams{Seed: s, Snap: pickI(r, 1, 1, 1000), Monikers: m, Short: pickS(r, "6000000000000", "4000000000000", "10000000000000", "1000000"),
			Long: pickS(r, "1000000", "6000000000000", "0"), Register: r.Intn(4), NBlocks: 10 + r.Intn(10)}, o)
	}, 2},
	{"random", recipeRandom, 6},
}

func main() {
	out := flag.String("out", ".", "output directory")
	n := flag.Int("n", 120, "number of generated histories (the witnesses are always run in addition)")
	only := flag.String("only", "", "run only this recipe")
	nopoll := flag.Bool("nopoll", false, "skip the two wall-clock poll histories")
	flag.Parse()
	o := hx.Out{Dir: *out}
	seed := hx.Seed()
	rng := hx.NewRng(seed)
	ops := hx.Counter{}
	kinds := hx.Counter{}
	var cases []Case
	add := func(cs []Case) {
		for _, c := range cs {
			cases = append(cases, c)
			kinds.Inc("case:" + fmt.Sprint(c.JSON["kind"]))
		}
	}
	total := 0
	for _, rc := range recipes {
		total += rc.w
	}
	if *only == "" {
		add(witnesses(ops, !*nopoll))
	}
	nadv := 0
	for i := 0; i < *n; i++ {
		k := rng.Intn(total)
		var rc recipe
		for _, x := range recipes {
			if k < x.w {
				rc = x
				break
			}
			k -= x.w
		}
		adversarial := rng.Chance(60)
		fork := rng.Fork()
		if *only != "" && rc.name != *only {
			continue
		}
		if adversarial {
			nadv++
		}
		cs := rc.f(fork, seed*1000+uint64(i), ops, adversarial)
		for _, c := range cs {
			c.JSON["adversarial"] = adversarial
		}
		add(cs)
	}
	var lines []string
	var js []map[string]interface{}
	panics := hx.Counter{}
	for _, c := range cases {
		lines = append(lines, c.Coq)
		js = append(js, c.JSON)
		if b, ok := c.JSON["block"].(Block); ok {
			for ph, p := range map[string]Phase{"begin": b.Begin, "end": b.End, "commit": b.Commit} {
				if p.Panicked() {
					panics.Inc(ph + ":" + p.Site + ":" + p.Cls)
				}
			}
		} else if hist, ok := c.JSON["history"].([]Block); ok {
			for _, b := range hist {
				for ph, p := range map[string]Phase{"begin": b.Begin, "end": b.End, "commit": b.Commit} {
					if p.Panicked() {
						panics.Inc(ph + ":" + p.Site + ":" + p.Cls)
					}
				}
			}
		}
	}
	o.WriteFile("pre.v", "From Sekai Require Import Base.Prelude Base.Dec Gen.PanicSites Model.Halt Model.C06Check.\nOpen Scope Z_scope.\n")
	o.WriteFile("cases.txt", strings.Join(lines, "\n")+"\n")
	o.WriteJSON("cases.json", js)
	o.WriteJSON("meta.json", map[string]string{"case_type": "c06_case", "mismatch_fn": "c06_mismatches", "violation_fn": "c06_violations"})
	o.WriteJSON("dist.json", map[string]interface{}{"seed": seed, "generated_histories": *n, "adversarial_histories": nadv, "cases": len(cases), "case_kinds": kinds,
		"transactions(kind:outcome)": ops, "escaped_panics(phase:site:class)": panics})
	fmt.Fprintf(os.Stderr, "c06: %d cases, kinds=%v panics=%v\n", len(cases), kinds, panics)
}

// ------------------------------------------------------------------ random block histories

func recipeRandom(r *hx.Rng, seed uint64, ops hx.Counter, adversarial bool) []Case {
	nv := 2 + r.Intn(3)
	h := NewH(abci.Config{Accounts: 6, Validators: nv, Seed: seed}, ops)
	c := h.C
	log := []string{fmt.Sprintf("chain accounts=6 validators=%d seed=%d", nv, seed)}
	a0 := c.Accounts[0].Addr
	nb := 6 + r.Intn(10)
	npool := 0
	nprop := uint64(0)
	for b := 0; b < nb && !h.Halted; b++ {
		req := BlockReq{Dt: pickI(r, 1, 5, 5, 5, 30, 299, 300, 301, 400, 3700, 90000, 2700000, 32000000), Nanos: pickI(r, 0, 0, 1, 999999999, -1), Proposer: r.Intn(nv)}
		for v := 0; v < nv; v++ {
			if r.Chance(15) {
				req.Absent = append(req.Absent, v)
			}
		}
		if adversarial && r.Chance(10) {
			req.Evidence = append(req.Evidence, r.Intn(nv))
		}
		ntx := r.Intn(5)
		h.Block(req, func() {
			for t := 0; t < ntx; t++ {
				a := r.Intn(6)
				addr := c.Accounts[a].Addr
				switch r.Intn(16) {
				case 0, 1:
					to := c.Accounts[r.Intn(6)].Addr
					h.Tx("bank-send", a, banktypes.NewMsgSend(addr, to, ukex(r.Range(1, 1000000))))
				case 2:
					name := fmt.Sprintf("r%d", npool)
					npool++
					w := pickS(r, "1", "2", "0.5")
					period := pickU(r, 1, 10, 100)
					if adversarial {
						w = pickS(r, "1", "-1", "0.5")
						period = pickU(r, 0, 1, 10, ^uint64(0))
					}
					msg := spendingtypes.NewMsgCreateSpendingPool(name, 0, 0, sdk.NewDecCoins(sdk.NewDecCoinFromDec("ukex", dec("1"))), dec(pickS(r, "0.33", "0.5", "1")), 10, 10,
						spendingtypes.PermInfo{OwnerAccounts: []string{addr.String()}},
						spendingtypes.WeightedPermInfo{Accounts: []spendingtypes.WeightedAccount{{Account: addr.String(), Weight: dec(w)}, {Account: a0.String(), Weight: dec("1")}}},
						addr, r.Chance(50), period)
					h.Tx("create-spending-pool", a, msg)
				case 3:
					if npool > 0 {
						h.Tx("deposit-spending-pool", a, spendingtypes.NewMsgDepositSpendingPool(fmt.Sprintf("r%d", r.Intn(npool)), ukex(r.Range(1, 100000)), addr))
					}
				case 4:
					if npool > 0 {
						h.Tx("register-beneficiary", a, spendingtypes.NewMsgRegisterSpendingPoolBeneficiary(fmt.Sprintf("r%d", r.Intn(npool)), addr))
					}
				case 5:
					if npool > 0 {
						h.Tx("claim-spending-pool", a, spendingtypes.NewMsgClaimSpendingPool(fmt.Sprintf("r%d", r.Intn(npool)), addr))
					}
				case 6:
					var content govtypes.Content
					switch r.Intn(4) {
					case 0:
						content = govtypes.NewUpsertDataRegistryProposal(fmt.Sprintf("k%d", r.Intn(5)), "h", "r", "e", 1)
					case 1:
						content = govtypes.NewSetNetworkPropertyProposal(govtypes.MinTxFee, govtypes.NetworkPropertyValue{Value: uint64(r.Range(1, 500))})
					case 2:
						content = govtypes.NewSetProposalDurationsProposal([]string{"UpsertDataRegistry"}, []uint64{uint64(r.Range(1, 1000))})
					default:
						if npool > 0 {
							content = spendingtypes.NewSpendingPoolDistributionProposal(fmt.Sprintf("r%d", r.Intn(npool)))
						} else {
							content = govtypes.NewUpsertDataRegistryProposal("z", "h", "r", "e", 1)
						}
					}
					msg, err := govtypes.NewMsgSubmitProposal(addr, "t", "d", content)
					if err == nil {
						if res := h.Tx("submit-proposal", a, msg); res.Code == 0 {
							nprop++
						}
					}
				case 7, 8:
					if nprop > 0 {
						h.Tx("vote-proposal", a, govtypes.NewMsgVoteProposal(1+uint64(r.Intn(int(nprop))), addr, govtypes.VoteOption(1+r.Intn(4)), sdk.ZeroDec()))
					}
				case 9:
					perm := pickU(r, uint64(govtypes.PermVoteUpsertDataRegistryProposal), uint64(govtypes.PermVoteSetNetworkPropertyProposal), uint64(govtypes.PermCreateUpsertDataRegistryProposal))
					to := c.Accounts[r.Intn(6)].Addr
					if r.Chance(60) {
						h.Tx("whitelist-permission", 0, govtypes.NewMsgWhitelistPermissions(a0, to, uint32(perm)))
					} else {
						h.Tx("remove-whitelisted-permission", 0, govtypes.NewMsgRemoveWhitelistedPermissions(a0, to, uint32(perm)))
					}
				case 10:
					v := r.Intn(nv)
					own := c.Validators[v].Owner
					h.Tx("upsert-staking-pool", own, multistakingtypes.NewMsgUpsertStakingPool(c.Accounts[own].Addr.String(), c.Validators[v].ValAddr.String(), true, dec(pickS(r, "0.01", "0.1", "0.5"))))
				case 11:
					v := r.Intn(nv)
					h.Tx("delegate", a, multistakingtypes.NewMsgDelegate(addr.String(), c.Validators[v].ValAddr.String(), ukex(r.Range(1, 1000000))))
				case 12:
					v := r.Intn(nv)
					h.Tx("undelegate", a, multistakingtypes.NewMsgUndelegate(addr.String(), c.Validators[v].ValAddr.String(), ukex(r.Range(1, 1000000))))
				case 13:
					h.Tx("claim-rewards", a, multistakingtypes.NewMsgClaimRewards(addr.String()))
				case 14:
					v := r.Intn(nv)
					own := c.Validators[v].Owner
					switch r.Intn(3) {
					case 0:
						h.Tx("pause", own, slashingtypes.NewMsgPause(c.Validators[v].ValAddr))
					case 1:
						h.Tx("unpause", own, slashingtypes.NewMsgUnpause(c.Validators[v].ValAddr))
					default:
						h.Tx("activate", own, slashingtypes.NewMsgActivate(c.Validators[v].ValAddr))
					}
				case 15:
					h.Tx("set-execution-fee", 0, govtypes.NewMsgSetExecutionFee("claim_rewards", uint64(r.Range(0, 2000)), uint64(r.Range(0, 2000)), 0, 0, a0))
				}
			}
		}, nil)
	}
	log = append(log, "random history: see history[*].txs")
	return []Case{histCase("random", h, log, map[string]interface{}{"chain_seed": seed, "validators": nv})}
}
