// c11: runs the REAL basket msg server, proposal handlers, hooks and end blocker on generated
// multi-holder histories (mint / burn / swap with arbitrary amounts, edits, emergency switches,
// staking hooks, time passing) and writes the observations for the Coq model and spec checker.
// Every message runs in its own cache context that is written back only on success, which is what
// baseapp does with a transaction.
package main

import (
	"flag"
	"fmt"
	"os"
	"sort"
	"strings"
	"time"

	"verif/harness/hx"

	"github.com/KiraCore/sekai/x/basket"
	basketkeeper "github.com/KiraCore/sekai/x/basket/keeper"
	"github.com/KiraCore/sekai/x/basket/types"
	govtypes "github.com/KiraCore/sekai/x/gov/types"
	multistakingtypes "github.com/KiraCore/sekai/x/multistaking/types"
	simapp "github.com/KiraCore/sekai/app"
	sdk "github.com/cosmos/cosmos-sdk/types"
	authtypes "github.com/cosmos/cosmos-sdk/x/auth/types"
	minttypes "github.com/cosmos/cosmos-sdk/x/mint/types"
)

// denominations, numbered in the byte order of their names; 0 is the basket's own token
var denoms = []string{"b1/vv", "xaa", "xbb", "xcc", "xdd"}

const (
	ND     = 5
	NH     = 4 // holders 1..4; account 0 is the basket module
	SUFFIX = "vv"
	T0     = int64(1700000000)
	NS     = int64(1000000000) // block times are unix nanoseconds
)

func denomID(s string) int {
	for i, d := range denoms {
		if d == s {
			return i
		}
	}
	return 99
}

var (
	app     *simapp.SekaiApp
	holders []sdk.AccAddress
	modAddr sdk.AccAddress
	admin   sdk.AccAddress
	seeder  sdk.AccAddress
)

func dec(s string) sdk.Dec { return sdk.MustNewDecFromStr(s) }

// ---------------------------------------------------------------- Coq / JSON emitters
func zdec(d sdk.Dec) string { return hx.ZBig(d.BigInt()) }

// capI64 truncates a Dec to int64, capped at 10^15 (weights differ by up to 10^18)
func capI64(d sdk.Dec) int64 {
	i := d.TruncateInt()
	if i.GT(sdk.NewInt(1000000000000000)) {
		return 1000000000000000
	}
	if i.IsNegative() {
		return 0
	}
	return i.Int64()
}
func tokenCoq(t types.BasketToken) string {
	return fmt.Sprintf("mkT %d %s %s %s %s %s", denomID(t.Denom), zdec(t.Weight), hx.ZInt(t.Amount), hx.B(t.Deposits), hx.B(t.Withdraws), hx.B(t.Swaps))
}
func basketCoq(b types.Basket) string {
	var ts, ss []string
	for _, t := range b.Tokens {
		ts = append(ts, tokenCoq(t))
	}
	for _, c := range b.Surplus {
		ss = append(ss, hx.Pair(fmt.Sprint(denomID(c.Denom)), hx.ZInt(c.Amount)))
	}
	return fmt.Sprintf("(mkB %s %s %s %s %s %s %d %s %s %s %s %s %s %s %s %s)", hx.ZInt(b.Amount), hx.List(ts), hx.List(ss),
		zdec(b.SwapFee), zdec(b.SlipppageFeeMin), zdec(b.TokensCap), b.LimitsPeriod,
		hx.ZInt(b.MintsMin), hx.ZInt(b.MintsMax), hx.ZInt(b.BurnsMin), hx.ZInt(b.BurnsMax), hx.ZInt(b.SwapsMin), hx.ZInt(b.SwapsMax),
		hx.B(b.MintsDisabled), hx.B(b.BurnsDisabled), hx.B(b.SwapsDisabled))
}

type jtoken struct {
	Denom, Weight, Amount string
	Dep, Wd, Sw           bool
}
type jbasket struct {
	Amount                          string
	Tokens                          []jtoken
	Surplus                         string
	Fee, Slip, Cap                  string
	Period                          uint64
	MMin, MMax, BMin, BMax, SMin, SMax string
	MD, BD, SD                      bool
}

func basketJSON(b types.Basket) jbasket {
	j := jbasket{Amount: b.Amount.String(), Surplus: sdk.Coins(b.Surplus).String(), Fee: b.SwapFee.String(), Slip: b.SlipppageFeeMin.String(),
		Cap: b.TokensCap.String(), Period: b.LimitsPeriod, MMin: b.MintsMin.String(), MMax: b.MintsMax.String(), BMin: b.BurnsMin.String(),
		BMax: b.BurnsMax.String(), SMin: b.SwapsMin.String(), SMax: b.SwapsMax.String(), MD: b.MintsDisabled, BD: b.BurnsDisabled, SD: b.SwapsDisabled}
	for _, t := range b.Tokens {
		j.Tokens = append(j.Tokens, jtoken{t.Denom, t.Weight.String(), t.Amount.String(), t.Deposits, t.Withdraws, t.Swaps})
	}
	return j
}

type sib struct {
	B      types.Basket
	Supply sdk.Int
}
type post struct {
	B      types.Basket
	Supply sdk.Int
	Bals   [][]sdk.Int
	Sibs   []sib // baskets 2, 3, ... with the bank supply of their tokens
}

func observe(ctx sdk.Context) post {
	b, err := app.BasketKeeper.GetBasketById(ctx, 1)
	if err != nil {
		panic(err)
	}
	p := post{B: b, Supply: app.BankKeeper.GetSupply(ctx, denoms[0]).Amount}
	accs := append([]sdk.AccAddress{modAddr}, holders...)
	for _, a := range accs {
		row := make([]sdk.Int, ND)
		for d := 0; d < ND; d++ {
			row[d] = app.BankKeeper.GetBalance(ctx, a, denoms[d]).Amount
		}
		p.Bals = append(p.Bals, row)
	}
	for id := uint64(2); id <= app.BasketKeeper.GetLastBasketId(ctx); id++ {
		sb, err := app.BasketKeeper.GetBasketById(ctx, id)
		if err != nil {
			panic(err)
		}
		p.Sibs = append(p.Sibs, sib{sb, app.BankKeeper.GetSupply(ctx, sb.GetBasketDenom()).Amount})
	}
	return p
}
func (p post) coq() string {
	var rows []string
	for _, r := range p.Bals {
		var xs []string
		for _, x := range r {
			xs = append(xs, hx.ZInt(x))
		}
		rows = append(rows, hx.List(xs))
	}
	var sibs []string
	for _, sb := range p.Sibs {
		sibs = append(sibs, hx.Pair(basketCoq(sb.B), hx.ZInt(sb.Supply)))
	}
	return fmt.Sprintf("(mkP %s %s %s %s)", basketCoq(p.B), hx.ZInt(p.Supply), hx.List(rows), hx.List(sibs))
}
func (p post) json() map[string]interface{} {
	var rows [][]string
	for _, r := range p.Bals {
		var xs []string
		for _, x := range r {
			xs = append(xs, x.String())
		}
		rows = append(rows, xs)
	}
	var sibs []map[string]interface{}
	for i, sb := range p.Sibs {
		sibs = append(sibs, map[string]interface{}{"id": i + 2, "basket": basketJSON(sb.B), "supply": sb.Supply.String()})
	}
	return map[string]interface{}{"basket": basketJSON(p.B), "supply": p.Supply.String(), "balances_account_x_denom": rows, "other_baskets": sibs}
}

// ---------------------------------------------------------------- one history
type jstep struct {
	Op     string                 `json:"op"`
	Args   map[string]interface{} `json:"args"`
	Status string                 `json:"status"`
	Err    string                 `json:"err,omitempty"`
	After  map[string]interface{} `json:"after,omitempty"`
}
type jcase struct {
	Kind   string                 `json:"kind"`
	Denoms []string               `json:"denoms"`
	Init   map[string]interface{} `json:"init"`
	Steps  []jstep                `json:"steps"`
}

type hist struct {
	ctx   sdk.Context
	now   int64
	steps []string
	j     jcase
	cur   post
	init  post
	dist  hx.Counter
	pending int64 // staking rewards (xdd) pending for the basket module account
	dead  bool // after the upsert hook the basket record is gone: history ends
}

func newCtx() sdk.Context {
	c, _ := hx.Ctx(app, 10, T0).CacheContext()
	return c
}

func fund(ctx sdk.Context, a sdk.AccAddress, d int, amt int64) {
	if amt <= 0 {
		return
	}
	cs := sdk.Coins{sdk.NewInt64Coin(denoms[d], amt)}
	if err := app.BankKeeper.MintCoins(ctx, minttypes.ModuleName, cs); err != nil {
		panic(err)
	}
	if err := app.BankKeeper.SendCoinsFromModuleToAccount(ctx, minttypes.ModuleName, a, cs); err != nil {
		panic(err)
	}
}

func startHist(kind string, cfg types.Basket, funds [][]int64, dist hx.Counter) *hist {
	ctx := newCtx()
	app.CustomGovKeeper.SaveNetworkActor(ctx, govtypes.NetworkActor{Address: admin,
		Permissions: &govtypes.Permissions{Whitelist: []uint32{uint32(govtypes.PermHandleBasketEmergency)}}})
	err := basket.NewApplyCreateBasketProposalHandler(app.BasketKeeper).Apply(ctx, 1, &types.ProposalCreateBasket{Basket: cfg}, sdk.ZeroDec())
	if err != nil {
		panic("create basket: " + err.Error())
	}
	for h := 0; h < NH; h++ {
		for d := 1; d < ND; d++ {
			fund(ctx, holders[h], d, funds[h][d])
		}
	}
	seedSibling(ctx)
	h := &hist{ctx: ctx, now: T0*NS + 123456789, dist: dist}
	h.cur = observe(ctx)
	h.init = h.cur
	h.j = jcase{Kind: kind, Denoms: denoms, Init: h.cur.json()}
	h.steps = nil
	return h
}

// seedSibling creates basket 2 (same reserve denominations xaa, xbb as basket 1, same module account)
// through the real proposal handler and gives it reserves and a surplus through the real msg server
// (a separate account mints and swaps), so that every history runs next to another funded basket
func seedSibling(ctx sdk.Context) {
	c2 := plainConfig("1", "2")
	c2.Suffix, c2.SwapFee, c2.SlipppageFeeMin = "ww", dec("0.05"), sdk.ZeroDec()
	if err := basket.NewApplyCreateBasketProposalHandler(app.BasketKeeper).Apply(ctx, 1, &types.ProposalCreateBasket{Basket: c2}, sdk.ZeroDec()); err != nil {
		panic("create basket 2: " + err.Error())
	}
	fund(ctx, seeder, 1, 100000)
	fund(ctx, seeder, 2, 100000)
	must := func(err error) {
		if err != nil {
			panic("seed basket 2: " + err.Error())
		}
	}
	g := sdk.WrapSDKContext(ctx.WithBlockTime(time.Unix(T0, 0).UTC()))
	_, err := msgServer.BasketTokenMint(g, &types.MsgBasketTokenMint{Sender: seeder.String(), BasketId: 2, Deposit: sdk.NewCoins(sdk.NewInt64Coin(denoms[1], 50000), sdk.NewInt64Coin(denoms[2], 25000))})
	must(err)
	_, err = msgServer.BasketTokenSwap(g, &types.MsgBasketTokenSwap{Sender: seeder.String(), BasketId: 2, Pairs: []types.SwapPair{{InAmount: sdk.NewInt64Coin(denoms[1], 4000), OutToken: denoms[2]}}})
	must(err)
	_, err = msgServer.BasketTokenSwap(g, &types.MsgBasketTokenSwap{Sender: seeder.String(), BasketId: 2, Pairs: []types.SwapPair{{InAmount: sdk.NewInt64Coin(denoms[2], 1500), OutToken: denoms[1]}}})
	must(err)
}

// run executes f on a cache of the history's state at the current block time and commits on success
func (h *hist) run(opCoq string, name string, args map[string]interface{}, f func(ctx sdk.Context) error) (ok bool) {
	if h.dead {
		return false
	}
	base := h.ctx.WithBlockTime(time.Unix(0, h.now).UTC())
	cc, write := base.CacheContext()
	var err error
	p := hx.Try(func() { err = f(cc) })
	st, status, es := 0, "ok", ""
	switch {
	case p != "":
		st, status, es = 2, "panic", p
	case err != nil:
		st, status, es = 1, "rejected", err.Error()
	}
	js := jstep{Op: name, Args: args, Status: status, Err: es}
	if st == 0 {
		write()
		h.cur = observe(base)
		js.After = h.cur.json()
		h.steps = append(h.steps, fmt.Sprintf("(%s, 0, Some %s)", opCoq, h.cur.coq()))
	} else {
		h.steps = append(h.steps, fmt.Sprintf("(%s, %d, None)", opCoq, st))
	}
	h.j.Steps = append(h.j.Steps, js)
	h.dist.Inc(name + ":" + status)
	return st == 0
}

func (h *hist) coq() string {
	return fmt.Sprintf("C11Hist %s %s", h.init.coq(), hx.List(h.steps))
}

var msgServer types.MsgServer

func rawCoins(ds []int, xs []int64) sdk.Coins {
	cs := sdk.Coins{}
	for i := range ds {
		cs = append(cs, sdk.Coin{Denom: denoms[ds[i]], Amount: sdk.NewInt(xs[i])})
	}
	return cs
}
func coinsCoq(ds []int, xs []int64) string {
	var l []string
	for i := range ds {
		l = append(l, hx.Pair(fmt.Sprint(ds[i]), hx.Z(xs[i])))
	}
	return hx.List(l)
}

func (h *hist) mint(a int, ds []int, xs []int64) bool {
	msg := &types.MsgBasketTokenMint{Sender: holders[a-1].String(), BasketId: 1, Deposit: rawCoins(ds, xs)}
	return h.run(fmt.Sprintf("OMint %d %d %s", h.now, a, coinsCoq(ds, xs)), "mint",
		map[string]interface{}{"time": h.now, "holder": a, "deposit": sdk.Coins(msg.Deposit).String()},
		func(ctx sdk.Context) error { _, err := msgServer.BasketTokenMint(sdk.WrapSDKContext(ctx), msg); return err })
}
func (h *hist) burn(a int, d int, x int64) bool {
	msg := &types.MsgBasketTokenBurn{Sender: holders[a-1].String(), BasketId: 1, BurnAmount: sdk.Coin{Denom: denoms[d], Amount: sdk.NewInt(x)}}
	return h.run(fmt.Sprintf("OBurn %d %d %d %s", h.now, a, d, hx.Z(x)), "burn",
		map[string]interface{}{"time": h.now, "holder": a, "burn": msg.BurnAmount.String(), "supply_before": h.cur.Supply.String()},
		func(ctx sdk.Context) error { _, err := msgServer.BasketTokenBurn(sdk.WrapSDKContext(ctx), msg); return err })
}

type pair struct {
	in  int
	x   int64
	out int
}

func (h *hist) swap(a int, ps []pair) bool {
	msg := &types.MsgBasketTokenSwap{Sender: holders[a-1].String(), BasketId: 1}
	var l, js []string
	for _, p := range ps {
		msg.Pairs = append(msg.Pairs, types.SwapPair{InAmount: sdk.Coin{Denom: denoms[p.in], Amount: sdk.NewInt(p.x)}, OutToken: denoms[p.out]})
		l = append(l, hx.Tuple(fmt.Sprint(p.in), hx.Z(p.x), fmt.Sprint(p.out)))
		js = append(js, fmt.Sprintf("%d%s->%s", p.x, denoms[p.in], denoms[p.out]))
	}
	return h.run(fmt.Sprintf("OSwap %d %d %s", h.now, a, hx.List(l)), "swap",
		map[string]interface{}{"time": h.now, "holder": a, "pairs": js},
		func(ctx sdk.Context) error { _, err := msgServer.BasketTokenSwap(sdk.WrapSDKContext(ctx), msg); return err })
}
func (h *hist) edit(nb types.Basket) bool {
	nb.Id, nb.Suffix = 1, SUFFIX
	return h.run("OEdit "+basketCoq(nb), "edit", map[string]interface{}{"proposal": basketJSON(nb), "recorded_amount_before": h.cur.B.Amount.String()},
		func(ctx sdk.Context) error {
			return app.CustomGovKeeper.GetProposalRouter().ApplyProposal(ctx, 2, &types.ProposalEditBasket{Basket: nb}, sdk.ZeroDec())
		})
}
func (h *hist) disable(which int, allowed bool) bool {
	sender := holders[1]
	if allowed {
		sender = admin
	}
	return h.run(fmt.Sprintf("ODisable %d %s", which, hx.B(allowed)), "disable", map[string]interface{}{"which": which, "has_permission": allowed},
		func(ctx sdk.Context) error {
			var err error
			switch which {
			case 0:
				_, err = msgServer.DisableBasketDeposits(sdk.WrapSDKContext(ctx), &types.MsgDisableBasketDeposits{Sender: sender.String(), BasketId: 1, Disabled: true})
			case 1:
				_, err = msgServer.DisableBasketWithdraws(sdk.WrapSDKContext(ctx), &types.MsgDisableBasketWithdraws{Sender: sender.String(), BasketId: 1, Disabled: true})
			default:
				_, err = msgServer.DisableBasketSwaps(sdk.WrapSDKContext(ctx), &types.MsgDisableBasketSwaps{Sender: sender.String(), BasketId: 1, Disabled: true})
			}
			return err
		})
}

// upsertKills: the pool-upsert hook replaces the record of basket 1 (probed); such a history ends there
var upsertKills = true

// withdraw runs ProposalBasketWithdrawSurplus through the gov proposal router (the registered handler)
// with the basket ids as listed.  With rewardAmt > 0 staking rewards are first made pending for the
// basket module account in x/multistaking (and the fee collector funded), as the distributor does for
// a delegator: the handler claims them into the module account and forwards them to the receiver.
func (h *hist) withdraw(ids []uint64, target int, rewardAmt int64) bool {
	var l []string
	for _, id := range ids {
		l = append(l, fmt.Sprint(id))
	}
	if rewardAmt > 0 {
		cs := sdk.NewCoins(sdk.NewInt64Coin(denoms[4], rewardAmt))
		if err := app.BankKeeper.MintCoins(h.ctx, minttypes.ModuleName, cs); err != nil {
			panic(err)
		}
		if err := app.BankKeeper.SendCoinsFromModuleToModule(h.ctx, minttypes.ModuleName, authtypes.FeeCollectorName, cs); err != nil {
			panic(err)
		}
		app.MultiStakingKeeper.IncreaseDelegatorRewards(h.ctx, modAddr, cs)
		h.pending += rewardAmt
	}
	rw := "[]"
	if h.pending > 0 {
		rw = fmt.Sprintf("[(4, %d)]", h.pending)
	}
	ok := h.run(fmt.Sprintf("OWithdraw %s %d %s", hx.List(l), target, rw), "withdraw_surplus",
		map[string]interface{}{"basket_ids": ids, "target_holder": target, "pending_staking_rewards_of_module_xdd": h.pending},
		func(ctx sdk.Context) error {
			return app.CustomGovKeeper.GetProposalRouter().ApplyProposal(ctx, 3,
				&types.ProposalBasketWithdrawSurplus{BasketIds: ids, WithdrawTarget: holders[target-1].String()}, sdk.ZeroDec())
		})
	if ok {
		h.pending = 0
	}
	return ok
}

// genesis exports the basket module's genesis, wipes its store and imports it again (what a chain
// restarted from an export does to this module), through the module's real ExportGenesis / InitGenesis
func (h *hist) genesis() bool {
	return h.run("OGenesis", "genesis", nil, func(ctx sdk.Context) error {
		am := basket.NewAppModule(app.BasketKeeper, app.CustomGovKeeper)
		data := am.ExportGenesis(ctx, app.AppCodec())
		store := ctx.KVStore(app.GetKey(types.ModuleName))
		var keys [][]byte
		it := store.Iterator(nil, nil)
		for ; it.Valid(); it.Next() {
			keys = append(keys, append([]byte{}, it.Key()...))
		}
		it.Close()
		for _, k := range keys {
			store.Delete(k)
		}
		am.InitGenesis(ctx, app.AppCodec(), data)
		return nil
	})
}

// create runs the real ProposalCreateBasket handler
func (h *hist) create(nb types.Basket) bool {
	return h.run("OCreate "+basketCoq(nb), "create", map[string]interface{}{"proposal": basketJSON(nb), "suffix": nb.Suffix},
		func(ctx sdk.Context) error {
			return app.CustomGovKeeper.GetProposalRouter().ApplyProposal(ctx, 4, &types.ProposalCreateBasket{Basket: nb}, sdk.ZeroDec())
		})
}

var idPool = [][]uint64{{1}, {2}, {1, 2}, {2, 1}, {1, 1}, {2, 2}, {2, 1, 2}, {1, 2, 1, 2}, {}, {3}, {1, 3}, {2, 7, 2}, {0}, {3, 3}, {2, 2, 2}}

func (h *hist) genWithdraw(r *hx.Rng) {
	ids := idPool[r.Intn(len(idPool))]
	if r.Chance(25) { // arbitrary list with repetitions over the existing and a few unknown ids
		ids = nil
		for i := 0; i < r.Intn(5); i++ {
			ids = append(ids, uint64(r.Intn(len(h.cur.Sibs)+3)))
		}
	}
	rw := int64(0)
	if r.Chance(30) {
		rw = r.Range(1, 5000)
	}
	h.withdraw(ids, 1+r.Intn(NH), rw)
}
func (h *hist) genCreate(r *hx.Rng) {
	nb := genConfig(r)
	nb.Suffix = fmt.Sprintf("c%d", len(h.cur.Sibs)+2)
	switch r.Intn(8) {
	case 0:
		nb.Tokens = nil
	case 1:
		nb.Tokens = append(nb.Tokens, nb.Tokens[0]) // repeated denomination
	case 2:
		nb.Tokens[0].Weight = sdk.ZeroDec()
	case 3:
		nb.Tokens[0].Amount = sdk.NewInt(r.Range(1, 100000)) // must be ignored
		nb.Surplus = []sdk.Coin{sdk.NewInt64Coin(denoms[1], 55)}
	case 4:
		nb.Amount = sdk.NewInt(r.Range(1, 100000)) // a recorded amount in the proposal of a basket whose token does not exist yet
	}
	h.create(nb)
}

var valAddr = sdk.ValAddress([]byte("c11validator________"))

func (h *hist) hook(kind int, slash sdk.Dec) bool {
	pool := multistakingtypes.StakingPool{Id: 1, Validator: valAddr.String(), Enabled: true}
	switch kind {
	case 0:
		return h.run("OSlashHook", "slash_hook", map[string]interface{}{"slash": slash.String()}, func(ctx sdk.Context) error {
			app.BasketKeeper.Hooks().AfterSlashStakingPool(ctx, valAddr, pool, slash)
			return nil
		})
	case 1:
		return h.run("ORaiseHook", "raise_hook", nil, func(ctx sdk.Context) error {
			app.BasketKeeper.Hooks().AfterSlashProposalRaise(ctx, valAddr, pool)
			return nil
		})
	default:
		ok := h.run("OUpsertHook true", "upsert_hook", map[string]interface{}{"note": "MsgUpsertStakingPool calls this hook; ukex and ubtc are stake-enabled in the genesis"}, func(ctx sdk.Context) error {
			app.BasketKeeper.Hooks().AfterUpsertStakingPool(ctx, valAddr, pool)
			return nil
		})
		h.dead = upsertKills
		return ok
	}
}
func (h *hist) endBlock() bool {
	return h.run(fmt.Sprintf("OEndBlock %d", h.now), "end_block", map[string]interface{}{"time": h.now}, func(ctx sdk.Context) error {
		basket.EndBlocker(ctx, app.BasketKeeper)
		return nil
	})
}

// ---------------------------------------------------------------- generators
// weights span tokens of different decimals (a unit of one token worth 10^6 units of another)
var weightPool = []string{"1", "1", "2", "0.5", "10", "0.1", "1.5", "0.333333333333333333", "3.7", "0.25", "0.000001", "1000000", "0.000000000001"}
var feePool = []string{"0", "0", "0.01", "0.003", "0.1", "0.5", "1"}
var slipPool = []string{"0", "0", "0.01", "0.05", "0.001", "0.3"}
var capPool = []string{"1", "1", "1", "1", "1", "0.9", "0.8", "0.7", "0.6", "0.51", "0.5", "0", "2", "1.5"}
var periodPool = []uint64{1, 10, 100, 3600, 86400}
var minPool = []int64{0, 1, 1, 1, 10, 100}
var maxPool = []int64{60000, 20000000, 1000000000, 1000000000000, 1000000000000}

func pick(r *hx.Rng, xs []string) sdk.Dec { return dec(xs[r.Intn(len(xs))]) }

func genConfig(r *hx.Rng) types.Basket {
	n := 2 + r.Intn(2)
	ids := []int{1, 2, 3}
	for i := len(ids) - 1; i > 0; i-- { // shuffle: the record's order is not the denominations' order
		j := r.Intn(i + 1)
		ids[i], ids[j] = ids[j], ids[i]
	}
	b := types.Basket{Id: 1, Suffix: SUFFIX, Description: "c11", Amount: sdk.ZeroInt(), SwapFee: pick(r, feePool), SlipppageFeeMin: pick(r, slipPool),
		TokensCap: pick(r, capPool), LimitsPeriod: periodPool[r.Intn(len(periodPool))],
		MintsMin: sdk.NewInt(minPool[r.Intn(len(minPool))]), MintsMax: sdk.NewInt(maxPool[r.Intn(len(maxPool))]),
		BurnsMin: sdk.NewInt(minPool[r.Intn(len(minPool))]), BurnsMax: sdk.NewInt(maxPool[r.Intn(len(maxPool))]),
		SwapsMin: sdk.NewInt(minPool[r.Intn(len(minPool))]), SwapsMax: sdk.NewInt(maxPool[r.Intn(len(maxPool))]),
		MintsDisabled: r.Chance(2), BurnsDisabled: r.Chance(2), SwapsDisabled: r.Chance(2), Surplus: []sdk.Coin{}}
	for _, id := range ids[:n] {
		b.Tokens = append(b.Tokens, types.BasketToken{Denom: denoms[id], Weight: pick(r, weightPool), Amount: sdk.ZeroInt(),
			Deposits: !r.Chance(6), Withdraws: !r.Chance(6), Swaps: !r.Chance(6)})
	}
	return b
}

func genFunds(r *hx.Rng) [][]int64 {
	f := make([][]int64, NH)
	for h := range f {
		f[h] = make([]int64, ND)
		for d := 1; d < ND; d++ {
			switch r.Intn(6) {
			case 0:
				f[h][d] = 0
			case 1:
				f[h][d] = r.Range(1, 2000)
			default:
				f[h][d] = r.Range(10000, 20000000)
			}
		}
	}
	return f
}

func (h *hist) bal(a, d int) int64 { return h.cur.Bals[a][d].Int64() }

func (h *hist) tokenIDs() []int {
	var ids []int
	for _, t := range h.cur.B.Tokens {
		ids = append(ids, denomID(t.Denom))
	}
	return ids
}
func (h *hist) weight(d int) sdk.Dec {
	for _, t := range h.cur.B.Tokens {
		if denomID(t.Denom) == d {
			return t.Weight
		}
	}
	return sdk.OneDec()
}

func (h *hist) genMint(r *hx.Rng) {
	a := 1 + r.Intn(NH)
	ids := h.tokenIDs()
	for try := 0; try < 4; try++ { // prefer a holder who owns the underlying tokens
		okAll := true
		for _, d := range ids {
			if h.bal(a, d) < 100 {
				okAll = false
			}
		}
		if okAll {
			break
		}
		a = 1 + r.Intn(NH)
	}
	tight := h.cur.B.TokensCap.LT(sdk.OneDec())
	sort.Ints(ids)
	var ds []int
	var xs []int64
	// a value to deposit per token, balanced across the tokens so that caps can be met
	base := r.Range(1, 3000000)
	if r.Chance(25) {
		base = r.Range(1, 300)
	}
	if mx := h.cur.B.MintsMax.Int64() / int64(len(ids)+1); base > mx && !r.Chance(10) {
		base = r.Range(1, mx+1)
	}
	for _, t := range h.cur.B.Tokens {
		if !t.Deposits && !r.Chance(12) {
			ids = removeInt(ids, denomID(t.Denom))
		}
	}
	for _, d := range ids {
		if len(ids) > 1 && r.Chance(15) && !tight {
			continue
		}
		w := h.weight(d)
		jit := r.Range(70, 130)
		if tight {
			jit = r.Range(97, 103)
		}
		x := capI64(sdk.NewDec(base).Quo(w).MulInt64(jit).QuoInt64(100))
		if x < 1 {
			x = 1
		}
		if bal := h.bal(a, d); x > bal && !r.Chance(8) {
			x = bal
		}
		if x <= 0 && !r.Chance(4) {
			continue
		}
		ds, xs = append(ds, d), append(xs, x)
	}
	switch r.Intn(40) { // malformed stream
	case 0:
		ds, xs = append(ds, 4), append(xs, r.Range(1, 1000)) // a denomination outside the basket
	case 1:
		if len(xs) > 0 {
			xs[0] = 0
		}
	case 2:
		if len(ds) > 1 {
			ds[0], ds[1] = ds[1], ds[0] // unsorted
		}
	case 3:
		if len(ds) > 0 {
			ds, xs = append(ds, ds[len(ds)-1]), append(xs, 5) // duplicate
		}
	case 4:
		if len(xs) > 0 {
			xs[0] = -xs[0]
		}
	case 5:
		ds, xs = nil, nil
	}
	h.mint(a, ds, xs)
}

func (h *hist) genBurn(r *hx.Rng) {
	// prefer holders that own basket tokens
	var owners []int
	for a := 1; a <= NH; a++ {
		if h.bal(a, 0) > 0 {
			owners = append(owners, a)
		}
	}
	a := 1 + r.Intn(NH)
	if len(owners) > 0 && !r.Chance(7) {
		a = owners[r.Intn(len(owners))]
	}
	own, supply := h.bal(a, 0), h.cur.Supply.Int64()
	var x int64
	switch r.Intn(12) {
	case 0:
		x = own
	case 1:
		x = own / 2
	case 2:
		x = supply / 2 // the portion computed after the burn is then exactly 1
	case 3:
		x = supply / 3
	case 4:
		x = 1
	case 5:
		x = own + r.Range(0, 5) // may exceed the balance
	case 6:
		x = supply
	default:
		x = r.Range(0, own)
	}
	d := 0
	switch r.Intn(40) {
	case 0:
		d = 1 + r.Intn(4) // not the basket denomination
	case 1:
		x = 0
	case 2:
		x = -x
	}
	if x > own && !r.Chance(15) {
		x = own
	}
	if mn := h.cur.B.BurnsMin.Int64(); x >= 0 && x < mn && own >= mn && !r.Chance(10) {
		x = mn
	}
	h.burn(a, d, x)
}

func (h *hist) genSwap(r *hx.Rng) {
	a := 1 + r.Intn(NH)
	ids := h.tokenIDs()
	if len(ids) == 0 {
		ids = []int{1, 2}
	}
	n := 1
	if r.Chance(30) {
		n = 2
	}
	if r.Chance(3) {
		n = 0
	}
	var ps []pair
	for i := 0; i < n; i++ {
		in := ids[r.Intn(len(ids))]
		out := ids[r.Intn(len(ids))]
		if out == in && !r.Chance(10) {
			out = ids[(r.Intn(len(ids)-1)+1+indexOf(ids, in))%len(ids)]
		}
		for try := 0; try < 4 && h.bal(a, in) == 0; try++ {
			a = 1 + r.Intn(NH)
		}
		// swap a small part of the reserve so that the out side can pay
		lim := h.bal(a, in)
		for _, t := range h.cur.B.Tokens {
			if denomID(t.Denom) == out && !r.Chance(8) {
				canPay := capI64(sdk.NewDecFromInt(t.Amount).Mul(t.Weight).Quo(h.weight(in)).QuoInt64(2))
				if canPay < lim {
					lim = canPay
				}
			}
		}
		var x int64
		switch r.Intn(5) {
		case 0:
			x = r.Range(1, 50)
		case 1:
			x = r.Range(1, lim+1)
		default:
			x = r.Range(1, lim/20+1)
		}
		if r.Chance(22) { // sweep the out amount around and beyond the basket's reserve of the out token
			for _, t := range h.cur.B.Tokens {
				if denomID(t.Denom) == out {
					res := t.Amount.Int64()
					want := res + []int64{-1, 0, 1, 2, res/10 + 5, 9 * res}[r.Intn(6)]
					keep := sdk.OneDec().Sub(h.cur.B.SwapFee)
					if want > 0 && keep.IsPositive() {
						x = capI64(sdk.NewDec(want).Mul(t.Weight).Quo(h.weight(in)).Quo(keep)) + r.Range(0, 1)
					}
				}
			}
			for try := 0; try < 4 && h.bal(a, in) < x; try++ {
				a = 1 + r.Intn(NH)
			}
		}
		switch r.Intn(40) {
		case 0:
			in = 4
		case 1:
			out = 4
		case 2:
			x = 0
		case 3:
			x = lim + 1
		}
		ps = append(ps, pair{in, x, out})
	}
	h.swap(a, ps)
}
func removeInt(xs []int, v int) []int {
	var ys []int
	for _, x := range xs {
		if x != v {
			ys = append(ys, x)
		}
	}
	return ys
}
func indexOf(xs []int, v int) int {
	for i, x := range xs {
		if x == v {
			return i
		}
	}
	return 0
}

func (h *hist) genEdit(r *hx.Rng) {
	nb := h.cur.B
	nb.Tokens = append([]types.BasketToken{}, h.cur.B.Tokens...)
	nb.Surplus = []sdk.Coin{}
	// the proposal names a recorded amount: the stored one, zero (what a proposer who only wants to
	// change a fee writes), or something else
	switch r.Intn(10) {
	case 0, 1, 2:
		nb.Amount = sdk.ZeroInt()
	case 3:
		nb.Amount = sdk.NewInt(r.Range(0, 5000000))
	}
	for i := range nb.Tokens {
		switch r.Intn(6) {
		case 0:
			nb.Tokens[i].Weight = pick(r, weightPool)
		case 1: // a little lower: allowed only while the supply stays covered
			nb.Tokens[i].Weight = nb.Tokens[i].Weight.Mul(dec("0.97"))
		case 2:
			nb.Tokens[i].Weight = nb.Tokens[i].Weight.Mul(dec("1.2"))
		}
		if r.Chance(10) {
			nb.Tokens[i].Deposits = !nb.Tokens[i].Deposits
		}
		if r.Chance(10) {
			nb.Tokens[i].Withdraws = !nb.Tokens[i].Withdraws
		}
		if r.Chance(10) {
			nb.Tokens[i].Swaps = !nb.Tokens[i].Swaps
		}
		if r.Chance(20) {
			nb.Tokens[i].Amount = sdk.NewInt(r.Range(0, 1000000)) // must be ignored
		} else {
			nb.Tokens[i].Amount = sdk.ZeroInt()
		}
	}
	switch r.Intn(14) {
	case 0:
		nb.SwapFee = pick(r, feePool)
	case 1:
		nb.SlipppageFeeMin = pick(r, slipPool)
	case 2:
		nb.TokensCap = pick(r, capPool)
	case 3:
		nb.LimitsPeriod = periodPool[r.Intn(len(periodPool))]
	case 4:
		nb.MintsMax = sdk.NewInt(maxPool[r.Intn(len(maxPool))])
		nb.BurnsMax = sdk.NewInt(maxPool[r.Intn(len(maxPool))])
	case 5:
		nb.MintsDisabled, nb.BurnsDisabled, nb.SwapsDisabled = false, false, false
	case 6: // a further token (or a duplicate of an existing one)
		nb.Tokens = append(nb.Tokens, types.BasketToken{Denom: denoms[1+r.Intn(4)], Weight: pick(r, weightPool), Amount: sdk.ZeroInt(), Deposits: true, Withdraws: true, Swaps: true})
	case 7: // drop a token
		if len(nb.Tokens) > 0 {
			nb.Tokens = nb.Tokens[:len(nb.Tokens)-1]
		}
	case 8:
		if len(nb.Tokens) > 0 {
			nb.Tokens[0].Weight = sdk.ZeroDec()
		}
	case 9:
		nb.Surplus = []sdk.Coin{sdk.NewInt64Coin(denoms[1], 777)} // must be ignored
	}
	h.edit(nb)
}

// advance moves the block time: often not at all (several messages in one block), by a few
// nanoseconds, by seconds with a sub-second part, by half a period, by exactly one period, or by a
// period plus / minus a nanosecond
func (h *hist) advance(r *hx.Rng) {
	P := int64(h.cur.B.LimitsPeriod) * NS
	switch r.Intn(12) {
	case 0, 1, 2, 3:
	case 4:
		h.now += r.Range(1, 999)
	case 5, 6, 7:
		h.now += r.Range(1, 5)*NS + r.Range(0, NS-1)
	case 8:
		h.now += P/2 + r.Range(0, 3)
	case 9:
		h.now += P
	case 10:
		h.now += P + []int64{-1, 1}[r.Intn(2)]
	default:
		h.now += P + r.Range(0, 3*NS)
	}
}

func genHistory(r *hx.Rng, dist hx.Counter) *hist {
	h := startHist("random", genConfig(r), genFunds(r), dist)
	h.now += r.Range(0, NS-1)
	n := 10 + r.Intn(18)
	// start with a few mints by different holders so that burns and swaps have something to act on
	for i := 0; i < 2+r.Intn(2); i++ {
		h.genMint(r)
	}
	for i := 0; i < n && !h.dead; i++ {
		h.advance(r)
		switch k := r.Intn(100); {
		case k < 25:
			h.genMint(r)
		case k < 55:
			if h.cur.Supply.IsPositive() || r.Chance(8) {
				h.genBurn(r)
			} else {
				h.genMint(r)
			}
		case k < 78:
			if h.cur.Supply.IsPositive() || r.Chance(10) {
				h.genSwap(r)
			} else {
				h.genMint(r)
			}
		case k < 85:
			h.genEdit(r)
		case k < 87:
			h.disable(r.Intn(3), r.Chance(60))
		case k < 88:
			h.genWithdraw(r)
		case k < 91:
			h.hook(0, pick(r, []string{"0.1", "0.5", "0.01", "1"}))
		case k < 93:
			h.hook(1, sdk.ZeroDec())
		case k < 95:
			h.endBlock()
		case k < 96:
			h.genesis()
		case k < 98:
			if r.Chance(70) {
				h.genWithdraw(r)
			} else {
				h.genCreate(r)
			}
		default:
			if i > n/2 {
				h.hook(2, sdk.ZeroDec())
			}
		}
	}
	return h
}

// per-period limits at the edges of the window and inside one block: several holders act at the SAME
// block time (which has a sub-second part), operations exactly one period apart (the entry at
// now-period still counts), one nanosecond later (it no longer does), sums just below / at / above
// the maximum
func genWindowHistory(r *hx.Rng, dist hx.Counter) *hist {
	cfg := plainConfig("1", "2")
	cfg.SwapFee, cfg.SlipppageFeeMin = sdk.ZeroDec(), sdk.ZeroDec()
	P := []int64{1, 10, 100, 3600}[r.Intn(4)]
	cfg.LimitsPeriod = uint64(P)
	P *= NS
	m := r.Range(1000, 5000)
	cfg.MintsMax, cfg.BurnsMax, cfg.SwapsMax = sdk.NewInt(3*m), sdk.NewInt(m+m/2), sdk.NewInt(m)
	h := startHist("window", cfg, plainFunds(), dist)
	h.now += r.Range(0, NS-1)
	edge := func() int64 { return []int64{-1, 0, 0, 1}[r.Intn(4)] }
	// mints: two holders m each in ONE block, a third m+edge in the same block (sum 3m+edge against 3m)
	h.mint(1, []int{1, 2}, []int64{m / 2, m / 4})
	h.mint(3, []int{1, 2}, []int64{m / 2, m / 4})
	x := m + edge()
	h.mint(2, []int{1}, []int64{x})
	// exactly one period later the whole block still counts, one nanosecond after that it does not
	h.now += P
	h.mint(2, []int{1}, []int64{x})
	h.now++
	h.mint(2, []int{1}, []int64{x})
	h.mint(4, []int{1}, []int64{2*m + edge()})
	// burns by three holders in one block: m/2, m/2, m/2+edge (1.5m+edge against 1.5m), then the window edge
	h.now += 2*P + 2
	h.burn(1, 0, m/2)
	h.burn(3, 0, m/2)
	h.burn(2, 0, m/2+edge())
	h.now += P
	h.burn(2, 0, m/2+edge())
	h.now++
	h.burn(2, 0, m/2+edge())
	// swaps: two messages in one block and two pairs in one message, total m+edge against m
	h.now += 2*P + 2
	h.swap(3, []pair{{1, m / 2, 2}})
	h.swap(4, []pair{{2, (m/2 + edge()) / 2, 1}})
	h.now += 2*P + 2
	h.swap(3, []pair{{1, m / 2, 2}, {2, (m/2 + edge()) / 2, 1}})
	h.now += P
	h.swap(3, []pair{{1, edge() + 1, 2}})
	h.now++
	h.swap(3, []pair{{1, m/2 + edge(), 2}})
	if r.Bool() {
		h.endBlock()
		h.mint(3, []int{1, 2}, []int64{m, m / 2})
	}
	return h
}

// blocks: random configuration with maxima a few actions wide; each block (one block time with a
// random sub-second part) carries several actions of one kind by different holders; consecutive
// blocks lie a few nanoseconds, some seconds, or exactly one period apart
func genBlockHistory(r *hx.Rng, dist hx.Counter) *hist {
	cfg := plainConfig(weightPool[r.Intn(len(weightPool))], weightPool[r.Intn(len(weightPool))])
	cfg.SwapFee, cfg.SlipppageFeeMin = pick(r, feePool[:5]), sdk.ZeroDec()
	P := []int64{1, 5, 60}[r.Intn(3)]
	cfg.LimitsPeriod = uint64(P)
	P *= NS
	m := r.Range(2000, 200000)
	cfg.MintsMax, cfg.BurnsMax, cfg.SwapsMax = sdk.NewInt(m*r.Range(2, 4)), sdk.NewInt(m*r.Range(1, 3)), sdk.NewInt(m*r.Range(1, 3)/2)
	funds := plainFunds()
	h := startHist("blocks", cfg, funds, dist)
	h.now += r.Range(0, NS-1)
	amt := func(lim sdk.Int) int64 { return lim.Int64() * r.Range(20, 60) / 100 }
	for blk := 0; blk < 5+r.Intn(4); blk++ {
		kind := r.Intn(3)
		if blk == 0 {
			kind = 0
		}
		for i := 0; i < 2+r.Intn(3); i++ {
			a := 1 + (blk+i)%NH
			switch kind {
			case 0:
				v := amt(cfg.MintsMax)
				w1, w2 := h.weight(1), h.weight(2)
				h.mint(a, []int{1, 2}, []int64{capI64(sdk.NewDec(v / 2).Quo(w1)) + 1, capI64(sdk.NewDec(v / 2).Quo(w2)) + 1})
			case 1:
				x := amt(cfg.BurnsMax)
				if own := h.bal(a, 0); x > own {
					x = own
				}
				h.burn(a, 0, x)
			default:
				v := amt(cfg.SwapsMax)
				in, out := 1+i%2, 2-i%2
				x := capI64(sdk.NewDec(v).Quo(h.weight(in))) + 1
				if r.Chance(30) {
					h.swap(a, []pair{{in, x / 2, out}, {out, capI64(sdk.NewDec(v / 2).Quo(h.weight(out))) + 1, in}})
				} else {
					h.swap(a, []pair{{in, x, out}})
				}
			}
		}
		switch r.Intn(5) {
		case 0:
			h.now += r.Range(1, 50)
		case 1:
			h.now += P
		case 2:
			h.now += P + 1
		case 3:
			h.now += r.Range(1, 3)*NS + r.Range(0, NS-1)
		default:
			h.now += P / 2
		}
		if r.Chance(20) {
			h.endBlock()
		}
		if r.Chance(25) { // limits and period changed by proposal between blocks, up and down across the running totals
			nb := h.cur.B
			nb.Tokens = append([]types.BasketToken{}, h.cur.B.Tokens...)
			nb.Surplus = []sdk.Coin{}
			f := []int64{1, 2, 4, 8}[r.Intn(4)]
			if r.Bool() {
				nb.MintsMax, nb.BurnsMax, nb.SwapsMax = nb.MintsMax.MulRaw(f), nb.BurnsMax.MulRaw(f), nb.SwapsMax.MulRaw(f)
			} else {
				nb.MintsMax, nb.BurnsMax, nb.SwapsMax = nb.MintsMax.QuoRaw(f), nb.BurnsMax.QuoRaw(f), nb.SwapsMax.QuoRaw(f)
			}
			if r.Chance(40) {
				nb.LimitsPeriod = []uint64{1, 2, 5, 60, 120}[r.Intn(5)]
				P = int64(nb.LimitsPeriod) * NS
			}
			h.edit(nb)
			cfg = h.cur.B
		}
		if r.Chance(8) {
			h.genesis()
		}
	}
	return h
}

// plain configuration used by the fixed scenarios and the probes
func plainConfig(weights ...string) types.Basket {
	big := sdk.NewInt(1000000000000)
	b := types.Basket{Id: 1, Suffix: SUFFIX, Description: "c11", Amount: sdk.ZeroInt(), SwapFee: dec("0.01"), SlipppageFeeMin: dec("0.01"),
		TokensCap: dec("1"), LimitsPeriod: 3600, MintsMin: sdk.OneInt(), MintsMax: big, BurnsMin: sdk.OneInt(), BurnsMax: big,
		SwapsMin: sdk.OneInt(), SwapsMax: big, Surplus: []sdk.Coin{}}
	for i, w := range weights {
		b.Tokens = append(b.Tokens, types.BasketToken{Denom: denoms[1+i], Weight: dec(w), Amount: sdk.ZeroInt(), Deposits: true, Withdraws: true, Swaps: true})
	}
	return b
}
func plainFunds() [][]int64 {
	f := make([][]int64, NH)
	for h := range f {
		f[h] = []int64{0, 1000000, 1000000, 1000000, 1000000}
	}
	return f
}

// the scenarios named in DESIGN.md / found while reading; always part of the run
func scenarios(dist hx.Counter) []*hist {
	var hs []*hist
	// two holders 50/50, the first burns his half
	h := startHist("scenario:two_holders_first_burns_half", plainConfig("1", "2"), plainFunds(), dist)
	h.mint(1, []int{1, 2}, []int64{1000, 500})
	h.mint(2, []int{1, 2}, []int64{1000, 500})
	h.burn(1, 0, 2000)
	h.burn(2, 0, 2000)
	hs = append(hs, h)
	// a single holder burns the whole supply
	h = startHist("scenario:burn_whole_supply", plainConfig("1"), plainFunds(), dist)
	h.mint(1, []int{1}, []int64{5000})
	h.burn(1, 0, 5000)
	hs = append(hs, h)
	// three holders, one burns a third, then a tenth
	h = startHist("scenario:three_holders_burn_third", plainConfig("1", "0.5", "3.7"), plainFunds(), dist)
	h.mint(1, []int{1, 2, 3}, []int64{3000, 6000, 1000})
	h.mint(2, []int{1, 2, 3}, []int64{3000, 6000, 1000})
	h.mint(3, []int{1, 2, 3}, []int64{3000, 6000, 1000})
	h.burn(3, 0, h.cur.Supply.Int64()/3)
	h.swap(1, []pair{{1, 500, 2}, {2, 100, 3}})
	h.burn(2, 0, h.cur.Supply.Int64()/10)
	hs = append(hs, h)
	// an edit proposal that only changes the fee and leaves the amount field at zero
	h = startHist("scenario:edit_with_zero_amount_field", plainConfig("1", "1"), plainFunds(), dist)
	h.mint(1, []int{1, 2}, []int64{4000, 4000})
	nb := h.cur.B
	nb.Amount = sdk.ZeroInt()
	nb.SwapFee = dec("0.02")
	h.edit(nb)
	h.mint(2, []int{1, 2}, []int64{100, 100})
	hs = append(hs, h)
	// any swap on a basket without reserves (AverageDisbalance divides by the zero average)
	h = startHist("scenario:swap_on_basket_without_reserves", plainConfig("1", "2"), plainFunds(), dist)
	h.swap(1, []pair{{1, 100, 2}})
	h.swap(2, nil)
	h.mint(1, []int{1, 2}, []int64{1000, 500})
	h.swap(1, []pair{{1, 100, 2}})
	hs = append(hs, h)
	// surplus withdrawal proposals listing baskets repeatedly, in both orders, unknown ids, no ids
	h = startHist("scenario:withdraw_surplus_repeated_ids", plainConfig("1", "2"), plainFunds(), dist)
	h.mint(1, []int{1, 2}, []int64{20000, 10000})
	h.swap(2, []pair{{1, 3000, 2}})
	h.withdraw([]uint64{2, 1, 2, 1}, 3, 0)
	h.swap(2, []pair{{2, 1000, 1}})
	h.withdraw([]uint64{1, 3}, 3, 250)
	h.withdraw([]uint64{}, 3, 0)
	h.withdraw([]uint64{1, 1}, 4, 100)
	h.burn(1, 0, 1000)
	c3 := plainConfig("0.5", "1", "3.7")
	c3.Suffix = "c3"
	h.create(c3)
	h.withdraw([]uint64{3, 2, 3}, 1, 0)
	h.genesis()
	h.mint(2, []int{1, 2}, []int64{500, 250})
	h.withdraw([]uint64{1, 2, 3}, 2, 0)
	hs = append(hs, h)
	// genesis export/import between two blocks of one second: the action history is exported with whole
	// seconds and imported with Set, so the entries of that second collapse into the last one
	gc := plainConfig("1", "2")
	gc.LimitsPeriod, gc.MintsMax, gc.BurnsMax, gc.SwapsMax = 60, sdk.NewInt(3000), sdk.NewInt(1500), sdk.NewInt(1000)
	gc.SwapFee, gc.SlipppageFeeMin = sdk.ZeroDec(), sdk.ZeroDec()
	h = startHist("scenario:genesis_round_trip_collapses_limit_history", gc, plainFunds(), dist)
	h.mint(1, []int{1, 2}, []int64{500, 250})
	h.now += 100
	h.mint(2, []int{1, 2}, []int64{500, 250})
	h.burn(1, 0, 700)
	h.swap(3, []pair{{1, 400, 2}})
	h.now += 100
	h.burn(2, 0, 700)
	h.swap(3, []pair{{1, 500, 2}})
	h.genesis()
	h.now += 100
	h.mint(3, []int{1, 2}, []int64{750, 375})
	h.burn(2, 0, 200)
	h.swap(3, []pair{{1, 300, 2}})
	hs = append(hs, h)
	// three tokens; swaps whose out amount is the reserve -1 / exactly / +1 / far beyond, while basket 2 holds the same denomination
	for _, capS := range []string{"1", "2", "0.5"} {
		c3t := plainConfig("1", "1", "1")
		c3t.SwapFee, c3t.SlipppageFeeMin, c3t.TokensCap = sdk.ZeroDec(), sdk.ZeroDec(), dec(capS)
		h = startHist("scenario:swap_out_beyond_reserve_cap_"+capS, c3t, plainFunds(), dist)
		h.mint(1, []int{1, 2, 3}, []int64{1000, 1000, 1000})
		h.swap(2, []pair{{3, 999, 1}})
		h.swap(2, []pair{{3, 1, 1}})
		h.swap(3, []pair{{3, 1, 1}})
		h.swap(3, []pair{{3, 1100, 2}})
		h.swap(4, []pair{{3, 20000, 2}})
		h.swap(4, []pair{{1, 500, 3}, {2, 700, 3}})
		hs = append(hs, h)
	}
	// a create proposal whose basket carries a recorded amount
	h = startHist("scenario:create_with_amount_field", plainConfig("1", "2"), plainFunds(), dist)
	c4 := plainConfig("2", "1")
	c4.Suffix, c4.Amount = "c3", sdk.NewInt(777)
	h.create(c4)
	h.mint(1, []int{1, 2}, []int64{1000, 500})
	hs = append(hs, h)
	// a validator upserts its staking pool
	h = startHist("scenario:upsert_staking_pool_hook", plainConfig("1", "1"), plainFunds(), dist)
	h.mint(1, []int{1, 2}, []int64{4000, 4000})
	h.hook(2, sdk.ZeroDec())
	hs = append(hs, h)
	return hs
}

// which variant of the two repaired places does this tree implement?
func probe() (burnPre, editKeep, upsertSkip, createZero bool) {
	d := hx.Counter{}
	h := startHist("probe", plainConfig("1"), plainFunds(), d)
	h.mint(1, []int{1}, []int64{1000})
	h.mint(2, []int{1}, []int64{1000})
	before := h.bal(1, 1)
	h.burn(1, 0, 1000)
	burnPre = h.bal(1, 1)-before == 1000
	h = startHist("probe", plainConfig("1"), plainFunds(), d)
	h.mint(1, []int{1}, []int64{1000})
	nb := h.cur.B
	nb.Amount = sdk.ZeroInt()
	h.edit(nb)
	editKeep = h.cur.B.Amount.Equal(sdk.NewInt(1000))
	h = startHist("probe", plainConfig("1"), plainFunds(), d)
	h.mint(1, []int{1}, []int64{1000})
	h.hook(2, sdk.ZeroDec())
	upsertSkip = h.cur.B.Amount.Equal(sdk.NewInt(1000)) && len(h.cur.B.Tokens) == 1
	h = startHist("probe", plainConfig("1"), plainFunds(), d)
	c3 := plainConfig("1")
	c3.Suffix, c3.Amount = "c3", sdk.NewInt(777)
	h.create(c3)
	createZero = len(h.cur.Sibs) == 2 && h.cur.Sibs[1].B.Amount.IsZero()
	return
}

func main() {
	outDir := flag.String("out", ".", "output directory")
	n := flag.Int("n", 300, "number of random histories")
	flag.Parse()
	out := hx.Out{Dir: *outDir}
	seed := hx.Seed()
	r := hx.NewRng(seed)

	app = hx.NewApp()
	modAddr = authtypes.NewModuleAddress(types.ModuleName)
	for i := 0; i < NH; i++ {
		holders = append(holders, sdk.AccAddress([]byte(fmt.Sprintf("c11holder_________%02d", i+1))))
	}
	admin = sdk.AccAddress([]byte("c11admin____________"))
	seeder = sdk.AccAddress([]byte("c11seeder___________"))
	msgServer = basketkeeper.NewMsgServerImpl(app.BasketKeeper, app.CustomGovKeeper)

	burnPre, editKeep, upsertSkip, createZero := probe()
	upsertKills = !upsertSkip
	dist := hx.Counter{}
	hs := scenarios(dist)
	for i := 0; i < *n; i++ {
		if i%12 == 5 {
			hs = append(hs, genWindowHistory(r.Fork(), dist))
		} else if i%12 == 9 {
			hs = append(hs, genBlockHistory(r.Fork(), dist))
		} else {
			hs = append(hs, genHistory(r.Fork(), dist))
		}
	}

	var lines []string
	var js []jcase
	steps := 0
	for _, h := range hs {
		lines = append(lines, h.coq())
		js = append(js, h.j)
		steps += len(h.steps)
	}
	pre := "(* written by /verif/harness/cmd/c11 -- observations of the real code *)\n" +
		"From Sekai Require Import Base.Prelude Base.Dec Model.Basket Model.C11Check.\n" +
		fmt.Sprintf("Definition c11_variant : variant := mkV %s %s %s %s.\n", hx.B(burnPre), hx.B(editKeep), hx.B(upsertSkip), hx.B(createZero))
	out.WriteFile("pre.v", pre)
	out.WriteFile("cases.txt", strings.Join(lines, "\n")+"\n")
	out.WriteJSON("meta.json", map[string]interface{}{"case_type": "c11_case", "mismatch_fn": "c11_mismatches c11_variant", "violation_fn": "c11_violations",
		"burn_reads_supply_before": burnPre, "edit_keeps_amount": editKeep, "upsert_hook_skips": upsertSkip, "create_stores_zero_amount": createZero})
	out.WriteJSON("cases.json", js)
	byKind := map[string]int{}
	for _, k := range dist.Sorted() {
		byKind[k] = dist[k]
	}
	out.WriteJSON("dist.json", map[string]interface{}{"seed": seed, "histories": len(hs), "steps": steps, "holders": NH, "ops_by_kind_and_status": byKind,
		"variant": map[string]bool{"burn_reads_supply_before": burnPre, "edit_keeps_amount": editKeep, "upsert_hook_skips": upsertSkip, "create_stores_zero_amount": createZero}})
	fmt.Fprintf(os.Stderr, "c11: %d histories, %d steps\n", len(hs), steps)
}
