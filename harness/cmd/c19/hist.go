// Histories on the real chain: the network properties are written by the real transaction path
// (ante chain -> router -> msg server) and by the real proposal life cycle (submit with its dry
// run, vote, EndBlocker tally and enactment), several writes in a row on one chain, with blocks
// and transactions in between that are no write path.
package main

import (
	"fmt"
	"strings"

	"verif/harness/abci"
	"verif/harness/hx"

	kiratypes "github.com/KiraCore/sekai/types"
	govtypes "github.com/KiraCore/sekai/x/gov/types"
	sdk "github.com/cosmos/cosmos-sdk/types"
	banktypes "github.com/cosmos/cosmos-sdk/x/bank/types"
)

type jstep struct {
	Kind      string `json:"kind"`
	Height    int64  `json:"height"`
	Signer    int    `json:"signer,omitempty"`
	Allowed   bool   `json:"allowed,omitempty"`
	Mutated   string `json:"mutated,omitempty"`
	Code      uint32 `json:"code,omitempty"`
	Value     uint64 `json:"value,omitempty"`
	Str       string `json:"str,omitempty"`
	Submitted bool   `json:"submitted,omitempty"`
	OK        bool   `json:"ok"`
	Log       string `json:"log,omitempty"`
	Changed   string `json:"changed,omitempty"`
}

type jhist struct {
	Kind    string   `json:"kind"`
	Seed    uint64   `json:"chain_seed"`
	Records []string `json:"identity_records"`
	Steps   []jstep  `json:"steps"`
	OK      bool     `json:"ok"`
}

const histValidators = 4

func short(s string) string {
	if len(s) > 160 {
		return s[:160]
	}
	return s
}

// feeFor: a fee the fee-range decorator accepts under the properties stored now (nil if there is none)
func feeFor(c *abci.Chain, msgs []sdk.Msg) sdk.Coins {
	ctx := rctx(c)
	k := c.App.CustomGovKeeper
	p := k.GetNetworkProperties(ctx)
	fee := p.MinTxFee
	exec := uint64(0)
	for _, m := range msgs {
		if f := k.GetExecutionFee(ctx, kiratypes.MsgType(m)); f != nil {
			mx := f.FailureFee
			if f.ExecutionFee > mx {
				mx = f.ExecutionFee
			}
			exec += mx
		}
	}
	if exec > fee {
		fee = exec
	}
	if fee > p.MaxTxFee || fee > 1<<50 {
		return nil
	}
	return sdk.NewCoins(sdk.NewCoin("ukex", sdk.NewIntFromUint64(fee)))
}

// runHistory returns the Coq term of one CHist case and its readable form
func runHistory(r *hx.Rng, chainSeed uint64, base *govtypes.NetworkProperties, nsteps int, addRecs func([]govtypes.IdentityRecord) int) (string, jhist) {
	c := abci.NewChain(abci.Config{Accounts: 6, Validators: histValidators, Seed: chainSeed})
	k := c.App.CustomGovKeeper
	jh := jhist{Kind: "history", Seed: chainSeed, OK: true}
	if start := k.GetNetworkProperties(rctx(c)); patchCoq(base, start) != "[]" {
		panic("c19 history: the chain's genesis record differs from the default record: " + patchCoq(base, start))
	}
	block := func(dt int64, f func()) {
		c.BeginBlock(abci.BlockReq{Dt: dt})
		if f != nil {
			f()
		}
		c.EndBlock()
	}
	tx := func(signer int, msgs ...sdk.Msg) abci.TxResult {
		fee := feeFor(c, msgs)
		if fee == nil {
			return abci.TxResult{Code: 1 << 29, Log: "no admissible fee"}
		}
		return c.Deliver(msgs, []int{signer}, fee)
	}
	// identity records (other module state the unique-keys guards read)
	if r.Chance(60) {
		pool := [][]govtypes.IdentityInfoEntry{
			{{Key: "moniker", Info: "alice"}, {Key: "twitter", Info: "same"}, {Key: "a_b", Info: "x"}},
			{{Key: "moniker", Info: "bob"}, {Key: "twitter", Info: "same"}, {Key: "c9", Info: "y"}},
			{{Key: "moniker", Info: "carol"}, {Key: "username", Info: "cc"}, {Key: "twitter", Info: "t3"}},
			{{Key: "twitter", Info: "other"}, {Key: "a_b", Info: "x"}},
		}
		block(5, func() {
			for a := 1; a <= 3; a++ {
				if r.Chance(70) {
					tx(a, govtypes.NewMsgRegisterIdentityRecords(c.Accounts[a].Addr, pool[r.Intn(len(pool))]))
				}
			}
		})
	}
	recs := k.GetAllIdentityRecords(rctx(c))
	for _, rec := range recs {
		jh.Records = append(jh.Records, rec.Key+"="+rec.Value)
	}
	rs := addRecs(recs)

	var steps []string
	abort := false
	cur := k.GetNetworkProperties(rctx(c))
	other := func(what string) { // the record must not have moved
		now := k.GetNetworkProperties(rctx(c))
		if d := patchCoq(cur, now); d != "[]" {
			steps = append(steps, fmt.Sprintf("HOther %s", patchCoq(base, now)))
			jh.Steps = append(jh.Steps, jstep{Kind: "other:" + what, Height: c.Height, OK: false, Changed: d})
			cur = now
		}
	}
	doMsg := func() {
		signer := 0
		if r.Chance(30) {
			signer = 1 + r.Intn(3)
		}
		nw, how := mutate(r, cur, 25)
		if nw.MinValidators > histValidators {
			nw.MinValidators = histValidators
		}
		// the request is what the transaction carries: a nil decimal does not survive the wire
		// (it arrives as 0), so the record is taken from the encoded message
		msg := govtypes.NewMsgSetNetworkProperties(c.Accounts[signer].Addr, clone(nw))
		var wire govtypes.MsgSetNetworkProperties
		if err := c.App.AppCodec().Unmarshal(c.App.AppCodec().MustMarshal(msg), &wire); err != nil {
			panic(err)
		}
		nw = wire.NetworkProperties
		var res abci.TxResult
		block(5, func() {
			res = tx(signer, msg)
		})
		now := k.GetNetworkProperties(rctx(c))
		ok := res.Code == 0
		if !ok && !reachedHandler(res) { // refused by the ante chain (fee range, ...): no write path was entered
			jh.Steps = append(jh.Steps, jstep{Kind: "msg-not-delivered", Height: c.Height, Signer: signer, Mutated: how, Log: short(res.Log)})
			other("refused transaction")
			return
		}
		steps = append(steps, fmt.Sprintf("HMsg %s %s %s %s", hx.B(signer == 0), patchCoq(base, nw), hx.B(ok), patchCoq(base, now)))
		jh.Steps = append(jh.Steps, jstep{Kind: "msg", Height: c.Height, Signer: signer, Allowed: signer == 0, Mutated: how, OK: ok, Log: short(res.Log), Changed: patchCoq(cur, now)})
		cur = now
	}
	doProp := func(interleave bool) {
		code := uint32(r.Intn(64))
		v := numValues[r.Intn(len(numValues))]
		s := strValues[r.Intn(len(strValues))]
		switch r.Intn(4) {
		case 0:
			v = uint64(r.Range(0, 40000000))
		case 1: // near the current value
			if g, err := k.GetNetworkProperty(rctx(c), govtypes.NetworkProperty(code)); err == nil {
				v, s = g.Value+uint64(r.Intn(3)), g.StrValue
			}
		case 2:
			s = fmt.Sprintf("0.%02d", r.Intn(60))
		}
		if govtypes.NetworkProperty(code) == govtypes.MinValidators && v > histValidators {
			v = histValidators
		}
		var sub abci.TxResult
		var pid uint64
		block(5, func() {
			msg, err := govtypes.NewMsgSubmitProposal(c.Accounts[0].Addr, "t", "d", govtypes.NewSetNetworkPropertyProposal(govtypes.NetworkProperty(code), govtypes.NetworkPropertyValue{Value: v, StrValue: s}))
			if err != nil {
				sub = abci.TxResult{Code: 1 << 28, Log: err.Error()}
				return
			}
			sub = tx(0, msg)
			if sub.Code == 0 {
				var resp govtypes.MsgSubmitProposalResponse
				pid = lastProposalID(c)
				_ = resp
				tx(0, govtypes.NewMsgVoteProposal(pid, c.Accounts[0].Addr, govtypes.OptionYes, sdk.ZeroDec()))
			}
		})
		js := jstep{Kind: "proposal", Height: c.Height, Code: code, Value: v, Str: s, Submitted: sub.Code == 0}
		if sub.Code != 0 && !reachedHandler(sub) {
			js.Kind, js.Log = "proposal-not-delivered", short(sub.Log)
			jh.Steps = append(jh.Steps, js)
			other("refused transaction")
			return
		}
		if sub.Code != 0 {
			now := k.GetNetworkProperties(rctx(c))
			steps = append(steps, fmt.Sprintf("HProp %d %s false false %s", code, hx.Pair(hx.ZU(v), hx.Str(s)), patchCoq(base, now)))
			js.Log = short(sub.Log)
			js.Changed = patchCoq(cur, now)
			jh.Steps = append(jh.Steps, js)
			cur = now
			return
		}
		other("submit+vote")
		if interleave { // a permitted message changes the record while the proposal is pending
			doMsg()
		}
		// run blocks until the proposal has been through tally and enactment
		done, ok := false, false
		for i := 0; i < 14 && !done; i++ {
			p, _ := k.GetProposal(rctx(c), pid)
			np := k.GetNetworkProperties(rctx(c))
			dt := int64(np.MinimumProposalEndTime)
			if e := int64(np.ProposalEnactmentTime); e > dt {
				dt = e
			}
			if dt > 100000 {
				dt = 100000
			}
			before := k.GetNetworkProperties(rctx(c))
			block(dt+7, nil)
			p, _ = k.GetProposal(rctx(c), pid)
			if p.Result != govtypes.Pending && p.Result != govtypes.Unknown && p.Result != govtypes.Enactment {
				done = true
				ok = p.Result == govtypes.Passed && p.ExecResult == "executed successfully"
				now := k.GetNetworkProperties(rctx(c))
				_ = before
				steps = append(steps, fmt.Sprintf("HProp %d %s true %s %s", code, hx.Pair(hx.ZU(v), hx.Str(s)), hx.B(ok), patchCoq(base, now)))
				js.OK, js.Height, js.Log = ok, c.Height, fmt.Sprintf("result=%s exec=%q", p.Result, p.ExecResult)
				js.Changed = patchCoq(cur, now)
				jh.Steps = append(jh.Steps, js)
				cur = now
			} else {
				other("waiting block")
			}
		}
		if !done {
			// it may still be enacted by a later block: the history ends here, so that no later step
			// is judged against a write that is still in flight
			js.Log = "proposal did not finish within the block budget (not judged; history ends)"
			jh.Steps = append(jh.Steps, js)
			other("unfinished proposal")
			abort = true
		}
	}
	for i := 0; i < nsteps && !abort; i++ {
		switch r.Intn(10) {
		case 0, 1, 2, 3:
			doMsg()
		case 4, 5, 6:
			doProp(false)
		case 7:
			doProp(true)
		default:
			block(int64(1+r.Intn(600)), func() {
				a, b := 1+r.Intn(5), 1+r.Intn(5)
				tx(a, banktypes.NewMsgSend(c.Accounts[a].Addr, c.Accounts[b].Addr, sdk.NewCoins(sdk.NewCoin("ukex", sdk.NewInt(int64(1+r.Intn(1000)))))))
			})
			other("bank send block")
		}
	}
	if len(c.Panics) > 0 {
		jh.Steps = append(jh.Steps, jstep{Kind: "panics", Log: short(strings.Join(c.Panics, " | "))})
	}
	return fmt.Sprintf("CHist 0 %d %s", rs, hx.List(steps)), jh
}

// reachedHandler: baseapp wraps every error returned by a message handler with this prefix; a
// transaction refused earlier (ante chain) never entered a write path
func reachedHandler(r abci.TxResult) bool {
	return r.Code == 0 || strings.HasPrefix(r.Log, "failed to execute message")
}

// rctx: the state as of now (deliver state inside a block or before the first one, else the last commit)
func rctx(c *abci.Chain) sdk.Context {
	if c.InBlock || c.Height == 0 {
		return c.Ctx()
	}
	return c.QueryCtx()
}

func lastProposalID(c *abci.Chain) uint64 {
	ps, _ := c.App.CustomGovKeeper.GetProposals(rctx(c))
	var mx uint64
	for _, p := range ps {
		if p.ProposalId > mx {
			mx = p.ProposalId
		}
	}
	return mx
}
