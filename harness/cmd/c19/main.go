// c19: runs the real gov keeper / msg server / proposal handler / genesis import on generated
// network-property requests and writes Cases.v (observations for the Coq model and spec checker)
// plus cases.json (human-readable replay data).
package main

import (
	"flag"
	"fmt"
	"os"
	"reflect"
	"strings"

	"verif/harness/abci"
	"verif/harness/hx"

	"github.com/KiraCore/sekai/x/gov"
	govkeeper "github.com/KiraCore/sekai/x/gov/keeper"
	govtypes "github.com/KiraCore/sekai/x/gov/types"
	sdk "github.com/cosmos/cosmos-sdk/types"
)

func propsCoq(p *govtypes.NetworkProperties) string {
	v := reflect.ValueOf(*p)
	parts := []string{"mkProps"}
	for i := 0; i < v.NumField(); i++ {
		f := v.Field(i)
		switch x := f.Interface().(type) {
		case uint64:
			parts = append(parts, hx.ZU(x))
		case bool:
			parts = append(parts, hx.B(x))
		case string:
			parts = append(parts, hx.Str(x))
		case sdk.Dec:
			parts = append(parts, hx.Dec(x))
		default:
			panic(fmt.Sprintf("field type %T", x))
		}
	}
	return "(" + strings.Join(parts, " ") + ")"
}

// patchCoq encodes q as a list of (field index, value) differences against p.
func patchCoq(p, q *govtypes.NetworkProperties) string {
	a, b := reflect.ValueOf(*p), reflect.ValueOf(*q)
	var xs []string
	for i := 0; i < a.NumField(); i++ {
		switch x := b.Field(i).Interface().(type) {
		case uint64:
			if a.Field(i).Uint() != x {
				xs = append(xs, fmt.Sprintf("(%d%%nat, FNum %s)", i, hx.ZU(x)))
			}
		case bool:
			if a.Field(i).Bool() != x {
				xs = append(xs, fmt.Sprintf("(%d%%nat, FBool %s)", i, hx.B(x)))
			}
		case string:
			if a.Field(i).String() != x {
				xs = append(xs, fmt.Sprintf("(%d%%nat, FStr %s)", i, hx.Str(x)))
			}
		case sdk.Dec:
			y := a.Field(i).Interface().(sdk.Dec)
			if x.IsNil() != y.IsNil() || (!x.IsNil() && !x.Equal(y)) {
				xs = append(xs, fmt.Sprintf("(%d%%nat, FDec %s)", i, hx.Dec(x)))
			}
		}
	}
	return hx.List(xs)
}

func clone(p *govtypes.NetworkProperties) *govtypes.NetworkProperties {
	c := *p
	return &c
}

var numValues = []uint64{0, 1, 2, 3, 10, 100, 300, 604800, 2629800, 31557600, 31557601, 1 << 32, 1<<63 - 1, 1 << 63, 1<<64 - 1}
var strValues = []string{"", "0", "1", "0.5", "0.33", "0.333333333333333333", "0.333333333333333334", "0.51", "1.000000000000000001",
	"1.0000000000000000001", "-1", "--1", "+0.25", "2", "abc", "1.", ".5", "1.2.3", "00.10", "-0.0", "1e3", " 1",
	"moniker", "moniker,username", "Moniker", "username", "moniker,,x", "moniker,1abc", "moniker,a_b,c9", "a,moniker", "moniker,twitter", "moniker,username,twitter",
	"twitter,moniker,username", "moniker,twitter,username", "a_b,moniker,username", "moniker,username,c9", "moniker,username,username", "username,moniker"}

type jcase struct {
	Kind    string `json:"kind"`
	Cfg     int    `json:"cfg"`
	Recs    int    `json:"recs"`
	Code    uint32 `json:"code"`
	Value   uint64 `json:"value"`
	Str     string `json:"str"`
	Allowed bool   `json:"allowed,omitempty"`
	OK      bool   `json:"ok"`
	Err     string `json:"err,omitempty"`
	Mutated string `json:"mutated,omitempty"`
	History *jhist `json:"history,omitempty"`
	CfgDiff string `json:"cfg_differs_from_default_by,omitempty"`
}

// mutate makes a random (usually valid) variation of a record
func mutate(r *hx.Rng, p *govtypes.NetworkProperties, invalidPct int) (*govtypes.NetworkProperties, string) {
	q := clone(p)
	v := reflect.ValueOf(q).Elem()
	n := 1 + r.Intn(4)
	desc := []string{}
	for k := 0; k < n; k++ {
		i := r.Intn(v.NumField())
		f := v.Field(i)
		name := v.Type().Field(i).Name
		switch f.Interface().(type) {
		case uint64:
			var x uint64
			if r.Chance(invalidPct) {
				x = numValues[r.Intn(len(numValues))]
			} else {
				x = f.Uint() + uint64(r.Intn(5))
			}
			f.SetUint(x)
			desc = append(desc, fmt.Sprintf("%s=%d", name, x))
		case bool:
			f.SetBool(r.Bool())
			desc = append(desc, name)
		case sdk.Dec:
			var d sdk.Dec
			if r.Chance(invalidPct) {
				switch r.Intn(4) {
				case 0:
					d = sdk.Dec{}
				case 1:
					d = sdk.NewDecWithPrec(-1, 2)
				case 2:
					d = sdk.NewDecWithPrec(int64(r.Intn(200)), 2)
				default:
					d = sdk.NewDecWithPrec(333333333333333333+int64(r.Intn(3))-1, 18)
				}
			} else {
				d = sdk.NewDecWithPrec(int64(r.Intn(33)), 2)
			}
			f.Set(reflect.ValueOf(d))
			desc = append(desc, name)
		case string:
			if r.Chance(invalidPct) {
				f.SetString(strValues[22+r.Intn(len(strValues)-22)])
				desc = append(desc, name)
			}
		}
	}
	return q, strings.Join(desc, ",")
}

func main() {
	outDir := flag.String("out", ".", "output directory")
	n := flag.Int("n", 400, "number of random cases (on top of the systematic sweep)")
	nh := flag.Int("hist", 6, "number of histories on the real chain (ABCI)")
	hsteps := flag.Int("hsteps", 8, "write steps per history")
	flag.Parse()
	out := hx.Out{Dir: *outDir}
	seed := hx.Seed()
	r := hx.NewRng(seed)

	app := hx.NewApp()
	base := hx.Ctx(app, 10, 1700000000)
	k := app.CustomGovKeeper
	dist := hx.Counter{}

	// ---- identity record sets (for the UniqueIdentityKeys arm)
	addrs := []sdk.AccAddress{sdk.AccAddress("addr1_______________"), sdk.AccAddress("addr2_______________"), sdk.AccAddress("addr3_______________")}
	type recset struct {
		ctx  sdk.Context
		recs []govtypes.IdentityRecord
	}
	var recsets []recset
	mk := func(entries map[int][]govtypes.IdentityInfoEntry) {
		c, _ := base.CacheContext()
		for i := 0; i < len(addrs); i++ {
			if es, ok := entries[i]; ok {
				if err := k.RegisterIdentityRecords(c, addrs[i], es); err != nil {
					panic(err)
				}
			}
		}
		recsets = append(recsets, recset{c, k.GetAllIdentityRecords(c)})
	}
	mk(map[int][]govtypes.IdentityInfoEntry{})
	mk(map[int][]govtypes.IdentityInfoEntry{
		0: {{Key: "moniker", Info: "alice"}, {Key: "twitter", Info: "same"}, {Key: "a_b", Info: "x"}},
		1: {{Key: "moniker", Info: "bob"}, {Key: "twitter", Info: "same"}, {Key: "c9", Info: "y"}},
		2: {{Key: "twitter", Info: "other"}, {Key: "a_b", Info: "z"}},
	})
	mk(map[int][]govtypes.IdentityInfoEntry{
		0: {{Key: "moniker", Info: "alice"}, {Key: "twitter", Info: "t1"}},
		1: {{Key: "moniker", Info: "bob"}, {Key: "twitter", Info: "t2"}},
	})

	// ---- starting configurations
	def := k.GetNetworkProperties(base)
	cfgs := []*govtypes.NetworkProperties{def}
	for len(cfgs) < 8 {
		q, _ := mutate(r, def, 0)
		if k.ValidateNetworkProperties(base, q) == nil {
			cfgs = append(cfgs, q)
		}
	}

	var coq strings.Builder
	var js []jcase
	emit := func(s string, j jcase) {
		coq.WriteString(s + ";\n")
		js = append(js, j)
		dist.Inc(j.Kind + ":" + map[bool]string{true: "accepted", false: "rejected"}[j.OK])
	}
	withState := func(cfg, rs int) sdk.Context {
		c, _ := recsets[rs].ctx.CacheContext()
		if err := k.SetNetworkProperties(c, clone(cfgs[cfg])); err != nil {
			panic(err)
		}
		return c
	}
	val := func(v uint64, s string) string { return hx.Pair(hx.ZU(v), hx.Str(s)) }

	doSet := func(cfg, rs int, code uint32, v uint64, s string) {
		c := withState(cfg, rs)
		var err error
		p := hx.Try(func() {
			err = k.SetNetworkProperty(c, govtypes.NetworkProperty(code), govtypes.NetworkPropertyValue{Value: v, StrValue: s})
		})
		if p != "" {
			err = fmt.Errorf("panic: %s", p)
		}
		after := k.GetNetworkProperties(c)
		// reads: the target and three others
		codes := []uint32{code, uint32(r.Intn(64)), uint32(r.Intn(64)), uint32(r.Intn(64))}
		var gets []string
		for _, gc := range codes {
			gv, gerr := k.GetNetworkProperty(c, govtypes.NetworkProperty(gc))
			gets = append(gets, hx.Pair(hx.ZU(uint64(gc)), hx.Opt(gerr == nil, val(gv.Value, gv.StrValue))))
		}
		e := ""
		if err != nil {
			e = err.Error()
		}
		emit(fmt.Sprintf("CSet %d %d %d %s %s %s %s", cfg, rs, code, val(v, s), hx.B(err == nil), patchCoq(cfgs[cfg], after), hx.List(gets)),
			jcase{Kind: "set", Cfg: cfg, Recs: rs, Code: code, Value: v, Str: s, OK: err == nil, Err: e, CfgDiff: patchCoq(cfgs[0], cfgs[cfg])})
	}
	doProp := func(cfg, rs int, code uint32, v uint64, s string) {
		c := withState(cfg, rs)
		h := gov.NewApplySetNetworkPropertyProposalHandler(k)
		var err error
		p := hx.Try(func() {
			err = h.Apply(c, 1, &govtypes.SetNetworkPropertyProposal{NetworkProperty: govtypes.NetworkProperty(code), Value: govtypes.NetworkPropertyValue{Value: v, StrValue: s}}, sdk.ZeroDec())
		})
		if p != "" {
			err = fmt.Errorf("panic: %s", p)
		}
		after := k.GetNetworkProperties(c)
		e := ""
		if err != nil {
			e = err.Error()
		}
		emit(fmt.Sprintf("CProp %d %d %d %s %s %s", cfg, rs, code, val(v, s), hx.B(err == nil), patchCoq(cfgs[cfg], after)),
			jcase{Kind: "proposal", Cfg: cfg, Recs: rs, Code: code, Value: v, Str: s, OK: err == nil, Err: e})
	}
	ms := govkeeper.NewMsgServerImpl(k)
	// who sends the whole-record message: the gate must follow "blacklist beats whitelist" over the
	// sender's own lists and the lists of its roles (0-2 hold the change permission, 3-7 do not)
	doMsg := func(cfg, rs int, kind int, nw *govtypes.NetworkProperties, how string) {
		c := withState(cfg, rs)
		proposer := sdk.AccAddress("proposer____________")
		perm := govtypes.PermChangeTxFee
		must := func(err error) {
			if err != nil {
				panic(err)
			}
		}
		mkRole := func(sid string, wl, bl bool) uint64 {
			id := k.CreateRole(c, sid, sid)
			if wl {
				must(k.WhitelistRolePermission(c, id, perm))
			}
			if bl {
				must(k.BlacklistRolePermission(c, id, perm))
			}
			return id
		}
		actor := govtypes.NewDefaultActor(proposer)
		allowed := false
		switch kind {
		case 0, 1: // personally whitelisted
			must(k.AddWhitelistPermission(c, actor, perm))
			allowed = true
		case 2: // through a role
			k.SaveNetworkActor(c, actor)
			must(k.AssignRoleToAccount(c, proposer, mkRole("c19_wl", true, false)))
			allowed = true
		case 3: // personally whitelisted, but a role of the sender blacklists it
			must(k.AddWhitelistPermission(c, actor, perm))
			must(k.AssignRoleToAccount(c, proposer, mkRole("c19_bl", false, true)))
		case 4: // whitelisted through a role, personally blacklisted
			k.SaveNetworkActor(c, actor)
			must(k.AssignRoleToAccount(c, proposer, mkRole("c19_wl", true, false)))
			a, _ := k.GetNetworkActorByAddress(c, proposer)
			must(k.AddBlacklistPermission(c, a, perm))
		case 5: // one role whitelists, another blacklists
			k.SaveNetworkActor(c, actor)
			must(k.AssignRoleToAccount(c, proposer, mkRole("c19_wl", true, false)))
			must(k.AssignRoleToAccount(c, proposer, mkRole("c19_bl", false, true)))
		case 6:
			// holds every OTHER permission (directly and through role sudo), but not the change permission
			k.SaveNetworkActor(c, actor)
			for pv := 1; pv <= 66; pv++ {
				if govtypes.PermValue(pv) == perm {
					continue
				}
				a, _ := k.GetNetworkActorByAddress(c, proposer)
				_ = k.AddWhitelistPermission(c, a, govtypes.PermValue(pv))
			}
			_ = k.AssignRoleToAccount(c, proposer, govtypes.RoleSudo)
		default: // no record at all
		}
		var err error
		p := hx.Try(func() {
			_, err = ms.SetNetworkProperties(sdk.WrapSDKContext(c), &govtypes.MsgSetNetworkProperties{NetworkProperties: clone(nw), Proposer: proposer})
		})
		if p != "" {
			err = fmt.Errorf("panic: %s", p)
		}
		after := k.GetNetworkProperties(c)
		e := ""
		if err != nil {
			e = err.Error()
		}
		emit(fmt.Sprintf("CMsg %d %d %s %s %s %s", cfg, rs, hx.B(allowed), patchCoq(cfgs[cfg], nw), hx.B(err == nil), patchCoq(cfgs[cfg], after)),
			jcase{Kind: "msg", Cfg: cfg, Recs: rs, Allowed: allowed, OK: err == nil, Err: e, Mutated: fmt.Sprintf("sender kind %d; %s", kind, how)})
	}
	doGen := func(nw *govtypes.NetworkProperties, how string) {
		c, _ := base.CacheContext()
		gs := gov.ExportGenesis(c, k)
		gs.NetworkProperties = clone(nw)
		var err error
		p := hx.Try(func() { err = gov.InitGenesis(c, k, *gs) })
		ok := p == "" && err == nil
		emit(fmt.Sprintf("CGen 0 %s %s", patchCoq(cfgs[0], nw), hx.B(ok)), jcase{Kind: "genesis", OK: ok, Err: p, Mutated: how})
	}

	// genesis import through the REAL application path (InitChain -> module manager -> gov
	// AppModule.InitGenesis): either the chain refuses to start, or the stored record is the given one
	doGenApp := func(nw *govtypes.NetworkProperties, how string) {
		// the request is what the genesis file carries (a nil decimal is written as "0")
		var wire govtypes.NetworkProperties
		if err := app.AppCodec().UnmarshalJSON(app.AppCodec().MustMarshalJSON(nw), &wire); err == nil {
			nw = &wire
		}
		var after *govtypes.NetworkProperties
		p := hx.Try(func() {
			c := abci.NewChain(abci.Config{Accounts: 2, Validators: 1, Seed: seed, Gov: func(g *govtypes.GenesisState) { g.NetworkProperties = clone(nw) }})
			after = c.App.CustomGovKeeper.GetNetworkProperties(c.Ctx())
		})
		ok := p == ""
		if after == nil {
			after = clone(cfgs[0])
		}
		emit(fmt.Sprintf("CGenApp 0 %s %s %s", patchCoq(cfgs[0], nw), hx.B(ok), patchCoq(cfgs[0], after)), jcase{Kind: "genesis_app", OK: ok, Err: p, Mutated: how})
	}
	for i := 0; i < 10; i++ {
		nw, how := mutate(r, cfgs[0], 40)
		doGenApp(nw, how)
	}
	{
		bad := clone(cfgs[0])
		bad.MinTxFee, bad.MaxTxFee = 5, 1
		doGenApp(bad, "MinTxFee>MaxTxFee")
		bad2 := clone(cfgs[0])
		bad2.UniqueIdentityKeys = "username"
		doGenApp(bad2, "no moniker")
	}

	// ---- systematic sweep: every identifier (plus two out of range) x value corpus, default config
	for code := uint32(0); code < 64; code++ {
		for _, v := range numValues {
			doSet(0, 0, code, v, "")
		}
		for _, s := range strValues {
			doSet(0, 1, code, 0, s)
		}
		doProp(0, 0, code, 1, "0.5")
		doProp(0, 0, code, 0, "moniker,username")
	}
	// ---- chains: a second request on the record an accepted first request left behind, with values
	// related to the stored one (powers of ten, other spellings of the same number, neighbours)
	cfgIndex := map[string]int{}
	stateAfter := func(code uint32, v uint64, s string) int {
		c := withState(0, 0)
		var err error
		if p := hx.Try(func() {
			err = k.SetNetworkProperty(c, govtypes.NetworkProperty(code), govtypes.NetworkPropertyValue{Value: v, StrValue: s})
		}); p != "" || err != nil {
			return -1
		}
		np := k.GetNetworkProperties(c)
		key := patchCoq(cfgs[0], np)
		if i, ok := cfgIndex[key]; ok {
			return i
		}
		cfgs = append(cfgs, np)
		cfgIndex[key] = len(cfgs) - 1
		return len(cfgs) - 1
	}
	strChain := []string{"1", "10", "100", "0.1", "0.01", "0.10", "1.0", "2", "20", "0.2", "0.02", "0.3", "0.03"}
	numChain := []uint64{1, 10, 100, 1000, 2, 20, 11}
	for code := uint32(0); code < 64; code++ {
		cur, err := k.GetNetworkProperty(base, govtypes.NetworkProperty(code))
		if err != nil {
			continue
		}
		if cur.StrValue != "" {
			for _, a := range strChain {
				if ci := stateAfter(code, 0, a); ci >= 0 {
					for _, b := range strChain {
						doSet(ci, 0, code, 0, b)
					}
					doProp(ci, 0, code, 0, strChain[r.Intn(len(strChain))])
				}
			}
		} else if r.Chance(35) || *n > 1000 {
			for _, a := range numChain {
				if ci := stateAfter(code, a*uint64(1+r.Intn(3)), ""); ci >= 0 {
					for _, b := range numChain {
						doSet(ci, 0, code, b, "")
					}
				}
			}
		}
	}

	// ---- every kind of sender with a valid whole-record request, from the default and a mutated record
	for kind := 0; kind < 8; kind++ {
		for rep := 0; rep < 3; rep++ {
			nw, how := mutate(r, cfgs[rep%len(cfgs)], 0)
			if k.ValidateNetworkProperties(base, nw) != nil {
				nw, how = clone(cfgs[1%len(cfgs)]), "another valid record"
			}
			doMsg(rep%8, 0, kind, nw, how)
		}
	}

	// ---- random cases
	for i := 0; i < *n; i++ {
		cfg, rs := r.Intn(len(cfgs)), r.Intn(len(recsets))
		code := uint32(r.Intn(64))
		v := numValues[r.Intn(len(numValues))]
		s := strValues[r.Intn(len(strValues))]
		if r.Chance(50) {
			v = uint64(r.Range(0, 40000000))
		}
		switch r.Intn(10) {
		case 0, 1, 2, 3, 4:
			doSet(cfg, rs, code, v, s)
		case 5, 6:
			if r.Chance(30) { // propose the current value: must be rejected as "already set"
				cur, err := k.GetNetworkProperty(withState(cfg, rs), govtypes.NetworkProperty(code))
				if err == nil {
					v, s = cur.Value, cur.StrValue
				}
			}
			doProp(cfg, rs, code, v, s)
		case 7, 8:
			nw, how := mutate(r, cfgs[r.Intn(len(cfgs))], 30)
			doMsg(cfg, rs, r.Intn(8), nw, how)
		default:
			nw, how := mutate(r, cfgs[r.Intn(len(cfgs))], 30)
			doGen(nw, how)
		}
	}

	// ---- histories through ABCI (real tx path, real proposal life cycle)
	for i := 0; i < *nh; i++ {
		term, jh := runHistory(r, seed+uint64(i)*7919, cfgs[0], *hsteps, func(recs []govtypes.IdentityRecord) int {
			recsets = append(recsets, recset{recs: recs})
			return len(recsets) - 1
		})
		for _, st := range jh.Steps {
			dist.Inc("history-step:" + strings.SplitN(st.Kind, ":", 2)[0] + ":" + map[bool]string{true: "accepted", false: "rejected"}[st.OK])
		}
		emit(term, jcase{Kind: "history", OK: true, History: &jh})
	}

	// ---- write pre.v / cases.txt / meta.json (assembled into shards by lib/vlib.py)
	var f strings.Builder
	f.WriteString("(* written by /verif/harness/cmd/c19 -- observations of the real code *)\n")
	f.WriteString("From Sekai Require Import Base.Prelude Base.Dec Model.NetPropsLib Gen.NetProps Model.NetProps Model.C19Check.\n")
	f.WriteString("Definition cfgs : list props := [\n")
	for i, c := range cfgs {
		sep := ";"
		if i == len(cfgs)-1 {
			sep = ""
		}
		f.WriteString("  " + propsCoq(c) + sep + "\n")
	}
	f.WriteString("].\nDefinition recsets : list (list (string * string)) := [\n")
	for i, rs := range recsets {
		var xs []string
		for _, rec := range rs.recs {
			xs = append(xs, hx.Pair(hx.Str(rec.Key), hx.Str(rec.Value)))
		}
		sep := ";"
		if i == len(recsets)-1 {
			sep = ""
		}
		f.WriteString("  " + hx.List(xs) + sep + "\n")
	}
	f.WriteString("]%string.\n")
	out.WriteFile("pre.v", f.String())
	out.WriteFile("cases.txt", strings.ReplaceAll(coq.String(), ";\n", "\n"))
	out.WriteJSON("meta.json", map[string]string{"case_type": "c19_case", "mismatch_fn": "c19_mismatches cfgs recsets", "violation_fn": "c19_violations cfgs"})
	out.WriteJSON("cases.json", js)
	out.WriteJSON("dist.json", map[string]interface{}{"seed": seed, "cases": len(js), "by_kind": dist})
	fmt.Fprintf(os.Stderr, "c19: %d cases\n", len(js))
}
