// gen_transfers (C14): lists every call of the bank keeper's SendCoins (account -> account) in the
// modules of the tree under -repo/x, with the handler it sits in, the message type of that handler
// (resolved through the message's Type() method and the constants of types/Msg.go) and where the
// coins come from:
//   caller    a field of the message (or of a stored message / transaction record)
//   native    built with DefaultDenom
//   balances  the account's whole balance (GetAllBalances)
//   derived   anything else
// Output: coq/Gen/TransferSites.v.  Properties/C14.v states that this table is the reviewed one, so
// a NEW account-to-account transfer path breaks an obligation.
package main

import (
	"bytes"
	"flag"
	"fmt"
	"go/ast"
	"go/parser"
	"go/printer"
	"go/token"
	"os"
	"path/filepath"
	"regexp"
	"sort"
	"strings"
)

var errs []string

func bad(f string, a ...interface{}) { errs = append(errs, fmt.Sprintf(f, a...)) }

func src(fset *token.FileSet, n ast.Node) string {
	var b bytes.Buffer
	printer.Fprint(&b, fset, n)
	return strings.Join(strings.Fields(b.String()), " ")
}

func typeName(e ast.Expr) string {
	switch x := e.(type) {
	case *ast.StarExpr:
		return typeName(x.X)
	case *ast.SelectorExpr:
		return x.Sel.Name
	case *ast.Ident:
		return x.Name
	}
	return ""
}

// constants of types/Msg.go: name -> string value
func msgConsts(repo string) map[string]string {
	out := map[string]string{"TypeMsgSend": "send", "TypeMsgMultiSend": "multisend"}
	fset := token.NewFileSet()
	f, err := parser.ParseFile(fset, filepath.Join(repo, "types/Msg.go"), nil, 0)
	if err != nil {
		bad("types/Msg.go: %v", err)
		return out
	}
	for _, d := range f.Decls {
		g, ok := d.(*ast.GenDecl)
		if !ok || g.Tok != token.CONST {
			continue
		}
		for _, sp := range g.Specs {
			vs := sp.(*ast.ValueSpec)
			for i, n := range vs.Names {
				if i < len(vs.Values) {
					if bl, ok := vs.Values[i].(*ast.BasicLit); ok && bl.Kind == token.STRING {
						out[n.Name] = strings.Trim(bl.Value, "\"")
					}
				}
			}
		}
	}
	return out
}

// Type() methods of the message types of one module: Go type name -> message type string
func typeMethods(repo, mod string, consts map[string]string) map[string]string {
	out := map[string]string{}
	files, _ := filepath.Glob(filepath.Join(repo, "x", mod, "types", "*.go"))
	fset := token.NewFileSet()
	for _, fn := range files {
		if strings.HasSuffix(fn, "_test.go") || strings.HasSuffix(fn, ".pb.go") || strings.HasSuffix(fn, ".pb.gw.go") {
			continue
		}
		f, err := parser.ParseFile(fset, fn, nil, 0)
		if err != nil {
			continue
		}
		for _, d := range f.Decls {
			fd, ok := d.(*ast.FuncDecl)
			if !ok || fd.Recv == nil || fd.Name.Name != "Type" || fd.Body == nil || len(fd.Body.List) != 1 {
				continue
			}
			r, ok := fd.Body.List[0].(*ast.ReturnStmt)
			if !ok || len(r.Results) != 1 {
				continue
			}
			recv := typeName(fd.Recv.List[0].Type)
			switch x := r.Results[0].(type) {
			case *ast.SelectorExpr:
				if v, ok := consts[x.Sel.Name]; ok {
					out[recv] = v
				} else {
					out[recv] = "?" + x.Sel.Name
				}
			case *ast.Ident:
				if v, ok := consts[x.Name]; ok {
					out[recv] = v
				} else {
					out[recv] = "?" + x.Name
				}
			case *ast.BasicLit:
				out[recv] = strings.Trim(x.Value, "\"")
			}
		}
	}
	return out
}

// setters of the state the fee / freeze / weak-network rules read
var writerSel = map[string]bool{"SetTokenBlackWhites": true, "AddTokensToBlacklist": true, "RemoveTokensFromBlacklist": true,
	"AddTokensToWhitelist": true, "RemoveTokensFromWhitelist": true, "UpsertTokenInfo": true, "DeleteTokenInfo": true,
	"SetExecutionFee": true, "SavePoorNetworkMessages": true, "SetSenderCoinsHistory": true, "AddExecutionStart": true,
	"SetExecutionStatusSuccess": true, "ProcessExecutionFeeReturn": true}

var callerRe = regexp.MustCompile(`\bmsg\b|\bMsg[A-Z]|Transaction\b|\btx\b|\brelay\b`)

func main() {
	repo := flag.String("repo", "/repo", "source tree")
	out := flag.String("out", "TransferSites.v", "output file")
	flag.Parse()
	consts := msgConsts(*repo)
	mods, _ := filepath.Glob(filepath.Join(*repo, "x", "*"))
	sort.Strings(mods)
	type site struct{ mod, fn, ty, class string }
	var sites []site
	type writer struct{ where, fn, sel string }
	var writers []writer
	scanWriters := func(where string, files []string) {
		for _, fn := range files {
			if strings.HasSuffix(fn, "_test.go") || strings.HasSuffix(fn, ".pb.go") {
				continue
			}
			fset := token.NewFileSet()
			f, err := parser.ParseFile(fset, fn, nil, 0)
			if err != nil {
				continue
			}
			for _, d := range f.Decls {
				fd, ok := d.(*ast.FuncDecl)
				if !ok || fd.Body == nil {
					continue
				}
				ast.Inspect(fd.Body, func(n ast.Node) bool {
					if c, ok := n.(*ast.CallExpr); ok {
						if sel, ok := c.Fun.(*ast.SelectorExpr); ok && writerSel[sel.Sel.Name] {
							writers = append(writers, writer{where, fd.Name.Name, sel.Sel.Name})
						}
					}
					return true
				})
			}
		}
	}
	{
		af, _ := filepath.Glob(filepath.Join(*repo, "app", "*.go"))
		scanWriters("app", af)
		for _, sub := range []string{"ante", "posthandler"} {
			sf, _ := filepath.Glob(filepath.Join(*repo, "app", sub, "*.go"))
			scanWriters("app/"+sub, sf)
		}
	}
	for _, md := range mods {
		mod := filepath.Base(md)
		files, _ := filepath.Glob(filepath.Join(md, "keeper", "*.go"))
		hf, _ := filepath.Glob(filepath.Join(md, "*.go"))
		files = append(files, hf...)
		sort.Strings(files)
		scanWriters(mod, files)
		var tm map[string]string
		for _, fn := range files {
			if strings.HasSuffix(fn, "_test.go") {
				continue
			}
			fset := token.NewFileSet()
			f, err := parser.ParseFile(fset, fn, nil, 0)
			if err != nil {
				bad("%s: %v", fn, err)
				continue
			}
			for _, d := range f.Decls {
				fd, ok := d.(*ast.FuncDecl)
				if !ok || fd.Body == nil {
					continue
				}
				// local definitions: identifier -> defining expression (last short assignment wins)
				defs := map[string]ast.Expr{}
				params := map[string]bool{}
				for _, p := range fd.Type.Params.List {
					for _, n := range p.Names {
						params[n.Name] = true
					}
				}
				ast.Inspect(fd.Body, func(n ast.Node) bool {
					if as, ok := n.(*ast.AssignStmt); ok && len(as.Lhs) == len(as.Rhs) {
						for i, l := range as.Lhs {
							if id, ok := l.(*ast.Ident); ok {
								defs[id.Name] = as.Rhs[i]
							}
						}
					}
					return true
				})
				var expand func(e ast.Expr, depth int) string
				expand = func(e ast.Expr, depth int) string {
					s := src(fset, e)
					if depth == 0 {
						return s
					}
					ast.Inspect(e, func(n ast.Node) bool {
						if id, ok := n.(*ast.Ident); ok {
							if df, ok := defs[id.Name]; ok && df != e {
								s += " <= " + expand(df, depth-1)
							}
						}
						return true
					})
					return s
				}
				ast.Inspect(fd.Body, func(n ast.Node) bool {
					c, ok := n.(*ast.CallExpr)
					if !ok {
						return true
					}
					sel, ok := c.Fun.(*ast.SelectorExpr)
					if !ok || sel.Sel.Name != "SendCoins" || len(c.Args) != 4 {
						return true
					}
					coins := expand(c.Args[3], 3)
					class := "derived"
					root := c.Args[3]
					for {
						if se, ok := root.(*ast.SelectorExpr); ok {
							root = se.X
							continue
						}
						break
					}
					rootParam := false
					if id, ok := root.(*ast.Ident); ok && params[id.Name] {
						rootParam = true
					}
					switch {
					case strings.Contains(coins, "DefaultDenom"):
						class = "native"
					case strings.Contains(coins, "GetAllBalances"):
						class = "balances"
					case rootParam || callerRe.MatchString(coins):
						class = "caller"
					}
					ty := ""
					if fd.Recv != nil && typeName(fd.Recv.List[0].Type) == "msgServer" && len(fd.Type.Params.List) >= 2 {
						if tm == nil {
							tm = typeMethods(*repo, mod, consts)
						}
						mt := typeName(fd.Type.Params.List[len(fd.Type.Params.List)-1].Type)
						if strings.HasPrefix(mt, "Msg") {
							if v, ok := tm[mt]; ok {
								ty = v
							} else {
								ty = "?" + mt
								bad("%s.%s: no Type() method found for %s", mod, fd.Name.Name, mt)
							}
						}
					}
					sites = append(sites, site{mod, fd.Name.Name, ty, class})
					return true
				})
			}
		}
	}
	q := func(s string) string { return "\"" + strings.ReplaceAll(s, "\"", "\"\"") + "\"%string" }
	var b strings.Builder
	b.WriteString("(* GENERATED by /verif/harness/cmd/gen_transfers from x/*/keeper/*.go -- do not edit *)\n")
	b.WriteString("From Sekai Require Import Base.Prelude.\n")
	b.WriteString("(* (module, function, message type of the handler, origin of the coins) of every bank SendCoins call *)\n")
	b.WriteString("Definition transfer_sites : list (string * string * string * string) := [\n")
	for i, s := range sites {
		sep := ";"
		if i == len(sites)-1 {
			sep = ""
		}
		b.WriteString(fmt.Sprintf("  (%s, %s, %s, %s)%s\n", q(s.mod), q(s.fn), q(s.ty), q(s.class), sep))
	}
	b.WriteString("].\n")
	b.WriteString("(* (package, function, setter) of every call that writes the token registry, the freeze lists, the\n   execution-fee table, the allowed-message list or the feeprocessing records *)\n")
	b.WriteString("Definition state_writers : list (string * string * string) := [\n")
	for i, w := range writers {
		sep := ";"
		if i == len(writers)-1 {
			sep = ""
		}
		b.WriteString(fmt.Sprintf("  (%s, %s, %s)%s\n", q(w.where), q(w.fn), q(w.sel), sep))
	}
	b.WriteString("].\n")
	var es []string
	for _, e := range errs {
		es = append(es, q(e))
	}
	b.WriteString("Definition transfer_gen_errors : list string := [" + strings.Join(es, "; ") + "].\n")
	if err := os.WriteFile(*out, []byte(b.String()), 0o644); err != nil {
		fmt.Fprintln(os.Stderr, err)
		os.Exit(2)
	}
	if len(errs) > 0 {
		for _, e := range errs {
			fmt.Fprintln(os.Stderr, "gen_transfers:", e)
		}
		os.Exit(1)
	}
	fmt.Fprintf(os.Stderr, "gen_transfers: %d SendCoins sites\n", len(sites))
}
