package main

import (
	"fmt"
	"time"

	"verif/harness/hx"

	"github.com/KiraCore/sekai/x/gov"
	govkeeper "github.com/KiraCore/sekai/x/gov/keeper"
	govtypes "github.com/KiraCore/sekai/x/gov/types"
	l2keeper "github.com/KiraCore/sekai/x/layer2/keeper"
	l2types "github.com/KiraCore/sekai/x/layer2/types"
	sdk "github.com/cosmos/cosmos-sdk/types"
	authtypes "github.com/cosmos/cosmos-sdk/x/auth/types"
	minttypes "github.com/cosmos/cosmos-sdk/x/mint/types"
)

func main() {
	app := hx.NewApp()
	ctx := hx.Ctx(app, 10, 1700000000)
	k := app.Layer2Keeper
	ms := l2keeper.NewMsgServerImpl(k)
	gms := govkeeper.NewMsgServerImpl(app.CustomGovKeeper)
	props := app.CustomGovKeeper.GetNetworkProperties(ctx)
	props.MinDappBond, props.MaxDappBond, props.DappBondDuration = 1, 100, 1000
	app.CustomGovKeeper.SetNetworkProperties(ctx, props)
	var users []sdk.AccAddress
	var ustr []string
	for i := 0; i < 3; i++ {
		a := sdk.AccAddress(fmt.Sprintf("c20user%d____________", i))
		users = append(users, a)
		ustr = append(ustr, a.String())
		c := sdk.NewCoins(sdk.NewInt64Coin("ukex", 2000000000))
		app.BankKeeper.MintCoins(ctx, minttypes.ModuleName, c)
		app.BankKeeper.SendCoinsFromModuleToAccount(ctx, minttypes.ModuleName, a, c)
		if err := app.CustomGovKeeper.AddWhitelistPermission(ctx, govtypes.NewDefaultActor(a), govtypes.PermClaimCouncilor); err != nil {
			panic(err)
		}
	}
	d := l2types.Dapp{Name: "x", Denom: "dx", Pool: l2types.LpPoolConfig{Ratio: sdk.OneDec(), Drip: 100},
		Issuance: l2types.IssuanceConfig{Premint: sdk.NewInt(7), Postmint: sdk.NewInt(11)}, VoteQuorum: sdk.NewDecWithPrec(3, 1), VotePeriod: 10, VoteEnactment: 10,
		PoolFee: sdk.NewDecWithPrec(1, 2), TeamReserve: ustr[2], TotalBond: sdk.NewInt64Coin("ukex", 0),
		Controllers: l2types.Controllers{Whitelist: l2types.AccountRange{Addresses: ustr}}}
	_, err := ms.CreateDappProposal(sdk.WrapSDKContext(ctx), &l2types.MsgCreateDappProposal{Sender: ustr[0], Dapp: d, Bond: sdk.NewInt64Coin("ukex", 20000000)})
	fmt.Println("create", err)
	up := k.GetDapp(ctx, "x")
	up.TotalBond = sdk.NewInt64Coin("ukex", 999)
	up.Status = l2types.Active
	m, err := govtypes.NewMsgSubmitProposal(users[1], "t", "d", &l2types.ProposalUpsertDapp{Sender: ustr[1], Dapp: up})
	fmt.Println("newmsg", err)
	resp, err := gms.SubmitProposal(sdk.WrapSDKContext(ctx), m)
	fmt.Println("submit", resp, err)
	for i := 0; i < 3; i++ {
		_, err = gms.VoteProposal(sdk.WrapSDKContext(ctx), govtypes.NewMsgVoteProposal(resp.ProposalID, users[i], govtypes.OptionYes, sdk.ZeroDec()))
		fmt.Println("vote", i, err)
	}
	c2 := ctx.WithBlockHeight(14).WithBlockTime(time.Unix(1700000011, 0).UTC())
	gov.EndBlocker(c2, app.CustomGovKeeper)
	p, _ := app.CustomGovKeeper.GetProposal(c2, resp.ProposalID)
	fmt.Println("after vote end:", p.Result)
	c3 := ctx.WithBlockHeight(18).WithBlockTime(time.Unix(1700000022, 0).UTC())
	gov.EndBlocker(c3, app.CustomGovKeeper)
	p, _ = app.CustomGovKeeper.GetProposal(c3, resp.ProposalID)
	fmt.Println("after enactment:", p.Result, p.ExecResult)
	dd := k.GetDapp(c3, "x")
	fmt.Println("dapp", dd.Status, dd.TotalBond, "module", app.BankKeeper.GetAllBalances(c3, authtypes.NewModuleAddress(l2types.ModuleName)))
}
