// c13: runs the REAL distributor (inflation, snapshots), ubi (proposal handler, end blocker),
// tokens (msg server, proposal handler, registry mint/burn) and layer2 (MintIssueTx / MintBurnTx)
// code on generated histories of blocks, governance parameter changes, UBI upserts and token
// registry operations; writes the observations as Coq terms (cases.txt) for the model
// correspondence and the spec checker of Model/C13Check.v.
package main

import (
	"flag"
	"fmt"
	"os"
	"sort"
	"strings"
	"time"

	"verif/harness/hx"

	"github.com/KiraCore/sekai/x/distributor"
	distrtypes "github.com/KiraCore/sekai/x/distributor/types"
	"github.com/KiraCore/sekai/x/gov"
	govtypes "github.com/KiraCore/sekai/x/gov/types"
	"github.com/KiraCore/sekai/x/layer2"
	layer2keeper "github.com/KiraCore/sekai/x/layer2/keeper"
	layer2types "github.com/KiraCore/sekai/x/layer2/types"
	"github.com/KiraCore/sekai/x/spending"
	spendingtypes "github.com/KiraCore/sekai/x/spending/types"
	"github.com/KiraCore/sekai/x/tokens"
	tokenskeeper "github.com/KiraCore/sekai/x/tokens/keeper"
	tokenstypes "github.com/KiraCore/sekai/x/tokens/types"
	"github.com/KiraCore/sekai/x/ubi"
	ubitypes "github.com/KiraCore/sekai/x/ubi/types"
	abci "github.com/cometbft/cometbft/abci/types"
	sdk "github.com/cosmos/cosmos-sdk/types"
	authtypes "github.com/cosmos/cosmos-sdk/x/auth/types"
	minttypes "github.com/cosmos/cosmos-sdk/x/mint/types"
)

const native = "ukex"

var denoms = []string{"ukex", "ubtc", "xeth", "frozen", "tka", "tkb", "tkc", "tkz"}
var ubiNames = []string{"ValidatorBasicRewardsPoolUBI", "u1", "u2", "u3", "u4"}
var poolNames = []string{"ValidatorBasicRewardsPool", "nopool"}

// actor ids: 0 = "" (no owner), 1..4 user accounts, 100 layer2 module, 101 fee collector
var actors = []sdk.AccAddress{nil, sdk.AccAddress("c13_actor_1_________"), sdk.AccAddress("c13_actor_2_________"),
	sdk.AccAddress("c13_actor_3_________"), sdk.AccAddress("c13_actor_4_________")}

func actorStr(i int) string {
	if i == 0 {
		return ""
	}
	return actors[i].String()
}
func actorID(s string) int64 {
	if s == "" {
		return 0
	}
	for i := 1; i < len(actors); i++ {
		if actors[i].String() == s {
			return int64(i)
		}
	}
	return 99
}
func denomID(s string) int {
	for i, d := range denoms {
		if d == s {
			return i
		}
	}
	return -1
}
func ubiID(s string) int {
	for i, d := range ubiNames {
		if d == s {
			return i
		}
	}
	return -1
}

type jop struct {
	Kind string                 `json:"kind"`
	Args map[string]interface{} `json:"args,omitempty"`
	Res  string                 `json:"res"`
	Err  string                 `json:"err,omitempty"`
	Obs  map[string]interface{} `json:"obs,omitempty"`
}
type jcase struct {
	Index int                    `json:"index"`
	Kind  string                 `json:"kind"`
	Init  map[string]interface{} `json:"init"`
	Ops   []jop                  `json:"ops"`
}

func decRaw(d sdk.Dec) string { return hx.ZBig(d.BigInt()) }
func oint(i sdk.Int) string {
	if i.IsNil() {
		return "None"
	}
	return "(Some " + hx.ZBig(i.BigInt()) + ")"
}
func resCode(err error, pan string) (int, string, string) {
	if pan != "" {
		return 2, "panic", pan
	}
	if err != nil {
		return 1, "rejected", err.Error()
	}
	return 0, "ok", ""
}

var rateChoices = []string{"0", "0.18", "0.5", "0.05", "0.000000000000000001", "0.333333333333333333", "0.01", "0.25", "0.499999999999999999"}
var maxAnnChoices = []string{"0", "0.35", "0.01", "0.000000000000000001", "1", "0.1", "12", "0.05"}
var periodChoices = []uint64{2629800, 31557600, 2629801, 15778800, 31557599, 2592000 * 2}
var dtChoices = []int64{1, 5, 60, 3600, 86400, 2592000, 2592001, 2591999, 2629800, 2629801, 31104000, 31104001, 31557600, 31557601, 63115200, 7, 1000000}
var capChoices = []int64{0, 1000, 1000000, 50, -1, -1000000, 1, 999, 1001, 2000000}
var amtChoices = []int64{1, 10, 100, 999, 1000, 1001, 500000, 0, -5, 1000000}
var ubiAmounts = []uint64{0, 1, 100, 1000, 500000, 6000000, 493150, 493151, 1 << 63, 584554531287, 584554531288, 1<<64 - 1, 1 << 62, 3000000, 16000}
var ubiPeriods = []uint64{0, 1, 60, 86400, 2592000, 31556952, 31556953, 1 << 40, 1<<64 - 1, 3600}

func main() {
	outDir := flag.String("out", ".", "output directory")
	n := flag.Int("n", 300, "number of histories")
	flag.Parse()
	out := hx.Out{Dir: *outDir}
	seed := hx.Seed()
	r := hx.NewRng(seed)
	// the code under test prints to stdout (ubi handler, unknown-proposer warning)
	if devnull, err := os.OpenFile(os.DevNull, os.O_WRONLY, 0); err == nil {
		os.Stdout = devnull
	}

	app := hx.NewApp()
	const T0 = int64(1700000000)
	base := hx.Ctx(app, 1, T0)
	dist := hx.Counter{}
	tms := tokenskeeper.NewMsgServerImpl(app.TokensKeeper, app.CustomGovKeeper)
	lms := layer2keeper.NewMsgServerImpl(app.Layer2Keeper)
	ubiH := ubi.NewApplyUpsertUBIProposalHandler(app.UbiKeeper, app.CustomGovKeeper, app.SpendingKeeper)
	ubiR := ubi.NewApplyRemoveUBIProposalHandler(app.UbiKeeper)
	tokH := tokens.NewApplyUpsertTokenInfosProposalHandler(app.TokensKeeper)
	feeCollector := app.AccountKeeper.GetModuleAddress(authtypes.FeeCollectorName)

	// ---- shared start state: a dummy previous proposer; actor 1 may register tokens
	app.DistrKeeper.SetPreviousProposerConsAddr(base, sdk.ConsAddress("c13_proposer________"))
	if err := app.CustomGovKeeper.AddWhitelistPermission(base, govtypes.NewDefaultActor(actors[1]), govtypes.PermUpsertTokenInfo); err != nil {
		panic(err)
	}
	genesisSupply := app.BankKeeper.GetSupply(base, native).Amount

	supplyOf := func(c sdk.Context, d string) sdk.Int { return app.BankKeeper.GetSupply(c, d).Amount }
	regCoq := func(c sdk.Context) string {
		var xs []string
		infos := app.TokensKeeper.GetAllTokenInfos(c)
		sort.Slice(infos, func(i, j int) bool { return denomID(infos[i].Denom) < denomID(infos[j].Denom) })
		for _, ti := range infos {
			id := denomID(ti.Denom)
			if id < 0 {
				panic("unknown registered denom " + ti.Denom)
			}
			xs = append(xs, fmt.Sprintf("(%d, mkTok %s %s %d %s %s %s)", id, hx.ZInt(ti.Supply), hx.ZInt(ti.SupplyCap), actorID(ti.Owner), hx.B(ti.OwnerEditDisabled), decRaw(ti.FeeRate), decRaw(ti.StakeCap)))
		}
		return hx.List(xs)
	}
	ubisCoq := func(c sdk.Context) string {
		var xs []string
		for _, u := range app.UbiKeeper.GetUBIRecords(c) {
			xs = append(xs, fmt.Sprintf("mkUbi %d %s %s %s %s %s %d", ubiID(u.Name), hx.ZU(u.Amount), hx.ZU(u.Period), hx.ZU(u.DistributionLast), hx.ZU(u.DistributionEnd), hx.B(u.Dynamic), poolID(u.Pool)))
		}
		return hx.List(xs)
	}
	poolBal := func(c sdk.Context) sdk.Int {
		p := app.SpendingKeeper.GetSpendingPool(c, poolNames[0])
		if p == nil {
			return sdk.NewInt(-1)
		}
		return sdk.Coins(p.Balances).AmountOf(native)
	}

	var lines []string
	var js []jcase

	for hi := 0; hi < *n; hi++ {
		hr := r.Fork()
		ctx, _ := base.CacheContext()
		height := int64(1)
		now := T0
		// history flavour: 0 inflation-centred, 1 token-registry-centred, 2 ubi-centred, 3 mixed
		flavour := hr.Intn(5)
		if hi == 4 {
			flavour = 4
		}
		kind := []string{"inflation", "tokens", "ubi", "mixed", "ubi_gate"}[flavour]

		// ---- initial state
		// native balances of the actors (minted through the bank like the genesis accounts)
		var balsCoq []string
		jinit := map[string]interface{}{}
		for a := 1; a <= 4; a++ {
			var amt sdk.Int
			switch hr.Intn(4) {
			case 0:
				amt = sdk.NewInt(hr.Range(0, 5000))
			case 1:
				amt = sdk.NewInt(hr.Range(1000000, 300000000000000))
			case 2:
				amt = sdk.NewInt(hr.Range(1, 1000000)).Mul(sdk.NewInt(1000000000000))
			default:
				amt = sdk.NewInt(100000000)
			}
			if amt.IsPositive() {
				coins := sdk.NewCoins(sdk.NewCoin(native, amt))
				if err := app.BankKeeper.MintCoins(ctx, minttypes.ModuleName, coins); err != nil {
					panic(err)
				}
				if err := app.BankKeeper.SendCoinsFromModuleToAccount(ctx, minttypes.ModuleName, actors[a], coins); err != nil {
					panic(err)
				}
			}
			balsCoq = append(balsCoq, fmt.Sprintf("((%d, 0), %s)", a, hx.ZInt(amt)))
			jinit[fmt.Sprintf("actor%d_ukex", a)] = amt.String()
		}
		props := app.CustomGovKeeper.GetNetworkProperties(ctx)
		setParams := func(rate, maxann string, period uint64) bool {
			p := *app.CustomGovKeeper.GetNetworkProperties(ctx)
			p.InflationRate = sdk.MustNewDecFromStr(rate)
			p.MaxAnnualInflation = sdk.MustNewDecFromStr(maxann)
			p.InflationPeriod = period
			c, write := ctx.CacheContext()
			if err := app.CustomGovKeeper.SetNetworkProperties(c, &p); err != nil {
				return false
			}
			write()
			return true
		}
		if hr.Chance(60) {
			setParams(rateChoices[hr.Intn(len(rateChoices))], maxAnnChoices[hr.Intn(len(maxAnnChoices))], periodChoices[hr.Intn(len(periodChoices))])
		}
		if (flavour == 2 && hr.Chance(85)) || (flavour == 3 && hr.Chance(60)) { // the genesis record alone exceeds the default hard cap
			p := *app.CustomGovKeeper.GetNetworkProperties(ctx)
			p.UbiHardcap = []uint64{12000000, 7000000, 1 << 40, 6100000}[hr.Intn(4)]
			if err := app.CustomGovKeeper.SetNetworkProperties(ctx, &p); err != nil {
				panic(err)
			}
		}
		props = app.CustomGovKeeper.GetNetworkProperties(ctx)
		// optional pre-set snapshots (states a long-running chain would be in)
		s0 := supplyOf(ctx, native)
		if hr.Chance(50) {
			amt := s0
			switch hr.Intn(4) {
			case 0:
				amt = s0.MulRaw(int64(hr.Range(80, 100))).QuoRaw(100)
			case 1:
				amt = s0.AddRaw(hr.Range(0, 1000))
			}
			app.DistrKeeper.SetPeriodicSnapshot(ctx, distrtypes.SupplySnapshot{SnapshotTime: T0 - hr.Range(0, 3000000), SnapshotAmount: amt})
		}
		if flavour == 4 { // a year-start snapshot at (or just below) the current supply, some months old
			amt := s0
			if hr.Chance(40) {
				amt = s0.SubRaw(hr.Range(0, 1000000))
			}
			if s0.IsPositive() && amt.IsPositive() {
				app.DistrKeeper.SetYearStartSnapshot(ctx, distrtypes.SupplySnapshot{SnapshotTime: T0 - hr.Range(0, 28000000), SnapshotAmount: amt})
			}
		} else if hr.Chance(50) {
			amt := s0
			switch hr.Intn(4) {
			case 0:
				amt = s0.MulRaw(int64(hr.Range(70, 100))).QuoRaw(100)
			case 1:
				amt = s0.SubRaw(hr.Range(0, 1000))
			case 2:
				amt = sdk.ZeroInt()
			}
			app.DistrKeeper.SetYearStartSnapshot(ctx, distrtypes.SupplySnapshot{SnapshotTime: T0 - hr.Range(0, 32000000), SnapshotAmount: amt})
		}
		ps, ys := app.DistrKeeper.GetPeriodicSnapshot(ctx), app.DistrKeeper.GetYearStartSnapshot(ctx)
		initCoq := fmt.Sprintf("(mkInit %s %s (mkParams %s %s %s %s) (mkSnap %s %s) (mkSnap %s %s))", hx.ZInt(s0), hx.List(balsCoq),
			decRaw(props.InflationRate), hx.ZU(props.InflationPeriod), decRaw(props.MaxAnnualInflation), hx.ZU(props.UbiHardcap),
			hx.Z(ps.SnapshotTime), oint(ps.SnapshotAmount), hx.Z(ys.SnapshotTime), oint(ys.SnapshotAmount))
		jinit["native_supply"] = s0.String()
		jinit["inflation_rate"], jinit["inflation_period"], jinit["max_annual_inflation"], jinit["ubi_hardcap"] = props.InflationRate.String(), props.InflationPeriod, props.MaxAnnualInflation.String(), props.UbiHardcap
		jinit["periodic_snapshot"] = fmt.Sprintf("%d/%s", ps.SnapshotTime, ps.SnapshotAmount)
		jinit["year_snapshot"] = fmt.Sprintf("%d/%s", ys.SnapshotTime, ys.SnapshotAmount)
		jinit["seed"], jinit["t0"] = seed, T0

		var steps []string
		var jops []jop
		add := func(opCoq, obsCoq string, j jop) {
			steps = append(steps, "("+opCoq+", "+obsCoq+")")
			jops = append(jops, j)
			dist.Inc(j.Kind + ":" + j.Res)
		}
		// run f on a cache of the history state; commit only when it succeeds (transaction / proposal atomicity)
		atomic := func(f func(c sdk.Context) error) (int, string, string) {
			c, write := ctx.CacheContext()
			var err error
			pan := hx.Try(func() { err = f(c) })
			code, cls, msg := resCode(err, pan)
			if code == 0 {
				write()
			}
			return code, cls, msg
		}
		tokObs := func(code int, d int) (string, map[string]interface{}) {
			ti := app.TokensKeeper.GetTokenInfo(ctx, denoms[d])
			nat := supplyOf(ctx, native)
			bd := supplyOf(ctx, denoms[d])
			if ti == nil {
				return fmt.Sprintf("(TObs %d %s None %s)", code, hx.ZInt(nat), hx.ZInt(bd)), map[string]interface{}{"native_supply": nat.String(), "registered": false, "bank_supply": bd.String()}
			}
			return fmt.Sprintf("(TObs %d %s (Some (mkTok %s %s %d %s %s %s)) %s)", code, hx.ZInt(nat), hx.ZInt(ti.Supply), hx.ZInt(ti.SupplyCap), actorID(ti.Owner), hx.B(ti.OwnerEditDisabled), decRaw(ti.FeeRate), decRaw(ti.StakeCap), hx.ZInt(bd)),
				map[string]interface{}{"native_supply": nat.String(), "registered": true, "reg_supply": ti.Supply.String(), "cap": ti.SupplyCap.String(), "owner": actorID(ti.Owner), "bank_supply": bd.String()}
		}

		doBlock := func(dt int64) {
			now += dt
			height++
			hdr := ctx.BlockHeader()
			// block times carry a nanosecond part (the code under test works on whole seconds: Unix())
			nanos := []int64{0, 1, 999999999, 500000000, hr.Range(0, 999999999)}[hr.Intn(5)]
			hdr.Time = time.Unix(now, nanos).UTC()
			hdr.Height = height
			hdr.ProposerAddress = []byte("c13_proposer________")
			before := supplyOf(ctx, native)
			recsBefore := ubiJSON(app.UbiKeeper.GetUBIRecords(ctx))
			var sBegin, sUbi sdk.Int
			var mints []sdk.Int
			prevCtx := ctx
			code, cls, msg := 0, "", ""
			func() {
				c, write := ctx.WithBlockHeader(hdr).CacheContext()
				pan := hx.Try(func() {
					app.DistrKeeper.BeginBlocker(c, abci.RequestBeginBlock{Header: hdr})
					sBegin = supplyOf(c, native)
					// the ubi end blocker on its own event manager: its coinbase events are the per-record mints, in order
					cu := c.WithEventManager(sdk.NewEventManager())
					ubi.EndBlocker(cu, app.UbiKeeper)
					for _, ev := range cu.EventManager().Events() {
						if ev.Type != "coinbase" {
							continue
						}
						for _, at := range ev.Attributes {
							if string(at.Key) == "amount" {
								coins, err := sdk.ParseCoinsNormalized(string(at.Value))
								if err != nil {
									panic(err)
								}
								if a := coins.AmountOf(native); a.IsPositive() {
									mints = append(mints, a)
								}
							}
						}
					}
					sUbi = supplyOf(c, native)
					app.DistrKeeper.EndBlocker(c)
				})
				code, cls, msg = resCode(nil, pan)
				if code == 0 {
					write()
					ctx = ctx.WithBlockHeader(hdr)
				}
			}()
			if code != 0 { // a panic in a block handler: the block is discarded (time does not advance in the model either)
				now -= dt
				height--
				ctx = prevCtx
				sBegin, sUbi = before, before
				mints = nil
			}
			var mintsCoq, mintsJ []string
			for _, m := range mints {
				mintsCoq = append(mintsCoq, hx.ZInt(m))
				mintsJ = append(mintsJ, m.String())
			}
			ps, ys := app.DistrKeeper.GetPeriodicSnapshot(ctx), app.DistrKeeper.GetYearStartSnapshot(ctx)
			regn := sdk.ZeroInt()
			if ti := app.TokensKeeper.GetTokenInfo(ctx, native); ti != nil {
				regn = ti.Supply
			}
			obs := fmt.Sprintf("(BObs %d %s %s (mkSnap %s %s) (mkSnap %s %s) %s %s %s %s)", code, hx.ZInt(sBegin), hx.ZInt(sUbi), hx.Z(ps.SnapshotTime), oint(ps.SnapshotAmount),
				hx.Z(ys.SnapshotTime), oint(ys.SnapshotAmount), ubisCoq(ctx), hx.ZInt(poolBal(ctx)), hx.ZInt(regn), hx.List(mintsCoq))
			add(fmt.Sprintf("OBlock %d", dt), obs, jop{Kind: "block", Args: map[string]interface{}{"dt": dt, "time": now, "time_nanos": nanos, "height": height}, Res: cls, Err: msg,
				Obs: map[string]interface{}{"ubi_mints_in_order": mintsJ, "supply_before": before.String(), "supply_after_inflation": sBegin.String(), "supply_after_ubi": sUbi.String(),
					"ubi_records_before": recsBefore, "ubi_records": ubiJSON(app.UbiKeeper.GetUBIRecords(ctx)), "native_registry_supply": regn.String(),
					"periodic_snapshot": fmt.Sprintf("%d/%s", ps.SnapshotTime, ps.SnapshotAmount), "year_snapshot": fmt.Sprintf("%d/%s", ys.SnapshotTime, ys.SnapshotAmount)}})
		}
		doParams := func() {
			rate, maxann, period := rateChoices[hr.Intn(len(rateChoices))], maxAnnChoices[hr.Intn(len(maxAnnChoices))], periodChoices[hr.Intn(len(periodChoices))]
			if hr.Chance(30) {
				period = uint64(hr.Range(2629800, 31557600))
			}
			if hr.Chance(30) {
				rate = sdk.NewDecWithPrec(hr.Range(0, 500000000000000000), 18).String()
			}
			how := "keeper"
			if hr.Chance(50) { // one passed SetNetworkProperty proposal per property, through the real handler (an unchanged value is rejected by it)
				how = "proposals"
				h := gov.NewApplySetNetworkPropertyProposalHandler(app.CustomGovKeeper)
				for _, pr := range []govtypes.SetNetworkPropertyProposal{
					{NetworkProperty: govtypes.InflationRate, Value: govtypes.NetworkPropertyValue{StrValue: rate}},
					{NetworkProperty: govtypes.InflationPeriod, Value: govtypes.NetworkPropertyValue{Value: period}},
					{NetworkProperty: govtypes.MaxAnnualInflation, Value: govtypes.NetworkPropertyValue{StrValue: maxann}},
				} {
					prop := pr
					atomic(func(c sdk.Context) error { return h.Apply(c, 1, &prop, sdk.ZeroDec()) })
				}
			} else if !setParams(rate, maxann, period) {
				return
			}
			p := app.CustomGovKeeper.GetNetworkProperties(ctx)
			rate, period, maxann = p.InflationRate.String(), p.InflationPeriod, p.MaxAnnualInflation.String()
			add(fmt.Sprintf("OParams %s %s %s", decRaw(p.InflationRate), hx.ZU(p.InflationPeriod), decRaw(p.MaxAnnualInflation)), fmt.Sprintf("(PObs 0 %s)", hx.ZInt(supplyOf(ctx, native))),
				jop{Kind: "params", Args: map[string]interface{}{"inflation_rate": rate, "inflation_period": period, "max_annual_inflation": maxann, "set_by": how}, Res: "ok"})
		}
		doHardcapV := func(v uint64) {
			p := *app.CustomGovKeeper.GetNetworkProperties(ctx)
			p.UbiHardcap = v
			code, cls, msg := atomic(func(c sdk.Context) error { return app.CustomGovKeeper.SetNetworkProperties(c, &p) })
			if code != 0 {
				return
			}
			add(fmt.Sprintf("OHardcap %s", hx.ZU(v)), fmt.Sprintf("(PObs 0 %s)", hx.ZInt(supplyOf(ctx, native))), jop{Kind: "hardcap", Args: map[string]interface{}{"ubi_hardcap": v}, Res: cls, Err: msg})
		}
		doHardcap := func() { doHardcapV([]uint64{0, 1, 6000000, 100, 1 << 40, 1<<64 - 1, 493150, 12000000}[hr.Intn(8)]) }
		var doUbiUpsertArgs func(name int, amount, period, start, end uint64, pool int)
		doUbiUpsert := func() {
			name := 1 + hr.Intn(4)
			if hr.Chance(10) {
				name = 0
			}
			var amount, period uint64
			if hr.Chance(55) { // mostly valid by construction: yearly total well inside the default hard cap
				period = []uint64{86400, 2592000, 31556952, 3600, 604800}[hr.Intn(5)]
				amount = uint64(hr.Range(1, 2000))
			} else {
				amount, period = ubiAmounts[hr.Intn(len(ubiAmounts))], ubiPeriods[hr.Intn(len(ubiPeriods))]
				if hr.Chance(30) {
					amount = uint64(hr.Next())
				}
			}
			start := uint64(0)
			switch hr.Intn(4) {
			case 0:
				start = uint64(now)
			case 1:
				start = uint64(now - hr.Range(0, 5000000))
			case 2:
				start = uint64(now + hr.Range(0, 5000000))
			}
			end := uint64(0)
			if hr.Chance(30) {
				end = uint64(now + hr.Range(-100000, 40000000))
			}
			pool := 0
			if hr.Chance(8) {
				pool = 1
			}
			doUbiUpsertArgs(name, amount, period, start, end, pool)
		}
		doUbiUpsertArgs = func(name int, amount, period, start, end uint64, pool int) {
			code, cls, msg := atomic(func(c sdk.Context) error {
				return ubiH.Apply(c, 1, &ubitypes.UpsertUBIProposal{Name: ubiNames[name], DistributionStart: start, DistributionEnd: end, Amount: amount, Period: period, Pool: poolNames[pool]}, sdk.ZeroDec())
			})
			add(fmt.Sprintf("OUbiUpsert %d %s %s %s %s %d", name, hx.ZU(amount), hx.ZU(period), hx.ZU(start), hx.ZU(end), pool), fmt.Sprintf("(UObs %d %s %s)", code, hx.ZInt(supplyOf(ctx, native)), ubisCoq(ctx)),
				jop{Kind: "ubi_upsert", Args: map[string]interface{}{"name": ubiNames[name], "amount": amount, "period": period, "start": start, "end": end, "pool": poolNames[pool]}, Res: cls, Err: msg,
					Obs: map[string]interface{}{"hardcap": app.CustomGovKeeper.GetNetworkProperties(ctx).UbiHardcap, "records": ubiJSON(app.UbiKeeper.GetUBIRecords(ctx))}})
		}
		doUbiRemove := func() {
			name := hr.Intn(5)
			code, cls, msg := atomic(func(c sdk.Context) error { return ubiR.Apply(c, 1, &ubitypes.RemoveUBIProposal{UbiName: ubiNames[name]}, sdk.ZeroDec()) })
			add(fmt.Sprintf("OUbiRemove %d", name), fmt.Sprintf("(UObs %d %s %s)", code, hx.ZInt(supplyOf(ctx, native)), ubisCoq(ctx)), jop{Kind: "ubi_remove", Args: map[string]interface{}{"name": ubiNames[name]}, Res: cls, Err: msg})
		}
		pickDenom := func() int {
			if hr.Chance(75) {
				return 4 + hr.Intn(3)
			}
			return hr.Intn(len(denoms))
		}
		pickRegistered := func() int { // mostly a registered denom (an unregistered one makes the layer2 handlers panic)
			d := pickDenom()
			for k := 0; k < 6 && app.TokensKeeper.GetTokenInfo(ctx, denoms[d]) == nil && hr.Chance(85); k++ {
				d = pickDenom()
			}
			return d
		}
		pickFee := func() sdk.Dec {
			return []sdk.Dec{sdk.NewDec(1), sdk.NewDecWithPrec(1, 1), sdk.NewDec(10), sdk.NewDecWithPrec(1, 3), sdk.ZeroDec(), sdk.NewDecWithPrec(-1, 1), sdk.NewDecWithPrec(5, 1)}[hr.Intn(7)]
		}
		pickStake := func() sdk.Dec {
			if hr.Chance(70) {
				return sdk.ZeroDec()
			}
			return []sdk.Dec{sdk.NewDecWithPrec(1, 1), sdk.NewDecWithPrec(2, 1), sdk.NewDecWithPrec(5, 2), sdk.NewDecWithPrec(11, 1), sdk.NewDecWithPrec(-1, 1)}[hr.Intn(5)]
		}
		var doUpsertMsgArgs func(actor, d int, supply, capv sdk.Int, owner int, noedit bool, fee, stake sdk.Dec)
		doUpsertMsg := func() {
			d := pickDenom()
			actor := 1 + hr.Intn(4)
			cur := app.TokensKeeper.GetTokenInfo(ctx, denoms[d])
			if cur != nil && hr.Chance(75) { // mostly the real owner edits
				if id := actorID(cur.Owner); id >= 1 && id <= 4 {
					actor = int(id)
				}
			} else if cur == nil && hr.Chance(70) {
				actor = 1
			}
			supply := sdk.NewInt([]int64{0, 0, 0, 500, 1000, 1001, -3}[hr.Intn(7)])
			capv := sdk.NewInt(capChoices[hr.Intn(len(capChoices))])
			if cur != nil && hr.Chance(50) { // around the current cap / supply
				capv = cur.SupplyCap.AddRaw(hr.Range(-2, 2))
				if hr.Chance(30) {
					capv = cur.Supply.AddRaw(hr.Range(-2, 2))
				}
			}
			owner := 1 + hr.Intn(4)
			if hr.Chance(60) {
				owner = actor
			}
			if hr.Chance(10) {
				owner = 0
			}
			noedit := hr.Chance(8)
			fee, stake := pickFee(), pickStake()
			if hr.Chance(70) && !fee.IsPositive() {
				fee = sdk.NewDec(1)
			}
			doUpsertMsgArgs(actor, d, supply, capv, owner, noedit, fee, stake)
		}
		doUpsertMsgArgs = func(actor, d int, supply, capv sdk.Int, owner int, noedit bool, fee, stake sdk.Dec) {
			cur := app.TokensKeeper.GetTokenInfo(ctx, denoms[d])
			perm := app.CustomGovKeeper.CheckIfAllowedPermission(ctx, actors[actor], govtypes.PermUpsertTokenInfo)
			code, cls, msg := atomic(func(c sdk.Context) error {
				_, err := tms.UpsertTokenInfo(sdk.WrapSDKContext(c), &tokenstypes.MsgUpsertTokenInfo{Proposer: actors[actor], Denom: denoms[d], TokenType: "adr20", FeeRate: fee, FeeEnabled: true,
					Supply: supply, SupplyCap: capv, StakeCap: stake, StakeMin: sdk.OneInt(), Symbol: "S", Name: "N", Decimals: 6, MintingFee: sdk.ZeroInt(), Owner: actorStr(owner), OwnerEditDisabled: noedit})
				return err
			})
			obs, jo := tokObs(code, d)
			jargs := map[string]interface{}{"actor": actor, "has_permission": perm, "denom": denoms[d], "supply": supply.String(), "cap": capv.String(), "owner": owner, "owner_edit_disabled": noedit, "fee_rate": fee.String(), "stake_cap": stake.String(), "existed": cur != nil}
			if cur != nil {
				jargs["cap_before"], jargs["owner_before"] = cur.SupplyCap.String(), actorID(cur.Owner)
			}
			add(fmt.Sprintf("OUpsertMsg %d %s %d %s %s %d %s %s %s", actor, hx.B(perm), d, hx.ZInt(supply), hx.ZInt(capv), owner, hx.B(noedit), decRaw(fee), decRaw(stake)), obs,
				jop{Kind: "upsert_msg", Args: jargs, Res: cls, Err: msg, Obs: jo})
		}
		doPropUpsert := func() {
			d := pickDenom()
			if hr.Chance(15) {
				d = 0
			}
			supply := sdk.NewInt([]int64{0, 0, 500, 1000}[hr.Intn(4)])
			capv := sdk.NewInt(capChoices[hr.Intn(len(capChoices))])
			owner := hr.Intn(5)
			noedit := hr.Chance(10)
			fee, stake := pickFee(), pickStake()
			code, cls, msg := atomic(func(c sdk.Context) error {
				return tokH.Apply(c, 1, &tokenstypes.ProposalUpsertTokenInfo{Denom: denoms[d], TokenType: "adr20", FeeRate: fee, FeeEnabled: true, Supply: supply, SupplyCap: capv, StakeCap: stake,
					StakeMin: sdk.OneInt(), Symbol: "S", Name: "N", Decimals: 6, MintingFee: sdk.ZeroInt(), Owner: actorStr(owner), OwnerEditDisabled: noedit}, sdk.ZeroDec())
			})
			obs, jo := tokObs(code, d)
			add(fmt.Sprintf("OPropUpsert %d %s %s %d %s %s %s", d, hx.ZInt(supply), hx.ZInt(capv), owner, hx.B(noedit), decRaw(fee), decRaw(stake)), obs,
				jop{Kind: "upsert_proposal", Args: map[string]interface{}{"denom": denoms[d], "supply": supply.String(), "cap": capv.String(), "owner": owner, "owner_edit_disabled": noedit, "fee_rate": fee.String(), "stake_cap": stake.String()}, Res: cls, Err: msg, Obs: jo})
		}
		pickAmt := func(d int) sdk.Int {
			cur := app.TokensKeeper.GetTokenInfo(ctx, denoms[d])
			if cur != nil && cur.SupplyCap.IsPositive() && hr.Chance(50) { // steer to the cap boundary
				return cur.SupplyCap.Sub(cur.Supply).AddRaw(hr.Range(-1, 1))
			}
			return sdk.NewInt(amtChoices[hr.Intn(len(amtChoices))])
		}
		var doMintIssueArgs func(actor, d int, amt sdk.Int)
		doMintIssue := func(d int) {
			actor := 1 + hr.Intn(4)
			cur := app.TokensKeeper.GetTokenInfo(ctx, denoms[d])
			if cur != nil && hr.Chance(50) {
				if id := actorID(cur.Owner); id >= 1 && id <= 4 {
					actor = int(id)
				}
			}
			doMintIssueArgs(actor, d, pickAmt(d))
		}
		doMintIssueArgs = func(actor, d int, amt sdk.Int) {
			cur := app.TokensKeeper.GetTokenInfo(ctx, denoms[d])
			code, cls, msg := atomic(func(c sdk.Context) error {
				_, err := lms.MintIssueTx(sdk.WrapSDKContext(c), &layer2types.MsgMintIssueTx{Sender: actors[actor].String(), Denom: denoms[d], Amount: amt, Receiver: actors[actor].String()})
				return err
			})
			obs, jo := tokObs(code, d)
			ja := map[string]interface{}{"actor": actor, "denom": denoms[d], "amount": amt.String(), "is_owner": cur != nil && cur.Owner == actors[actor].String()}
			add(fmt.Sprintf("OMintIssue %d %d %s", actor, d, hx.ZInt(amt)), obs, jop{Kind: "mint_issue", Args: ja, Res: cls, Err: msg, Obs: jo})
		}
		// two MsgMintIssueTx in ONE transaction (one cache context, committed only if both succeed); near a cap each
		// amount fits alone and only the SUM exceeds it
		doMintIssue2 := func(d int) {
			actor := 1 + hr.Intn(4)
			cur := app.TokensKeeper.GetTokenInfo(ctx, denoms[d])
			if cur != nil && hr.Chance(60) {
				if id := actorID(cur.Owner); id >= 1 && id <= 4 {
					actor = int(id)
				}
			}
			a1, a2 := pickAmt(d), pickAmt(d)
			if cur != nil && cur.SupplyCap.IsPositive() && hr.Chance(70) {
				room := cur.SupplyCap.Sub(cur.Supply)
				if room.GT(sdk.NewInt(3)) {
					a1 = room.MulRaw(hr.Range(35, 95)).QuoRaw(100)
					a2 = room.Sub(a1).AddRaw(hr.Range(-1, 1))
					if hr.Chance(25) {
						a2 = room.MulRaw(hr.Range(35, 95)).QuoRaw(100)
					}
				}
			}
			code, cls, msg := atomic(func(c sdk.Context) error {
				for _, a := range []sdk.Int{a1, a2} {
					if _, err := lms.MintIssueTx(sdk.WrapSDKContext(c), &layer2types.MsgMintIssueTx{Sender: actors[actor].String(), Denom: denoms[d], Amount: a, Receiver: actors[actor].String()}); err != nil {
						return err
					}
				}
				return nil
			})
			obs, jo := tokObs(code, d)
			ja := map[string]interface{}{"actor": actor, "denom": denoms[d], "amount1": a1.String(), "amount2": a2.String(), "is_owner": cur != nil && cur.Owner == actors[actor].String()}
			if cur != nil {
				ja["cap_before"], ja["reg_supply_before"] = cur.SupplyCap.String(), cur.Supply.String()
			}
			add(fmt.Sprintf("OMintIssue2 %d %d %s %s", actor, d, hx.ZInt(a1), hx.ZInt(a2)), obs, jop{Kind: "mint_issue_x2_one_tx", Args: ja, Res: cls, Err: msg, Obs: jo})
		}
		doBurn := func(d int) {
			actor := 1 + hr.Intn(4)
			amt := sdk.NewInt(amtChoices[hr.Intn(len(amtChoices))])
			if bal := app.BankKeeper.GetBalance(ctx, actors[actor], denoms[d]).Amount; bal.IsPositive() && hr.Chance(60) {
				amt = bal.QuoRaw(int64(hr.Range(1, 4)))
				if hr.Chance(15) {
					amt = bal.AddRaw(1)
				}
			}
			code, cls, msg := atomic(func(c sdk.Context) error {
				_, err := lms.MintBurnTx(sdk.WrapSDKContext(c), &layer2types.MsgMintBurnTx{Sender: actors[actor].String(), Denom: denoms[d], Amount: amt})
				return err
			})
			obs, jo := tokObs(code, d)
			add(fmt.Sprintf("OBurn %d %d %s", actor, d, hx.ZInt(amt)), obs, jop{Kind: "burn", Args: map[string]interface{}{"actor": actor, "denom": denoms[d], "amount": amt.String()}, Res: cls, Err: msg, Obs: jo})
		}
		// genesis round trip of every module that holds C13 state: real ExportGenesis (AppModule entry point, JSON codec),
		// the module's store wiped, real InitGenesis; the history then continues on the imported state
		doGenesis := func() {
			type mod struct {
				name string
				exp  func(c sdk.Context) []byte
				imp  func(c sdk.Context, bz []byte)
			}
			cdc := app.AppCodec()
			mods := []mod{
				{distrtypes.ModuleName, func(c sdk.Context) []byte { return distributor.NewAppModule(app.DistrKeeper, app.CustomGovKeeper).ExportGenesis(c, cdc) },
					func(c sdk.Context, bz []byte) { distributor.NewAppModule(app.DistrKeeper, app.CustomGovKeeper).InitGenesis(c, cdc, bz) }},
				{ubitypes.ModuleName, func(c sdk.Context) []byte { return ubi.NewAppModule(app.UbiKeeper, app.CustomGovKeeper).ExportGenesis(c, cdc) },
					func(c sdk.Context, bz []byte) { ubi.NewAppModule(app.UbiKeeper, app.CustomGovKeeper).InitGenesis(c, cdc, bz) }},
				{tokenstypes.ModuleName, func(c sdk.Context) []byte { return tokens.NewAppModule(app.TokensKeeper, app.CustomGovKeeper).ExportGenesis(c, cdc) },
					func(c sdk.Context, bz []byte) { tokens.NewAppModule(app.TokensKeeper, app.CustomGovKeeper).InitGenesis(c, cdc, bz) }},
				{layer2types.ModuleName, func(c sdk.Context) []byte { return layer2.NewAppModule(app.Layer2Keeper).ExportGenesis(c, cdc) },
					func(c sdk.Context, bz []byte) { layer2.NewAppModule(app.Layer2Keeper).InitGenesis(c, cdc, bz) }},
				{spendingtypes.ModuleName, func(c sdk.Context) []byte { return spending.NewAppModule(app.SpendingKeeper, app.CustomGovKeeper, app.BankKeeper).ExportGenesis(c, cdc) },
					func(c sdk.Context, bz []byte) { spending.NewAppModule(app.SpendingKeeper, app.CustomGovKeeper, app.BankKeeper).InitGenesis(c, cdc, bz) }},
			}
			code, cls, msg := atomic(func(c sdk.Context) error {
				for _, m := range mods {
					bz := m.exp(c)
					store := c.KVStore(app.GetKey(m.name))
					var keys [][]byte
					it := store.Iterator(nil, nil)
					for ; it.Valid(); it.Next() {
						keys = append(keys, append([]byte{}, it.Key()...))
					}
					it.Close()
					for _, k := range keys {
						store.Delete(k)
					}
					m.imp(c, bz)
				}
				return nil
			})
			ps, ys := app.DistrKeeper.GetPeriodicSnapshot(ctx), app.DistrKeeper.GetYearStartSnapshot(ctx)
			var banks []string
			infos := app.TokensKeeper.GetAllTokenInfos(ctx)
			sort.Slice(infos, func(i, j int) bool { return denomID(infos[i].Denom) < denomID(infos[j].Denom) })
			for _, ti := range infos {
				banks = append(banks, fmt.Sprintf("(%d, %s)", denomID(ti.Denom), hx.ZInt(supplyOf(ctx, ti.Denom))))
			}
			obs := fmt.Sprintf("(GObs %d %s (mkSnap %s %s) (mkSnap %s %s) %s %s %s %s)", code, hx.ZInt(supplyOf(ctx, native)), hx.Z(ps.SnapshotTime), oint(ps.SnapshotAmount),
				hx.Z(ys.SnapshotTime), oint(ys.SnapshotAmount), ubisCoq(ctx), hx.ZInt(poolBal(ctx)), regCoq(ctx), hx.List(banks))
			add("OGenesis", obs, jop{Kind: "genesis_round_trip", Args: map[string]interface{}{"modules": "distributor,ubi,tokens,layer2,spending", "time": now}, Res: cls, Err: msg,
				Obs: map[string]interface{}{"periodic_snapshot": fmt.Sprintf("%d/%s", ps.SnapshotTime, ps.SnapshotAmount), "year_snapshot": fmt.Sprintf("%d/%s", ys.SnapshotTime, ys.SnapshotAmount),
					"ubi_records": ubiJSON(app.UbiKeeper.GetUBIRecords(ctx)), "native_supply": supplyOf(ctx, native).String(),
					"inflation_possible_after": app.DistrKeeper.InflationPossible(ctx)}})
		}
		doFee := func() {
			actor := 1 + hr.Intn(4)
			amt := sdk.NewInt(hr.Range(1, 100000))
			code, cls, msg := atomic(func(c sdk.Context) error {
				return app.BankKeeper.SendCoins(c, actors[actor], feeCollector, sdk.NewCoins(sdk.NewCoin(native, amt)))
			})
			add(fmt.Sprintf("OFee %d %s", actor, hx.ZInt(amt)), fmt.Sprintf("(PObs %d %s)", code, hx.ZInt(supplyOf(ctx, native))), jop{Kind: "fee", Args: map[string]interface{}{"actor": actor, "amount": amt.String()}, Res: cls, Err: msg})
		}
		pickDt := func() int64 {
			if hr.Chance(25) {
				return hr.Range(1, 40000000)
			}
			if hr.Chance(20) { // land exactly on / next to a snapshot boundary
				p := app.CustomGovKeeper.GetNetworkProperties(ctx)
				ps := app.DistrKeeper.GetPeriodicSnapshot(ctx)
				ys := app.DistrKeeper.GetYearStartSnapshot(ctx)
				cands := []int64{ps.SnapshotTime + int64(p.InflationPeriod) - now, ys.SnapshotTime + 31104000 - now, ys.SnapshotTime + 2592000 - now}
				d := cands[hr.Intn(3)] + hr.Range(-1, 1)
				if d >= 1 {
					return d
				}
			}
			return dtChoices[hr.Intn(len(dtChoices))]
		}

		nops := 8 + hr.Intn(22)
		// the first histories replay the witnesses of the refuted theorems (Properties/C13.v) on the real code
		switch hi {
		case 0: // native_minted_only_by_inflation_or_ubi_refuted: a stranger mints the native token through layer2
			kind, nops = "witness:mint_issue_native", 0
			doBlock(5)
			doMintIssueArgs(3, 0, sdk.NewInt(1000))
			doBlock(5)
		case 1: // ubi_overflow_refuted: amount * 31556952 wraps to 0 in uint64, the record passes the hard cap
			kind, nops = "witness:ubi_u64_wrap", 0
			doHardcapV(7000000)
			doUbiUpsertArgs(1, 1<<63, 2592000, 0, 0, 0)
		case 2: // owner_cannot_raise_or_remove_cap_refuted: negative cap passes both guards; the old cap is then exceeded
			kind, nops = "witness:negative_cap", 0
			doUpsertMsgArgs(1, 4, sdk.ZeroInt(), sdk.NewInt(1000), 1, false, sdk.NewDec(1), sdk.ZeroDec())
			doMintIssueArgs(1, 4, sdk.NewInt(1000))
			doMintIssueArgs(1, 4, sdk.NewInt(1))
			doUpsertMsgArgs(1, 4, sdk.ZeroInt(), sdk.NewInt(1001), 1, false, sdk.NewDec(1), sdk.ZeroDec())
			doUpsertMsgArgs(1, 4, sdk.ZeroInt(), sdk.NewInt(0), 1, false, sdk.NewDec(1), sdk.ZeroDec())
			doUpsertMsgArgs(1, 4, sdk.ZeroInt(), sdk.NewInt(-1), 1, false, sdk.NewDec(1), sdk.ZeroDec())
			doMintIssueArgs(1, 4, sdk.NewInt(5000))
		case 3: // ubi period wrap: DistributionLast + Period overflows uint64, the record is due in every block
			kind, nops = "witness:ubi_period_wrap", 0
			doHardcapV(7000000)
			doUbiUpsertArgs(2, 3, 1<<64-1, uint64(now), 0, 0)
			doBlock(5)
			doBlock(5)
		}
		if flavour == 4 && hi >= 4 {
			// Several UBI records falling due in ONE block while the pro-rated annual allowance is almost used up:
			// every record fits the remaining allowance alone, together they do not.  The gate must be re-read
			// after each payout (and after the inflation of the same block).
			doUbiRemove0 := func() {
				code, cls, msg := atomic(func(c sdk.Context) error { return ubiR.Apply(c, 1, &ubitypes.RemoveUBIProposal{UbiName: ubiNames[0]}, sdk.ZeroDec()) })
				add("OUbiRemove 0", fmt.Sprintf("(UObs %d %s %s)", code, hx.ZInt(supplyOf(ctx, native)), ubisCoq(ctx)), jop{Kind: "ubi_remove", Args: map[string]interface{}{"name": ubiNames[0]}, Res: cls, Err: msg})
			}
			if hr.Chance(80) {
				doUbiRemove0()
			}
			doHardcapV(1 << 40)
			if hr.Chance(40) {
				doBlock(pickDt()) // snapshots of a running chain
			}
			nrec := 2 + hr.Intn(3)
			period := []uint64{3600, 86400, 60, 604800}[hr.Intn(4)]
			var amounts []int64
			for j := 0; j < nrec; j++ {
				amounts = append(amounts, hr.Range(1, 3000))
			}
			for j := 0; j < nrec; j++ {
				doUbiUpsertArgs(1+j, uint64(amounts[j]), period, uint64(now), 0, 0)
			}
			// allowance: somewhere inside the sum of the payouts, so that an earlier record closes the gate for a later one
			ys := app.DistrKeeper.GetYearStartSnapshot(ctx)
			sup := supplyOf(ctx, native)
			target := now + int64(period) + 1 + hr.Range(0, 3)
			if !ys.SnapshotAmount.IsNil() && ys.SnapshotAmount.IsPositive() && target > ys.SnapshotTime {
				mi := (target - ys.SnapshotTime + 2592000 - 1) / 2592000
				upto := 1 + hr.Intn(nrec)
				part := int64(0)
				for j := 0; j < upto; j++ {
					part += amounts[j]
				}
				allow := sup.Sub(ys.SnapshotAmount).Add(sdk.NewInt(part * 1000000).MulRaw(hr.Range(30, 110)).QuoRaw(100))
				if allow.IsPositive() {
					maxann := sdk.NewDecFromInt(allow).MulInt64(12).QuoInt(ys.SnapshotAmount).QuoInt64(mi)
					rate := "0"
					if hr.Chance(30) { // inflation of the same block competes for the same allowance
						rate = rateChoices[hr.Intn(len(rateChoices))]
					}
					if setParams(rate, maxann.String(), app.CustomGovKeeper.GetNetworkProperties(ctx).InflationPeriod) {
						p := app.CustomGovKeeper.GetNetworkProperties(ctx)
						add(fmt.Sprintf("OParams %s %s %s", decRaw(p.InflationRate), hx.ZU(p.InflationPeriod), decRaw(p.MaxAnnualInflation)), fmt.Sprintf("(PObs 0 %s)", hx.ZInt(supplyOf(ctx, native))),
							jop{Kind: "params", Args: map[string]interface{}{"inflation_rate": rate, "inflation_period": p.InflationPeriod, "max_annual_inflation": maxann.String(), "set_by": "keeper"}, Res: "ok"})
					}
				}
			}
			doBlock(target - now)
			doBlock(int64(period) + 1)
			nops = hr.Intn(6)
		}
		for i := 0; i < nops; i++ {
			if hr.Chance(7) { // a chain restart from exported state can happen anywhere
				doGenesis()
				continue
			}
			x := hr.Intn(100)
			switch flavour {
			case 0: // inflation: blocks, parameter changes, fee flows, the occasional native mint/burn through layer2
				switch {
				case x < 62:
					doBlock(pickDt())
				case x < 76:
					doParams()
				case x < 84:
					doFee()
				case x < 90:
					doBurn(0)
				case x < 93:
					doMintIssue(0)
				case x < 97:
					doUbiUpsert()
				default:
					doHardcap()
				}
			case 1: // token registry
				switch {
				case x < 30:
					doUpsertMsg()
				case x < 52:
					doMintIssue(pickRegistered())
				case x < 65:
					doMintIssue2(pickRegistered())
				case x < 82:
					doBurn(pickRegistered())
				case x < 92:
					doPropUpsert()
				default:
					doBlock(pickDt())
				}
			case 2, 4: // ubi
				switch {
				case x < 45:
					doUbiUpsert()
				case x < 55:
					doUbiRemove()
				case x < 65:
					doHardcap()
				case x < 95:
					doBlock(pickDt())
				default:
					doParams()
				}
			default:
				switch {
				case x < 35:
					doBlock(pickDt())
				case x < 45:
					doParams()
				case x < 55:
					doUbiUpsert()
				case x < 58:
					doUbiRemove()
				case x < 61:
					doHardcap()
				case x < 72:
					doUpsertMsg()
				case x < 80:
					doMintIssue(pickRegistered())
				case x < 85:
					doMintIssue2(pickRegistered())
				case x < 93:
					doBurn(pickRegistered())
				case x < 97:
					doPropUpsert()
				default:
					doFee()
				}
			}
		}
		lines = append(lines, fmt.Sprintf("mkCase %s %s", initCoq, hx.List(steps)))
		js = append(js, jcase{Index: hi, Kind: kind, Init: jinit, Ops: jops})
	}

	var f strings.Builder
	f.WriteString("(* written by /verif/harness/cmd/c13 -- observations of the real code *)\n")
	f.WriteString("From Sekai Require Import Base.Prelude Base.Dec Model.Monetary Model.C13Check Gen.MintBurn.\n")
	f.WriteString(fmt.Sprintf("Definition t0 : Z := %d.\n", T0))
	f.WriteString("Definition reg0 : list (Z * tok) := " + regCoq(base) + ".\n")
	f.WriteString("Definition ubis0 : list ubi := " + ubisCoq(base) + ".\n")
	f.WriteString(fmt.Sprintf("Definition pools0 : list (Z * Z) := [(0, %s)].\n", hx.ZInt(poolBal(base))))
	f.WriteString(fmt.Sprintf("Definition genesis_supply : Z := %s.\n", hx.ZInt(genesisSupply)))
	out.WriteFile("pre.v", f.String())
	out.WriteFile("cases.txt", strings.Join(lines, "\n")+"\n")
	out.WriteJSON("meta.json", map[string]string{"case_type": "c13_case", "mismatch_fn": "c13_mismatches t0 reg0 ubis0 tree_config pools0", "violation_fn": "c13_violations t0 reg0 ubis0"})
	out.WriteJSON("cases.json", js)
	// the initial (genesis) state against the hard cap: reported in the evidence, not a clause (the property constrains acceptance)
	genYearly := uint64(0)
	for _, u := range app.UbiKeeper.GetUBIRecords(base) {
		if u.Period != 0 {
			genYearly += u.Amount * 31556952 / u.Period
		}
	}
	genCap := app.CustomGovKeeper.GetNetworkProperties(base).UbiHardcap
	out.WriteJSON("dist.json", map[string]interface{}{"seed": seed, "histories": len(js), "ops_by_kind_and_result": dist,
		"initial_state": map[string]interface{}{"ubi_yearly_total": genYearly, "ubi_hardcap": genCap, "within_hardcap": genYearly <= genCap,
			"ubi_records": ubiJSON(app.UbiKeeper.GetUBIRecords(base)), "native_registry_supply_minus_bank_supply": "constant over every history (C13_registry_supply_tracks_mints)"},
		"denoms": denoms, "ubi_names": ubiNames, "pools": poolNames})
	fmt.Fprintf(os.Stderr, "c13: %d histories\n", len(js))
}

func poolID(s string) int {
	for i, p := range poolNames {
		if p == s {
			return i
		}
	}
	return 9
}

func ubiJSON(rs []ubitypes.UBIRecord) []map[string]interface{} {
	var xs []map[string]interface{}
	for _, u := range rs {
		xs = append(xs, map[string]interface{}{"name": u.Name, "amount": u.Amount, "period": u.Period, "last": u.DistributionLast, "end": u.DistributionEnd, "dynamic": u.Dynamic})
	}
	return xs
}
