// c17: runs the REAL custody ante decorator (app/ante CustodyDecorator) followed by the real message
// handlers (custody msg server / bank msg server through the app's MsgServiceRouter) on generated
// histories of custody operations by owners, custodians and strangers, and writes the observations
// (outcome + state patch after every operation) for the Coq model (Model/Custody.v) and the Coq spec
// checker (Model/C17Check.v).
//
// Canonical renaming (injective on the finite sets used): accounts -> 0..N-1; the strings "" / garbage
// -> -1 / -2; sha256 hex digests of the secrets -> "K<i>" / "P<i>"; a transaction hash -> its first 8
// characters (case preserved; every hash used has a letter among them).
package main

import (
	"crypto/sha256"
	"encoding/hex"
	"flag"
	"fmt"
	"os"
	"sort"
	"strings"
	"time"

	"verif/harness/hx"

	simapp "github.com/KiraCore/sekai/app"
	customante "github.com/KiraCore/sekai/app/ante"
	custodytypes "github.com/KiraCore/sekai/x/custody/types"
	recoverytypes "github.com/KiraCore/sekai/x/recovery/types"
	sdk "github.com/cosmos/cosmos-sdk/types"
	banktypes "github.com/cosmos/cosmos-sdk/x/bank/types"
	minttypes "github.com/cosmos/cosmos-sdk/x/mint/types"
)

const N = 8 // accounts 6 and 7 have no account at the start: targets of address rotation
const denom = "ukex"

var denomNames = []string{"ukex", "uusd", "uzzz"} // codes 0,1,2 (alphabetical order = code order)

// cn: one coin of an operation
type cn struct {
	D string `json:"denom"`
	A int64  `json:"amount"`
}

const garbage = "garbage"

// ---------------------------------------------------------------- mock tx (the decorator only needs FeeTx.GetMsgs)
type mockTx struct{ msgs []sdk.Msg }

func (t mockTx) GetMsgs() []sdk.Msg         { return t.msgs }
func (t mockTx) ValidateBasic() error       { return nil }
func (t mockTx) GetGas() uint64             { return 0 }
func (t mockTx) GetFee() sdk.Coins          { return nil }
func (t mockTx) FeePayer() sdk.AccAddress   { return t.msgs[0].GetSigners()[0] }
func (t mockTx) FeeGranter() sdk.AccAddress { return nil }

// ---------------------------------------------------------------- observed state
type acctObs struct {
	Set    string // Coq term: option settings
	Cust   string
	Wl     string
	Lim    string
	Pool   string
	Bal    [3]int64
	Status string
}
type snapshot struct {
	A     [N]acctObs
	Marks map[string]string // "f t h" -> v
}

type world struct {
	app    *simapp.SekaiApp
	addrs  []sdk.AccAddress // N universe accounts + 2 filler accounts
	idx    map[string]int   // bech32 -> index
	tok    map[string]string
	hashes map[string]string // lower-case full hash -> token (8 chars)
	codes  map[string]int64
	htok   map[string]string
}

func sha(s string) string {
	h := sha256.Sum256([]byte(s))
	return hex.EncodeToString(h[:])
}

// code: the integer the model uses for a string that is only compared or decoded as an address:
// "" -> -1, the bech32 string of account i -> i, its upper-case spelling (decodes to the same address) -> 100+i,
// any other string -> a negative code of its own (-2 for the usual garbage)
func (w *world) code(s string) int64 {
	if s == "" {
		return -1
	}
	if i, ok := w.idx[s]; ok {
		return int64(i)
	}
	if i, ok := w.idx[strings.ToLower(s)]; ok && s == strings.ToUpper(s) {
		return int64(100 + i)
	}
	if c, ok := w.codes[s]; ok {
		return c
	}
	c := int64(-2 - len(w.codes))
	w.codes[s] = c
	return c
}

// token: a short printable name for a string that is only compared (keys, digests, passwords, limit
// strings); injective: every distinct string gets its own token
func (w *world) token(s string) string {
	if t, ok := w.tok[s]; ok {
		return t
	}
	t := s
	if len(s) > 10 || strings.ContainsAny(s, "\"\\") || s != strings.TrimSpace(s) {
		t = fmt.Sprintf("~%d", len(w.tok))
	}
	for _, u := range w.tok {
		if u == t {
			t = fmt.Sprintf("~%d", len(w.tok))
		}
	}
	w.tok[s] = t
	return t
}

// hashTok: the name of a hash string; spellings of a known transaction hash keep their first 8 characters
// (the model lower-cases them as the code does); any other string gets a name no lower-casing maps to a hash
func (w *world) hashTok(s string) string {
	if _, ok := w.hashes[strings.ToLower(s)]; ok && len(s) >= 8 {
		return s[:8]
	}
	if s == "" {
		return ""
	}
	if t, ok := w.htok[s]; ok {
		return t
	}
	t := fmt.Sprintf("#%d", len(w.htok))
	w.htok[s] = t
	return t
}

func optS(ok bool, s string) string { return hx.Opt(ok, s) }

func (w *world) amap(m map[string]bool) string {
	type kv struct {
		k int64
		v bool
	}
	var l []kv
	for k, v := range m {
		l = append(l, kv{w.code(k), v})
	}
	sort.Slice(l, func(i, j int) bool { return l[i].k < l[j].k })
	var xs []string
	for _, e := range l {
		xs = append(xs, hx.Pair(hx.Z(e.k), hx.B(e.v)))
	}
	return hx.List(xs)
}

var denomCode = map[string]int64{"ukex": 0, "uusd": 1, "uzzz": 2, "uabc": 3}

func (w *world) observe(ctx sdk.Context) snapshot {
	var s snapshot
	ck := w.app.CustodyKeeper
	for i := 0; i < N; i++ {
		a := w.addrs[i]
		o := &s.A[i]
		st := ck.GetCustodyInfoByAddress(ctx, a)
		if st == nil {
			o.Set = "None"
		} else {
			o.Set = fmt.Sprintf("(Some (mkSet %s %s %s %s %s %s %s))", hx.B(st.CustodyEnabled), hx.ZU(st.CustodyMode), hx.B(st.UsePassword),
				hx.B(st.UseWhiteList), hx.B(st.UseLimits), hx.Str(w.token(st.Key)), hx.Z(w.code(st.NextController)))
		}
		if c := ck.GetCustodyCustodiansByAddress(ctx, a); c == nil {
			o.Cust = "None"
		} else {
			o.Cust = "(Some " + w.amap(c.Addresses) + ")"
		}
		if c := ck.GetCustodyWhiteListByAddress(ctx, a); c == nil {
			o.Wl = "None"
		} else {
			o.Wl = "(Some " + w.amap(c.Addresses) + ")"
		}
		if c := ck.GetCustodyLimitsByAddress(ctx, a); c == nil {
			o.Lim = "None"
		} else {
			var ks []string
			for k := range c.Limits {
				ks = append(ks, k)
			}
			sort.Slice(ks, func(i, j int) bool { return denomCode[ks[i]] < denomCode[ks[j]] })
			var xs []string
			for _, k := range ks {
				v := c.Limits[k]
				if v == nil {
					v = &custodytypes.CustodyLimit{}
				}
				xs = append(xs, hx.Pair(hx.Z(denomCode[k]), hx.Pair(hx.ZU(v.Amount), hx.Str(v.Limit))))
			}
			o.Lim = "(Some " + hx.List(xs) + ")"
		}
		if p := ck.GetCustodyPoolByAddress(ctx, a); p == nil {
			o.Pool = "None"
		} else {
			var ks []string
			for k := range p.Record {
				ks = append(ks, k)
			}
			sort.Strings(ks)
			var xs []string
			for _, k := range ks {
				r := p.Record[k]
				t := r.Transaction
				xs = append(xs, hx.Pair(hx.Str(w.hashTok(k)), fmt.Sprintf("mkTx %s %s %s %s %s %s %s", hx.Z(w.code(t.FromAddress)), hx.Z(w.code(t.ToAddress)), coqSdkCoins(t.Amount),
					hx.Str(w.token(t.Password)), coqSdkCoins(t.Reward), hx.ZU(r.Votes), hx.B(r.Confirmed))))
			}
			o.Pool = "(Some " + hx.List(xs) + ")"
		}
		if c := ck.GetCustodyLimitsStatusByAddress(ctx, a); c == nil {
			o.Status = "None"
		} else {
			var ks []string
			for k := range c.Statuses {
				ks = append(ks, k)
			}
			sort.Slice(ks, func(i, j int) bool { return denomCode[ks[i]] < denomCode[ks[j]] })
			var xs []string
			for _, k := range ks {
				v := c.Statuses[k]
				if v == nil {
					v = &custodytypes.CustodyStatus{}
				}
				xs = append(xs, hx.Pair(hx.Z(denomCode[k]), hx.Pair(hx.ZU(v.Amount), hx.Z(v.Time))))
			}
			o.Status = "(Some " + hx.List(xs) + ")"
		}
		for d, name := range denomNames {
			o.Bal[d] = w.app.BankKeeper.GetBalance(ctx, a, name).Amount.Int64()
		}
	}
	s.Marks = map[string]string{}
	store := ctx.KVStore(w.app.GetKey(custodytypes.StoreKey))
	pfx := []byte(custodytypes.PrefixKeyCustodyVote)
	it := sdk.KVStorePrefixIterator(store, pfx)
	defer it.Close()
	for ; it.Valid(); it.Next() {
		k := it.Key()[len(pfx):]
		if len(k) < 40 {
			s.Marks["bad"] = "0"
			continue
		}
		f, t, h := w.code(sdk.AccAddress(k[:20]).String()), w.code(sdk.AccAddress(k[20:40]).String()), string(k[40:])
		v := string(it.Value())
		s.Marks[fmt.Sprintf("%s %s %s", hx.Z(f), hx.Z(t), hx.Str(w.hashTok(h)))] = hx.Z(map[string]int64{"1": 1, "-1": -1}[v])
	}
	return s
}

func diff(a, b snapshot) []string {
	var ps []string
	for i := 0; i < N; i++ {
		x, y := a.A[i], b.A[i]
		if x.Set != y.Set {
			ps = append(ps, fmt.Sprintf("PSet %d %s", i, y.Set))
		}
		if x.Cust != y.Cust {
			ps = append(ps, fmt.Sprintf("PCust %d %s", i, y.Cust))
		}
		if x.Wl != y.Wl {
			ps = append(ps, fmt.Sprintf("PWl %d %s", i, y.Wl))
		}
		if x.Lim != y.Lim {
			ps = append(ps, fmt.Sprintf("PLim %d %s", i, y.Lim))
		}
		if x.Pool != y.Pool {
			ps = append(ps, fmt.Sprintf("PPool %d %s", i, y.Pool))
		}
		for d := range denomNames {
			if x.Bal[d] != y.Bal[d] {
				ps = append(ps, fmt.Sprintf("PBal %d %d %s", i, d, hx.Z(y.Bal[d])))
			}
		}
		if x.Status != y.Status {
			ps = append(ps, fmt.Sprintf("PStatus %d %s", i, y.Status))
		}
	}
	var ks []string
	for k := range b.Marks {
		if a.Marks[k] != b.Marks[k] {
			ks = append(ks, k)
		}
	}
	sort.Strings(ks)
	for _, k := range ks {
		ps = append(ps, fmt.Sprintf("PMark %s %s", k, b.Marks[k]))
	}
	for k := range a.Marks {
		if _, ok := b.Marks[k]; !ok {
			ps = append(ps, fmt.Sprintf("PMarkGone %s", k))
		}
	}
	return ps
}

// ---------------------------------------------------------------- operations
type kp struct {
	Old, New, Next, Tgt string // real strings as put into the message
}
type op struct {
	Kind    string   `json:"kind"`
	Signer  int      `json:"signer"`
	Target  int      `json:"target"` // approve/decline/confirm: guarded account; bank: destination
	To      int      `json:"to"`
	Amt     []cn     `json:"amount,omitempty"`
	Cap     int64    `json:"limit_amount,omitempty"`
	Now     int64    `json:"block_time,omitempty"`
	Adds    []int    `json:"adds,omitempty"`
	Rem     int      `json:"remove,omitempty"`
	Denom   string   `json:"denom,omitempty"`
	Limit   string   `json:"limit,omitempty"`
	Set     []uint64 `json:"settings,omitempty"` // enabled, mode, pwd, wl, lim
	OldKey  string   `json:"old_key,omitempty"`
	NewKey  string   `json:"new_key,omitempty"`
	Next    string   `json:"next,omitempty"`
	TgtAddr string   `json:"target_address,omitempty"`
	Hash    string   `json:"hash,omitempty"`
	Pw      string   `json:"password,omitempty"`
	Rew     []cn     `json:"reward,omitempty"`
	TxBytes string   `json:"tx_bytes,omitempty"`
	Filler  int      `json:"filler,omitempty"` // 1: an unrelated message first (it is also the fee payer), 2: last, 3: both
	Nanos   int64    `json:"block_time_nanos,omitempty"`
	NewAddr int      `json:"rotate_to,omitempty"`
	Proof   string   `json:"recovery_proof,omitempty"`
	Ok      bool     `json:"rotation_preconditions_hold,omitempty"`
	TxID    int      `json:"tx"`
	Outcome string   `json:"outcome"`
	Err     string   `json:"err,omitempty"`
	Note    string   `json:"note,omitempty"`
}

func b2u(b bool) uint64 {
	if b {
		return 1
	}
	return 0
}

func (w *world) kpCoq(k kp) string {
	return fmt.Sprintf("(mkKp %s %s %s %s)", hx.Str(w.token(sha(k.Old))), hx.Str(w.token(k.New)), hx.Z(w.code(k.Next)), hx.Z(w.code(k.Tgt)))
}

func zlist(xs []int) string {
	var s []string
	for _, x := range xs {
		s = append(s, hx.Z(int64(x)))
	}
	return hx.List(s)
}
func z64list(xs []int64) string {
	var s []string
	for _, x := range xs {
		s = append(s, hx.Z(x))
	}
	return hx.List(s)
}

func coins(a int64) sdk.Coins { return sdk.Coins{sdk.NewInt64Coin(denom, a)} }
func uk(a int64) []cn         { return []cn{{denom, a}} }
func ukl(as []int64) []cn {
	var r []cn
	for _, a := range as {
		r = append(r, cn{denom, a})
	}
	return r
}
func sdkCoins(cs []cn) sdk.Coins {
	var r sdk.Coins
	for _, c := range cs {
		r = append(r, sdk.NewInt64Coin(c.D, c.A))
	}
	return r
}
func coqCoins(cs []cn) string {
	var xs []string
	for _, c := range cs {
		xs = append(xs, hx.Pair(hx.Z(denomCode[c.D]), hx.Z(c.A)))
	}
	return hx.List(xs)
}
func coqSdkCoins(cs sdk.Coins) string {
	var xs []string
	for _, c := range cs {
		xs = append(xs, hx.Pair(hx.Z(denomCode[c.Denom]), hx.ZInt(c.Amount)))
	}
	return hx.List(xs)
}

// build returns the sdk.Msg and the Coq term of the operation
func (w *world) build(o *op, k kp) (sdk.Msg, string) {
	sg := w.addrs[o.Signer]
	o.OldKey, o.NewKey, o.Next, o.TgtAddr = k.Old, k.New, k.Next, k.Tgt
	kc := w.kpCoq(k)
	switch o.Kind {
	case "create_custody":
		st := custodytypes.CustodySettings{CustodyEnabled: o.Set[0] == 1, CustodyMode: o.Set[1], UsePassword: o.Set[2] == 1, UseWhiteList: o.Set[3] == 1, UseLimits: o.Set[4] == 1}
		return custodytypes.NewMsgCreateCustody(sg, st, k.Old, k.New, k.Next, k.Tgt),
			fmt.Sprintf("OCreate %d (mkSet %s %s %s %s %s \"\" (-1)) %s", o.Signer, hx.B(st.CustodyEnabled), hx.ZU(st.CustodyMode), hx.B(st.UsePassword), hx.B(st.UseWhiteList), hx.B(st.UseLimits), kc)
	case "disable_custody":
		return custodytypes.NewMsgDisableCustody(sg, k.Old, k.New, k.Next, k.Tgt), fmt.Sprintf("ODisable %d %s", o.Signer, kc)
	case "drop_custody":
		return custodytypes.NewMsgDropCustody(sg, k.Old, k.Tgt), fmt.Sprintf("ODrop %d %s", o.Signer, kc)
	case "add_custodians", "add_whitelist":
		var as []sdk.AccAddress
		for _, i := range o.Adds {
			as = append(as, w.addrs[i])
		}
		if o.Kind == "add_custodians" {
			return custodytypes.NewMsgAddToCustodyCustodians(sg, as, k.Old, k.New, k.Next, k.Tgt), fmt.Sprintf("OAdd LCust %d %s %s", o.Signer, zlist(o.Adds), kc)
		}
		return custodytypes.NewMsgAddToCustodyWhiteList(sg, as, k.Old, k.New, k.Next, k.Tgt), fmt.Sprintf("OAdd LWl %d %s %s", o.Signer, zlist(o.Adds), kc)
	case "remove_custodians":
		return custodytypes.NewMsgRemoveFromCustodyCustodians(sg, w.addrs[o.Rem], k.Old, k.New, k.Next, k.Tgt), fmt.Sprintf("ORem LCust %d %d %s", o.Signer, o.Rem, kc)
	case "remove_whitelist":
		return custodytypes.NewMsgRemoveFromCustodyWhiteList(sg, w.addrs[o.Rem], k.Old, k.New, k.Next, k.Tgt), fmt.Sprintf("ORem LWl %d %d %s", o.Signer, o.Rem, kc)
	case "drop_custodians":
		return custodytypes.NewMsgDropCustodyCustodians(sg, k.Old, k.New, k.Next, k.Tgt), fmt.Sprintf("ODropL LCust %d %s", o.Signer, kc)
	case "drop_whitelist":
		return custodytypes.NewMsgDropCustodyWhiteList(sg, k.Old, k.New, k.Next, k.Tgt), fmt.Sprintf("ODropL LWl %d %s", o.Signer, kc)
	case "add_limits":
		return custodytypes.NewMsgAddToCustodyLimits(sg, o.Denom, uint64(o.Cap), o.Limit, k.Old, k.New, k.Next, k.Tgt),
			fmt.Sprintf("OAddLim %d %d %s %s %s", o.Signer, denomCode[o.Denom], hx.Z(o.Cap), hx.Str(o.Limit), kc)
	case "remove_limits":
		return custodytypes.NewMsgRemoveFromCustodyLimits(sg, o.Denom, k.Old, k.New, k.Next, k.Tgt), fmt.Sprintf("ORemLim %d %d %s", o.Signer, denomCode[o.Denom], kc)
	case "drop_limits":
		return custodytypes.NewMsgDropCustodyLimits(sg, k.Old, k.New, k.Next, k.Tgt), fmt.Sprintf("ODropLim %d %s", o.Signer, kc)
	case "custody_send":
		m := custodytypes.NewMsgSend(sg, w.addrs[o.To], sdkCoins(o.Amt), o.Pw, sdkCoins(o.Rew))
		h := sha(o.TxBytes)
		w.hashes[h] = h[:8]
		o.Hash = h
		return m, fmt.Sprintf("OSend %d %d %s %s %s %s", o.Signer, o.To, coqCoins(o.Amt), hx.Str(w.token(o.Pw)), coqCoins(o.Rew), hx.Str(h[:8]))
	case "approve":
		return custodytypes.NewMsgApproveCustodyTransaction(sg, w.addrs[o.Target], o.Hash), fmt.Sprintf("OApprove %d %d %s", o.Signer, o.Target, hx.Str(w.hashTok(o.Hash)))
	case "decline":
		return custodytypes.NewMsgDeclineCustodyTransaction(sg, w.addrs[o.Target], o.Hash), fmt.Sprintf("ODecline %d %d %s", o.Signer, o.Target, hx.Str(w.hashTok(o.Hash)))
	case "confirm":
		return custodytypes.NewMsgPasswordConfirmTransaction(sg, w.addrs[o.Target], o.Hash, o.Pw),
			fmt.Sprintf("OConfirm %d %d %s %s %s", o.Signer, o.Target, hx.Str(w.hashTok(o.Hash)), hx.Str(w.token(o.Pw)), hx.Str(w.token(sha(o.Pw))))
	case "bank_send":
		return banktypes.NewMsgSend(sg, w.addrs[o.To], sdkCoins(o.Amt)), fmt.Sprintf("OBank %d %d %s %s", o.Signer, o.To, coqCoins(o.Amt), hx.Z(o.Now))
	case "multisend":
		return banktypes.NewMsgMultiSend([]banktypes.Input{banktypes.NewInput(sg, sdkCoins(o.Amt))}, []banktypes.Output{banktypes.NewOutput(w.addrs[o.To], sdkCoins(o.Amt))}),
			fmt.Sprintf("OMulti %d %d %s", o.Signer, o.To, coqCoins(o.Amt))
	case "rotate":
		return &recoverytypes.MsgRotateRecoveryAddress{FeePayer: w.addrs[N].String(), Address: sg.String(), Recovery: w.addrs[o.NewAddr].String(), Proof: o.Proof},
			fmt.Sprintf("ORotate %d %d %s", o.Signer, o.NewAddr, hx.B(o.Ok))
	}
	panic("unknown kind " + o.Kind)
}

// exec runs ante + ValidateBasic + handler for one transaction atomically
// exec runs one transaction: the decorator over all its messages, then ValidateBasic + handler per message;
// all or nothing.  after(i) is called after the handler of the i-th real message (inside the transaction).
func (w *world) exec(ctx sdk.Context, deco customante.CustodyDecorator, os []*op, real []sdk.Msg, after func(i int, c sdk.Context)) {
	o := os[0]
	c, write := ctx.CacheContext()
	c = c.WithTxBytes([]byte(o.TxBytes))
	msgs := append([]sdk.Msg{}, real...)
	fill := func(a int64) sdk.Msg { return banktypes.NewMsgSend(w.addrs[N], w.addrs[N+1], coins(a)) }
	first := 0
	if o.Filler&1 != 0 {
		msgs = append([]sdk.Msg{fill(1)}, msgs...)
		first = 1
	}
	if o.Filler&2 != 0 {
		msgs = append(msgs, fill(2))
	}
	var err error
	next := func(ctx sdk.Context, tx sdk.Tx, simulate bool) (sdk.Context, error) { return ctx, nil }
	p := hx.Try(func() {
		_, err = deco.AnteHandle(c, mockTx{msgs}, false, next)
		if err != nil {
			return
		}
		for i, m := range msgs {
			if err = m.ValidateBasic(); err != nil {
				return
			}
			h := w.app.MsgServiceRouter().Handler(m)
			if h == nil {
				err = fmt.Errorf("no handler for %T", m)
				return
			}
			if _, err = h(c, m); err != nil {
				return
			}
			if i >= first && i-first < len(real) {
				after(i-first, c)
			}
		}
	})
	for _, x := range os {
		switch {
		case p != "":
			x.Outcome, x.Err = "panic", p
		case err != nil:
			x.Outcome, x.Err = "rejected", err.Error()
		default:
			x.Outcome = "ok"
		}
		if len(x.Err) > 160 {
			x.Err = x.Err[:160]
		}
	}
	if p == "" && err == nil {
		write()
	}
}

// ---------------------------------------------------------------- histories
type hist struct {
	w       *world
	r       *hx.Rng
	ctx     sdk.Context
	deco    customante.CustodyDecorator
	dist    hx.Counter
	id      int
	label   string
	prev    snapshot
	steps   []string
	ops     []op
	sec     [N]int // index of the secret whose digest is (believed to be) the current key of account i; -1 none
	nsec    int
	sends   []string // tx hashes of the custody sends of this history
	sendBy  []int
	pws     []string
	txn     int
	now     int64 // block time of the next transaction
	fill    int   // filler placement used by the scripted steps of this history
	rotated map[int]bool
}

// corner: the same field in its corners: empty, one character, very long, another case, padded with white space
func corner(g *hx.Rng, usual string) string {
	switch g.Intn(7) {
	case 0:
		return ""
	case 1:
		return "x"
	case 2:
		return strings.Repeat("a", 300)
	case 3:
		if strings.ToUpper(usual) != usual {
			return strings.ToUpper(usual)
		}
		return strings.ToLower(usual)
	case 4:
		return " " + usual
	case 5:
		return usual + " "
	}
	return usual
}

func secret(i int) string { return fmt.Sprintf("secret-%d", i) }
func pword(i int) string  { return fmt.Sprintf("pw-%d", i) }

func (h *hist) txBytes() string {
	for k := 0; ; k++ {
		tb := fmt.Sprintf("tx-%d-%d-%d", h.id, h.txn, k)
		d := sha(tb)
		if strings.ToUpper(d[:8]) != d[:8] {
			if _, dup := h.w.hashes[d]; !dup {
				return tb
			}
		}
	}
}

type pend struct {
	o op
	k kp
}

// do executes one single-message transaction
func (h *hist) do(o op, k kp) *op { return h.doTx([]pend{{o, k}})[0] }

// doTx executes one transaction of one or more messages on the real code and records per message the
// operation, the outcome of the transaction and the state patch after the message
func (h *hist) doTx(ps []pend) []*op {
	h.txn++
	tb := h.txBytes()
	filler, nanos := 0, int64(0)
	if h.r != nil {
		if h.r.Chance(30) {
			filler = 1 + h.r.Intn(3)
		}
		if h.r.Chance(30) {
			nanos = []int64{1, 500000000, 999999999}[h.r.Intn(3)]
		}
		if h.r.Chance(30) {
			h.now += []int64{1, 30, 89, 90, 600, 3599, 3600, 4000}[h.r.Intn(8)]
		}
	} else {
		filler = h.fill
	}
	var os []*op
	var msgs []sdk.Msg
	var coqs []string
	for i := range ps {
		o := &ps[i].o
		if o.TxBytes == "" {
			o.TxBytes = tb
		}
		o.Filler, o.Nanos, o.Now, o.TxID = filler, nanos, h.now, h.txn
		msg, coq := h.w.build(o, ps[i].k)
		os, msgs, coqs = append(os, o), append(msgs, msg), append(coqs, coq)
	}
	snaps := make([]snapshot, len(ps))
	h.w.exec(h.ctx.WithBlockTime(time.Unix(h.now, nanos).UTC()), h.deco, os, msgs, func(i int, c sdk.Context) { snaps[i] = h.w.observe(c) })
	code := map[string]int{"ok": 0, "rejected": 1, "panic": 2}[os[0].Outcome]
	var res []*op
	for i, o := range os {
		cur := h.prev
		if code == 0 {
			cur = snaps[i]
		}
		h.steps = append(h.steps, fmt.Sprintf("(%d, %s, %d, %s)", h.txn, coqs[i], code, hx.List(diff(h.prev, cur))))
		h.prev = cur
		h.dist.Inc(o.Kind + ":" + o.Outcome)
		if len(ps) > 1 {
			h.dist.Inc("multi_message_tx:" + o.Kind + ":" + o.Outcome)
		}
		h.ops = append(h.ops, *o)
		res = append(res, &h.ops[len(h.ops)-1])
	}
	return res
}

// keyed runs a settings message; right: OldKey is the preimage of the signer's own current key
// (what the ante decorator checks); nextAddr: NextAddress put into the message
func (h *hist) keyed(o op, tgt string, right bool, nextAddr string) *op {
	old := "wrong-secret"
	if right && h.sec[o.Signer] >= 0 {
		old = secret(h.sec[o.Signer])
	}
	h.nsec++
	j := h.nsec % 12
	nk := sha(secret(j))
	if h.r != nil && h.r.Chance(6) {
		old = corner(h.r, old)
	}
	if h.r != nil && h.r.Chance(4) {
		nk, j = corner(h.r, nk), -1
	}
	res := h.do(o, kp{Old: old, New: nk, Next: nextAddr, Tgt: tgt})
	if res.Outcome == "ok" && o.Kind != "disable_custody" && o.Kind != "drop_custody" {
		ka := o.Signer
		if tgt != "" && o.Kind != "create_custody" {
			ka = -1
			if i, ok := h.w.idx[tgt]; ok {
				ka = i
			}
		}
		if ka >= 0 && ka < N {
			h.sec[ka] = j
		}
	}
	return res
}

func (h *hist) send(s, to int, amt int64, pwi int, rawPw bool, rew []int64) *op {
	return h.sendc(s, to, uk(amt), pwi, rawPw, ukl(rew))
}
func (h *hist) sendc(s, to int, amt []cn, pwi int, rawPw bool, rew []cn) *op {
	pw := sha(pword(pwi))
	if rawPw {
		pw = pword(pwi)
	}
	if h.r != nil && h.r.Chance(35) {
		pw = corner(h.r, pw)
	}
	return h.sendp(s, to, amt, pw, rew)
}

// sendp: custody send with the password string as given
func (h *hist) sendp(s, to int, amt []cn, pw string, rew []cn) *op {
	o := h.do(op{Kind: "custody_send", Signer: s, To: to, Amt: amt, Pw: pw, Rew: rew}, kp{})
	h.sends = append(h.sends, o.Hash)
	h.sendBy = append(h.sendBy, s)
	h.pws = append(h.pws, pw)
	return o
}
func (h *hist) approve(f, t int, hash string) *op {
	return h.do(op{Kind: "approve", Signer: f, Target: t, Hash: hash}, kp{})
}
func (h *hist) decline(f, t int, hash string) *op {
	return h.do(op{Kind: "decline", Signer: f, Target: t, Hash: hash}, kp{})
}
func (h *hist) confirm(f, t int, hash, pw string) *op {
	return h.do(op{Kind: "confirm", Signer: f, Target: t, Hash: hash, Pw: pw}, kp{})
}
func (h *hist) bank(kind string, s, to int, amt int64) *op { return h.bankc(kind, s, to, uk(amt)) }
func (h *hist) bankc(kind string, s, to int, amt []cn) *op {
	return h.do(op{Kind: kind, Signer: s, To: to, Amt: amt}, kp{})
}
func (h *hist) tick(dt int64) { h.now += dt }

func proofOf(i int) string { return hex.EncodeToString([]byte(fmt.Sprintf("recovery-proof-%d", i))) }

// registerSecrets gives accounts 0, 1 and 2 a recovery secret (x/recovery; not part of the modelled alphabet:
// it touches neither custody nor balances)
func (h *hist) registerSecrets() {
	for _, i := range []int{0, 1, 2} {
		bz, _ := hex.DecodeString(proofOf(i))
		d := sha256.Sum256(bz)
		m := &recoverytypes.MsgRegisterRecoverySecret{Address: h.w.addrs[i].String(), Challenge: hex.EncodeToString(d[:]), Nonce: "00"}
		if _, err := h.w.app.MsgServiceRouter().Handler(m)(h.ctx, m); err != nil {
			panic(err)
		}
	}
}

// rotate moves account a to the fresh address nw by x/recovery MsgRotateRecoveryAddress (fee paid by an outsider)
func (h *hist) rotate(a, nw int, rightProof bool) *op {
	proof := proofOf(a)
	if !rightProof {
		proof = proofOf(5)
	}
	w := h.w
	ok := rightProof && a <= 2 && w.app.AccountKeeper.HasAccount(h.ctx, w.addrs[a]) && !w.app.AccountKeeper.HasAccount(h.ctx, w.addrs[nw]) &&
		w.app.RecoveryKeeper.GetRotationHistory(h.ctx, w.addrs[nw].String()).Rotated == ""
	res := h.do(op{Kind: "rotate", Signer: a, NewAddr: nw, Proof: proof, Ok: ok}, kp{})
	if res.Outcome == "ok" {
		h.rotated[a] = true
		h.sec[nw] = h.sec[a]
	}
	return res
}

// keyedPend prepares a settings message for a transaction of several messages (the key bookkeeping is left alone)
func (h *hist) keyedPend(o op, right bool) pend {
	old := "wrong-secret"
	if right && h.sec[o.Signer] >= 0 {
		old = secret(h.sec[o.Signer])
	}
	h.nsec++
	return pend{o, kp{Old: old, New: sha(secret(h.nsec % 12))}}
}

// guard sets up account v by construction: record created disabled, lists filled, then enabled
func (h *hist) guard(v int, mode uint64, pwd, wl, lim bool, custs, white []int, cap int64) {
	h.keyed(op{Kind: "create_custody", Signer: v, Set: []uint64{0, mode, b2u(pwd), b2u(wl), b2u(lim)}}, "", true, "")
	if custs != nil {
		h.keyed(op{Kind: "add_custodians", Signer: v, Adds: custs}, "", true, "")
	}
	if white != nil {
		h.keyed(op{Kind: "add_whitelist", Signer: v, Adds: white}, "", true, "")
	}
	if cap >= 0 {
		h.keyed(op{Kind: "add_limits", Signer: v, Denom: denom, Cap: cap, Limit: "1h"}, "", true, "")
	}
	h.keyed(op{Kind: "create_custody", Signer: v, Set: []uint64{1, mode, b2u(pwd), b2u(wl), b2u(lim)}}, "", true, "")
}

var modes = []uint64{0, 1, 34, 50, 51, 67, 100, 100, 150, 18446744073709551615}
var settingKinds = []string{"create_custody", "disable_custody", "drop_custody", "add_custodians", "remove_custodians", "drop_custodians",
	"add_whitelist", "remove_whitelist", "drop_whitelist", "add_limits", "remove_limits", "drop_limits"}

func upperVariant(h string) string { return strings.ToUpper(h[:8]) + h[8:] }

func settingOp(kind string, signer int) op {
	o := op{Kind: kind, Signer: signer}
	switch kind {
	case "create_custody":
		o.Set = []uint64{1, 0, 0, 0, 0}
	case "add_custodians", "add_whitelist":
		o.Adds = []int{4}
	case "remove_custodians":
		o.Rem = 2
	case "remove_whitelist":
		o.Rem = 5
	case "add_limits":
		o.Denom, o.Cap, o.Limit = denom, 999999, "1h"
	case "remove_limits":
		o.Denom = denom
	}
	return o
}

// ---- directed histories: every settings message type x every way of naming the guarded account;
// every order of approve / decline / confirm by custodians and strangers; every send path
type variant struct{ custOnly, lower, pwd, nilmap, limits, rot bool }

// probe: one short history per repaired place, on the real code
func probe(newHist func(label string) *hist) variant {
	var v variant
	V := 0
	h := newHist("probe")
	h.guard(V, 100, false, false, false, []int{2, 3}, nil, -1)
	x := h.send(V, 5, 1000, 1, false, []int64{400}).Hash
	v.custOnly = h.approve(4, V, x).Outcome == "rejected"
	h = newHist("probe")
	h.guard(V, 100, false, false, false, []int{2, 3}, nil, -1)
	x = h.send(V, 5, 1000, 1, false, []int64{400}).Hash
	h.approve(2, V, x)
	before := h.prev
	h.approve(2, V, upperVariant(x))
	v.lower = len(diff(before, h.prev)) == 0
	h = newHist("probe")
	h.guard(V, 100, true, false, false, []int{2, 3}, nil, -1)
	x = h.send(V, 5, 1000, 1, true, []int64{400}).Hash
	v.pwd = h.confirm(4, V, x, "wrong-pw").Outcome == "rejected"
	h = newHist("probe")
	h.keyed(op{Kind: "create_custody", Signer: V, Set: []uint64{0, 50, 0, 0, 0}}, "", true, "")
	h.keyed(op{Kind: "add_whitelist", Signer: V, Adds: []int{}}, "", true, "")
	v.nilmap = h.keyed(op{Kind: "add_whitelist", Signer: V, Adds: []int{5}}, "", true, "").Outcome == "ok"
	h = newHist("probe")
	h.guard(V, 50, false, false, true, []int{}, nil, 1000)
	v.limits = h.bank("bank_send", V, 5, 100).Outcome == "ok"
	h = newHist("probe")
	h.guard(V, 100, false, false, false, []int{2, 3, 4}, nil, -1)
	x = h.send(V, 5, 1000, 1, false, []int64{600}).Hash
	h.approve(2, V, x)
	h.rotate(V, 6, true)
	before = h.prev
	h.approve(2, 6, x)
	v.rot = len(diff(before, h.prev)) == 0
	return v
}

func directed(newHist func(label string) *hist, finish func(*hist), vr variant) {
	V, A := 0, 1
	for _, kind := range settingKinds {
		for _, how := range []string{"self_wrong", "self_right", "t_norec", "t_disabled", "t_next", "t_other"} {
			h := newHist("settings/" + kind + "/" + how)
			h.guard(V, 50, false, true, false, []int{2, 3}, []int{5}, 1000)
			tgt := h.w.addrs[V].String()
			switch how {
			case "self_wrong":
				h.keyed(settingOp(kind, V), "", false, "")
			case "self_right":
				h.keyed(settingOp(kind, V), "", true, "")
			case "t_norec":
				h.keyed(settingOp(kind, 4), tgt, false, "")
			case "t_disabled":
				h.keyed(op{Kind: "create_custody", Signer: A, Set: []uint64{0, 50, 0, 0, 0}}, "", true, tgt)
				h.keyed(settingOp(kind, A), tgt, false, "")
			case "t_next":
				h.keyed(op{Kind: "create_custody", Signer: A, Set: []uint64{1, 50, 0, 0, 0}}, "", true, tgt)
				h.keyed(settingOp(kind, A), tgt, true, tgt)
			case "t_other":
				h.keyed(op{Kind: "create_custody", Signer: A, Set: []uint64{1, 50, 0, 0, 0}}, "", true, "")
				h.keyed(settingOp(kind, A), tgt, true, "")
			}
			h.bank("bank_send", V, 5, 100)
			h.bank("bank_send", V, 4, 100)
			finish(h)
		}
	}
	for _, mode := range []uint64{50, 100} {
		for _, pwd := range []bool{false, true} {
			for sc := 0; sc < 9; sc++ {
				h := newHist(fmt.Sprintf("votes/mode%d/pwd%v/%d", mode, pwd, sc))
				h.guard(V, mode, pwd, false, false, []int{2, 3}, nil, -1)
				x := h.send(V, 5, 1000, 1, false, []int64{400}).Hash
				switch sc {
				case 0: // the honest run: both custodians, the right password
					if pwd {
						h.confirm(V, V, x, pword(1))
					}
					h.approve(2, V, x)
					h.approve(2, V, x)
					h.approve(3, V, x)
				case 1: // strangers only
					if pwd {
						h.confirm(V, V, x, pword(1))
					}
					h.approve(4, V, x)
					h.approve(5, V, x)
				case 2: // one custodian, twice, with another spelling of the same hash
					if pwd {
						h.confirm(V, V, x, pword(1))
					}
					h.approve(2, V, x)
					h.approve(2, V, upperVariant(x))
				case 3: // declines by a stranger and twice by a custodian
					h.decline(4, V, x)
					h.decline(2, V, x)
					h.decline(2, V, upperVariant(x))
					h.approve(2, V, x)
				case 4: // a stranger confirms with a wrong password, then the custodians approve
					h.confirm(4, V, x, "wrong-pw")
					h.approve(2, V, x)
					h.approve(3, V, x)
				case 5: // approvals first, a wrong password last
					h.approve(2, V, x)
					h.approve(3, V, x)
					h.confirm(5, V, upperVariant(x), "wrong-pw")
				case 6: // strangers vote, then the owner confirms
					h.approve(4, V, x)
					h.approve(5, V, x)
					h.confirm(V, V, x, pword(1))
				case 7: // a second request replaces the pending one
					h.approve(2, V, x)
					y := h.send(V, 4, 2000, 2, false, []int64{400}).Hash
					h.approve(3, V, x)
					h.approve(2, V, y)
					if pwd {
						h.confirm(V, V, y, pword(2))
					}
					h.approve(3, V, y)
				case 8: // not enough: one of two at mode 100, plain bank paths meanwhile
					h.approve(2, V, x)
					h.bank("bank_send", V, 5, 10)
					h.bank("multisend", V, 5, 10)
					if pwd {
						h.confirm(V, V, x, pword(1))
					}
				}
				finish(h)
			}
		}
	}
	for _, mode := range []uint64{34, 50, 51, 67} { // shares that are not a whole number of three custodians
		h := newHist(fmt.Sprintf("votes3/mode%d", mode))
		h.guard(V, mode, false, false, false, []int{2, 3, 4}, nil, -1)
		x := h.send(V, 5, 1000, 1, false, []int64{600}).Hash
		h.approve(2, V, x)
		h.approve(3, V, x)
		h.approve(4, V, x)
		finish(h)
		h = newHist(fmt.Sprintf("votes1/mode%d/password", mode))
		h.guard(V, mode, true, false, false, []int{2}, nil, -1)
		x = h.send(V, 5, 1000, 1, true, []int64{600}).Hash
		h.confirm(V, V, x, pword(1))
		h.approve(2, V, x)
		finish(h)
	}
	// ---- thresholds at floor / ceiling for 1..4 custodians: approvals one by one, then plain sends
	allc := []int{2, 3, 4, 1}
	for n := 1; n <= 4; n++ {
		for _, mode := range []uint64{1, 25, 26, 33, 34, 49, 50, 51, 66, 67, 75, 76, 99, 100, 101, 18446744073709551615} {
			h := newHist(fmt.Sprintf("grid/n%d/mode%d", n, mode))
			h.guard(V, mode, false, false, false, allc[:n], nil, -1)
			x := h.send(V, 5, 1000, 1, false, []int64{int64(200*n + n - 1)}).Hash
			for _, c := range allc[:n] {
				h.approve(c, V, x)
			}
			h.bank("bank_send", V, 5, 7)
			finish(h)
		}
	}
	// ---- the configuration is edited while a transfer is pooled / between approvals
	for sc := 0; sc < 16; sc++ {
		h := newHist(fmt.Sprintf("edits/%d", sc))
		h.guard(V, 100, false, false, false, []int{2, 3}, nil, -1)
		x := h.send(V, 5, 1000, 1, false, []int64{601}).Hash
		set := func(en, mode, pw uint64) {
			h.keyed(op{Kind: "create_custody", Signer: V, Set: []uint64{en, mode, pw, 0, 0}}, "", true, "")
		}
		switch sc {
		case 0: // a custodian is removed after his vote
			h.approve(2, V, x)
			h.keyed(op{Kind: "remove_custodians", Signer: V, Rem: 2}, "", true, "")
			h.approve(3, V, x)
		case 1: // a removed custodian votes; he is added again and votes
			h.keyed(op{Kind: "remove_custodians", Signer: V, Rem: 3}, "", true, "")
			h.approve(3, V, x)
			h.approve(2, V, x)
			h.keyed(op{Kind: "add_custodians", Signer: V, Adds: []int{3}}, "", true, "")
			h.approve(3, V, x)
		case 2: // a custodian is added between the approvals
			h.approve(2, V, x)
			h.keyed(op{Kind: "add_custodians", Signer: V, Adds: []int{4}}, "", true, "")
			h.approve(3, V, x)
			h.approve(4, V, x)
		case 3: // the list is dropped between the approvals, and filled again
			h.approve(2, V, x)
			h.keyed(op{Kind: "drop_custodians", Signer: V}, "", true, "")
			h.approve(3, V, x)
			h.decline(3, V, x)
			h.keyed(op{Kind: "add_custodians", Signer: V, Adds: []int{4, 3}}, "", true, "")
			h.approve(3, V, x)
			h.approve(4, V, x)
		case 4: // the share is lowered while the transfer is pooled
			h.approve(2, V, x)
			set(1, 50, 0)
			h.approve(2, V, x)
			h.approve(3, V, x)
		case 5: // the share is raised above what can be reached, then lowered
			set(1, 101, 0)
			h.approve(2, V, x)
			h.approve(3, V, x)
			set(1, 100, 0)
			h.confirm(4, V, x, pword(1))
		case 6: // a password is switched on after the request (a wrong password is refused before that as well)
			h.confirm(5, V, x, "wrong-pw")
			h.approve(2, V, x)
			set(1, 100, 1)
			h.approve(3, V, x)
			h.confirm(5, V, x, "wrong-pw")
			h.confirm(5, V, x, sha(pword(1)))
		case 7: // custody is switched off (no key is asked for) and one vote pays out
			h.keyed(op{Kind: "disable_custody", Signer: V}, "", false, "")
			h.approve(2, V, x)
		case 8: // repetitions and permutations in the address list
			h.keyed(op{Kind: "add_custodians", Signer: V, Adds: []int{3, 2, 2, 4, 3}}, "", true, "")
			h.approve(2, V, x)
			h.approve(3, V, x)
			h.approve(4, V, x)
		case 9: // declines only; decline then approve by the same custodian; approve then decline
			h.decline(2, V, x)
			h.approve(2, V, x)
			h.approve(3, V, x)
			h.decline(3, V, x)
			h.decline(4, V, x)
		case 10: // the owner and the recipient are custodians themselves
			h.keyed(op{Kind: "add_custodians", Signer: V, Adds: []int{V, 5}}, "", true, "")
			h.approve(V, V, x)
			h.approve(5, V, x)
			h.approve(2, V, x)
			h.approve(3, V, x)
		case 11: // every spelling of the hash
			h.approve(2, V, strings.ToUpper(x))
			h.approve(2, V, x)
			h.approve(2, V, upperVariant(x))
			h.decline(2, V, x[:32]+strings.ToUpper(x[32:]))
			h.approve(3, V, " "+x)
			h.approve(3, V, strings.ToUpper(x[:1])+x[1:])
		case 12: // the whitelist and limits are edited while the transfer is pooled
			h.keyed(op{Kind: "add_whitelist", Signer: V, Adds: []int{4}}, "", true, "")
			h.keyed(op{Kind: "create_custody", Signer: V, Set: []uint64{1, 100, 0, 1, 0}}, "", true, "")
			h.approve(2, V, x)
			h.approve(3, V, x)
		case 13: // a second and a third request; stale approvals
			y := h.send(V, 4, 10, 2, false, []int64{400}).Hash
			h.approve(2, V, x)
			h.approve(2, V, y)
			z := h.sendc(V, 5, []cn{{"ukex", 10}, {"uusd", 20}, {"uzzz", 3}}, 3, false, uk(400)).Hash
			h.approve(3, V, y)
			h.approve(2, V, z)
			h.approve(3, V, z)
		case 14: // the custody record is dropped and created again while the transfer is pooled
			h.approve(2, V, x)
			h.keyed(op{Kind: "drop_custody", Signer: V}, "", false, "")
			h.bank("bank_send", V, 5, 5)
			set(1, 100, 0)
			h.approve(3, V, x)
		case 15: // not enough funds at the pay-out, then again after a refund
			h.bank("multisend", V, 4, 999000)
			h.approve(2, V, x)
			h.approve(3, V, x)
			h.bank("bank_send", 1, V, 5000)
			h.approve(3, V, x)
		}
		finish(h)
	}
	// ---- every corner of the password field of the request, with the account's password switch on and off:
	// the approvals alone must never pay out while the switch is on
	for _, pwd := range []bool{true, false} {
		for ci, pw := range []string{"", "x", pword(1), strings.Repeat("a", 300), "PW-1", " pw-1"} {
			h := newHist(fmt.Sprintf("pwfield/%v/%d", pwd, ci))
			h.guard(V, 100, pwd, false, false, []int{2, 3}, nil, -1)
			x := h.sendp(V, 5, uk(1000), pw, uk(400)).Hash
			h.approve(2, V, x)
			h.approve(3, V, x)
			h.confirm(4, V, x, "pw-1")
			h.confirm(4, V, x, pw)
			h.approve(3, V, x)
			finish(h)
		}
	}
	// ---- every corner of the hash field and of the key fields
	for ci := 0; ci < 6; ci++ {
		h := newHist(fmt.Sprintf("fields/%d", ci))
		h.guard(V, 100, false, false, false, []int{2, 3}, nil, -1)
		x := h.send(V, 5, 1000, 1, false, []int64{400}).Hash
		hs := []string{"", "x", strings.Repeat("f", 300), " " + x, x + " ", strings.ToUpper(x)}[ci]
		h.approve(2, V, hs)
		h.decline(3, V, hs)
		h.confirm(V, V, hs, "")
		h.do(op{Kind: "add_whitelist", Signer: V, Adds: []int{4}}, kp{Old: []string{"", "x", strings.Repeat("k", 300), " " + secret(h.sec[V]), strings.ToUpper(secret(h.sec[V])), secret(h.sec[V])}[ci], New: []string{"", "x", strings.Repeat("n", 300), " k", "K", sha(secret(7))}[ci]})
		h.do(op{Kind: "drop_whitelist", Signer: 4}, kp{Old: "", New: "", Tgt: []string{strings.ToUpper(h.w.addrs[V].String()), " " + h.w.addrs[V].String(), "x", strings.Repeat("t", 300), h.w.addrs[V].String() + " ", strings.ToUpper(h.w.addrs[V].String())}[ci]})
		h.bank("bank_send", V, 5, 10)
		finish(h)
	}
	// ---- the password path: wrong, right, replayed, by strangers, before and after the approvals
	{ // the custody record is dropped by a stranger (no key is asked for) while a transfer waits for its password
		h := newHist("password/requirement_dropped")
		h.guard(V, 100, true, false, false, []int{2, 3}, nil, -1)
		x := h.send(V, 5, 1000, 1, true, []int64{400}).Hash
		h.approve(2, V, x)
		h.keyed(op{Kind: "drop_custody", Signer: 4}, h.w.addrs[V].String(), false, "")
		h.approve(3, V, x)
		finish(h)
	}
	for sc := 0; sc < 6; sc++ {
		h := newHist(fmt.Sprintf("password/%d", sc))
		cs := []int{2}
		if sc >= 4 {
			cs = []int{}
		}
		h.guard(V, 100, true, false, false, cs, nil, -1)
		x := h.send(V, 5, 1000, 1, true, []int64{400}).Hash
		switch sc {
		case 0:
			h.confirm(4, V, x, "wrong-pw")
			h.confirm(4, V, x, "")
			h.confirm(4, V, x, sha(pword(1)))
			h.confirm(4, V, x, pword(1))
			h.confirm(5, V, x, pword(1))
			h.approve(2, V, x)
			h.confirm(V, V, x, pword(1))
		case 1:
			h.approve(2, V, x)
			h.confirm(V, V, strings.ToUpper(x), pword(1))
			h.confirm(V, V, x, pword(1))
		case 2: // the password of another request
			y := h.send(V, 5, 10, 2, true, []int64{400}).Hash
			h.confirm(V, V, y, pword(1))
			h.confirm(V, V, x, pword(2))
			h.confirm(V, V, y, pword(2))
			h.approve(2, V, y)
		case 3: // password switched off after the request
			h.keyed(op{Kind: "create_custody", Signer: V, Set: []uint64{1, 100, 0, 0, 0}}, "", true, "")
			h.approve(2, V, x)
		case 4, 5: // no custodians: the password alone
			h.confirm(5, V, x, "wrong-pw")
			if sc == 5 {
				h.approve(2, V, x)
			}
			h.confirm(5, V, x, pword(1))
			h.confirm(5, V, x, pword(1))
		}
		finish(h)
	}
	// ---- address rotation by x/recovery: the custody records and the funds move to a fresh address
	for sc := 0; sc < 10; sc++ {
		h := newHist(fmt.Sprintf("rotation/%d", sc))
		switch sc {
		case 9: // a custodian rotates, the owner lists the new address as well: one person, two votes
			h.guard(V, 100, false, false, false, []int{2}, nil, -1)
			x := h.send(V, 5, 1000, 1, false, []int64{600}).Hash
			h.rotate(2, 7, true)
			h.keyed(op{Kind: "add_custodians", Signer: V, Adds: []int{7}}, "", true, "")
			h.approve(2, V, x)
			h.approve(7, V, strings.ToUpper(x))
			y := h.send(V, 5, 500, 1, false, []int64{600}).Hash
			h.approve(7, V, y)
			h.decline(2, V, y)
		case 8: // after the rotation a stranger drops the custody record of the new address while a transfer waits for its password
			h.guard(V, 100, true, false, false, []int{2, 3}, nil, -1)
			h.rotate(V, 6, true)
			x := h.send(6, 5, 1000, 1, true, []int64{400}).Hash
			h.approve(2, 6, x)
			h.keyed(op{Kind: "drop_custody", Signer: 4}, h.w.addrs[6].String(), false, "")
			h.approve(3, 6, x)
		case 0: // a guarded account without pending transfer; the new address is guarded as the old one was
			h.guard(V, 100, false, true, false, []int{2, 3}, []int{5}, 1000)
			h.rotate(V, 6, false)
			h.rotate(V, 6, true)
			h.bank("bank_send", 6, 5, 100)
			h.bank("bank_send", V, 5, 1)
			x := h.send(6, 5, 1000, 1, false, []int64{400}).Hash
			h.approve(2, 6, x)
			h.approve(3, 6, x)
			h.keyed(op{Kind: "add_whitelist", Signer: 6, Adds: []int{4}}, "", true, "")
		case 1: // a transfer is pending: the votes cast before the rotation
			h.guard(V, 100, false, false, false, []int{2, 3}, nil, -1)
			x := h.send(V, 5, 1000, 1, false, []int64{400}).Hash
			h.approve(2, V, x)
			h.rotate(V, 6, true)
			h.approve(2, 6, x)
			h.approve(3, 6, x)
			h.bank("bank_send", 1, V, 2000)
			h.approve(3, 6, x)
			h.approve(2, V, x)
		case 2: // pending with password: confirmed before, approved after the rotation
			h.guard(V, 50, true, false, false, []int{2, 3}, nil, -1)
			x := h.send(V, 5, 1000, 1, true, []int64{400}).Hash
			h.confirm(V, V, x, pword(1))
			h.decline(3, V, x)
			h.rotate(V, 6, true)
			h.decline(3, 6, x)
			h.bank("bank_send", 1, V, 2000)
			h.approve(2, 6, x)
		case 3: // a custodian rotates: the lists that name him are not rewritten
			h.guard(V, 100, false, false, false, []int{2, 3}, nil, -1)
			x := h.send(V, 5, 1000, 1, false, []int64{400}).Hash
			h.rotate(2, 7, true)
			h.approve(7, V, x)
			h.approve(2, V, x)
			h.approve(3, V, x)
		case 4: // whitelist without custodians, limits; the target exists already / was used
			h.guard(V, 50, false, true, true, []int{}, []int{5}, 1000)
			h.rotate(V, 5, true)
			h.bank("bank_send", 1, 6, 5)
			h.rotate(V, 6, true)
			h.rotate(V, 7, true)
			h.bank("bank_send", 7, 4, 10)
			h.bank("multisend", 7, 4, 10)
			h.rotate(V, 6, true)
		case 5: // an unguarded account, an account without recovery secret
			h.rotate(1, 6, true)
			h.rotate(3, 7, true)
			h.bank("bank_send", 6, 5, 10)
		case 6: // both owners rotate; disabled custody
			h.keyed(op{Kind: "create_custody", Signer: V, Set: []uint64{0, 50, 1, 1, 0}}, "", true, "")
			h.keyed(op{Kind: "add_custodians", Signer: V, Adds: []int{2}}, "", true, "")
			h.guard(A, 67, false, false, false, []int{2, 3, 4}, nil, -1)
			h.rotate(A, 7, true)
			h.rotate(V, 6, true)
			h.bank("bank_send", 7, 5, 10)
			h.bank("bank_send", 6, 5, 10)
		case 7: // rotation in the middle of a vote with three custodians, the old address is used again
			h.guard(V, 67, false, false, false, []int{2, 3, 4}, nil, -1)
			x := h.send(V, 5, 1000, 1, false, []int64{600}).Hash
			h.approve(2, V, x)
			h.approve(3, V, x)
			h.rotate(V, 6, true)
			h.bank("bank_send", 1, V, 5000)
			h.approve(2, 6, x) // the vote cast before the rotation is cast again: paid again, counted again, pays out
			h.guard(V, 100, false, false, false, []int{3}, nil, -1)
			h.approve(4, 6, x)
		}
		finish(h)
	}
	// ---- the rotated address plays every role at once: owner, custodian of itself and of another account,
	// whitelisted recipient, recipient of a pending transfer, voter with marks on its own and on another
	// account's transfer; after the rotation BOTH the old and the new address retry every vote / confirmation
	for _, pre := range []string{"approve", "decline", "none"} {
		for _, mode := range []uint64{100, 50} {
			for _, pwd := range []bool{false, true} {
				for _, addNew := range []bool{false, true} {
					h := newHist(fmt.Sprintf("roles/%s/mode%d/pwd%v/new%v", pre, mode, pwd, addNew))
					// an account whose own custody is enabled cannot vote (the decorator refuses its approvals): with a
					// password the record is first created disabled (transfers are pooled all the same), the owner votes on
					// its own transfer, and custody is enabled afterwards
					late := pwd
					if late {
						h.keyed(op{Kind: "create_custody", Signer: V, Set: []uint64{0, mode, 1, 1, 0}}, "", true, "")
						h.keyed(op{Kind: "add_custodians", Signer: V, Adds: []int{V, 2}}, "", true, "")
						h.keyed(op{Kind: "add_whitelist", Signer: V, Adds: []int{5}}, "", true, "")
					} else {
						h.guard(V, mode, pwd, true, false, []int{V, 2}, []int{5}, -1)
					}
					h.guard(A, 100, false, true, false, []int{V, 3}, []int{V}, -1)
					hx := h.send(V, 5, 1000, 1, true, []int64{400}).Hash
					ha := h.send(A, V, 700, 2, true, []int64{400}).Hash
					switch pre {
					case "approve":
						h.approve(V, V, hx)
						h.approve(V, A, ha)
					case "decline":
						h.decline(V, V, hx)
						h.decline(V, A, ha)
					}
					if late {
						h.keyed(op{Kind: "create_custody", Signer: V, Set: []uint64{1, mode, 1, 1, 0}}, "", true, "")
					}
					if pwd && mode == 100 {
						h.confirm(V, V, hx, pword(1))
					}
					h.rotate(V, 6, true)
					if addNew { // the owner lists the new address as well: one person, two listed addresses
						h.keyed(op{Kind: "add_custodians", Signer: 6, Adds: []int{6}}, "", true, "")
						h.keyed(op{Kind: "add_custodians", Signer: A, Adds: []int{6}}, "", true, "")
					}
					for _, tgt := range []struct {
						t int
						x string
					}{{6, hx}, {V, hx}, {A, ha}} {
						for _, voter := range []int{V, 6} {
							if pre == "decline" {
								h.decline(voter, tgt.t, tgt.x)
							}
							h.approve(voter, tgt.t, strings.ToUpper(tgt.x[:4])+tgt.x[4:])
							h.decline(voter, tgt.t, tgt.x)
						}
					}
					if pwd {
						h.confirm(V, 6, hx, pword(1))
						h.confirm(6, 6, hx, pword(1))
						h.confirm(6, V, hx, pword(1))
					}
					h.approve(2, 6, hx)
					h.approve(3, A, ha)
					h.bank("bank_send", 1, V, 3000)
					h.approve(2, 6, hx)
					h.bank("bank_send", 6, 5, 10)
					h.bank("bank_send", V, 5, 10)
					finish(h)
				}
			}
		}
	}
	// ---- transactions of several custody / bank messages: the decorator looks at all of them
	for sc := 0; sc < 10; sc++ {
		h := newHist(fmt.Sprintf("multimsg/%d", sc))
		h.guard(V, 100, false, true, false, []int{2, 3}, []int{5}, -1)
		bk := func(kind string, s, to int, a int64) pend {
			return pend{op{Kind: kind, Signer: s, To: to, Amt: uk(a)}, kp{}}
		}
		switch sc {
		case 0: // a settings message with the right key, then a plain send of the same account
			h.doTx([]pend{h.keyedPend(op{Kind: "add_whitelist", Signer: V, Adds: []int{4}}, true), bk("bank_send", V, 5, 10)})
		case 1: // the custodians are dropped and the coins sent in one transaction
			h.doTx([]pend{h.keyedPend(op{Kind: "drop_custodians", Signer: V}, true), bk("bank_send", V, 5, 10)})
			h.doTx([]pend{h.keyedPend(op{Kind: "disable_custody", Signer: V}, false), bk("bank_send", V, 4, 10)})
		case 2: // a custody send, then a plain send
			h.doTx([]pend{{op{Kind: "custody_send", Signer: V, To: 5, Amt: uk(10), Pw: sha(pword(1)), Rew: uk(400)}, kp{}}, bk("bank_send", V, 5, 10)})
			h.doTx([]pend{{op{Kind: "custody_send", Signer: V, To: 5, Amt: uk(10), Pw: sha(pword(1)), Rew: uk(400)}, kp{}}, bk("multisend", V, 4, 10)})
		case 3: // two plain sends, the second one to an address outside the whitelist
			h.keyed(op{Kind: "drop_custodians", Signer: V}, "", true, "")
			h.keyed(op{Kind: "add_custodians", Signer: V, Adds: []int{}}, "", true, "")
			h.doTx([]pend{bk("bank_send", V, 5, 10), bk("bank_send", V, 4, 10)})
			h.doTx([]pend{bk("bank_send", V, 5, 10), bk("bank_send", V, 5, 20)})
		case 4: // both custodians approve in one transaction
			x := h.send(V, 5, 1000, 1, false, []int64{400}).Hash
			h.doTx([]pend{{op{Kind: "approve", Signer: 2, Target: V, Hash: x}, kp{}}, {op{Kind: "approve", Signer: 3, Target: V, Hash: x}, kp{}}})
		case 5: // one custodian approves twice in one transaction
			x := h.send(V, 5, 1000, 1, false, []int64{400}).Hash
			h.doTx([]pend{{op{Kind: "approve", Signer: 2, Target: V, Hash: x}, kp{}}, {op{Kind: "approve", Signer: 2, Target: V, Hash: strings.ToUpper(x)}, kp{}}})
			h.doTx([]pend{{op{Kind: "approve", Signer: 3, Target: V, Hash: x}, kp{}}, {op{Kind: "approve", Signer: 4, Target: V, Hash: x}, kp{}}})
		case 6: // two requests in one transaction carry the same hash
			h.doTx([]pend{{op{Kind: "custody_send", Signer: V, To: 5, Amt: uk(10), Pw: sha(pword(1)), Rew: uk(400)}, kp{}},
				{op{Kind: "custody_send", Signer: V, To: 4, Amt: uk(20), Pw: sha(pword(1)), Rew: uk(400)}, kp{}}})
			x := h.ops[len(h.ops)-1].Hash
			h.approve(2, V, x)
			h.approve(3, V, x)
		case 7: // a stranger's message first, then the guarded account's plain send; and the other way round
			h.doTx([]pend{bk("bank_send", 1, 5, 10), bk("bank_send", V, 5, 10)})
			h.doTx([]pend{bk("bank_send", V, 5, 10), bk("bank_send", 1, 5, 10)})
			h.doTx([]pend{bk("multisend", 1, 5, 10), bk("multisend", V, 5, 10)})
		case 8: // custodians are added and coins sent by an account that had none
			h.keyed(op{Kind: "drop_custodians", Signer: V}, "", true, "")
			h.keyed(op{Kind: "add_custodians", Signer: V, Adds: []int{}}, "", true, "")
			h.doTx([]pend{h.keyedPend(op{Kind: "add_custodians", Signer: V, Adds: []int{2}}, true), bk("bank_send", V, 5, 10)})
			h.bank("bank_send", V, 5, 10)
		case 9: // a confirmation and the last approval together; the second message fails: nothing remains
			h.keyed(op{Kind: "create_custody", Signer: V, Set: []uint64{1, 100, 1, 0, 0}}, "", true, "")
			x := h.send(V, 5, 1000, 1, true, []int64{400}).Hash
			h.approve(2, V, x)
			h.doTx([]pend{{op{Kind: "confirm", Signer: V, Target: V, Hash: x, Pw: pword(1)}, kp{}}, {op{Kind: "approve", Signer: 4, Target: V, Hash: x}, kp{}}})
			h.doTx([]pend{{op{Kind: "confirm", Signer: V, Target: V, Hash: x, Pw: pword(1)}, kp{}}, {op{Kind: "approve", Signer: 3, Target: V, Hash: x}, kp{}}})
		}
		finish(h)
	}
	for sc := 0; sc < 4; sc++ { // the limit path of the decorator (live only on the repaired variant)
		h := newHist(fmt.Sprintf("limits/%d", sc))
		switch sc {
		case 0: // a window of one hour, limit 1000: sums inside the window, a new window afterwards
			h.guard(V, 50, false, false, true, []int{}, nil, 1000)
			h.bank("bank_send", V, 5, 600)
			h.tick(10)
			h.bank("bank_send", V, 5, 400)
			h.bank("bank_send", V, 5, 1)
			h.tick(3589)
			h.bank("bank_send", V, 5, 1)
			h.tick(1)
			h.bank("bank_send", V, 5, 1000)
			h.bank("bank_send", V, 5, 1001)
		case 1: // two denominations, the limit is on the second coin of the message
			h.keyed(op{Kind: "create_custody", Signer: V, Set: []uint64{0, 50, 0, 0, 1}}, "", true, "")
			h.keyed(op{Kind: "add_limits", Signer: V, Denom: "uusd", Cap: 100, Limit: "90s"}, "", true, "")
			h.bankc("bank_send", V, 5, []cn{{"ukex", 5}, {"uusd", 101}})
			h.bankc("bank_send", V, 5, []cn{{"ukex", 5}, {"uusd", 100}})
			h.bankc("bank_send", V, 5, []cn{{"uusd", 1}})
			h.bankc("multisend", V, 5, []cn{{"uusd", 5000}})
			h.tick(90)
			h.bankc("bank_send", V, 5, []cn{{"uusd", 100}, {"uzzz", 1}})
			h.keyed(op{Kind: "add_limits", Signer: V, Denom: "ukex", Cap: 10, Limit: "1h"}, "", true, "")
			h.bankc("bank_send", V, 5, []cn{{"ukex", 5}, {"uusd", 101}}) // both coins limited, the second one above its limit
			h.bankc("bank_send", V, 5, []cn{{"ukex", 11}, {"uusd", 1}})
		case 2: // unparsable / zero durations, removed limit
			h.keyed(op{Kind: "create_custody", Signer: V, Set: []uint64{0, 50, 0, 0, 1}}, "", true, "")
			h.keyed(op{Kind: "add_limits", Signer: V, Denom: "ukex", Cap: 100, Limit: "bad"}, "", true, "")
			h.bank("bank_send", V, 5, 1)
			h.keyed(op{Kind: "add_limits", Signer: V, Denom: "ukex", Cap: 100, Limit: "0s"}, "", true, "")
			h.bank("bank_send", V, 5, 1)
			h.keyed(op{Kind: "remove_limits", Signer: V, Denom: "ukex"}, "", true, "")
			h.bank("bank_send", V, 5, 5000)
			h.keyed(op{Kind: "drop_limits", Signer: V}, "", true, "")
			h.bank("bank_send", V, 5, 5000)
		case 3: // limits together with the whitelist; insufficient funds after the decorator passed
			h.guard(V, 50, false, true, true, []int{}, []int{5}, 100000)
			h.bank("bank_send", V, 4, 10)
			h.bank("bank_send", V, 5, 10)
			h.bankc("bank_send", V, 5, []cn{{"uzzz", 1000}})
			h.bank("bank_send", V, 5, 99990)
			h.bank("bank_send", V, 5, 1)
		}
		finish(h)
	}
	for sc := 0; sc < 5; sc++ {
		h := newHist(fmt.Sprintf("paths/%d", sc))
		switch sc {
		case 0: // whitelist and limits, no custodians: plain sends are allowed but restricted
			h.guard(V, 50, false, true, false, nil, []int{5}, 1000)
			h.bank("bank_send", V, 5, 100)
			h.bank("bank_send", V, 4, 100)
			h.bank("multisend", V, 4, 100)
		case 1: // custody send without custodians and password is paid out at once
			h.guard(V, 50, false, true, true, []int{}, []int{5}, 1000)
			h.send(V, 5, 100, 1, false, []int64{400})
			h.send(V, 4, 100, 1, false, []int64{400})
			h.send(V, 5, 5000, 1, false, []int64{400})
			h.bank("bank_send", V, 5, 100)
			h.bank("multisend", V, 5, 5000)
		case 2: // custodians exist
			h.guard(V, 50, false, true, true, []int{2, 3}, []int{5}, 1000)
			h.bank("bank_send", V, 5, 100)
			h.bank("multisend", V, 4, 5000)
			x := h.send(V, 4, 5000, 1, false, []int64{400}).Hash
			h.approve(2, V, x)
		case 4: // the owner is in its own whitelist, the destination is not; tiny reward, one custodian
			h.guard(V, 100, false, true, false, []int{}, []int{V, 5}, -1)
			h.bank("bank_send", V, 4, 100)
			h.bank("bank_send", V, V, 100)
			h.bank("bank_send", V, 5, 100)
			h.keyed(op{Kind: "add_custodians", Signer: V, Adds: []int{2}}, "", true, "")
			h.bank("bank_send", V, 5, 100)
			x := h.send(V, 5, 100, 1, false, []int64{200}).Hash
			h.decline(2, V, x)
			h.approve(3, V, x)
		case 3: // removed custodians and whitelist entries stay in the map with value false
			h.guard(V, 100, false, true, false, []int{2, 3}, []int{5, 4}, -1)
			h.keyed(op{Kind: "remove_custodians", Signer: V, Rem: 3}, "", true, "")
			h.keyed(op{Kind: "remove_whitelist", Signer: V, Rem: 4}, "", true, "")
			x := h.send(V, 5, 100, 1, false, []int64{400}).Hash
			h.approve(3, V, x)
			h.approve(2, V, x)
			h.bank("bank_send", V, 4, 10)
		}
		finish(h)
	}
}

// rndCoins: mostly the default denomination alone, sometimes a second one or another one alone
func rndCoins(g *hx.Rng, a int64) []cn {
	switch g.Intn(10) {
	case 0, 1:
		return []cn{{"ukex", a}, {"uusd", []int64{1, 70, 3000}[g.Intn(3)]}}
	case 2:
		return []cn{{"uusd", a}}
	case 3:
		return []cn{{"uusd", a}, {"uzzz", 5}}
	}
	return uk(a)
}

// ---- random histories
func random(h *hist) {
	g, w := h.r, h.w
	owner := g.Intn(2) // accounts 0 and 1 are the wealthy owners
	other := 1 - owner
	custs := []int{2, 3}
	if g.Chance(40) {
		custs = append(custs, 4)
	}
	if g.Chance(15) {
		custs = custs[:1]
	}
	if g.Chance(25) {
		custs = append(custs, owner) // the owner is one of its own custodians
	}
	mode := modes[g.Intn(len(modes))]
	usePw, useWl, useLim := g.Chance(35), g.Chance(40), g.Chance(25)
	var olds []int // addresses that were rotated away: they keep acting
	if g.Chance(90) {
		var white []int
		cap := int64(-1)
		if useWl || g.Chance(20) {
			white = []int{5, other}[:1+g.Intn(2)]
		}
		if useLim || g.Chance(20) {
			cap = []int64{100, 1000, 100000}[g.Intn(3)]
		}
		cs := custs
		if g.Chance(8) {
			cs = nil
		}
		h.guard(owner, mode, usePw, useWl, useLim, cs, white, cap)
	}
	limAcct := -1
	if g.Chance(20) { // an account with limits but no custodians: the limit path of the decorator
		limAcct = other
		h.guard(other, 50, false, g.Chance(30), true, []int{}, []int{5, owner}, []int64{100, 1000, 100000}[g.Intn(3)])
		if g.Chance(40) {
			h.keyed(op{Kind: "disable_custody", Signer: other}, "", true, "")
			h.keyed(op{Kind: "add_limits", Signer: other, Denom: "uusd", Cap: []int64{50, 3000}[g.Intn(2)], Limit: []string{"90s", "1h", "0s", "bad"}[g.Intn(4)]}, "", true, "")
		}
	}
	if g.Chance(25) { // the other owner has a custody of its own, possibly naming the first owner as next controller
		next := ""
		if g.Chance(60) {
			next = w.addrs[owner].String()
		}
		h.keyed(op{Kind: "create_custody", Signer: other, Set: []uint64{b2u(g.Chance(80)), 50, 0, 0, 0}}, "", true, next)
	}
	who := func() int { // custodians mostly, strangers often
		switch g.Intn(10) {
		case 0, 1, 2, 3, 4:
			return custs[g.Intn(len(custs))]
		case 5, 6:
			return 4
		case 7:
			return 5
		case 8:
			return other
		}
		if len(olds) > 0 && g.Chance(60) {
			return olds[g.Intn(len(olds))]
		}
		return g.Intn(N)
	}
	pickHash := func() (string, int) {
		if len(h.sends) == 0 {
			h.send(owner, 5, 500, g.Intn(12), false, []int64{600})
		}
		if g.Chance(3) {
			return "zz", owner
		}
		k := len(h.sends) - 1
		if g.Chance(10) {
			k = g.Intn(len(h.sends))
		}
		x := h.sends[k]
		if g.Chance(25) {
			x = upperVariant(x)
		} else if g.Chance(12) {
			x = corner(g, x)
		}
		t := h.sendBy[k]
		if g.Chance(3) {
			t = g.Intn(N)
		}
		return x, t
	}
	nops := 6 + g.Intn(14)
	fresh := 6
	for i := 0; i < nops; i++ {
		if g.Chance(6) && fresh <= 7 { // address rotation of the owner (or of a custodian), mostly with the right proof
			a := owner
			if g.Chance(20) {
				a = 2
			}
			if h.rotate(a, fresh, g.Chance(85)).Outcome == "ok" {
				olds = append(olds, a)
				if a == owner {
					owner = fresh
					if g.Chance(30) { // the new address is listed as well
						h.keyed(op{Kind: "add_custodians", Signer: owner, Adds: []int{owner}}, "", true, "")
					}
				}
				custs = append(custs, fresh)
				fresh++
			}
			continue
		}
		if g.Chance(6) { // two messages in one transaction: a custody message, then a plain send of the same account
			var first pend
			switch g.Intn(4) {
			case 0:
				first = h.keyedPend(op{Kind: []string{"add_whitelist", "drop_custodians", "drop_whitelist"}[g.Intn(3)], Signer: owner, Adds: []int{4}}, g.Chance(70))
			case 1:
				first = h.keyedPend(op{Kind: "disable_custody", Signer: owner}, false)
			case 2:
				first = pend{op{Kind: "custody_send", Signer: owner, To: 5, Amt: uk(10), Pw: sha(pword(1)), Rew: uk(600)}, kp{}}
			default:
				first = pend{op{Kind: "bank_send", Signer: other, To: 5, Amt: uk(1)}, kp{}}
			}
			second := pend{op{Kind: []string{"bank_send", "multisend"}[g.Intn(2)], Signer: owner, To: []int{5, 4}[g.Intn(2)], Amt: uk(25)}, kp{}}
			if g.Chance(20) {
				first, second = second, first
			}
			h.doTx([]pend{first, second})
			continue
		}
		switch x := g.Intn(100); {
		case x < 18: // custody send by an owner
			s := owner
			if g.Chance(12) {
				s = other
			}
			rew := []int64{[]int64{0, 199, 400, 600, 601, 1000, 5000}[g.Intn(7)]}
			if g.Chance(4) {
				rew = nil
			}
			h.sendc(s, []int{5, 5, other, 4, 2}[g.Intn(5)], rndCoins(g, []int64{1, 50, 500, 2000, 150000, 999999, 2000000}[g.Intn(7)]), g.Intn(12), g.Chance(10), ukl(rew))
		case x < 46:
			x, t := pickHash()
			h.approve(who(), t, x)
		case x < 54:
			x, t := pickHash()
			h.decline(who(), t, x)
		case x < 64:
			x, t := pickHash()
			pw := "wrong-pw"
			if g.Chance(55) {
				pw = h.pws[len(h.pws)-1]
			} else if g.Chance(50) {
				pw = corner(g, h.pws[len(h.pws)-1])
			}
			s := t
			if g.Chance(50) {
				s = who()
			}
			h.confirm(s, t, x, pw)
		case x < 72:
			s := owner
			if g.Chance(15) {
				s = g.Intn(N)
			}
			if limAcct >= 0 && g.Chance(60) {
				s = limAcct
			}
			h.bankc("bank_send", s, []int{5, other, 4, 2}[g.Intn(4)], rndCoins(g, []int64{1, 50, 500, 2000, 150000}[g.Intn(5)]))
		case x < 77:
			s := owner
			if g.Chance(15) {
				s = g.Intn(N)
			}
			h.bankc("multisend", s, []int{5, other, 4}[g.Intn(3)], rndCoins(g, []int64{1, 50, 500, 2000, 150000}[g.Intn(5)]))
		default: // settings change: by the owner (right / wrong key), by a stranger or the other owner naming the owner as target
			signer, tgt := owner, ""
			switch g.Intn(10) {
			case 0, 1, 2:
				signer, tgt = []int{4, 5, other, 2}[g.Intn(4)], w.addrs[owner].String()
			case 3:
				signer, tgt = other, w.addrs[owner].String()
			case 4:
				tgt = []string{garbage, w.addrs[other].String(), w.addrs[owner].String(), strings.ToUpper(w.addrs[owner].String()), " " + w.addrs[owner].String(), "x"}[g.Intn(6)]
			case 5:
				signer, tgt = []int{4, 5, other}[g.Intn(3)], strings.ToUpper(w.addrs[owner].String())
			}
			o := op{Kind: settingKinds[g.Intn(len(settingKinds))], Signer: signer}
			switch o.Kind {
			case "create_custody":
				o.Set = []uint64{b2u(g.Chance(75)), modes[g.Intn(len(modes))], b2u(g.Chance(30)), b2u(g.Chance(30)), b2u(g.Chance(15))}
			case "add_custodians", "add_whitelist":
				o.Adds = [][]int{{4}, {5}, {2, 3}, {}, {signer}, {3, 3, 2}, {4, 2, 4}}[g.Intn(7)]
			case "remove_custodians", "remove_whitelist":
				o.Rem = []int{2, 3, 4, 5}[g.Intn(4)]
			case "add_limits":
				o.Denom, o.Cap, o.Limit = []string{"ukex", "uusd", "uabc"}[g.Intn(3)], []int64{0, 100, 100000}[g.Intn(3)], []string{"1h", "90s", "0s", "", "bad", " 1h", "1H", strings.Repeat("9", 300)}[g.Intn(8)]
			case "remove_limits":
				o.Denom = []string{"ukex", "uusd"}[g.Intn(2)]
			}
			next := ""
			switch g.Intn(8) {
			case 0:
				next = w.addrs[g.Intn(N)].String()
			case 1:
				next = garbage
			case 2:
				next = strings.ToUpper(w.addrs[owner].String())
			case 3:
				next = corner(g, w.addrs[owner].String())
			}
			h.keyed(o, tgt, g.Chance(60), next)
		}
	}
}

func main() {
	outDir := flag.String("out", ".", "output directory")
	n := flag.Int("n", 300, "number of random histories (on top of the directed ones)")
	flag.Parse()
	out := hx.Out{Dir: *outDir}
	seed := hx.Seed()
	// hx.NewRng(s) and hx.NewRng(s+1) produce shifted copies of one stream; decorrelate the seeds
	r := hx.NewRng(hx.NewRng(seed).Next() ^ 0xC17C17C17)

	app := hx.NewApp()
	base := hx.Ctx(app, 10, 1700000000)
	w := &world{app: app, idx: map[string]int{}, tok: map[string]string{}, hashes: map[string]string{}, codes: map[string]int64{garbage: -2}, htok: map[string]string{}}
	for i := 0; i < N+2; i++ {
		a := sdk.AccAddress(fmt.Sprintf("c17_account_%d_______", i))
		w.addrs = append(w.addrs, a)
		w.idx[a.String()] = i
	}
	for j := 0; j < 12; j++ {
		w.tok[sha(secret(j))] = fmt.Sprintf("K%d", j)
		w.tok[sha(pword(j))] = fmt.Sprintf("P%d", j)
		w.tok[pword(j)] = fmt.Sprintf("p%d", j)
	}
	w.tok[sha("wrong-secret")] = "Kx"
	w.tok[sha("wrong-pw")] = "Px"
	w.tok["wrong-pw"] = "px"
	bals0 := [][]cn{{{"ukex", 1000000}, {"uusd", 50000}, {"uzzz", 100}}, {{"ukex", 1000000}, {"uusd", 50000}}, {{"ukex", 5000}}, {{"ukex", 5000}},
		{{"ukex", 300}}, {}, {}, {}, {{"ukex", 1000000000000}}, {}}
	for i, b := range bals0 {
		if len(b) > 0 {
			if err := app.BankKeeper.MintCoins(base, minttypes.ModuleName, sdkCoins(b)); err != nil {
				panic(err)
			}
			if err := app.BankKeeper.SendCoinsFromModuleToAccount(base, minttypes.ModuleName, w.addrs[i], sdkCoins(b)); err != nil {
				panic(err)
			}
		}
	}
	minrew := app.CustomGovKeeper.GetNetworkProperties(base).MinCustodyReward
	deco := customante.NewCustodyDecorator(app.CustodyKeeper, app.CustomGovKeeper)
	dist := hx.Counter{}

	var cases []string
	var js []interface{}
	newHist := func(label string) *hist {
		ctx, _ := base.CacheContext()
		h := &hist{w: w, ctx: ctx, deco: deco, dist: dist, id: len(cases), label: label, now: 1700000000, rotated: map[int]bool{}}
		for i := range h.sec {
			h.sec[i] = -1
		}
		h.registerSecrets()
		h.prev = w.observe(ctx)
		return h
	}
	finish := func(h *hist) {
		var bs []string
		for _, b := range bals0[:N] {
			bs = append(bs, coqCoins(b))
		}
		cases = append(cases, fmt.Sprintf("C17 %s %s", hx.List(bs), hx.List(h.steps)))
		js = append(js, map[string]interface{}{"history": h.id, "label": h.label, "initial_balances": bals0[:N],
			"accounts": "0,1 owners; 2,3,(4) custodians; 4,5 strangers/destinations; 6,7 fresh addresses (rotation targets); 8,9 filler / fee payer", "ops": h.ops})
		dist.Inc(fmt.Sprintf("history_len:%02d", len(h.ops)/5*5))
	}
	// ---- which variant of the five repaired places does this tree implement? (probe transactions)
	vr := probe(newHist)
	dist = hx.Counter{}
	newHist2 := func(label string) *hist { h := newHist(label); h.dist = dist; h.fill = h.id % 4; return h }
	directed(newHist2, finish, vr)
	nd := len(cases)
	for hi := 0; hi < *n; hi++ {
		h := newHist2("random")
		h.r = r.Fork()
		random(h)
		finish(h)
	}

	var f strings.Builder
	f.WriteString("(* written by /verif/harness/cmd/c17 -- observations of the real code *)\n")
	f.WriteString("From Sekai Require Import Base.Prelude Model.Custody Model.C17Check.\n")
	f.WriteString(fmt.Sprintf("Definition minrew : Z := %d.\n", minrew))
	f.WriteString(fmt.Sprintf("Definition c17_variant : variant := mkV %s %s %s %s %s %s.\n", hx.B(vr.custOnly), hx.B(vr.lower), hx.B(vr.pwd), hx.B(vr.nilmap), hx.B(vr.limits), hx.B(vr.rot)))
	out.WriteFile("pre.v", f.String())
	out.WriteFile("cases.txt", strings.Join(cases, "\n")+"\n")
	out.WriteJSON("meta.json", map[string]string{"case_type": "c17_case", "mismatch_fn": "c17_mismatches c17_variant minrew", "violation_fn": "c17_violations"})
	out.WriteJSON("cases.json", js)
	out.WriteJSON("dist.json", map[string]interface{}{"seed": seed, "histories": len(js), "directed": nd, "random": *n, "by_kind_and_outcome": dist,
		"variant": map[string]bool{"votes_by_custodians_only": vr.custOnly, "vote_key_lowercase": vr.lower, "password_compared": vr.pwd, "empty_map_assignment_ok": vr.nilmap, "limits_window": vr.limits, "rotation_moves_votes": vr.rot}})
	fmt.Fprintf(os.Stderr, "c17: %d histories\n", len(js))
}
