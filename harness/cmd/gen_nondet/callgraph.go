package main

// Static call graph over the scanned packages, used to NAME how a site is reached: from the function
// that owns a site backwards to the entry points of block execution (message-server methods, ante
// and post decorators, begin/end blockers, InitGenesis, proposal handlers) or of off-consensus
// services (gRPC queries, ExportGenesis).  Calls through interfaces are resolved by method name to
// every method of that name in the scanned packages (over-approximation).

import (
	"crypto/sha256"
	"encoding/hex"
	"go/ast"
	"go/types"
	"path/filepath"
	"sort"
	"strings"
)

type cgNode struct {
	key     string          // file|func as in the site table
	entry   string          // "" or the entry-point label
	callees map[string]bool // all resolved callees (interface calls by method name)
	direct  map[string]bool // statically resolved callees only
	src     string          // normalised source
}

var (
	cgNodes   = map[string]*cgNode{}       // by key
	cgByObj   = map[types.Object]*cgNode{} // function object -> node
	cgByName  = map[string][]*cgNode{}     // method name -> nodes (interface dispatch)
	cgPending []func()
)

func entryLabel(pi *pkgInfo, fd *ast.FuncDecl, rel string) string {
	name := fd.Name.Name
	recv := ""
	if fd.Recv != nil {
		recv = strings.TrimSuffix(recvName(fd), "."+name)
	}
	mod := strings.Split(filepath.ToSlash(rel), "/")
	module := mod[0]
	if len(mod) > 1 && mod[0] == "x" {
		module = mod[1]
	}
	// second parameter type name (message / request)
	param := ""
	if fd.Type.Params != nil && len(fd.Type.Params.List) >= 2 {
		param = src(fd.Type.Params.List[1].Type)
		param = strings.TrimPrefix(param, "*")
		if i := strings.LastIndexByte(param, '.'); i >= 0 {
			param = param[i+1:]
		}
	}
	lr := strings.ToLower(recv)
	switch {
	case strings.Contains(lr, "msgserver") && strings.HasPrefix(param, "Msg"):
		return "msg:" + module + "." + param
	case name == "AnteHandle":
		return "ante:" + recv
	case name == "PostHandle":
		return "post:" + recv
	case name == "BeginBlock" || name == "BeginBlocker":
		return "hook:" + module + ".BeginBlock"
	case name == "EndBlock" || name == "EndBlocker":
		return "hook:" + module + ".EndBlock"
	case name == "InitGenesis":
		return "genesis:" + module + ".InitGenesis"
	case name == "ExportGenesis":
		return "offconsensus:" + module + ".ExportGenesis"
	case name == "Apply" && recv != "":
		return "proposal:" + recv
	case strings.HasSuffix(param, "Request") && (strings.Contains(lr, "querier") || strings.Contains(lr, "keeper") || strings.Contains(lr, "query")):
		return "offconsensus:query " + module + "." + name
	}
	return ""
}

func buildCallGraph(pi *pkgInfo, relDir string) {
	for i, f := range pi.files {
		if excludedFile(pi.names[i]) {
			continue
		}
		rel := filepath.ToSlash(filepath.Join(relDir, pi.names[i]))
		for _, d := range f.Decls {
			fd, ok := d.(*ast.FuncDecl)
			if !ok || fd.Body == nil {
				continue
			}
			n := &cgNode{key: rel + "|" + recvName(fd), entry: entryLabel(pi, fd, relDir), callees: map[string]bool{}, direct: map[string]bool{}, src: normSrc(fd)}
			cgNodes[n.key] = n
			if o := pi.info.Defs[fd.Name]; o != nil {
				cgByObj[o] = n
			}
			cgByName[fd.Name.Name] = append(cgByName[fd.Name.Name], n)
			fd, pi := fd, pi
			cgPending = append(cgPending, func() {
				ast.Inspect(fd.Body, func(x ast.Node) bool {
					c, ok := x.(*ast.CallExpr)
					if !ok {
						return true
					}
					var id *ast.Ident
					iface := false
					switch fn := c.Fun.(type) {
					case *ast.Ident:
						id = fn
					case *ast.SelectorExpr:
						id = fn.Sel
						if sel, ok := pi.info.Selections[fn]; ok {
							if _, isI := sel.Recv().Underlying().(*types.Interface); isI {
								iface = true
							}
						}
					}
					if id == nil {
						return true
					}
					if t, ok := cgByObj[pi.info.Uses[id]]; ok && !iface {
						n.callees[t.key] = true
						n.direct[t.key] = true
					} else if iface {
						for _, t := range cgByName[id.Name] {
							n.callees[t.key] = true
						}
					}
					return true
				})
			})
		}
	}
}

func cgResolve() {
	for _, f := range cgPending {
		f()
	}
	cgPending = nil
}

// closureFingerprint: hash of the function and of every function of the scanned packages it can call through
// statically resolved calls, followed to a fixpoint (interface dispatch is not followed: resolving it by method
// name would tie every verdict to half of the code base)
func closureFingerprint(key, rootSrc string) string {
	cgResolve()
	seen := map[string]bool{key: true}
	queue := []string{key}
	for len(queue) > 0 {
		k := queue[0]
		queue = queue[1:]
		if n := cgNodes[k]; n != nil {
			for c := range n.direct {
				if !seen[c] {
					seen[c] = true
					queue = append(queue, c)
				}
			}
		}
	}
	var keys []string
	for k := range seen {
		if k != key {
			keys = append(keys, k)
		}
	}
	sort.Strings(keys)
	h := sha256.New()
	h.Write([]byte(rootSrc))
	for _, k := range keys {
		h.Write([]byte("\n" + k + ":" + cgNodes[k].src))
	}
	return hex.EncodeToString(h.Sum(nil))[:16]
}

// reach: entry points from which the function with the given key can be called
func reach(key string) []string {
	cgResolve()
	callers := map[string][]string{}
	for k, n := range cgNodes {
		for c := range n.callees {
			callers[c] = append(callers[c], k)
		}
	}
	seen := map[string]bool{key: true}
	queue := []string{key}
	found := map[string]bool{}
	for len(queue) > 0 && len(seen) < 4000 {
		k := queue[0]
		queue = queue[1:]
		if n := cgNodes[k]; n != nil && n.entry != "" {
			found[n.entry] = true
			continue // an entry point: do not climb further
		}
		for _, c := range callers[k] {
			if !seen[c] {
				seen[c] = true
				queue = append(queue, c)
			}
		}
	}
	var out []string
	for e := range found {
		out = append(out, e)
	}
	sort.Strings(out)
	if len(out) > 12 {
		out = append(out[:12], "...")
	}
	return out
}
