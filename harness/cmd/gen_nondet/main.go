// gen_nondet: translator for property C01. It type-checks every non-test, non-client Go package
// under <repo>/x, <repo>/app and <repo>/types (sekai packages from source, everything else from the compiler's
// export data found with `go list -export`) and lists every syntactic source of replica
// nondeterminism:
//
//	timenow   time.Now / time.Since / time.Until
//	rand      any use of math/rand or crypto/rand
//	maprange  `range` over an expression whose type is a Go map
//	pbmap     `range` over a map inside a generated Marshal/MarshalTo/MarshalToSizedBuffer (*.pb.go)
//	mapkeys   golang.org/x/exp/maps (or std maps) Keys/Values
//	go        go statements
//	osenv     os.Getenv / LookupEnv / Environ / Hostname / Getpid / Getwd, time.Local / Time.Local() (host time zone)
//	runtime   any use of package runtime
//	localtime local-zone time: time.Unix/UnixMilli/UnixMicro/Parse (result carries the host's zone unless .UTC() is applied
//	          in the same expression), time.Date / ParseInLocation / Time.In with a location other than time.UTC, time.Local,
//	          Time.Local(), and zone-dependent renderings of a time.Time not forced by .UTC() in the same expression
//	          (Format, AppendFormat, String, MarshalJSON/Text, Zone, Location, Date, Clock, Year ... ISOWeek)
//	errtext   the text of an error value (fmt.Sprint*/Append* with an error argument, err.Error()) that is stored in a field /
//	          literal, put into an event or passed to a Set*/Save* function (returned errors, panics, logs are not sites)
//	procstate write to process-local state: a package-level variable or a field of a hand-written struct type of
//	          the application (assignment, index assignment, append, delete, Store/Delete/..., big.Int mutators)
//	          outside constructors (New*/Make*), init and Register* functions
//
// Each site is keyed by file + function + kind + expression text + ordinal (no line numbers).
// The same pass extracts the SetOrderBeginBlockers / EndBlockers / InitGenesis lists of app/app.go.
// Output: coq/Gen/NondetSites.v (data only).  Exit 2 when the tree cannot be listed / parsed.
package main

import (
	"bytes"
	"crypto/sha256"
	"encoding/hex"
	"flag"
	"fmt"
	"go/ast"
	"go/build"
	"go/importer"
	"go/parser"
	"go/printer"
	"go/token"
	"go/types"
	"io"
	"os"
	"os/exec"
	"path/filepath"
	"sort"
	"strings"
)

const modPath = "github.com/KiraCore/sekai"

var (
	fset    = token.NewFileSet()
	repo    string
	bctx    = build.Default
	exports = map[string]string{} // import path -> export data file
	gcImp   types.Importer
	pkgs    = map[string]*pkgInfo{} // sekai packages type-checked from source
	genErrs []string
)

type pkgInfo struct {
	pkg   *types.Package
	info  *types.Info
	files []*ast.File
	names []string
	errs  []string
}

func die(f string, a ...interface{}) {
	fmt.Fprintf(os.Stderr, "gen_nondet: "+f+"\n", a...)
	os.Exit(2)
}

// excluded directory names (client-side / simulation / legacy migration code never runs in a block)
func excludedDir(rel string) bool {
	for _, p := range strings.Split(rel, string(filepath.Separator)) {
		switch p {
		case "client", "cli", "simulation", "legacy", "testutil", "teststaking", "testdata":
			return true
		}
	}
	return false
}

func excludedFile(name string) bool {
	return strings.HasSuffix(name, "_test.go") || strings.HasSuffix(name, ".pb.gw.go")
}

type srcImporter struct{}

func (srcImporter) Import(path string) (*types.Package, error) {
	if path == "unsafe" {
		return types.Unsafe, nil
	}
	if path == modPath || strings.HasPrefix(path, modPath+"/") {
		pi, err := load(path)
		if err != nil {
			return nil, err
		}
		return pi.pkg, nil
	}
	return gcImp.Import(path)
}

func dirOf(path string) string {
	return filepath.Join(repo, strings.TrimPrefix(strings.TrimPrefix(path, modPath), "/"))
}

var loading = map[string]bool{}

func load(path string) (*pkgInfo, error) {
	if pi, ok := pkgs[path]; ok {
		return pi, nil
	}
	if loading[path] {
		return nil, fmt.Errorf("import cycle through %s", path)
	}
	loading[path] = true
	defer delete(loading, path)
	dir := dirOf(path)
	bp, err := bctx.ImportDir(dir, 0)
	if err != nil {
		return nil, fmt.Errorf("%s: %v", path, err)
	}
	pi := &pkgInfo{info: &types.Info{Types: map[ast.Expr]types.TypeAndValue{}, Uses: map[*ast.Ident]types.Object{}, Defs: map[*ast.Ident]types.Object{}, Selections: map[*ast.SelectorExpr]*types.Selection{}}}
	for _, f := range bp.GoFiles {
		af, err := parserParse(filepath.Join(dir, f))
		if err != nil {
			return nil, err
		}
		pi.files = append(pi.files, af)
		pi.names = append(pi.names, f)
	}
	conf := types.Config{Importer: srcImporter{}, Error: func(err error) { pi.errs = append(pi.errs, err.Error()) }, FakeImportC: true}
	pkg, _ := conf.Check(path, fset, pi.files, pi.info)
	pi.pkg = pkg
	pkgs[path] = pi
	return pi, nil
}

func parserParse(p string) (*ast.File, error) { return parser.ParseFile(fset, p, nil, 0) }

// ---------------------------------------------------------------- sites

type site struct {
	File, Func, Kind, Expr string
	Ord                    int
}

func src(n ast.Node) string {
	var b bytes.Buffer
	printer.Fprint(&b, fset, n)
	s := strings.Join(strings.Fields(b.String()), " ")
	if len(s) > 60 {
		s = s[:60]
	}
	return s
}

func recvName(fd *ast.FuncDecl) string {
	if fd.Recv == nil || len(fd.Recv.List) == 0 {
		return fd.Name.Name
	}
	t := fd.Recv.List[0].Type
	for {
		switch x := t.(type) {
		case *ast.StarExpr:
			t = x.X
			continue
		case *ast.IndexExpr:
			t = x.X
			continue
		case *ast.ParenExpr:
			t = x.X
			continue
		}
		break
	}
	if id, ok := t.(*ast.Ident); ok {
		return id.Name + "." + fd.Name.Name
	}
	return src(t) + "." + fd.Name.Name
}

func pkgOf(info *types.Info, e ast.Expr) string {
	id, ok := e.(*ast.Ident)
	if !ok {
		return ""
	}
	if pn, ok := info.Uses[id].(*types.PkgName); ok {
		return pn.Imported().Path()
	}
	return ""
}

// normalised source of a declaration: printed from the AST (comments are not parsed), whitespace collapsed
func normSrc(n ast.Node) string {
	var b bytes.Buffer
	printer.Fprint(&b, fset, n)
	return strings.Join(strings.Fields(b.String()), " ")
}

type fingerprint struct{ File, Func, Hash string }

var selections [][3]string // map-range sites whose iteration feeds a selection (sort in the function, break / return in the body)

var fpRoots = map[string]string{} // file|func -> normalised source of the owning declaration

var fingerprints []fingerprint

// fingerprintOf hashes the function that owns a site together with the functions of the same
// package it calls directly (the producers / consumers of the iterated value), so that an audit
// verdict is pinned to the code it was given for.
func fingerprintOf(pi *pkgInfo, decls map[types.Object]*ast.FuncDecl, root ast.Node) string {
	h := sha256.New()
	h.Write([]byte(normSrc(root)))
	seen := map[string]string{}
	ast.Inspect(root, func(n ast.Node) bool {
		c, ok := n.(*ast.CallExpr)
		if !ok {
			return true
		}
		var id *ast.Ident
		switch f := c.Fun.(type) {
		case *ast.Ident:
			id = f
		case *ast.SelectorExpr:
			id = f.Sel
		}
		if id == nil {
			return true
		}
		if fd, ok := decls[pi.info.Uses[id]]; ok && fd != root {
			seen[recvName(fd)] = normSrc(fd)
		}
		return true
	})
	var names []string
	for k := range seen {
		names = append(names, k)
	}
	sort.Strings(names)
	for _, k := range names {
		h.Write([]byte("\n" + k + ":" + seen[k]))
	}
	return hex.EncodeToString(h.Sum(nil))[:16]
}

// ---- process-local state: package-level variables and fields of hand-written struct types of
// the application (keepers, decorators, modules, servers ...) that are WRITTEN outside
// constructors / init / registration code.  The property's mechanism is "all state access through
// the block context": anything a handler keeps in the process survives rollbacks, is filled by
// CheckTx / query / simulate contexts and is empty after a restart.
func isPkgLevelVar(o types.Object) bool {
	v, ok := o.(*types.Var)
	if !ok || v.IsField() || v.Pkg() == nil {
		return false
	}
	return v.Parent() == v.Pkg().Scope() && (v.Pkg().Path() == modPath || strings.HasPrefix(v.Pkg().Path(), modPath+"/"))
}

func statefulOwner(t types.Type) string {
	if p, ok := t.(*types.Pointer); ok {
		t = p.Elem()
	}
	n, ok := t.(*types.Named)
	if !ok || n.Obj().Pkg() == nil {
		return ""
	}
	pp := n.Obj().Pkg().Path()
	if pp != modPath && !strings.HasPrefix(pp, modPath+"/") {
		return ""
	}
	if _, ok := n.Underlying().(*types.Struct); !ok {
		return ""
	}
	if strings.HasSuffix(fset.Position(n.Obj().Pos()).Filename, ".pb.go") {
		return "" // protobuf messages are data
	}
	return n.Obj().Pkg().Name() + "." + n.Obj().Name()
}

// procRoot: the process-local object an lvalue / receiver expression is rooted at ("" if none):
// a package-level variable, or a field of an application struct reached from the receiver or a
// parameter of the enclosing function (fields of local values are not process state).
var curParams = map[types.Object]bool{}

func procRoot(pi *pkgInfo, e ast.Expr) string {
	field := ""
	for {
		switch x := e.(type) {
		case *ast.ParenExpr:
			e = x.X
		case *ast.StarExpr:
			e = x.X
		case *ast.IndexExpr:
			e = x.X
		case *ast.SliceExpr:
			e = x.X
		case *ast.SelectorExpr:
			if sel, ok := pi.info.Selections[x]; ok {
				if sel.Kind() != types.FieldVal {
					return ""
				}
				if o := statefulOwner(sel.Recv()); o != "" {
					field = o + "." + x.Sel.Name
				}
				e = x.X
				continue
			}
			if o := pi.info.Uses[x.Sel]; o != nil && isPkgLevelVar(o) {
				return o.Pkg().Name() + "." + o.Name()
			}
			return ""
		case *ast.Ident:
			o := pi.info.Uses[x]
			if o != nil && isPkgLevelVar(o) {
				return o.Pkg().Name() + "." + o.Name()
			}
			if field != "" && o != nil && curParams[o] {
				return field
			}
			return ""
		default:
			return ""
		}
	}
}

var mutators = map[string]bool{"Store": true, "Delete": true, "LoadOrStore": true, "LoadAndDelete": true, "Swap": true, "CompareAndSwap": true,
	"Add": true, "Sub": true, "Mul": true, "Quo": true, "Set": true, "SetInt64": true, "SetUint64": true, "SetString": true, "SetBytes": true, "Neg": true,
	"PushBack": true, "PushFront": true, "Remove": true, "Init": true, "Reset": true, "Write": true, "WriteString": true}

func mutableLibType(t types.Type) bool {
	if t == nil {
		return false
	}
	if p, ok := t.(*types.Pointer); ok {
		t = p.Elem()
	}
	n, ok := t.(*types.Named)
	if !ok || n.Obj().Pkg() == nil {
		return false
	}
	switch n.Obj().Pkg().Path() {
	case "sync", "sync/atomic", "math/big", "container/list", "container/heap", "container/ring", "bytes", "strings":
		return true
	}
	return false
}

// ---- error text: the rendering of an error value (fmt verbs, err.Error()) that is STORED or EMITTED.  %v / %+v of a
// wrapped error carries source paths of the build host; error texts of dependencies change between versions.
var errorIface = types.Universe.Lookup("error").Type().Underlying().(*types.Interface)

func isErrorValue(pi *pkgInfo, e ast.Expr) bool {
	t := pi.info.TypeOf(e)
	if t == nil {
		return false
	}
	if b, ok := t.Underlying().(*types.Basic); ok && (b.Kind() == types.UntypedNil || b.Kind() == types.Invalid) {
		return false
	}
	return types.Implements(t, errorIface)
}

// errorText: "fmt.Sprintf(err)" / "err.Error()" when the call renders an error value, else ""
func errorText(pi *pkgInfo, c *ast.CallExpr) string {
	se, ok := c.Fun.(*ast.SelectorExpr)
	if !ok {
		return ""
	}
	if pkgOf(pi.info, se.X) == "fmt" && (strings.HasPrefix(se.Sel.Name, "Sprint") || strings.HasPrefix(se.Sel.Name, "Append")) {
		for _, a := range c.Args {
			if isErrorValue(pi, a) {
				return "fmt." + se.Sel.Name + "(error)"
			}
		}
		return ""
	}
	if se.Sel.Name == "Error" && len(c.Args) == 0 && isErrorValue(pi, se.X) {
		return "error.Error()"
	}
	return ""
}

// textSink: where the rendered text goes, looking at the enclosing nodes: a struct field / map or slice element
// ("field"), a composite literal ("literal"), an event attribute ("event"), a store / keeper setter ("setter").
// Returned errors, panics, log lines and error wrapping are not sinks (they never enter a block result's hashed part).
func textSink(pi *pkgInfo, stack []ast.Node) string {
	for i := len(stack) - 2; i >= 0; i-- {
		switch p := stack[i].(type) {
		case *ast.AssignStmt:
			for _, l := range p.Lhs {
				switch l.(type) {
				case *ast.SelectorExpr, *ast.IndexExpr:
					return "field " + src(l)
				}
			}
			return ""
		case *ast.KeyValueExpr:
			return "literal " + src(p.Key)
		case *ast.CallExpr:
			name := ""
			switch f := p.Fun.(type) {
			case *ast.SelectorExpr:
				name = f.Sel.Name
			case *ast.Ident:
				name = f.Name
			}
			switch {
			case name == "NewAttribute" || name == "NewEvent" || name == "EmitEvent" || name == "EmitTypedEvent":
				return "event"
			case strings.HasPrefix(name, "Set") || strings.HasPrefix(name, "Save") || name == "Store":
				return "setter " + name
			case name == "panic" || strings.HasPrefix(name, "Wrap") || name == "Errorf" || name == "New" || name == "Info" || name == "Error" || name == "Debug" || name == "Println" || name == "Printf":
				return ""
			}
		case *ast.ReturnStmt, *ast.ExprStmt, *ast.FuncLit, *ast.BlockStmt:
			return ""
		}
	}
	return ""
}

func isTimeType(t types.Type) bool {
	if t == nil {
		return false
	}
	if p, ok := t.(*types.Pointer); ok {
		t = p.Elem()
	}
	n, ok := t.(*types.Named)
	return ok && n.Obj().Pkg() != nil && n.Obj().Pkg().Path() == "time" && n.Obj().Name() == "Time"
}

// expressions that are the receiver of a .UTC() call (their zone is forced in the same expression)
var utcForced = map[ast.Expr]bool{}

func wiringFunc(fn string) bool {
	if i := strings.LastIndexByte(fn, '.'); i >= 0 {
		fn = fn[i+1:]
	}
	return fn == "init" || fn == "<pkg>" || strings.HasPrefix(fn, "New") || strings.HasPrefix(fn, "Register") || strings.HasPrefix(fn, "Make")
}

func scan(pi *pkgInfo, relDir string) []site {
	var out []site
	decls := map[types.Object]*ast.FuncDecl{}
	for _, f := range pi.files {
		for _, d := range f.Decls {
			if fd, ok := d.(*ast.FuncDecl); ok && fd.Body != nil {
				if o := pi.info.Defs[fd.Name]; o != nil {
					decls[o] = fd
				}
			}
		}
	}
	for i, f := range pi.files {
		name := pi.names[i]
		if excludedFile(name) {
			continue
		}
		rel := filepath.ToSlash(filepath.Join(relDir, name))
		isPb := strings.HasSuffix(name, ".pb.go")
		count := map[string]int{}
		add := func(fn, kind, expr string) {
			k := fn + "|" + kind + "|" + expr
			out = append(out, site{rel, fn, kind, expr, count[k]})
			count[k]++
		}
		visit := func(fn string, root ast.Node) {
			fnSrc := normSrc(root)
			var stack []ast.Node
			ast.Inspect(root, func(n ast.Node) bool {
				if n == nil {
					stack = stack[:len(stack)-1]
					return true
				}
				stack = append(stack, n)
				if c, ok := n.(*ast.CallExpr); ok {
					if what := errorText(pi, c); what != "" {
						if sink := textSink(pi, stack); sink != "" {
							add(fn, "errtext", what+" -> "+sink)
						}
					}
				}
				switch x := n.(type) {
				case *ast.AssignStmt:
					if !wiringFunc(fn) && x.Tok != token.DEFINE {
						for _, l := range x.Lhs {
							if r := procRoot(pi, l); r != "" {
								add(fn, "procstate", r)
							}
						}
					}
				case *ast.IncDecStmt:
					if r := procRoot(pi, x.X); r != "" && !wiringFunc(fn) {
						add(fn, "procstate", r)
					}
				case *ast.CallExpr:
					// ---- local-zone time: values carrying the HOST's zone, and zone-dependent renderings
					if se, ok := x.Fun.(*ast.SelectorExpr); ok {
						if se.Sel.Name == "UTC" && isTimeType(pi.info.TypeOf(se.X)) {
							utcForced[se.X] = true // visited before its receiver (pre-order)
						}
						if pkgOf(pi.info, se.X) == "time" {
							switch se.Sel.Name {
							case "Unix", "UnixMilli", "UnixMicro", "Parse":
								if !utcForced[x] {
									add(fn, "localtime", "time."+se.Sel.Name)
								}
							case "Date", "ParseInLocation":
								if len(x.Args) > 0 && src(x.Args[len(x.Args)-1]) != "time.UTC" && !utcForced[x] {
									add(fn, "localtime", "time."+se.Sel.Name)
								}
							}
						} else if isTimeType(pi.info.TypeOf(se.X)) {
							switch se.Sel.Name {
							case "In":
								if len(x.Args) == 1 && src(x.Args[0]) != "time.UTC" {
									add(fn, "localtime", "Time.In")
								}
							case "Format", "AppendFormat", "String", "GoString", "MarshalJSON", "MarshalText", "Zone", "Location",
								"Date", "Clock", "Year", "Month", "Day", "Hour", "Minute", "Weekday", "YearDay", "ISOWeek":
								forced := false
								if c, ok := se.X.(*ast.CallExpr); ok {
									if s2, ok := c.Fun.(*ast.SelectorExpr); ok && s2.Sel.Name == "UTC" && isTimeType(pi.info.TypeOf(s2.X)) {
										forced = true
									}
								}
								if !forced {
									add(fn, "localtime", "Time."+se.Sel.Name)
								}
							}
						}
					}
					if wiringFunc(fn) {
						break
					}
					if id, ok := x.Fun.(*ast.Ident); ok && (id.Name == "delete" || id.Name == "clear" || id.Name == "copy") && len(x.Args) > 0 {
						if _, isBuiltin := pi.info.Uses[id].(*types.Builtin); isBuiltin {
							if r := procRoot(pi, x.Args[0]); r != "" {
								add(fn, "procstate", r)
							}
						}
					}
					if se, ok := x.Fun.(*ast.SelectorExpr); ok && mutators[se.Sel.Name] && mutableLibType(pi.info.TypeOf(se.X)) {
						if r := procRoot(pi, se.X); r != "" {
							add(fn, "procstate", r)
						}
					}
				case *ast.GoStmt:
					add(fn, "go", src(x.Call.Fun))
				case *ast.RangeStmt:
					t := pi.info.TypeOf(x.X)
					if t == nil {
						genErrs = append(genErrs, rel+": "+fn+": range over untyped expression "+src(x.X))
						break
					}
					if _, ok := t.Underlying().(*types.Map); ok {
						kind := "maprange"
						if isPb && (strings.HasSuffix(fn, ".MarshalToSizedBuffer") || strings.HasSuffix(fn, ".MarshalTo") || strings.HasSuffix(fn, ".Marshal")) {
							kind = "pbmap"
						}
						add(fn, kind, src(x.X))
						// does the iteration feed a SELECTION (first match / early exit in the body, or a sort in the owning function)?
						sel := strings.Contains(fnSrc, "sort.Slice") || strings.Contains(fnSrc, "sort.Sort") || strings.Contains(fnSrc, "sort.Stable") || strings.Contains(fnSrc, "sort.Strings")
						ast.Inspect(x.Body, func(m ast.Node) bool {
							switch y := m.(type) {
							case *ast.ReturnStmt:
								sel = true
							case *ast.BranchStmt:
								if y.Tok == token.BREAK {
									sel = true
								}
							}
							return true
						})
						if sel && kind == "maprange" {
							selections = append(selections, [3]string{rel, fn, src(x.X)})
						}
					} else if b, ok := t.Underlying().(*types.Basic); ok && b.Kind() == types.Invalid {
						genErrs = append(genErrs, rel+": "+fn+": range over expression of unknown type "+src(x.X))
					}
				case *ast.SelectorExpr:
					if x.Sel.Name == "Local" { // host time zone: time.Local, Time.Local()
						if pkgOf(pi.info, x.X) == "time" || isTimeType(pi.info.TypeOf(x.X)) {
							add(fn, "localtime", "time.Local")
						}
					}
					switch p := pkgOf(pi.info, x.X); p {
					case "time":
						if x.Sel.Name == "Now" || x.Sel.Name == "Since" || x.Sel.Name == "Until" {
							add(fn, "timenow", "time."+x.Sel.Name)
						}
					case "math/rand", "crypto/rand", "math/rand/v2":
						add(fn, "rand", p+"."+x.Sel.Name)
					case "golang.org/x/exp/maps", "maps":
						if x.Sel.Name == "Keys" || x.Sel.Name == "Values" {
							add(fn, "mapkeys", p+"."+x.Sel.Name)
						}
					case "os":
						switch x.Sel.Name {
						case "Getenv", "LookupEnv", "Environ", "Hostname", "Getpid", "Getwd", "Getppid":
							add(fn, "osenv", "os."+x.Sel.Name)
						}
					case "runtime", "runtime/debug":
						add(fn, "runtime", p+"."+x.Sel.Name)
					}
				}
				return true
			})
		}
		for _, d := range f.Decls {
			switch x := d.(type) {
			case *ast.FuncDecl:
				if x.Body != nil {
					n0 := len(out)
					curParams = map[types.Object]bool{}
					for _, fl := range []*ast.FieldList{x.Recv, x.Type.Params} {
						if fl == nil {
							continue
						}
						for _, fld := range fl.List {
							for _, nm := range fld.Names {
								if o := pi.info.Defs[nm]; o != nil {
									curParams[o] = true
								}
							}
						}
					}
					visit(recvName(x), x)
					if len(out) > n0 {
						fingerprints = append(fingerprints, fingerprint{rel, recvName(x), ""})
						fpRoots[rel+"|"+recvName(x)] = normSrc(x)
					}
				}
			case *ast.GenDecl:
				n0 := len(out)
				visit("<pkg>", x)
				if len(out) > n0 {
					if _, dup := fpRoots[rel+"|<pkg>"]; !dup {
						fingerprints = append(fingerprints, fingerprint{rel, "<pkg>", ""})
					}
					fpRoots[rel+"|<pkg>"] += normSrc(x)
				}
			}
		}
	}
	return out
}

// ---------------------------------------------------------------- module order (app/app.go)

func orders(pi *pkgInfo) map[string][]string {
	res := map[string][]string{}
	for _, f := range pi.files {
		ast.Inspect(f, func(n ast.Node) bool {
			c, ok := n.(*ast.CallExpr)
			if !ok {
				return true
			}
			s, ok := c.Fun.(*ast.SelectorExpr)
			if !ok {
				return true
			}
			switch s.Sel.Name {
			case "SetOrderBeginBlockers", "SetOrderEndBlockers", "SetOrderInitGenesis":
				var l []string
				for _, a := range c.Args {
					// resolve the constant's value when the type checker knows it
					if tv, ok := pi.info.Types[a]; ok && tv.Value != nil {
						l = append(l, strings.Trim(tv.Value.ExactString(), "\""))
					} else {
						l = append(l, src(a))
					}
				}
				res[s.Sel.Name] = append(res[s.Sel.Name], l...)
			}
			return true
		})
	}
	return res
}

// ---------------------------------------------------------------- main

func coqStr(s string) string {
	var b strings.Builder
	for i := 0; i < len(s); i++ {
		c := s[i]
		if c < 32 || c > 126 {
			c = '?'
		}
		if c == '"' {
			b.WriteString("\"\"")
		} else {
			b.WriteByte(c)
		}
	}
	return "\"" + b.String() + "\""
}

func main() {
	repoF := flag.String("repo", "/repo", "source tree")
	outF := flag.String("out", "NondetSites.v", "output file")
	flag.Parse()
	repo = *repoF
	bctx.BuildTags = append(bctx.BuildTags, "verif")
	bctx.CgoEnabled = true

	// 1. packages in scope
	type scope struct{ path, rel string }
	var scopes []scope
	for _, top := range []string{"x", "app", "types"} {
		filepath.Walk(filepath.Join(repo, top), func(p string, fi os.FileInfo, err error) error {
			if err != nil || !fi.IsDir() {
				return nil
			}
			rel, _ := filepath.Rel(repo, p)
			if excludedDir(rel) {
				return filepath.SkipDir
			}
			ms, _ := filepath.Glob(filepath.Join(p, "*.go"))
			has := false
			for _, m := range ms {
				if !excludedFile(filepath.Base(m)) {
					has = true
				}
			}
			if has {
				scopes = append(scopes, scope{modPath + "/" + filepath.ToSlash(rel), rel})
			}
			return nil
		})
	}
	if len(scopes) < 20 {
		die("only %d packages found under %s/x and %s/app", len(scopes), repo, repo)
	}

	// 2. export data of every non-sekai dependency (compiled packages from the build cache)
	cmd := exec.Command("go", "list", "-export", "-deps", "-f", "{{if .Export}}{{.ImportPath}}={{.Export}}{{end}}", "-tags", "verif", "./x/...", "./app/...", "./types/...")
	cmd.Dir = repo
	cmd.Env = append(os.Environ(), "GOFLAGS=-mod=readonly", "GOPROXY=off", "GOSUMDB=off", "GOTOOLCHAIN=local")
	var stderr bytes.Buffer
	cmd.Stderr = &stderr
	outb, err := cmd.Output()
	if err != nil {
		die("go list -export failed: %v\n%s", err, stderr.String())
	}
	for _, ln := range strings.Split(string(outb), "\n") {
		if i := strings.IndexByte(ln, '='); i > 0 {
			exports[ln[:i]] = ln[i+1:]
		}
	}
	gcImp = importer.ForCompiler(fset, "gc", func(path string) (io.ReadCloser, error) {
		f, ok := exports[path]
		if !ok {
			return nil, fmt.Errorf("no export data for %s", path)
		}
		return os.Open(f)
	})

	// 3. type-check + scan
	var sites []site
	nfiles := 0
	for _, sc := range scopes {
		pi, err := load(sc.path)
		if err != nil {
			die("cannot load %s: %v", sc.path, err)
		}
		for _, e := range pi.errs {
			genErrs = append(genErrs, "typecheck "+sc.rel+": "+e)
		}
		nfiles += len(pi.files)
		sites = append(sites, scan(pi, sc.rel)...)
		buildCallGraph(pi, sc.rel)
	}
	sort.SliceStable(sites, func(i, j int) bool {
		a, b := sites[i], sites[j]
		if a.File != b.File {
			return a.File < b.File
		}
		if a.Func != b.Func {
			return a.Func < b.Func
		}
		if a.Kind != b.Kind {
			return a.Kind < b.Kind
		}
		if a.Expr != b.Expr {
			return a.Expr < b.Expr
		}
		return a.Ord < b.Ord
	})
	appPi, err := load(modPath + "/app")
	if err != nil {
		die("cannot load app: %v", err)
	}
	ord := orders(appPi)
	for _, k := range []string{"SetOrderBeginBlockers", "SetOrderEndBlockers", "SetOrderInitGenesis"} {
		if len(ord[k]) == 0 {
			genErrs = append(genErrs, "app/app.go: no "+k+" call found")
		}
	}
	if len(genErrs) > 12 {
		genErrs = append(genErrs[:12], fmt.Sprintf("... and %d more", len(genErrs)-12))
	}

	// 4. emit
	var b strings.Builder
	b.WriteString("(* GENERATED by /verif/harness/cmd/gen_nondet from the working tree -- do not edit.\n")
	fmt.Fprintf(&b, "   %d packages, %d files scanned (x/, app/ and types/; excluded: client cli simulation legacy testutil teststaking, *_test.go, *.pb.gw.go). *)\n", len(scopes), nfiles)
	b.WriteString("From Sekai Require Import Base.Prelude.\n\n")
	b.WriteString("Inductive site_kind : Type := KTimeNow | KRand | KMapRange | KPbMap | KMapKeys | KGo | KOsEnv | KRuntime | KProcState | KLocalTime | KErrText.\n")
	b.WriteString("Record site : Type := mkSite { s_file : string; s_func : string; s_kind : site_kind; s_expr : string; s_ord : nat }.\n\n")
	kinds := map[string]string{"timenow": "KTimeNow", "rand": "KRand", "maprange": "KMapRange", "pbmap": "KPbMap", "mapkeys": "KMapKeys", "go": "KGo", "osenv": "KOsEnv", "runtime": "KRuntime", "procstate": "KProcState", "localtime": "KLocalTime", "errtext": "KErrText"}
	b.WriteString("Definition sites : list site := [\n")
	for i, s := range sites {
		sep := ";"
		if i == len(sites)-1 {
			sep = ""
		}
		fmt.Fprintf(&b, "  mkSite %s %s %s %s %d%s\n", coqStr(s.File), coqStr(s.Func), kinds[s.Kind], coqStr(s.Expr), s.Ord, sep)
	}
	b.WriteString("]%string.\n\n")
	sort.SliceStable(fingerprints, func(i, j int) bool {
		if fingerprints[i].File != fingerprints[j].File {
			return fingerprints[i].File < fingerprints[j].File
		}
		return fingerprints[i].Func < fingerprints[j].Func
	})
	for i := range fingerprints {
		k := fingerprints[i].File + "|" + fingerprints[i].Func
		fingerprints[i].Hash = closureFingerprint(k, fpRoots[k])
	}
	b.WriteString("(* fingerprint (sha256 prefix of the comment- and whitespace-normalised source) of every function that owns a site,\n   together with every function of the scanned packages reachable from it through statically resolved calls (fixpoint) *)\n")
	b.WriteString("Definition func_fingerprints : list (string * string * string) := [\n")
	for i, f := range fingerprints {
		sep := ";"
		if i == len(fingerprints)-1 {
			sep = ""
		}
		fmt.Fprintf(&b, "  (%s, %s, %s)%s\n", coqStr(f.File), coqStr(f.Func), coqStr(f.Hash), sep)
	}
	b.WriteString("]%string.\n\n")
	b.WriteString("(* how each function owning a site is reached: entry points of block execution (msg: / ante: / post: / hook: / genesis: /\n   proposal:) or of off-consensus services (offconsensus:), from a static call graph (interface calls resolved by method name) *)\n")
	b.WriteString("Definition site_reach : list (string * string * list string) := [\n")
	for i, f := range fingerprints {
		sep := ";"
		if i == len(fingerprints)-1 {
			sep = ""
		}
		var q []string
		for _, e := range reach(f.File + "|" + f.Func) {
			q = append(q, coqStr(e))
		}
		fmt.Fprintf(&b, "  (%s, %s, [%s])%s\n", coqStr(f.File), coqStr(f.Func), strings.Join(q, "; "), sep)
	}
	b.WriteString("]%string.\n\n")
	b.WriteString("(* map-range sites that feed a SELECTION (a sort in the owning function, or break / return inside the loop): with tied\n   candidates the result follows the iteration order unless the comparison is total; the replica run needs the ties family *)\n")
	b.WriteString("Definition selection_sites : list (string * string * string) := [")
	for i, x := range selections {
		if i > 0 {
			b.WriteString("; ")
		}
		fmt.Fprintf(&b, "(%s, %s, %s)", coqStr(x[0]), coqStr(x[1]), coqStr(x[2]))
	}
	b.WriteString("]%string.\n\n")
	lst := func(name string, l []string) {
		var q []string
		for _, x := range l {
			q = append(q, coqStr(x))
		}
		fmt.Fprintf(&b, "Definition %s : list string := [%s]%%string.\n", name, strings.Join(q, "; "))
	}
	lst("order_begin_blockers", ord["SetOrderBeginBlockers"])
	lst("order_end_blockers", ord["SetOrderEndBlockers"])
	lst("order_init_genesis", ord["SetOrderInitGenesis"])
	lst("gen_errors", genErrs)
	if err := os.WriteFile(*outF, []byte(b.String()), 0o644); err != nil {
		die("write: %v", err)
	}
	fmt.Fprintf(os.Stderr, "gen_nondet: %d sites in %d packages (%d files), %d translator errors\n", len(sites), len(scopes), nfiles, len(genErrs))
}
