import re,sys,collections
"""usage: mkaudit.py Gen/PanicSites.v [PanicSites-of-another-accepted-tree.v ...] [--splice coq/Properties/C06.v]
Prints (or splices into Properties/C06.v) covered_table / audit_table for the sites of the first file; the
fingerprints of the audited functions are the union over all given files (e.g. the tree with pending fixes applied)."""
args=[a for a in sys.argv[1:] if not a.startswith('--')]
splice=None
if '--splice' in sys.argv:
    splice=sys.argv[sys.argv.index('--splice')+1]; args=[a for a in args if a!=splice]
src=open(args[0]).read()
fps={}
for a in args:
    m=re.search(r'Definition fn_fingerprints.*?:= \[(.*?)\n\]\.',open(a).read(),re.S)
    for fn,h in re.findall(r'\("([^"]*)", "([^"]*)"\)',m.group(1)):
        fps.setdefault(fn,[])
        if h not in fps[fn]: fps[fn].append(h)
PINNED_KINDS={"quo","div","sub","newcoin","panic","index"}
cnt=collections.OrderedDict()
for a in args:   # site counts: the maximum over all accepted trees (a pending fix may add a function)
    c1={}
    for f,fn,key,kind in re.findall(r'^  \("([^"]*)", "([^"]*)", "([^"]*)", "([^"]*)"',open(a).read(),re.M):
        c1[(fn,kind)]=c1.get((fn,kind),0)+1
    for k,v in c1.items():
        cnt[k]=max(cnt.get(k,0),v)
covered={
 ("x/gov.processProposal","panic"):"the IsQuorum error no longer panics (fix 121883e, flag gov_proposal_quorum_error_panics = false, C06_proposal_quorum_on_this_tree full strength); remaining panic 'proposal was expected to exist': queue entries are written together with the proposal, proposals are never deleted",
 ("x/gov.processPoll","panic"):"the IsQuorum error no longer panics (fix 121883e, C06_poll_quorum_on_this_tree full strength); GetPoll error unreachable (polls are never deleted)",
 ("x/spending/keeper.Keeper.EndBlocker","quo"):"Halt.spend_pool_step: guarded since fix 2d6ac44 (denominator positive), C06_spend_endblock_never_panics; flag spend_endblock_guarded regenerated from the tree",
 ("x/spending/keeper.Keeper.EndBlocker","newcoin"):"Halt.new_dec_coin: rate = non-negative deposit / positive denominator since fix 2d6ac44",
 ("x/spending/keeper.Keeper.ClaimSpendingPool","sub"):"SafeSub + error since fix c12fc9f (flag claim_sub_unchecked = false, C06_claim_on_this_tree full strength)",
 ("x/spending/keeper.Keeper.ClaimSpendingPool","newcoin"):"guarded since fix c12fc9f: amount.IsNegative() returns an error before NewCoin",
 ("x/spending.ApplySpendingPoolWithdrawProposalHandler.Apply","sub"):"SafeSub + error since fix c12fc9f (flag withdraw_sub_unchecked = false, C06_withdraw_on_this_tree full strength)",
 ("x/staking/keeper.Keeper.BlockValidatorUpdates","panic"):"Halt.vend: unreachable under v_inv (staking_updates_never_panic): queues only receive keys of existing validators and validators are never deleted",
 ("x/feeprocessing/keeper.Keeper.ProcessExecutionFeeReturn","panic"):"Halt.pay_from_collector: reachable only if the fee collector cannot cover the refund (collector_shortfall_panics; depends on C04/C10 over-crediting) -- not reproduced",
 ("x/distributor/keeper.Keeper.AllocateTokensToValidator","panic"):"Halt.allocate / pay_from_collector: the payout itself is covered (allocate_never_panics) but REACHABLE once IncreasePoolRewards has paid an over-credit out of the collector first: finding AllocateTokensToValidator:insufficient-funds (C06_overcredit_shortfall_refuted)",
 ("x/distributor/keeper.Keeper.AllocateTokens","quo"):"Halt.allocate: snap period and InflationPeriod divisors; InflationPeriod >= 2629800 by the validated network properties (C19), SnapPeriod comes from genesis only (default 1000) -- zero only with a broken genesis",
 ("x/ubi/keeper.Keeper.ProcessUBIRecord","newcoin"):"NewIntFromUint64 since fix b963c04: the amount is never negative (flag ubi_amount_cast_int64 = false, C06_ubi_mint_on_this_tree full strength)",
 ("x/ubi.ApplyUpsertUBIProposalHandler.Apply","div"):"no integer division left since b963c04 (kept for trees before it: input-only, filtered by the dry run)",
 ("x/ubi.ApplyUpsertUBIProposalHandler.Apply","quo"):"Halt.ubi_apply_exact (C06_ubi_apply_on_this_tree): sdk.Int.Quo by p.Period after the explicit p.Period == 0 refusal, and by record.Period of stored records, which are only written by this handler after that refusal (genesis default record: 2592000; a genesis record with period 0 would make every UpsertUBI enactment panic -- genesis validation is C12's)",
 ("x/upgrade/keeper.Keeper.ApplyUpgradePlan","panic"):"Halt.upgrade_begin: the sanctioned halt (upgrade_halt_only_when_due); PauseProposalNotApprovedValidators errs only for a missing proposal (never deleted)",
 ("x/gov/types.ProposalRouter.ApplyProposal","panic"):"Halt.apply_proposal: 'invalid proposal type' unreachable: SubmitProposal dry-runs ApplyProposal with the same content type first (input_only_panics_filtered), routes are fixed at start-up",
}
over={
 ("x/multistaking/keeper.Keeper.autocompoundRewards","sub"):"autoCompoundRewards is a sub-multiset of rewards by construction; runs on a cache context whose errors are discarded",
 ("x/recovery/keeper.Keeper.IncreaseRecoveryTokenUnderlying","sub"):"Halt.rr_allocate: safe for DUPLICATE-FREE holders (truncated shares, balances sum to at most the supply: C06_rr_allocate_safe_partial); REACHABLE while GetRRTokenHolders lists by key prefix: a holder of rr/node1 and rr/node10 is listed twice for rr/node1 (finding IncreaseRecoveryTokenUnderlying:neg-coin, pending fix C06-rr-holder-prefix; flag rr_holders_exact_denom, C06_rr_holders_on_this_tree); recovery-rewards and recovery-rewards-prefix histories",
 ("x/recovery/keeper.calcPortion","quo"):"divides by the RR supply: calcPortion is only called for registered holders, UnregisterNotEnoughAmountHolder has just removed every holder below 1000000 units, so a remaining holder implies supply >= 1000000",
 ("x/recovery/keeper.calcPortion","newcoin"):"non-negative: product of non-negative amounts divided by a positive supply, truncated",
 ("x/multistaking/types.GetPoolCoins","sub"):"DeliverTx paths only (Undelegate / redeem): recovered by baseapp",
 ("x/multistaking/types.GetPoolCoins","newcoin"):"DeliverTx paths only: recovered by baseapp",
 ("x/layer2/keeper.SubBridgeBalance","sub"):"DeliverTx paths only (bridge transfers): recovered by baseapp",
 ("x/layer2/keeper.SubBridgeBalance","index"):"DeliverTx paths only (bridge transfers): recovered by baseapp",
 ("x/layer2/keeper.AddBridgeBalance","index"):"DeliverTx paths only (bridge transfers): recovered by baseapp",
 ("x/gov/types.ProposalRouter.VotePeriodDynamicProposal","panic"):"DeliverTx path (CreateAndSaveProposalWithContent at submission); Jail raises only SlashValidator proposals, whose type is routed",
 ("x/gov/types.ProposalRouter.EnactmentPeriodDynamicProposal","panic"):"DeliverTx path (submission); see VotePeriodDynamicProposal",
 ("x/staking/types.Validator.GetConsPubKey","panic"):"unpacks the validator's own stored public key Any (cached value set by UnpackInterfaces when the record is read)",
 ("x/gov.processEnactmentProposal","panic"):"unreachable: enactment queue entries are written with the proposal; proposals are never deleted",
 ("x/gov/types.ProposalRouter.AllowedAddressesDynamicProposal","panic"):"unreachable: same content type already routed at submission (state-independent, input_only_panics_filtered)",
 ("x/gov/types.ProposalRouter.QuorumDynamicProposal","panic"):"unreachable: same content type already routed at submission (state-independent)",
 ("x/gov/keeper.Keeper.GetNetworkActorOrFail","panic"):"REACHABLE on trees where a rotation may target an existing actor (finding GetNetworkActorOrFail:actor-missing, pending fix C06-rotation-onto-actor, flag rotation_refuses_actor_target, C06_rotation_onto_actor_on_this_tree); otherwise unreachable while every WRITER keeps the permission / role index entries and the actor record together: x/gov keeper (AddWhitelistPermission, RemoveWhitelistedPermission, AssignRoleToActor, UnassignRoleFromActor, SaveNetworkActor, DeleteNetworkActor) and, outside x/gov, the address-rotation blocks of x/recovery msgServer.RotateRecoveryAddress / RotateValidatorByHalfRRTokenHolder, which move actor, roles and individual permission index entries -- those callers are pinned in foreign_writer_pins (C06_foreign_writers_unchanged); exercised by the actor-perturbation histories",
 ("x/gov/keeper.Keeper.GetAverageVotesSlash","quo"):"guarded: returns zero when there is no Yes vote (totalCount == 0) before dividing by the Yes-vote count; exercised by the gov-vote-patterns histories (every vote pattern, run past the enactment end)",
 ("x/gov/types.CalculatedVotes.ProcessResult","div"):"float32 division: no panic (C08 covers the result)",
 ("x/gov/types.CalculatedPollVotes.ProcessResult","div"):"float32 division: no panic",
 ("x/gov/types.CalculatedPollVotes.ProcessResult","quo"):"guarded: the division by actorsWithVeto is inside if actorsWithVeto != 0; exercised by the gov-poll-patterns histories (incl. a poll for a member-less role)",
 ("x/distributor/keeper.Keeper.AllocateTokens","panic"):"unreachable: minting to the mint module / transfer of the amount just minted",
 ("x/distributor/keeper.Keeper.AllocateTokens","sub"):"guarded by IsAllGTE / sdk.Int.Sub does not panic",
 ("x/distributor/keeper.Keeper.AllocateTokens","newcoin"):"amounts are products of non-negative values and a commission in [1%,50%] (MsgUpsertStakingPool.ValidateBasic); dead code on the pinned tree (votes are wiped in EndBlocker, C10 finding, so power = 0)",
 ("x/distributor/keeper.Keeper.BeginBlocker","panic"):"unreachable: ConsAddr strings written by SetValidatorVote itself",
 ("x/distributor/keeper.Keeper.GetPreviousProposerConsAddr","panic"):"unreachable after height 1 (set in every BeginBlock); an import at initial height > 1 without the key: C12",
 ("x/distributor/keeper.Keeper.GetFeesTreasury","panic"):"unreachable: parses the string written by SetFeesTreasury",
 ("x/distributor/keeper.Keeper.InflationPossible","quo"):"guarded by the zero-supply check above it",
 ("x/distributor/keeper.Keeper.InflationPossible","div"):"literal divisor arithmetic on constants",
 ("x/distributor/keeper.Keeper.InflationPossible","sub"):"sdk.Int/Dec Sub: no panic",
 ("x/evidence/keeper.Keeper.HandleEquivocationEvidence","panic"):"unreachable: signing info is created when the validator joins (AfterValidatorJoined hook)",
 ("x/evidence/keeper.Keeper.HandleEquivocationEvidence","sub"):"time.Sub: no panic",
 ("x/slashing/keeper.Keeper.HandleValidatorSignature","panic"):"unreachable for votes of validators CometBFT knows through this app's updates (pubkey relation + signing info written on join); exercised by every block of the harness",
 ("x/slashing/keeper.Keeper.Jail","assert"):"since fix fb18192 rotation stores the updated ProposalSlashValidator, so the content of a proposal of type SlashValidator has that dynamic type (recovery-rotation histories complete)",
 ("x/multistaking/keeper.Keeper.IncreasePoolRewards","panic"):"REACHABLE: panic(err) after the autocompound re-delegation: findings IncreasePoolRewards:not-active-validator / slashed-pool / not-allowed-staking-token (fix a2421a4); the payout of an over-credit (Halt.credit_two) surfaces in the following AllocateTokensToValidator",
 ("x/multistaking/keeper.Keeper.IncreasePoolRewards","quo"):"guarded: shareToken.Amount.IsZero() => continue",
 ("x/multistaking/keeper.Keeper.IncreasePoolRewards","sub"):"autoCompoundRewards is a sub-multiset of rewards by construction",
 ("x/multistaking/keeper.Keeper.IncreasePoolRewards","newcoin"):"non-negative products",
 ("x/multistaking/keeper.Keeper.SlashStakingPool","panic"):"reached from SlashValidator.Apply in the gov end-blocker (no dry run); since fix 27b0386 the keeper is shared and an empty burn is skipped: burn / transfer of fractions (slash in [0,1]) of module-held stake; slash-proposal histories (slash, unjail, activate, undelegate, rewards) complete",
 ("x/multistaking/keeper.Keeper.SlashStakingPool","sub"):"fractions of the pool totals (slash in [0,1])",
 ("x/multistaking/keeper.Keeper.SlashStakingPool","newcoin"):"non-negative fractions",
 ("x/layer2/keeper.Keeper.EndBlocker","panic"):"premint payout of LP tokens minted at bootstrap for exactly this purpose",
 ("x/layer2/keeper.Keeper.FinishDappBootstrap","panic"):"REACHABLE: MsgCreateDappProposal validates nothing: findings FinishDappBootstrap:invalid-coins / invalid-bech32 (dapp-bootstrap histories)",
 ("x/layer2/keeper.Keeper.FinishDappBootstrap","quo"):"guarded against zero (drip == 0 => 1) but not against int64(drip) < 0: finding FinishDappBootstrap:neg-deccoin",
 ("x/layer2/keeper.Keeper.FinishDappBootstrap","newcoin"):"REACHABLE: negative pool ratio / issuance: finding FinishDappBootstrap:neg-coin",
 ("x/layer2/keeper.Keeper.FinishDappBootstrap","must"):"REACHABLE: TeamReserve is not validated at creation: finding FinishDappBootstrap:invalid-bech32",
 ("x/layer2/keeper.Keeper.EndBlocker","must"):"TeamReserve of an ACTIVE dApp: a dApp only becomes active after FinishDappBootstrap parsed the same string when premint is positive; with premint 0 and postmint positive: suspected, not reproduced (bootstrap leaves the dApp Halted)",
 ("x/layer2/keeper.Keeper.ResetNewSession","div"):"modulo by the number of verified operators: guarded by the emptiness check before it",
 ("x/spending.ApplySpendingPoolDistributionProposalHandler.Apply","index"):"map lookups; the nil pool dereference on a missing pool is state-independent in practice (pools are never deleted) and fails the dry run",
 ("x/ubi/keeper.Keeper.ProcessUBIRecord","sub"):"sdk.Int arithmetic: no panic",
}
default={
 "must":"decodes bytes (or re-parses an address) that this module stored itself with the matching Marshal -- audited by kind",
 "assert":"proposal content assertion inside its own handler: the router dispatches on ProposalType() of the same content, so the dynamic type matches",
 "index":"map lookup or index bounded by the enclosing loop / length check",
 "sub":"sdk.Int / time subtraction or Coins.Sub guarded by an error-returning balance check before it",
 "newcoin":"amount is a product/fraction of non-negative stored amounts; denom validated at creation",
 "panic":"unreachable: guards a store / codec invariant (record written together with its index)",
 "quo":"divisor checked non-zero before the call",
 "div":"divisor is a length or period checked non-zero before use",
}
def q(s): return '"'+s.replace('"','""')+'"'
cov=[];aud=[]
for (fn,kind),n in cnt.items():
    if (fn,kind) in covered: cov.append((fn,kind,n,covered[(fn,kind)]))
    else: aud.append((fn,kind,n,over.get((fn,kind),default[kind])))
missing=[k for k in covered if k not in cnt]+[k for k in over if k not in cnt]
if missing: print("(* WARNING unused keys: %s *)"%missing, file=sys.stderr)
out=[]
def emit(name,l,pin):
    out.append("Definition %s : list (string * string * nat * string * list string) := ["%name)
    out.append(";\n".join("  (%s, %s, %d%%nat, %s, [%s])"%(q(a),q(b),c,q(d),"; ".join(q(h) for h in fps.get(a,[]))) for a,b,c,d in l))
    out.append("].")
emit("covered_table",cov,True)
emit("audit_table",aud,True)
# writers of another module's state (callers pinned by fingerprint; union over the accepted trees)
fwp=collections.OrderedDict()
for a in args:
    m=re.search(r'Definition foreign_writers.*?:= \[(.*?)\n\]\.',open(a).read(),re.S)
    if m:
        for fn,callees,h in re.findall(r'\("([^"]*)", "([^"]*)", "([^"]*)"\)',m.group(1)):
            fwp.setdefault(fn,[])
            if h not in fwp[fn]: fwp[fn].append(h)
out.append("Definition foreign_writer_pins : list (string * list string) := [")
out.append(";\n".join("  (%s, [%s])"%(q(fn),"; ".join(q(h) for h in hs)) for fn,hs in fwp.items()))
out.append("].")
text="\n".join(out)+"\n"
if splice:
    t=open(splice).read()
    i=t.index("Definition covered_table"); j=t.index("Definition entry_matches")
    open(splice,'w').write(t[:i]+text+"\n"+t[j:])
else:
    print(text)
