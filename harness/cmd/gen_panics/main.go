// gen_panics: lists every panic-capable site in the begin/end-block code of /repo/x and in the functions
// it reaches, as Coq data (coq/Gen/PanicSites.v).
//
// Roots: every function of x/<mod>/abci.go and x/<mod>/keeper/abci.go, the BeginBlock/EndBlock methods of
// x/<mod>/module.go, and (because gov's end-blocker dispatches through the proposal router) every method of
// the proposal handlers in x/<mod>/proposal_handler.go.
// Reachability: static calls followed by NAME to a fixpoint (the whole closure; -depth limits it) inside /repo/x (a call `recv.F(...)`
// reaches every method or function named F declared in the package the selector names, or, for an unknown
// receiver -- this includes calls through the expected-keeper INTERFACES wired in app.go, e.g. k.rk.F(...) --
// every method named F in any package of /repo/x) -- a conservative over-approximation.
// Sites (syntactic): explicit panic(...); calls of Must*; Dec/Int division (.Quo*, .Div, .Mod) and integer
// `/` `%` with a non-literal divisor; .Sub( / .SafeSub( (Coins.Sub panics below zero); coin constructors that
// validate (NewCoin, NewInt64Coin, NewDecCoin, NewDecCoinFromDec); unchecked type assertions x.(T);
// slice/array/map index expressions with a non-literal index (except `for i := range a { a[i] }`).
// A site key is  <func>#<kind>#<ordinal within that function>  : no line numbers, so edits elsewhere do
// not renumber it.
package main

import (
	"bytes"
	"crypto/sha256"
	"encoding/hex"
	"flag"
	"fmt"
	"go/ast"
	"go/parser"
	"go/printer"
	"go/token"
	"os"
	"path/filepath"
	"sort"
	"strings"
)

type fn struct {
	pkgDir string // x/gov/keeper
	file   string // x/gov/keeper/proposal.go
	name   string // Keeper.SaveProposal or EndBlocker
	short  string // SaveProposal
	decl   *ast.FuncDecl
	imp    map[string]string // import alias -> x/... dir (sekai packages only)
}

func (f *fn) id() string { return f.pkgDir + "." + f.name }

func recvName(d *ast.FuncDecl) string {
	if d.Recv == nil || len(d.Recv.List) == 0 {
		return ""
	}
	t := d.Recv.List[0].Type
	if s, ok := t.(*ast.StarExpr); ok {
		t = s.X
	}
	if i, ok := t.(*ast.Ident); ok {
		return i.Name
	}
	return "?"
}

func coqStr(s string) string { return "\"" + strings.ReplaceAll(s, "\"", "\"\"") + "\"" }

func main() {
	repo := flag.String("repo", "/repo", "repository root")
	out := flag.String("out", "", "output .v file")
	depth := flag.Int("depth", 1000, "call levels followed below the roots (default: the whole closure)")
	flag.Parse()
	fset := token.NewFileSet()
	var all []*fn
	byShort := map[string][]*fn{}
	xroot := filepath.Join(*repo, "x")
	var errs []string
	err := filepath.Walk(xroot, func(path string, info os.FileInfo, err error) error {
		if err != nil {
			return err
		}
		if info.IsDir() {
			if info.Name() == "client" || info.Name() == "testutil" || info.Name() == "simulation" {
				return filepath.SkipDir
			}
			return nil
		}
		if !strings.HasSuffix(path, ".go") || strings.HasSuffix(path, "_test.go") || strings.HasSuffix(path, ".pb.go") || strings.HasSuffix(path, ".pb.gw.go") {
			return nil
		}
		f, perr := parser.ParseFile(fset, path, nil, 0)
		if perr != nil {
			errs = append(errs, "parse "+path+": "+perr.Error())
			return nil
		}
		rel, _ := filepath.Rel(*repo, path)
		imp := map[string]string{}
		for _, is := range f.Imports {
			p := strings.Trim(is.Path.Value, "\"")
			const pre = "github.com/KiraCore/sekai/"
			if !strings.HasPrefix(p, pre) {
				continue
			}
			dir := p[len(pre):]
			alias := filepath.Base(dir)
			if is.Name != nil {
				alias = is.Name.Name
			}
			imp[alias] = dir
		}
		for _, d := range f.Decls {
			fd, ok := d.(*ast.FuncDecl)
			if !ok || fd.Body == nil {
				continue
			}
			name := fd.Name.Name
			if r := recvName(fd); r != "" {
				name = r + "." + name
			}
			x := &fn{pkgDir: filepath.Dir(rel), file: rel, name: name, short: fd.Name.Name, decl: fd, imp: imp}
			all = append(all, x)
			byShort[x.short] = append(byShort[x.short], x)
		}
		return nil
	})
	if err != nil {
		errs = append(errs, err.Error())
	}

	// roots
	reached := map[string]int{} // id -> depth
	var queue []*fn
	var roots []string
	for _, f := range all {
		base := filepath.Base(f.file)
		isRoot := false
		switch {
		case base == "abci.go":
			isRoot = true
		case base == "module.go" && (f.short == "BeginBlock" || f.short == "EndBlock"):
			isRoot = true
		case base == "proposal_handler.go" && f.decl.Recv != nil:
			isRoot = true
		}
		if isRoot {
			if _, ok := reached[f.id()]; !ok {
				reached[f.id()] = 0
				queue = append(queue, f)
				roots = append(roots, f.id())
			}
		}
	}
	sort.Strings(roots)
	for len(queue) > 0 {
		f := queue[0]
		queue = queue[1:]
		d := reached[f.id()]
		if d >= *depth {
			continue
		}
		ast.Inspect(f.decl.Body, func(n ast.Node) bool {
			c, ok := n.(*ast.CallExpr)
			if !ok {
				return true
			}
			var cands []*fn
			switch fu := c.Fun.(type) {
			case *ast.Ident:
				for _, g := range byShort[fu.Name] {
					if g.pkgDir == f.pkgDir && g.decl.Recv == nil {
						cands = append(cands, g)
					}
				}
			case *ast.SelectorExpr:
				if id, ok := fu.X.(*ast.Ident); ok {
					if dir, isPkg := f.imp[id.Name]; isPkg {
						for _, g := range byShort[fu.Sel.Name] {
							if g.pkgDir == dir && g.decl.Recv == nil {
								cands = append(cands, g)
							}
						}
						break
					}
				}
				for _, g := range byShort[fu.Sel.Name] {
					if g.decl.Recv != nil {
						cands = append(cands, g)
					}
				}
			}
			for _, g := range cands {
				if _, ok := reached[g.id()]; !ok {
					reached[g.id()] = d + 1
					queue = append(queue, g)
				}
			}
			return true
		})
	}

	// sites
	type site struct {
		file, fn, key, kind string
		ord                 int
	}
	var sites []site
	var fns []*fn
	for _, f := range all {
		if _, ok := reached[f.id()]; ok {
			fns = append(fns, f)
		}
	}
	sort.Slice(fns, func(i, j int) bool { return fns[i].id() < fns[j].id() })
	seenFn := map[string]bool{}
	fingerprint := map[string]string{} // function id -> hash of its comment-free, gofmt-normalised declaration
	for _, f := range fns {
		if seenFn[f.id()] {
			errs = append(errs, "duplicate function id "+f.id())
			continue
		}
		seenFn[f.id()] = true
		count := map[string]int{}
		add := func(kind string) {
			if _, ok := fingerprint[f.id()]; !ok {
				var buf bytes.Buffer
				// the files are parsed without comments, so the printed declaration is whitespace- and comment-normalised
				if err := printer.Fprint(&buf, token.NewFileSet(), f.decl); err != nil {
					errs = append(errs, "print "+f.id()+": "+err.Error())
				}
				h := sha256.Sum256(buf.Bytes())
				fingerprint[f.id()] = hex.EncodeToString(h[:8])
			}
			sites = append(sites, site{f.file, f.id(), fmt.Sprintf("%s#%s#%d", f.id(), kind, count[kind]), kind, count[kind]})
			count[kind]++
		}
		// range keys that index their own range expression are safe
		safeIdx := map[*ast.IndexExpr]bool{}
		okAssert := map[*ast.TypeAssertExpr]bool{}
		ast.Inspect(f.decl.Body, func(n ast.Node) bool {
			switch s := n.(type) {
			case *ast.RangeStmt:
				if k, ok := s.Key.(*ast.Ident); ok && k.Name != "_" {
					xs := exprString(s.X)
					ast.Inspect(s.Body, func(m ast.Node) bool {
						if ie, ok := m.(*ast.IndexExpr); ok {
							if id, ok := ie.Index.(*ast.Ident); ok && id.Name == k.Name && exprString(ie.X) == xs {
								safeIdx[ie] = true
							}
						}
						return true
					})
				}
			case *ast.AssignStmt:
				if len(s.Lhs) == 2 && len(s.Rhs) == 1 {
					if ta, ok := s.Rhs[0].(*ast.TypeAssertExpr); ok {
						okAssert[ta] = true
					}
					if ie, ok := s.Rhs[0].(*ast.IndexExpr); ok { // v, ok := m[k]
						safeIdx[ie] = true
					}
				}
				for _, l := range s.Lhs { // m[k] = v : a map write (a slice write with a computed index is rare here)
					if ie, ok := l.(*ast.IndexExpr); ok {
						if _, isLit := ie.Index.(*ast.BasicLit); !isLit {
							// still reported, as "index"
							_ = ie
						}
					}
				}
			case *ast.TypeSwitchStmt:
				ast.Inspect(s.Assign, func(m ast.Node) bool {
					if ta, ok := m.(*ast.TypeAssertExpr); ok {
						okAssert[ta] = true
					}
					return true
				})
			case *ast.ValueSpec:
				if len(s.Names) == 2 && len(s.Values) == 1 {
					if ta, ok := s.Values[0].(*ast.TypeAssertExpr); ok {
						okAssert[ta] = true
					}
				}
			}
			return true
		})
		ast.Inspect(f.decl.Body, func(n ast.Node) bool {
			switch e := n.(type) {
			case *ast.CallExpr:
				name := ""
				switch fu := e.Fun.(type) {
				case *ast.Ident:
					name = fu.Name
				case *ast.SelectorExpr:
					name = fu.Sel.Name
				}
				switch {
				case name == "panic":
					add("panic")
				case strings.HasPrefix(name, "Must"):
					add("must")
				case name == "Quo" || name == "QuoInt" || name == "QuoInt64" || name == "QuoRaw" || name == "QuoTruncate" || name == "QuoRoundUp" || name == "Div" || name == "Mod" || name == "Rem":
					if len(e.Args) == 1 && !literalNonZero(e.Args[0]) {
						add("quo")
					}
				case name == "Sub" || name == "SafeSub":
					if _, isSel := e.Fun.(*ast.SelectorExpr); isSel {
						add("sub")
					}
				case name == "NewCoin" || name == "NewInt64Coin" || name == "NewDecCoin" || name == "NewDecCoinFromDec":
					add("newcoin")
				}
			case *ast.BinaryExpr:
				if (e.Op == token.QUO || e.Op == token.REM) && !literalNonZero(e.Y) {
					add("div")
				}
			case *ast.AssignStmt:
				if (e.Tok == token.QUO_ASSIGN || e.Tok == token.REM_ASSIGN) && len(e.Rhs) == 1 && !literalNonZero(e.Rhs[0]) {
					add("div")
				}
			case *ast.TypeAssertExpr:
				if e.Type != nil && !okAssert[e] {
					add("assert")
				}
			case *ast.IndexExpr:
				if _, isLit := e.Index.(*ast.BasicLit); !isLit && !safeIdx[e] {
					add("index")
				}
			}
			return true
		})
	}

	// Is the spending end-blocker's division guarded?  Pattern looked for in x/spending/keeper EndBlocker:
	//   d := <expr> ; if !d.IsPositive() { continue } ... .Quo(d)
	guarded, foundEnd := false, false
	for _, f := range all {
		if f.id() != "x/spending/keeper.Keeper.EndBlocker" {
			continue
		}
		foundEnd = true
		guardedVars := map[string]token.Pos{}
		ast.Inspect(f.decl.Body, func(n ast.Node) bool {
			is, ok := n.(*ast.IfStmt)
			if !ok || is.Init != nil || is.Else != nil || len(is.Body.List) != 1 {
				return true
			}
			br, ok := is.Body.List[0].(*ast.BranchStmt)
			if !ok || br.Tok != token.CONTINUE {
				return true
			}
			un, ok := is.Cond.(*ast.UnaryExpr)
			if !ok || un.Op != token.NOT {
				return true
			}
			call, ok := un.X.(*ast.CallExpr)
			if !ok || len(call.Args) != 0 {
				return true
			}
			sel, ok := call.Fun.(*ast.SelectorExpr)
			if !ok || sel.Sel.Name != "IsPositive" {
				return true
			}
			if id, ok := sel.X.(*ast.Ident); ok {
				guardedVars[id.Name] = is.End()
			}
			return true
		})
		nquo, nguarded := 0, 0
		ast.Inspect(f.decl.Body, func(n ast.Node) bool {
			call, ok := n.(*ast.CallExpr)
			if !ok {
				return true
			}
			sel, ok := call.Fun.(*ast.SelectorExpr)
			if !ok || sel.Sel.Name != "Quo" || len(call.Args) != 1 {
				return true
			}
			nquo++
			if id, ok := call.Args[0].(*ast.Ident); ok {
				if end, ok := guardedVars[id.Name]; ok && end < call.Pos() {
					nguarded++
				}
			}
			return true
		})
		guarded = nquo > 0 && nquo == nguarded
	}
	if !foundEnd {
		errs = append(errs, "x/spending/keeper.Keeper.EndBlocker not found")
	}
	// further flags read from the tree (true = the unguarded code of the pinned tree)
	byID := map[string]*fn{}
	for _, f := range all {
		byID[f.id()] = f
	}
	has := func(id string, pred func(n ast.Node) bool) bool {
		f, ok := byID[id]
		if !ok {
			errs = append(errs, id+" not found")
			return false
		}
		found := false
		ast.Inspect(f.decl.Body, func(n ast.Node) bool {
			if n != nil && pred(n) {
				found = true
			}
			return !found
		})
		return found
	}
	callNamed := func(n ast.Node, name string) *ast.CallExpr {
		c, ok := n.(*ast.CallExpr)
		if !ok {
			return nil
		}
		switch fu := c.Fun.(type) {
		case *ast.Ident:
			if fu.Name == name {
				return c
			}
		case *ast.SelectorExpr:
			if fu.Sel.Name == name {
				return c
			}
		}
		return nil
	}
	quorumPanic := func(n ast.Node) bool { // panic(... "Invalid quorum ..." ...)
		c := callNamed(n, "panic")
		if c == nil {
			return false
		}
		lit := false
		ast.Inspect(c, func(m ast.Node) bool {
			if b, ok := m.(*ast.BasicLit); ok && b.Kind == token.STRING && strings.Contains(b.Value, "Invalid quorum") {
				lit = true
			}
			return true
		})
		return lit
	}
	subCall := func(n ast.Node) bool { // x.Sub(...)   (Coins.Sub panics below zero; SafeSub does not)
		c := callNamed(n, "Sub")
		if c == nil {
			return false
		}
		_, isSel := c.Fun.(*ast.SelectorExpr)
		return isSel
	}
	flagProposalQuorum := has("x/gov.processProposal", quorumPanic)
	flagPollQuorum := has("x/gov.processPoll", quorumPanic)
	flagWithdrawSub := has("x/spending.ApplySpendingPoolWithdrawProposalHandler.Apply", subCall)
	flagClaimSub := has("x/spending/keeper.Keeper.ClaimSpendingPool", subCall)
	flagUbiWrap := has("x/ubi.ApplyUpsertUBIProposalHandler.Apply", func(n ast.Node) bool { // uint64: a * b / x.Period
		b, ok := n.(*ast.BinaryExpr)
		if !ok || b.Op != token.QUO {
			return false
		}
		sel, ok := b.Y.(*ast.SelectorExpr)
		return ok && sel.Sel.Name == "Period"
	})
	flagRRExact := has("x/recovery/keeper.Keeper.GetRRTokenHolders", func(n ast.Node) bool { // bytes.Equal(iterator.Key(), iterator.Value())
		c := callNamed(n, "Equal")
		return c != nil && len(c.Args) == 2
	})
	refusesActorTarget := func(n ast.Node) bool { // return nil, types.ErrTargetAddressIsNetworkActor
		sel, ok := n.(*ast.SelectorExpr)
		return ok && sel.Sel.Name == "ErrTargetAddressIsNetworkActor"
	}
	flagRotRefuse := has("x/recovery/keeper.msgServer.RotateValidatorByHalfRRTokenHolder", refusesActorTarget) &&
		has("x/recovery/keeper.msgServer.RotateRecoveryAddress", refusesActorTarget)
	flagUbiCast := has("x/ubi/keeper.Keeper.ProcessUBIRecord", func(n ast.Node) bool { // int64(record.Amount)
		c := callNamed(n, "int64")
		if c == nil || len(c.Args) != 1 {
			return false
		}
		sel, ok := c.Args[0].(*ast.SelectorExpr)
		return ok && sel.Sel.Name == "Amount"
	})

	// Writers of ANOTHER module's state: every function of /repo/x that calls, through a selector, a method whose
	// name says it writes (Set*/Save*/Delete*/Remove*/Add*/Assign*/Unassign*/Increase*/Decrease*/Upsert*/Update*) and
	// that is declared as a keeper method in a different module of /repo/x but not in the caller's own module.
	// Audit verdicts of the form "the index is consistent by construction" rest on these callers too (e.g. the
	// address-rotation blocks of x/recovery rewriting gov actors and permission indexes): they are pinned by fingerprint.
	moduleOf := func(dir string) string {
		parts := strings.Split(dir, "/")
		if len(parts) >= 2 && parts[0] == "x" {
			return parts[1]
		}
		return dir
	}
	writerPrefix := []string{"Set", "Save", "Delete", "Remove", "Add", "Assign", "Unassign", "Increase", "Decrease", "Upsert", "Update", "Whitelist", "Blacklist"}
	isWriterName := func(n string) bool {
		for _, p := range writerPrefix {
			if strings.HasPrefix(n, p) && len(n) > len(p) {
				return true
			}
		}
		return false
	}
	methodModules := map[string]map[string]bool{} // method name -> modules declaring a method of that name
	for _, f := range all {
		if f.decl.Recv != nil {
			if methodModules[f.short] == nil {
				methodModules[f.short] = map[string]bool{}
			}
			methodModules[f.short][moduleOf(f.pkgDir)] = true
		}
	}
	type fw struct{ caller, callees, fp string }
	var foreign []fw
	for _, f := range all {
		own := moduleOf(f.pkgDir)
		callees := map[string]bool{}
		ast.Inspect(f.decl.Body, func(n ast.Node) bool {
			c, ok := n.(*ast.CallExpr)
			if !ok {
				return true
			}
			sel, ok := c.Fun.(*ast.SelectorExpr)
			if !ok || !isWriterName(sel.Sel.Name) {
				return true
			}
			mods := methodModules[sel.Sel.Name]
			if len(mods) == 0 || mods[own] {
				return true
			}
			for m := range mods {
				callees[m+"."+sel.Sel.Name] = true
			}
			return true
		})
		if len(callees) == 0 {
			continue
		}
		var cs []string
		for c := range callees {
			cs = append(cs, c)
		}
		sort.Strings(cs)
		var buf bytes.Buffer
		if err := printer.Fprint(&buf, token.NewFileSet(), f.decl); err != nil {
			errs = append(errs, "print "+f.id()+": "+err.Error())
		}
		hsum := sha256.Sum256(buf.Bytes())
		foreign = append(foreign, fw{f.id(), strings.Join(cs, " "), hex.EncodeToString(hsum[:8])})
	}
	sort.Slice(foreign, func(i, j int) bool { return foreign[i].caller < foreign[j].caller })

	var sb strings.Builder
	sb.WriteString("(* GENERATED by harness/cmd/gen_panics from the working tree -- do not edit. *)\n")
	sb.WriteString("From Sekai Require Import Base.Prelude.\nLocal Open Scope string_scope.\n")
	sb.WriteString(fmt.Sprintf("(* %d root functions, %d reached functions (depth %d), %d sites *)\n", len(roots), len(fns), *depth, len(sites)))
	sb.WriteString("Definition gen_errors : list string := [")
	for i, e := range errs {
		if i > 0 {
			sb.WriteString("; ")
		}
		sb.WriteString(coqStr(e))
	}
	sb.WriteString("].\n")
	sb.WriteString(fmt.Sprintf("(* x/spending/keeper EndBlocker: every Quo divisor d is preceded by `if !d.IsPositive() { continue }` *)\nDefinition spend_endblock_guarded : bool := %v.\n", guarded))
	sb.WriteString(fmt.Sprintf("(* gov processProposal / processPoll turn an IsQuorum error into panic(\"Invalid quorum ...\") *)\nDefinition gov_proposal_quorum_error_panics : bool := %v.\nDefinition gov_poll_quorum_error_panics : bool := %v.\n", flagProposalQuorum, flagPollQuorum))
	sb.WriteString(fmt.Sprintf("(* SpendingPoolWithdraw.Apply / ClaimSpendingPool reduce the pool balance with the panicking Coins.Sub *)\nDefinition withdraw_sub_unchecked : bool := %v.\nDefinition claim_sub_unchecked : bool := %v.\n", flagWithdrawSub, flagClaimSub))
	sb.WriteString(fmt.Sprintf("(* ProcessUBIRecord converts the uint64 amount with int64(record.Amount) *)\nDefinition ubi_amount_cast_int64 : bool := %v.\n(* UpsertUBI.Apply computes the hard-cap sum with uint64 products and integer division by Period *)\nDefinition ubi_apply_uint64_arith : bool := %v.\n(* GetRRTokenHolders keeps only the index entries whose key rest equals the holder (exact denom), not every entry under the denom PREFIX *)\nDefinition rr_holders_exact_denom : bool := %v.\n(* both address rotations refuse a target that already is a network actor *)\nDefinition rotation_refuses_actor_target : bool := %v.\n", flagUbiCast, flagUbiWrap, flagRRExact, flagRotRefuse))
	sb.WriteString("(* fingerprint (sha256/64 of the comment-free, gofmt-printed declaration) of every function that contains a site *)\nDefinition fn_fingerprints : list (string * string) := [\n")
	{
		var ids []string
		for id := range fingerprint {
			ids = append(ids, id)
		}
		sort.Strings(ids)
		for i, id := range ids {
			sep := ";"
			if i == len(ids)-1 {
				sep = ""
			}
			sb.WriteString("  (" + coqStr(id) + ", " + coqStr(fingerprint[id]) + ")" + sep + "\n")
		}
	}
	sb.WriteString("].\n")
	sb.WriteString("(* (function, writer methods of OTHER modules it calls, fingerprint of the function) *)\nDefinition foreign_writers : list (string * string * string) := [\n")
	for i, w := range foreign {
		sep := ";"
		if i == len(foreign)-1 {
			sep = ""
		}
		sb.WriteString("  (" + coqStr(w.caller) + ", " + coqStr(w.callees) + ", " + coqStr(w.fp) + ")" + sep + "\n")
	}
	sb.WriteString("].\n")
	sb.WriteString("Definition roots : list string := [\n")
	for i, r := range roots {
		sep := ";"
		if i == len(roots)-1 {
			sep = ""
		}
		sb.WriteString("  " + coqStr(r) + sep + "\n")
	}
	sb.WriteString("].\n")
	sb.WriteString("(* (file, function, line-independent key = function#kind#ordinal, kind, ordinal) *)\nDefinition sites : list (string * string * string * string * nat) := [\n")
	for i, s := range sites {
		sep := ";"
		if i == len(sites)-1 {
			sep = ""
		}
		sb.WriteString(fmt.Sprintf("  (%s, %s, %s, %s, %d%%nat)%s\n", coqStr(s.file), coqStr(s.fn), coqStr(s.key), coqStr(s.kind), s.ord, sep))
	}
	sb.WriteString("].\n")
	if *out == "" {
		fmt.Print(sb.String())
	} else if err := os.WriteFile(*out, []byte(sb.String()), 0o644); err != nil {
		fmt.Fprintln(os.Stderr, err)
		os.Exit(1)
	}
	fmt.Fprintf(os.Stderr, "gen_panics: %d roots, %d functions, %d sites, %d errors\n", len(roots), len(fns), len(sites), len(errs))
	if len(errs) > 0 {
		for _, e := range errs {
			fmt.Fprintln(os.Stderr, "  "+e)
		}
		os.Exit(1)
	}
}

func exprString(e ast.Expr) string {
	switch x := e.(type) {
	case *ast.Ident:
		return x.Name
	case *ast.SelectorExpr:
		return exprString(x.X) + "." + x.Sel.Name
	case *ast.StarExpr:
		return "*" + exprString(x.X)
	case *ast.ParenExpr:
		return exprString(x.X)
	}
	return fmt.Sprintf("?%p", e)
}

// literalNonZero: a non-zero numeric literal, possibly wrapped in a conversion / sdk.NewDec / sdk.NewInt.
func literalNonZero(e ast.Expr) bool {
	switch x := e.(type) {
	case *ast.BasicLit:
		return (x.Kind == token.INT || x.Kind == token.FLOAT) && strings.Trim(x.Value, "0._xX") != ""
	case *ast.ParenExpr:
		return literalNonZero(x.X)
	case *ast.CallExpr:
		if len(x.Args) >= 1 {
			name := ""
			switch fu := x.Fun.(type) {
			case *ast.Ident:
				name = fu.Name
			case *ast.SelectorExpr:
				name = fu.Sel.Name
			}
			switch name {
			case "NewDec", "NewInt", "NewDecFromInt", "NewIntFromUint64", "int64", "uint64", "int", "NewDecWithPrec", "float32", "float64":
				return literalNonZero(x.Args[0])
			}
		}
	}
	return false
}
