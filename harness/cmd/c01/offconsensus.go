package main

// Off-consensus activity.  A real node serves CheckTx (mempool admission and re-check), gRPC / ABCI
// queries and transaction simulations concurrently with block execution; none of it may influence
// the outcome of a block.  Replica 1 of every history does all of that between the DeliverTx calls,
// replica 0 does none, replica 2 is restarted from its database mid-history.

import (
	"context"
	"errors"
	"reflect"
	"sort"
	"strings"

	"verif/harness/abci"
	"verif/harness/hx"

	kiratypes "github.com/KiraCore/sekai/types"
	baskettypes "github.com/KiraCore/sekai/x/basket/types"
	collectivestypes "github.com/KiraCore/sekai/x/collectives/types"
	custodytypes "github.com/KiraCore/sekai/x/custody/types"
	distributortypes "github.com/KiraCore/sekai/x/distributor/types"
	evidencetypes "github.com/KiraCore/sekai/x/evidence/types"
	govtypes "github.com/KiraCore/sekai/x/gov/types"
	layer2types "github.com/KiraCore/sekai/x/layer2/types"
	mstypes "github.com/KiraCore/sekai/x/multistaking/types"
	recoverytypes "github.com/KiraCore/sekai/x/recovery/types"
	slashingtypes "github.com/KiraCore/sekai/x/slashing/types"
	spendingtypes "github.com/KiraCore/sekai/x/spending/types"
	stakingtypes "github.com/KiraCore/sekai/x/staking/types"
	tokenstypes "github.com/KiraCore/sekai/x/tokens/types"
	ubitypes "github.com/KiraCore/sekai/x/ubi/types"
	upgradetypes "github.com/KiraCore/sekai/x/upgrade/types"
	abcitypes "github.com/cometbft/cometbft/abci/types"
	"github.com/cosmos/cosmos-sdk/codec"
	sdk "github.com/cosmos/cosmos-sdk/types"
	authtypes "github.com/cosmos/cosmos-sdk/x/auth/types"
	banktypes "github.com/cosmos/cosmos-sdk/x/bank/types"
	"google.golang.org/grpc"
)

type queryMethod struct {
	Path string       // "/kira.gov.Query/ExecutionFee"
	Req  reflect.Type // request struct type
}

type svcCapture struct{ descs []*grpc.ServiceDesc }

func (s *svcCapture) RegisterService(sd *grpc.ServiceDesc, _ interface{}) {
	s.descs = append(s.descs, sd)
}

var errStop = errors.New("stop")

// every method of every Query service of the application's modules, with its request type
// (taken from the generated service descriptors: nothing to keep in sync by hand)
func discoverQueries() []queryMethod {
	c := &svcCapture{}
	govtypes.RegisterQueryServer(c, nil)
	stakingtypes.RegisterQueryServer(c, nil)
	slashingtypes.RegisterQueryServer(c, nil)
	tokenstypes.RegisterQueryServer(c, nil)
	custodytypes.RegisterQueryServer(c, nil)
	spendingtypes.RegisterQueryServer(c, nil)
	ubitypes.RegisterQueryServer(c, nil)
	baskettypes.RegisterQueryServer(c, nil)
	collectivestypes.RegisterQueryServer(c, nil)
	layer2types.RegisterQueryServer(c, nil)
	mstypes.RegisterQueryServer(c, nil)
	distributortypes.RegisterQueryServer(c, nil)
	recoverytypes.RegisterQueryServer(c, nil)
	upgradetypes.RegisterQueryServer(c, nil)
	evidencetypes.RegisterQueryServer(c, nil)
	banktypes.RegisterQueryServer(c, nil)
	authtypes.RegisterQueryServer(c, nil)
	var out []queryMethod
	for _, sd := range c.descs {
		for _, m := range sd.Methods {
			var rt reflect.Type
			hx.Try(func() {
				m.Handler(nil, context.Background(), func(in interface{}) error {
					rt = reflect.TypeOf(in).Elem()
					return errStop
				}, nil)
			})
			if rt != nil {
				out = append(out, queryMethod{"/" + sd.ServiceName + "/" + m.MethodName, rt})
			}
		}
	}
	sort.Slice(out, func(i, j int) bool { return out[i].Path < out[j].Path })
	return out
}

// values for request fields, chosen by field name
type queryDict struct {
	addrs, vals, txTypes, names, denoms []string
}

func fillRequest(rt reflect.Type, d *queryDict, variant int) codec.ProtoMarshaler {
	v := reflect.New(rt)
	e := v.Elem()
	pick := func(xs []string) string {
		if len(xs) == 0 {
			return ""
		}
		return xs[variant%len(xs)]
	}
	for i := 0; i < rt.NumField(); i++ {
		f := e.Field(i)
		n := strings.ToLower(rt.Field(i).Name)
		if !f.CanSet() {
			continue
		}
		switch {
		case f.Kind() == reflect.String:
			switch {
			case strings.Contains(n, "val"):
				f.SetString(pick(d.vals))
			case strings.Contains(n, "type") || strings.Contains(n, "msg"):
				f.SetString(pick(d.txTypes))
			case strings.Contains(n, "denom") || strings.Contains(n, "token"):
				f.SetString(pick(d.denoms))
			case strings.Contains(n, "name") || strings.Contains(n, "key") || strings.Contains(n, "sid") || strings.Contains(n, "identifier"):
				f.SetString(pick(d.names))
			default:
				f.SetString(pick(d.addrs))
			}
		case f.Kind() == reflect.Uint64 || f.Kind() == reflect.Uint32:
			f.SetUint(uint64(1 + variant%3))
		case f.Kind() == reflect.Int64 || f.Kind() == reflect.Int32:
			f.SetInt(int64(1 + variant%3))
		case f.Kind() == reflect.Slice && f.Type().Elem().Kind() == reflect.Uint8 && len(d.addrs) > 0:
			if a, err := sdk.AccAddressFromBech32(pick(d.addrs)); err == nil {
				f.SetBytes(a)
			}
		}
	}
	pm, _ := v.Interface().(codec.ProtoMarshaler)
	return pm
}

type offConsensus struct {
	c       *abci.Chain
	methods []queryMethod
	dict    queryDict
	stats   hx.Counter
	round   int
}

var allQueries []queryMethod

func newOffConsensus(c *abci.Chain, h *History) *offConsensus {
	if allQueries == nil {
		allQueries = discoverQueries()
	}
	o := &offConsensus{c: c, methods: allQueries, stats: hx.Counter{}}
	for _, a := range c.Accounts {
		o.dict.addrs = append(o.dict.addrs, a.Addr.String())
	}
	for _, v := range c.Validators {
		o.dict.vals = append(o.dict.vals, v.ValAddr.String())
	}
	o.dict.denoms = []string{"ukex", "ubtc", "xeth"}
	o.dict.names = []string{"pool1", "sudo", "role1", "moniker", "dapp0", "coll0", "1"}
	types := map[string]bool{}
	for _, b := range h.Blocks {
		for _, t := range b.Txs {
			for _, m := range t.Msgs {
				types[kiratypes.MsgType(m)] = true
				if sf, ok := m.(*govtypes.MsgSetExecutionFee); ok {
					types[sf.TransactionType] = true
				}
			}
		}
	}
	for t := range types {
		o.dict.txTypes = append(o.dict.txTypes, t)
	}
	sort.Strings(o.dict.txTypes)
	return o
}

func (o *offConsensus) query(m queryMethod, variant int) {
	req := fillRequest(m.Req, &o.dict, variant)
	if req == nil {
		return
	}
	bz, err := req.Marshal()
	if err != nil {
		return
	}
	p := hx.Try(func() {
		r := o.c.App.Query(abcitypes.RequestQuery{Path: m.Path, Data: bz})
		if r.Code == 0 {
			o.stats.Inc("query:ok")
		} else {
			o.stats.Inc("query:error")
		}
	})
	if p != "" {
		o.stats.Inc("query:panic")
	}
}

// sweep: every query method once (requests filled by field name)
func (o *offConsensus) sweep() {
	o.round++
	for _, m := range o.methods {
		o.query(m, o.round)
	}
}

// aroundTx: what a node does around one transaction that is being delivered elsewhere in the
// pipeline: mempool admission, simulation, and the queries that take a message type / address
func (o *offConsensus) beforeTx(bz []byte) {
	hx.Try(func() {
		o.c.App.CheckTx(abcitypes.RequestCheckTx{Tx: bz, Type: abcitypes.CheckTxType_New})
		o.stats.Inc("checktx:new")
	})
}

func (o *offConsensus) afterTx(bz []byte, msgs []sdk.Msg) {
	hx.Try(func() { o.c.App.Simulate(bz); o.stats.Inc("simulate") })
	hx.Try(func() {
		o.c.App.CheckTx(abcitypes.RequestCheckTx{Tx: bz, Type: abcitypes.CheckTxType_Recheck})
		o.stats.Inc("checktx:recheck")
	})
	// parameterised queries: once per message type known to the history (execution fees, permissions by address ...)
	for _, m := range o.methods {
		if m.Req.NumField() == 0 {
			continue
		}
		hasType := false
		for i := 0; i < m.Req.NumField(); i++ {
			n := strings.ToLower(m.Req.Field(i).Name)
			if m.Req.Field(i).Type.Kind() == reflect.String && (strings.Contains(n, "type") || strings.Contains(n, "msg")) {
				hasType = true
			}
		}
		if hasType {
			for v := range o.dict.txTypes {
				o.query(m, v)
			}
		}
	}
}

// unrelated: admission of a transaction that is never delivered (another account's bank send)
func (o *offConsensus) unrelated(i int) {
	n := len(o.c.Accounts)
	from, to := (i+3)%n, (i+4)%n
	bz, err := o.c.BuildTx([]sdk.Msg{banktypes.NewMsgSend(o.c.Accounts[from].Addr, o.c.Accounts[to].Addr, coins("ukex", int64(10+i)))}, []int{from}, abci.DefaultFee())
	if err == nil {
		hx.Try(func() {
			o.c.App.CheckTx(abcitypes.RequestCheckTx{Tx: bz, Type: abcitypes.CheckTxType_New})
			o.stats.Inc("checktx:unrelated")
		})
	}
}
