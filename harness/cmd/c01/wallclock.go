package main

// The wall-clock stream.  Block header times are placed AROUND THE REAL NOW and every stored time
// threshold of the history (validator inactive-until, poll end, proposal voting end, undelegation
// expiry) is made to fall on one real instant TH = now + 6 s.  The in-process replicas execute the
// block list before TH, the late replica after it; probe blocks carry header times TH-1s, TH-1ns,
// TH, TH+1ns, TH+1s.  Code that compares a stored time with the node's clock instead of the header
// time decides differently on the two sides; code that uses the header time cannot tell them apart.

import (
	"fmt"
	"time"

	"verif/harness/abci"
	"verif/harness/hx"

	baskettypes "github.com/KiraCore/sekai/x/basket/types"
	govtypes "github.com/KiraCore/sekai/x/gov/types"
	mstypes "github.com/KiraCore/sekai/x/multistaking/types"
	slashingtypes "github.com/KiraCore/sekai/x/slashing/types"
	spendingtypes "github.com/KiraCore/sekai/x/spending/types"
	sdk "github.com/cosmos/cosmos-sdk/types"
	banktypes "github.com/cosmos/cosmos-sdk/x/bank/types"
)

// byName: a transaction for a message name (used to steer the probes at the entry points that reach a new site)
func (w *world) byName(name string, poll, proposal int) (TxSpec, bool) {
	a1 := w.acc[1].Addr.String()
	switch name {
	case "MsgActivate":
		return tx(w.val[2].Owner, "v2", slashingtypes.NewMsgActivate(w.val[2].ValAddr)), true
	case "MsgPause":
		return tx(w.val[1].Owner, "v1", slashingtypes.NewMsgPause(w.val[1].ValAddr)), true
	case "MsgUnpause":
		return tx(w.val[1].Owner, "v1", slashingtypes.NewMsgUnpause(w.val[1].ValAddr)), true
	case "MsgPollVote":
		return tx(0, fmt.Sprintf("poll %d", poll), govtypes.NewMsgVotePoll(uint64(poll), w.acc[0].Addr, govtypes.PollOptionCustom, "red")), true
	case "MsgPollCreate":
		return w.pollCreate("3s"), true
	case "MsgVoteProposal":
		return tx(0, fmt.Sprintf("proposal %d", proposal), govtypes.NewMsgVoteProposal(uint64(proposal), w.acc[0].Addr, govtypes.OptionYes, sdk.ZeroDec())), true
	case "MsgSubmitProposal":
		return w.proposal()[0], true
	case "MsgClaimMaturedUndelegations":
		return tx(1, "a1", &mstypes.MsgClaimMaturedUndelegations{Sender: a1}), true
	case "MsgClaimUndelegation":
		return tx(1, "a1 #1", &mstypes.MsgClaimUndelegation{Sender: a1, UndelegationId: 1}), true
	case "MsgClaimRewards":
		return tx(1, "a1", &mstypes.MsgClaimRewards{Sender: a1}), true
	case "MsgDelegate":
		return tx(1, "a1->v0", &mstypes.MsgDelegate{DelegatorAddress: a1, ValidatorAddress: w.val[0].ValAddr.String(), Amounts: coins("ukex", 5000)}), true
	case "MsgUndelegate":
		return tx(1, "a1<-v0", &mstypes.MsgUndelegate{DelegatorAddress: a1, ValidatorAddress: w.val[0].ValAddr.String(), Amounts: coins("ukex", 700)}), true
	case "MsgClaimSpendingPool":
		return tx(1, "pool1", &spendingtypes.MsgClaimSpendingPool{Sender: a1, PoolName: "pool1"}), true
	case "MsgBasketTokenMint":
		return tx(1, "basket 1", &baskettypes.MsgBasketTokenMint{Sender: a1, BasketId: 1, Deposit: coins("ukex", 100)}), true
	case "MsgSend":
		return tx(1, "a1->a2", banktypes.NewMsgSend(w.acc[1].Addr, w.acc[2].Addr, coins("ukex", 5))), true
	case "MsgRegisterIdentityRecords":
		return w.identity(), true
	case "MsgSetNetworkProperties":
		return w.netProps(), true
	}
	return TxSpec{}, false
}

func wallClockHistories(r *hx.Rng, seed uint64) []*History {
	th := realNow.Add(6 * time.Second).Add(123456789 * time.Nanosecond) // thresholds carry a nanosecond part
	cfg := baseCfg(seed, 980)
	const inactive, unstaking, votingEnd = 60, 2629800, 300
	cfg.Gov = func(g *govtypes.GenesisState) {
		g.NetworkProperties.MischanceConfidence = 1
		g.NetworkProperties.MaxMischance = 1
		g.NetworkProperties.DowntimeInactiveDuration = inactive
		g.NetworkProperties.MinimumProposalEndTime = votingEnd
		g.NetworkProperties.UnstakingPeriod = unstaking
	}
	w := newWorld(r, cfg)
	at := func(d time.Duration) time.Time { return th.Add(d) }
	sec := time.Second
	h := &History{Name: "wall-clock-thresholds", Class: "wallclock", Cfg: cfg, Threshold: th, Start: at(-(unstaking + 100) * sec), Extra: []string{"stream:wall-clock-thresholds"}}
	a1 := w.acc[1].Addr.String()
	v0 := w.val[0].ValAddr.String()
	prop := w.proposal()
	h.Blocks = []BlockSpec{
		// undelegation whose expiry is TH
		{At: at(-(unstaking + 50) * sec), Req: abci.BlockReq{Dt: 1}, Txs: []TxSpec{
			tx(w.val[0].Owner, "v0 pool", &mstypes.MsgUpsertStakingPool{Sender: w.acc[w.val[0].Owner].Addr.String(), Validator: v0, Enabled: true, Commission: sdk.NewDecWithPrec(10, 2)}),
			tx(1, "a1->v0", &mstypes.MsgDelegate{DelegatorAddress: a1, ValidatorAddress: v0, Amounts: coins("ukex", 100000)})}},
		{At: at(-unstaking * sec), Req: abci.BlockReq{Dt: 1}, Txs: []TxSpec{
			tx(1, "a1<-v0 (expiry = threshold)", &mstypes.MsgUndelegate{DelegatorAddress: a1, ValidatorAddress: v0, Amounts: coins("ukex", 40000)})}},
		// proposal whose voting ends at TH
		{At: at(-votingEnd * sec), Req: abci.BlockReq{Dt: 1}, Txs: prop},
		// validator v2 misses three blocks in a row: inactivated in the third, inactive until TH
		{At: at(-(inactive + 2) * sec), Req: abci.BlockReq{Dt: 1, Absent: map[int]bool{2: true}}},
		{At: at(-(inactive + 1) * sec), Req: abci.BlockReq{Dt: 1, Absent: map[int]bool{2: true}}},
		{At: at(-inactive * sec), Req: abci.BlockReq{Dt: 1, Absent: map[int]bool{2: true}}},
		// poll that ends at TH
		{At: at(-10 * sec), Req: abci.BlockReq{Dt: 1}, Txs: []TxSpec{w.pollCreate("10s")}},
	}
	probes := []string{"MsgActivate", "MsgPollVote", "MsgVoteProposal", "MsgClaimMaturedUndelegations", "MsgSend"}
	for _, f := range focusMsgs {
		dup := false
		for _, p := range probes {
			dup = dup || p == f
		}
		if !dup {
			probes = append(probes, f)
		}
	}
	for i, d := range []time.Duration{-sec, -1, 0, 1, sec, 400 * sec} {
		bs := BlockSpec{At: at(d), Req: abci.BlockReq{Dt: 1, Proposer: i}}
		for _, p := range probes {
			if t, ok := w.byName(p, 1, 1); ok {
				t.Note += fmt.Sprintf(" @threshold%+dns", int64(d))
				bs.Txs = append(bs.Txs, t)
			}
		}
		h.Blocks = append(h.Blocks, bs)
	}
	return []*History{h}
}
