package main

import (
	"fmt"

	"verif/harness/abci"
	"verif/harness/hx"

	baskettypes "github.com/KiraCore/sekai/x/basket/types"
	collectivestypes "github.com/KiraCore/sekai/x/collectives/types"
	custodytypes "github.com/KiraCore/sekai/x/custody/types"
	govtypes "github.com/KiraCore/sekai/x/gov/types"
	layer2types "github.com/KiraCore/sekai/x/layer2/types"
	mstypes "github.com/KiraCore/sekai/x/multistaking/types"
	recoverytypes "github.com/KiraCore/sekai/x/recovery/types"
	spendingtypes "github.com/KiraCore/sekai/x/spending/types"
	sdk "github.com/cosmos/cosmos-sdk/types"
	banktypes "github.com/cosmos/cosmos-sdk/x/bank/types"
)

// siteRecipes: for every map-iteration site of hand-written code (key: file|function|expression as
// in Gen/NondetSites.v) the replica history that fills that map with >= 2 entries of CONFLICTING
// content and then makes the iteration result observable -- or the reason no block can reach it.
// checks/c01.py demands an entry for every such site the translator finds.
var siteRecipes = map[string]string{
	"x/gov/keeper/util.go|CheckIfAllowedPermission|roles":                           "recipe:conflicting-roles",
	"x/gov/types/poll_vote.go|CalculatedPollVotes.ProcessResult|c.votes":            "recipe:poll-ties",
	"x/gov/genesis.go|InitGenesis|genesisState.DataRegistry":                        "recipe:genesis-maps",
	"x/gov/genesis.go|InitGenesis|genesisState.ProposalDurations":                   "recipe:genesis-maps",
	"x/gov/genesis.go|InitGenesis|genesisState.RolePermissions":                     "recipe:genesis-maps",
	"app/app.go|BlockedAddresses|GetMaccPerms()":                                    "recipe:module-account-recipient",
	"app/app.go|SekaiApp.ModuleAccountAddrs|maccPerms":                              "recipe:module-account-recipient",
	"app/app.go|GetMaccPerms|maccPerms":                                             "recipe:module-account-recipient",
	"x/gov/keeper/grpc_query.go|Keeper.AllExecutionFees|kiratypes.MsgFuncIDMapping": "none: gRPC query handler, not reachable from a block",
	"x/recovery/keeper/msg_server.go|msgServer.RotateRecoveryAddress|txPool.Record": "none: in-place rewrite of each record, order-free by inspection (audit entry); a replica recipe is not informative while TransactionPool is marshalled in Go map order (known finding encoding-not-canonical:TransactionPool): the block creating the second pending transfer already diverges and only the first diverging block is judged",
	"x/gov/types/identity_registrar.go|WrapInfos|infos":                             "none: only caller is x/gov/client/cli",
}

func numRole(id int) string { return fmt.Sprintf("%d", id) }

// an actor with three roles that disagree on several permissions, then many messages gated by them
func recipeConflictingRoles(r *hx.Rng, seed uint64, rep int) *History {
	cfg := baseCfg(seed, 940+rep)
	w := newWorld(r, cfg)
	h := &History{Name: fmt.Sprintf("conflicting-roles-%d", rep), Class: "recipe:conflicting-roles", Cfg: cfg}
	a0 := w.acc[0].Addr
	P1, P2, P3 := uint32(govtypes.PermSetPermissions), uint32(govtypes.PermUpsertRole), uint32(govtypes.PermCreatePollProposal)
	var b1 []TxSpec
	for i := 1; i <= 3; i++ {
		b1 = append(b1, tx(0, fmt.Sprintf("role c%d", i), govtypes.NewMsgCreateRole(a0, fmt.Sprintf("c%d", i), "conflict")))
	}
	// roles get ids 3,4,5.  3: +P1 -P2 ; 4: -P1 +P3 ; 5: +P2 -P3
	wl := func(role int, p uint32) TxSpec {
		return tx(0, fmt.Sprintf("role %d +%d", role, p), govtypes.NewMsgWhitelistRolePermission(a0, numRole(role), p))
	}
	bl := func(role int, p uint32) TxSpec {
		return tx(0, fmt.Sprintf("role %d -%d", role, p), &govtypes.MsgBlacklistRolePermission{Proposer: a0, RoleIdentifier: numRole(role), Permission: p})
	}
	b1 = append(b1, wl(3, P1), bl(3, P2), bl(4, P1), wl(4, P3), wl(5, P2), bl(5, P3))
	var b2 []TxSpec
	for _, who := range []int{4, 5} {
		for role := 3; role <= 5; role++ {
			if who == 5 && role == 5 {
				continue // a5 holds two of the roles only
			}
			b2 = append(b2, tx(0, fmt.Sprintf("a%d role %d", who, role), govtypes.NewMsgAssignRole(a0, w.acc[who].Addr, uint32(role))))
		}
	}
	h.Blocks = []BlockSpec{{Req: abci.BlockReq{Dt: 5}, Txs: b1}, {Req: abci.BlockReq{Dt: 5}, Txs: b2}}
	n := 0
	for b := 0; b < 4; b++ {
		bs := BlockSpec{Req: abci.BlockReq{Dt: 5, Proposer: b}}
		for _, who := range []int{4, 5, 4} {
			a := w.acc[who].Addr
			n++
			bs.Txs = append(bs.Txs,
				tx(who, fmt.Sprintf("a%d gated by PermSetPermissions", who), govtypes.NewMsgWhitelistPermissions(a, w.acc[1+n%3].Addr, uint32(somePerms[n%len(somePerms)]))),
				tx(who, fmt.Sprintf("a%d gated by PermUpsertRole", who), govtypes.NewMsgCreateRole(a, fmt.Sprintf("x%d", n), "by conflicted actor")),
				tx(who, fmt.Sprintf("a%d gated by PermCreatePollProposal", who), govtypes.NewMsgPollCreate(a, "t", "d", "r", "c", []string{"x", "y"}, []string{"sudo"}, 3, "string", 1, "1h")))
		}
		h.Blocks = append(h.Blocks, bs)
	}
	return h
}

// several voters, tied options, the end blocker closes the poll (ProcessResult ranges the tally map)
func recipePollTies(r *hx.Rng, seed uint64) *History {
	cfg := baseCfg(seed, 950)
	w := newWorld(r, cfg)
	h := &History{Name: "poll-ties", Class: "recipe:poll-ties", Cfg: cfg}
	a0 := w.acc[0].Addr
	var b1 []TxSpec
	for i := 1; i <= 4; i++ {
		b1 = append(b1, tx(0, fmt.Sprintf("a%d sudo", i), govtypes.NewMsgAssignRole(a0, w.acc[i].Addr, uint32(govtypes.RoleSudo))))
	}
	mk := func(d string) TxSpec {
		w.polls++
		return tx(0, fmt.Sprintf("poll %d %s", w.polls, d), govtypes.NewMsgPollCreate(a0, "t", "d", "r", "c", []string{"red", "green", "blue"}, []string{"sudo"}, 6, "string", 1, d))
	}
	b2 := []TxSpec{mk("8s"), mk("8s"), mk("8s")}
	vote := func(who, poll int, v string) TxSpec {
		return tx(who, fmt.Sprintf("a%d poll %d %s", who, poll, v), govtypes.NewMsgVotePoll(uint64(poll), w.acc[who].Addr, govtypes.PollOptionCustom, v))
	}
	b3 := []TxSpec{
		vote(0, 1, "red"), vote(1, 1, "green"), vote(2, 1, "red"), vote(3, 1, "green"), // 2:2 tie
		vote(0, 2, "red"), vote(1, 2, "green"), vote(2, 2, "blue"), vote(3, 2, "other"), vote(4, 2, "red"), // 2:1:1:1
		vote(0, 3, "blue"), vote(1, 3, "blue"), vote(2, 3, "blue"), vote(3, 3, "red"), // majority
	}
	h.Blocks = []BlockSpec{
		{Req: abci.BlockReq{Dt: 5}, Txs: b1}, {Req: abci.BlockReq{Dt: 2}, Txs: b2}, {Req: abci.BlockReq{Dt: 2}, Txs: b3},
		{Req: abci.BlockReq{Dt: 30}, Txs: []TxSpec{w.bankSend()}}, {Req: abci.BlockReq{Dt: 5}, Txs: []TxSpec{w.bankSend()}},
	}
	return h
}

// genesis whose gov maps hold several entries (one proposal duration invalid)
func recipeGenesisMaps(r *hx.Rng, seed uint64) *History {
	cfg := baseCfg(seed, 960)
	cfg.Gov = func(g *govtypes.GenesisState) {
		g.ProposalDurations = map[string]uint64{"SetNetworkProperty": 600, "UpsertDataRegistry": 700, "SetPoorNetworkMessages": 800, "CreateRole": 900,
			"AssignRoleToAccount": 1000, "WhitelistAccountPermission": 1100, "TooShort": 1, "UpsertTokenInfos": 1200}
		g.DataRegistry = map[string]*govtypes.DataRegistryEntry{}
		for i := 0; i < 6; i++ {
			g.DataRegistry[fmt.Sprintf("file%d", i)] = &govtypes.DataRegistryEntry{Hash: fmt.Sprintf("h%d", i), Reference: "ref", Encoding: "enc", Size_: uint64(i)}
		}
		for id := uint32(3); id <= 7; id++ {
			g.Roles = append(g.Roles, govtypes.Role{Id: id, Sid: fmt.Sprintf("g%d", id), Description: "genesis role"})
			g.RolePermissions[uint64(id)] = govtypes.NewPermissions([]govtypes.PermValue{govtypes.PermValue(id), govtypes.PermSetPermissions, govtypes.PermUpsertRole}, []govtypes.PermValue{govtypes.PermCreatePollProposal})
		}
		g.NextRoleId = 8
	}
	w := newWorld(r, cfg)
	h := &History{Name: "genesis-maps", Class: "recipe:genesis-maps", Cfg: cfg, Extra: []string{"genesis:gov-maps"}}
	h.Blocks = []BlockSpec{{Req: abci.BlockReq{Dt: 5}, Txs: []TxSpec{w.bankSend()}}}
	return h
}

// bank sends whose recipient is a module account (blocked-address map) or not
func recipeModuleRecipient(r *hx.Rng, seed uint64) *History {
	cfg := baseCfg(seed, 970)
	w := newWorld(r, cfg)
	h := &History{Name: "module-account-recipient", Class: "recipe:module-account-recipient", Cfg: cfg}
	var txs []TxSpec
	for i, m := range []string{"fee_collector", "gov", "multistaking", "spending", "basket", "distributor", "custody", "ubi", "layer2", "collectives", "recovery", "tokens"} {
		who := i % nAcc
		txs = append(txs, tx(who, "to module "+m, banktypes.NewMsgSend(w.acc[who].Addr, abci.ModuleAddr(m), coins("ukex", int64(100+i)))))
	}
	h.Blocks = []BlockSpec{{Req: abci.BlockReq{Dt: 5}, Txs: txs[:6]}, {Req: abci.BlockReq{Dt: 5}, Txs: txs[6:]}}
	return h
}

func recipeHistories(r *hx.Rng, seed uint64, reps int) []*History {
	var hs []*History
	for rep := 0; rep < reps; rep++ {
		hs = append(hs, recipeConflictingRoles(r, seed, rep))
	}
	for rep := 0; rep < reps+1; rep++ {
		hs = append(hs, recipeTies(r, seed, rep))
	}
	return append(hs, recipePollTies(r, seed), recipeGenesisMaps(r, seed), recipeModuleRecipient(r, seed))
}

// ---------------------------------------------------------------- further message types (mixed histories)

// messages of modules whose objects (dApps, baskets, recovery tokens) mostly do not exist in the
// generated histories: most are refused by their handler, after the whole ante chain has run
func (w *world) rareTx() TxSpec {
	i := w.r.Intn(nAcc)
	a := w.acc[i].Addr.String()
	dapp := fmt.Sprintf("dapp%d", w.r.Intn(2))
	note := fmt.Sprintf("a%d", i)
	c := sdk.NewInt64Coin("ukex", w.r.Range(100, 100000))
	switch w.r.Intn(19) {
	case 0:
		return tx(i, note, &layer2types.MsgBondDappProposal{Sender: a, DappName: dapp, Bond: c})
	case 1:
		return tx(i, note, &layer2types.MsgExitDapp{Sender: a, DappName: dapp})
	case 2:
		return tx(i, note, &layer2types.MsgPauseDappTx{Sender: a, DappName: dapp})
	case 3:
		return tx(i, note, &layer2types.MsgExecuteDappTx{Sender: a, DappName: dapp, Gateway: "gw"})
	case 4:
		return tx(i, note, &layer2types.MsgSwapDappPoolTx{Sender: a, DappName: dapp, Token: c, Slippage: sdk.NewDecWithPrec(1, 1)})
	case 5:
		return tx(i, note, &layer2types.MsgJoinDappVerifierWithBond{Sender: a, DappName: dapp, Interx: a})
	case 6:
		return tx(i, note, &layer2types.MsgMintCreateFtTx{Sender: a, DenomSuffix: fmt.Sprintf("ft%d", w.r.Intn(3)), Name: "n", Symbol: "S", Decimals: 6, Cap: sdk.NewInt(1000000), Supply: sdk.ZeroInt(), FeeRate: sdk.NewDecWithPrec(1, 2), Owner: a})
	case 7:
		return tx(i, note, &layer2types.MsgMintIssueTx{Sender: a, Denom: fmt.Sprintf("ku/ft%d", w.r.Intn(3)), Amount: sdk.NewInt(w.r.Range(1, 1000)), Receiver: a})
	case 8:
		return tx(i, note, &layer2types.MsgMintBurnTx{Sender: a, Denom: fmt.Sprintf("ku/ft%d", w.r.Intn(3)), Amount: sdk.NewInt(w.r.Range(1, 1000))})
	case 9:
		return tx(i, note, &baskettypes.MsgBasketTokenMint{Sender: a, BasketId: 1, Deposit: sdk.NewCoins(c)})
	case 10:
		return tx(i, note, &baskettypes.MsgBasketTokenBurn{Sender: a, BasketId: 1, BurnAmount: c})
	case 11:
		return tx(i, note, &baskettypes.MsgBasketClaimRewards{Sender: a, BasketTokens: sdk.NewCoins(c)})
	case 12:
		return tx(i, note, &baskettypes.MsgDisableBasketDeposits{Sender: a, BasketId: 1, Disabled: true})
	case 13:
		return tx(i, note, &recoverytypes.MsgRegisterRRTokenHolder{Holder: a})
	case 14:
		return tx(i, note, &recoverytypes.MsgClaimRRHolderRewards{Sender: a})
	case 15:
		return tx(i, note, &recoverytypes.MsgIssueRecoveryTokens{Address: a})
	case 16:
		return tx(0, "a0", &govtypes.MsgCouncilorPause{Sender: w.acc[0].Addr.String()})
	case 17:
		return tx(0, "a0", &govtypes.MsgCouncilorUnpause{Sender: w.acc[0].Addr.String()})
	default:
		return tx(0, "a0", &govtypes.MsgCouncilorActivate{Sender: w.acc[0].Addr.String()})
	}
}

func (w *world) moreTx() TxSpec {
	if w.r.Chance(35) {
		return w.rareTx()
	}
	i, j := w.r.Intn(nAcc), w.r.Intn(nAcc)
	a := w.acc[i].Addr
	p := uint32(somePerms[w.r.Intn(len(somePerms))])
	switch w.r.Intn(14) {
	case 0:
		return tx(0, fmt.Sprintf("a%d perm %d", j, p), &govtypes.MsgRemoveBlacklistedPermissions{Proposer: w.acc[0].Addr, Address: w.acc[j].Addr, Permission: p})
	case 1:
		sid := fmt.Sprintf("role%d", 1+w.r.Intn(w.roles+1))
		switch w.r.Intn(3) {
		case 0:
			return tx(0, sid, &govtypes.MsgBlacklistRolePermission{Proposer: w.acc[0].Addr, RoleIdentifier: sid, Permission: p})
		case 1:
			return tx(0, sid, &govtypes.MsgRemoveWhitelistRolePermission{Proposer: w.acc[0].Addr, RoleIdentifier: sid, Permission: p})
		default:
			return tx(0, sid, &govtypes.MsgRemoveBlacklistRolePermission{Proposer: w.acc[0].Addr, RoleIdentifier: sid, Permission: p})
		}
	case 2:
		return tx(0, "a0", &govtypes.MsgClaimCouncilor{Address: w.acc[0].Addr, Moniker: "council0", Username: "c0", Description: "d", Social: "s", Contact: "c", Avatar: "a"})
	case 3:
		return tx(i, fmt.Sprintf("a%d asks a%d", i, j), &govtypes.MsgRequestIdentityRecordsVerify{Address: a, Verifier: w.acc[j].Addr, RecordIds: []uint64{uint64(1 + w.r.Intn(6))}, Tip: sdk.NewInt64Coin("ukex", w.r.Range(200, 2000))})
	case 4:
		return tx(i, fmt.Sprintf("a%d handles", i), &govtypes.MsgHandleIdentityRecordsVerifyRequest{Verifier: a, VerifyRequestId: uint64(1 + w.r.Intn(3)), Yes: w.r.Bool()})
	case 5:
		return tx(i, fmt.Sprintf("a%d cancels", i), &govtypes.MsgCancelIdentityRecordsVerifyRequest{Executor: a, VerifyRequestId: uint64(1 + w.r.Intn(3))})
	case 6:
		return tx(i, fmt.Sprintf("a%d", i), &mstypes.MsgSetCompoundInfo{Sender: a.String(), AllDenom: w.r.Bool(), CompoundDenoms: []string{"ukex"}})
	case 7:
		return tx(i, fmt.Sprintf("a%d", i), &mstypes.MsgRegisterDelegator{Delegator: a.String()})
	case 8:
		return tx(i, fmt.Sprintf("a%d", i), &recoverytypes.MsgRegisterRecoverySecret{Address: a.String(), Challenge: sha256hex(fmt.Sprintf("ch%d", i)), Nonce: sha256hex("nonce"), Proof: ""})
	case 9:
		in := []banktypes.Input{{Address: a.String(), Coins: coins("ukex", 300)}}
		out := []banktypes.Output{{Address: w.acc[j].Addr.String(), Coins: coins("ukex", 100)}, {Address: w.acc[(j+1)%nAcc].Addr.String(), Coins: coins("ukex", 200)}}
		return tx(i, fmt.Sprintf("a%d multi", i), banktypes.NewMsgMultiSend(in, out))
	case 10:
		return tx(i, fmt.Sprintf("a%d", i), &collectivestypes.MsgCreateCollective{Sender: a.String(), Name: fmt.Sprintf("coll%d", w.r.Intn(3)), Description: "d", Bonds: coins("ukex", w.r.Range(1000, 100000)),
			DepositWhitelist: collectivestypes.DepositWhitelist{Any: true}, OwnersWhitelist: collectivestypes.OwnersWhitelist{Accounts: []string{a.String()}},
			ClaimStart: 0, ClaimPeriod: 100, ClaimEnd: 0, VoteQuorum: sdk.NewDecWithPrec(30, 2), VotePeriod: 300, VoteEnactment: 300})
	case 11:
		return tx(i, fmt.Sprintf("a%d", i), &collectivestypes.MsgBondCollective{Sender: a.String(), Name: fmt.Sprintf("coll%d", w.r.Intn(3)), Bonds: coins("ukex", w.r.Range(1000, 100000))})
	case 12:
		return tx(i, fmt.Sprintf("a%d->a%d custody send", i, j), custodytypes.NewMsgSend(a, w.acc[j].Addr, coins("ukex", w.r.Range(1, 1000)), "", coins("ukex", 100)))
	default:
		return tx(i, fmt.Sprintf("a%d", i), &mstypes.MsgClaimUndelegation{Sender: a.String(), UndelegationId: uint64(1 + w.r.Intn(4))})
	}
}

// recipeTies: the "ties" family.  Every collection the consensus code SELECTS from (minimum / maximum scan, sort,
// first match) holds candidates with EQUAL sort keys, then the selecting operation runs: delegators with equal stake in
// a FULL staking pool (MaxDelegators lowered to 4) pushed out by newcomers, proposals with equal end times and equal
// votes, beneficiaries with equal weights, councilors with equal rank, validators with equal streaks.  A selection that
// is fed from a Go map breaks such ties by iteration order.
func recipeTies(r *hx.Rng, seed uint64, rep int) *History {
	cfg := baseCfg(seed, 990+rep)
	cfg.Accounts = 12
	cfg.Gov = func(g *govtypes.GenesisState) {
		g.NetworkProperties.MaxDelegators = 4
		g.NetworkProperties.MinDelegationPushout = 10
	}
	w := newWorld(r, cfg)
	h := &History{Name: fmt.Sprintf("ties-%d", rep), Class: "recipe:ties", Cfg: cfg, Extra: []string{"stream:ties"}}
	a0 := w.acc[0].Addr
	v0 := w.val[0].ValAddr.String()
	del := func(i int, amt int64) TxSpec {
		return tx(i, fmt.Sprintf("a%d->v0 %dukex", i, amt), &mstypes.MsgDelegate{DelegatorAddress: w.acc[i].Addr.String(), ValidatorAddress: v0, Amounts: coins("ukex", amt)})
	}
	claim := func(i int) TxSpec {
		return tx(i, fmt.Sprintf("a%d", i), &mstypes.MsgClaimRewards{Sender: w.acc[i].Addr.String()})
	}
	// block 1: pool, five delegators with exactly equal stake (the pool is full), councilor permissions, equal-weight spending pool
	b1 := []TxSpec{tx(w.val[0].Owner, "v0 pool", &mstypes.MsgUpsertStakingPool{Sender: a0.String(), Validator: v0, Enabled: true, Commission: sdk.NewDecWithPrec(10, 2)})}
	for i := 1; i <= 5; i++ {
		b1 = append(b1, del(i, 1000))
	}
	for i := 1; i <= 2; i++ {
		b1 = append(b1, tx(0, fmt.Sprintf("a%d may claim councilor", i), govtypes.NewMsgWhitelistPermissions(a0, w.acc[i].Addr, uint32(govtypes.PermClaimCouncilor))))
	}
	eq := []spendingtypes.WeightedAccount{}
	for i := 1; i <= 3; i++ {
		eq = append(eq, spendingtypes.WeightedAccount{Account: w.acc[i].Addr.String(), Weight: sdk.OneDec()})
	}
	b1 = append(b1, tx(0, "pool tie, equal weights", &spendingtypes.MsgCreateSpendingPool{Name: "tie", ClaimStart: 0, ClaimEnd: 0, ClaimExpiry: 1000,
		Rates: sdk.NewDecCoins(sdk.NewDecCoin("ukex", sdk.NewInt(10))), VoteQuorum: sdk.NewDecWithPrec(30, 2), VotePeriod: 300, VoteEnactment: 300,
		Owners: spendingtypes.PermInfo{OwnerAccounts: []string{a0.String()}}, Beneficiaries: spendingtypes.WeightedPermInfo{Accounts: eq}, Sender: a0.String()}),
		tx(0, "deposit", &spendingtypes.MsgDepositSpendingPool{Sender: a0.String(), PoolName: "tie", Amount: coins("ukex", 1_000_000)}))
	// block 2: newcomers bring >= 10x the tied minimum: each pushes one of the tied delegators out; three proposals with one end time
	b2 := []TxSpec{del(6, 20000), del(7, 20000), del(8, 30000)}
	for i := 0; i < 3; i++ {
		m, err := govtypes.NewMsgSubmitProposal(a0, "tie", "equal end time", govtypes.NewUpsertDataRegistryProposal(fmt.Sprintf("tie%d", i), "h", "r", "e", uint64(i)))
		if err != nil {
			panic(err)
		}
		w.proposals++
		b2 = append(b2, tx(0, fmt.Sprintf("proposal %d", w.proposals), m),
			tx(0, fmt.Sprintf("vote %d", w.proposals), govtypes.NewMsgVoteProposal(uint64(w.proposals), a0, govtypes.OptionYes, sdk.ZeroDec())))
	}
	for i := 1; i <= 2; i++ {
		b2 = append(b2, tx(i, fmt.Sprintf("councilor a%d", i), &govtypes.MsgClaimCouncilor{Address: w.acc[i].Addr, Moniker: fmt.Sprintf("council%d", i), Username: fmt.Sprintf("c%d", i)}))
	}
	// block 3: everybody claims (who is still registered decides who is paid); beneficiaries register and claim
	var b3, b5 []TxSpec
	for i := 1; i <= 8; i++ {
		b3 = append(b3, claim(i))
	}
	for i := 1; i <= 3; i++ {
		b3 = append(b3, tx(i, "tie", &spendingtypes.MsgRegisterSpendingPoolBeneficiary{Sender: w.acc[i].Addr.String(), PoolName: "tie"}))
		b5 = append(b5, tx(i, "tie", &spendingtypes.MsgClaimSpendingPool{Sender: w.acc[i].Addr.String(), PoolName: "tie"}))
	}
	b4 := []TxSpec{del(9, 300000), del(10, 300000)}
	for i := 1; i <= 10; i++ {
		b5 = append(b5, claim(i))
	}
	all := map[int]bool{0: true, 1: true, 2: true}
	h.Blocks = []BlockSpec{
		{Req: abci.BlockReq{Dt: 5}, Txs: b1},
		{Req: abci.BlockReq{Dt: 5, Proposer: 1}, Txs: b2},
		{Req: abci.BlockReq{Dt: 5, Proposer: 2, Absent: all}, Txs: b3}, // all validators miss the same block: equal streaks
		{Req: abci.BlockReq{Dt: 300, Proposer: 0}, Txs: b4},            // the three proposals end together
		{Req: abci.BlockReq{Dt: 300, Proposer: 1}, Txs: b5},            // ... and are enacted together
		{Req: abci.BlockReq{Dt: 5, Proposer: 2}, Txs: []TxSpec{claim(1), claim(6), w.bankSend()}},
	}
	return h
}

// failingEnactments: proposals of many kinds that pass their vote and FAIL when they are enacted by the gov end blocker
// (submitted twice in one block: both pass the dry run at submission, the second finds the effect of the first).
// Whatever the end blocker stores or emits about the failure must be the same on every replica -- including the
// child-process replica, which is a differently built binary (error values render build paths with %v / %+v).
func failingEnactments(r *hx.Rng, seed uint64) *History {
	cfg := baseCfg(seed, 995)
	w := newWorld(r, cfg)
	h := &History{Name: "failing-enactments", Class: "enactment-failures", Cfg: cfg, Extra: []string{"stream:failing-enactments"}}
	a0 := w.acc[0].Addr
	var b1 []TxSpec
	add := func(c govtypes.Content) {
		m, err := govtypes.NewMsgSubmitProposal(a0, "dup", "fails at enactment", c)
		if err != nil {
			panic(err)
		}
		w.proposals++
		b1 = append(b1, tx(0, fmt.Sprintf("proposal %d %s", w.proposals, c.ProposalType()), m),
			tx(0, fmt.Sprintf("vote %d", w.proposals), govtypes.NewMsgVoteProposal(uint64(w.proposals), a0, govtypes.OptionYes, sdk.ZeroDec())))
	}
	twice := func(mk func() govtypes.Content) { add(mk()); add(mk()) }
	twice(func() govtypes.Content {
		return govtypes.NewWhitelistAccountPermissionProposal(w.acc[1].Addr, govtypes.PermClaimCouncilor)
	})
	twice(func() govtypes.Content {
		return govtypes.NewBlacklistAccountPermissionProposal(w.acc[2].Addr, govtypes.PermClaimValidator)
	})
	twice(func() govtypes.Content {
		return govtypes.NewCreateRoleProposal("dupe", "created twice", []govtypes.PermValue{govtypes.PermClaimCouncilor}, nil)
	})
	twice(func() govtypes.Content { return govtypes.NewAssignRoleToAccountProposal(w.acc[3].Addr, "validator") })
	twice(func() govtypes.Content {
		return govtypes.NewWhitelistRolePermissionProposal("validator", govtypes.PermCreatePollProposal)
	})
	twice(func() govtypes.Content {
		return govtypes.NewUnassignRoleFromAccountProposal(w.acc[5].Addr, "validator") // not assigned: refused at submission on every replica
	})
	h.Blocks = []BlockSpec{
		{Req: abci.BlockReq{Dt: 5}, Txs: b1},
		{Req: abci.BlockReq{Dt: 200}, Txs: []TxSpec{w.bankSend()}},
		{Req: abci.BlockReq{Dt: 150, Proposer: 1}, Txs: []TxSpec{w.bankSend()}}, // voting ends
		{Req: abci.BlockReq{Dt: 200, Proposer: 2}, Txs: []TxSpec{w.bankSend()}},
		{Req: abci.BlockReq{Dt: 150}, Txs: []TxSpec{w.bankSend()}}, // enactment
		{Req: abci.BlockReq{Dt: 5, Proposer: 1}, Txs: []TxSpec{w.bankSend()}},
	}
	return h
}
