package main

import (
	"fmt"

	"verif/harness/abci"
	"verif/harness/hx"

	simapp "github.com/KiraCore/sekai/app"
	kiratypes "github.com/KiraCore/sekai/types"
	baskettypes "github.com/KiraCore/sekai/x/basket/types"
	custodytypes "github.com/KiraCore/sekai/x/custody/types"
	govtypes "github.com/KiraCore/sekai/x/gov/types"
	mstypes "github.com/KiraCore/sekai/x/multistaking/types"
	recoverytypes "github.com/KiraCore/sekai/x/recovery/types"
	slashingtypes "github.com/KiraCore/sekai/x/slashing/types"
	spendingtypes "github.com/KiraCore/sekai/x/spending/types"
	stakingtypes "github.com/KiraCore/sekai/x/staking/types"
	tokenstypes "github.com/KiraCore/sekai/x/tokens/types"
	"github.com/cosmos/cosmos-sdk/crypto/keys/ed25519"
	sdk "github.com/cosmos/cosmos-sdk/types"
	banktypes "github.com/cosmos/cosmos-sdk/x/bank/types"
)

const nAcc = 6
const nVal = 3

// world: addresses of the deterministic genesis (the same on every replica) and generator counters
type world struct {
	r         *hx.Rng
	acc       []abci.Account
	val       []abci.Validator
	proposals int
	polls     int
	roles     int
	pools     int
	custody   map[int]string // account -> current custody pass phrase (pre-image of the stored key)
	paused    []int          // validators a pause was generated for
	delegated [][2]int       // (account, validator) pairs a delegation was generated for
}

func newWorld(r *hx.Rng, cfg abci.Config) *world {
	app, _ := abci.NewApp()
	_, accs, vals := abci.GenesisFor(app, cfg)
	return &world{r: r, acc: accs, val: vals, custody: map[int]string{}}
}

func tx(signer int, note string, msgs ...sdk.Msg) TxSpec {
	k := ""
	for i, m := range msgs {
		if i > 0 {
			k += "+"
		}
		k += kindOf(m)
	}
	return TxSpec{Kind: k, Msgs: msgs, Signers: []int{signer}, Note: note}
}

func coins(denom string, amt int64) sdk.Coins { return sdk.NewCoins(sdk.NewInt64Coin(denom, amt)) }

var denoms = []string{"ukex", "ubtc", "xeth", "frozen"}

func (w *world) bankSend() TxSpec {
	f, t := w.r.Intn(nAcc), w.r.Intn(nAcc)
	amt := w.r.Range(1, 5_000_000)
	if w.r.Chance(5) {
		amt = 2_000_000_000_000_000 // more than anybody has
	}
	d := denoms[w.r.Intn(len(denoms))]
	if d == "frozen" && w.r.Chance(75) {
		d = "ukex"
	}
	return tx(f, fmt.Sprintf("a%d->a%d %d%s", f, t, amt, d), banktypes.NewMsgSend(w.acc[f].Addr, w.acc[t].Addr, coins(d, amt)))
}

var somePerms = []govtypes.PermValue{govtypes.PermClaimValidator, govtypes.PermClaimCouncilor, govtypes.PermCreatePollProposal, govtypes.PermUpsertTokenInfo,
	govtypes.PermCreateSetNetworkPropertyProposal, govtypes.PermVoteSetNetworkPropertyProposal, govtypes.PermWhitelistAccountPermissionProposal,
	govtypes.PermVoteWhitelistAccountPermissionProposal, govtypes.PermCreateUpsertDataRegistryProposal, govtypes.PermVoteUpsertDataRegistryProposal, govtypes.PermUpsertRole}

func (w *world) govPerm() TxSpec {
	j := w.r.Intn(nAcc)
	p := uint32(somePerms[w.r.Intn(len(somePerms))])
	proposer := 0
	if w.r.Chance(15) {
		proposer = w.r.Intn(nAcc) // mostly without permission
	}
	switch w.r.Intn(4) {
	case 0, 1:
		return tx(proposer, fmt.Sprintf("a%d perm %d", j, p), govtypes.NewMsgWhitelistPermissions(w.acc[proposer].Addr, w.acc[j].Addr, p))
	case 2:
		return tx(proposer, fmt.Sprintf("a%d perm %d", j, p), govtypes.NewMsgBlacklistPermissions(w.acc[proposer].Addr, w.acc[j].Addr, p))
	default:
		return tx(proposer, fmt.Sprintf("a%d perm %d", j, p), &govtypes.MsgRemoveWhitelistedPermissions{Proposer: w.acc[proposer].Addr, Address: w.acc[j].Addr, Permission: p})
	}
}

func (w *world) govRole() TxSpec {
	switch w.r.Intn(4) {
	case 0:
		w.roles++
		sid := fmt.Sprintf("role%d", w.roles)
		return tx(0, sid, govtypes.NewMsgCreateRole(w.acc[0].Addr, sid, "generated role"))
	case 1:
		sid := fmt.Sprintf("role%d", 1+w.r.Intn(w.roles+1))
		p := uint32(somePerms[w.r.Intn(len(somePerms))])
		return tx(0, sid, govtypes.NewMsgWhitelistRolePermission(w.acc[0].Addr, sid, p))
	case 2:
		j := w.r.Intn(nAcc)
		return tx(0, fmt.Sprintf("a%d", j), govtypes.NewMsgAssignRole(w.acc[0].Addr, w.acc[j].Addr, uint32(1+w.r.Intn(3+w.roles))))
	default:
		j := w.r.Intn(nAcc)
		return tx(0, fmt.Sprintf("a%d", j), &govtypes.MsgUnassignRole{Proposer: w.acc[0].Addr, Address: w.acc[j].Addr, RoleId: uint32(1 + w.r.Intn(3+w.roles))})
	}
}

func (w *world) identity() TxSpec {
	i := w.r.Intn(nAcc)
	keys := []string{"moniker", "twitter", "website", "avatar", "contact", "k_9"}
	var infos []govtypes.IdentityInfoEntry
	for n := 1 + w.r.Intn(4); n > 0; n-- {
		infos = append(infos, govtypes.IdentityInfoEntry{Key: keys[w.r.Intn(len(keys))], Info: fmt.Sprintf("v%d", w.r.Intn(50))})
	}
	if w.r.Chance(25) {
		return tx(i, "delete", &govtypes.MsgDeleteIdentityRecords{Address: w.acc[i].Addr, Keys: []string{keys[w.r.Intn(len(keys))]}})
	}
	return tx(i, fmt.Sprintf("%d records", len(infos)), govtypes.NewMsgRegisterIdentityRecords(w.acc[i].Addr, infos))
}

func (w *world) netProps() TxSpec {
	p := *govtypes.DefaultGenesis().NetworkProperties
	p.MinTxFee = uint64(w.r.Range(50, 1000))
	p.MaxTxFee = uint64(w.r.Range(1_000_000, 5_000_000))
	p.MaxMischance = uint64(w.r.Range(2, 20))
	p.MischanceConfidence = uint64(w.r.Range(1, 10))
	if w.r.Chance(10) {
		p.MinTxFee = 0 // invalid
	}
	return tx(0, fmt.Sprintf("min %d max %d", p.MinTxFee, p.MaxTxFee), govtypes.NewMsgSetNetworkProperties(w.acc[0].Addr, &p))
}

func (w *world) execFee() TxSpec {
	types := []string{kiratypes.MsgTypeClaimValidator, kiratypes.MsgTypePause, kiratypes.MsgTypeUnpause, kiratypes.MsgTypeDelegate, kiratypes.MsgTypeUpsertTokenInfo, kiratypes.MsgTypeSubmitProposal,
		kiratypes.MsgTypeVoteProposal, kiratypes.MsgTypeRegisterIdentityRecords, kiratypes.MsgTypeSetNetworkProperties, kiratypes.MsgTypeCreateRole}
	t := types[w.r.Intn(len(types))]
	return tx(0, t, govtypes.NewMsgSetExecutionFee(t, uint64(w.r.Range(0, 1600)), uint64(w.r.Range(0, 1600)), uint64(w.r.Range(0, 10)), 0, w.acc[0].Addr))
}

func (w *world) proposal() []TxSpec {
	var c govtypes.Content
	switch w.r.Intn(5) {
	case 0:
		c = govtypes.NewSetNetworkPropertyProposal(govtypes.MinTxFee, govtypes.NetworkPropertyValue{Value: uint64(w.r.Range(1, 900))})
	case 1:
		c = govtypes.NewWhitelistAccountPermissionProposal(w.acc[w.r.Intn(nAcc)].Addr, somePerms[w.r.Intn(len(somePerms))])
	case 2:
		c = govtypes.NewSetPoorNetworkMessagesProposal([]string{kiratypes.MsgTypeSetNetworkProperties, kiratypes.MsgTypeSubmitProposal, kiratypes.MsgTypeVoteProposal})
	case 3:
		c = govtypes.NewUpsertDataRegistryProposal(fmt.Sprintf("key%d", w.r.Intn(5)), "hash", "ref", "enc", uint64(w.r.Intn(1000)))
	default:
		c = govtypes.NewSetProposalDurationsProposal([]string{"SetNetworkProperty", "UpsertDataRegistry"}, []uint64{uint64(w.r.Range(300, 900)), uint64(w.r.Range(300, 900))})
	}
	m, err := govtypes.NewMsgSubmitProposal(w.acc[0].Addr, "title", "generated", c)
	if err != nil {
		panic(err)
	}
	w.proposals++
	out := []TxSpec{tx(0, c.ProposalType(), m)}
	if w.r.Chance(80) {
		opt := []govtypes.VoteOption{govtypes.OptionYes, govtypes.OptionYes, govtypes.OptionNo, govtypes.OptionAbstain, govtypes.OptionNoWithVeto}[w.r.Intn(5)]
		out = append(out, tx(0, fmt.Sprintf("proposal %d %s", w.proposals, opt), govtypes.NewMsgVoteProposal(uint64(w.proposals), w.acc[0].Addr, opt, sdk.ZeroDec())))
	}
	return out
}

func (w *world) staking() TxSpec {
	switch w.r.Intn(5) {
	case 0:
		i := 3 + w.r.Intn(nAcc-3)
		pk := ed25519.GenPrivKeyFromSecret([]byte(fmt.Sprintf("claimed-%d-%d", i, w.r.Intn(3)))).PubKey()
		m, err := stakingtypes.NewMsgClaimValidator(fmt.Sprintf("moniker%d", i), sdk.ValAddress(w.acc[i].Addr), pk)
		if err != nil {
			panic(err)
		}
		return tx(i, fmt.Sprintf("a%d", i), m)
	case 1:
		v := w.r.Intn(nVal)
		w.paused = append(w.paused, v)
		return tx(w.val[v].Owner, fmt.Sprintf("v%d", v), slashingtypes.NewMsgPause(w.val[v].ValAddr))
	case 2:
		v := w.r.Intn(nVal)
		if len(w.paused) > 0 && w.r.Chance(85) {
			v = w.paused[len(w.paused)-1]
			w.paused = w.paused[:len(w.paused)-1]
		}
		return tx(w.val[v].Owner, fmt.Sprintf("v%d", v), slashingtypes.NewMsgUnpause(w.val[v].ValAddr))
	case 3:
		v := w.r.Intn(nVal)
		return tx(w.val[v].Owner, fmt.Sprintf("v%d", v), slashingtypes.NewMsgActivate(w.val[v].ValAddr))
	default:
		v := w.r.Intn(nVal)
		return tx(w.val[v].Owner, fmt.Sprintf("v%d pool", v), &mstypes.MsgUpsertStakingPool{Sender: w.acc[w.val[v].Owner].Addr.String(), Validator: w.val[v].ValAddr.String(), Enabled: true,
			Commission: sdk.NewDecWithPrec(w.r.Range(1, 50), 2)})
	}
}

func (w *world) multistaking() TxSpec {
	i, v := w.r.Intn(nAcc), w.r.Intn(nVal)
	amt := coins("ukex", w.r.Range(100_000, 9_000_000))
	k := w.r.Intn(6)
	if k == 3 {
		amt = coins("ukex", w.r.Range(1000, 90_000))
	}
	if k == 3 && len(w.delegated) > 0 && w.r.Chance(85) {
		d := w.delegated[w.r.Intn(len(w.delegated))]
		i, v = d[0], d[1]
	}
	if k <= 2 {
		w.delegated = append(w.delegated, [2]int{i, v})
	}
	switch k {
	case 0, 1, 2:
		return tx(i, fmt.Sprintf("a%d->v%d %s", i, v, amt), &mstypes.MsgDelegate{DelegatorAddress: w.acc[i].Addr.String(), ValidatorAddress: w.val[v].ValAddr.String(), Amounts: amt})
	case 3:
		return tx(i, fmt.Sprintf("a%d<-v%d %s", i, v, amt), &mstypes.MsgUndelegate{DelegatorAddress: w.acc[i].Addr.String(), ValidatorAddress: w.val[v].ValAddr.String(), Amounts: amt})
	case 4:
		return tx(i, fmt.Sprintf("a%d", i), &mstypes.MsgClaimRewards{Sender: w.acc[i].Addr.String()})
	default:
		return tx(i, fmt.Sprintf("a%d", i), &mstypes.MsgClaimMaturedUndelegations{Sender: w.acc[i].Addr.String()})
	}
}

func (w *world) spending() TxSpec {
	if w.pools == 0 || w.r.Chance(30) {
		w.pools++
		name := fmt.Sprintf("pool%d", w.pools)
		m := &spendingtypes.MsgCreateSpendingPool{Name: name, ClaimStart: 0, ClaimEnd: 0, ClaimExpiry: 1000,
			Rates:      sdk.NewDecCoins(sdk.NewDecCoin("ukex", sdk.NewInt(w.r.Range(1, 50)))),
			VoteQuorum: sdk.NewDecWithPrec(30, 2), VotePeriod: 300, VoteEnactment: 300,
			Owners:        spendingtypes.PermInfo{OwnerAccounts: []string{w.acc[0].Addr.String()}},
			Beneficiaries: spendingtypes.WeightedPermInfo{Accounts: []spendingtypes.WeightedAccount{{Account: w.acc[1].Addr.String(), Weight: sdk.OneDec()}, {Account: w.acc[2].Addr.String(), Weight: sdk.NewDec(2)}}},
			Sender:        w.acc[0].Addr.String(), DynamicRate: w.r.Chance(30), DynamicRatePeriod: uint64(w.r.Range(1, 100))}
		return tx(0, name, m)
	}
	name := fmt.Sprintf("pool%d", 1+w.r.Intn(w.pools))
	i := w.r.Intn(nAcc)
	switch w.r.Intn(3) {
	case 0:
		return tx(i, name, &spendingtypes.MsgDepositSpendingPool{Sender: w.acc[i].Addr.String(), PoolName: name, Amount: coins("ukex", w.r.Range(1000, 1_000_000))})
	case 1:
		return tx(i, name, &spendingtypes.MsgRegisterSpendingPoolBeneficiary{Sender: w.acc[i].Addr.String(), PoolName: name})
	default:
		return tx(i, name, &spendingtypes.MsgClaimSpendingPool{Sender: w.acc[i].Addr.String(), PoolName: name})
	}
}

func (w *world) tokens() TxSpec {
	d := []string{"unew0", "unew1", "unew2", "unew3", "ubtc"}[w.r.Intn(5)]
	m := &tokenstypes.MsgUpsertTokenInfo{Proposer: w.acc[0].Addr, Denom: d, TokenType: "adr20", FeeRate: sdk.NewDecWithPrec(w.r.Range(1, 500), 2), FeeEnabled: true,
		Supply: sdk.ZeroInt(), SupplyCap: sdk.NewInt(w.r.Range(0, 1_000_000_000)), StakeCap: sdk.NewDecWithPrec(w.r.Range(0, 12), 2), StakeMin: sdk.OneInt(), StakeEnabled: w.r.Bool(),
		Symbol: "S", Name: "N", Decimals: 6, MintingFee: sdk.ZeroInt(), Owner: w.acc[0].Addr.String()}
	return tx(0, d, m)
}

// ---- polls (PollCreate stores time.Now()+duration; PollVote / EndBlocker compare with time.Now())
func (w *world) pollCreate(duration string) TxSpec {
	w.polls++
	vals := []string{"red", "green", "blue"}
	return tx(0, fmt.Sprintf("poll %d duration %s", w.polls, duration),
		govtypes.NewMsgPollCreate(w.acc[0].Addr, "title", "generated poll", "ref", "sum", vals, []string{"sudo"}, 5, "string", 1, duration))
}

func (w *world) pollVote(id int) TxSpec {
	opt := govtypes.PollOptionCustom
	val := []string{"red", "green", "blue", "other"}[w.r.Intn(4)]
	if w.r.Chance(30) {
		opt, val = govtypes.PollOptionAbstain, ""
	}
	return tx(0, fmt.Sprintf("poll %d %s", id, val), govtypes.NewMsgVotePoll(uint64(id), w.acc[0].Addr, opt, val))
}

// ---- custody (records with map<string,...> fields are marshalled by ranging the Go map)
func (w *world) custodyCreate(i int, enabled, limits, whitelist bool) TxSpec {
	old := w.custody[i]
	next := fmt.Sprintf("pass-%d-%d", i, w.r.Intn(1000))
	w.custody[i] = next
	return tx(i, fmt.Sprintf("a%d enabled=%v limits=%v wl=%v", i, enabled, limits, whitelist),
		custodytypes.NewMsgCreateCustody(w.acc[i].Addr, custodytypes.CustodySettings{CustodyEnabled: enabled, CustodyMode: 50, UseLimits: limits, UseWhiteList: whitelist}, old, sha256hex(next), "", ""))
}

func (w *world) someAddrs(n int) []sdk.AccAddress {
	var out []sdk.AccAddress
	for j := 0; j < n; j++ {
		if w.r.Chance(50) {
			out = append(out, w.acc[w.r.Intn(nAcc)].Addr)
		} else {
			out = append(out, sdk.AccAddress([]byte(fmt.Sprintf("custody-address-%04d", w.r.Intn(10000)))))
		}
	}
	return out
}

func (w *world) custodyOp(i int) TxSpec {
	old := w.custody[i]
	next := fmt.Sprintf("pass-%d-%d", i, w.r.Intn(1000))
	nk := sha256hex(next)
	a := w.acc[i].Addr
	k := w.r.Intn(7)
	if i == 1 && (k == 4 || k == 5) { // the ante arm of an enabled account rejects MsgAddToCustodyLimits (key unchanged)
		if w.r.Chance(80) {
			k = 0
		}
	} else {
		w.custody[i] = next
	}
	if k == 6 && i == 1 { // may be refused by the handler after the ante key check (key would not rotate): not for the enabled account
		k = 2
	}
	if i != 1 && w.r.Chance(20) {
		switch w.r.Intn(5) {
		case 0:
			return tx(i, fmt.Sprintf("a%d", i), custodytypes.NewMsgRemoveFromCustodyCustodians(a, w.acc[w.r.Intn(nAcc)].Addr, old, nk, "", ""))
		case 1:
			return tx(i, fmt.Sprintf("a%d", i), custodytypes.NewMsgRemoveFromCustodyLimits(a, denoms[w.r.Intn(len(denoms))], old, nk, "", ""))
		case 2:
			return tx(i, fmt.Sprintf("a%d", i), custodytypes.NewMsgDropCustodyWhiteList(a, old, nk, "", ""))
		case 3:
			return tx(i, fmt.Sprintf("a%d", i), custodytypes.NewMsgDropCustodyCustodians(a, old, nk, "", ""))
		default:
			return tx(i, fmt.Sprintf("a%d", i), custodytypes.NewMsgDropCustodyLimits(a, old, nk, "", ""))
		}
	}
	switch k {
	case 0, 1:
		n := 2 + w.r.Intn(5)
		return tx(i, fmt.Sprintf("a%d +%d", i, n), custodytypes.NewMsgAddToCustodyWhiteList(a, w.someAddrs(n), old, nk, "", ""))
	case 2, 3:
		n := 2 + w.r.Intn(5)
		return tx(i, fmt.Sprintf("a%d +%d", i, n), custodytypes.NewMsgAddToCustodyCustodians(a, w.someAddrs(n), old, nk, "", ""))
	case 4, 5:
		d := denoms[w.r.Intn(len(denoms))]
		return tx(i, fmt.Sprintf("a%d %s", i, d), custodytypes.NewMsgAddToCustodyLimits(a, d, uint64(w.r.Range(1000, 100000)), "1s", old, nk, "", ""))
	default:
		return tx(i, fmt.Sprintf("a%d", i), custodytypes.NewMsgRemoveFromCustodyWhiteList(a, w.acc[w.r.Intn(nAcc)].Addr, old, nk, "", ""))
	}
}

func (w *world) blockReq(maxDt int64) abci.BlockReq {
	req := abci.BlockReq{Dt: w.r.Range(1, maxDt), Proposer: w.r.Intn(nVal)}
	if w.r.Chance(30) {
		req.Absent = map[int]bool{w.r.Intn(nVal): true}
	}
	if w.r.Chance(4) {
		req.Evidence = []int{w.r.Intn(nVal)}
	}
	return req
}

func (w *world) mixedTx() []TxSpec {
	if w.r.Chance(25) {
		return []TxSpec{w.moreTx()}
	}
	switch w.r.Intn(12) {
	case 0, 1:
		return []TxSpec{w.bankSend()}
	case 2:
		return []TxSpec{w.govPerm()}
	case 3:
		return []TxSpec{w.govRole()}
	case 4:
		return []TxSpec{w.identity()}
	case 5:
		if w.r.Chance(50) {
			return []TxSpec{w.netProps()}
		}
		return []TxSpec{w.execFee()}
	case 6:
		return w.proposal()
	case 7:
		return []TxSpec{w.staking()}
	case 8, 9:
		return []TxSpec{w.multistaking()}
	case 10:
		return []TxSpec{w.spending()}
	default:
		if w.r.Chance(20) { // two messages of one signer in one transaction
			a, b := w.bankSend(), w.identity()
			b.Msgs[0] = reSigner(b.Msgs[0], w.acc[a.Signers[0]].Addr)
			return []TxSpec{tx(a.Signers[0], "multi", a.Msgs[0], b.Msgs[0])}
		}
		return []TxSpec{w.tokens()}
	}
}

// structuredTx: transaction shapes beyond one message / one signer / one coin: repeated message types in one
// transaction, several signers with a separate fee payer, coin sets of 2-3 denominations, lists with repeated entries
func (w *world) structuredTx() TxSpec {
	i, j := w.r.Intn(nAcc), w.r.Intn(nAcc)
	if j == i {
		j = (i + 1) % nAcc
	}
	ai, aj := w.acc[i].Addr, w.acc[j].Addr
	switch w.r.Intn(5) {
	case 0: // the same message type three times
		return tx(i, fmt.Sprintf("a%d 3x send", i), banktypes.NewMsgSend(ai, aj, coins("ukex", 11)), banktypes.NewMsgSend(ai, aj, coins("ubtc", 12)), banktypes.NewMsgSend(ai, w.acc[(j+1)%nAcc].Addr, coins("ukex", 13)))
	case 1: // two signers, the first pays the fee
		t := tx(i, fmt.Sprintf("a%d pays, a%d co-signs", i, j), banktypes.NewMsgSend(ai, aj, coins("ukex", 21)), banktypes.NewMsgSend(aj, ai, coins("ukex", 22)))
		t.Signers = []int{i, j}
		return t
	case 2: // coin set of three denominations
		return tx(i, fmt.Sprintf("a%d 3 denoms", i), banktypes.NewMsgSend(ai, aj, sdk.NewCoins(sdk.NewInt64Coin("ukex", 5), sdk.NewInt64Coin("ubtc", 6), sdk.NewInt64Coin("xeth", 7))))
	case 3: // list with repeated and permuted entries
		infos := []govtypes.IdentityInfoEntry{{Key: "twitter", Info: "x"}, {Key: "contact", Info: "c"}, {Key: "twitter", Info: "y"}, {Key: "Contact", Info: "C"}}
		return tx(i, fmt.Sprintf("a%d repeated keys", i), govtypes.NewMsgRegisterIdentityRecords(ai, infos), &govtypes.MsgDeleteIdentityRecords{Address: ai, Keys: []string{"contact", "contact", "twitter"}})
	default: // address rotation (another module rewriting gov / staking / spending records of the account)
		return tx(i, fmt.Sprintf("a%d rotate", i), &recoverytypes.MsgRotateRecoveryAddress{FeePayer: ai.String(), Address: ai.String(), Recovery: aj.String(), Proof: "proof"})
	}
}

func reSigner(m sdk.Msg, a sdk.AccAddress) sdk.Msg {
	switch x := m.(type) {
	case *govtypes.MsgRegisterIdentityRecords:
		x.Address = a
	case *govtypes.MsgDeleteIdentityRecords:
		x.Address = a
	}
	return m
}

func baseCfg(seed uint64, i int) abci.Config {
	return abci.Config{Accounts: nAcc, Validators: nVal, Seed: seed*1000 + uint64(i)}
}

// genHistory: the i-th generated history.  Classes rotate: mixed (no environment-consulting
// message), polls, custody.
func genHistory(r *hx.Rng, seed uint64, i int) *History {
	cfg := baseCfg(seed, i)
	w := newWorld(r, cfg)
	class := []string{"mixed", "mixed", "polls", "custody"}[i%4]
	h := &History{Name: fmt.Sprintf("%s-%d", class, i), Class: class, Cfg: cfg}
	nb := 5 + r.Intn(5)
	// set-up block: staking pools so that delegations are mostly valid
	var setup []TxSpec
	for v := 0; v < nVal; v++ {
		setup = append(setup, tx(w.val[v].Owner, fmt.Sprintf("v%d pool", v), &mstypes.MsgUpsertStakingPool{Sender: w.acc[w.val[v].Owner].Addr.String(), Validator: w.val[v].ValAddr.String(), Enabled: true, Commission: sdk.NewDecWithPrec(10, 2)}))
	}
	setup = append(setup, tx(0, "a3 claim-validator", govtypes.NewMsgWhitelistPermissions(w.acc[0].Addr, w.acc[3].Addr, uint32(govtypes.PermClaimValidator))))
	if class == "custody" {
		for a := 1; a <= 3; a++ {
			setup = append(setup, w.custodyCreate(a, a == 1, false, false))
		}
	}
	h.Blocks = append(h.Blocks, BlockSpec{Req: abci.BlockReq{Dt: 5, Proposer: 0}, Txs: setup})
	for b := 0; b < nb; b++ {
		bs := BlockSpec{Req: w.blockReq(400)}
		if r.Chance(60) {
			bs.Ns = r.Range(1, 999_999_999)
		}
		if r.Chance(35) {
			bs.Txs = append(bs.Txs, w.structuredTx())
		}
		for n := 1 + r.Intn(5); n > 0; n-- {
			bs.Txs = append(bs.Txs, w.mixedTx()...)
		}
		switch class {
		case "polls":
			if b == 0 || r.Chance(30) {
				bs.Txs = append(bs.Txs, w.pollCreate([]string{"30ms", "1h", "400s", "2s"}[r.Intn(4)]))
			}
			if w.polls > 0 && b > 0 {
				bs.Txs = append(bs.Txs, w.pollVote(1+r.Intn(w.polls)))
				if b == 1 {
					bs.SleepMs = 40
				}
			}
		case "custody":
			for n := 1 + r.Intn(3); n > 0; n-- {
				bs.Txs = append(bs.Txs, w.custodyOp(1+r.Intn(3)))
			}
		}
		h.Blocks = append(h.Blocks, bs)
	}
	return h
}

// targetedHistories: small histories aimed at one mechanism each.
func targetedHistories(r *hx.Rng, seed uint64) []*History {
	var hs []*History
	{ // polls: create (stored end time), vote around the end time, end blocker around the end time
		cfg := baseCfg(seed, 900)
		w := newWorld(r, cfg)
		h := &History{Name: "polls-targeted", Class: "polls", Cfg: cfg}
		h.Blocks = []BlockSpec{
			{Req: abci.BlockReq{Dt: 5}, Txs: []TxSpec{w.pollCreate("60ms"), w.pollCreate("1h")}},
			{Req: abci.BlockReq{Dt: 5}, Txs: []TxSpec{w.pollVote(1), w.pollVote(2)}, SleepMs: 50},
			{Req: abci.BlockReq{Dt: 5}, Txs: []TxSpec{w.bankSend()}},
		}
		hs = append(hs, h)
	}
	for rep := 0; rep < 3; rep++ { // custody map<> records with several entries
		cfg := baseCfg(seed, 910+rep)
		w := newWorld(r, cfg)
		h := &History{Name: fmt.Sprintf("custody-targeted-%d", rep), Class: "custody", Cfg: cfg}
		a := w.acc[1].Addr
		k1, k2, k3 := "p1", "p2", "p3"
		h.Blocks = []BlockSpec{
			{Req: abci.BlockReq{Dt: 5}, Txs: []TxSpec{tx(1, "a1", custodytypes.NewMsgCreateCustody(a, custodytypes.CustodySettings{CustodyEnabled: true, CustodyMode: 50}, "", sha256hex(k1), "", ""))}},
			{Req: abci.BlockReq{Dt: 5}, Txs: []TxSpec{tx(1, "a1 +6", custodytypes.NewMsgAddToCustodyWhiteList(a, w.someAddrs(6), k1, sha256hex(k2), "", ""))}},
			{Req: abci.BlockReq{Dt: 5}, Txs: []TxSpec{tx(1, "a1 +6", custodytypes.NewMsgAddToCustodyCustodians(a, w.someAddrs(6), k2, sha256hex(k3), "", ""))}},
		}
		hs = append(hs, h)
	}
	{ // custody limits: the status record can only be seeded through the keeper (no message creates it)
		cfg := baseCfg(seed, 920)
		w := newWorld(r, cfg)
		h := &History{Name: "custody-limits-targeted", Class: "custody-limits", Cfg: cfg}
		a := w.acc[1].Addr
		h.Blocks = []BlockSpec{
			{Req: abci.BlockReq{Dt: 5}, Txs: []TxSpec{tx(1, "a1 limits", custodytypes.NewMsgCreateCustody(a, custodytypes.CustodySettings{CustodyEnabled: false, UseLimits: true}, "", sha256hex("q1"), "", ""))}},
			{Req: abci.BlockReq{Dt: 5}, Txs: []TxSpec{tx(1, "a1 ukex 5000/1s", custodytypes.NewMsgAddToCustodyLimits(a, "ukex", 5000, "1s", "q1", sha256hex("q2"), "", ""))},
				HookName: "seed-custody-limit-status", Hook: func(c *abci.Chain) {
					c.App.CustodyKeeper.AddToCustodyLimitsStatus(c.Ctx(), custodytypes.CustodyLimitStatusRecord{Address: c.Accounts[1].Addr,
						CustodyStatuses: &custodytypes.CustodyStatuses{Statuses: map[string]*custodytypes.CustodyStatus{"ukex": {Amount: 7, Time: 0}}}})
				}},
			{Req: abci.BlockReq{Dt: 5}, Txs: []TxSpec{tx(1, "a1->a2 100ukex (limited)", banktypes.NewMsgSend(a, w.acc[2].Addr, coins("ukex", 100)))}, SleepMs: 1100},
		}
		hs = append(hs, h)
	}
	{ // execution fees changed inside a block, then used: off-consensus reads (queries, CheckTx, Simulate on
		// replica 1; restart on replica 2) between the write and the next use must not matter
		cfg := baseCfg(seed, 925)
		w := newWorld(r, cfg)
		h := &History{Name: "execution-fee-change-then-use", Class: "offconsensus", Cfg: cfg}
		a0 := w.acc[0].Addr
		setFee := func(t string, exec, fail uint64) TxSpec {
			return tx(0, fmt.Sprintf("%s exec %d failure %d", t, exec, fail), govtypes.NewMsgSetExecutionFee(t, exec, fail, 0, 0, a0))
		}
		prop := func() TxSpec { return w.proposal()[0] }
		netp := func() TxSpec {
			t := w.netProps()
			for t.Note[:5] == "min 0" {
				t = w.netProps()
			}
			return t
		}
		// the transaction fee is 1000ukex: a message whose execution / failure fee exceeds it is refused by the ante handler
		sp, np := kiratypes.MsgTypeSubmitProposal, kiratypes.MsgTypeSetNetworkProperties
		h.Blocks = []BlockSpec{
			{Req: abci.BlockReq{Dt: 5}, Txs: []TxSpec{setFee(sp, 100, 300), setFee(np, 50, 250), prop()}},
			{Req: abci.BlockReq{Dt: 5}, Txs: []TxSpec{prop(), setFee(sp, 100, 5000), prop(), netp(), setFee(np, 4000, 700), netp(), prop()}},
			{Req: abci.BlockReq{Dt: 5}, Txs: []TxSpec{prop(), netp(), setFee(sp, 400, 450), prop(), prop(), setFee(np, 10, 20), netp()}},
			{Req: abci.BlockReq{Dt: 5}, Txs: []TxSpec{netp(), prop(), w.bankSend()}},
		}
		hs = append(hs, h)
	}
	{ // genesis with time-keyed records to import: basket historical mints / burns / swaps (store keys are built from
		// times made by time.Unix, which carry the host's local zone) and undelegations with expiries; the
		// child-process replica lives in another time zone
		cfg := baseCfg(seed, 935)
		w := newWorld(r, cfg)
		h := &History{Name: "genesis-time-keyed", Class: "genesis", Cfg: cfg, Extra: []string{"genesis:time-keyed-records"}}
		base := uint64(hx.BaseTime.Unix())
		h.GenesisMod = func(app *simapp.SekaiApp, gs simapp.GenesisState) {
			var bg baskettypes.GenesisState
			if len(gs[baskettypes.ModuleName]) > 0 {
				app.AppCodec().MustUnmarshalJSON(gs[baskettypes.ModuleName], &bg)
			}
			for i := uint64(0); i < 6; i++ {
				bg.HistoricalMints = append(bg.HistoricalMints, baskettypes.AmountAtTime{BasketId: 1 + i%2, Time: base - 3600*i - 17, Amount: sdk.NewInt(int64(1000 + i))})
				bg.HistoricalBurns = append(bg.HistoricalBurns, baskettypes.AmountAtTime{BasketId: 1 + i%2, Time: base - 7200*i - 3, Amount: sdk.NewInt(int64(500 + i))})
				bg.HistoricalSwaps = append(bg.HistoricalSwaps, baskettypes.AmountAtTime{BasketId: 1, Time: base - 86400*i, Amount: sdk.NewInt(int64(70 + i))})
			}
			bg.LastBasketId = 1
			bg.Baskets = append(bg.Baskets, baskettypes.Basket{Id: 1, Suffix: "bk", Description: "genesis basket", Amount: sdk.ZeroInt(), SwapFee: sdk.NewDecWithPrec(1, 2),
				SlipppageFeeMin: sdk.NewDecWithPrec(1, 2), TokensCap: sdk.OneDec(), LimitsPeriod: 3 * 86400, MintsMin: sdk.OneInt(), MintsMax: sdk.NewInt(3500),
				BurnsMin: sdk.OneInt(), BurnsMax: sdk.NewInt(3500), SwapsMin: sdk.OneInt(), SwapsMax: sdk.NewInt(3500),
				Tokens: []baskettypes.BasketToken{{Denom: "ukex", Weight: sdk.OneDec(), Amount: sdk.ZeroInt(), Deposits: true, Withdraws: true, Swaps: true},
					{Denom: "ubtc", Weight: sdk.NewDec(10), Amount: sdk.ZeroInt(), Deposits: true, Withdraws: true, Swaps: true}}})
			gs[baskettypes.ModuleName] = app.AppCodec().MustMarshalJSON(&bg)
			var mg mstypes.GenesisState
			if len(gs[mstypes.ModuleName]) > 0 {
				app.AppCodec().MustUnmarshalJSON(gs[mstypes.ModuleName], &mg)
			}
			for i := uint64(1); i <= 3; i++ {
				mg.Undelegations = append(mg.Undelegations, mstypes.Undelegation{Id: i, Address: w.acc[i].Addr.String(), ValAddress: w.val[0].ValAddr.String(), Expiry: base + 4*i, Amount: coins("ukex", int64(100*i))})
			}
			gs[mstypes.ModuleName] = app.AppCodec().MustMarshalJSON(&mg)
		}
		claim := func(i int) TxSpec {
			return tx(i, fmt.Sprintf("a%d", i), &mstypes.MsgClaimMaturedUndelegations{Sender: w.acc[i].Addr.String()})
		}
		mint := func(i int) TxSpec {
			return tx(i, fmt.Sprintf("a%d basket 1", i), &baskettypes.MsgBasketTokenMint{Sender: w.acc[i].Addr.String(), BasketId: 1, Deposit: coins("ukex", int64(200*i))})
		}
		h.Blocks = []BlockSpec{
			{Req: abci.BlockReq{Dt: 5}, Txs: []TxSpec{w.bankSend(), claim(1), mint(2)}},
			{Req: abci.BlockReq{Dt: 5}, Txs: []TxSpec{claim(2), claim(3), mint(1)}},
			{Req: abci.BlockReq{Dt: 86400}, Txs: []TxSpec{claim(3), w.bankSend(), mint(3)}},
			{Req: abci.BlockReq{Dt: 3 * 86400}, Txs: []TxSpec{mint(4), mint(5)}},
		}
		hs = append(hs, h)
	}
	{ // genesis: gov InitGenesis ranges the ProposalDurations map and stops at the first invalid entry
		cfg := baseCfg(seed, 930)
		cfg.Gov = func(g *govtypes.GenesisState) {
			g.ProposalDurations = map[string]uint64{"SetNetworkProperty": 600, "UpsertDataRegistry": 700, "SetPoorNetworkMessages": 800, "CreateRole": 900,
				"AssignRoleToAccount": 1000, "WhitelistAccountPermission": 1100, "TooShort": 1, "UpsertTokenInfos": 1200}
		}
		w := newWorld(r, cfg)
		h := &History{Name: "genesis-proposal-durations-invalid-entry", Class: "genesis", Cfg: cfg, Extra: []string{"genesis:proposal-durations-invalid-entry"}}
		h.Blocks = []BlockSpec{{Req: abci.BlockReq{Dt: 5}, Txs: []TxSpec{w.bankSend()}}}
		hs = append(hs, h)
	}
	{ // genesis: the same map with valid entries only (must not diverge)
		cfg := baseCfg(seed, 931)
		cfg.Gov = func(g *govtypes.GenesisState) {
			g.ProposalDurations = map[string]uint64{"SetNetworkProperty": 600, "UpsertDataRegistry": 700, "SetPoorNetworkMessages": 800, "CreateRole": 900,
				"AssignRoleToAccount": 1000, "WhitelistAccountPermission": 1100, "UpsertTokenInfos": 1200}
		}
		w := newWorld(r, cfg)
		h := &History{Name: "genesis-proposal-durations-valid", Class: "genesis", Cfg: cfg, Extra: []string{"genesis:proposal-durations-valid"}}
		h.Blocks = []BlockSpec{{Req: abci.BlockReq{Dt: 5}, Txs: []TxSpec{w.bankSend()}}}
		hs = append(hs, h)
	}
	return hs
}
