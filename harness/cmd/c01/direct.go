package main

import (
	"bytes"
	"fmt"
	"sort"
	"time"

	"verif/harness/abci"
	"verif/harness/hx"

	customante "github.com/KiraCore/sekai/app/ante"
	custodytypes "github.com/KiraCore/sekai/x/custody/types"
	gov "github.com/KiraCore/sekai/x/gov"
	govkeeper "github.com/KiraCore/sekai/x/gov/keeper"
	govtypes "github.com/KiraCore/sekai/x/gov/types"
	"github.com/cosmos/cosmos-sdk/codec"
	sdk "github.com/cosmos/cosmos-sdk/types"
	banktypes "github.com/cosmos/cosmos-sdk/x/bank/types"
)

// ---------------------------------------------------------------- CPoll

type pollRun struct {
	Lo, Hi, End    int64
	VLo, VHi       int64
	Vote           bool
	ELo, EHi       int64
	Done           bool
	CreateErr      string
	sleepV, sleepE time.Duration
}

func nowNs() int64 { return time.Now().UnixNano() }

func runPoll(c *abci.Chain, base sdk.Context, bt time.Time, dur string, btVote, btEnd time.Time, sleepV, sleepE time.Duration) pollRun {
	ctx, _ := base.CacheContext()
	ms := govkeeper.NewMsgServerImpl(c.App.CustomGovKeeper)
	k := c.App.CustomGovKeeper
	var r pollRun
	r.Lo = nowNs()
	resp, err := ms.PollCreate(sdk.WrapSDKContext(ctx.WithBlockTime(bt)),
		govtypes.NewMsgPollCreate(c.Accounts[0].Addr, "t", "d", "r", "c", []string{"x", "y"}, []string{"sudo"}, 3, "string", 1, dur))
	r.Hi = nowNs()
	if err != nil {
		r.CreateErr = err.Error()
		return r
	}
	p, err := k.GetPoll(ctx, resp.PollID)
	if err != nil {
		r.CreateErr = err.Error()
		return r
	}
	r.End = p.VotingEndTime.UnixNano()
	time.Sleep(sleepV)
	r.VLo = nowNs()
	_, err = ms.PollVote(sdk.WrapSDKContext(ctx.WithBlockTime(btVote)), govtypes.NewMsgVotePoll(resp.PollID, c.Accounts[0].Addr, govtypes.PollOptionCustom, "x"))
	r.VHi = nowNs()
	r.Vote = err == nil
	time.Sleep(sleepE)
	r.ELo = nowNs()
	gov.EndBlocker(ctx.WithBlockTime(btEnd), k)
	r.EHi = nowNs()
	p2, _ := k.GetPoll(ctx, resp.PollID)
	r.Done = p2.Result != govtypes.PollPending
	return r
}

// ---------------------------------------------------------------- CLimit

type limitRun struct {
	Lo, Hi int64
	New    int64
	OK     bool
	Err    string
}

func runLimit(c *abci.Chain, base sdk.Context, bt time.Time, old, amt, limAmount uint64, limit string) limitRun {
	ctx, _ := base.CacheContext()
	ctx = ctx.WithBlockTime(bt)
	a := c.Accounts[1].Addr
	ck := c.App.CustodyKeeper
	ck.SetCustodyRecord(ctx, custodytypes.CustodyRecord{Address: a, CustodySettings: &custodytypes.CustodySettings{UseLimits: true}})
	ck.AddToCustodyLimits(ctx, custodytypes.CustodyLimitRecord{Address: a, CustodyLimits: &custodytypes.CustodyLimits{Limits: map[string]*custodytypes.CustodyLimit{"ukex": {Amount: limAmount, Limit: limit}}}})
	ck.AddToCustodyLimitsStatus(ctx, custodytypes.CustodyLimitStatusRecord{Address: a, CustodyStatuses: &custodytypes.CustodyStatuses{Statuses: map[string]*custodytypes.CustodyStatus{"ukex": {Amount: old}}}})
	bz, err := c.BuildTx([]sdk.Msg{banktypes.NewMsgSend(a, c.Accounts[2].Addr, coins("ukex", int64(amt)))}, []int{1}, abci.DefaultFee())
	if err != nil {
		panic(err)
	}
	tx, err := c.Enc.TxConfig.TxDecoder()(bz)
	if err != nil {
		panic(err)
	}
	dec := customante.NewCustodyDecorator(ck, c.App.CustomGovKeeper)
	var r limitRun
	r.Lo = nowNs()
	p := hx.Try(func() {
		_, err = dec.AnteHandle(ctx, tx, false, func(ctx sdk.Context, tx sdk.Tx, simulate bool) (sdk.Context, error) { return ctx, nil })
	})
	r.Hi = nowNs()
	if p != "" {
		r.Err = "panic: " + p
		return r
	}
	if err != nil {
		r.Err = err.Error()
		return r
	}
	st := ck.GetCustodyLimitsStatusByAddress(ctx, a)
	r.OK = true
	r.New = int64(st.Statuses["ukex"].Amount) // may exceed 2^63: emitted through uint64 below
	return r
}

// ---------------------------------------------------------------- CMap

func keyOrder(bz []byte, keys []string) []int {
	type kp struct{ i, pos int }
	var ps []kp
	for i, k := range keys {
		ps = append(ps, kp{i, bytes.Index(bz, []byte(k))})
	}
	sort.Slice(ps, func(a, b int) bool { return ps[a].pos < ps[b].pos })
	var o []int
	for _, p := range ps {
		o = append(o, p.i)
	}
	return o
}

func mapOrders(cdc codec.Codec, typ string, n, reps int) [][]int {
	var keys []string
	for i := 0; i < n; i++ {
		keys = append(keys, fmt.Sprintf("<key-%02d>", i))
	}
	build := func() codec.ProtoMarshaler {
		switch typ {
		case "CustodyWhiteList":
			m := map[string]bool{}
			for _, k := range keys {
				m[k] = true
			}
			return &custodytypes.CustodyWhiteList{Addresses: m}
		case "CustodyCustodianList":
			m := map[string]bool{}
			for _, k := range keys {
				m[k] = true
			}
			return &custodytypes.CustodyCustodianList{Addresses: m}
		case "CustodyLimits":
			m := map[string]*custodytypes.CustodyLimit{}
			for _, k := range keys {
				m[k] = &custodytypes.CustodyLimit{Amount: 5, Limit: "1s"}
			}
			return &custodytypes.CustodyLimits{Limits: m}
		case "CustodyStatuses":
			m := map[string]*custodytypes.CustodyStatus{}
			for _, k := range keys {
				m[k] = &custodytypes.CustodyStatus{Amount: 5}
			}
			return &custodytypes.CustodyStatuses{Statuses: m}
		default:
			m := map[string]*custodytypes.TransactionRecord{}
			for _, k := range keys {
				m[k] = &custodytypes.TransactionRecord{Votes: 1}
			}
			return &custodytypes.TransactionPool{Record: m}
		}
	}
	var out [][]int
	for r := 0; r < reps; r++ {
		// the keeper's path: decode the stored record (a fresh Go map), encode it again
		bz := cdc.MustMarshal(build())
		out = append(out, keyOrder(bz, keys))
	}
	return out
}

func natList(xs []int) string {
	var q []string
	for _, x := range xs {
		q = append(q, fmt.Sprintf("%d%%nat", x))
	}
	return hx.List(q)
}

func optZ(ok bool, v int64) string {
	if !ok {
		return "None"
	}
	return "(Some " + hx.ZU(uint64(v)) + ")"
}

// direct observations of the three mechanisms (keeper / msg-server / ante / codec level)
func direct(r *hx.Rng, seed uint64, emit func(string, jCase), dist hx.Counter) {
	c := abci.NewChain(baseCfg(seed, 990))
	c.BeginBlock(abci.BlockReq{Dt: 5})
	base := c.Ctx()
	bt := c.Time

	// ---- polls: A votes / ends at once, B after the wall-clock end of a short poll
	type pc struct {
		dur            string
		durNs          int64
		dVote, dEnd    time.Duration
		sleepV, sleepE time.Duration
	}
	pcs := []pc{
		{"40ms", 40e6, 0, 5 * time.Second, 50 * time.Millisecond, 0},
		{"40ms", 40e6, 0, 0, 0, 50 * time.Millisecond},
		{"1h", 3600e9, 0, 2 * time.Hour, 0, 0},
		{"1s", 1e9, 2 * time.Second, 5 * time.Second, 0, 0},
		{"30ms", 30e6, 10 * time.Millisecond, 20 * time.Millisecond, 20 * time.Millisecond, 20 * time.Millisecond},
	}
	for i, p := range pcs {
		btV, btE := bt.Add(p.dVote), bt.Add(p.dEnd)
		a := runPoll(c, base, bt, p.dur, btV, btE, 0, 0)
		b := runPoll(c, base, bt, p.dur, btV, btE, p.sleepV, p.sleepE)
		if a.CreateErr != "" || b.CreateErr != "" {
			panic("poll create failed: " + a.CreateErr + b.CreateErr)
		}
		s := fmt.Sprintf("CPoll %s %s %s %s %s %s %s %s %s %s %s %s %s %s %s %s %s %s %s %s %s %s",
			hx.Z(bt.UnixNano()), hx.Z(p.durNs), hx.Z(a.Lo), hx.Z(a.Hi), hx.Z(a.End), hx.Z(b.Lo), hx.Z(b.Hi), hx.Z(b.End),
			hx.Z(btV.UnixNano()), hx.Z(a.VLo), hx.Z(a.VHi), hx.B(a.Vote), hx.Z(b.VLo), hx.Z(b.VHi), hx.B(b.Vote),
			hx.Z(btE.UnixNano()), hx.Z(a.ELo), hx.Z(a.EHi), hx.B(a.Done), hx.Z(b.ELo), hx.Z(b.EHi), hx.B(b.Done))
		div := a.End != b.End || a.Vote != b.Vote || a.Done != b.Done
		emit(s, jCase{Kind: "poll", Name: fmt.Sprintf("poll-direct-%d", i), Seed: seed, Diverge: div,
			Detail: map[string]interface{}{"block_time_ns": bt.UnixNano(), "duration": p.dur, "vote_block_time_offset": p.dVote.String(), "end_block_time_offset": p.dEnd.String(),
				"run_a": a, "run_b": b, "run_b_sleep_before_vote": p.sleepV.String(), "run_b_sleep_before_end_blocker": p.sleepE.String()}})
		dist.Inc("direct:poll")
	}

	// ---- custody limits: all A runs, one pause of more than a second, all B runs
	type lc struct {
		old, amt, lim uint64
		limit         string
		ms            uint64
	}
	var lcs []lc
	for i := 0; i < 6; i++ {
		l := lc{old: uint64(r.Range(0, 1000)), amt: uint64(r.Range(1, 5000)), lim: uint64(r.Range(500, 20000)), limit: "1s", ms: 1000}
		if i%3 == 1 {
			l.limit, l.ms = "2s", 2000
		}
		if i%3 == 2 {
			l.limit, l.ms = "500ms", 500
		}
		lcs = append(lcs, l)
	}
	var as, bs []limitRun
	for _, l := range lcs {
		as = append(as, runLimit(c, base, bt, l.old, l.amt, l.lim, l.limit))
	}
	time.Sleep(1050 * time.Millisecond)
	for _, l := range lcs {
		bs = append(bs, runLimit(c, base, bt, l.old, l.amt, l.lim, l.limit))
	}
	for i, l := range lcs {
		a, b := as[i], bs[i]
		s := fmt.Sprintf("CLimit %s %s %s %s %s %s %s %s %s %s", hx.Z(bt.UnixNano()), hx.ZU(l.old), hx.ZU(l.amt), hx.ZU(l.lim/l.ms),
			hx.Z(a.Lo), hx.Z(a.Hi), optZ(a.OK, a.New), hx.Z(b.Lo), hx.Z(b.Hi), optZ(b.OK, b.New))
		emit(s, jCase{Kind: "custody-limit", Name: fmt.Sprintf("custody-limit-direct-%d", i), Seed: seed, Diverge: a.OK != b.OK || a.New != b.New,
			Detail: map[string]interface{}{"status_amount_before": l.old, "send_amount": l.amt, "limit_amount": l.lim, "limit": l.limit, "run_a": a, "run_b": b,
				"note": "status record seeded through the keeper: no message creates it (the first limited send panics on the nil record)"}})
		dist.Inc("direct:custody-limit")
	}

	// ---- protobuf encodings of the custody map<> records
	for _, typ := range []string{"CustodyWhiteList", "CustodyCustodianList", "CustodyLimits", "CustodyStatuses", "TransactionPool"} {
		for _, n := range []int{1, 2, 5} {
			os := mapOrders(c.App.AppCodec(), typ, n, 16)
			var q []string
			distinct := map[string]bool{}
			for _, o := range os {
				q = append(q, natList(o))
				distinct[fmt.Sprint(o)] = true
			}
			emit(fmt.Sprintf("CMap %s %d%%nat %s", hx.Str(typ), n, hx.List(q)),
				jCase{Kind: "map-encoding", Name: fmt.Sprintf("map-encoding-%s-%d", typ, n), Seed: seed, Diverge: len(distinct) > 1,
					Detail: map[string]interface{}{"type": typ, "keys": n, "marshal_calls": len(os), "distinct_key_orders": len(distinct)}})
			dist.Inc("direct:map-encoding")
		}
	}
}
