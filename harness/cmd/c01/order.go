package main

// Module order.  (1) The ACTUAL begin / end / init-genesis order of several freshly constructed
// application instances is read from their module managers: independently started replicas must
// have the same one.  (2) A history in which two end blockers touch the same state in one block (a
// dApp bootstrap ending -- layer2 creates spending pool dp_<dapp> -- while a collective distributes
// rewards into that pool), so that replicas with different orders commit different states.

import (
	"fmt"
	"reflect"
	"strings"
	"unsafe"

	"verif/harness/abci"
	"verif/harness/hx"

	simapp "github.com/KiraCore/sekai/app"
	collectivestypes "github.com/KiraCore/sekai/x/collectives/types"
	layer2types "github.com/KiraCore/sekai/x/layer2/types"
	mstypes "github.com/KiraCore/sekai/x/multistaking/types"
	sdk "github.com/cosmos/cosmos-sdk/types"
	"github.com/cosmos/cosmos-sdk/types/module"
	authtypes "github.com/cosmos/cosmos-sdk/x/auth/types"
	banktypes "github.com/cosmos/cosmos-sdk/x/bank/types"
)

type moduleOrders struct {
	Begin, End, Init []string
}

// the module manager is an unexported field of the application: read it (only read) through reflection
func ordersOf(app *simapp.SekaiApp) (o moduleOrders, err string) {
	err = hx.Try(func() {
		f := reflect.ValueOf(app).Elem().FieldByName("mm")
		mm := *(**module.Manager)(unsafe.Pointer(f.UnsafeAddr()))
		o = moduleOrders{append([]string{}, mm.OrderBeginBlockers...), append([]string{}, mm.OrderEndBlockers...), append([]string{}, mm.OrderInitGenesis...)}
	})
	return
}

func freshOrders(n int) []moduleOrders {
	var out []moduleOrders
	for i := 0; i < n; i++ {
		app, _ := abci.NewApp()
		if o, e := ordersOf(app); e == "" {
			out = append(out, o)
		}
	}
	return out
}

func emitOrders(all []moduleOrders, seed uint64, emit func(string, jCase), dist hx.Counter) {
	for _, which := range []string{"BeginBlockers", "EndBlockers", "InitGenesis"} {
		var q []string
		distinct := map[string]bool{}
		var lists [][]string
		for _, o := range all {
			l := map[string][]string{"BeginBlockers": o.Begin, "EndBlockers": o.End, "InitGenesis": o.Init}[which]
			q = append(q, strList(l))
			distinct[strings.Join(l, ",")] = true
			lists = append(lists, l)
		}
		emit(fmt.Sprintf("COrder %s %s", hx.Str(which), hx.List(q)), jCase{Kind: "module-order", Name: "module-order-" + which, Seed: seed, Diverge: len(distinct) > 1,
			Detail: map[string]interface{}{"instances": len(all), "distinct_orders": len(distinct), "orders": lists,
				"note": "the last instance(s) were constructed in the child process"}})
		dist.Inc("direct:module-order")
	}
}

// recipeEndBlockerInteraction: layer2 and collectives end blockers touch spending pool dp_seed in the same block
func recipeEndBlockerInteraction(r *hx.Rng, seed uint64, rep int) *History {
	cfg := baseCfg(seed, 985+rep)
	w := newWorld(r, cfg)
	h := &History{Name: fmt.Sprintf("end-blocker-interaction-%d", rep), Class: "recipe:end-blocker-interaction", Cfg: cfg, Extra: []string{"stream:end-blocker-interaction"}}
	user := w.acc[1].Addr
	v0 := w.val[0].ValAddr.String()
	coll := collectivestypes.Collective{Name: "seedcollective"}
	h.GenesisMod = func(app *simapp.SekaiApp, gs simapp.GenesisState) {
		cdc := app.AppCodec()
		ms := mstypes.GenesisState{
			Pools:   []mstypes.StakingPool{{Id: 1, Validator: v0, Enabled: true, Commission: sdk.NewDecWithPrec(5, 1)}},
			Rewards: []mstypes.Rewards{{Delegator: coll.GetCollectiveAddress().String(), Rewards: coins("ukex", 1_000_000)}},
		}
		gs[mstypes.ModuleName] = cdc.MustMarshalJSON(&ms)
		var bank banktypes.GenesisState
		cdc.MustUnmarshalJSON(gs[banktypes.ModuleName], &bank)
		cf := coins("ukex", 1_000_000_000)
		bank.Balances = append(bank.Balances, banktypes.Balance{Address: authtypes.NewModuleAddress(authtypes.FeeCollectorName).String(), Coins: cf})
		bank.Supply = bank.Supply.Add(cf...)
		gs[banktypes.ModuleName] = cdc.MustMarshalJSON(&bank)
	}
	dapp := layer2types.Dapp{Name: "seed", Denom: "seed", Description: "seed dapp",
		Controllers: layer2types.Controllers{Whitelist: layer2types.AccountRange{Roles: []uint64{1}, Addresses: []string{user.String()}}},
		Bin:         []layer2types.BinaryInfo{{Name: "seed", Hash: "seed", Source: "seed", Reference: "seed", Type: "seed"}},
		Pool:        layer2types.LpPoolConfig{Ratio: sdk.OneDec(), Drip: 86400},
		Issuance:    layer2types.IssuanceConfig{Premint: sdk.ZeroInt(), Postmint: sdk.ZeroInt()},
		VoteQuorum:  sdk.NewDecWithPrec(30, 2), VotePeriod: 86400, VoteEnactment: 3000, UpdateTimeMax: 60, ExecutorsMin: 1, ExecutorsMax: 2, VerifiersMin: 1,
		PoolFee: sdk.NewDecWithPrec(1, 2)}
	mkColl := collectivestypes.NewMsgCreateCollective(user, coll.Name, "seed collective", sdk.NewCoins(sdk.NewInt64Coin("v1/ukex", 200_000_000_000)),
		collectivestypes.DepositWhitelist{Any: true}, collectivestypes.OwnersWhitelist{Accounts: []string{user.String()}},
		[]collectivestypes.WeightedSpendingPool{{Name: "dp_seed", Weight: sdk.OneDec()}}, 0, 86400, 0, sdk.NewDecWithPrec(30, 2), 86400, 3000)
	h.Blocks = []BlockSpec{
		{Req: abci.BlockReq{Dt: 5}, Txs: []TxSpec{
			tx(1, "a1->v0 200000KEX", &mstypes.MsgDelegate{DelegatorAddress: user.String(), ValidatorAddress: v0, Amounts: coins("ukex", 200_000_000_000)}),
			tx(1, "dapp seed, bond 2000000KEX", &layer2types.MsgCreateDappProposal{Sender: user.String(), Dapp: dapp, Bond: sdk.NewCoin("ukex", sdk.NewInt(2_000_000).Mul(sdk.NewInt(1_000_000)))})}},
		// eight days later the bootstrap period ends; the collective is created in the same block
		{Req: abci.BlockReq{Dt: 8 * 86400}, Txs: []TxSpec{tx(1, "collective with spending pool dp_seed", mkColl)}},
		{Req: abci.BlockReq{Dt: 86400}, Txs: []TxSpec{w.bankSend()}},
		{Req: abci.BlockReq{Dt: 86400}, Txs: []TxSpec{w.bankSend()}},
	}
	return h
}
