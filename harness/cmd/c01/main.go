// c01: replica harness for property C01 (replicated execution is deterministic).
//
// The same generated block history (genesis + blocks of real signed transactions of many modules,
// commit votes, evidence, header times) is executed on k independently constructed applications
// (fresh MemDB each, run one after the other, in different goroutines, at different wall-clock
// times).  After every block the application hash, every DeliverTx result (code, data, gas, events),
// the EndBlock validator updates and a digest of every store key-prefix are recorded per replica.
// The Coq spec checker (Model/C01Check.v) demands that all replicas agree.
//
// Three further case kinds observe the three environment-consulting mechanisms directly and are
// compared with the model of Model/Determinism.v (correspondence): CPoll (msg server + end blocker
// of polls, twice at different wall-clock times), CLimit (CustodyDecorator limits path on a
// keeper-seeded status record), CMap (protobuf encodings of the custody map<> records).
package main

import (
	"crypto/sha256"
	"encoding/hex"
	"flag"
	"fmt"
	"os"
	"os/exec"
	"path/filepath"
	"runtime"
	"runtime/debug"
	"sort"
	"strings"
	"sync"
	"time"

	"encoding/json"

	"verif/harness/abci"
	"verif/harness/hx"

	simapp "github.com/KiraCore/sekai/app"
	dbm "github.com/cometbft/cometbft-db"
	"github.com/cometbft/cometbft/libs/log"
	"github.com/cosmos/cosmos-sdk/baseapp"
	simtestutil "github.com/cosmos/cosmos-sdk/testutil/sims"

	custodytypes "github.com/KiraCore/sekai/x/custody/types"
	govtypes "github.com/KiraCore/sekai/x/gov/types"
	abcitypes "github.com/cometbft/cometbft/abci/types"
	sdk "github.com/cosmos/cosmos-sdk/types"
)

// ---------------------------------------------------------------- history description

type TxSpec struct {
	Kind    string
	Msgs    []sdk.Msg
	Signers []int
	Note    string
}

type BlockSpec struct {
	Req      abci.BlockReq
	Txs      []TxSpec
	Hook     func(c *abci.Chain) // deterministic direct keeper set-up on the deliver state (same on every replica)
	HookName string
	SleepMs  int       // replica r sleeps r*SleepMs before this block (replicas execute at different wall-clock times)
	At       time.Time // absolute header time of this block (zero: previous + Req.Dt)
	Ns       int64     // nanoseconds added to the header time (header times are not whole seconds on a real chain)
}

type History struct {
	Name   string
	Class  string // mixed | polls | custody | custody-limits | genesis
	Cfg    abci.Config
	Extra  []string // extra kinds (genesis / hook features)
	Blocks []BlockSpec
	// GenesisMod edits the module genesis states before InitChain (time-keyed records to import ...)
	GenesisMod func(app *simapp.SekaiApp, gs simapp.GenesisState)
	// Threshold: histories of the wall-clock stream place every stored time threshold at this REAL instant; the in-process
	// replicas run before it, the late replica after it (a node replaying the chain later / with a shifted clock)
	Threshold time.Time
	Start     time.Time // genesis time (zero: hx.BaseTime)
}

type TxObs struct {
	Kind   string `json:"kind"`
	Code   uint32 `json:"code"`
	Result string `json:"result"` // code/gas/data digest
	Events string `json:"events"` // count/digest of the events
	Panic  string `json:"panic,omitempty"`
	Log    string `json:"log,omitempty"`
}

type BlockObs struct {
	Height  int64             `json:"height"`
	Hash    string            `json:"app_hash"`
	Txs     []TxObs           `json:"txs"`
	Updates string            `json:"validator_updates"`
	Stores  map[string]string `json:"stores,omitempty"`
	Panics  []string          `json:"panics,omitempty"`
}

func short(b []byte) string {
	h := sha256.Sum256(b)
	return hex.EncodeToString(h[:6])
}

func kindOf(m sdk.Msg) string {
	u := strings.TrimPrefix(sdk.MsgTypeURL(m), "/")
	p := strings.Split(u, ".")
	name := p[len(p)-1]
	mod := p[0]
	if len(p) >= 2 {
		mod = p[1]
	}
	if mod == "gov" || mod == "bank" && name != "MsgSend" {
		return name
	}
	if mod == "bank" {
		return "bank.MsgSend"
	}
	return mod + "." + name
}

// label of a store key: the leading run of [a-z_] cut back to its last '_', else the first byte in hex
func keyLabel(store string, k []byte) string {
	n := 0
	for n < len(k) && (k[n] == '_' || (k[n] >= 'a' && k[n] <= 'z')) {
		n++
	}
	if n >= 4 {
		s := string(k[:n])
		// textual prefixes of the form "<module>_<what>_prefix_" are followed by raw address bytes, which may
		// themselves look like lower-case letters or '_': the label ends at the marker, whatever follows
		if i := strings.Index(s, "_prefix_"); i >= 0 {
			return store + "/" + s[:i+len("_prefix_")]
		}
		if i := strings.LastIndexByte(s, '_'); i >= 3 {
			return store + "/" + s[:i+1]
		}
	}
	if len(k) == 0 {
		return store + "/empty"
	}
	return fmt.Sprintf("%s/0x%02x", store, k[0])
}

func storeDigests(c *abci.Chain) map[string]string {
	d := c.DumpStores(c.QueryCtx())
	hs := map[string][]byte{}
	for name, kvs := range d {
		for _, kv := range kvs {
			l := keyLabel(name, kv.K)
			h := sha256.New()
			h.Write(hs[l])
			h.Write([]byte(fmt.Sprintf("%d:%d:", len(kv.K), len(kv.V))))
			h.Write(kv.K)
			h.Write(kv.V)
			hs[l] = h.Sum(nil)
		}
	}
	out := map[string]string{}
	for l, h := range hs {
		out[l] = hex.EncodeToString(h[:6])
	}
	return out
}

func canonUpdates(us []abcitypes.ValidatorUpdate) string {
	var xs []string
	for _, u := range us {
		bz, _ := u.PubKey.Marshal()
		xs = append(xs, fmt.Sprintf("%s:%d", hex.EncodeToString(bz), u.Power))
	}
	// order is part of the response: not sorted
	return fmt.Sprintf("%d/%s", len(us), short([]byte(strings.Join(xs, ","))))
}

func deliver(c *abci.Chain, t TxSpec, off *offConsensus) TxObs {
	o := TxObs{Kind: t.Kind}
	defer func() {
		msgSeenMu.Lock()
		defer msgSeenMu.Unlock()
		for _, m := range t.Msgs {
			ar := msgSeen[sdk.MsgTypeURL(m)]
			if o.Code == 0 {
				ar[0]++
			} else {
				ar[1]++
			}
			msgSeen[sdk.MsgTypeURL(m)] = ar
		}
	}()
	bz, err := c.BuildTx(t.Msgs, t.Signers, abci.DefaultFee())
	if err != nil {
		o.Code, o.Result, o.Log = 1<<30, "build-error", err.Error()
		return o
	}
	if off != nil {
		off.beforeTx(bz)
	}
	var r abcitypes.ResponseDeliverTx
	o.Panic = hx.Try(func() { r = c.App.DeliverTx(abcitypes.RequestDeliverTx{Tx: bz}) })
	if off != nil {
		off.afterTx(bz, t.Msgs)
	}
	if o.Panic != "" {
		c.Panics = append(c.Panics, fmt.Sprintf("h%d DeliverTx: %s", c.Height, o.Panic))
	}
	o.Code = r.Code
	o.Result = fmt.Sprintf("%d/%d/%d/%s", r.Code, r.GasWanted, r.GasUsed, short(r.Data))
	var ev strings.Builder
	for _, e := range r.Events {
		ev.WriteString(e.Type)
		for _, a := range e.Attributes {
			ev.WriteString("|" + a.Key + "=" + a.Value)
		}
		ev.WriteString(";")
	}
	o.Events = fmt.Sprintf("%d/%s", len(r.Events), short([]byte(ev.String())))
	if r.Code != 0 {
		o.Log = r.Log
		if len(o.Log) > 160 {
			o.Log = o.Log[:160]
		}
	}
	return o
}

// newAppOn builds an application instance on the given database (loading its latest version).
func newAppOn(db dbm.DB) (*simapp.SekaiApp, simapp.EncodingConfig) {
	hx.SetConfig()
	enc := simapp.MakeEncodingConfig()
	app := simapp.NewInitApp(log.NewNopLogger(), db, nil, true, map[int64]bool{}, simapp.DefaultNodeHome, 5, enc, simtestutil.EmptyAppOptions{}, baseapp.SetChainID(abci.ChainID))
	return app, enc
}

func newChainOn(h *History, db dbm.DB) *abci.Chain {
	cfg := h.Cfg
	app, enc := newAppOn(db)
	gs, accs, vals := abci.GenesisFor(app, cfg)
	if h.GenesisMod != nil {
		h.GenesisMod(app, gs)
	}
	bz, err := json.MarshalIndent(gs, "", " ")
	if err != nil {
		panic(err)
	}
	c := &abci.Chain{App: app, Enc: enc, Accounts: accs, Validators: vals, Time: hx.BaseTime}
	if !h.Start.IsZero() {
		c.Time = h.Start
	}
	c.InitFrom(bz)
	return c
}

// restart: the node process stops after a commit and a new process (a new application object, no
// in-memory state carried over) continues from the database.
func restart(c *abci.Chain, db dbm.DB) *abci.Chain {
	app, enc := newAppOn(db)
	return &abci.Chain{App: app, Enc: enc, Accounts: c.Accounts, Validators: c.Validators, Height: c.Height, Time: c.Time, Panics: c.Panics}
}

// runReplica executes the history on a fresh application.  Replica 2 is restarted from its
// database in the middle of the history (the outcome must not depend on the process).
func runReplica(h *History, r int) []BlockObs {
	db := dbm.NewMemDB()
	c := newChainOn(h, db)
	var out []BlockObs
	var off *offConsensus
	if r == 1 {
		off = newOffConsensus(c, h)
		defer func() {
			offMu.Lock()
			for k, v := range off.stats {
				offStats[k] += v
			}
			offMu.Unlock()
		}()
	}
	for bi, b := range h.Blocks {
		if r == 2 && bi > 0 && bi == (len(h.Blocks)+1)/2 {
			c = restart(c, db)
		}
		if b.SleepMs > 0 && r > 0 {
			m := r
			if m > 2 {
				m = 1 // the child-process replica runs concurrently with the in-process ones
			}
			time.Sleep(time.Duration(m*b.SleepMs) * time.Millisecond)
		}
		np := len(c.Panics)
		if !b.At.IsZero() {
			dt := b.Req.Dt
			if dt <= 0 {
				dt = 5
			}
			c.Time = b.At.Add(-time.Duration(dt) * time.Second)
		}
		if b.Ns != 0 {
			c.Time = c.Time.Add(time.Duration(b.Ns))
		}
		c.BeginBlock(b.Req)
		if b.Hook != nil {
			if p := hx.Try(func() { b.Hook(c) }); p != "" {
				c.Panics = append(c.Panics, "hook "+b.HookName+": "+p)
			}
		}
		o := BlockObs{Height: c.Height}
		for ti, t := range b.Txs {
			o.Txs = append(o.Txs, deliver(c, t, off))
			if off != nil && ti == 0 {
				off.sweep() // every query method of every module, in the middle of the block
				off.unrelated(bi)
			}
		}
		if off != nil && len(b.Txs) == 0 {
			off.sweep()
		}
		e := c.EndBlock()
		o.Hash = e.AppHash
		o.Updates = canonUpdates(e.Updates)
		o.Stores = storeDigests(c)
		o.Panics = append([]string{}, c.Panics[np:]...)
		out = append(out, o)
	}
	return out
}

// replicas: r=0 on the main goroutine; r=1 in a goroutine of its own locked to an OS thread;
// r=2 while other goroutines allocate and force garbage collections (different schedules).
func runReplicas(h *History, k int) [][]BlockObs {
	res := make([][]BlockObs, k)
	for r := 0; r < k; r++ {
		switch r % 3 {
		case 0:
			res[r] = runReplica(h, r)
		case 1:
			done := make(chan struct{})
			go func(r int) {
				runtime.LockOSThread()
				defer runtime.UnlockOSThread()
				res[r] = runReplica(h, r)
				close(done)
			}(r)
			<-done
		default:
			stop := make(chan struct{})
			for g := 0; g < 4; g++ {
				go func() {
					var junk [][]byte
					for {
						select {
						case <-stop:
							return
						default:
							junk = append(junk, make([]byte, 1<<12))
							if len(junk) > 256 {
								junk = nil
								runtime.GC()
							}
							runtime.Gosched()
						}
					}
				}()
			}
			done := make(chan struct{})
			go func(r int) { res[r] = runReplica(h, r); close(done) }(r)
			<-done
			close(stop)
		}
	}
	return res
}

// ---------------------------------------------------------------- emit

type jBlock struct {
	Height  int64               `json:"height"`
	Dt      int64               `json:"dt"`
	Txs     []string            `json:"txs"`
	Hashes  []string            `json:"app_hash_per_replica"`
	Results [][]TxObs           `json:"tx_results_per_replica,omitempty"`
	Updates []string            `json:"validator_updates_per_replica"`
	Diff    map[string][]string `json:"store_prefix_digests_that_differ,omitempty"`
	Panics  [][]string          `json:"panics_per_replica,omitempty"`
}

type jCase struct {
	Kind    string      `json:"kind"`
	Name    string      `json:"name"`
	Class   string      `json:"class,omitempty"`
	Seed    uint64      `json:"seed"`
	Kinds   []string    `json:"kinds,omitempty"`
	Blocks  []jBlock    `json:"blocks,omitempty"`
	Diverge bool        `json:"diverges"`
	Detail  interface{} `json:"detail,omitempty"`
}

func allSame(xs []string) bool {
	for _, x := range xs {
		if x != xs[0] {
			return false
		}
	}
	return true
}

// digList: what the Coq checker receives for a per-replica observation list: a 7-hex-digit digest of each observation
// (it only tests equality; the readable values stay in cases.json)
func digList(xs []string) string {
	var q []string
	for _, x := range xs {
		h := sha256.Sum256([]byte(x))
		q = append(q, "\""+hex.EncodeToString(h[:4])[:7]+"\"")
	}
	return hx.List(q)
}

func strList(xs []string) string {
	var q []string
	for _, x := range xs {
		q = append(q, hx.Str(x))
	}
	return hx.List(q)
}

func emitReplicaCase(h *History, obs [][]BlockObs, seed uint64) (string, jCase) {
	k := len(obs)
	kindSet := map[string]bool{}
	for _, e := range h.Extra {
		kindSet[e] = true
	}
	var blocks []string
	jc := jCase{Kind: "replicas", Name: h.Name, Class: h.Class, Seed: seed}
	for bi, b := range h.Blocks {
		var hashes, upds []string
		for r := 0; r < k; r++ {
			hashes = append(hashes, obs[r][bi].Hash[:16])
			upds = append(upds, obs[r][bi].Updates)
		}
		jb := jBlock{Height: obs[0][bi].Height, Dt: b.Req.Dt, Hashes: hashes, Updates: upds}
		var txs []string
		for ti, t := range b.Txs {
			kindSet[t.Kind] = true
			if strings.Contains(t.Kind, "+") {
				for _, p := range strings.Split(t.Kind, "+") {
					kindSet[p] = true
				}
			}
			var rs, es []string
			for r := 0; r < k; r++ {
				rs = append(rs, obs[r][bi].Txs[ti].Result)
				es = append(es, obs[r][bi].Txs[ti].Events)
			}
			txs = append(txs, fmt.Sprintf("(%s, %s, %s)", hx.Str(t.Kind), digList(rs), digList(es)))
			jb.Txs = append(jb.Txs, t.Kind+" "+t.Note)
			if !allSame(rs) || !allSame(es) {
				jc.Diverge = true
			}
		}
		if b.HookName != "" {
			kindSet["hook:"+b.HookName] = true
		}
		// store prefixes whose digests differ between replicas (localisation)
		labels := map[string]bool{}
		for r := 0; r < k; r++ {
			for l := range obs[r][bi].Stores {
				labels[l] = true
			}
		}
		var ls []string
		for l := range labels {
			ls = append(ls, l)
		}
		sort.Strings(ls)
		var stores []string
		for _, l := range ls {
			var ds []string
			for r := 0; r < k; r++ {
				d, ok := obs[r][bi].Stores[l]
				if !ok {
					d = "absent"
				}
				ds = append(ds, d)
			}
			if !allSame(ds) {
				stores = append(stores, fmt.Sprintf("(%s, %s)", hx.Str(l), digList(ds)))
				if jb.Diff == nil {
					jb.Diff = map[string][]string{}
				}
				jb.Diff[l] = ds
			}
		}
		if !allSame(hashes) || !allSame(upds) || len(stores) > 0 {
			jc.Diverge = true
		}
		for r := 0; r < k; r++ {
			jb.Results = append(jb.Results, obs[r][bi].Txs)
			if len(obs[r][bi].Panics) > 0 {
				if jb.Panics == nil {
					jb.Panics = make([][]string, k)
				}
				jb.Panics[r] = obs[r][bi].Panics
			}
		}
		if !jc.Diverge {
			jb.Results = jb.Results[:1] // all equal: keep one
		}
		jc.Blocks = append(jc.Blocks, jb)
		blocks = append(blocks, fmt.Sprintf("mkB %s %s %s %s", digList(hashes), hx.List(txs), digList(upds), hx.List(stores)))
	}
	var kinds []string
	for kd := range kindSet {
		kinds = append(kinds, kd)
	}
	sort.Strings(kinds)
	jc.Kinds = kinds
	return fmt.Sprintf("CRep %s [%s]", strList(kinds), strings.Join(blocks, "; ")), jc
}

// ---------------------------------------------------------------- child-process replica (another host environment)

const childIndex = 3
const lateIndex = 4

var realNow time.Time
var focusMsgs []string
var earlyDone = map[string][]time.Time{}

type childReplica struct {
	Shape  string     `json:"shape"`
	Blocks []BlockObs `json:"blocks"`
}

type childResult struct {
	Zone          string                  `json:"zone"`
	OffsetSeconds int                     `json:"offset_seconds"`
	Home          string                  `json:"home"`
	Gomaxprocs    int                     `json:"gomaxprocs"`
	Replicas      map[string]childReplica `json:"replicas"`
	Orders        []moduleOrders          `json:"module_orders"`
	Build         string                  `json:"build"`
}

// historyShape: digest of the generated history (kinds, notes, block requests): parent and child
// regenerate the histories from the seed and must obtain the same ones
func historyShape(h *History) string {
	var b strings.Builder
	b.WriteString(h.Name + "|" + h.Class)
	for _, bl := range h.Blocks {
		fmt.Fprintf(&b, "|B%d,%d,%v,%v,%s,%d,%d", bl.Req.Dt, bl.Req.Proposer, bl.Req.Evidence, len(bl.Req.Absent), bl.HookName, bl.Ns, bl.At.UnixNano())
		for _, t := range bl.Txs {
			b.WriteString(";" + t.Kind + ":" + t.Note)
			for _, m := range t.Msgs {
				if bz, err := abciCodecMarshal(m); err == nil {
					b.WriteString(short(bz))
				}
			}
		}
	}
	return short([]byte(b.String()))
}

func abciCodecMarshal(m sdk.Msg) ([]byte, error) {
	if pm, ok := m.(interface{ Marshal() ([]byte, error) }); ok {
		return pm.Marshal()
	}
	return nil, fmt.Errorf("not a proto message")
}

// buildDescription: how this binary was built (source path as the compiler recorded it, -trimpath setting)
func buildDescription() string {
	_, file, _, _ := runtime.Caller(0)
	d := "source=" + file
	if bi, ok := debug.ReadBuildInfo(); ok {
		for _, st := range bi.Settings {
			if st.Key == "-trimpath" || st.Key == "-tags" {
				d += " " + st.Key + "=" + st.Value
			}
		}
	}
	return d
}

// startChild re-executes this binary as a replica living on a "different host": local time zone
// Asia/Tokyo (UTC+9), other HOME / HOSTNAME / locale, a single OS thread for goroutines.
func startChild(bin, outDir string, n, nrec int, only string, now int64, focus string) func() (*childResult, string) {
	if bin == "" {
		bin = os.Args[0]
	}
	dir := filepath.Join(outDir, "child")
	os.MkdirAll(dir, 0o755)
	args := []string{"-replica-child", "-tz-offset", "32400", "-out", dir, "-n", fmt.Sprint(n), "-recipes", fmt.Sprint(nrec)}
	if only != "" {
		args = append(args, "-only", only)
	}
	args = append(args, "-now", fmt.Sprint(now), "-focus", focus)
	cmd := exec.Command(bin, args...)
	var env []string
	for _, e := range os.Environ() {
		if !strings.HasPrefix(e, "TZ=") && !strings.HasPrefix(e, "HOME=") && !strings.HasPrefix(e, "HOSTNAME=") && !strings.HasPrefix(e, "GOMAXPROCS=") && !strings.HasPrefix(e, "LANG=") && !strings.HasPrefix(e, "LC_ALL=") {
			env = append(env, e)
		}
	}
	cmd.Env = append(env, "TZ=Asia/Tokyo", "HOME="+dir, "HOSTNAME=replica-child", "GOMAXPROCS=1", "LANG=ja_JP.UTF-8", "LC_ALL=ja_JP.UTF-8")
	cmd.Dir = dir
	var buf strings.Builder
	cmd.Stdout, cmd.Stderr = &buf, &buf
	if err := cmd.Start(); err != nil {
		return func() (*childResult, string) { return nil, err.Error() }
	}
	return func() (*childResult, string) {
		if err := cmd.Wait(); err != nil {
			o := buf.String()
			if len(o) > 1500 {
				o = o[len(o)-1500:]
			}
			return nil, err.Error() + ": " + o
		}
		bz, err := os.ReadFile(filepath.Join(dir, "replica.json"))
		if err != nil {
			return nil, err.Error()
		}
		var cr childResult
		if err := json.Unmarshal(bz, &cr); err != nil {
			return nil, err.Error()
		}
		return &cr, ""
	}
}

// ---------------------------------------------------------------- message coverage

var offStats = hx.Counter{} // off-consensus activity of replica 1 (all histories)
var offMu sync.Mutex

var msgSeen = map[string][2]int{} // type URL -> delivered and accepted / rejected (all replicas)
var msgSeenMu sync.Mutex

func c0Msgs() []string {
	_, enc := abci.NewApp()
	return enc.InterfaceRegistry.ListImplementations(sdk.MsgInterfaceProtoName)
}

func modOfURL(u string) (string, string) {
	p := strings.Split(strings.TrimPrefix(u, "/"), ".")
	name := p[len(p)-1]
	if len(p) >= 2 && p[0] == "kira" {
		return p[1], name
	}
	if len(p) >= 2 {
		return p[0] + "." + p[1], name
	}
	return p[0], name
}

// ---------------------------------------------------------------- main

func sha256hex(s string) string {
	h := sha256.Sum256([]byte(s))
	return hex.EncodeToString(h[:])
}

var _ = custodytypes.ModuleName
var _ = govtypes.ModuleName

func main() {
	outDir := flag.String("out", ".", "output directory")
	n := flag.Int("n", 24, "number of generated replica histories (on top of the targeted ones)")
	k := flag.Int("k", 3, "replicas per history")
	only := flag.String("only", "", "run only histories whose name contains this string")
	nrec := flag.Int("recipes", 2, "repetitions of the conflicting-entries recipes (map-iteration sites)")
	child := flag.Bool("replica-child", false, "internal: run as the child-process replica (other host environment) and write replica.json")
	tzoff := flag.Int("tz-offset", 0, "internal: seconds east of UTC of the child's local zone")
	nochild := flag.Bool("no-child", false, "do not start the child-process replica")
	childBin := flag.String("child-bin", "", "binary to execute as the child-process replica (a DIFFERENTLY BUILT harness: go build -trimpath); default: this binary")
	nowF := flag.Int64("now", 0, "internal: the real instant (unix seconds) the wall-clock stream is generated around")
	focus := flag.String("focus", "", "comma separated message names (MsgActivate,...) that reach a new environment site: added to the wall-clock stream probes")
	flag.Parse()
	if *nowF == 0 {
		*nowF = time.Now().Unix()
	}
	realNow = time.Unix(*nowF, 0).UTC()
	for _, f := range strings.Split(*focus, ",") {
		if f != "" {
			focusMsgs = append(focusMsgs, f)
		}
	}
	if *child {
		// the HOST environment of this replica differs: local time zone (TZ is set by the parent; the fixed zone below
		// makes sure of it even without a zoneinfo database), HOME, HOSTNAME, locale, GOMAXPROCS=1
		time.Local = time.FixedZone(fmt.Sprintf("UTC%+d", *tzoff/3600), *tzoff)
	}
	out := hx.Out{Dir: *outDir}
	seed := hx.Seed()
	rng := hx.NewRng(seed)
	dist := hx.Counter{}
	t0 := time.Now()

	var coq []string
	var js []jCase
	emit := func(s string, j jCase) { coq = append(coq, s); js = append(js, j) }

	hs := wallClockHistories(rng.Fork(), seed) // first: their in-process replicas must run before the threshold instant
	hs = append(hs, targetedHistories(rng.Fork(), seed)...)
	hs = append(hs, recipeHistories(rng.Fork(), seed, *nrec)...)
	for rep := 0; rep < *nrec+1; rep++ {
		hs = append(hs, recipeEndBlockerInteraction(rng.Fork(), seed, rep))
	}
	hs = append(hs, failingEnactments(rng.Fork(), seed))
	for i := 0; i < *n; i++ {
		hs = append(hs, genHistory(rng.Fork(), seed, i))
	}
	var run []*History
	for _, h := range hs {
		if *only == "" || strings.Contains(h.Name, *only) {
			run = append(run, h)
		}
	}
	if *child {
		res := map[string]childReplica{}
		for _, h := range run {
			res[h.Name] = childReplica{Shape: historyShape(h), Blocks: runReplica(h, childIndex)}
		}
		_, off := time.Now().Zone()
		out.WriteJSON("replica.json", childResult{Orders: freshOrders(3), Build: buildDescription(), Zone: time.Local.String(), OffsetSeconds: off, Home: os.Getenv("HOME"), Gomaxprocs: runtime.GOMAXPROCS(0), Replicas: res})
		return
	}
	var childWait func() (*childResult, string)
	if !*nochild {
		childWait = startChild(*childBin, *outDir, *n, *nrec, *only, *nowF, *focus)
	}
	all := make([][][]BlockObs, len(run))
	for i, h := range run {
		all[i] = runReplicas(h, *k)
		if !h.Threshold.IsZero() {
			earlyDone[h.Name] = append(earlyDone[h.Name], time.Now())
		}
	}
	var childOrders []moduleOrders
	childInfo := map[string]interface{}{"started": childWait != nil}
	if childWait != nil {
		cr, cerr := childWait()
		if cr == nil {
			panic("child-process replica failed: " + cerr)
		}
		childOrders = cr.Orders
		childInfo["build"], childInfo["parent_build"] = cr.Build, buildDescription()
		childInfo["zone"], childInfo["offset_seconds"], childInfo["home"], childInfo["gomaxprocs"] = cr.Zone, cr.OffsetSeconds, cr.Home, cr.Gomaxprocs
		for i, h := range run {
			c, ok := cr.Replicas[h.Name]
			if !ok || c.Shape != historyShape(h) || len(c.Blocks) != len(h.Blocks) {
				panic("child-process replica executed a different history for " + h.Name + " (generators must be deterministic)")
			}
			all[i] = append(all[i], c.Blocks)
		}
	}
	// the LATE replica of the wall-clock stream: the same block lists, executed after every stored threshold has passed in real time
	window := map[string]interface{}{}
	for i, h := range run {
		if h.Threshold.IsZero() {
			continue
		}
		early := true
		for _, t := range earlyDone[h.Name] {
			if !t.Before(h.Threshold) {
				early = false
			}
		}
		if d := time.Until(h.Threshold.Add(1200 * time.Millisecond)); d > 0 {
			time.Sleep(d)
		}
		all[i] = append(all[i], runReplica(h, lateIndex))
		window[h.Name] = map[string]interface{}{"threshold": h.Threshold.Format(time.RFC3339Nano), "in_process_replicas_ran_before_threshold": early,
			"late_replica_ran_at": time.Now().UTC().Format(time.RFC3339Nano)}
	}
	for i, h := range run {
		obs := all[i]
		s, j := emitReplicaCase(h, obs, seed)
		emit(s, j)
		dist.Inc("history:" + h.Class)
		if j.Diverge {
			dist.Inc("history-diverged:" + h.Class)
		}
		for _, b := range obs[0] {
			for _, t := range b.Txs {
				if t.Code == 0 {
					dist.Inc("tx:" + t.Kind + ":accepted")
				} else {
					dist.Inc("tx:" + t.Kind + ":rejected")
				}
			}
			dist.Inc("blocks")
			if len(b.Panics) > 0 {
				dist.Inc("blocks-with-recovered-panic")
			}
		}
	}
	if *only == "" {
		emitOrders(append(freshOrders(6), childOrders...), seed, emit, dist)
		direct(rng.Fork(), seed, emit, dist)
	}

	// per-module message coverage: every sdk.Msg implementation registered by the application vs. delivered
	cov := map[string]map[string][2]int{}
	for _, u := range c0Msgs() {
		mod, name := modOfURL(u)
		if cov[mod] == nil {
			cov[mod] = map[string][2]int{}
		}
		cov[mod][name] = [2]int{0, 0}
	}
	for u, ar := range msgSeen {
		mod, name := modOfURL(u)
		if cov[mod] == nil {
			cov[mod] = map[string][2]int{}
		}
		cov[mod][name] = ar
	}
	type modCov struct {
		Registered, Delivered, Accepted int
		NotDelivered                    []string `json:"not_delivered,omitempty"`
	}
	mcov := map[string]*modCov{}
	for mod, ms := range cov {
		mc := &modCov{}
		for name, ar := range ms {
			mc.Registered++
			if ar[0]+ar[1] > 0 {
				mc.Delivered++
			} else {
				mc.NotDelivered = append(mc.NotDelivered, name)
			}
			if ar[0] > 0 {
				mc.Accepted++
			}
		}
		sort.Strings(mc.NotDelivered)
		mcov[mod] = mc
	}
	out.WriteJSON("recipes.json", siteRecipes)

	var pre strings.Builder
	pre.WriteString("(* written by /verif/harness/cmd/c01 -- observations of the real code *)\n")
	pre.WriteString("From Sekai Require Import Base.Prelude Gen.NondetSites Model.Determinism Model.C01Check.\n")
	out.WriteFile("pre.v", pre.String())
	out.WriteFile("cases.txt", strings.Join(coq, "\n")+"\n")
	out.WriteJSON("meta.json", map[string]string{"case_type": "c01_case", "mismatch_fn": "c01_mismatches", "violation_fn": "c01_violations"})
	out.WriteJSON("cases.json", js)
	out.WriteJSON("dist.json", map[string]interface{}{"seed": seed, "cases": len(js), "replicas": *k, "counts": dist, "message_types_per_module": mcov, "off_consensus_activity_replica_1": offStats, "query_methods": len(allQueries), "child_process_replica": childInfo, "wall_clock_stream": window, "focus": focusMsgs, "harness_seconds": time.Since(t0).Seconds()})
	fmt.Fprintf(os.Stderr, "c01: %d cases in %.1fs\n", len(js), time.Since(t0).Seconds())
}
